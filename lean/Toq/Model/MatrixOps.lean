import Toq.Core.ND
import Toq.Core.Scalar
import Toq.Core.Rank
/-!
# Mirror models of the helper operations of `toqito/matrix_ops/*.py` and of the helper-type functions
of `toqito/matrix_props` (`majorizes.py`, `spark.py`, `commutant.py`)  (no Mathlib)

A matrix is a record `Mat α = (r, c, f)`: number of rows, number of columns and the entry function
`f : Nat → Nat → α` (only `f i j` with `i < r`, `j < c` is meaningful).  A column vector is an `r × 1`
matrix, a 1-D NumPy array of length `n` is handled by the driver as `1 × n` (NumPy's own promotion
rule in `np.kron`).

Python sources mirrored (line by line, see the docstring of each definition):
`vec.py`, `unvec.py`, `tensor.py` (all three argument forms and the `fast_exp` recursion),
`vectors_to_gram_matrix.py`, `to_density_matrix.py`, `calculate_vector_matrix_dimension.py`,
`majorizes.py` (vector branch), `spark.py`, and the linear system of `commutant.py`.
-/

namespace Toq.MatrixOps

/-- matrix as (rows, cols, entry function) -/
structure Mat (α : Type) where
  r : Nat
  c : Nat
  f : Nat → Nat → α

/-- shape of a 2-axis array -/
def shape2 (m n : Nat) : Nat → Nat := fun k => if k = 0 then m else n

/-- a matrix seen as a NumPy 2-d array -/
def Mat.toND (A : Mat α) : ND α := ⟨2, shape2 A.r A.c, fun idx => A.f (idx 0) (idx 1)⟩

/-! ## `vec` / `unvec` -/

/-- `vec(mat) = mat.reshape((-1, 1), order="F")` : an `(r*c) × 1` matrix -/
def vec (A : Mat α) : Mat α := ⟨A.r * A.c, 1, fun k _ => A.toND.vecF k⟩

/-- `vector.reshape(r, c, order="F")` for a flat vector -/
def unvecShape (v : Nat → α) (r c : Nat) : Mat α :=
  ⟨r, c, fun i j => (ND.ofFlatF v 2 (shape2 r c)).get (fun k => if k = 0 then i else j)⟩

/-- the default shape of `unvec`: `dim = int(np.sqrt(vector.size)); shape = dim, dim` -/
def unvecDefault (size : Nat) : Nat × Nat := (Nat.sqrt size, Nat.sqrt size)

/-- `unvec(vector, shape)`; `none` is NumPy's "cannot reshape array of size … into shape …" -/
def unvec (v : Nat → α) (size : Nat) (shape : Option (Nat × Nat)) : Option (Mat α) :=
  let s := match shape with
    | none => unvecDefault size
    | some s => s
  if s.1 * s.2 = size then some (unvecShape v s.1 s.2) else none

/-! ## Kronecker product and `tensor` -/

/-- `np.kron(A, B)` for 2-d operands: entry `(i1*p + i2, j1*q + j2) = A[i1,j1] * B[i2,j2]`
    where `B` is `p × q` -/
def kron [Mul α] (A B : Mat α) : Mat α :=
  ⟨A.r * B.r, A.c * B.c, fun i j => A.f (i / B.r) (j / B.c) * B.f (i % B.r) (j % B.c)⟩

/-- `np.eye(1)` -/
def eye1 [One α] : Mat α := ⟨1, 1, fun _ _ => 1⟩

/-- the nested helper of `tensor`:
```
def fast_exp(matrix, q):
    if q == 1: return matrix
    tmp = fast_exp(matrix, q >> 1)
    tmp = np.kron(tmp, tmp)
    if q & 1: tmp = np.kron(matrix, tmp)
    return tmp
```
(only called with `q ≥ 2`; `q ≤ 1` returns the matrix) -/
def fastExp [Mul α] (A : Mat α) (q : Nat) : Mat α :=
  if _h : q ≤ 1 then A
  else
    let tmp := fastExp A (q >>> 1)
    let tmp := kron tmp tmp
    if q &&& 1 = 1 then kron A tmp else tmp
termination_by q
decreasing_by
  rw [Nat.shiftRight_eq_div_pow]
  omega

/-- `result = a[0]; for i in range(1, len(a)): result = np.kron(result, a[i])` -/
def kronFold [Mul α] (A : Mat α) (rest : List (Mat α)) : Mat α := rest.foldl kron A

/-- the accepted argument forms of `tensor(*args)` -/
inductive TensorArgs (α : Type) where
  /-- `tensor([A_1, …, A_n])` -/
  | list (l : List (Mat α))
  /-- `tensor(A, n)` with a Python `int` -/
  | power (A : Mat α) (n : Nat)
  /-- `tensor(A_1, …, A_n)` with `n ≥ 2` arrays (`n = 0` raises) -/
  | many (l : List (Mat α))

/-- result of `tensor`: a matrix, Python's `None` (empty list), or the `ValueError` -/
inductive TensorResult (α : Type) where
  | mat (A : Mat α)
  | pyNone
  | valueError

/-- the rows of a 2-d array as `1 × c` matrices: what iterating `args[0][i]` over an `ndarray` gives -/
def rowsOf (A : Mat α) : List (Mat α) := (List.range A.r).map fun i => ⟨1, A.c, fun _ j => A.f i j⟩

/-- the first branch of `tensor`, `len(args) == 1 and isinstance(args[0], (list, np.ndarray))` -/
def tensorList [Mul α] : List (Mat α) → TensorResult α
  | [] => .pyNone                               -- `result = None` is returned
  | [a] => .mat a                               -- `len == 1`
  | [a, b] => .mat (kron a b)                   -- `len == 2`
  | a :: rest => .mat (kronFold a rest)         -- `len >= 3`

/-- `tensor(*args)` branch by branch -/
def tensor [Mul α] [One α] : TensorArgs α → TensorResult α
  -- `if len(args) == 1 and isinstance(args[0], list)`
  | .list l => tensorList l
  -- `… or (len(args) == 1 and isinstance(args[0], np.ndarray))`: a single 2-d array is read as the list of its rows
  | .many [a] => tensorList (rowsOf a)
  -- `if len(args) == 2 and isinstance(args[1], int)`
  | .power a n =>
    if n = 0 then .mat eye1
    else if n = 1 then .mat a
    else .mat (fastExp a n)
  -- `if len(args) == 2` / `if len(args) >= 3`
  | .many [a, b] => .mat (kron a b)
  | .many (a :: b :: c :: rest) => .mat (kronFold a (b :: c :: rest))
  | .many _ => .valueError

/-- the `n`-fold iterated product `(((A ⊗ A) ⊗ A) … ⊗ A)` as the list form computes it, `n ≥ 1` -/
def kronPow [Mul α] (A : Mat α) : Nat → Mat α
  | 0 => A
  | 1 => A
  | n + 2 => kron (kronPow A (n + 1)) A

/-! ## matrix algebra used by the identities -/

/-- `A @ B` (inner dimension `A.c`) -/
def mul [Add α] [Mul α] [Zero α] (A B : Mat α) : Mat α :=
  ⟨A.r, B.c, fun i j => sumN A.c (fun k => A.f i k * B.f k j)⟩

def transpose (A : Mat α) : Mat α := ⟨A.c, A.r, fun i j => A.f j i⟩

/-- `A.conj().T` -/
def ctranspose [HasConj α] (A : Mat α) : Mat α := ⟨A.c, A.r, fun i j => HasConj.conj (A.f j i)⟩

def sub [Sub α] (A B : Mat α) : Mat α := ⟨A.r, A.c, fun i j => A.f i j - B.f i j⟩

def eye [Zero α] [One α] (n : Nat) : Mat α := ⟨n, n, fun i j => if i = j then 1 else 0⟩

/-! ## Gram matrix, density matrix, dimension -/

/-- `vectors_to_gram_matrix(vectors)`: `V = np.column_stack(vectors)` is `d × n`
    (`vs k` is the `k`-th vector), result `V.conj().T @ V` -/
def gram [Add α] [Mul α] [Zero α] [HasConj α] (d n : Nat) (vs : Nat → Nat → α) : Mat α :=
  let V : Mat α := ⟨d, n, fun a k => vs k a⟩
  mul (ctranspose V) V

/-- `np.outer(v, np.conjugate(v))` -/
def outerConj [Mul α] [HasConj α] (n : Nat) (v : Nat → α) : Mat α :=
  ⟨n, n, fun i j => v i * HasConj.conj (v j)⟩

/-- how an array is presented to `to_density_matrix` / `calculate_vector_matrix_dimension` -/
inductive ArrShape where
  | d1 (n : Nat)
  | d2 (r c : Nat)
  | other
deriving Repr, DecidableEq

/-- `to_density_matrix(input_array)`; flat row-major data `v`; `none` = `ValueError` -/
def toDensityMatrix [Mul α] [HasConj α] (s : ArrShape) (v : Nat → α) : Option (Mat α) :=
  match s with
  | .d1 n => some (outerConj n v)
  | .d2 r c =>
    if r = 1 ∨ c = 1 then some (outerConj (r * c) v)        -- `vector = input_array.flatten()`
    else if r = c then some ⟨r, c, fun i j => v (i * c + j)⟩   -- returned as is
    else none
  | .other => none

/-- `calculate_vector_matrix_dimension(item)`; `none` = `ValueError` -/
def calcDim (s : ArrShape) : Option Nat :=
  match s with
  | .d1 n => some n
  | .d2 r c =>
    if r = 1 ∨ c = 1 then some (max r c)
    else if r = c then some r
    else none
  | .other => none

/-- `has_same_dimension(items)` on the list of shapes: 2-d items count `len(item) * len(item[0])`,
    1-d items `len(item)`; `none` = `ValueError` (empty list) -/
def hasSameDimension (items : List ArrShape) : Option Bool :=
  let dimOf : ArrShape → Nat := fun s => match s with
    | .d1 n => n
    | .d2 r c => r * c
    | .other => 0
  match items with
  | [] => none
  | first :: rest => some (rest.all (fun it => dimOf it == dimOf first))

/-! ## `majorizes` (vector branch, exact) -/

/-- `np.sort(a)[::-1]` -/
def sortDesc (l : List Rat) : List Rat := l.mergeSort (fun x y => decide (y ≤ x))

/-- `np.pad(a, (0, n - len(a)), "constant")` (nothing is cut when `n ≤ len a`) -/
def padTo (n : Nat) (l : List Rat) : List Rat := l ++ List.replicate (n - l.length) 0

/-- the loop
```
cta = 0; ctb = tol
for k in range(len(a)): cta += a[k]; ctb += b[k]; if cta < ctb: return False
return True
```
with the starting value `tol` of `ctb` as a parameter -/
def majLoop : List Rat → List Rat → Rat → Rat → Bool
  | [], _, _, _ => true
  | _ :: _, [], _, _ => true
  | a :: as, b :: bs, cta, ctb =>
    let cta := cta + a
    let ctb := ctb + b
    if cta < ctb then false else majLoop as bs cta ctb

/-- `majorizes(a, b)` for 1-d inputs with the tolerance term replaced by `tol`
    (the code uses `tol = -‖a‖·eps^{3/4}`; the exact decider uses `tol = 0`) -/
def majorizesTol (a b : List Rat) (tol : Rat) : Bool :=
  let a := sortDesc a
  let b := sortDesc b
  let n := max a.length b.length
  majLoop (padTo n a) (padTo n b) 0 tol

def majorizes (a b : List Rat) : Bool := majorizesTol a b 0

/-! ## exact linear algebra over `ℚ[i]` (rank, nullity, spark) -/

def qinv (a : QI) : QI :=
  let n := a.re * a.re + a.im * a.im
  ⟨a.re / n, -a.im / n⟩

abbrev QMat := Array (Array QI)

def QMat.ofMat (A : Mat QI) : QMat :=
  (Array.range A.r).map fun i => (Array.range A.c).map fun j => A.f i j

def QMat.get (M : QMat) (i j : Nat) : QI := (M[i]!)[j]!

/-- `row_i ← row_i − t · row_k` -/
def rowSubMul (M : QMat) (i k : Nat) (t : QI) : QMat :=
  let rk := M[k]!
  M.modify i (fun ri => ri.mapIdx fun j x => x - t * rk[j]!)

/-- first row index `p ≥ lo` (below `rows`) with a non-zero entry in column `c` -/
def findPivot (M : QMat) (rows lo c : Nat) : Option Nat :=
  ((List.range rows).filter (fun p => lo ≤ p)).find? (fun p => M.get p c != 0)

/-- exact rank of the `rows × cols` block of `M` by Gaussian elimination with exact (non-zero) pivots: the shared,
    proved routine `Toq.Rank.rankFn` (`Toq/Core/Rank.lean`); equal to Mathlib's `Matrix.rank` of the denoted
    complex matrix (`Toq.C16.rank_correct`) -/
def rank (rows cols : Nat) (M : QMat) : Nat := Toq.Rank.rankFn rows cols M.get

/-- all `k`-element subsets of `0..n-1` in the order of `itertools.combinations(range(n), k)` -/
def combinations (n : Nat) : Nat → List (List Nat)
  | 0 => [[]]
  | k + 1 => go n 0 (k + 1) n
where
  go (n lo k : Nat) : Nat → List (List Nat)
    | 0 => if k = 0 then [[]] else []
    | fuel + 1 =>
      if k = 0 then [[]]
      else if lo ≥ n then []
      else
        ((go n (lo + 1) (k - 1) fuel).map (fun t => lo :: t)) ++ go n (lo + 1) k fuel

/-- the sub-matrix `mat[:, cols]` -/
def selectCols (M : QMat) (cols : List Nat) : QMat := M.map fun row => (cols.map fun j => row[j]!).toArray

/-- `spark(mat)`:
```
if np.any(np.all(mat == 0, axis=0)): return 1
for k in range(1, min(m, n) + 1):
    for cols in combinations(range(n), k):
        if matrix_rank(mat[:, cols]) < k: return k
return min(m, n) + 1
```
with the exact rank over `ℚ[i]` -/
def spark (m n : Nat) (M : QMat) : Nat :=
  if anyBelow n (fun j => allBelow m (fun i => M.get i j == 0)) then 1
  else
    match (List.range (min m n)).find? (fun k0 =>
        (combinations n (k0 + 1)).any (fun cols => rank m (k0 + 1) (selectCols M cols) < k0 + 1)) with
    | some k0 => k0 + 1
    | none => min m n + 1

/-- the linear system of `commutant`: `np.kron(A, np.eye(dim)) - np.kron(np.eye(dim), A.T)` -/
def commSystem [Mul α] [Sub α] [Zero α] [One α] (dim : Nat) (A : Mat α) : Mat α :=
  sub (kron A (eye dim)) (kron (eye dim) (transpose A))

/-- `np.vstack` of the systems of all generators, as exact rows -/
def commStack (dim : Nat) (gens : List (Mat QI)) : QMat :=
  gens.foldl (fun acc A => acc ++ QMat.ofMat (commSystem dim A)) #[]

/-- exact dimension of the commutant = nullity of the stacked system (`dim² − rank`) -/
def commutantDim (dim : Nat) (gens : List (Mat QI)) : Nat :=
  dim * dim - rank (gens.length * dim * dim) (dim * dim) (commStack dim gens)


/-! ## `tensor_comb` and argument guards of the helpers -/

/-- `itertools.product(range(n), repeat=k)` (first index slowest) -/
def productSeqs (n : Nat) : Nat → List (List Nat)
  | 0 => [[]]
  | k + 1 => (List.range n).flatMap fun i => (productSeqs n k).map (i :: ·)

/-- row-major flat data of a matrix -/
def flatC (M : Mat α) : Nat → α := fun k => M.f (k / M.c) (k % M.c)

/-- `tensor_comb(states, k)` for `k ≥ 1`: for every index sequence the density matrix of the Kronecker product of the chosen states
```
if not states: raise ValueError
for seq in itertools.product(range(len(states)), repeat=k):
    prod = np.array(states[seq[0]]); for s in seq[1:]: prod = np.kron(prod, states[s])
    result[seq] = to_density_matrix(prod)
```
`is1d`: the states are 1-d arrays (handled as `1 × n`; their Kronecker product is again 1-d); `none` = `ValueError` (empty list, or
`to_density_matrix` rejecting a product that is neither a vector nor square) -/
def tensorComb [Mul α] [HasConj α] (is1d : Bool) (states : List (Mat α)) (k : Nat) : Option (List (List Nat × Mat α)) :=
  match states with
  | [] => none
  | s0 :: _ =>
    (productSeqs states.length k).mapM fun seq =>
      match seq.map (fun i => states.getD i s0) with
      | [] => none
      | a :: rest =>
        let p := kronFold a rest
        (toDensityMatrix (if is1d then .d1 p.c else .d2 p.r p.c) (flatC p)).map fun d => (seq, d)

/-- `is_square(mat)`: `if len(mat.shape) != 2: raise ValueError`; every predicate guarded by `is_square` inherits the exception -/
def isSquareShape (s : ArrShape) : Option Bool :=
  match s with
  | .d2 r c => some (r == c)
  | _ => none

/-- the guard of `spark`: `if not isinstance(mat, np.ndarray) or mat.ndim != 2: raise ValueError` (`true` = accepted) -/
def sparkGuard (isNdarray : Bool) (s : ArrShape) : Bool :=
  isNdarray && (match s with | .d2 _ _ => true | _ => false)

/-- the guard of `vectors_to_gram_matrix`: `if not all(v.shape == vectors[0].shape for v in vectors): raise ValueError`
    (a `(d,)` vector and a `(d, 1)` column have different shapes) -/
def gramGuard (shapes : List ArrShape) : Bool :=
  match shapes with
  | [] => true
  | s0 :: _ => shapes.all (fun s => s == s0)

/-- the guard of `vectors_from_gram_matrix`: `if gram.shape[0] != gram.shape[1]: raise LinAlgError` -/
def fromGramGuard (r c : Nat) : Bool := r == c

end Toq.MatrixOps
