import Toq.Model.Sep
import Toq.Model.PartialOpsArgs
/-!
# C15 — the decision logic of `is_ppt`, `is_npt`, `is_separable`, `has_symmetric_extension` (executable, no Mathlib)

`Toq/Model/Sep.lean` holds the exact operators the criteria are evaluated on.  This file mirrors what the Python
functions DO with the evaluated quantities: argument normalisation, the order of the early returns, the index
choices (`lam[2 * max_dim - 2]` …), the `tol ** 2` terms, the exchange of the parties that puts the qubit first.

The quantities that toqito obtains from LAPACK (trace norms, eigenvalues, numerical ranks, …) are INPUTS of the
decision functions (`Quant`, `SymQuant`): the correspondence harness evaluates them with the same NumPy / toqito calls
that the code makes, hands their exact rational values to the compiled model, and compares the model's deciding
statement and verdict with the statement of the real function observed by `sys.monitoring`.

Everything from the Breuer–Hall block of `is_separable` on (it raises `TypeError` for an even local dimension, and the
final symmetric-extension search inherits the constant-`False` SDP stage) is the known finding
`c15-is-separable-late-stage`; the model answers `Out.late` there and no theorem speaks about it.
-/

namespace Toq.Sep
open EMat Toq.PartialOps

variable {dA dB n : Nat}

/-! ## Argument normalisation -/

/-- the `dim` argument of `is_separable` / `has_symmetric_extension`: `None`, a bare `int`, or a pair `[dA, dB]` -/
inductive SepDimArg where
  | omitted | scalar (d : Nat) | pair (a b : Nat)
  deriving DecidableEq, Repr

/-- the exceptions of the two functions: `ValueError("Checking separability of non-positive semidefinite matrix is invalid.")`,
`ValueError("… must evenly divide …")`, and Python's `ZeroDivisionError` from `state_len / 0` -/
inductive SepRej where
  | NotPSD | InvalidDim | ZeroDivision
  deriving DecidableEq, Repr

def SepRej.name : SepRej → String
  | .NotPSD => "NotPSD" | .InvalidDim => "InvalidDim" | .ZeroDivision => "ZeroDivision"

/-- `dim = np.array([dim, state_len / dim])`, `ValueError` unless the quotient is an integer, `dim[1] = np.round(dim[1])` -/
def scalarDim (N d : Nat) : Except SepRej (Nat × Nat) :=
  if d = 0 then .error .ZeroDivision
  else if N % d = 0 then .ok (d, N / d) else .error .InvalidDim

/-- ```
if dim is None: dim = int(np.round(np.sqrt(state_len)))
if isinstance(dim, int): dim = np.array([dim, state_len / dim]); …
```
(a list is taken as it is: no check at all) -/
def sepDecodeDim (N : Nat) : SepDimArg → Except SepRej (Nat × Nat)
  | .omitted => scalarDim N (roundSqrt N)
  | .scalar d => scalarDim N d
  | .pair a b => .ok (a, b)

/-! ## `is_ppt` / `is_npt` -/

/-- `np.sqrt(np.finfo(float).eps)`: `eps = 2⁻⁵²`, the square root `2⁻²⁶` is exact in float64 -/
def sqrtEps : Rat := 1 / 67108864

/-- `if tol is None: tol = np.sqrt(eps)` -/
def pptTol : Option Rat → Rat
  | none => sqrtEps
  | some t => t

/-- `if dim is None: dim = [[s, s], [s, s]]` with `s = round(sqrt(N))` (square input); every other form is handed
to `partial_transpose` unchanged -/
def isPptDim (N : Nat) : PTDimArg → PTDimArg
  | .omitted => .two [roundSqrt N, roundSqrt N] [roundSqrt N, roundSqrt N]
  | d => d

/-- **The operator `is_ppt(mat, sys, dim, tol)` tests**: `partial_transpose(mat, [sys - 1], dim)` (the C03 model of
`partial_transpose` with all its argument forms), for a square `N × N` input -/
def isPptOperand {α : Type} (X : Nat → Nat → α) (N : Nat) (sys : Int) (dim : PTDimArg) :
    Except PartialOps.Rej (Nat × Nat × (Nat → Nat → α)) :=
  partialTransposeArgs X N N (.list [sys - 1]) (isPptDim N dim)

/-- `is_positive_semidefinite(Y, atol=tol)`: `is_hermitian(Y, rtol, atol)` and `all(x >= -abs(atol) for x in eigvalsh(Y))`;
`herm` is the outcome of the Hermiticity test, `lamMin` the smallest eigenvalue -/
def isPptDecide (herm : Bool) (lamMin : Rat) (tol : Option Rat) : Bool :=
  herm && decide (-(if pptTol tol < 0 then -pptTol tol else pptTol tol) ≤ lamMin)

/-- `is_npt`: `return not is_ppt(mat, sys, dim, tol)` -/
def isNptDecide (herm : Bool) (lamMin : Rat) (tol : Option Rat) : Bool := !isPptDecide herm lamMin tol

/-! ## `is_separable`: the cascade -/

/-- the statement of `is_separable` that returns -/
inductive Branch where
  | dim1 | pptReject | pptSufficient | realignment | zhang
  | spectrum2n | hankel2n | homothetic2n | lemma12n
  | rank4 | ball | rank1 | opSchmidt | haMaps
  deriving DecidableEq, Repr

def Branch.name : Branch → String
  | .dim1 => "dim1" | .pptReject => "ppt-reject" | .pptSufficient => "ppt-sufficient"
  | .realignment => "realignment" | .zhang => "zhang" | .spectrum2n => "2xn-spectrum"
  | .hankel2n => "2xn-hankel" | .homothetic2n => "2xn-homothetic" | .lemma12n => "2xn-lemma1"
  | .rank4 => "rank4-3x3" | .ball => "ball" | .rank1 => "rank1-perturbation"
  | .opSchmidt => "op-schmidt-rank" | .haMaps => "ha-maps-3x3"

/-- **The quantities `is_separable` computes** (on `state / trace(state)` and the decoded `dim`), in the order of the code:
* `psd`   `is_positive_semidefinite(state)` (before the normalisation)
* `rank`  `np.linalg.matrix_rank(state)`
* `ppt`   `is_ppt(state, 2, dim, tol)`
* `realignNorm`  `trace_norm(realignment(state, dim))`
* `zhangNorm`  `trace_norm(realignment(state - np.kron(pt_state_alice, pt_state_bob), dim))`
* `purA`, `purB`  `np.real(np.trace(pt_state_alice @ pt_state_alice))`, the same for Bob
* `lam`  the eigenvalues sorted in descending order
* `hankelRank`  `np.linalg.matrix_rank(B - B.conj().T)`
* `homPsd`, `homPpt`  `is_positive_semidefinite(X_2n_ppt_check)`, `is_ppt(X_2n_ppt_check, 2, [2, max_dim])`
* `normB2`, `minA`, `minC`  `np.linalg.norm(B) ** 2`, `np.min(np.real(np.linalg.eigvals(A)))`, the same for `C`
* `absF`  `abs(F)` of the rank-4 determinant test on `3 ⊗ 3`
* `ball`  `in_separable_ball(state)`
* `osr`  `schmidt_rank(state, dim)`
* `haPsd`  the outcomes of `is_positive_semidefinite(partial_channel(state, Phi, 2, dim))` in loop order -/
structure Quant where
  psd : Bool
  rank : Nat
  ppt : Bool
  realignNorm : Rat
  zhangNorm : Rat
  purA : Rat
  purB : Rat
  lam : List Rat
  hankelRank : Nat
  homPsd : Bool
  homPpt : Bool
  normB2 : Rat
  minA : Rat
  minC : Rat
  absF : Rat
  ball : Bool
  osr : Nat
  haPsd : List Bool

/-- what a call of `is_separable` does, seen from outside -/
inductive Out where
  /-- `return v` at statement `b` -/
  | verdict (b : Branch) (v : Bool)
  /-- no early statement returns: the Breuer–Hall block and the symmetric-extension search follow (known finding) -/
  | late
  deriving DecidableEq, Repr

/-- `lam[i]` (NumPy raises `IndexError` beyond the end; the theorems assume `lam.length = dA * dB`) -/
def lamAt (q : Quant) (i : Nat) : Rat := q.lam.getD i 0

/-- `max(0.0, 1 - purA) * max(0.0, 1 - purB)`: the radicand of the Zhang bound -/
def zhangRadicand (q : Quant) : Rat := max 0 (1 - q.purA) * max 0 (1 - q.purB)

/-- `x > tol + sqrt(r)` decided without the square root: `x − tol > 0` and `(x − tol)² > r` -/
def gtAddSqrt (x tol r : Rat) : Bool := decide (0 < x - tol) && decide (r < (x - tol) * (x - tol))

/-- `eps ** (3 / 4)` with `eps = 2⁻⁵²`: exactly `2⁻³⁹` -/
def eps34 : Rat := 1 / 549755813888

/-- `if min_dim == 1: return True` -/
def stDim1 (dA dB : Nat) : Option (Branch × Bool) :=
  if min dA dB = 1 then some (.dim1, true) else none

/-- `if not is_ppt_state: return False` -/
def stPpt (q : Quant) : Option (Branch × Bool) :=
  if q.ppt = false then some (.pptReject, false) else none

/-- `elif prod_dim <= 6 or min(dim) <= 1: return is_ppt_state` -/
def stSmall (dA dB : Nat) (q : Quant) : Option (Branch × Bool) :=
  if dA * dB ≤ 6 ∨ min dA dB ≤ 1 then some (.pptSufficient, q.ppt) else none

/-- `if trace_norm(realignment(state, dim)) > 1 + tol: return False` -/
def stRealign (tol : Rat) (q : Quant) : Option (Branch × Bool) :=
  if 1 + tol < q.realignNorm then some (.realignment, false) else none

/-- `if trace_norm(realignment(state - kron(ρ_A, ρ_B), dim)) > tol + sqrt(max(0, 1 − tr ρ_A²) · max(0, 1 − tr ρ_B²)): return False` -/
def stZhang (tol : Rat) (q : Quant) : Option (Branch × Bool) :=
  if gtAddSqrt q.zhangNorm tol (zhangRadicand q) = true then some (.zhang, false) else none

/-- `if min_dim == 2: if (lam[0] - lam[2 * max_dim - 2]) ** 2 <= 4 * lam[2 * max_dim - 3] * lam[2 * max_dim - 1] + tol**2: return True` -/
def stSpectrum (dA dB : Nat) (tol : Rat) (q : Quant) : Option (Branch × Bool) :=
  let n := max dA dB
  if min dA dB = 2 ∧
      (lamAt q 0 - lamAt q (2 * n - 2)) * (lamAt q 0 - lamAt q (2 * n - 2))
        ≤ 4 * lamAt q (2 * n - 3) * lamAt q (2 * n - 1) + tol * tol
  then some (.spectrum2n, true) else none

/-- `if np.linalg.matrix_rank(B - B.conj().T) <= 1 and is_ppt_state: return True` (inside `if min_dim == 2`) -/
def stHankel (dA dB : Nat) (q : Quant) : Option (Branch × Bool) :=
  if min dA dB = 2 ∧ q.hankelRank ≤ 1 ∧ q.ppt = true then some (.hankel2n, true) else none

/-- `if is_positive_semidefinite(X_2n_ppt_check) and is_ppt(X_2n_ppt_check, 2, [2, max_dim]): return True` -/
def stHomothetic (dA dB : Nat) (q : Quant) : Option (Branch × Bool) :=
  if min dA dB = 2 ∧ q.homPsd = true ∧ q.homPpt = true then some (.homothetic2n, true) else none

/-- `if np.linalg.norm(B) ** 2 <= min eig(A) * min eig(C) + tol**2: return True` -/
def stLemma1 (dA dB : Nat) (tol : Rat) (q : Quant) : Option (Branch × Bool) :=
  if min dA dB = 2 ∧ q.normB2 ≤ q.minA * q.minC + tol * tol then some (.lemma12n, true) else none

/-- `if state_rank == 4 and min_dim == 3 and max_dim == 3: …; return abs(F) < max(tol**2, eps ** (3 / 4))` -/
def stRank4 (dA dB : Nat) (tol : Rat) (q : Quant) : Option (Branch × Bool) :=
  if q.rank = 4 ∧ min dA dB = 3 ∧ max dA dB = 3 then some (.rank4, decide (q.absF < max (tol * tol) eps34)) else none

/-- `if in_separable_ball(state): return True` -/
def stBall (q : Quant) : Option (Branch × Bool) :=
  if q.ball = true then some (.ball, true) else none

/-- `if lam[1] - lam[prod_dim - 1] < tol**2: return True` -/
def stRank1 (dA dB : Nat) (tol : Rat) (q : Quant) : Option (Branch × Bool) :=
  if lamAt q 1 - lamAt q (dA * dB - 1) < tol * tol then some (.rank1, true) else none

/-- `if schmidt_rank(state, dim) <= 2: return True` -/
def stOsr (q : Quant) : Option (Branch × Bool) :=
  if q.osr ≤ 2 then some (.opSchmidt, true) else none

/-- `if dim[0] == 3 and dim[1] == 3: for …: if not is_positive_semidefinite(partial_channel(state, Phi, 2, dim)): return False` -/
def stHa (dA dB : Nat) (q : Quant) : Option (Branch × Bool) :=
  if dA = 3 ∧ dB = 3 ∧ q.haPsd.any (fun b => !b) = true then some (.haMaps, false) else none

/-- the early returns of `is_separable` in the order of the source -/
def stages (dA dB : Nat) (tol : Rat) (q : Quant) : List (Option (Branch × Bool)) :=
  [stDim1 dA dB, stPpt q, stSmall dA dB q, stRealign tol q, stZhang tol q,
   stSpectrum dA dB tol q, stHankel dA dB q, stHomothetic dA dB q, stLemma1 dA dB tol q,
   stRank4 dA dB tol q, stBall q, stRank1 dA dB tol q, stOsr q, stHa dA dB q]

/-- the first statement that returns -/
def firstSome {α : Type} : List (Option α) → Option α
  | [] => none
  | some a :: _ => some a
  | none :: l => firstSome l

/-- **`is_separable` after the argument block**: which statement returns what, for decoded dimensions `dA`, `dB` -/
def sepCascade (dA dB : Nat) (tol : Rat) (q : Quant) : Out :=
  match firstSome (stages dA dB tol q) with
  | some (b, v) => .verdict b v
  | none => .late

/-- **`is_separable(state, dim, level, tol)`** for an `N × N` input: the PSD guard, the `dim` block, the cascade -/
def isSeparableModel (N : Nat) (dim : SepDimArg) (tol : Rat) (q : Quant) : Except SepRej Out :=
  if q.psd = false then .error .NotPSD
  else match sepDecodeDim N dim with
    | .error e => .error e
    | .ok (dA, dB) => .ok (sepCascade dA dB tol q)

/-- the two sides `(lhs, rhs)` of the rational comparisons, stage by stage (aligned with `stages`; empty where a stage makes
no rational comparison or does not apply to the dimensions) -/
def stageCmps (dA dB : Nat) (tol : Rat) (q : Quant) : List (List (Rat × Rat)) :=
  let n := max dA dB
  let two := min dA dB = 2
  [[], [], [],
   [(q.realignNorm, 1 + tol)],
   [if q.zhangNorm - tol ≤ 0 then (q.zhangNorm, tol)
    else ((q.zhangNorm - tol) * (q.zhangNorm - tol), zhangRadicand q)],
   (if two then [((lamAt q 0 - lamAt q (2 * n - 2)) * (lamAt q 0 - lamAt q (2 * n - 2)),
      4 * lamAt q (2 * n - 3) * lamAt q (2 * n - 1) + tol * tol)] else []),
   [], [],
   (if two then [(q.normB2, q.minA * q.minC + tol * tol)] else []),
   (if q.rank = 4 ∧ min dA dB = 3 ∧ max dA dB = 3 then [(q.absF, max (tol * tol) eps34)] else []),
   [],
   [(lamAt q 1 - lamAt q (dA * dB - 1), tol * tol)],
   [], []]

/-- the comparisons of the stages that are evaluated: up to and including the first one that returns -/
def evalCmps {α β : Type} : List (Option α) → List (List β) → List β
  | some _ :: _, s :: _ => s
  | none :: l, s :: ss => s ++ evalCmps l ss
  | _, _ => []

/-- the two sides of every rational comparison that `is_separable` makes before it returns (the harness demands agreement of
the deciding statement only when no comparison is closer to equality than float evaluation can resolve) -/
def cascadeCmps (dA dB : Nat) (tol : Rat) (q : Quant) : List (Rat × Rat) :=
  evalCmps (stages dA dB tol q) (stageCmps dA dB tol q)

/-! ## The `2 ⊗ n` block: exchange of the parties, the blocks `A`, `B`, `C`, the homothetic image -/

/-- block `(i, j)` of an operator on `ℂ² ⊗ ℂⁿ` (qubit first): `Y[i·n : (i+1)·n, j·n : (j+1)·n]`.
`A = state_t[:n, :n] = blk Y 0 0`, `B = state_t[:n, n:2n] = blk Y 0 1`, `C = state_t[n:2n, n:2n] = blk Y 1 1`. -/
def blk (Y : EMat (2 * n) (2 * n)) (i j : Fin 2) : EMat n n :=
  ofFn fun b b' => Y.get (pair i b) (pair j b')

/-- `state_t = swap(state, [1, 2], dim) if dim[0] > 2 else state` for `dim = [n, 2]`: the qubit is put first -/
def qubitFirst (X : EMat (n * 2) (n * 2)) : EMat (2 * n) (2 * n) := swapAB X

/-- `X_2n_ppt_check = [[5/6·A − C/6, B], [Bᴴ, 5/6·C − A/6]]` -/
def homothetic (Y : EMat (2 * n) (2 * n)) : EMat (2 * n) (2 * n) :=
  let A := blk Y 0 0
  let B := blk Y 0 1
  let C := blk Y 1 1
  ofFn fun i j =>
    if (fstI i).val = 0 then
      (if (fstI j).val = 0 then (smul (5 / 6) A - smul (1 / 6) C).get (sndI i) (sndI j) else B.get (sndI i) (sndI j))
    else
      (if (fstI j).val = 0 then B.ct.get (sndI i) (sndI j) else (smul (5 / 6) C - smul (1 / 6) A).get (sndI i) (sndI j))

/-! ## The qutrit maps of the cascade: the parameter loop -/

/-- `a, b, c` of `Phi` for one value `t_`: `((1 − t)²/(1 − t + t²), t²/(1 − t + t²), 1/(1 − t + t²))` -/
def haABC (t : Rat) : Rat × Rat × Rat :=
  ((1 - t) * (1 - t) / (1 - t + t * t), t * t / (1 - t + t * t), 1 / (1 - t + t * t))

/-- ```
for t in np.arange(0, 1.0, 0.1):
    t_ = t
    for j in range(2):
        if t_ > 0: t_ = 1 / t_
        elif j > 0: break
        …
```
the values of `t_` for which a map is built: `0`, then `1/t, t` for `t = 1/10, …, 9/10` (19 maps) -/
def haTs : List Rat :=
  (0 : Rat) :: ((List.range 9).map fun (k : Nat) => [(10 : Rat) / ((k : Rat) + 1), ((k : Rat) + 1) / 10]).flatten

/-! ## `has_symmetric_extension`: the decision logic -/

inductive SymBranch where
  | level1NoPpt | pptShortcut | analytic2qubit | sdp
  deriving DecidableEq, Repr

def SymBranch.name : SymBranch → String
  | .level1NoPpt => "level1-no-ppt" | .pptShortcut => "ppt-shortcut" | .analytic2qubit => "analytic-2qubit" | .sdp => "sdp"

/-- quantities `has_symmetric_extension` computes: `is_positive_semidefinite(rho)`, `is_ppt(rho, 2, dim)`,
`tr(ρ_B²)`, `tr(ρ²)`, `Re det ρ`, and the optimum of `symmetric_extension_hierarchy([rho], level=level, dim=…)` -/
structure SymQuant where
  psd : Bool
  ppt : Bool
  purB : Rat
  purRho : Rat
  detRho : Rat
  sdpVal : Rat

/-- `a >= b − 4·sqrt(max(d, 0)) − tol` decided without the square root: with `s = b − a − tol`, `s ≤ 0` or `s² ≤ 16·max(d, 0)` -/
def geSubSqrt (a b d tol : Rat) : Bool :=
  decide (b - a - tol ≤ 0) || decide ((b - a - tol) * (b - a - tol) ≤ 16 * max d 0)

/-- `not np.isclose(1 − min(val, 1), 0, atol=tol)`: `isclose(x, 0, atol) ⟺ |x| ≤ atol` -/
def sdpVerdict (val tol : Rat) : Bool :=
  let x := 1 - min val 1
  !decide ((if x < 0 then -x else x) ≤ tol)

/-- **`has_symmetric_extension(rho, level, dim, ppt, tol)`** for an `N × N` input, after the `dim` block -/
def symExtCascade (N dA dB level : Nat) (ppt : Bool) (tol : Rat) (q : SymQuant) : SymBranch × Bool :=
  if level = 1 ∨ (N ≤ 6 ∧ ppt = true) then
    if ppt = false then (.level1NoPpt, q.psd) else (.pptShortcut, q.ppt && q.psd)
  else if level = 2 ∧ ppt = false ∧ dA = 2 ∧ dB = 2 then
    (.analytic2qubit, geSubSqrt q.purB q.purRho q.detRho tol)
  else (.sdp, sdpVerdict q.sdpVal tol)

def hasSymExtModel (N : Nat) (level : Nat) (dim : SepDimArg) (ppt : Bool) (tol : Rat) (q : SymQuant) :
    Except SepRej (SymBranch × Bool) :=
  match sepDecodeDim N dim with
  | .error e => .error e
  | .ok (dA, dB) => .ok (symExtCascade N dA dB level ppt tol q)

end Toq.Sep
