import Toq.Model.EntangleSk
/-!
# Second-level (two-copy, Bose-symmetric, PPT) upper certificate for the S(1) operator norm (C14) — executable, no Mathlib

The PPT relaxation `checkSkUpperPPT` is exact only on `2×2` and `2×3`; from `2×4` / `3×3` on its optimum can sit at a PPT-entangled state and
then exceeds every value attained by product vectors.  The next level of the symmetric-extension (Doherty–Parrilo–Spedalieri) hierarchy — the
one `sk_operator_norm` itself solves with `effort ≥ 2` — is certified here.

Operators act on `ℂ^dA ⊗ ℂ^dB ⊗ ℂ^dB` with flat index `(a·dB + b)·dB + c`, read as the bipartite system `(A B₁) | B₂` of sizes `dA·dB` and `dB`,
so that `Toq.Sep.kron X one` is `X ⊗ 1_{B₂}` and `Toq.Sep.ptB` is the partial transpose on `B₂`.

* `swapBB` exchanges the two copies of `B` in a flat index; `symBB M = Π M Π` with `Π = 1_A ⊗ (1 + SWAP)/2` the projector onto
  `ℂ^dA ⊗ Sym²(ℂ^dB)`, entrywise `(M[i,j] + M[σi,j] + M[i,σj] + M[σi,σj])/4`;
* `slackDps X Y lam t = Π (lam·1 − X ⊗ 1 − Y^{T_{B₂}}) Π + t·(1 − Π)` (written `Π (… − t·1) Π + t·1`): the second summand vanishes on every
  vector `a ⊗ b ⊗ b`, it only makes the matrix strictly positive on the antisymmetric part so that a floating-point Cholesky factor is a witness;
* `checkSkUpperDps X Y LY lam t LS = some lam` iff `Y ⪰ 0` (witness `LY`) and `slackDps X Y lam t ⪰ 0` (witness `LS`); then **every** unit product
  vector has `⟨v|X|v⟩ ≤ lam` (`Toq.C14.checkSkUpperDps_sound`), for every rational `t`.
-/

namespace Toq.Entangle
open EMat Toq.Sep

variable {dA dB p q : Nat}

/-- exchange the two copies of `B`: `(a·dB + b)·dB + c ↦ (a·dB + c)·dB + b` -/
def swapBB (i : Fin ((dA * dB) * dB)) : Fin ((dA * dB) * dB) :=
  pair (pair (fstI (fstI i)) (sndI i)) (sndI (fstI i))

/-- `Π M Π` for `Π = 1_A ⊗ (1 + SWAP)/2` -/
def symBB (M : EMat ((dA * dB) * dB) ((dA * dB) * dB)) : EMat ((dA * dB) * dB) ((dA * dB) * dB) :=
  ofFn fun i j => QI.smul (1 / 4) (M.get i j + M.get (swapBB i) j + M.get i (swapBB j) + M.get (swapBB i) (swapBB j))

/-- `lam·1 − X ⊗ 1_{B₂} − Y^{T_{B₂}}` -/
def dpsBody (X : EMat (dA * dB) (dA * dB)) (Y : EMat ((dA * dB) * dB) ((dA * dB) * dB)) (lam : Rat) :
    EMat ((dA * dB) * dB) ((dA * dB) * dB) :=
  (scalar lam - kron X (one : EMat dB dB)) - ptB Y

/-- slack of the two-copy dual: `Π (lam·1 − X ⊗ 1 − Y^{T_{B₂}}) Π + t·(1 − Π)` -/
def slackDps (X : EMat (dA * dB) (dA * dB)) (Y : EMat ((dA * dB) * dB) ((dA * dB) * dB)) (lam t : Rat) :
    EMat ((dA * dB) * dB) ((dA * dB) * dB) :=
  symBB (dpsBody X Y lam - scalar t) + scalar t

/-- `some lam` iff `Y` has the PSD witness `LY` and `slackDps X Y lam t` has the PSD witness `LS` -/
def checkSkUpperDps (X : EMat (dA * dB) (dA * dB)) (Y : EMat ((dA * dB) * dB) ((dA * dB) * dB))
    (LY : EMat ((dA * dB) * dB) p) (lam t : Rat) (LS : EMat ((dA * dB) * dB) q) : Option Rat :=
  if psdCert Y LY && psdCert (slackDps X Y lam t) LS then some lam else none

end Toq.Entangle
