import Toq.Model.Games
/-!
# C07, additional mirrors (core Lean only, no Mathlib)

* `maxList`             — Python's builtin `max(tgvals)` over a list;
* `classicalValuePool`  — the `num_iterations > 1000` branch of `NonlocalGame.classical_value`
                          (`multiprocessing.Pool().starmap(process_iteration, [... for i in range(num_iterations)])`
                          followed by `max`), line by line;
* `classicalValueCode`  — the whole of `classical_value` as it is now, *with* the branch
                          `if num_iterations > 1000: pool else: loop`;
* `productStrategy`     — the answer function of the `reps`-fold product game that answers round `k` by `f k`
                          (question and answer indices are the big-endian codes used by the constructor);
* `flipAt`, `bcsDepCount` — vocabulary for the `from_bcs_game` theorems.
-/

namespace Toq.Games

/-- Python `max(lst)` for a list of numbers: `none` for the empty list (Python raises `ValueError`
    there; the caller only reaches it with `num_iterations > 1000` elements), otherwise the running
    maximum from the left starting with the first element -/
def maxList : List Rat → Option Rat
  | [] => none
  | x :: xs => some (xs.foldl rmax x)

/-- the argument tuple `(i, num_bob_outputs, num_bob_inputs, pred_mat_copy, num_alice_outputs,
    num_alice_inputs)` of one `starmap` task -/
abbrev PoolTask := Nat × Nat × Nat × Pred × Nat × Nat

/-- `NonlocalGame.process_iteration(*task)` -/
def processIterationTask (task : PoolTask) : Rat :=
  processIteration task.1 task.2.1 task.2.2.1 task.2.2.2.1 task.2.2.2.2.1 task.2.2.2.2.2

/-- the `num_iterations > 1000` branch:
```
with multiprocessing.Pool() as pool:
    tgvals = pool.starmap(NonlocalGame.process_iteration,
        [(i, num_bob_outputs, num_bob_inputs, pred_mat_copy, num_alice_outputs, num_alice_inputs)
         for i in range(num_iterations)])
    p_win = max(tgvals)
```
`starmap` returns the results in the order of the task list (that is its contract, whatever the
scheduling of the worker processes), so it is `List.map`. -/
def classicalValuePool (numIterations nbo nbi : Nat) (t : Pred) (nao nai : Nat) : Option Rat :=
  let tasks : List PoolTask := (List.range numIterations).map (fun i => (i, nbo, nbi, t, nao, nai))
  let tgvals : List Rat := tasks.map processIterationTask
  maxList tgvals

/-- the single-core branch:
```
for i in range(num_iterations):
    tgval = NonlocalGame.process_iteration(i, ...); p_win = max(p_win, tgval)
``` -/
def classicalValueLoop (numIterations nbo nbi : Nat) (t : Pred) (nao nai : Nat) : Option Rat :=
  maxIter numIterations (fun i => processIteration i nbo nbi t nao nai)

/-- `NonlocalGame.classical_value` as the code is now, including the choice between the process pool
    and the plain loop:
```
pred_mat_copy = scaled copy
if ao ** ai < bo ** bi: transpose (1,0,3,2) and swap the roles
pred_mat_copy = np.transpose(pred_mat_copy, (0, 2, 1, 3))
num_iterations = num_bob_outputs ** num_bob_inputs
if num_iterations > 1000: <pool branch>   else: <loop branch>
return p_win
``` -/
def classicalValueCode (ao bo ai bi : Nat) (prob : Prob) (pred : Pred) : Option Rat :=
  let predCopy := scaleCopy prob pred
  let sw : Bool := decide (ao ^ ai < bo ^ bi)
  let t1 := if sw then transpose1032 predCopy else predCopy
  let nao := if sw then bo else ao
  let nbo := if sw then ao else bo
  let nai := if sw then bi else ai
  let nbi := if sw then ai else bi
  let t2 := transpose0213 t1
  let numIterations := nbo ^ nbi
  if numIterations > 1000 then classicalValuePool numIterations nbo nbi t2 nao nai
  else classicalValueLoop numIterations nbo nbi t2 nao nai

/-- answer function of the `r`-fold product game built from per-round answer functions `f k`
    (`k < r`): question `X` (a code of `r` base-`nin` digits, round 0 most significant) is answered by
    the code (base `nout`) of the per-round answers `f k (digit k of X)` -/
def productStrategy (nin nout r : Nat) (f : Nat → Nat → Nat) : Nat → Nat := fun X =>
  enc (fun _ => nout) (fun k => f k (dec (fun _ => nin) r X k)) r

/-- the assignment `s` with variable `i` flipped (`0 ↔ 1`) -/
def flipAt (s : Nat → Nat) (i : Nat) : Nat → Nat := setAt s i (1 - s i)

/-- `dependent_variables[j].sum()` : the number of variables `i < n` on which constraint `j` depends -/
def bcsDepCount (n : Nat) (c : Nat → Nat → Int) (j : Nat) : Nat :=
  sumN n (fun i => if bcsDepends n c j i then 1 else 0)

end Toq.Games
