import Toq.Model.ChanMetrics
import Toq.Model.ChannelProps
/-!
# The code paths of the channel distance functions (C20) — executable, no Mathlib

Mirror of what `completely_bounded_trace_norm`, `diamond_distance`, `completely_bounded_spectral_norm` and
`channel_fidelity` do *around* the semidefinite programs:

```
completely_bounded_trace_norm(phi):                       channel_fidelity(choi_1, choi_2):
  dim_lx, dim_ly = phi.shape                                 if choi_1.shape != choi_2.shape: raise ValueError
  if dim_lx != dim_ly: raise ValueError                      if choi_dim_x != choi_dim_y:     raise ValueError
  if is_quantum_channel(phi): return 1                       dim = int(np.round(np.sqrt(choi_dim)))
  if is_completely_positive(phi):                            … SDP with Tr over subsystem [1] of dims [dim, dim]
      v = apply_channel(np.eye(dim_ly), dual_channel(phi))
      return trace_norm(v)
  dim = round(np.sqrt(dim_lx))
  … SDP with y_i.partial_trace(1, dimensions=dim)
diamond_distance(J1, J2)            = completely_bounded_trace_norm(J1 - J2)
completely_bounded_spectral_norm(J) = completely_bounded_trace_norm(dual_channel(J))
```

The predicates are the three-valued verdicts of `Toq.ChannelProps` (the mirror of `is_completely_positive` /
`is_trace_preserving` validated by C06): `yes` / `no` are backed by exact certificates, `unknown` is never generated.
-/

namespace Toq.ChanMetrics
open EMat Toq.ChannelProps

/-- `round(np.sqrt(n))` for a natural number `n`: the integer nearest to `√n` (a tie `√n = r + ½` is impossible for an
integer `n`, so Python's round-half-to-even never matters) -/
def roundSqrt (n : Nat) : Nat :=
  let r := Nat.sqrt n
  if n - r * r ≤ r then r else r + 1

/-- which way `completely_bounded_trace_norm` takes -/
inductive CbPath where
  /-- `dim_lx != dim_ly`: `ValueError` -/
  | notSquare
  /-- `is_quantum_channel(phi)`: `return 1` -/
  | channelOne
  /-- `is_completely_positive(phi)` (and not trace preserving): `return trace_norm(apply_channel(eye(dim_ly), dual_channel(phi)))` -/
  | cpShortcut
  /-- Watrous' SDP, partial traces taken with subsystem dimension `dim = round(sqrt(dim_lx))` -/
  | sdp (dim : Nat)
  /-- a predicate verdict is `unknown` (input within tolerance of a branch boundary; never generated) -/
  | undecided
deriving DecidableEq, Repr

def CbPath.str : CbPath → String
  | .notSquare => "not_square"
  | .channelOne => "channel_one"
  | .cpShortcut => "cp_shortcut"
  | .sdp _ => "sdp"
  | .undecided => "undecided"

/-- the cascade of `completely_bounded_trace_norm`; `cp` is the verdict of `is_completely_positive(phi)`, `tp` the one of
`is_trace_preserving(phi)` (`is_quantum_channel = cp and tp`, `tp` only evaluated when `cp` holds) -/
def cbPath (rows cols : Nat) (cp tp : Verdict) : CbPath :=
  if rows ≠ cols then .notSquare
  else
    match cp with
    | .unknown => .undecided
    | .no => .sdp (roundSqrt rows)
    | .yes =>
      match tp with
      | .yes => .channelOne
      | .no => .cpShortcut
      | .unknown => .undecided

/-- `dual_channel` on a Choi matrix: `swap(phi.conj(), dim=[[dX, dY],[dX, dY]])`, i.e. the Choi matrix on `Y ⊗ X`
with entry `((y,x),(y',x')) = conj J((x,y),(x',y'))` -/
def dualChoiE (dX dY : Nat) (J : EMat (dX * dY) (dX * dY)) : EMat (dY * dX) (dY * dX) :=
  ofFn fun p q => (J.get (pairIdx (sndIdx p) (fstIdx p)) (pairIdx (sndIdx q) (fstIdx q))).conj

/-- `apply_channel(np.eye(n), Jd)` for an `n × n` Choi matrix `Jd` — as coded, with the WHOLE Choi dimension `n = dim_ly` as
input dimension: `mat_size = (n, n)`, `phi_size = (1, 1)`, `a_mat = vec(eye(n))ᵀ` (`1 × n²`), `b_mat` = the column-major
flattening of `Jd` (`n² × 1`; the `swap` with subsystem dimensions `(n, 1)` is the identity); the `1 × 1` result
`a_mat @ b_mat = Σ_j Σ_i δ_ij Jd[i, j]` -/
def applyEyeAsCoded (n : Nat) (Jd : EMat n n) : QI :=
  sumFin n fun j => sumFin n fun i => (if i = j then (1 : QI) else 0) * Jd.get i j

/-- the entry of the `1 × 1` matrix whose nuclear norm the CP shortcut returns -/
def cpShortcutAsCoded (d : Nat) (J : EMat (d * d) (d * d)) : QI := applyEyeAsCoded (d * d) (dualChoiE d d J)

/-- which way `channel_fidelity` takes -/
inductive CfPath where
  /-- `choi_1.shape != choi_2.shape`: `ValueError` -/
  | shapeMismatch
  /-- `choi_dim_x != choi_dim_y`: `ValueError` -/
  | notSquare
  /-- the SDP with `q_var` of size `choiDim` and the partial trace over subsystem 1 of `[dim, dim]` -/
  | sdp (choiDim dim : Nat)
deriving DecidableEq, Repr

def cfPath (r1 c1 r2 c2 : Nat) : CfPath :=
  if r1 ≠ r2 ∨ c1 ≠ c2 then .shapeMismatch
  else if r1 ≠ c1 then .notSquare
  else .sdp r1 (roundSqrt r1)

/-- the slack of the second constraint of `channel_fidelity`: `(pt_q + pt_q.H)/2 − lam·1` -/
def cfLoewnerSlack (dX dY : Nat) (Q : EMat (dX * dY) (dX * dY)) (lam : Rat) : EMat dX dX :=
  hermPart (ptrY dX dY Q) - scalar lam

end Toq.ChanMetrics
