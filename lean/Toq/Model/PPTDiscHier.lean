import Toq.Model.PPTDisc
import Toq.Model.PartialOps
import Toq.Model.Combinat
/-!
# Mirror model of the constraint expressions `symmetric_extension_hierarchy` builds (C12) — executable, no Mathlib

Line by line after `toqito/state_opt/symmetric_extension_hierarchy.py`, on exact integer matrices (real and imaginary parts are
handled separately by the driver: every map below is linear with real coefficients).  The library calls are the mirror models of
the properties that own them:

* `partial_trace(x_var, sys_list, dim_list)`        → `Toq.PartialOps.partialTrace`      (C02: `ptrace_eq_spec`),
* `partial_transpose(x_var, [t], dim_list)`         → `Toq.PartialOps.partialTranspose`  (C03),
* `symmetric_projection(dim_y, level)`              → `Toq.Combinat.symProjN` = `level! ·` that matrix (C18: `symProj_eq_spec`).

For one state `k` the code appends, in this order, `partial_trace(x) == meas`, `x >> 0`, `meas >> 0`,
`kron(1, sym) @ x @ kron(1, sym) == x`, `partial_transpose(x, [0]) >> 0`, `partial_transpose(x, [t]) >> 0` for `t = 2 … level`;
after the loop `sum(meas) == 1`.  The equality with the projector is returned multiplied by `(level!)²` to stay in the integers.
The identification of these flattened-index expressions with the index-tuple specification `Toq.PPTDisc.SymExtAt` is not proved
here (each library call is proved equal to its own specification in C02 / C03 / C18); the harness compares them with the values
of the captured cvxpy expressions at exact integer points on every run.
-/

namespace Toq.PPTDisc
open Toq.PartialOps Toq.Combinat

/-- `np.kron(np.identity(dx), S)` for an `R × R` matrix `S` -/
def kronIdLeft (R : Nat) (S : Nat → Nat → Int) : Nat → Nat → Int :=
  fun i j => if i / R = j / R then S (i % R) (j % R) else 0

/-- matrix product of `N × N` integer matrices -/
def mulN (N : Nat) (A B : Nat → Nat → Int) : Nat → Nat → Int :=
  fun i j => (List.range N).foldl (fun acc l => acc + A i l * B l j) 0

/-- the entries of an `N × N` function matrix as a row-major array (so that nested products are not recomputed; an `Array` value
is computed once, a function-valued `let` would be re-evaluated at every entry) -/
def tabulateN (N : Nat) (A : Nat → Nat → Int) : Array Int := Id.run do
  let mut out := Array.mkEmpty (N * N)
  for i in [0:N] do
    for j in [0:N] do
      out := out.push (A i j)
  return out

/-- read a tabulated matrix -/
def lookupN (arr : Array Int) (N : Nat) : Nat → Nat → Int :=
  fun i j => if i < N ∧ j < N then arr[i * N + j]! else 0

/-- the constraint expressions of one state at the point `(meas, x)` -/
structure SymExtExprs where
  /-- `partial_trace(x, sys_list, dim_list) − meas`  (must vanish) -/
  traceRes : Nat → Nat → Int
  /-- `(level!)² · (kron(1, sym) x kron(1, sym) − x)`  (must vanish) -/
  symRes : Nat → Nat → Int
  /-- `partial_transpose(x, [t], dim_list)` for `t` in `symExtPTList level`  (must be PSD) -/
  pts : List (Nat → Nat → Int)

def factN : Nat → Nat
  | 0 => 1
  | n + 1 => (n + 1) * factN n

/-- the expressions built inside the loop over the states -/
def symExtExprs (dx dy level : Nat) (meas x : Nat → Nat → Int) : SymExtExprs :=
  let dimList := fnOfList (symExtDimList dx dy level)
  let n := level + 1
  let N := symExtSize dx dy level
  let R := dy ^ level
  let symA := tabulateN R (symProjN dy level)
  let sA := tabulateN N (kronIdLeft R (lookupN symA R))
  let xsA := tabulateN N (mulN N x (lookupN sA N))
  let sxsA := tabulateN N (mulN N (lookupN sA N) (lookupN xsA N))
  let f2 : Int := ((factN level * factN level : Nat) : Int)
  { traceRes := fun i j => partialTrace x n dimList (symExtSysList level) i j - meas i j
    symRes := fun i j => lookupN sxsA N i j - f2 * x i j
    pts := (symExtPTList level).map fun t => partialTranspose x n dimList dimList [t] }

end Toq.PPTDisc
