import Toq.Model.Discrim
/-!
# Certificate checkers for PPT state discrimination (C12) — executable, no Mathlib

Bipartite space `A ⊗ B` of dimensions `(dA, dB)`; a composite index is `i = a·dB + b` (toqito's / NumPy's
Kronecker convention).  Partial transposes on exact matrices of size `dA·dB`:

* `pTB X [(a,b),(a',b')] = X [(a,b'),(a',b)]`   (transpose the second party),
* `pTA X [(a,b),(a',b')] = X [(a',b),(a,b')]`   (transpose the first party).

`ppt_distinguishability(vectors, subsystems=[s], dimensions=[dA,dB], probs, strategy="min_error")` solves

* primal: maximise `Σ_i p_i Re tr(ρ_i M_i)` s.t. `M_i ⪰ 0`, `Σ_i M_i = 1`, `T_s(M_i) ⪰ 0`;
* dual:   minimise `tr Y` s.t. `Y − p_i ρ_i ⪰ T_s(Q_i)`, `Q_i ⪰ 0`   (`Y`, `Q_i` Hermitian).

`sys = 0` selects the first party for the transpose, every other value the second one.
A checker takes a candidate point with PSD witnesses (`EMat.psdCert`) and returns the exact rational
objective value if every constraint is verified exactly, `none` otherwise.
-/

namespace Toq.PPTDisc
open EMat Toq.Discrim

variable {dA dB k : Nat}

/-! ## Composite indices -/

theorem mkIdx_lt {dA dB a b : Nat} (ha : a < dA) (hb : b < dB) : a * dB + b < dA * dB :=
  calc a * dB + b < a * dB + dB := Nat.add_lt_add_left hb _
    _ = (a + 1) * dB := (Nat.succ_mul a dB).symm
    _ ≤ dA * dB := Nat.mul_le_mul_right dB ha

/-- composite index `a·dB + b` -/
def mkIdx (a : Fin dA) (b : Fin dB) : Fin (dA * dB) := ⟨a.val * dB + b.val, mkIdx_lt a.isLt b.isLt⟩

/-- first-party digit `i / dB` -/
def fstI (i : Fin (dA * dB)) : Fin dA :=
  ⟨i.val / dB, Nat.div_lt_of_lt_mul (Nat.mul_comm dA dB ▸ i.isLt)⟩

theorem pos_of_lt_mul {n dA dB : Nat} (h : n < dA * dB) : 0 < dB :=
  Nat.pos_of_ne_zero fun h0 => by
    have h' : n < dA * 0 := h0 ▸ h
    exact Nat.not_lt_zero _ (Nat.mul_zero dA ▸ h')

/-- second-party digit `i % dB` -/
def sndI (i : Fin (dA * dB)) : Fin dB := ⟨i.val % dB, Nat.mod_lt _ (pos_of_lt_mul i.isLt)⟩

/-! ## Partial transposes -/

/-- partial transpose on the second party -/
def pTB (X : EMat (dA * dB) (dA * dB)) : EMat (dA * dB) (dA * dB) :=
  ofFn fun i j => X.get (mkIdx (fstI i) (sndI j)) (mkIdx (fstI j) (sndI i))

/-- partial transpose on the first party -/
def pTA (X : EMat (dA * dB) (dA * dB)) : EMat (dA * dB) (dA * dB) :=
  ofFn fun i j => X.get (mkIdx (fstI j) (sndI i)) (mkIdx (fstI i) (sndI j))

/-- partial transpose on party `sys` (`0` = first party, anything else = second party) -/
def pT (sys : Nat) (X : EMat (dA * dB) (dA * dB)) : EMat (dA * dB) (dA * dB) :=
  if sys = 0 then pTA X else pTB X

/-! ## Function-indexed core checkers -/

/-- every `T_sys(M_i)` carries a valid PSD witness -/
def pptPsdOk (sys k : Nat) (M LT : Fin k → EMat (dA * dB) (dA * dB)) : Bool :=
  allFin k fun i => psdCert (pT sys (M i)) (LT i)

/-- PPT primal: `M` is a POVM (witnesses `LM`), every `T_sys(M_i)` is PSD (witnesses `LT`) -/
def checkPPTPrimalFn (sys k : Nat) (ρ : Fin k → EMat (dA * dB) (dA * dB)) (p : Fin k → Rat)
    (M LM LT : Fin k → EMat (dA * dB) (dA * dB)) : Option Rat :=
  if povmPsdOk k M LM && povmSumOk k M && pptPsdOk sys k M LT then some (minErrValueFn k ρ p M) else none

/-- every slack `Y − p_i ρ_i − T_sys(Q_i)` carries a valid PSD witness -/
def pptSlackOk (sys k : Nat) (ρ : Fin k → EMat (dA * dB) (dA * dB)) (p : Fin k → Rat)
    (Y : EMat (dA * dB) (dA * dB)) (Q LS : Fin k → EMat (dA * dB) (dA * dB)) : Bool :=
  allFin k fun i => psdCert (Y - smul (p i) (ρ i) - pT sys (Q i)) (LS i)

/-- PPT dual: `Y` Hermitian, every `Q_i` PSD (witnesses `LQ`), every slack PSD (witnesses `LS`) -/
def checkPPTDualFn (sys k : Nat) (ρ : Fin k → EMat (dA * dB) (dA * dB)) (p : Fin k → Rat)
    (Y : EMat (dA * dB) (dA * dB)) (Q LQ LS : Fin k → EMat (dA * dB) (dA * dB)) : Option Rat :=
  if Y.isHermitian && povmPsdOk k Q LQ && pptSlackOk sys k ρ p Y Q LS then some Y.trace.re else none

/-! ## List-based interface -/

/-- four lists have as many elements as there are states -/
def lens4Ok (k a b c d : Nat) : Bool := a == k && b == k && c == k && d == k

/-- `some (Σ_i p_i Re tr(ρ_i M_i))` iff the lists have one entry per state, every `M_i` has
    `psdCert M_i LM_i`, `Σ_i M_i = 1` entrywise exactly, and every `T_sys(M_i)` has `psdCert … LT_i` -/
def checkPPTPrimal (sys : Nat) (ens : Ensemble (dA * dB)) (M LM LT : List (EMat (dA * dB) (dA * dB))) :
    Option Rat :=
  if lens4Ok ens.size ens.probs.length M.length LM.length LT.length then
    checkPPTPrimalFn sys ens.size (fun i => ens.state i) (fun i => ens.prob i)
      (fun i => matAt M i) (fun i => matAt LM i) (fun i => matAt LT i)
  else none

/-- `some (Re tr Y)` iff the lists have one entry per state, `Y` is Hermitian, every `Q_i` has
    `psdCert Q_i LQ_i` and every `Y − p_i ρ_i − T_sys(Q_i)` has `psdCert … LS_i` -/
def checkPPTDual (sys : Nat) (ens : Ensemble (dA * dB)) (Y : EMat (dA * dB) (dA * dB))
    (Q LQ LS : List (EMat (dA * dB) (dA * dB))) : Option Rat :=
  if lens4Ok ens.size ens.probs.length Q.length LQ.length LS.length then
    checkPPTDualFn sys ens.size (fun i => ens.state i) (fun i => ens.prob i) Y
      (fun i => matAt Q i) (fun i => matAt LQ i) (fun i => matAt LS i)
  else none

/-! ## The programs `ppt_distinguishability` hands to the solver, as lists of constraint expressions

In the order in which the code adds its constraints:

* `_min_error_primal`: `M_i ≽ 0` (all `i`), `Σ_i M_i = 1`, `T_sys(M_i) ≽ 0` (all `i`); with `strategy = "unambig"` there is
  one more operator `M_k` (the inconclusive outcome), followed by `⟨p_j ρ_j, M_i⟩ = 0` for `i ≠ j`, `i, j < k`;
* `_min_error_dual`: `Y − p_i ρ_i − T_sys(Q_i) ≽ 0` (all `i`), `Q_i ≽ 0` (all `i`).

The checkers above verify exactly these expressions (`Toq.C12.checkPPTPrimalFn_iff_program`, `…Dual…`). -/

/-- operators the primal program constrains to be PSD: `M_0 … M_{k-1}`, then `T(M_0) … T(M_{k-1})` -/
def primalPsdExprs (sys k : Nat) (M : Fin k → EMat (dA * dB) (dA * dB)) : List (EMat (dA * dB) (dA * dB)) :=
  (List.finRange k).map M ++ (List.finRange k).map fun i => pT sys (M i)

/-- residual of the primal equality `Σ_i M_i = 1` -/
def primalEqResidual (k : Nat) (M : Fin k → EMat (dA * dB) (dA * dB)) : EMat (dA * dB) (dA * dB) :=
  sumMats k M - one

/-- slack of the `i`-th dual constraint -/
def dualSlack (sys k : Nat) (ρ : Fin k → EMat (dA * dB) (dA * dB)) (p : Fin k → Rat)
    (Y : EMat (dA * dB) (dA * dB)) (Q : Fin k → EMat (dA * dB) (dA * dB)) (i : Fin k) : EMat (dA * dB) (dA * dB) :=
  Y - smul (p i) (ρ i) - pT sys (Q i)

/-- operators the dual program constrains to be PSD: the slacks, then `Q_0 … Q_{k-1}` -/
def dualPsdExprs (sys k : Nat) (ρ : Fin k → EMat (dA * dB) (dA * dB)) (p : Fin k → Rat)
    (Y : EMat (dA * dB) (dA * dB)) (Q : Fin k → EMat (dA * dB) (dA * dB)) : List (EMat (dA * dB) (dA * dB)) :=
  (List.finRange k).map (dualSlack sys k ρ p Y Q) ++ (List.finRange k).map Q

/-! ## `strategy = "unambig"` (primal form only; the dual form raises `ValueError`) -/

/-- left-hand side of the constraint `⟨p_j ρ_j, M_i⟩ = 0` (`= tr(p_j ρ_j M_i)` for Hermitian `M_i`) -/
def unambOverlap (k : Nat) (ρ : Fin k → EMat (dA * dB) (dA * dB)) (p : Fin k → Rat)
    (M : Fin (k + 1) → EMat (dA * dB) (dA * dB)) (i j : Fin k) : QI :=
  ((smul (p j) (ρ j)).mul (M i.castSucc)).trace

/-- all overlaps `⟨p_j ρ_j, M_i⟩`, `i ≠ j`, vanish exactly -/
def unambZeroOk (k : Nat) (ρ : Fin k → EMat (dA * dB) (dA * dB)) (p : Fin k → Rat)
    (M : Fin (k + 1) → EMat (dA * dB) (dA * dB)) : Bool :=
  allFin k fun i => allFin k fun j => decide (i = j) || decide (unambOverlap k ρ p M i j = 0)

/-- objective `Σ_{i<k} p_i Re tr(ρ_i M_i)` (the inconclusive outcome `M_k` does not count) -/
def pptUnambValueFn (k : Nat) (ρ : Fin k → EMat (dA * dB) (dA * dB)) (p : Fin k → Rat)
    (M : Fin (k + 1) → EMat (dA * dB) (dA * dB)) : Rat :=
  minErrValueFn k ρ p fun i => M i.castSucc

/-- unambiguous PPT primal: `k + 1` operators forming a PPT measurement, `⟨p_j ρ_j, M_i⟩ = 0` for `i ≠ j` -/
def checkPPTUnambPrimalFn (sys k : Nat) (ρ : Fin k → EMat (dA * dB) (dA * dB)) (p : Fin k → Rat)
    (M LM LT : Fin (k + 1) → EMat (dA * dB) (dA * dB)) : Option Rat :=
  if povmPsdOk (k + 1) M LM && povmSumOk (k + 1) M && pptPsdOk sys (k + 1) M LT && unambZeroOk k ρ p M then
    some (pptUnambValueFn k ρ p M)
  else none

/-- list interface: one more operator than there are states -/
def checkPPTUnambPrimal (sys : Nat) (ens : Ensemble (dA * dB)) (M LM LT : List (EMat (dA * dB) (dA * dB))) :
    Option Rat :=
  if ens.probs.length == ens.size && lens3Ok (ens.size + 1) M.length LM.length LT.length then
    checkPPTUnambPrimalFn sys ens.size (fun i => ens.state i) (fun i => ens.prob i)
      (fun i => matAt M i) (fun i => matAt LM i) (fun i => matAt LT i)
  else none

/-! ## Argument handling of the two functions -/

/-- which program `ppt_distinguishability(primal_dual, strategy)` builds -/
inductive PPTProgram where
  /-- `_min_error_primal`: `extra` = one more operator than states (`strategy != "min_error"`), `zeroCons` = the constraints
  `⟨p_j ρ_j, M_i⟩ = 0` are added (`strategy == "unambig"`) -/
  | primal (extra zeroCons : Bool)
  /-- `_min_error_dual` -/
  | dual
deriving DecidableEq, Repr

/-- `if primal_dual == "primal": return _min_error_primal(…)`, otherwise `_min_error_dual(…)`, which raises `ValueError` unless
`strategy == "min_error"` -/
def pptDispatch (primalDual strategy : String) : Except String PPTProgram :=
  if primalDual == "primal" then
    .ok (.primal (strategy != "min_error") (strategy == "unambig"))
  else if strategy != "min_error" then .error "ValueError"
  else .ok .dual

/-- the `dim` argument of `symmetric_extension_hierarchy`: `None`, an `int`, or a list `[dim_x, dim_y]` -/
inductive HDimArg where
  | omitted | scalar (d : Nat) | pair (dx dy : Nat)
deriving DecidableEq, Repr

/-- `int(np.round(np.sqrt(N)))` -/
def roundSqrtN (N : Nat) : Nat :=
  let s := Nat.sqrt N
  if N - s * s ≤ s then s else s + 1

/-- a scalar `dim` is expanded to `[dim, dim_xy / dim]` and must divide `dim_xy` (`dim = 0` is not a dimension) -/
def scalarDims (dimXY d : Nat) : Except String (Nat × Nat) :=
  if d = 0 then .error "ZeroDim"
  else if dimXY % d ≠ 0 then .error "ValueError"
  else .ok (d, dimXY / d)

/-- `(dim_x, dim_y)` as `symmetric_extension_hierarchy` computes them from `dim_xy = states[0].shape[0]` and `dim` -/
def symExtDims (dimXY : Nat) : HDimArg → Except String (Nat × Nat)
  | .pair a b => .ok (a, b)
  | .scalar d => scalarDims dimXY d
  | .omitted => scalarDims dimXY (roundSqrtN dimXY)

/-- `dim_list = [dim_x] + [dim_y] * level` -/
def symExtDimList (dx dy level : Nat) : List Nat := dx :: List.replicate level dy

/-- `sys_list = list(range(2, 2 + level - 1))`: the copies of `Y` that are traced out -/
def symExtSysList (level : Nat) : List Nat := List.range' 2 (level - 1)

/-- the subsystems whose partial transpose is constrained: `[0]`, then `[sys + 2] for sys in range(level - 1)` -/
def symExtPTList (level : Nat) : List Nat := 0 :: (List.range (level - 1)).map (· + 2)

/-- size `np.prod(dim_list)` of the extension variables -/
def symExtSize (dx dy level : Nat) : Nat := (symExtDimList dx dy level).foldl (· * ·) 1

end Toq.PPTDisc
