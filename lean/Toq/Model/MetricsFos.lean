import Toq.Core.Idx
import Toq.Core.Scalar
import Toq.Model.Combinat
/-!
# Mirror model of `toqito/state_metrics/fidelity_of_separability.py` (C13) — executable, no Mathlib

The function checks its arguments (`is_density`, `len(dims) == 2`, `is_pure`, `is_separable`), builds one picos program and returns the
square of its optimal value.  Modelled here:

* the decision logic of the guards (`fosGuard`, with `fosPureGuard` for `is_pure` and `fosSepHead` for the part of `is_separable` that
  is decided by the dimensions alone),
* the dimension bookkeeping (`fosDimList`, `fosSize`, `fosTraceSys`, `fosPTSysLists`),
* every expression the program is built from, as functions of a point `(X, σ)` given by exact matrices with flat (tensor-order)
  indices (`fosExprs`): the block matrix `[[ρ, X], [Xᴴ, tr_{B₂…B_k} σ]]`, `σ`, `tr σ`, the residual of the symmetric-subspace
  equation, the partial transposes `T_{B₁…B_j} σ` for `j = 1 … k − 1`, and the objective `½ tr(X + Xᴴ)` (returned doubled).

`picos.partial_trace(σ, [2, …, k], dims)`, `picos.partial_transpose(σ, [1, …, j], dims)`, `picos.block`, `picos.I(dA) @ P` are picos
functions, not toqito code; they are modelled by their meaning on flat indices (`dims = [dA, dB, …, dB]`, big-endian digits), and the
harness compares the model with the values picos assigns to the captured expressions on every run.  `symmetric_projection(dB, k)` is
toqito code: its mirror `Toq.Combinat.symProjN` (C18) is used, which is `k!` times the projector, so the symmetric-subspace residual is
returned multiplied by `(k!)²`.

The scalar type is generic (core classes only): the driver runs the model over Gaussian integers (`GI`); the refinement theorems
(`Toq/Proofs/MetricsFosModel.lean`) read it over `ℂ`.
-/

namespace Toq.Metrics

/-! ## Argument guards -/

/-- how `is_separable(ρ, dims)` ends -/
inductive FosSepVerdict
  /-- it raises (`ValueError`: the dimensions do not multiply to the size of `ρ`, …) -/
  | raises
  /-- it returns `False` -/
  | entangled
  /-- it returns `True` -/
  | separable
  deriving DecidableEq, Repr

/-- how a call of `fidelity_of_separability` ends -/
inductive FosOutcome
  /-- `ValueError("Provided input state is not a density matrix.")` -/
  | notDensity
  /-- `AssertionError("For State SDP: require bipartite state dims.")` -/
  | notBipartite
  /-- `ValueError("This function only works for pure states.")` -/
  | notPure
  /-- the exception raised inside `is_separable` propagates -/
  | sepError
  /-- `ValueError("Provided input state is entangled.")` -/
  | entangled
  /-- the guards pass but `dA · dB` is not the size of `ρ`: `picos.block` refuses the block matrix (`TypeError`) -/
  | buildError
  /-- the program is built and solved; the square of the optimal value is returned -/
  | solve
  deriving DecidableEq, Repr

/-- the four `if not …: raise` statements in the order of the code, then the construction of the program -/
def fosGuard (density : Bool) (dimsLen : Nat) (pure : Bool) (sep : FosSepVerdict) (dimsProdOk : Bool) : FosOutcome :=
  if !density then .notDensity
  else if dimsLen != 2 then .notBipartite
  else if !pure then .notPure
  else match sep with
    | .raises => .sepError
    | .entangled => .entangled
    | .separable => if dimsProdOk then .solve else .buildError

/-- `is_pure(ρ)`: `np.allclose(max eigenvalue, 1)`, i.e. `|λ_max − 1| ≤ atol + rtol · 1` with `atol = 1e-8`, `rtol = 1e-5`
(`λ_max = re + i·im` as `np.linalg.eig` delivers it) -/
def fosPureGuard (re im : Rat) : Bool :=
  decide ((re - 1) * (re - 1) + im * im ≤ (1 / 100000000 + 1 / 100000) * (1 / 100000000 + 1 / 100000))

/-- the part of `is_separable(ρ, [dA, dB])` (for a positive semidefinite `n × n` matrix `ρ`) that the dimensions decide:
`min(dim) == 1` returns `True` before the dimensions are ever compared with `n`; otherwise `partial_trace` raises when `dA · dB ≠ n`;
otherwise (`none`) the separability criteria decide -/
def fosSepHead (n dA dB : Nat) : Option FosSepVerdict :=
  if min dA dB = 1 then some .separable
  else if dA * dB ≠ n then some .raises
  else none

/-! ## Dimension bookkeeping -/

/-- `dim_direct_sum_ab_k = [dim_a] + [dim_b] * k` -/
def fosDimList (dA dB k : Nat) : List Nat := dA :: List.replicate k dB

/-- the same as a radix function: position `0` is `A`, every later position a copy of `B` -/
def fosDims (dA dB : Nat) : Nat → Nat := fun t => if t = 0 then dA else dB

/-- `dim_op_sigma_ab_k = dim_a * dim_b**k` -/
def fosSize (dA dB k : Nat) : Nat := dA * dB ^ k

/-- `sub_sys_ext = list(range(2, 2 + k - 1))`: the copies `B₂ … B_k` that are traced out -/
def fosTraceSys (k : Nat) : List Nat := List.range' 2 (k - 1)

/-- the lists `sys` of the loop `for i in range(1, k): sys = sys + [i]`: `[1]`, `[1, 2]`, …, `[1, …, k − 1]` -/
def fosPTSysLists (k : Nat) : List (List Nat) := (List.range' 1 (k - 1)).map fun i => List.range' 1 i

/-! ## The expressions -/

section Exprs
variable {α : Type} [Add α] [Sub α] [Mul α] [Zero α] [HasConj α]

/-- trace out the last tensor factor (dimension `d`) -/
def fosTraceLast (d : Nat) (σ : Nat → Nat → α) : Nat → Nat → α :=
  fun i j => sumN d fun c => σ (i * d + c) (j * d + c)

/-- trace out the last `r` tensor factors (each of dimension `d`), one after the other -/
def fosTraceTail (d : Nat) : Nat → (Nat → Nat → α) → Nat → Nat → α
  | 0, σ => σ
  | r + 1, σ => fosTraceTail d r (fosTraceLast d σ)

/-- `picos.partial_trace(σ, fosTraceSys k, fosDimList dA dB k)`: the marginal on `A ⊗ B₁` -/
def fosMarg (dB k : Nat) (σ : Nat → Nat → α) : Nat → Nat → α := fosTraceTail dB (k - 1) σ

/-- the index whose digits on the systems `1 … j` are those of `J`, all other digits those of `I` (`k + 1` digits, radices `fosDims`) -/
def fosMix (dA dB k j I J : Nat) : Nat :=
  enc (fosDims dA dB)
    (fun t => if 1 ≤ t ∧ t ≤ j then dec (fosDims dA dB) (k + 1) J t else dec (fosDims dA dB) (k + 1) I t) (k + 1)

/-- `picos.partial_transpose(σ, [1, …, j], fosDimList dA dB k)` -/
def fosPT (dA dB k j : Nat) (σ : Nat → Nat → α) : Nat → Nat → α :=
  fun I J => σ (fosMix dA dB k j I J) (fosMix dA dB k j J I)

/-- `picos.block([[ρ, X], [X.H, M]])` for `n × n` blocks -/
def fosBlock (n : Nat) (ρ X M : Nat → Nat → α) : Nat → Nat → α :=
  fun i j =>
    if i < n then (if j < n then ρ i j else X i (j - n))
    else (if j < n then HasConj.conj (X j (i - n)) else M (i - n) (j - n))

/-- `(picos.I(dA) @ S) * σ * (picos.I(dA) @ S)` for an `R × R` matrix `S` (`R = dB^k`); `I ⊗ S` is block diagonal, the sums
run over the non-zero block only -/
def fosSandwich (R : Nat) (S : Nat → Nat → α) (σ : Nat → Nat → α) : Nat → Nat → α :=
  fun i j => sumN R fun l => S (i % R) l * sumN R fun m => σ (i / R * R + l) (j / R * R + m) * S m (j % R)

/-- `picos.trace` of an `N × N` matrix -/
def fosTrace (N : Nat) (σ : Nat → Nat → α) : α := sumN N fun i => σ i i

/-- the expressions of the program at a point `(X, σ)` -/
structure FosExprs (α : Type) where
  /-- `[[ρ, X], [Xᴴ, tr_{B₂…B_k} σ]]`, of size `2 dA dB`  (constraint: `⪰ 0`) -/
  block : Nat → Nat → α
  /-- `σ`  (constraint: `⪰ 0`) -/
  sigma : Nat → Nat → α
  /-- `tr σ`  (constraint: `= 1`) -/
  trace : α
  /-- `(k!)² · ((1 ⊗ Π) σ (1 ⊗ Π) − σ)`  (constraint: `= 0`) -/
  symRes : Nat → Nat → α
  /-- `T_{B₁…B_j} σ` for `j = 1, …, k − 1`  (constraints: `⪰ 0`) -/
  pts : List (Nat → Nat → α)
  /-- `tr(X + Xᴴ)`: twice the objective -/
  obj2 : α

/-- the program of `fidelity_of_separability(ρ, [dA, dB], k)` at the point `(X, σ)`; `S` is the matrix `symProjN dB k` (i.e.
`k! · symmetric_projection(dB, k)`) read in `α`, `fact2` the number `(k!)²` read in `α` -/
def fosExprsWith (dA dB k : Nat) (S : Nat → Nat → α) (fact2 : α) (ρ X σ : Nat → Nat → α) : FosExprs α :=
  let n := dA * dB
  { block := fosBlock n ρ X (fosMarg dB k σ)
    sigma := σ
    trace := fosTrace (fosSize dA dB k) σ
    symRes := fun i j => fosSandwich (dB ^ k) S σ i j - fact2 * σ i j
    pts := (List.range' 1 (k - 1)).map fun j => fosPT dA dB k j σ
    obj2 := sumN n fun i => X i i + HasConj.conj (X i i) }

/-- `k!` -/
def fosFact : Nat → Nat
  | 0 => 1
  | n + 1 => (n + 1) * fosFact n

/-- the program with toqito's own `symmetric_projection(dB, k)` (mirror model of C18); `ofInt` reads an integer in `α` -/
def fosExprs (ofInt : Int → α) (dA dB k : Nat) (ρ X σ : Nat → Nat → α) : FosExprs α :=
  fosExprsWith dA dB k (fun i j => ofInt (Toq.Combinat.symProjN dB k i j))
    (ofInt ((fosFact k * fosFact k : Nat) : Int)) ρ X σ

end Exprs

/-! ## The product point -/

section Product
variable {α : Type} [Mul α] [One α] [HasConj α]

/-- the vector `a ⊗ b^{(0)} ⊗ … ⊗ b^{(k−1)}` with `b^{(t)} = conj b` for `t < j`, `b` otherwise (flat index, `k` copies of `b`) -/
def fosProdVec (dB : Nat) (a b : Nat → α) (j : Nat) : Nat → Nat → α
  | 0, I => a I
  | k + 1, I => fosProdVec dB a b j k (I / dB) * (if k < j then HasConj.conj (b (I % dB)) else b (I % dB))

/-- `v vᴴ` -/
def fosOuter (v : Nat → α) : Nat → Nat → α := fun i j => v i * HasConj.conj (v j)

end Product

end Toq.Metrics
