import Toq.Core.ND
/-!
# Mirror model of `toqito/perms/permute_systems.py`, `swap.py`, `permutation_operator.py`,
`swap_operator.py` (no Mathlib)

The vector branch of `permute_systems` is
```
permuted_mat_1 = input_mat.reshape(dim[vec_orien, ::-1].astype(int), order="F")
axes = num_sys - np.array(perm[::-1])          # num_sys already decremented
if inv_perm: axes = np.argsort(axes)
permuted_mat = vec(np.transpose(permuted_mat_1, axes)).T
```
and the matrix branch gathers rows and columns by the vector branch applied to `arange`.
-/

namespace Toq.Perms

/-- `num_sys - np.array(perm[::-1])` -/
def axes0 (n : Nat) (perm : Nat → Nat) : Nat → Nat := fun k => (n - 1) - perm (rev n k)

/-- the transposition axes actually used -/
def axes (n : Nat) (perm : Nat → Nat) (inv : Bool) : Nat → Nat :=
  if inv then invPerm n (axes0 n perm) else axes0 n perm

/-- vector branch of `permute_systems` -/
def permuteVec (v : Nat → α) (n : Nat) (perm dims : Nat → Nat) (inv : Bool) : Nat → α :=
  ((ND.ofFlatF v n (fun k => dims (rev n k))).transpose (axes n perm inv)).vecF

/-- `row_perm` / `col_perm`: the vector branch applied to `arange` -/
def permIndex (n : Nat) (perm dims : Nat → Nat) (inv : Bool) : Nat → Nat :=
  permuteVec (fun j => j) n perm dims inv

/-- matrix branch of `permute_systems` -/
def permuteMat (X : Nat → Nat → α) (n : Nat) (perm rdims cdims : Nat → Nat) (rowOnly inv : Bool) :
    Nat → Nat → α :=
  fun i j => X (permIndex n perm rdims inv i) (if rowOnly then j else permIndex n perm cdims inv j)

/-- `perm = arange(n); perm[sys] = perm[sys[::-1]]` with 0-indexed `s1 s2` -/
def swapPerm (s1 s2 : Nat) : Nat → Nat := fun k => if k = s1 then s2 else if k = s2 then s1 else k

/-- `permutation_operator(dim, perm, inv_perm)`: rows of the identity gathered -/
def permOp [Zero α] [One α] (n : Nat) (perm dims : Nat → Nat) (inv : Bool) : Nat → Nat → α :=
  permuteMat (fun i j => if i = j then 1 else 0) n perm dims dims true inv

/-- the mathematical reading: `out[j] = in[enc dims (y ∘ perm⁻¹)]` where `y` are the digits of `j`
    with respect to the permuted radices `dims ∘ perm` -/
def specIndex (n : Nat) (perm dims : Nat → Nat) (j : Nat) : Nat :=
  enc dims (fun k => dec (fun m => dims (perm m)) n j (invPerm n perm k)) n

end Toq.Perms
