/-!
# Index arithmetic shared by all models (no imports, core Lean only)

Digit vectors and radix vectors are total functions `Nat → Nat` together with an explicit length `n`;
only positions `< n` are meaningful.  `enc` is the big-endian mixed-radix code used by toqito for
tensor-product indices (position 0 = most significant = first tensor factor); `flatF`/`unflatF` are
NumPy's `order="F"` flat index and its inverse.
-/

/-- product `d 0 * … * d (n-1)` -/
def prodN (d : Nat → Nat) : Nat → Nat
  | 0 => 1
  | n + 1 => prodN d n * d n

/-- big-endian code: position 0 most significant, position n-1 least significant -/
def enc (d x : Nat → Nat) : Nat → Nat
  | 0 => 0
  | n + 1 => enc d x n * d n + x n

/-- digit `k` (0 ≤ k < n) of `i` in the big-endian code with radices `d` (length `n`) -/
def dec (d : Nat → Nat) : Nat → Nat → Nat → Nat
  | 0, _, _ => 0
  | n + 1, i, k => if k = n then i % d n else dec d n (i / d n) k

/-- NumPy `order="F"` flat index of multi-index `idx` for shape `s` with `n` axes (axis 0 fastest). -/
def flatF (s idx : Nat → Nat) : Nat → Nat
  | 0 => 0
  | n + 1 => flatF s idx n + idx n * prodN s n

/-- axis-`k` digit of flat position `j` in `order="F"` for shape `s` -/
def unflatF (s : Nat → Nat) (j k : Nat) : Nat := (j / prodN s k) % s k

/-- NumPy `order="C"` flat index = big-endian code. -/
abbrev flatC (s idx : Nat → Nat) (n : Nat) : Nat := enc s idx n

/-- axis-`k` digit of flat position `j` in `order="C"` -/
abbrev unflatC (s : Nat → Nat) (n j k : Nat) : Nat := dec s n j k

/-- position reversal on `0..n-1` -/
def rev (n k : Nat) : Nat := n - 1 - k

/-- least `k < n` with `p k = m` (or `n` if none): `np.argsort` of a permutation, inverse permutation -/
def invPerm (n : Nat) (p : Nat → Nat) (m : Nat) : Nat :=
  go n 0
where
  go : Nat → Nat → Nat
    | 0, k => k
    | f + 1, k => if p k = m then k else go f (k + 1)

/-- all `k < n` satisfy `q k` -/
def allBelow (n : Nat) (q : Nat → Bool) : Bool :=
  match n with
  | 0 => true
  | n + 1 => allBelow n q && q n

/-- some `k < n` satisfies `q k` -/
def anyBelow (n : Nat) (q : Nat → Bool) : Bool :=
  match n with
  | 0 => false
  | n + 1 => anyBelow n q || q n

/-- `sorted(perm) == list(range(n))` -/
def isPerm (n : Nat) (p : Nat → Nat) : Bool :=
  allBelow n (fun m => anyBelow n (fun k => p k == m)) && allBelow n (fun k => p k < n)

/-- list → total function with a default -/
def fnOfList (l : List Nat) (dflt : Nat := 0) : Nat → Nat := fun k => l.getD k dflt

/-- total function → list of its first `n` values -/
def listOfFn (n : Nat) (f : Nat → α) : List α := (List.range n).map f

/-- `Σ_{k<n} f k`, left fold in index order (as NumPy/Python loops do) -/
def sumN [Add α] [Zero α] (n : Nat) (f : Nat → α) : α :=
  match n with
  | 0 => 0
  | n + 1 => sumN n f + f n

/-- `Π_{k<n} f k` -/
def prodFn [Mul α] [One α] (n : Nat) (f : Nat → α) : α :=
  match n with
  | 0 => 1
  | n + 1 => prodFn n f * f n
