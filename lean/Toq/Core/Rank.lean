import Toq.Core.EMat
/-!
# Exact rank and pivot columns over `ℚ[i]` by Gaussian elimination (executable, no Mathlib)

One implementation shared by the exact oracles of C06 (Choi rank, extremality), C14 (Schmidt rank) and
C16 (rank, spark, linear independence, UPB search, commutant nullity).  It is proved correct with respect
to Mathlib's `Matrix.rank` of the denoted complex matrix in `Toq/Proofs/Rank.lean`:

* `Toq.Rank.rankE_eq_rank   : rankE A = A.toM.rank`
* `Toq.Rank.pivotsE_length  : (pivotsE A).length = A.toM.rank`
* `Toq.Rank.pivotsE_linearIndependent` : the pivot columns of `A` are linearly independent
  (so they are a basis of the column space).

The algorithm is forward elimination, column by column: with `r` pivots found so far, look for a row
`p ≥ r` with a non-zero entry in the current column `c`; if there is one, exchange rows `r` and `p`,
subtract from every row `i > r` the multiple of the (new) row `r` that clears its entry in column `c`,
record `c` as a pivot column and increase `r`.  The matrix is `Vector`-backed (`EMat`), so entries are
stored, not recomputed.
-/

namespace Toq.Rank

/-- inverse in `ℚ[i]` (`0 ↦ 0`) -/
def qinv (a : QI) : QI :=
  let s := a.re * a.re + a.im * a.im
  ⟨a.re / s, -a.im / s⟩

variable {n m : Nat}

/-- the first row index `i ≥ r` with a non-zero entry in column `c` -/
def findPivot (A : EMat n m) (r : Nat) (c : Fin m) : Option (Fin n) :=
  (List.finRange n).find? fun i => decide (r ≤ i.val) && (A.get i c != 0)

/-- the row read at position `i` after exchanging rows `r` and `p` -/
def swapIdx (r p i : Fin n) : Fin n := if i = r then p else if i = p then r else i

/-- exchange rows `r` and `p` (the pivot row, non-zero in column `c`), then subtract from every row
    `i > r` the multiple of the pivot row that clears column `c` -/
def elimRows (A : EMat n m) (r p : Fin n) (c : Fin m) : EMat n m :=
  let prow := A.v[p]
  let inv := qinv prow[c]
  ⟨Vector.ofFn fun i =>
    let row := A.v[swapIdx r p i]
    if i.val ≤ r.val then row
    else
      let f := row[c] * inv
      if f = 0 then row else Vector.ofFn fun j => row[j] - f * prow[j]⟩

/-- elimination state: current matrix, number of pivots, pivot columns (in increasing order) -/
structure State (n m : Nat) where
  M : EMat n m
  r : Nat
  piv : List (Fin m)

/-- process column `c` -/
def step (s : State n m) (c : Fin m) : State n m :=
  match findPivot s.M s.r c with
  | none => s
  | some p =>
    if h : s.r < n then ⟨elimRows s.M ⟨s.r, h⟩ p c, s.r + 1, s.piv ++ [c]⟩ else s

/-- the state after processing the columns `0, …, k-1` -/
def run (A : EMat n m) : Nat → State n m
  | 0 => ⟨A, 0, []⟩
  | k + 1 => if h : k < m then step (run A k) ⟨k, h⟩ else run A k

/-- exact rank -/
def rankE (A : EMat n m) : Nat := (run A m).r

/-- pivot columns: the lexicographically first maximal linearly independent set of columns -/
def pivotsE (A : EMat n m) : List (Fin m) := (run A m).piv

/-- exact rank of the `n × m` block of a function matrix -/
def rankFn (n m : Nat) (f : Nat → Nat → QI) : Nat := rankE (EMat.ofFn (n := n) (m := m) fun i j => f i.val j.val)

/-- pivot columns of the `n × m` block of a function matrix -/
def pivotsFn (n m : Nat) (f : Nat → Nat → QI) : List Nat :=
  (pivotsE (EMat.ofFn (n := n) (m := m) fun i j => f i.val j.val)).map (·.val)

end Toq.Rank
