import Toq.Core.Idx
/-!
# NumPy n-d array primitives on the index level (no Mathlib)

An array is `(n, shape, get)`; `get` takes a multi-index as a function `Nat → Nat` (positions `< n`
are meaningful).  These are the primitives the mirror models are written in: `reshape(order="F")`,
`np.transpose(a, axes)`, `vec` (`reshape((-1,1), order="F")`).
-/

structure ND (α : Type) where
  n : Nat
  shape : Nat → Nat
  get : (Nat → Nat) → α

namespace ND

/-- `v.reshape(shape, order="F")` for a flat vector `v` -/
def ofFlatF (v : Nat → α) (n : Nat) (shape : Nat → Nat) : ND α :=
  ⟨n, shape, fun idx => v (flatF shape idx n)⟩

/-- `v.reshape(shape)` (C order) for a flat vector `v` -/
def ofFlatC (v : Nat → α) (n : Nat) (shape : Nat → Nat) : ND α :=
  ⟨n, shape, fun idx => v (flatC shape idx n)⟩

/-- `np.transpose(a, axes)`: `out.shape[k] = a.shape[axes[k]]`, `out[idx] = a[j]` with `j[axes[k]] = idx[k]` -/
def transpose (a : ND α) (axes : Nat → Nat) : ND α :=
  ⟨a.n, fun k => a.shape (axes k), fun idx => a.get (fun m => idx (invPerm a.n axes m))⟩

/-- `a.reshape(-1, order="F")` -/
def vecF (a : ND α) : Nat → α := fun j => a.get (fun k => unflatF a.shape j k)

/-- `a.reshape(-1)` (C order) -/
def vecC (a : ND α) : Nat → α := fun j => a.get (fun k => unflatC a.shape a.n j k)

/-- number of entries -/
def size (a : ND α) : Nat := prodN a.shape a.n

end ND
