/-!
# Exact scalars for the executable side (no Mathlib)

`GI` — Gaussian integers (exact image of integer-valued complex128 data);
`QI` — Gaussian rationals `ℚ[i]` (every IEEE double is a dyadic rational, so every complex128 is a `QI`).
-/

structure GI where
  re : Int
  im : Int
deriving DecidableEq, Repr, Inhabited

namespace GI
instance : Add GI := ⟨fun a b => ⟨a.re + b.re, a.im + b.im⟩⟩
instance : Sub GI := ⟨fun a b => ⟨a.re - b.re, a.im - b.im⟩⟩
instance : Neg GI := ⟨fun a => ⟨-a.re, -a.im⟩⟩
instance : Mul GI := ⟨fun a b => ⟨a.re * b.re - a.im * b.im, a.re * b.im + a.im * b.re⟩⟩
instance : Zero GI := ⟨⟨0, 0⟩⟩
instance : One GI := ⟨⟨1, 0⟩⟩
def conj (a : GI) : GI := ⟨a.re, -a.im⟩
def ofInt (z : Int) : GI := ⟨z, 0⟩
end GI

structure QI where
  re : Rat
  im : Rat
deriving DecidableEq, Repr, Inhabited

namespace QI
instance : Add QI := ⟨fun a b => ⟨a.re + b.re, a.im + b.im⟩⟩
instance : Sub QI := ⟨fun a b => ⟨a.re - b.re, a.im - b.im⟩⟩
instance : Neg QI := ⟨fun a => ⟨-a.re, -a.im⟩⟩
instance : Mul QI := ⟨fun a b => ⟨a.re * b.re - a.im * b.im, a.re * b.im + a.im * b.re⟩⟩
instance : Zero QI := ⟨⟨0, 0⟩⟩
instance : One QI := ⟨⟨1, 0⟩⟩
def conj (a : QI) : QI := ⟨a.re, -a.im⟩
def ofRat (q : Rat) : QI := ⟨q, 0⟩
def smul (q : Rat) (a : QI) : QI := ⟨q * a.re, q * a.im⟩
/-- `|re| + |im|`, an upper bound of the modulus that stays rational -/
def abs1 (a : QI) : Rat := (if a.re < 0 then -a.re else a.re) + (if a.im < 0 then -a.im else a.im)
end QI

/-- conjugation as a class so that models can be written once for `Int`, `GI`, `QI` and, in proofs, `ℂ` -/
class HasConj (α : Type) where
  conj : α → α

instance : HasConj Int := ⟨id⟩
instance : HasConj Rat := ⟨id⟩
instance : HasConj GI := ⟨GI.conj⟩
instance : HasConj QI := ⟨QI.conj⟩
