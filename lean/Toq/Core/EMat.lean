import Toq.Core.Scalar
/-!
# Executable exact matrices over `ℚ[i]` (no Mathlib), used by the certificate checkers

`Vector`-backed so that entries are stored (not recomputed); `get_ofFn` reduces every algebraic
lemma to a statement about functions.
-/

structure EMat (n m : Nat) where
  v : Vector (Vector QI m) n

namespace EMat
variable {n m k : Nat}

def get (A : EMat n m) (i : Fin n) (j : Fin m) : QI := (A.v[i])[j]
def ofFn (f : Fin n → Fin m → QI) : EMat n m := ⟨Vector.ofFn fun i => Vector.ofFn fun j => f i j⟩

@[simp] theorem get_ofFn (f : Fin n → Fin m → QI) (i : Fin n) (j : Fin m) : (ofFn f).get i j = f i j := by
  simp [get, ofFn]

/-- left fold in index order -/
def sumFin (k : Nat) (f : Fin k → QI) : QI := (List.finRange k).foldl (fun acc l => acc + f l) 0
def sumFinQ (k : Nat) (f : Fin k → Rat) : Rat := (List.finRange k).foldl (fun acc l => acc + f l) 0

def add (A B : EMat n m) : EMat n m := ofFn fun i j => A.get i j + B.get i j
def sub (A B : EMat n m) : EMat n m := ofFn fun i j => A.get i j - B.get i j
def neg (A : EMat n m) : EMat n m := ofFn fun i j => - A.get i j
def smul (q : Rat) (A : EMat n m) : EMat n m := ofFn fun i j => QI.smul q (A.get i j)
def mul (A : EMat n k) (B : EMat k m) : EMat n m := ofFn fun i j => sumFin k fun l => A.get i l * B.get l j
/-- conjugate transpose -/
def ct (A : EMat n m) : EMat m n := ofFn fun i j => (A.get j i).conj
def transpose (A : EMat n m) : EMat m n := ofFn fun i j => A.get j i
def one : EMat n n := ofFn fun i j => if i = j then 1 else 0
def zero : EMat n m := ofFn fun _ _ => 0
def trace (A : EMat n n) : QI := sumFin n fun i => A.get i i
def scalar (q : Rat) : EMat n n := ofFn fun i j => if i = j then QI.ofRat q else 0

instance : Add (EMat n m) := ⟨add⟩
instance : Sub (EMat n m) := ⟨sub⟩
instance : Neg (EMat n m) := ⟨neg⟩

def allFin (k : Nat) (p : Fin k → Bool) : Bool := (List.finRange k).all p

/-- entrywise `A = Aᴴ` -/
def isHermitian (A : EMat n n) : Bool := allFin n fun i => allFin n fun j => A.get i j == (A.get j i).conj

/-- entrywise equality -/
def beq (A B : EMat n m) : Bool := allFin n fun i => allFin m fun j => A.get i j == B.get i j

/-- Hermitian, real non-negative diagonal dominating the (`|re|+|im|`) off-diagonal row sums:
    a sufficient, exactly decidable condition for positive semidefiniteness (Gershgorin) -/
def diagDominant (R : EMat n n) : Bool :=
  isHermitian R && allFin n fun i =>
    decide (sumFinQ n (fun j => if j = i then 0 else (R.get i j).abs1) ≤ (R.get i i).re)

/-- PSD certificate: `A` is Hermitian and `A - L Lᴴ` is diagonally dominant -/
def psdCert (A : EMat n n) (L : EMat n k) : Bool := isHermitian A && diagDominant (A - L.mul L.ct)

def ofRows (rows : Array (Array QI)) (n m : Nat) : EMat n m :=
  ofFn fun i j => (rows[i.val]!)[j.val]!

def toRows (A : EMat n m) : Array (Array QI) := A.v.toArray.map (·.toArray)

end EMat
