import Toq.Proofs.Exclusion
import Toq.Proofs.ExclusionFamilies
import Toq.Proofs.ExclusionCompact
/-!
# C11 — quantum state exclusion: the optimisation problems, their certificate checkers, the value as a true minimum,
closed forms and explicit optimal points for families, antidistinguishability, and what the code does around the solve

The optimisation problems are stated over `Matrix (Fin d) (Fin d) ℂ` with Mathlib's `Matrix.PosSemidef`.
The executable checkers (`Toq.Model.Exclusion`) work over exact Gaussian rationals; `EMat.toM` is the
denotation of an exact matrix, `Rat.cast` that of an exact number.

* minimum-error exclusion of `{(p_i, ρ_i)}` (toqito `state_exclusion(strategy="min_error")`): minimise
  `exclusionValue ρ p M = Σ_i p_i Re tr(ρ_i M_i)` over POVMs `M`; dual: maximise `Re tr Y` subject to
  `p_i ρ_i − Y ⪰ 0` for all `i`;
* unambiguous exclusion (toqito `strategy="unambiguous"`), `σ_i = p_i ρ_i`, `S = Σ_i σ_i`: minimise
  `Re tr(S (1 − Σ_i M_i))` subject to `M_i ⪰ 0`, `1 − Σ_i M_i ⪰ 0`, `tr(σ_i M_i) = 0`; dual: maximise
  `1 − Re tr N` subject to `N ⪰ 0`, `N + a_i σ_i − S ⪰ 0` (`a_i` real);
* `is_antidistinguishable` / `common_quantum_overlap` call the min-error dual with all weights `p_i = 1` and
  post-process the value (`antidistTest`, `cqoPost`).

Contents: weak duality and soundness of the four checkers (`check…_sound`, ∀/∃ form); the duality gap and complementary
slackness (`excl_primal_eq_dual_iff`, `excl_optimal_of_slackness`); the minimum is attained (`excl_min_attained`, compactness)
and is `0` exactly for antidistinguishable sets, positive otherwise (`antidist_iff_min_eq_zero`, `excl_pos_of_not_antidist`);
bounds, invariances (unitary, relabelling), monotonicity under adding a state, concavity in the prior; explicit optima for
families of all sizes: an orthogonal pair, projector frames (trine, BB84, Bell), identical states, two states (closed form
`½ tr − ½‖·‖₁`, antidistinguishable iff orthogonal), `trine()`, `pusey_barrett_rudolph(1, θ)` and `(2, θ)` for every angle of the
antidistinguishable range; the unambiguous value dominates the conclusive one; the arithmetic after the solve.

Not proved (cited / certified per instance by the checkers): strong duality for *every* ensemble (it holds by Slater's
condition – `Y = −1` is strictly feasible; per instance the harness certifies `lo ≤ value ≤ hi` with `hi − lo ≤ 10⁻⁴`, and
`excl_optimal_of_slackness` turns any exactly slack pair into a proof); PBR states for `n = 2` *below* the threshold angle and for
`n ≥ 3` (certified per instance).
-/

open Matrix
open scoped ComplexOrder MatrixOrder

namespace Toq.C11
open Toq.Discrim Toq.Excl

variable {d k : Nat}

/-! ## The mathematical problems -/

/-- `M` is a `k`-outcome measurement on `ℂ^d` -/
def IsPOVM (M : Fin k → Matrix (Fin d) (Fin d) ℂ) : Prop := (∀ i, (M i).PosSemidef) ∧ ∑ i, M i = 1

/-- `Σ_i p_i · Re tr(ρ_i M_i)`: probability that the state named by the measurement `M` ("it was not
`ρ_i`") is the one that was prepared – the error probability of conclusive exclusion -/
noncomputable def exclusionValue (ρ : Fin k → Matrix (Fin d) (Fin d) ℂ) (p : Fin k → ℝ)
    (M : Fin k → Matrix (Fin d) (Fin d) ℂ) : ℝ :=
  ∑ i, p i * (ρ i * M i).trace.re

/-- `Y` is feasible for the dual of minimum-error exclusion: `Y ⪯ p_i ρ_i` for every `i` -/
def ExclDualFeasible (ρ : Fin k → Matrix (Fin d) (Fin d) ℂ) (p : Fin k → ℝ)
    (Y : Matrix (Fin d) (Fin d) ℂ) : Prop :=
  ∀ i, ((p i : ℂ) • ρ i - Y).PosSemidef

/-- the states are antidistinguishable: some measurement never names the state that was prepared -/
def IsAntidistinguishable (ρ : Fin k → Matrix (Fin d) (Fin d) ℂ) : Prop :=
  ∃ M : Fin k → Matrix (Fin d) (Fin d) ℂ, IsPOVM M ∧ ∀ i, (ρ i * M i).trace = 0

/-- the ensemble and the measurement rotated by a common `U` -/
def rot (U : Matrix (Fin d) (Fin d) ℂ) (A : Fin k → Matrix (Fin d) (Fin d) ℂ) :
    Fin k → Matrix (Fin d) (Fin d) ℂ := fun i => U * A i * Uᴴ

/-- `M` is feasible for toqito's unambiguous-exclusion primal with unnormalised states `σ_i = p_i ρ_i` -/
def UnambExclFeasible (σ : Fin k → Matrix (Fin d) (Fin d) ℂ) (M : Fin k → Matrix (Fin d) (Fin d) ℂ) :
    Prop :=
  (∀ i, (M i).PosSemidef) ∧ (1 - ∑ i, M i).PosSemidef ∧ ∀ i, (σ i * M i).trace.re = 0

/-- `(N, a)` is feasible for toqito's unambiguous-exclusion dual -/
def UnambExclDualFeasible (σ : Fin k → Matrix (Fin d) (Fin d) ℂ) (N : Matrix (Fin d) (Fin d) ℂ)
    (a : Fin k → ℝ) : Prop :=
  N.PosSemidef ∧ ∀ i, (N + (a i : ℂ) • σ i - ∑ j, σ j).PosSemidef

/-! ## Denotation of checker inputs -/

/-- the states of an exact ensemble as complex matrices -/
def ensStates (ens : Ensemble d) : Fin ens.size → Matrix (Fin d) (Fin d) ℂ := fun i => (ens.state i).toM
/-- the prior probabilities of an exact ensemble as reals -/
def ensProbs (ens : Ensemble d) : Fin ens.size → ℝ := fun i => ((ens.prob i : Rat) : ℝ)
/-- first `k` matrices of a list as complex matrices -/
def mats (k : Nat) (M : List (EMat d d)) : Fin k → Matrix (Fin d) (Fin d) ℂ := fun i => (matAt M i).toM

/-! ## Weak duality and the certificate checkers -/

/-- Weak duality: for every dual-feasible `Y`, `Re tr Y` is at most the exclusion value of every
measurement.  (No assumption on `ρ`, `p` or Hermiticity of `Y` beyond the constraints themselves.) -/
theorem excl_weak_duality (ρ : Fin k → Matrix (Fin d) (Fin d) ℂ) (p : Fin k → ℝ)
    (M : Fin k → Matrix (Fin d) (Fin d) ℂ) (Y : Matrix (Fin d) (Fin d) ℂ)
    (hM : IsPOVM M) (hY : ExclDualFeasible ρ p Y) :
    Y.trace.re ≤ exclusionValue ρ p M :=
  excl_weak_duality_gen ρ p M Y hM.1 hM.2 hY

/-- If the primal checker accepts with value `hi`, the candidate is a POVM (one element per state)
whose exclusion value is exactly `hi`; hence `hi` is an upper bound of the minimum. -/
theorem checkExclPrimal_sound (ens : Ensemble d) (M LM : List (EMat d d)) (hi : Rat)
    (h : checkExclPrimal ens M LM = some hi) :
    ens.probs.length = ens.size ∧ M.length = ens.size ∧
      IsPOVM (mats ens.size M) ∧
      exclusionValue (ensStates ens) (ensProbs ens) (mats ens.size M) = (hi : ℝ) := by
  unfold checkExclPrimal at h
  split at h
  · next hl =>
    obtain ⟨h1, h2, -⟩ := (lens3Ok_iff _ _ _ _).mp hl
    obtain ⟨hp, hs, hv⟩ := checkExclPrimalFn_sound _ _ _ _ _ _ h
    exact ⟨h1, h2, ⟨hp, hs⟩, hv⟩
  · exact absurd h (by simp)

/-- If the dual checker accepts with value `lo`, the candidate `Y` is Hermitian, dual feasible with
`Re tr Y = lo`, and every measurement on the ensemble has exclusion value at least `lo`. -/
theorem checkExclDual_sound (ens : Ensemble d) (Y : EMat d d) (LY : List (EMat d d)) (lo : Rat)
    (h : checkExclDual ens Y LY = some lo) :
    (Y.toM.IsHermitian ∧ ExclDualFeasible (ensStates ens) (ensProbs ens) Y.toM ∧
        Y.toM.trace.re = (lo : ℝ)) ∧
      ∀ M' : Fin ens.size → Matrix (Fin d) (Fin d) ℂ, IsPOVM M' →
        (lo : ℝ) ≤ exclusionValue (ensStates ens) (ensProbs ens) M' := by
  unfold checkExclDual at h
  split at h
  · next hl =>
    obtain ⟨hH, hf, hv⟩ := checkExclDualFn_sound _ _ _ _ _ _ h
    refine ⟨⟨hH, hf, hv⟩, ?_⟩
    intro M' hM'
    rw [← hv]
    exact excl_weak_duality (ensStates ens) (ensProbs ens) M' Y.toM hM' hf
  · exact absurd h (by simp)

/-- Accepted dual and primal certificates bracket the optimum: `lo ≤ hi`. -/
theorem excl_lo_le_hi (ens : Ensemble d) (M LM : List (EMat d d)) (Y : EMat d d)
    (LY : List (EMat d d)) (lo hi : Rat)
    (hhi : checkExclPrimal ens M LM = some hi) (hlo : checkExclDual ens Y LY = some lo) :
    (lo : ℝ) ≤ (hi : ℝ) := by
  obtain ⟨-, -, hM, hv⟩ := checkExclPrimal_sound ens M LM hi hhi
  rw [← hv]
  exact (checkExclDual_sound ens Y LY lo hlo).2 _ hM

/-! ## Elementary bounds -/

/-- The exclusion value of every measurement is non-negative (states PSD, priors `≥ 0`); hence so is the
minimum, and `0` is always a valid lower bound `lo`. -/
theorem excl_nonneg (ρ : Fin k → Matrix (Fin d) (Fin d) ℂ) (p : Fin k → ℝ)
    (M : Fin k → Matrix (Fin d) (Fin d) ℂ) (hρ : ∀ i, (ρ i).PosSemidef) (hp : ∀ i, 0 ≤ p i)
    (hM : IsPOVM M) : 0 ≤ exclusionValue ρ p M :=
  excl_nonneg_gen ρ p M hρ hp hM.1

/-- For a unit-trace state `ρ_j` the measurement "always answer `j`" (`M_j = 1`, the others `0`) is a POVM
with exclusion value exactly `p_j`; hence the minimum is at most the smallest prior. -/
theorem excl_le_min_prior (ρ : Fin k → Matrix (Fin d) (Fin d) ℂ) (p : Fin k → ℝ) (j : Fin k)
    (hj : (ρ j).trace = 1) :
    ∃ M : Fin k → Matrix (Fin d) (Fin d) ℂ, IsPOVM M ∧ exclusionValue ρ p M = p j := by
  refine ⟨constPovm j, ⟨constPovm_psd j, constPovm_sum j⟩, ?_⟩
  unfold exclusionValue
  rw [constPovm_value, hj]
  simp

/-- Scaling all priors by `c` scales the value of every measurement by `c`: the all-ones weights used by
`is_antidistinguishable` and `common_quantum_overlap` give `n` times the value for uniform priors `1/n`. -/
theorem excl_scale (ρ : Fin k → Matrix (Fin d) (Fin d) ℂ) (p : Fin k → ℝ) (c : ℝ)
    (M : Fin k → Matrix (Fin d) (Fin d) ℂ) :
    exclusionValue ρ (fun i => c * p i) M = c * exclusionValue ρ p M := by
  unfold exclusionValue
  rw [Finset.mul_sum]
  exact Finset.sum_congr rfl fun i _ => mul_assoc _ _ _

/-! ## Invariance under a common unitary -/

/-- Conjugating the states and the measurement by the same unitary `U` maps POVMs to POVMs and preserves
the exclusion value. -/
theorem excl_unitary_invariant (U : Matrix (Fin d) (Fin d) ℂ) (hU : U ∈ Matrix.unitaryGroup (Fin d) ℂ)
    (ρ : Fin k → Matrix (Fin d) (Fin d) ℂ) (p : Fin k → ℝ) (M : Fin k → Matrix (Fin d) (Fin d) ℂ)
    (hM : IsPOVM M) :
    IsPOVM (rot U M) ∧ exclusionValue (rot U ρ) p (rot U M) = exclusionValue ρ p M := by
  have h1 : Uᴴ * U = 1 := by
    simpa [Matrix.star_eq_conjTranspose] using Matrix.mem_unitaryGroup_iff'.mp hU
  have h2 : U * Uᴴ = 1 := by
    simpa [Matrix.star_eq_conjTranspose] using Matrix.mem_unitaryGroup_iff.mp hU
  refine ⟨⟨fun i => conj_psd U (M i) (hM.1 i), ?_⟩, ?_⟩
  · unfold rot
    rw [conj_sum, hM.2, Matrix.mul_one, h2]
  · unfold exclusionValue rot
    exact Finset.sum_congr rfl fun i _ => by rw [conj_trace_mul U (ρ i) (M i) h1]

/-- The set of exclusion values attained by POVMs is the same for the rotated ensemble `U ρ_i Uᴴ` and for
the original one (`M ↦ U M Uᴴ` is a bijection of the feasible set); in particular the minima agree. -/
theorem excl_values_unitary_invariant (U : Matrix (Fin d) (Fin d) ℂ)
    (hU : U ∈ Matrix.unitaryGroup (Fin d) ℂ) (ρ : Fin k → Matrix (Fin d) (Fin d) ℂ) (p : Fin k → ℝ) :
    {v : ℝ | ∃ M : Fin k → Matrix (Fin d) (Fin d) ℂ, IsPOVM M ∧ exclusionValue (rot U ρ) p M = v}
      = {v : ℝ | ∃ M : Fin k → Matrix (Fin d) (Fin d) ℂ, IsPOVM M ∧ exclusionValue ρ p M = v} := by
  have h1 : Uᴴ * U = 1 := by
    simpa [Matrix.star_eq_conjTranspose] using Matrix.mem_unitaryGroup_iff'.mp hU
  have hU' : Uᴴ ∈ Matrix.unitaryGroup (Fin d) ℂ := by
    have := Unitary.star_mem hU
    simpa [Matrix.star_eq_conjTranspose] using this
  have hback : rot Uᴴ (rot U ρ) = ρ := by
    funext i
    exact conj_conj U (ρ i) h1
  ext v
  constructor
  · rintro ⟨M, hM, hv⟩
    obtain ⟨hM', hv'⟩ := excl_unitary_invariant Uᴴ hU' (rot U ρ) p M hM
    rw [hback] at hv'
    exact ⟨rot Uᴴ M, hM', hv'.trans hv⟩
  · rintro ⟨M, hM, hv⟩
    obtain ⟨hM', hv'⟩ := excl_unitary_invariant U hU ρ p M hM
    exact ⟨rot U M, hM', hv'.trans hv⟩

/-! ## Antidistinguishability -/

/-- For PSD states, non-negative priors and a POVM `M`: the exclusion value is `0` iff `tr(ρ_i M_i) = 0`
for every `i` with positive prior. -/
theorem excl_eq_zero_iff (ρ : Fin k → Matrix (Fin d) (Fin d) ℂ) (p : Fin k → ℝ)
    (M : Fin k → Matrix (Fin d) (Fin d) ℂ) (hρ : ∀ i, (ρ i).PosSemidef) (hp : ∀ i, 0 ≤ p i)
    (hM : IsPOVM M) :
    exclusionValue ρ p M = 0 ↔ ∀ i, 0 < p i → (ρ i * M i).trace = 0 :=
  excl_eq_zero_iff_gen ρ p M hρ hp hM.1

/-- For PSD states and positive weights (in particular the all-ones weights of `is_antidistinguishable`):
the states are antidistinguishable iff some POVM attains exclusion value `0`. -/
theorem antidist_iff_zero (ρ : Fin k → Matrix (Fin d) (Fin d) ℂ) (p : Fin k → ℝ)
    (hρ : ∀ i, (ρ i).PosSemidef) (hp : ∀ i, 0 < p i) :
    IsAntidistinguishable ρ ↔
      ∃ M : Fin k → Matrix (Fin d) (Fin d) ℂ, IsPOVM M ∧ exclusionValue ρ p M = 0 := by
  constructor
  · rintro ⟨M, hM, h0⟩
    exact ⟨M, hM, (excl_eq_zero_iff ρ p M hρ (fun i => (hp i).le) hM).mpr fun i _ => h0 i⟩
  · rintro ⟨M, hM, h0⟩
    exact ⟨M, hM, fun i => (excl_eq_zero_iff ρ p M hρ (fun i => (hp i).le) hM).mp h0 i (hp i)⟩

/-- A positive certified lower bound refutes antidistinguishability: if the dual checker accepts with
`lo > 0` for PSD states and positive weights, the states are not antidistinguishable. -/
theorem not_antidist_of_dual_pos (ens : Ensemble d) (Y : EMat d d) (LY : List (EMat d d)) (lo : Rat)
    (h : checkExclDual ens Y LY = some lo) (hlo : 0 < lo)
    (hρ : ∀ i, (ensStates ens i).PosSemidef) (hp : ∀ i, 0 < ensProbs ens i) :
    ¬ IsAntidistinguishable (ensStates ens) := by
  intro ha
  obtain ⟨M, hM, h0⟩ := (antidist_iff_zero (ensStates ens) (ensProbs ens) hρ hp).mp ha
  have := (checkExclDual_sound ens Y LY lo h).2 M hM
  rw [h0] at this
  have h1 : (0 : ℝ) < (lo : ℝ) := by exact_mod_cast hlo
  linarith

/-! ## Unambiguous exclusion -/

/-- Weak duality for toqito's unambiguous-exclusion pair (`σ_i = p_i ρ_i`, `S = Σ_i σ_i`): for
primal-feasible `M` and dual-feasible `(N, a)`, `Re tr S − Re tr N ≤ Re tr(S (1 − Σ_i M_i))`.  The code's dual
objective `1 − tr N` is this bound when `tr S = 1` (normalised states, priors summing to one). -/
theorem unamb_excl_weak_duality (σ : Fin k → Matrix (Fin d) (Fin d) ℂ)
    (M : Fin k → Matrix (Fin d) (Fin d) ℂ) (N : Matrix (Fin d) (Fin d) ℂ) (a : Fin k → ℝ)
    (hM : UnambExclFeasible σ M) (hN : UnambExclDualFeasible σ N a) :
    (∑ j, σ j).trace.re - N.trace.re ≤ ((∑ j, σ j) * (1 - ∑ i, M i)).trace.re :=
  unamb_excl_weak_duality_gen σ M N a hM.1 hM.2.1 hM.2.2 hN.1 hN.2

/-- Unambiguous exclusion with `tr(Σ_i p_i ρ_i) = 1`: the dual objective `1 − Re tr N` of the code is at most
the primal objective (probability of the inconclusive outcome). -/
theorem unamb_excl_weak_duality_normalised (σ : Fin k → Matrix (Fin d) (Fin d) ℂ)
    (M : Fin k → Matrix (Fin d) (Fin d) ℂ) (N : Matrix (Fin d) (Fin d) ℂ) (a : Fin k → ℝ)
    (hM : UnambExclFeasible σ M) (hN : UnambExclDualFeasible σ N a) (hS : (∑ j, σ j).trace = 1) :
    1 - N.trace.re ≤ ((∑ j, σ j) * (1 - ∑ i, M i)).trace.re := by
  have := unamb_excl_weak_duality σ M N a hM hN
  rw [hS] at this
  simpa using this

/-! ## The set of attained values; the minimum exists -/

/-- the exclusion values attained by measurements on the ensemble `(ρ, p)`; the minimum-error exclusion
value is the least element of this set -/
def exclValues (ρ : Fin k → Matrix (Fin d) (Fin d) ℂ) (p : Fin k → ℝ) : Set ℝ :=
  {v | ∃ M : Fin k → Matrix (Fin d) (Fin d) ℂ, IsPOVM M ∧ exclusionValue ρ p M = v}

/-- **The minimum is attained.**  For every ensemble of `k ≥ 1` operators (no assumption on `ρ`, `p`) some
measurement has an exclusion value below that of every other measurement: the set of POVMs is compact and the
value is continuous.  So "the minimum of `Σ_i p_i Tr(ρ_i M_i)` over POVMs" exists and is a value of a POVM. -/
theorem excl_min_attained (ρ : Fin k → Matrix (Fin d) (Fin d) ℂ) (p : Fin k → ℝ) (hk : 0 < k) :
    ∃ M : Fin k → Matrix (Fin d) (Fin d) ℂ, IsPOVM M ∧
      ∀ M' : Fin k → Matrix (Fin d) (Fin d) ℂ, IsPOVM M' → exclusionValue ρ p M ≤ exclusionValue ρ p M' := by
  have : Nonempty (Fin k) := ⟨⟨0, hk⟩⟩
  obtain ⟨M, hM, hmin⟩ := excl_min_attained_gen ρ p
  exact ⟨M, hM, fun M' hM' => hmin M' hM'.1 hM'.2⟩

/-- The set of attained exclusion values has a least element (for `k ≥ 1`). -/
theorem excl_values_has_least (ρ : Fin k → Matrix (Fin d) (Fin d) ℂ) (p : Fin k → ℝ) (hk : 0 < k) :
    ∃ v, IsLeast (exclValues ρ p) v := by
  obtain ⟨M, hM, hmin⟩ := excl_min_attained ρ p hk
  refine ⟨exclusionValue ρ p M, ⟨M, hM, rfl⟩, ?_⟩
  rintro v ⟨M', hM', rfl⟩
  exact hmin M' hM'

/-- **Zero exactly for antidistinguishable sets.**  For PSD states and positive weights, if `v` is the minimum
of the attained exclusion values then the states are antidistinguishable iff `v = 0`. -/
theorem antidist_iff_min_eq_zero (ρ : Fin k → Matrix (Fin d) (Fin d) ℂ) (p : Fin k → ℝ)
    (hρ : ∀ i, (ρ i).PosSemidef) (hp : ∀ i, 0 < p i) (v : ℝ) (hv : IsLeast (exclValues ρ p) v) :
    IsAntidistinguishable ρ ↔ v = 0 := by
  rw [antidist_iff_zero ρ p hρ hp]
  constructor
  · rintro ⟨M, hM, h0⟩
    obtain ⟨M', hM', hv'⟩ := hv.1
    have h1 : v ≤ 0 := hv.2 ⟨M, hM, h0⟩
    have h2 : 0 ≤ v := by rw [← hv']; exact excl_nonneg ρ p M' hρ (fun i => (hp i).le) hM'
    linarith
  · rintro rfl
    exact hv.1

/-- **Positive otherwise.**  For `k ≥ 1` PSD states with positive weights that are *not* antidistinguishable
there is a constant `c > 0` below the exclusion value of every measurement: the minimum is strictly positive. -/
theorem excl_pos_of_not_antidist (ρ : Fin k → Matrix (Fin d) (Fin d) ℂ) (p : Fin k → ℝ) (hk : 0 < k)
    (hρ : ∀ i, (ρ i).PosSemidef) (hp : ∀ i, 0 < p i) (hna : ¬ IsAntidistinguishable ρ) :
    ∃ c : ℝ, 0 < c ∧ ∀ M : Fin k → Matrix (Fin d) (Fin d) ℂ, IsPOVM M → c ≤ exclusionValue ρ p M := by
  obtain ⟨M, hM, hmin⟩ := excl_min_attained ρ p hk
  refine ⟨exclusionValue ρ p M, ?_, hmin⟩
  rcases (excl_nonneg ρ p M hρ (fun i => (hp i).le) hM).lt_or_eq with h | h
  · exact h
  · exact absurd ((antidist_iff_zero ρ p hρ hp).mpr ⟨M, hM, h.symm⟩) hna

/-! ## Relabelling, adding a state, dependence on the prior -/

/-- Relabelling states, priors and measurement operators by the same permutation `σ` maps POVMs to POVMs and
preserves the exclusion value. -/
theorem excl_relabel_invariant (σ : Equiv.Perm (Fin k)) (ρ : Fin k → Matrix (Fin d) (Fin d) ℂ)
    (p : Fin k → ℝ) (M : Fin k → Matrix (Fin d) (Fin d) ℂ) (hM : IsPOVM M) :
    IsPOVM (M ∘ σ) ∧ exclusionValue (ρ ∘ σ) (p ∘ σ) (M ∘ σ) = exclusionValue ρ p M := by
  refine ⟨⟨fun i => hM.1 (σ i), ?_⟩, ?_⟩
  · rw [← hM.2]
    exact Equiv.sum_comp σ M
  · unfold exclusionValue
    exact Equiv.sum_comp σ fun i => p i * (ρ i * M i).trace.re

/-- **Relabelling invariance of the value.**  The relabelled ensemble `(ρ ∘ σ, p ∘ σ)` attains the same set of
exclusion values as `(ρ, p)`; in particular the minima agree. -/
theorem excl_values_relabel_invariant (σ : Equiv.Perm (Fin k))
    (ρ : Fin k → Matrix (Fin d) (Fin d) ℂ) (p : Fin k → ℝ) :
    exclValues (ρ ∘ σ) (p ∘ σ) = exclValues ρ p := by
  ext v
  constructor
  · rintro ⟨M, hM, hv⟩
    obtain ⟨hM', hv'⟩ := excl_relabel_invariant σ⁻¹ (ρ ∘ σ) (p ∘ σ) M hM
    have e1 : (ρ ∘ σ) ∘ ⇑σ⁻¹ = ρ := by funext i; simp
    have e2 : (p ∘ σ) ∘ ⇑σ⁻¹ = p := by funext i; simp
    rw [e1, e2] at hv'
    exact ⟨M ∘ ⇑σ⁻¹, hM', hv'.trans hv⟩
  · rintro ⟨M, hM, hv⟩
    obtain ⟨hM', hv'⟩ := excl_relabel_invariant σ ρ p M hM
    exact ⟨M ∘ σ, hM', hv'.trans hv⟩

/-- **Adding a state cannot increase the value.**  Every value attained on the first `k` states of an ensemble of
`k + 1` states is attained on the whole ensemble (never announce the additional state: `M_{k} = 0`); hence the
minimum over the larger ensemble is at most the minimum over the smaller one. -/
theorem excl_add_state (ρ : Fin (k + 1) → Matrix (Fin d) (Fin d) ℂ) (p : Fin (k + 1) → ℝ) :
    exclValues (fun i : Fin k => ρ i.castSucc) (fun i : Fin k => p i.castSucc) ⊆ exclValues ρ p := by
  rintro v ⟨M, hM, rfl⟩
  refine ⟨Fin.snoc (α := fun _ => Matrix (Fin d) (Fin d) ℂ) M 0,
    ⟨snoc_povm_psd M hM.1, by rw [snoc_povm_sum, hM.2]⟩, ?_⟩
  exact snoc_povm_value ρ p M

/-- The exclusion value of a fixed measurement is affine in the prior. -/
theorem excl_prior_affine (ρ : Fin k → Matrix (Fin d) (Fin d) ℂ) (p q : Fin k → ℝ) (t : ℝ)
    (M : Fin k → Matrix (Fin d) (Fin d) ℂ) :
    exclusionValue ρ (fun i => t * p i + (1 - t) * q i) M
      = t * exclusionValue ρ p M + (1 - t) * exclusionValue ρ q M := by
  unfold exclusionValue
  rw [Finset.mul_sum, Finset.mul_sum, ← Finset.sum_add_distrib]
  exact Finset.sum_congr rfl fun i _ => by ring

/-- **Concavity in the prior.**  If `a` is a lower bound of the values for the prior `p` and `b` one for the
prior `q`, then `t a + (1 − t) b` is a lower bound for the mixed prior `t p + (1 − t) q` (`0 ≤ t ≤ 1`): the
minimum is a concave function of the prior. -/
theorem excl_prior_concave (ρ : Fin k → Matrix (Fin d) (Fin d) ℂ) (p q : Fin k → ℝ) (t a b : ℝ)
    (ht0 : 0 ≤ t) (ht1 : t ≤ 1)
    (ha : ∀ M : Fin k → Matrix (Fin d) (Fin d) ℂ, IsPOVM M → a ≤ exclusionValue ρ p M)
    (hb : ∀ M : Fin k → Matrix (Fin d) (Fin d) ℂ, IsPOVM M → b ≤ exclusionValue ρ q M)
    (M : Fin k → Matrix (Fin d) (Fin d) ℂ) (hM : IsPOVM M) :
    t * a + (1 - t) * b ≤ exclusionValue ρ (fun i => t * p i + (1 - t) * q i) M := by
  rw [excl_prior_affine]
  exact add_le_add (mul_le_mul_of_nonneg_left (ha M hM) ht0)
    (mul_le_mul_of_nonneg_left (hb M hM) (sub_nonneg.mpr ht1))

/-! ## Families with an explicit optimal measurement or dual point (all sizes, all parameters) -/

/-- **An orthogonal pair makes the whole set antidistinguishable.**  If two of the (Hermitian) states are
orthogonal, `ρ_a ρ_b = 0` with `a ≠ b`, then answering `a` on the support of `ρ_b` and `b` off it never names the
prepared state – whatever the other states are (BB84 subsets containing `{|0⟩,|1⟩}` or `{|+⟩,|−⟩}`, Bell states,
any set of mutually orthogonal states). -/
theorem antidist_of_orthogonal_pair (ρ : Fin k → Matrix (Fin d) (Fin d) ℂ) (a b : Fin k) (hab : a ≠ b)
    (hb : (ρ b).IsHermitian) (hO : ρ a * ρ b = 0) : IsAntidistinguishable ρ :=
  ⟨pairPovm ρ a b, ⟨pairPovm_psd ρ a b hb, pairPovm_sum ρ a b⟩, fun i => by
    rw [pairPovm_mul ρ a b hab hb hO i, Matrix.trace_zero]⟩

/-- Consequently the minimum-error exclusion value of an ensemble containing an orthogonal pair is exactly `0`
for every prior `p ≥ 0` (PSD states): `0` is attained and nothing is below it. -/
theorem excl_orthogonal_pair_isLeast (ρ : Fin k → Matrix (Fin d) (Fin d) ℂ) (p : Fin k → ℝ) (a b : Fin k)
    (hab : a ≠ b) (hρ : ∀ i, (ρ i).PosSemidef) (hp : ∀ i, 0 ≤ p i) (hO : ρ a * ρ b = 0) :
    IsLeast (exclValues ρ p) 0 := by
  obtain ⟨M, hM, h0⟩ := antidist_of_orthogonal_pair ρ a b hab (hρ b).isHermitian hO
  refine ⟨⟨M, hM, ?_⟩, ?_⟩
  · exact (excl_eq_zero_iff ρ p M hρ hp hM).mpr fun i _ => h0 i
  · rintro v ⟨M', hM', rfl⟩
    exact excl_nonneg ρ p M' hρ hp hM'

/-- **Two states are antidistinguishable iff they are orthogonal.**  For PSD `ρ_0`, `ρ_1`: some two-outcome
measurement never names the prepared state iff `ρ_0 ρ_1 = 0`.  (If `tr(ρ_0 M_0) = tr(ρ_1 M_1) = 0` then
`ρ_0 M_0 = ρ_1 M_1 = 0`, so `ρ_1 = ρ_1 M_0` and `ρ_1 ρ_0 = ρ_1 M_0 ρ_0 = 0`.) -/
theorem antidist_two_iff_orthogonal (ρ : Fin 2 → Matrix (Fin d) (Fin d) ℂ) (hρ : ∀ i, (ρ i).PosSemidef) :
    IsAntidistinguishable ρ ↔ ρ 0 * ρ 1 = 0 := by
  rw [← two_perfect_iff (ρ 0) (ρ 1) (hρ 0) (hρ 1)]
  constructor
  · rintro ⟨M, hM, h0⟩
    exact ⟨M 0, M 1, hM.1 0, hM.1 1, by rw [← hM.2, Fin.sum_univ_two], h0 0, h0 1⟩
  · rintro ⟨M0, M1, h0, h1, hs, t0, t1⟩
    refine ⟨![M0, M1], ⟨fun i => ?_, by rw [Fin.sum_univ_two]; exact hs⟩, fun i => ?_⟩
    · fin_cases i
      · exact h0
      · exact h1
    · fin_cases i
      · exact t0
      · exact t1

/-- Two pure states `v vᴴ`, `w wᴴ` are antidistinguishable iff `⟨v, w⟩ = 0` (so the BB84 pairs `{|0⟩,|1⟩}`,
`{|+⟩,|−⟩}` are, the pairs `{|0⟩,|+⟩}` etc. are not, and `pusey_barrett_rudolph(1, θ)` is iff
`cos²(θ/2) = sin²(θ/2)`). -/
theorem antidist_two_pure_iff (v w : Fin d → ℂ) :
    IsAntidistinguishable ![pure v, pure w] ↔ star v ⬝ᵥ w = 0 := by
  rw [antidist_two_iff_orthogonal _ (fun i => by fin_cases i <;> exact pure_psd _)]
  show pure v * pure w = 0 ↔ _
  constructor
  · intro h
    have h1 := pure_trace_mul v w
    rw [h, Matrix.trace_zero] at h1
    have h2 : star w ⬝ᵥ v = (starRingEnd ℂ) (star v ⬝ᵥ w) := Matrix.star_dotProduct w v
    rw [h2, Complex.mul_conj] at h1
    have : Complex.normSq (star v ⬝ᵥ w) = 0 := by exact_mod_cast h1.symm
    exact Complex.normSq_eq_zero.mp this
  · exact pure_mul_eq_zero v w

/-- **Projectors that sum to a multiple of the identity.**  If every state is a projector (`ρ_i² = ρ_i`,
Hermitian; e.g. a normalised pure state) and `Σ_i ρ_i = λ·1` with `λ < k`, then `M_i = (1 − ρ_i)/(k − λ)` is a
POVM with `ρ_i M_i = 0`: the set is antidistinguishable.  Covers the trine (`λ = 3/2`), the four BB84 states
(`λ = 2`), the four Bell states and every orthonormal basis with `k ≥ 2` (`λ = 1`), mutually unbiased bases, … -/
theorem antidist_of_projector_frame (ρ : Fin k → Matrix (Fin d) (Fin d) ℂ) (lam : ℝ) (hlam : lam < k)
    (hH : ∀ i, (ρ i).IsHermitian) (hI : ∀ i, ρ i * ρ i = ρ i)
    (hS : ∑ i, ρ i = (lam : ℂ) • (1 : Matrix (Fin d) (Fin d) ℂ)) : IsAntidistinguishable ρ := by
  have hl : lam < Fintype.card (Fin k) := by simpa using hlam
  exact ⟨framePovm ρ lam, ⟨framePovm_psd ρ lam hl hH hI, framePovm_sum ρ lam hl hS⟩, fun i => by
    rw [framePovm_mul ρ lam hI i, Matrix.trace_zero]⟩

/-- **The trine states are antidistinguishable.**  The three vectors built by the model `trineStates` of
toqito's `trine()` (`e_0`, `−½(e_0 + r e_1)`, `−½(e_0 − r e_1)`) with any real `r`, `r² = 3` (the code uses
`np.sqrt(3)`), as projectors `v vᴴ`, are unit vectors whose projectors sum to `(3/2)·1`. -/
theorem trine_antidistinguishable (r : ℝ) (hr : r * r = 3) :
    IsAntidistinguishable fun b : Fin 3 => pure (trineVec (1 / 2) r b) := by
  have e : trineVec (1 / 2) r = trineV (1 / 2) r := by
    rw [trineVec_eq]; unfold trineV; push_cast; rfl
  rw [e]
  refine antidist_of_projector_frame _ (3 / 2) (by norm_num) (fun i => pure_isHermitian _)
    (fun i => pure_idem _ (trine_unit r hr i)) (trine_frame r hr)

/-- **Pusey–Barrett–Rudolph states, `n = 2`.**  The four product states built by the model `pbrStates 2 c s` of
toqito's `pusey_barrett_rudolph(2, θ)` (`c = cos(θ/2)`, `s = sin(θ/2)`; any real `c`, `s`) are antidistinguishable
whenever a phase `w` (`|w| = 1`) satisfies `c² − s² + 2cs·Re w = 0`: the orthonormal basis
`ξ_b = D_b·½(1, w, w̄, −1)` (`D_b` the sign pattern of `ψ_b`) has `⟨ξ_b, ψ_b⟩ = 0`.  For `w = −1` this is the
critical angle `c² − 2cs − s² = 0`, i.e. `tan(θ/2) = √2 − 1`, with the original (real) PBR measurement. -/
theorem pbr2_antidistinguishable (c s : ℝ) (w : ℂ) (hw : w * (starRingEnd ℂ) w = 1)
    (h : c * c - s * s + 2 * (c * s) * w.re = 0) :
    IsAntidistinguishable fun b : Fin (2 ^ 2) => pure (pbrVec 2 c s b) := by
  have e : pbrVec 2 c s = pbrV c s := by rw [pbrVec_two]; rfl
  rw [e]
  refine ⟨fun b => pure (pbrXi w b), ⟨fun b => pure_psd _, pbrXi_sum w hw⟩, fun b => ?_⟩
  rw [pure_trace_mul]
  have h0 := pbrXi_orth c s w h b
  have : star (pbrV c s b) ⬝ᵥ pbrXi w b = (starRingEnd ℂ) (star (pbrXi w b) ⬝ᵥ pbrV c s b) :=
    Matrix.star_dotProduct _ _
  rw [this, h0]; simp

/-- **PBR states, `n = 2`, the whole antidistinguishable range.**  For every angle `π/4 ≤ θ ≤ 3π/4` – that is
`tan(θ/2) ≥ √2 − 1 = 2^{1/2} − 1`, the threshold quoted for `n = 2` – the four states of
`pusey_barrett_rudolph(2, θ)` are antidistinguishable. -/
theorem pbr2_antidistinguishable_angle (θ : ℝ) (h1 : Real.pi / 4 ≤ θ) (h2 : θ ≤ 3 * Real.pi / 4) :
    IsAntidistinguishable fun b : Fin (2 ^ 2) =>
      pure (pbrVec 2 (Real.cos (θ / 2)) (Real.sin (θ / 2)) b) := by
  have hsin : 0 < Real.sin θ := Real.sin_pos_of_pos_of_lt_pi (by linarith [Real.pi_pos]) (by linarith [Real.pi_pos])
  have hcs : Real.cos (θ / 2) * Real.sin (θ / 2) ≠ 0 := by
    have := two_cos_half_sin_half θ
    intro h0; rw [h0] at this; linarith
  have habs : |Real.cos (θ / 2) * Real.cos (θ / 2) - Real.sin (θ / 2) * Real.sin (θ / 2)|
      ≤ 2 * |Real.cos (θ / 2) * Real.sin (θ / 2)| := by
    have e2 : 2 * |Real.cos (θ / 2) * Real.sin (θ / 2)| = |2 * (Real.cos (θ / 2) * Real.sin (θ / 2))| := by
      rw [abs_mul 2, abs_two]
    rw [cos_half_sq_sub, e2, two_cos_half_sin_half, abs_of_pos hsin]
    exact abs_cos_le_sin θ h1 h2
  obtain ⟨w, hw, h⟩ := pbr_phase_exists _ _ hcs habs
  exact pbr2_antidistinguishable _ _ w hw h

/-- **PBR states, `n = 1`.**  The two states `(c, s)`, `(c, −s)` of `pusey_barrett_rudolph(1, θ)` are
antidistinguishable iff `c² = s²` (for `θ ∈ [0, π/2]`: iff `θ = π/2`, i.e. `tan(θ/2) ≥ 2^{1/1} − 1 = 1`). -/
theorem pbr1_antidist_iff (c s : ℝ) :
    IsAntidistinguishable (fun b : Fin (2 ^ 1) => pure (pbrVec 1 c s b)) ↔ c * c = s * s := by
  have e : (fun b : Fin (2 ^ 1) => pure (pbrVec 1 c s b))
      = ![pure ![(c : ℂ), s], pure ![(c : ℂ), -s]] := by
    funext b
    fin_cases b
    · show pure (pbrVec 1 c s 0) = pure ![(c : ℂ), s]
      congr 1; funext i; fin_cases i <;>
        simp [pbrVec, listVec, pbrStates, binaryStrings, tensorVecs, pbrPsi]
    · show pure (pbrVec 1 c s 1) = pure ![(c : ℂ), -s]
      congr 1; funext i; fin_cases i <;>
        simp [pbrVec, listVec, pbrStates, binaryStrings, tensorVecs, pbrPsi]
  rw [e]
  refine (antidist_two_pure_iff ![(c : ℂ), s] ![(c : ℂ), -s]).trans ?_
  simp only [dotProduct, Fin.sum_univ_two, Pi.star_apply, Matrix.cons_val_zero, Matrix.cons_val_one]
  simp only [RCLike.star_def, Complex.conj_ofReal]
  constructor
  · intro h
    have : ((c * c - s * s : ℝ) : ℂ) = 0 := by push_cast; linear_combination h
    have := Complex.ofReal_eq_zero.mp this
    linarith
  · intro h
    have : ((c * c - s * s : ℝ) : ℂ) = 0 := by rw [h]; simp
    push_cast at this; linear_combination this

/-- **Identical states: the value is the smallest prior.**  If all states equal the PSD operator `ρ_j` and `p_j`
is the smallest weight, then `Y = p_j ρ_j` is dual feasible and "always answer `j`" attains `Re tr Y`: the
minimum-error exclusion value is exactly `p_j · tr ρ_j` (primal and dual optimum coincide). -/
theorem excl_identical_isLeast (ρ : Fin k → Matrix (Fin d) (Fin d) ℂ) (p : Fin k → ℝ) (j : Fin k)
    (hρ : (ρ j).PosSemidef) (hid : ∀ i, ρ i = ρ j) (hmin : ∀ i, p j ≤ p i) :
    ExclDualFeasible ρ p ((p j : ℂ) • ρ j) ∧ IsLeast (exclValues ρ p) (p j * (ρ j).trace.re) := by
  have hY : ExclDualFeasible ρ p ((p j : ℂ) • ρ j) := identical_dual_feasible ρ p j hρ hid hmin
  refine ⟨hY, ⟨constPovm j, ⟨constPovm_psd j, constPovm_sum j⟩, ?_⟩, ?_⟩
  · unfold exclusionValue
    exact constPovm_value ρ p j
  · rintro v ⟨M, hM, rfl⟩
    have := excl_weak_duality ρ p M _ hM hY
    rwa [Matrix.trace_smul, smul_eq_mul, Complex.re_ofReal_mul] at this

/-- **Two states: closed form (one minus Helstrom).**  For two Hermitian states the greatest lower bound of the
attained exclusion values is `½(p₀ tr ρ₀ + p₁ tr ρ₁) − ½‖p₀ρ₀ − p₁ρ₁‖₁` (trace norm in the max form of C13,
`Toq.Metrics.traceNormV`): every two-outcome POVM is `((1+W)/2, (1−W)/2)` with a contraction `W`, and its value is
`½(p₀ tr ρ₀ + p₁ tr ρ₁) + ½ Re tr(W (p₀ρ₀ − p₁ρ₁))`.  Together with `Toq.C10.helstrom_isLUB`: optimal exclusion
error + optimal discrimination success `= p₀ tr ρ₀ + p₁ tr ρ₁` (`= 1` for normalised ensembles). -/
theorem excl_two_isGLB (ρ : Fin 2 → Matrix (Fin d) (Fin d) ℂ) (p : Fin 2 → ℝ)
    (hρ : ∀ i, (ρ i).IsHermitian) :
    IsGLB (exclValues ρ p)
      ((p 0 * (ρ 0).trace.re + p 1 * (ρ 1).trace.re) / 2
        - Toq.Metrics.traceNormV ((p 0 : ℂ) • ρ 0 - (p 1 : ℂ) • ρ 1) / 2) := by
  constructor
  · rintro v ⟨M, hM, rfl⟩
    have hs : M 0 + M 1 = 1 := by rw [← hM.2, Fin.sum_univ_two]
    unfold exclusionValue
    rw [Fin.sum_univ_two]
    exact two_value_ge (ρ 0) (ρ 1) (M 0) (M 1) (p 0) (p 1) (hρ 0) (hρ 1) (hM.1 0) (hM.1 1) hs
  · intro b hb
    have h1 : ∀ x ∈ Toq.Metrics.tnSet ((p 0 : ℂ) • ρ 0 - (p 1 : ℂ) • ρ 1),
        x ≤ 2 * ((p 0 * (ρ 0).trace.re + p 1 * (ρ 1).trace.re) / 2 - b) := by
      rintro x ⟨W, hW, rfl⟩
      have hmem : (p 0 * (ρ 0).trace.re + p 1 * (ρ 1).trace.re) / 2
          - (W * ((p 0 : ℂ) • ρ 0 - (p 1 : ℂ) • ρ 1)).trace.re / 2 ∈ exclValues ρ p := by
        refine ⟨![(1 / 2 : ℂ) • (1 - W), (1 / 2 : ℂ) • (1 + W)], ⟨fun i => ?_, ?_⟩, ?_⟩
        · fin_cases i
          · exact me_half_psd hW.1
          · exact me_half_psd hW.2
        · rw [Fin.sum_univ_two]
          show (1 / 2 : ℂ) • (1 - W) + (1 / 2 : ℂ) • (1 + W) = 1
          rw [add_comm]; exact me_half_sum W
        · unfold exclusionValue
          rw [Fin.sum_univ_two]
          exact two_value_of_contraction (ρ 0) (ρ 1) W (p 0) (p 1)
      have := hb hmem
      linarith
    have := csSup_le (Toq.Metrics.tnSet_nonempty _) h1
    unfold Toq.Metrics.traceNormV
    linarith

/-- Two unit-trace Hermitian states with `p₀ + p₁ = 1`: the minimum-error exclusion value is
`½ − ½‖p₀ρ₀ − p₁ρ₁‖₁`. -/
theorem excl_two_isGLB_normalised (ρ : Fin 2 → Matrix (Fin d) (Fin d) ℂ) (p : Fin 2 → ℝ)
    (hρ : ∀ i, (ρ i).IsHermitian) (htr : ∀ i, (ρ i).trace = 1) (hp : p 0 + p 1 = 1) :
    IsGLB (exclValues ρ p)
      (1 / 2 - Toq.Metrics.traceNormV ((p 0 : ℂ) • ρ 0 - (p 1 : ℂ) • ρ 1) / 2) := by
  have := excl_two_isGLB ρ p hρ
  rwa [htr, htr, Complex.one_re, mul_one, mul_one, hp] at this

/-! ## Unambiguous exclusion: relation to the conclusive value, certificate checkers -/

/-- **An unambiguous strategy is a conclusive one.**  Re-labelling the inconclusive outcome `1 − Σ_i M_i` of a
feasible point of the unambiguous program as the answer `j` gives a POVM whose error probability is at most the
probability of the inconclusive outcome.  Hence the unambiguous value is never below the minimum-error value
(the harness check `unamb-ge-minerr`). -/
theorem unamb_ge_min_error (ρ : Fin k → Matrix (Fin d) (Fin d) ℂ) (p : Fin k → ℝ)
    (M : Fin k → Matrix (Fin d) (Fin d) ℂ) (j : Fin k) (hρ : ∀ i, (ρ i).PosSemidef) (hp : ∀ i, 0 ≤ p i)
    (hM : UnambExclFeasible (fun i => (p i : ℂ) • ρ i) M) :
    ∃ M' : Fin k → Matrix (Fin d) (Fin d) ℂ, IsPOVM M' ∧
      exclusionValue ρ p M' ≤ ((∑ i, (p i : ℂ) • ρ i) * (1 - ∑ i, M i)).trace.re := by
  refine ⟨absorbPovm M j, ⟨absorbPovm_psd M j hM.1 hM.2.1, absorbPovm_sum M j⟩, ?_⟩
  have := absorbPovm_value_le (fun i => (p i : ℂ) • ρ i) M j (fun i => me_psd_smul (hρ i) (hp i))
    hM.2.1 hM.2.2
  unfold exclusionValue
  simpa only [re_trace_smul_mul] using this

/-- If the unambiguous primal checker accepts with value `hi`, the candidate is a feasible point of toqito's
unambiguous-exclusion primal (one operator per state, `σ_i = p_i ρ_i`) whose objective
`Re tr(S (1 − Σ_i M_i))` is exactly `hi`; hence `hi` is an upper bound of the unambiguous minimum. -/
theorem checkUnambExclPrimal_sound (ens : Ensemble d) (M LM : List (EMat d d)) (LR : EMat d d) (hi : Rat)
    (h : checkUnambExclPrimal ens M LM LR = some hi) :
    ens.probs.length = ens.size ∧ M.length = ens.size ∧
      UnambExclFeasible (fun i => (ensProbs ens i : ℂ) • ensStates ens i) (mats ens.size M) ∧
      ((∑ i, (ensProbs ens i : ℂ) • ensStates ens i) * (1 - ∑ i, mats ens.size M i)).trace.re = (hi : ℝ) := by
  unfold checkUnambExclPrimal at h
  split at h
  · next hl =>
    obtain ⟨h1, h2, -⟩ := (lens3Ok_iff _ _ _ _).mp hl
    obtain ⟨hp, hr, hz, hv⟩ := checkUnambExclPrimalFn_sound _ _ _ _ _ _ _ h
    exact ⟨h1, h2, ⟨hp, hr, hz⟩, hv⟩
  · exact absurd h (by simp)

/-- If the unambiguous dual checker accepts with value `lo`, then `(N, a)` is feasible for toqito's
unambiguous-exclusion dual, `lo = Re tr S − Re tr N`, and every primal-feasible `M'` has objective at least `lo`.
(The code's own objective is `1 − Re tr N`; it equals `lo` exactly when `Re tr S = 1`, see
`unamb_code_objective_eq`.) -/
theorem checkUnambExclDual_sound (ens : Ensemble d) (N : EMat d d) (a : List Rat) (LN : EMat d d)
    (LD : List (EMat d d)) (lo : Rat) (h : checkUnambExclDual ens N a LN LD = some lo) :
    (UnambExclDualFeasible (fun i => (ensProbs ens i : ℂ) • ensStates ens i) N.toM
        (fun i => ((ratAt a i : Rat) : ℝ)) ∧
      (∑ i, (ensProbs ens i : ℂ) • ensStates ens i).trace.re - N.toM.trace.re = (lo : ℝ)) ∧
      ∀ M' : Fin ens.size → Matrix (Fin d) (Fin d) ℂ,
        UnambExclFeasible (fun i => (ensProbs ens i : ℂ) • ensStates ens i) M' →
        (lo : ℝ) ≤ ((∑ i, (ensProbs ens i : ℂ) • ensStates ens i) * (1 - ∑ i, M' i)).trace.re := by
  unfold checkUnambExclDual at h
  split at h
  · next hl =>
    obtain ⟨hN, hD, hv⟩ := checkUnambExclDualFn_sound _ _ _ _ _ _ _ _ h
    have hf : UnambExclDualFeasible (fun i => (ensProbs ens i : ℂ) • ensStates ens i) N.toM
        (fun i => ((ratAt a i : Rat) : ℝ)) := ⟨hN, hD⟩
    refine ⟨⟨hf, hv⟩, fun M' hM' => ?_⟩
    rw [← hv]
    exact unamb_excl_weak_duality _ M' N.toM _ hM' hf
  · exact absurd h (by simp)

/-- Accepted unambiguous dual and primal certificates bracket the unambiguous optimum: `lo ≤ hi`. -/
theorem unamb_excl_lo_le_hi (ens : Ensemble d) (M LM : List (EMat d d)) (LR N : EMat d d) (a : List Rat)
    (LN : EMat d d) (LD : List (EMat d d)) (lo hi : Rat)
    (hhi : checkUnambExclPrimal ens M LM LR = some hi)
    (hlo : checkUnambExclDual ens N a LN LD = some lo) : (lo : ℝ) ≤ (hi : ℝ) := by
  obtain ⟨-, -, hM, hv⟩ := checkUnambExclPrimal_sound ens M LM LR hi hhi
  rw [← hv]
  exact (checkUnambExclDual_sound ens N a LN LD lo hlo).2 _ hM

/-- The objective `1 − Re tr N` that `_unambiguous_dual` hands to the solver equals the certified bound
`Re tr S − Re tr N` plus `1 − Re tr S`; the two agree exactly when `Re tr(Σ_i p_i ρ_i) = 1`. -/
theorem unamb_code_objective_eq (ens : Ensemble d) (N : EMat d d) :
    unambDualCodeObjective N
      = unambDualBound ens.size (fun i => ens.state i) (fun i => ens.prob i) N
        + (1 - (sumStates ens.size (fun i => ens.state i) (fun i => ens.prob i)).trace.re) :=
  unambDualCodeObjective_eq _ _ _ _

/-! ## Argument normalisation -/

/-- The operator `to_density_matrix` builds from a vector is PSD (so `excl_nonneg` applies to ensembles given as
vectors, exactly, whatever rounding the float normalisation of the vector suffered). -/
theorem toDensityVec_psd (v : EMat d 1) : (toDensityVec v).toM.PosSemidef := by
  unfold toDensityVec
  rw [EMat.toM_mul, EMat.toM_ct]
  exact Matrix.posSemidef_self_mul_conjTranspose _

/-- `prepare` keeps the number of states, and the default prior `[1/n]*n` has `n` entries summing to `1`. -/
theorem prepare_default (states : List (StateArg d)) (hn : states.length ≠ 0) :
    (prepare states none).size = states.length ∧
      (prepare states none).probs.length = states.length ∧ (prepare states none).probs.sum = 1 := by
  refine ⟨by simp [prepare, Ensemble.size], by simp [prepare, defaultProbs], ?_⟩
  have : (states.length : Rat) ≠ 0 := by exact_mod_cast hn
  simp [prepare, defaultProbs, List.sum_replicate]
  field_simp

/-! ## What `is_antidistinguishable` and `common_quantum_overlap` do with the value -/

/-- `np.isclose(v, 0)` with NumPy's default tolerances is the test `|v| ≤ 10⁻⁸`. -/
theorem antidist_test_iff (v : Rat) : antidistTest v = true ↔ |v| ≤ 1 / 100000000 :=
  antidistTest_iff v

/-- `common_quantum_overlap` returns `n (1 − (1 − v/n)) = v`: the exclusion value for all-ones weights itself. -/
theorem cqo_post_eq (n : Nat) (hn : n ≠ 0) (v : Rat) : cqoPost n v = v := cqoPost_eq n hn v

/-- **The test decides antidistinguishability up to the solver's accuracy.**  Let `v⋆` be the minimum of the
attained exclusion values for the all-ones weights (it exists: `excl_values_has_least`) and let the solver's value
`v` satisfy `|v − v⋆| ≤ τ`.  Then: (1) if the states are antidistinguishable and `τ ≤ 10⁻⁸` the test answers
`True`; (2) if the test answers `True` then `v⋆ ≤ 10⁻⁸ + τ`; so (3) states with `v⋆ > 10⁻⁸ + τ` are reported as
not antidistinguishable. -/
theorem antidist_test_decides (ρ : Fin k → Matrix (Fin d) (Fin d) ℂ) (hρ : ∀ i, (ρ i).PosSemidef)
    (vstar : ℝ) (hv : IsLeast (exclValues ρ fun _ => 1) vstar) (v : Rat) (τ : ℝ)
    (hclose : |(v : ℝ) - vstar| ≤ τ) :
    (IsAntidistinguishable ρ → τ ≤ 1 / 100000000 → antidistTest v = true) ∧
      (antidistTest v = true → vstar ≤ 1 / 100000000 + τ) ∧
      (1 / 100000000 + τ < vstar → antidistTest v = false ∧ ¬ IsAntidistinguishable ρ) := by
  have hiff := antidist_iff_min_eq_zero ρ (fun _ => 1) hρ (fun _ => one_pos) vstar hv
  have hcast : antidistTest v = true ↔ |(v : ℝ)| ≤ 1 / 100000000 := by
    rw [antidist_test_iff]
    constructor
    · intro h
      have : ((|v| : Rat) : ℝ) ≤ ((1 / 100000000 : Rat) : ℝ) := by exact_mod_cast h
      simpa using this
    · intro h
      have : ((|v| : Rat) : ℝ) ≤ ((1 / 100000000 : Rat) : ℝ) := by simpa using h
      exact_mod_cast this
  have h2 : antidistTest v = true → vstar ≤ 1 / 100000000 + τ := by
    intro ht
    have := hcast.mp ht
    have h3 := abs_le.mp hclose
    have h4 := abs_le.mp this
    linarith
  refine ⟨fun ha hτ => ?_, h2, fun hgt => ⟨?_, ?_⟩⟩
  · have h0 := hiff.mp ha
    rw [h0, sub_zero] at hclose
    exact hcast.mpr (hclose.trans hτ)
  · cases hb : antidistTest v
    · rfl
    · exact absurd (h2 hb) (not_le.mpr hgt)
  · intro ha
    rw [hiff.mp ha] at hgt
    have : 0 ≤ τ := (abs_nonneg _).trans hclose
    linarith

/-! ## Further consequences -/

/-- **Antidistinguishable sets have value exactly `0` for every prior.**  For PSD states and weights `p ≥ 0`:
if the states are antidistinguishable, `0` is the least attained exclusion value (trine, BB84, Bell, PBR in
the range of `pbr2_antidistinguishable_angle`, ensembles with an orthogonal pair, … with any prior). -/
theorem excl_isLeast_zero_of_antidist (ρ : Fin k → Matrix (Fin d) (Fin d) ℂ) (p : Fin k → ℝ)
    (hρ : ∀ i, (ρ i).PosSemidef) (hp : ∀ i, 0 ≤ p i) (ha : IsAntidistinguishable ρ) :
    IsLeast (exclValues ρ p) 0 := by
  obtain ⟨M, hM, h0⟩ := ha
  refine ⟨⟨M, hM, (excl_eq_zero_iff ρ p M hρ hp hM).mpr fun i _ => h0 i⟩, ?_⟩
  rintro v ⟨M', hM', rfl⟩
  exact excl_nonneg ρ p M' hρ hp hM'

/-- Antidistinguishability is invariant under a common unitary. -/
theorem antidist_unitary_invariant (U : Matrix (Fin d) (Fin d) ℂ) (hU : U ∈ Matrix.unitaryGroup (Fin d) ℂ)
    (ρ : Fin k → Matrix (Fin d) (Fin d) ℂ) :
    IsAntidistinguishable (rot U ρ) ↔ IsAntidistinguishable ρ := by
  have h1 : Uᴴ * U = 1 := by
    simpa [Matrix.star_eq_conjTranspose] using Matrix.mem_unitaryGroup_iff'.mp hU
  have hU' : Uᴴ ∈ Matrix.unitaryGroup (Fin d) ℂ := by
    have := Unitary.star_mem hU
    simpa [Matrix.star_eq_conjTranspose] using this
  have h2 : Uᴴᴴ * Uᴴ = 1 := by
    simpa [Matrix.star_eq_conjTranspose] using Matrix.mem_unitaryGroup_iff'.mp hU'
  have hback : rot Uᴴ (rot U ρ) = ρ := by
    funext i
    exact conj_conj U (ρ i) h1
  have key : ∀ (V : Matrix (Fin d) (Fin d) ℂ), V ∈ Matrix.unitaryGroup (Fin d) ℂ → Vᴴ * V = 1 →
      ∀ σ : Fin k → Matrix (Fin d) (Fin d) ℂ, IsAntidistinguishable σ → IsAntidistinguishable (rot V σ) := by
    intro V hV hV1 σ ⟨M, hM, h0⟩
    refine ⟨rot V M, (excl_unitary_invariant V hV σ (fun _ => 1) M hM).1, fun i => ?_⟩
    show ((V * σ i * Vᴴ) * (V * M i * Vᴴ)).trace = 0
    rw [conj_trace_mul V (σ i) (M i) hV1]
    exact h0 i
  constructor
  · intro h
    have := key Uᴴ hU' h2 (rot U ρ) h
    rwa [hback] at this
  · exact key U hU h1 ρ

/-- **Two states: the minimum in closed form.**  For two Hermitian states the least attained exclusion value – it
exists by `excl_values_has_least` – *is* `½(p₀ tr ρ₀ + p₁ tr ρ₁) − ½‖p₀ρ₀ − p₁ρ₁‖₁`. -/
theorem excl_two_isLeast (ρ : Fin 2 → Matrix (Fin d) (Fin d) ℂ) (p : Fin 2 → ℝ)
    (hρ : ∀ i, (ρ i).IsHermitian) :
    IsLeast (exclValues ρ p)
      ((p 0 * (ρ 0).trace.re + p 1 * (ρ 1).trace.re) / 2
        - Toq.Metrics.traceNormV ((p 0 : ℂ) • ρ 0 - (p 1 : ℂ) • ρ 1) / 2) := by
  obtain ⟨v, hv⟩ := excl_values_has_least ρ p (by norm_num)
  have := hv.isGLB.unique (excl_two_isGLB ρ p hρ)
  rwa [this] at hv

/-- Ensembles given as vectors are prepared as PSD operators: every state of `prepare (vs.map .vec) probs` is
PSD, so `excl_nonneg` and `antidist_iff_zero` apply to them exactly. -/
theorem prepare_vec_psd (vs : List (EMat d 1)) (probs : Option (List Rat))
    (i : Fin (prepare (vs.map StateArg.vec) probs).size) :
    (ensStates (prepare (vs.map StateArg.vec) probs) i).PosSemidef := by
  unfold ensStates Ensemble.state prepare
  simp only [List.map_map]
  have hi : i.val < (vs.map (StateArg.density ∘ StateArg.vec)).length := by
    have := i.isLt
    simpa [prepare, Ensemble.size] using this
  rw [List.getD_eq_getElem?_getD, List.getElem?_eq_getElem hi, Option.getD_some, List.getElem_map]
  exact toDensityVec_psd _

/-! ## When primal and dual agree: complementary slackness -/

/-- **The duality gap.**  For operators `M_i` summing to the identity and any `Y`:
`Σ_i p_i Re tr(ρ_i M_i) − Re tr Y = Σ_i Re tr((p_i ρ_i − Y) M_i)`; for a POVM and a dual-feasible `Y` every term on
the right is non-negative. -/
theorem excl_gap_eq (ρ : Fin k → Matrix (Fin d) (Fin d) ℂ) (p : Fin k → ℝ)
    (M : Fin k → Matrix (Fin d) (Fin d) ℂ) (Y : Matrix (Fin d) (Fin d) ℂ) (hsum : ∑ i, M i = 1) :
    exclusionValue ρ p M - Y.trace.re = ∑ i, (((p i : ℂ) • ρ i - Y) * M i).trace.re := by
  have h2 : Y.trace = ∑ i, (Y * M i).trace := by
    rw [← Matrix.trace_sum, ← Matrix.mul_sum, hsum, Matrix.mul_one]
  unfold exclusionValue
  rw [h2]
  simp only [Matrix.sub_mul, Matrix.trace_sub, Complex.sub_re, Finset.sum_sub_distrib, Complex.re_sum,
    re_trace_smul_mul]

/-- **Primal and dual agree exactly under complementary slackness.**  For a POVM `M` and a dual-feasible `Y`:
the value of `M` equals `Re tr Y` iff `(p_i ρ_i − Y) M_i = 0` for every `i`.  In that case `M` attains the minimum,
`Y` attains the dual maximum, and the two optimal values coincide. -/
theorem excl_primal_eq_dual_iff (ρ : Fin k → Matrix (Fin d) (Fin d) ℂ) (p : Fin k → ℝ)
    (M : Fin k → Matrix (Fin d) (Fin d) ℂ) (Y : Matrix (Fin d) (Fin d) ℂ) (hM : IsPOVM M)
    (hY : ExclDualFeasible ρ p Y) :
    exclusionValue ρ p M = Y.trace.re ↔ ∀ i, ((p i : ℂ) • ρ i - Y) * M i = 0 := by
  have hgap := excl_gap_eq ρ p M Y hM.2
  have hnn : ∀ i ∈ Finset.univ, 0 ≤ ((((p i : ℂ) • ρ i - Y) * M i).trace.re) :=
    fun i _ => psd_trace_mul_nonneg (hY i) (hM.1 i)
  constructor
  · intro h i
    have h0 : ∑ i, (((p i : ℂ) • ρ i - Y) * M i).trace.re = 0 := by rw [← hgap, h, sub_self]
    have hi := (Finset.sum_eq_zero_iff_of_nonneg hnn).mp h0 i (Finset.mem_univ i)
    exact psd_mul_eq_zero_of_trace (hY i) (hM.1 i)
      ((psd_trace_mul_re_eq_zero_iff (hY i) (hM.1 i)).mp hi)
  · intro h
    have h0 : ∑ i, (((p i : ℂ) • ρ i - Y) * M i).trace.re = 0 :=
      Finset.sum_eq_zero fun i _ => by rw [h i]; simp
    rw [h0] at hgap
    linarith

/-- **Optimality certificate.**  If a POVM `M` and a dual-feasible `Y` satisfy complementary slackness, then
`Re tr Y` is the least attained exclusion value (attained by `M`) and no dual-feasible `Y'` has a larger trace. -/
theorem excl_optimal_of_slackness (ρ : Fin k → Matrix (Fin d) (Fin d) ℂ) (p : Fin k → ℝ)
    (M : Fin k → Matrix (Fin d) (Fin d) ℂ) (Y : Matrix (Fin d) (Fin d) ℂ) (hM : IsPOVM M)
    (hY : ExclDualFeasible ρ p Y) (hs : ∀ i, ((p i : ℂ) • ρ i - Y) * M i = 0) :
    IsLeast (exclValues ρ p) Y.trace.re ∧
      ∀ Y' : Matrix (Fin d) (Fin d) ℂ, ExclDualFeasible ρ p Y' → Y'.trace.re ≤ Y.trace.re := by
  have hv := (excl_primal_eq_dual_iff ρ p M Y hM hY).mpr hs
  refine ⟨⟨⟨M, hM, hv⟩, ?_⟩, fun Y' hY' => ?_⟩
  · rintro v ⟨M', hM', rfl⟩
    exact excl_weak_duality ρ p M' Y hM' hY
  · rw [← hv]
    exact excl_weak_duality ρ p M Y' hM hY'

/-! ## The checkers accept concrete instances

* a genuinely complex rational antidistinguishable triple of qubit states (Bloch vectors `(3/5, 4/5, 0)`,
  `(3/5, −4/5, 0)`, `(−1, 0, 0)`; `M_i ∝` projector orthogonal to `ρ_i` with weights `5/8, 5/8, 3/4`): the
  checker returns exactly `0` for non-uniform priors;
* the four BB84 states with `M_i = ½ ·` projector orthogonal to `ρ_i`: exactly `0`;
* `|0⟩, |+⟩` with equal priors (optimum `(1 − 1/√2)/2 ≈ 0.1464`, not antidistinguishable): a POVM with
  value `3/20` and a dual point with value `13/100`. -/

section Examples

private def c2 (a b c d : QI) : EMat 2 2 := EMat.ofRows #[#[a, b], #[c, d]] 2 2
private def r2 (a b c d : Rat) : EMat 2 2 := c2 ⟨a, 0⟩ ⟨b, 0⟩ ⟨c, 0⟩ ⟨d, 0⟩

private def triEns : Ensemble 2 :=
  ⟨[c2 ⟨1/2, 0⟩ ⟨3/10, -2/5⟩ ⟨3/10, 2/5⟩ ⟨1/2, 0⟩,
    c2 ⟨1/2, 0⟩ ⟨3/10, 2/5⟩ ⟨3/10, -2/5⟩ ⟨1/2, 0⟩,
    r2 (1/2) (-1/2) (-1/2) (1/2)], [1/2, 1/4, 1/4]⟩

example : checkExclPrimal triEns
    [c2 ⟨5/16, 0⟩ ⟨-3/16, 1/4⟩ ⟨-3/16, -1/4⟩ ⟨5/16, 0⟩,
     c2 ⟨5/16, 0⟩ ⟨-3/16, -1/4⟩ ⟨-3/16, 1/4⟩ ⟨5/16, 0⟩,
     r2 (3/8) (3/8) (3/8) (3/8)]
    [c2 ⟨1/2, 0⟩ ⟨1/4, 0⟩ ⟨-3/10, -2/5⟩ ⟨-3/20, -1/5⟩,
     c2 ⟨1/2, 0⟩ ⟨1/4, 0⟩ ⟨-3/10, 2/5⟩ ⟨-3/20, 1/5⟩,
     c2 ⟨1/2, 1/4⟩ ⟨1/4, 0⟩ ⟨1/2, 1/4⟩ ⟨1/4, 0⟩] = some 0 := by decide +kernel

private def bb84Ens : Ensemble 2 :=
  ⟨[r2 1 0 0 0, r2 0 0 0 1, r2 (1/2) (1/2) (1/2) (1/2), r2 (1/2) (-1/2) (-1/2) (1/2)],
   [1/4, 1/4, 1/4, 1/4]⟩

example : checkExclPrimal bb84Ens
    [r2 0 0 0 (1/2), r2 (1/2) 0 0 0, r2 (1/4) (-1/4) (-1/4) (1/4), r2 (1/4) (1/4) (1/4) (1/4)]
    [r2 0 0 0 (1/2), r2 (1/2) 0 0 0, r2 (1/2) 0 (-1/2) 0, r2 (1/2) 0 (1/2) 0] = some 0 := by
  decide +kernel

/-- the same POVM with a wrong PSD witness for `M_1` (`L L^H = diag(1/4, 1/4)` is not below
`M_1 = diag(1/2, 0)`) is rejected: the checker never trusts the witness -/
example : checkExclPrimal bb84Ens
    [r2 0 0 0 (1/2), r2 (1/2) 0 0 0, r2 (1/4) (-1/4) (-1/4) (1/4), r2 (1/4) (1/4) (1/4) (1/4)]
    [r2 0 0 0 (1/2), r2 (1/2) 0 0 (1/2), r2 (1/2) 0 (-1/2) 0, r2 (1/2) 0 (1/2) 0] = none := by
  decide +kernel

/-- a family that does not sum to the identity (`M_3` replaced by `M_2`) is rejected -/
example : checkExclPrimal bb84Ens
    [r2 0 0 0 (1/2), r2 (1/2) 0 0 0, r2 (1/4) (-1/4) (-1/4) (1/4), r2 (1/4) (-1/4) (-1/4) (1/4)]
    [r2 0 0 0 (1/2), r2 (1/2) 0 0 0, r2 (1/2) 0 (-1/2) 0, r2 (1/2) 0 (-1/2) 0] = none := by
  decide +kernel

private def exEns : Ensemble 2 := ⟨[r2 1 0 0 0, r2 (1/2) (1/2) (1/2) (1/2)], [1/2, 1/2]⟩

example : checkExclPrimal exEns
    [r2 (3/20) (7/20) (7/20) (17/20), r2 (17/20) (-7/20) (-7/20) (3/20)]
    [r2 0 (35/92) 0 (23/25), r2 (23/25) 0 (-35/92) 0] = some (3/20) := by decide +kernel

example : checkExclDual exEns (r2 (19/100) (3/25) (3/25) (-3/50))
    [r2 (11/20) 0 (-11/50) (1/10), r2 (6/25) 0 (27/50) (3/25)] = some (13/100) := by decide +kernel

/-- the same `Y` is rejected for the ensemble with the priors swapped to `(1/8, 7/8)` (constraint
`Y ⪯ p_0 ρ_0` fails) -/
example : checkExclDual ⟨exEns.states, [1/8, 7/8]⟩ (r2 (19/100) (3/25) (3/25) (-3/50))
    [r2 (11/20) 0 (-11/50) (1/10), r2 (6/25) 0 (27/50) (3/25)] = none := by decide +kernel

/-- unambiguous exclusion of `|0⟩, |+⟩` with equal priors (optimum `1/√2 ≈ 0.7071`): `M_0 = ½|1⟩⟨1|`,
`M_1 = ½|−⟩⟨−|` is feasible with inconclusive probability `3/4` … -/
example : checkUnambExclPrimal exEns
    [r2 0 0 0 (1/2), r2 (1/4) (-1/4) (-1/4) (1/4)] [r2 0 0 0 0, r2 0 0 0 0] (r2 0 0 0 0) = some (3/4) := by
  decide +kernel

/-- … and `N = (3/8)·1`, `a = (2, 2)` is dual feasible with bound `1 − 3/4 = 1/4` -/
example : checkUnambExclDual exEns (r2 (3/8) 0 0 (3/8)) [2, 2] (r2 0 0 0 0)
    [r2 (3/4) 0 (-1/3) 0, r2 (1/3) 0 (3/4) 0] = some (1/4) := by decide +kernel

/-- an operator that is not orthogonal to its state (`M_0 = ½|0⟩⟨0|`) is rejected by the unambiguous checker -/
example : checkUnambExclPrimal exEns
    [r2 (1/2) 0 0 0, r2 (1/4) (-1/4) (-1/4) (1/4)] [r2 0 0 0 0, r2 0 0 0 0] (r2 0 0 0 0) = none := by
  decide +kernel

/-- the post-solve tests: `10⁻⁹` counts as zero, `2·10⁻⁸` does not; `common_quantum_overlap`'s formula is the identity -/
example : antidistTest (1 / 1000000000) = true ∧ antidistTest (-1 / 1000000000) = true ∧
    antidistTest (2 / 100000000) = false ∧ cqoPost 3 (2 / 7) = 2 / 7 := by decide +kernel

/-- the hypotheses of `trine_antidistinguishable` hold for the number the code uses -/
example : IsAntidistinguishable fun b : Fin 3 => pure (trineVec (1 / 2) (Real.sqrt 3) b) :=
  trine_antidistinguishable _ (Real.mul_self_sqrt (by norm_num))

/-- `pbr2_antidistinguishable` at the critical angle (`w = −1`, `c : s = (1 + √2) : 1`) -/
example : IsAntidistinguishable fun b : Fin (2 ^ 2) => pure (pbrVec 2 (1 + Real.sqrt 2) 1 b) := by
  refine pbr2_antidistinguishable _ _ (-1) (by simp) ?_
  have h : Real.sqrt 2 * Real.sqrt 2 = 2 := Real.mul_self_sqrt (by norm_num)
  simp only [Complex.neg_re, Complex.one_re]
  nlinarith [h]

/-- `pbr2_antidistinguishable_angle` at `θ = π/2` (the four states are then an orthonormal basis) -/
example : IsAntidistinguishable fun b : Fin (2 ^ 2) =>
    pure (pbrVec 2 (Real.cos (Real.pi / 2 / 2)) (Real.sin (Real.pi / 2 / 2)) b) :=
  pbr2_antidistinguishable_angle _ (by linarith [Real.pi_pos]) (by linarith [Real.pi_pos])

/-- `antidist_of_orthogonal_pair`: `|0⟩⟨0|`, `|1⟩⟨1|` and any third operator -/
example (X : Matrix (Fin 2) (Fin 2) ℂ) :
    IsAntidistinguishable ![!![1, 0; 0, 0], !![0, 0; 0, 1], X] := by
  refine antidist_of_orthogonal_pair _ 0 1 (by decide) ?_ ?_
  · ext i j; fin_cases i <;> fin_cases j <;> simp [Matrix.conjTranspose_apply]
  · ext i j; fin_cases i <;> fin_cases j <;> simp [Matrix.mul_apply, Fin.sum_univ_two]

/-- `antidist_of_projector_frame` for the four BB84 states `|0⟩, |1⟩, |+⟩, |−⟩` (`h = 1/√2`): the projectors sum to `2·1` -/
example (h : ℝ) (hh : h * h = 1 / 2) :
    IsAntidistinguishable fun b : Fin 4 =>
      Excl.pure ((![![1, 0], ![0, 1], ![(h : ℂ), h], ![(h : ℂ), -h]] : Fin 4 → Fin 2 → ℂ) b) := by
  have hh' : (h : ℂ) * h = 1 / 2 := by rw [← Complex.ofReal_mul, hh]; norm_num
  refine antidist_of_projector_frame _ 2 (by norm_num) (fun i => pure_isHermitian _) (fun i => ?_) ?_
  · refine pure_idem _ ?_
    fin_cases i <;> simp [dotProduct, Fin.sum_univ_two] <;> linear_combination (2 : ℂ) * hh'
  · ext i j
    fin_cases i <;> fin_cases j <;>
      simp [Excl.pure, Matrix.vecMulVec_apply, Fin.sum_univ_four, Matrix.sum_apply] <;>
      first | ring1 | linear_combination (2 : ℂ) * hh'

end Examples

end Toq.C11
