import Toq.Proofs.Exclusion
/-!
# C11 — quantum state exclusion: weak duality, soundness of the certificate checkers, elementary bounds,
unitary invariance and the characterisation of antidistinguishability

The optimisation problems are stated over `Matrix (Fin d) (Fin d) ℂ` with Mathlib's `Matrix.PosSemidef`.
The executable checkers (`Toq.Model.Exclusion`) work over exact Gaussian rationals; `EMat.toM` is the
denotation of an exact matrix, `Rat.cast` that of an exact number.

* minimum-error exclusion of `{(p_i, ρ_i)}` (toqito `state_exclusion(strategy="min_error")`): minimise
  `exclusionValue ρ p M = Σ_i p_i Re tr(ρ_i M_i)` over POVMs `M`; dual: maximise `Re tr Y` subject to
  `p_i ρ_i − Y ⪰ 0` for all `i`;
* unambiguous exclusion (toqito `strategy="unambiguous"`), `σ_i = p_i ρ_i`, `S = Σ_i σ_i`: minimise
  `Re tr(S (1 − Σ_i M_i))` subject to `M_i ⪰ 0`, `1 − Σ_i M_i ⪰ 0`, `tr(σ_i M_i) = 0`; dual: maximise
  `1 − Re tr N` subject to `N ⪰ 0`, `N + a_i σ_i − S ⪰ 0` (`a_i` real);
* `is_antidistinguishable` / `common_quantum_overlap` call the min-error dual with all weights `p_i = 1`.
-/

open Matrix
open scoped ComplexOrder MatrixOrder

namespace Toq.C11
open Toq.Discrim Toq.Excl

variable {d k : Nat}

/-! ## The mathematical problems -/

/-- `M` is a `k`-outcome measurement on `ℂ^d` -/
def IsPOVM (M : Fin k → Matrix (Fin d) (Fin d) ℂ) : Prop := (∀ i, (M i).PosSemidef) ∧ ∑ i, M i = 1

/-- `Σ_i p_i · Re tr(ρ_i M_i)`: probability that the state named by the measurement `M` ("it was not
`ρ_i`") is the one that was prepared – the error probability of conclusive exclusion -/
noncomputable def exclusionValue (ρ : Fin k → Matrix (Fin d) (Fin d) ℂ) (p : Fin k → ℝ)
    (M : Fin k → Matrix (Fin d) (Fin d) ℂ) : ℝ :=
  ∑ i, p i * (ρ i * M i).trace.re

/-- `Y` is feasible for the dual of minimum-error exclusion: `Y ⪯ p_i ρ_i` for every `i` -/
def ExclDualFeasible (ρ : Fin k → Matrix (Fin d) (Fin d) ℂ) (p : Fin k → ℝ)
    (Y : Matrix (Fin d) (Fin d) ℂ) : Prop :=
  ∀ i, ((p i : ℂ) • ρ i - Y).PosSemidef

/-- the states are antidistinguishable: some measurement never names the state that was prepared -/
def IsAntidistinguishable (ρ : Fin k → Matrix (Fin d) (Fin d) ℂ) : Prop :=
  ∃ M : Fin k → Matrix (Fin d) (Fin d) ℂ, IsPOVM M ∧ ∀ i, (ρ i * M i).trace = 0

/-- the ensemble and the measurement rotated by a common `U` -/
def rot (U : Matrix (Fin d) (Fin d) ℂ) (A : Fin k → Matrix (Fin d) (Fin d) ℂ) :
    Fin k → Matrix (Fin d) (Fin d) ℂ := fun i => U * A i * Uᴴ

/-- `M` is feasible for toqito's unambiguous-exclusion primal with unnormalised states `σ_i = p_i ρ_i` -/
def UnambExclFeasible (σ : Fin k → Matrix (Fin d) (Fin d) ℂ) (M : Fin k → Matrix (Fin d) (Fin d) ℂ) :
    Prop :=
  (∀ i, (M i).PosSemidef) ∧ (1 - ∑ i, M i).PosSemidef ∧ ∀ i, (σ i * M i).trace.re = 0

/-- `(N, a)` is feasible for toqito's unambiguous-exclusion dual -/
def UnambExclDualFeasible (σ : Fin k → Matrix (Fin d) (Fin d) ℂ) (N : Matrix (Fin d) (Fin d) ℂ)
    (a : Fin k → ℝ) : Prop :=
  N.PosSemidef ∧ ∀ i, (N + (a i : ℂ) • σ i - ∑ j, σ j).PosSemidef

/-! ## Denotation of checker inputs -/

/-- the states of an exact ensemble as complex matrices -/
def ensStates (ens : Ensemble d) : Fin ens.size → Matrix (Fin d) (Fin d) ℂ := fun i => (ens.state i).toM
/-- the prior probabilities of an exact ensemble as reals -/
def ensProbs (ens : Ensemble d) : Fin ens.size → ℝ := fun i => ((ens.prob i : Rat) : ℝ)
/-- first `k` matrices of a list as complex matrices -/
def mats (k : Nat) (M : List (EMat d d)) : Fin k → Matrix (Fin d) (Fin d) ℂ := fun i => (matAt M i).toM

/-! ## Weak duality and the certificate checkers -/

/-- Weak duality: for every dual-feasible `Y`, `Re tr Y` is at most the exclusion value of every
measurement.  (No assumption on `ρ`, `p` or Hermiticity of `Y` beyond the constraints themselves.) -/
theorem excl_weak_duality (ρ : Fin k → Matrix (Fin d) (Fin d) ℂ) (p : Fin k → ℝ)
    (M : Fin k → Matrix (Fin d) (Fin d) ℂ) (Y : Matrix (Fin d) (Fin d) ℂ)
    (hM : IsPOVM M) (hY : ExclDualFeasible ρ p Y) :
    Y.trace.re ≤ exclusionValue ρ p M :=
  excl_weak_duality_gen ρ p M Y hM.1 hM.2 hY

/-- If the primal checker accepts with value `hi`, the candidate is a POVM (one element per state)
whose exclusion value is exactly `hi`; hence `hi` is an upper bound of the minimum. -/
theorem checkExclPrimal_sound (ens : Ensemble d) (M LM : List (EMat d d)) (hi : Rat)
    (h : checkExclPrimal ens M LM = some hi) :
    ens.probs.length = ens.size ∧ M.length = ens.size ∧
      IsPOVM (mats ens.size M) ∧
      exclusionValue (ensStates ens) (ensProbs ens) (mats ens.size M) = (hi : ℝ) := by
  unfold checkExclPrimal at h
  split at h
  · next hl =>
    obtain ⟨h1, h2, -⟩ := (lens3Ok_iff _ _ _ _).mp hl
    obtain ⟨hp, hs, hv⟩ := checkExclPrimalFn_sound _ _ _ _ _ _ h
    exact ⟨h1, h2, ⟨hp, hs⟩, hv⟩
  · exact absurd h (by simp)

/-- If the dual checker accepts with value `lo`, the candidate `Y` is Hermitian, dual feasible with
`Re tr Y = lo`, and every measurement on the ensemble has exclusion value at least `lo`. -/
theorem checkExclDual_sound (ens : Ensemble d) (Y : EMat d d) (LY : List (EMat d d)) (lo : Rat)
    (h : checkExclDual ens Y LY = some lo) :
    (Y.toM.IsHermitian ∧ ExclDualFeasible (ensStates ens) (ensProbs ens) Y.toM ∧
        Y.toM.trace.re = (lo : ℝ)) ∧
      ∀ M' : Fin ens.size → Matrix (Fin d) (Fin d) ℂ, IsPOVM M' →
        (lo : ℝ) ≤ exclusionValue (ensStates ens) (ensProbs ens) M' := by
  unfold checkExclDual at h
  split at h
  · next hl =>
    obtain ⟨hH, hf, hv⟩ := checkExclDualFn_sound _ _ _ _ _ _ h
    refine ⟨⟨hH, hf, hv⟩, ?_⟩
    intro M' hM'
    rw [← hv]
    exact excl_weak_duality (ensStates ens) (ensProbs ens) M' Y.toM hM' hf
  · exact absurd h (by simp)

/-- Accepted dual and primal certificates bracket the optimum: `lo ≤ hi`. -/
theorem excl_lo_le_hi (ens : Ensemble d) (M LM : List (EMat d d)) (Y : EMat d d)
    (LY : List (EMat d d)) (lo hi : Rat)
    (hhi : checkExclPrimal ens M LM = some hi) (hlo : checkExclDual ens Y LY = some lo) :
    (lo : ℝ) ≤ (hi : ℝ) := by
  obtain ⟨-, -, hM, hv⟩ := checkExclPrimal_sound ens M LM hi hhi
  rw [← hv]
  exact (checkExclDual_sound ens Y LY lo hlo).2 _ hM

/-! ## Elementary bounds -/

/-- The exclusion value of every measurement is non-negative (states PSD, priors `≥ 0`); hence so is the
minimum, and `0` is always a valid lower bound `lo`. -/
theorem excl_nonneg (ρ : Fin k → Matrix (Fin d) (Fin d) ℂ) (p : Fin k → ℝ)
    (M : Fin k → Matrix (Fin d) (Fin d) ℂ) (hρ : ∀ i, (ρ i).PosSemidef) (hp : ∀ i, 0 ≤ p i)
    (hM : IsPOVM M) : 0 ≤ exclusionValue ρ p M :=
  excl_nonneg_gen ρ p M hρ hp hM.1

/-- For a unit-trace state `ρ_j` the measurement "always answer `j`" (`M_j = 1`, the others `0`) is a POVM
with exclusion value exactly `p_j`; hence the minimum is at most the smallest prior. -/
theorem excl_le_min_prior (ρ : Fin k → Matrix (Fin d) (Fin d) ℂ) (p : Fin k → ℝ) (j : Fin k)
    (hj : (ρ j).trace = 1) :
    ∃ M : Fin k → Matrix (Fin d) (Fin d) ℂ, IsPOVM M ∧ exclusionValue ρ p M = p j := by
  refine ⟨constPovm j, ⟨constPovm_psd j, constPovm_sum j⟩, ?_⟩
  unfold exclusionValue
  rw [constPovm_value, hj]
  simp

/-- Scaling all priors by `c` scales the value of every measurement by `c`: the all-ones weights used by
`is_antidistinguishable` and `common_quantum_overlap` give `n` times the value for uniform priors `1/n`. -/
theorem excl_scale (ρ : Fin k → Matrix (Fin d) (Fin d) ℂ) (p : Fin k → ℝ) (c : ℝ)
    (M : Fin k → Matrix (Fin d) (Fin d) ℂ) :
    exclusionValue ρ (fun i => c * p i) M = c * exclusionValue ρ p M := by
  unfold exclusionValue
  rw [Finset.mul_sum]
  exact Finset.sum_congr rfl fun i _ => mul_assoc _ _ _

/-! ## Invariance under a common unitary -/

/-- Conjugating the states and the measurement by the same unitary `U` maps POVMs to POVMs and preserves
the exclusion value. -/
theorem excl_unitary_invariant (U : Matrix (Fin d) (Fin d) ℂ) (hU : U ∈ Matrix.unitaryGroup (Fin d) ℂ)
    (ρ : Fin k → Matrix (Fin d) (Fin d) ℂ) (p : Fin k → ℝ) (M : Fin k → Matrix (Fin d) (Fin d) ℂ)
    (hM : IsPOVM M) :
    IsPOVM (rot U M) ∧ exclusionValue (rot U ρ) p (rot U M) = exclusionValue ρ p M := by
  have h1 : Uᴴ * U = 1 := by
    simpa [Matrix.star_eq_conjTranspose] using Matrix.mem_unitaryGroup_iff'.mp hU
  have h2 : U * Uᴴ = 1 := by
    simpa [Matrix.star_eq_conjTranspose] using Matrix.mem_unitaryGroup_iff.mp hU
  refine ⟨⟨fun i => conj_psd U (M i) (hM.1 i), ?_⟩, ?_⟩
  · unfold rot
    rw [conj_sum, hM.2, Matrix.mul_one, h2]
  · unfold exclusionValue rot
    exact Finset.sum_congr rfl fun i _ => by rw [conj_trace_mul U (ρ i) (M i) h1]

/-- The set of exclusion values attained by POVMs is the same for the rotated ensemble `U ρ_i Uᴴ` and for
the original one (`M ↦ U M Uᴴ` is a bijection of the feasible set); in particular the minima agree. -/
theorem excl_values_unitary_invariant (U : Matrix (Fin d) (Fin d) ℂ)
    (hU : U ∈ Matrix.unitaryGroup (Fin d) ℂ) (ρ : Fin k → Matrix (Fin d) (Fin d) ℂ) (p : Fin k → ℝ) :
    {v : ℝ | ∃ M : Fin k → Matrix (Fin d) (Fin d) ℂ, IsPOVM M ∧ exclusionValue (rot U ρ) p M = v}
      = {v : ℝ | ∃ M : Fin k → Matrix (Fin d) (Fin d) ℂ, IsPOVM M ∧ exclusionValue ρ p M = v} := by
  have h1 : Uᴴ * U = 1 := by
    simpa [Matrix.star_eq_conjTranspose] using Matrix.mem_unitaryGroup_iff'.mp hU
  have hU' : Uᴴ ∈ Matrix.unitaryGroup (Fin d) ℂ := by
    have := Unitary.star_mem hU
    simpa [Matrix.star_eq_conjTranspose] using this
  have hback : rot Uᴴ (rot U ρ) = ρ := by
    funext i
    exact conj_conj U (ρ i) h1
  ext v
  constructor
  · rintro ⟨M, hM, hv⟩
    obtain ⟨hM', hv'⟩ := excl_unitary_invariant Uᴴ hU' (rot U ρ) p M hM
    rw [hback] at hv'
    exact ⟨rot Uᴴ M, hM', hv'.trans hv⟩
  · rintro ⟨M, hM, hv⟩
    obtain ⟨hM', hv'⟩ := excl_unitary_invariant U hU ρ p M hM
    exact ⟨rot U M, hM', hv'.trans hv⟩

/-! ## Antidistinguishability -/

/-- For PSD states, non-negative priors and a POVM `M`: the exclusion value is `0` iff `tr(ρ_i M_i) = 0`
for every `i` with positive prior. -/
theorem excl_eq_zero_iff (ρ : Fin k → Matrix (Fin d) (Fin d) ℂ) (p : Fin k → ℝ)
    (M : Fin k → Matrix (Fin d) (Fin d) ℂ) (hρ : ∀ i, (ρ i).PosSemidef) (hp : ∀ i, 0 ≤ p i)
    (hM : IsPOVM M) :
    exclusionValue ρ p M = 0 ↔ ∀ i, 0 < p i → (ρ i * M i).trace = 0 :=
  excl_eq_zero_iff_gen ρ p M hρ hp hM.1

/-- For PSD states and positive weights (in particular the all-ones weights of `is_antidistinguishable`):
the states are antidistinguishable iff some POVM attains exclusion value `0`. -/
theorem antidist_iff_zero (ρ : Fin k → Matrix (Fin d) (Fin d) ℂ) (p : Fin k → ℝ)
    (hρ : ∀ i, (ρ i).PosSemidef) (hp : ∀ i, 0 < p i) :
    IsAntidistinguishable ρ ↔
      ∃ M : Fin k → Matrix (Fin d) (Fin d) ℂ, IsPOVM M ∧ exclusionValue ρ p M = 0 := by
  constructor
  · rintro ⟨M, hM, h0⟩
    exact ⟨M, hM, (excl_eq_zero_iff ρ p M hρ (fun i => (hp i).le) hM).mpr fun i _ => h0 i⟩
  · rintro ⟨M, hM, h0⟩
    exact ⟨M, hM, fun i => (excl_eq_zero_iff ρ p M hρ (fun i => (hp i).le) hM).mp h0 i (hp i)⟩

/-- A positive certified lower bound refutes antidistinguishability: if the dual checker accepts with
`lo > 0` for PSD states and positive weights, the states are not antidistinguishable. -/
theorem not_antidist_of_dual_pos (ens : Ensemble d) (Y : EMat d d) (LY : List (EMat d d)) (lo : Rat)
    (h : checkExclDual ens Y LY = some lo) (hlo : 0 < lo)
    (hρ : ∀ i, (ensStates ens i).PosSemidef) (hp : ∀ i, 0 < ensProbs ens i) :
    ¬ IsAntidistinguishable (ensStates ens) := by
  intro ha
  obtain ⟨M, hM, h0⟩ := (antidist_iff_zero (ensStates ens) (ensProbs ens) hρ hp).mp ha
  have := (checkExclDual_sound ens Y LY lo h).2 M hM
  rw [h0] at this
  have h1 : (0 : ℝ) < (lo : ℝ) := by exact_mod_cast hlo
  linarith

/-! ## Unambiguous exclusion -/

/-- Weak duality for toqito's unambiguous-exclusion pair (`σ_i = p_i ρ_i`, `S = Σ_i σ_i`): for
primal-feasible `M` and dual-feasible `(N, a)`, `Re tr S − Re tr N ≤ Re tr(S (1 − Σ_i M_i))`.  The code's dual
objective `1 − tr N` is this bound when `tr S = 1` (normalised states, priors summing to one). -/
theorem unamb_excl_weak_duality (σ : Fin k → Matrix (Fin d) (Fin d) ℂ)
    (M : Fin k → Matrix (Fin d) (Fin d) ℂ) (N : Matrix (Fin d) (Fin d) ℂ) (a : Fin k → ℝ)
    (hM : UnambExclFeasible σ M) (hN : UnambExclDualFeasible σ N a) :
    (∑ j, σ j).trace.re - N.trace.re ≤ ((∑ j, σ j) * (1 - ∑ i, M i)).trace.re :=
  unamb_excl_weak_duality_gen σ M N a hM.1 hM.2.1 hM.2.2 hN.1 hN.2

/-- Unambiguous exclusion with `tr(Σ_i p_i ρ_i) = 1`: the dual objective `1 − Re tr N` of the code is at most
the primal objective (probability of the inconclusive outcome). -/
theorem unamb_excl_weak_duality_normalised (σ : Fin k → Matrix (Fin d) (Fin d) ℂ)
    (M : Fin k → Matrix (Fin d) (Fin d) ℂ) (N : Matrix (Fin d) (Fin d) ℂ) (a : Fin k → ℝ)
    (hM : UnambExclFeasible σ M) (hN : UnambExclDualFeasible σ N a) (hS : (∑ j, σ j).trace = 1) :
    1 - N.trace.re ≤ ((∑ j, σ j) * (1 - ∑ i, M i)).trace.re := by
  have := unamb_excl_weak_duality σ M N a hM hN
  rw [hS] at this
  simpa using this

/-! ## The checkers accept concrete instances

* a genuinely complex rational antidistinguishable triple of qubit states (Bloch vectors `(3/5, 4/5, 0)`,
  `(3/5, −4/5, 0)`, `(−1, 0, 0)`; `M_i ∝` projector orthogonal to `ρ_i` with weights `5/8, 5/8, 3/4`): the
  checker returns exactly `0` for non-uniform priors;
* the four BB84 states with `M_i = ½ ·` projector orthogonal to `ρ_i`: exactly `0`;
* `|0⟩, |+⟩` with equal priors (optimum `(1 − 1/√2)/2 ≈ 0.1464`, not antidistinguishable): a POVM with
  value `3/20` and a dual point with value `13/100`. -/

section Examples

private def c2 (a b c d : QI) : EMat 2 2 := EMat.ofRows #[#[a, b], #[c, d]] 2 2
private def r2 (a b c d : Rat) : EMat 2 2 := c2 ⟨a, 0⟩ ⟨b, 0⟩ ⟨c, 0⟩ ⟨d, 0⟩

private def triEns : Ensemble 2 :=
  ⟨[c2 ⟨1/2, 0⟩ ⟨3/10, -2/5⟩ ⟨3/10, 2/5⟩ ⟨1/2, 0⟩,
    c2 ⟨1/2, 0⟩ ⟨3/10, 2/5⟩ ⟨3/10, -2/5⟩ ⟨1/2, 0⟩,
    r2 (1/2) (-1/2) (-1/2) (1/2)], [1/2, 1/4, 1/4]⟩

example : checkExclPrimal triEns
    [c2 ⟨5/16, 0⟩ ⟨-3/16, 1/4⟩ ⟨-3/16, -1/4⟩ ⟨5/16, 0⟩,
     c2 ⟨5/16, 0⟩ ⟨-3/16, -1/4⟩ ⟨-3/16, 1/4⟩ ⟨5/16, 0⟩,
     r2 (3/8) (3/8) (3/8) (3/8)]
    [c2 ⟨1/2, 0⟩ ⟨1/4, 0⟩ ⟨-3/10, -2/5⟩ ⟨-3/20, -1/5⟩,
     c2 ⟨1/2, 0⟩ ⟨1/4, 0⟩ ⟨-3/10, 2/5⟩ ⟨-3/20, 1/5⟩,
     c2 ⟨1/2, 1/4⟩ ⟨1/4, 0⟩ ⟨1/2, 1/4⟩ ⟨1/4, 0⟩] = some 0 := by decide +kernel

private def bb84Ens : Ensemble 2 :=
  ⟨[r2 1 0 0 0, r2 0 0 0 1, r2 (1/2) (1/2) (1/2) (1/2), r2 (1/2) (-1/2) (-1/2) (1/2)],
   [1/4, 1/4, 1/4, 1/4]⟩

example : checkExclPrimal bb84Ens
    [r2 0 0 0 (1/2), r2 (1/2) 0 0 0, r2 (1/4) (-1/4) (-1/4) (1/4), r2 (1/4) (1/4) (1/4) (1/4)]
    [r2 0 0 0 (1/2), r2 (1/2) 0 0 0, r2 (1/2) 0 (-1/2) 0, r2 (1/2) 0 (1/2) 0] = some 0 := by
  decide +kernel

/-- the same POVM with a wrong PSD witness for `M_1` (`L L^H = diag(1/4, 1/4)` is not below
`M_1 = diag(1/2, 0)`) is rejected: the checker never trusts the witness -/
example : checkExclPrimal bb84Ens
    [r2 0 0 0 (1/2), r2 (1/2) 0 0 0, r2 (1/4) (-1/4) (-1/4) (1/4), r2 (1/4) (1/4) (1/4) (1/4)]
    [r2 0 0 0 (1/2), r2 (1/2) 0 0 (1/2), r2 (1/2) 0 (-1/2) 0, r2 (1/2) 0 (1/2) 0] = none := by
  decide +kernel

/-- a family that does not sum to the identity (`M_3` replaced by `M_2`) is rejected -/
example : checkExclPrimal bb84Ens
    [r2 0 0 0 (1/2), r2 (1/2) 0 0 0, r2 (1/4) (-1/4) (-1/4) (1/4), r2 (1/4) (-1/4) (-1/4) (1/4)]
    [r2 0 0 0 (1/2), r2 (1/2) 0 0 0, r2 (1/2) 0 (-1/2) 0, r2 (1/2) 0 (-1/2) 0] = none := by
  decide +kernel

private def exEns : Ensemble 2 := ⟨[r2 1 0 0 0, r2 (1/2) (1/2) (1/2) (1/2)], [1/2, 1/2]⟩

example : checkExclPrimal exEns
    [r2 (3/20) (7/20) (7/20) (17/20), r2 (17/20) (-7/20) (-7/20) (3/20)]
    [r2 0 (35/92) 0 (23/25), r2 (23/25) 0 (-35/92) 0] = some (3/20) := by decide +kernel

example : checkExclDual exEns (r2 (19/100) (3/25) (3/25) (-3/50))
    [r2 (11/20) 0 (-11/50) (1/10), r2 (6/25) 0 (27/50) (3/25)] = some (13/100) := by decide +kernel

/-- the same `Y` is rejected for the ensemble with the priors swapped to `(1/8, 7/8)` (constraint
`Y ⪯ p_0 ρ_0` fails) -/
example : checkExclDual ⟨exEns.states, [1/8, 7/8]⟩ (r2 (19/100) (3/25) (3/25) (-3/50))
    [r2 (11/20) 0 (-11/50) (1/10), r2 (6/25) 0 (27/50) (3/25)] = none := by decide +kernel

end Examples

end Toq.C11
