import Toq.Proofs.Sep
import Toq.Proofs.PartialTranspose
import Toq.Proofs.SepCascade
import Toq.Proofs.SepExtra
import Toq.Proofs.SepArgs
/-!
# C15 — PPT and separability verdicts are sound

Vocabulary (`Toq/Proofs/Sep.lean`): matrices on `ℂ^dA ⊗ ℂ^dB` are indexed by pairs `(a, b)`;
`ptBM`/`ptAM` are the partial transposes, `swapM` exchanges the parties, `IsSepMix ρ` says that `ρ` is a
finite mixture `Σ_k w_k (a_k a_kᴴ) ⊗ (b_k b_kᴴ)` with `w_k ≥ 0`.  The executable model
(`Toq/Model/Sep.lean`) works on exact matrices over `ℚ[i]` with the flat index `a * dB + b` that toqito
uses; `unflat` reads a flat matrix as a pair-indexed one and `EMat.toM` is the complex matrix denoted by
an exact matrix.  "`λ_min(A) ≥ c`" is expressed as `(A − c·1).PosSemidef`.

The second half of the file covers the NECESSARY criteria that `is_separable` evaluates after the PPT test and that
make it answer "entangled": realignment (`realignment_criterion`, `_svd`, `realignment_zhang_norm`), the bound of
Zhang et al. (`zhang_criterion`, `_svd`, `zhang_products`), and the positive-map criterion
(`positive_map_criterion`) with the transposition, reduction and Breuer–Hall maps proved positive
(`transposition_instance`, `reduction_criterion`, `breuer_hall_criterion`) and the Ha–Kye qutrit maps identified
(`ha_maps_branch`; their positivity is a cited hypothesis).  Each says: no mixture of product states fails the test.

The third part (`## Decision logic`) is about WHAT THE FUNCTIONS DO with the evaluated quantities
(`Toq/Model/SepCascade.lean`): argument forms of `is_ppt` (`is_ppt_operand_forms`, `is_ppt_decision`), the `dim` block
(`sep_dim_forms`), the cascade of `is_separable` (`dim1_statement_sound`, `cascade_small_dims_is_ppt`, `cascade_npt_rejected`,
`cascade_false_only_by_necessary_criteria`, `separable_never_rejected_early`, `cascade_exchange_symmetric`), the index and tolerance arithmetic of its
branches (`johnston_spectrum_indices`, `rank_one_perturbation_indices`, `zhang_test_arithmetic`, `qubit_blocks_spec`,
`homothetic_image_spec`, `lemma1_frobenius_dominates`, `ha_parameters_in_region`), the decision logic of
`has_symmetric_extension` (`symext_shortcuts_accept_separable`, `symext_analytic_arithmetic`,
`symext_sdp_branch_constant`) and the existence of symmetric PPT extensions of every order for every mixture of
product states (`separable_has_symmetric_extensions`).

What the correspondence harness uses: the float matrix handed to toqito has an exact dyadic image `X`;
certificates `(c, L)` and `v` for `pt sys X` are checked by the compiled `checkLamMinLower/Upper`, and
the theorems below say what an accepted certificate means for `X`.
-/

open Matrix
open scoped ComplexOrder MatrixOrder Kronecker

namespace Toq.C15
open Toq.Sep

/-! ## Peres' criterion and the party of the transpose -/

/-- **Peres.**  Every finite mixture of product states `Σ_k w_k (a_k a_kᴴ) ⊗ (b_k b_kᴴ)`, `w_k ≥ 0`, has
a positive semidefinite partial transpose with respect to either party, for all local index types
(in particular all local dimensions). -/
theorem peres {m n : Type*} [Finite m] [Finite n] (ρ : Matrix (m × n) (m × n) ℂ) (h : IsSepMix ρ) :
    (ptBM ρ).PosSemidef ∧ (ptAM ρ).PosSemidef :=
  ⟨h.ptBM_posSemidef, h.ptAM_posSemidef⟩

/-- The same for mixtures of products of arbitrary (mixed) local states: `Σ_k w_k A_k ⊗ B_k` with
`w_k ≥ 0` and `A_k, B_k ⪰ 0` is PSD and has PSD partial transposes. -/
theorem peres_products {m n : Type*} [Finite m] [Finite n] {K : ℕ} (w : Fin K → ℝ)
    (A : Fin K → Matrix m m ℂ) (B : Fin K → Matrix n n ℂ) (hw : ∀ k, 0 ≤ w k)
    (hA : ∀ k, (A k).PosSemidef) (hB : ∀ k, (B k).PosSemidef) :
    (∑ k, (w k : ℂ) • (A k ⊗ₖ B k)).PosSemidef ∧
      (ptBM (∑ k, (w k : ℂ) • (A k ⊗ₖ B k))).PosSemidef ∧
      (ptAM (∑ k, (w k : ℂ) • (A k ⊗ₖ B k))).PosSemidef :=
  ⟨posSemidef_sum_smul_kron w A B hw hA hB, ptBM_posSemidef_of_products w A B hw hA hB, by
    rw [ptAM_eq_transpose]; exact (ptBM_posSemidef_of_products w A B hw hA hB).transpose⟩

/-- Transposing the first party is the full transpose of transposing the second party, and positive
semidefiniteness does not see the difference: the PPT verdict does not depend on `sys`. -/
theorem ppt_party_irrelevant {m n : Type*} (X : Matrix (m × n) (m × n) ℂ) :
    ptAM X = (ptBM X)ᵀ ∧ ((ptAM X).PosSemidef ↔ (ptBM X).PosSemidef) :=
  ⟨rfl, by rw [ptAM_eq_transpose]; exact posSemidef_transpose_iff⟩

/-- **Bridge.**  The executable partial transposes on the flat index `a * dB + b` are the partial
transposes: entrywise `(T_B X)[a·dB+b, a'·dB+b'] = X[a·dB+b', a'·dB+b]`,
`(T_A X)[a·dB+b, a'·dB+b'] = X[a'·dB+b, a·dB+b']`, and `pt sys` selects `T_A` for `sys = 1`, `T_B`
otherwise. -/
theorem pt_exec_eq_spec {dA dB : Nat} (X : EMat (dA * dB) (dA * dB)) (sys : Nat) :
    unflat (pt sys X).toM = (if sys = 1 then ptAM (unflat X.toM) else ptBM (unflat X.toM)) ∧
    (∀ (a a' : Fin dA) (b b' : Fin dB),
      (ptB X).toM (pair a b) (pair a' b') = X.toM (pair a b') (pair a' b) ∧
      (ptA X).toM (pair a b) (pair a' b') = X.toM (pair a' b) (pair a b')) := by
  refine ⟨?_, fun a a' b b' => ⟨?_, ?_⟩⟩
  · unfold pt; split
    · simp [unflat_ptA]
    · simp [unflat_ptB]
  · simp [ptB]
  · simp [ptA]

/-! ## Certified enclosure of the smallest eigenvalue -/

/-- If the lower checker accepts, it returns the proposed `c`, `A − c·1` is positive semidefinite, and
hence `c · xᴴx ≤ Re xᴴAx` for every vector `x`: every eigenvalue of `A` is at least `c`. -/
theorem checkLamMinLower_sound {n k : Nat} (A : EMat n n) (c : Rat) (L : EMat n k) (lo : Rat)
    (h : checkLamMinLower A c L = some lo) :
    lo = c ∧ (A.toM - (((lo : ℝ) : ℂ)) • (1 : Matrix (Fin n) (Fin n) ℂ)).PosSemidef ∧
      ∀ x : Fin n → ℂ, (lo : ℝ) * (star x ⬝ᵥ x).re ≤ (star x ⬝ᵥ (A.toM *ᵥ x)).re := by
  refine ⟨(checkLamMinLower_eq h).1, checkLamMinLower_psd h, fun x => ?_⟩
  have h1 := (checkLamMinLower_psd h).dotProduct_mulVec_nonneg x
  rw [Matrix.sub_mulVec, dotProduct_sub, Matrix.smul_mulVec, Matrix.one_mulVec, dotProduct_smul,
    smul_eq_mul] at h1
  have h2 := (Complex.nonneg_iff.mp h1).1
  rw [Complex.sub_re, Complex.re_ofReal_mul] at h2
  linarith

/-- If the upper checker accepts with value `hi` (the Rayleigh quotient `vᴴAv / vᴴv` of a non-zero
exact vector), then no `c > hi` has `A − c·1 ⪰ 0`: the smallest eigenvalue of `A` is at most `hi`. -/
theorem checkLamMinUpper_sound {n : Nat} (A : EMat n n) (v : EMat n 1) (hi : Rat)
    (h : checkLamMinUpper A v = some hi) :
    ∀ c : ℝ, (A.toM - (c : ℂ) • (1 : Matrix (Fin n) (Fin n) ℂ)).PosSemidef → c ≤ (hi : ℝ) :=
  fun c hc => checkLamMinUpper_bound h c hc

/-- Accepted lower and upper certificates enclose an interval. -/
theorem lamMin_lo_le_hi {n k : Nat} (A : EMat n n) (c : Rat) (L : EMat n k) (v : EMat n 1)
    (lo hi : Rat) (hlo : checkLamMinLower A c L = some lo) (hhi : checkLamMinUpper A v = some hi) :
    lo ≤ hi := by
  have := checkLamMinUpper_bound hhi (lo : ℝ) (checkLamMinLower_psd hlo)
  exact_mod_cast this

/-- **The PPT verdict decided by certificates is the mathematical one.**  `pptVerdict … = some true`
implies `T_sys X + tol·1 ⪰ 0` (the smallest eigenvalue of the exact partial transpose is `≥ −tol`);
`some false` implies that this fails. -/
theorem pptVerdict_sound {dA dB k : Nat} (sys : Nat) (X : EMat (dA * dB) (dA * dB)) (tol c : Rat)
    (L : EMat (dA * dB) k) (v : EMat (dA * dB) 1) (b : Bool)
    (h : pptVerdict sys X tol c L v = some b) :
    (b = true ↔ ((pt sys X).toM
        + (((tol : ℝ) : ℂ)) • (1 : Matrix (Fin (dA * dB)) (Fin (dA * dB)) ℂ)).PosSemidef) := by
  unfold pptVerdict at h
  cases b
  · obtain ⟨hi, hhi, hlt⟩ := lamMinVerdict_false h
    refine ⟨fun hb => absurd hb (by simp), fun hpsd => ?_⟩
    exfalso
    have e : (pt sys X).toM + (((tol : ℝ) : ℂ)) • (1 : Matrix (Fin (dA * dB)) (Fin (dA * dB)) ℂ)
        = (pt sys X).toM - (((-(tol : ℝ) : ℝ)) : ℂ) • 1 := by
      simp [sub_eq_add_neg]
    rw [e] at hpsd
    have h1 := checkLamMinUpper_bound hhi _ hpsd
    have h2 : ((hi : Rat) : ℝ) < -(tol : ℝ) := by exact_mod_cast hlt
    linarith
  · obtain ⟨lo, hlo, hle⟩ := lamMinVerdict_true h
    refine ⟨fun _ => ?_, fun _ => rfl⟩
    have h1 := checkLamMinLower_psd hlo
    have h2 : (0 : ℝ) ≤ (lo : ℝ) + (tol : ℝ) := by
      have : (-(tol : ℝ)) ≤ (lo : ℝ) := by exact_mod_cast hle
      linarith
    have h3 : ((((lo : ℝ) + (tol : ℝ) : ℝ)) • (1 : Matrix (Fin (dA * dB)) (Fin (dA * dB)) ℂ)).PosSemidef :=
      PosSemidef.one.smul h2
    have e : (pt sys X).toM + (((tol : ℝ) : ℂ)) • (1 : Matrix (Fin (dA * dB)) (Fin (dA * dB)) ℂ)
        = ((pt sys X).toM - (((lo : ℝ) : ℂ)) • 1)
          + (((lo : ℝ) + (tol : ℝ) : ℝ)) • (1 : Matrix (Fin (dA * dB)) (Fin (dA * dB)) ℂ) := by
      ext i j
      by_cases hij : i = j
      · subst hij; simp; ring
      · simp [hij]
    rw [e]
    exact h1.add h3

/-- **A certified negative partial transpose excludes separability.**  If some exact vector has a
negative Rayleigh quotient for the exact partial transpose (either party) of `X`, then `X` is not a
mixture of product states.  (This is what makes "`is_separable` must not answer True" an oracle.) -/
theorem negative_rayleigh_not_separable {dA dB : Nat} (sys : Nat) (X : EMat (dA * dB) (dA * dB))
    (v : EMat (dA * dB) 1) (hi : Rat) (h : checkLamMinUpper (pt sys X) v = some hi) (hneg : hi < 0) :
    ¬ IsSepMix (unflat X.toM) := by
  intro hsep
  have hP : (unflat (pt sys X).toM).PosSemidef := by
    rw [(pt_exec_eq_spec X sys).1]
    split
    · exact hsep.ptAM_posSemidef
    · exact hsep.ptBM_posSemidef
  rw [unflat_posSemidef_iff] at hP
  have h0 : ((pt sys X).toM - ((0 : ℝ) : ℂ) • (1 : Matrix (Fin (dA * dB)) (Fin (dA * dB)) ℂ)).PosSemidef := by
    simpa using hP
  have := checkLamMinUpper_bound h 0 h0
  have h2 : ((hi : Rat) : ℝ) < 0 := by exact_mod_cast hneg
  linarith

/-! ## The separable class: exact constructions and closure properties -/

/-- The exact matrix `Σ_k w_k (a_k a_kᴴ) ⊗ (b_k b_kᴴ)` computed by the model from rational data with
non-negative weights is a mixture of product states, it is PSD, and both of its executable partial
transposes are PSD. -/
theorem sepMix_separable {dA dB : Nat} (ws : List Rat) (as : List (EMat dA 1)) (bs : List (EMat dB 1))
    (hw : ∀ w ∈ ws, 0 ≤ w) :
    IsSepMix (unflat (sepMix ws as bs).toM) ∧ (sepMix ws as bs).toM.PosSemidef ∧
      ∀ sys, (pt sys (sepMix ws as bs)).toM.PosSemidef := by
  have h := sepMix_isSepMix ws as bs hw
  refine ⟨h, (unflat_posSemidef_iff _).mp h.posSemidef, fun sys => ?_⟩
  rw [← unflat_posSemidef_iff, (pt_exec_eq_spec _ sys).1]
  split
  · exact h.ptAM_posSemidef
  · exact h.ptBM_posSemidef

/-- The class of mixtures of product states is closed under local maps `ρ ↦ (U ⊗ V) ρ (U ⊗ V)ᴴ` (any
matrices `U`, `V`), and the executable `localConj` computes exactly this map. -/
theorem sep_local_unitary_closed {m n : Type*} [Fintype m] [Fintype n]
    (ρ : Matrix (m × n) (m × n) ℂ) (U : Matrix m m ℂ) (V : Matrix n n ℂ) (h : IsSepMix ρ) :
    IsSepMix ((U ⊗ₖ V) * ρ * (U ⊗ₖ V)ᴴ) :=
  h.localConj U V

/-- For unitary `U`, `V` the local map is a bijection of the class: `ρ` is a mixture of product states
iff `(U ⊗ V) ρ (U ⊗ V)ᴴ` is.  Hence a correct separability verdict is invariant under local unitaries. -/
theorem sep_local_unitary_iff {m n : Type*} [Fintype m] [Fintype n] [DecidableEq m] [DecidableEq n]
    (ρ : Matrix (m × n) (m × n) ℂ) (U : Matrix m m ℂ) (V : Matrix n n ℂ)
    (hU : Uᴴ * U = 1) (hV : Vᴴ * V = 1) :
    IsSepMix ((U ⊗ₖ V) * ρ * (U ⊗ₖ V)ᴴ) ↔ IsSepMix ρ := by
  refine ⟨fun h => ?_, fun h => h.localConj U V⟩
  have h2 := h.localConj Uᴴ Vᴴ
  have e : (Uᴴ ⊗ₖ Vᴴ) * (U ⊗ₖ V) = 1 := by
    rw [← mul_kronecker_mul, hU, hV, one_kronecker_one]
  have e' : (U ⊗ₖ V)ᴴ * (Uᴴ ⊗ₖ Vᴴ)ᴴ = 1 := by
    rw [← conjTranspose_mul, e, conjTranspose_one]
  have : (Uᴴ ⊗ₖ Vᴴ) * ((U ⊗ₖ V) * ρ * (U ⊗ₖ V)ᴴ) * (Uᴴ ⊗ₖ Vᴴ)ᴴ = ρ := by
    calc (Uᴴ ⊗ₖ Vᴴ) * ((U ⊗ₖ V) * ρ * (U ⊗ₖ V)ᴴ) * (Uᴴ ⊗ₖ Vᴴ)ᴴ
        = ((Uᴴ ⊗ₖ Vᴴ) * (U ⊗ₖ V)) * ρ * ((U ⊗ₖ V)ᴴ * (Uᴴ ⊗ₖ Vᴴ)ᴴ) := by
          simp only [Matrix.mul_assoc]
      _ = ρ := by rw [e, e', Matrix.one_mul, Matrix.mul_one]
  rwa [this] at h2

/-- The executable local conjugation on the flat index is `(U ⊗ V) X (U ⊗ V)ᴴ`. -/
theorem localConj_exec_eq_spec {dA dB : Nat} (U : EMat dA dA) (V : EMat dB dB)
    (X : EMat (dA * dB) (dA * dB)) :
    unflat (localConj U V X).toM = (U.toM ⊗ₖ V.toM) * unflat X.toM * (U.toM ⊗ₖ V.toM)ᴴ :=
  unflat_localConj U V X

/-- Exchanging the parties maps mixtures of product states to mixtures of product states, in both
directions (`swapM` is an involution); the executable `swapAB` on flat indices computes `swapM`. -/
theorem sep_swap_closed {m n : Type*} (ρ : Matrix (m × n) (m × n) ℂ) :
    (IsSepMix (swapM ρ) ↔ IsSepMix ρ) ∧ swapM (swapM ρ) = ρ :=
  ⟨⟨fun h => (show swapM (swapM ρ) = ρ from rfl) ▸ h.swap, fun h => h.swap⟩, rfl⟩

/-- The executable exchange of parties on the flat index is `swapM`. -/
theorem swapAB_exec_eq_spec {dA dB : Nat} (X : EMat (dA * dB) (dA * dB)) :
    unflat (swapAB X).toM = swapM (unflat X.toM) :=
  unflat_swapAB X

/-! ## The Gurvits–Barnum ball -/

/-- **`in_separable_ball` is a rational inequality.**  For an exact `n × n` matrix `M` (`n ≥ 2`) and a
positive trace threshold `thr` (toqito: `n·ε`), the decider accepts iff `Re tr M ≥ thr` and the
normalised operator `ρ = M / tr M` lies in the Gurvits–Barnum ball
`‖ρ − 1/n‖_F² ≤ 1/(n(n−1))` around the maximally mixed state. -/
theorem ball_exact {n : Nat} (hn : 2 ≤ n) (thr : Rat) (hthr : 0 < thr) (M : EMat n n) :
    inSepBall thr M = true ↔
      (thr : ℝ) ≤ (Matrix.trace M.toM).re ∧
      frobSq (((1 / (Matrix.trace M.toM).re : ℝ) : ℂ) • M.toM
          - ((1 / (n : ℝ) : ℝ) : ℂ) • (1 : Matrix (Fin n) (Fin n) ℂ))
        ≤ 1 / ((n : ℝ) * ((n : ℝ) - 1)) := by
  unfold inSepBall
  rw [Bool.and_eq_true, decide_eq_true_eq, decide_eq_true_eq]
  have hthr' : (0 : ℝ) < (thr : ℝ) := by exact_mod_cast hthr
  have h1 : thr ≤ trRe M ↔ (thr : ℝ) ≤ (Matrix.trace M.toM).re := by
    rw [← trRe_cast]; exact_mod_cast Iff.rfl
  have h2 : ((n : Rat) - 1) * frob2 M ≤ trRe M * trRe M ↔
      ((n : ℝ) - 1) * frobSq M.toM ≤ (Matrix.trace M.toM).re * (Matrix.trace M.toM).re := by
    rw [← trRe_cast, ← frob2_cast]; exact_mod_cast Iff.rfl
  rw [h1, h2]
  constructor
  · rintro ⟨ha, hb⟩
    exact ⟨ha, (ball_alg M.toM (lt_of_lt_of_le hthr' ha) hn).mpr hb⟩
  · rintro ⟨ha, hb⟩
    exact ⟨ha, (ball_alg M.toM (lt_of_lt_of_le hthr' ha) hn).mp hb⟩

/-- **The line-by-line mirror of `in_separable_ball` computes the same verdict** as the rational
inequality, for every exact matrix and every positive threshold. -/
theorem inSepBallMirror_eq {n : Nat} (thr : Rat) (hthr : 0 < thr) (M : EMat n n) :
    inSepBallMirror thr M = inSepBall thr M := by
  unfold inSepBallMirror inSepBall
  by_cases ht : trRe M < thr
  · simp [ht, not_le.mpr ht]
  · have hle : thr ≤ trRe M := not_lt.mp ht
    simp only [ht, if_false, hle, decide_true, Bool.true_and]
    congr 1
    apply propext
    have hpos : (0 : ℝ) < (Matrix.trace M.toM).re := by
      rw [← trRe_cast]; exact_mod_cast lt_of_lt_of_le hthr hle
    have key := mirror_alg M.toM hpos
    simp only at key
    have e1 : (EMat.smul (1 / trRe M) M).toM
        = ((1 / (Matrix.trace M.toM).re : ℝ) : ℂ) • M.toM := by
      rw [EMat.toM_smul, ← trRe_cast]; push_cast; rfl
    have lhs : (frob2 (EMat.smul (1 / frob2 (EMat.smul (1 / trRe M) M)) (EMat.smul (1 / trRe M) M)
          - EMat.one) ≤ 1) ↔
        frobSq (((1 / frobSq (((1 / (Matrix.trace M.toM).re : ℝ) : ℂ) • M.toM) : ℝ) : ℂ)
            • (((1 / (Matrix.trace M.toM).re : ℝ) : ℂ) • M.toM)
          - ((1 : ℝ) : ℂ) • (1 : Matrix (Fin n) (Fin n) ℂ)) ≤ 1 := by
      rw [← e1, ← frob2_cast]
      have e2 : (EMat.smul (1 / frob2 (EMat.smul (1 / trRe M) M)) (EMat.smul (1 / trRe M) M)
          - EMat.one).toM
          = (((1 / ((frob2 (EMat.smul (1 / trRe M) M) : Rat) : ℝ) : ℝ)) : ℂ)
              • (EMat.smul (1 / trRe M) M).toM - ((1 : ℝ) : ℂ) • (1 : Matrix (Fin n) (Fin n) ℂ) := by
        rw [EMat.toM_sub, EMat.toM_smul, EMat.toM_one]; push_cast; simp
      rw [← e2, ← frob2_cast]
      exact_mod_cast Iff.rfl
    have rhs : (((n : Rat) - 1) * frob2 M ≤ trRe M * trRe M) ↔
        ((n : ℝ) - 1) * frobSq M.toM ≤ (Matrix.trace M.toM).re * (Matrix.trace M.toM).re := by
      rw [← trRe_cast, ← frob2_cast]; exact_mod_cast Iff.rfl
    rw [lhs, rhs]
    exact key

/-- **Eigenvalue form of the ball test.**  `in_separable_ball` applied to a vector of eigenvalues
`λ` (it builds `diag λ`) accepts iff `Σλ ≥ thr` and `(n − 1) Σλ² ≤ (Σλ)²`. -/
theorem ball_eig_exact (thr : Rat) (lam : List Rat) :
    inSepBallEig thr lam = true ↔
      (thr : ℝ) ≤ ∑ i : Fin lam.length, ((lam.getD i.val 0 : Rat) : ℝ) ∧
      ((lam.length : ℝ) - 1) * ∑ i : Fin lam.length, ((lam.getD i.val 0 : Rat) : ℝ) ^ 2
        ≤ (∑ i : Fin lam.length, ((lam.getD i.val 0 : Rat) : ℝ)) ^ 2 := by
  unfold inSepBallEig inSepBall
  rw [Bool.and_eq_true, decide_eq_true_eq, decide_eq_true_eq]
  set D : EMat lam.length lam.length :=
    EMat.ofFn fun i j => if i = j then QI.ofRat (lam.getD i.val 0) else 0 with hD
  have h1 : ((trRe D : Rat) : ℝ) = ∑ i : Fin lam.length, ((lam.getD i.val 0 : Rat) : ℝ) := by
    rw [trRe_cast]
    simp [Matrix.trace, hD]
  have h2 : ((frob2 D : Rat) : ℝ) = ∑ i : Fin lam.length, ((lam.getD i.val 0 : Rat) : ℝ) ^ 2 := by
    rw [frob2_cast]
    unfold frobSq
    refine Finset.sum_congr rfl fun i _ => ?_
    have : ∀ j, Complex.normSq (D.toM i j)
        = if i = j then ((lam.getD i.val 0 : Rat) : ℝ) ^ 2 else 0 := by
      intro j
      by_cases hij : i = j
      · simp [hD, hij, Complex.normSq_apply, pow_two]
      · simp [hD, hij]
    simp_rw [this]
    simp
  rw [← h1, ← h2]
  constructor
  · rintro ⟨ha, hb⟩
    refine ⟨by exact_mod_cast ha, ?_⟩
    have : (((lam.length : Rat) - 1) * frob2 D : Rat) ≤ trRe D * trRe D := hb
    have h := (Rat.cast_le (K := ℝ)).mpr this
    push_cast at h
    rw [pow_two]; exact h
  · rintro ⟨ha, hb⟩
    refine ⟨by exact_mod_cast ha, ?_⟩
    rw [pow_two] at hb
    have : ((((lam.length : Rat) - 1) * frob2 D : Rat) : ℝ) ≤ ((trRe D * trRe D : Rat) : ℝ) := by
      push_cast; exact hb
    exact (Rat.cast_le (K := ℝ)).mp this

/-! ## The hypotheses are satisfiable: concrete instances accepted by the executable checkers -/

section Examples

private def r4 (f : Fin 4 → Fin 4 → Rat) : EMat 4 4 := EMat.ofFn fun i j => ⟨f i j, 0⟩

/-- the two-qubit isotropic-like state `p |Φ⁺⟩⟨Φ⁺| + (1 − p) 1/4` with `p = 1/2` (entangled):
its partial transpose has the eigenvalue `(1 − 3p)/4 = −1/8` -/
private def rhoIso : EMat (2 * 2) (2 * 2) :=
  r4 fun i j =>
    (if i = j then 1/8 else 0) + (if (i.val = 0 ∨ i.val = 3) ∧ (j.val = 0 ∨ j.val = 3) then 1/4 else 0)

private def vSing : EMat (2 * 2) 1 := EMat.ofFn fun i _ => if i.val = 1 then ⟨1, 0⟩ else if i.val = 2 then ⟨-1, 0⟩ else 0

example : checkLamMinUpper (pt 2 rhoIso) vSing = some (-1/8) := by decide +kernel
example : checkLamMinLower (pt 2 rhoIso) (-1/8) (EMat.zero : EMat (2 * 2) 1) = some (-1/8) := by
  decide +kernel
example : pptVerdict 2 rhoIso (1/100000000) (-1/8) (EMat.zero : EMat (2 * 2) 1) vSing = some false := by
  decide +kernel
example : pptVerdict 1 rhoIso (1/4) (-1/8) (EMat.zero : EMat (2 * 2) 1) vSing = some true := by
  decide +kernel

/-- `diag(3,2,2,1)/8`: inside the ball (`3·18 ≤ 64`); `diag(5,1,1,1)/8`: outside (`3·28 > 64`) -/
example : inSepBall (n := 4) (1/1000000) (r4 fun i j => if i = j then (if i.val = 0 then 3/8 else if i.val = 3 then 1/8 else 1/4) else 0) = true := by
  decide +kernel
example : inSepBall (n := 4) (1/1000000) (r4 fun i j => if i = j then (if i.val = 0 then 5/8 else 1/8) else 0) = false := by
  decide +kernel
example : inSepBallMirror (n := 4) (1/1000000) (r4 fun i j => if i = j then (if i.val = 0 then 5/8 else 1/8) else 0) = false := by
  decide +kernel

end Examples

/-! ## Necessary criteria evaluated after the PPT test: no separable state is rejected by them

`IsContr W` says `1 − WᴴW ⪰ 0` (operator norm at most one, `W` rectangular).  The trace (nuclear) norm is used in
its dual form `‖M‖₁ = sup { Re tr(Wᴴ M) : IsContr W }`: "`‖M‖₁ ≤ c`" is stated as
"`Re tr(Wᴴ M) ≤ c` for every contraction `W`", and — matching what `numpy.linalg.norm(·, "nuc")` computes — as
"`Σ_i σ_i ≤ c` for every singular value decomposition `M = U diag(σ) Vᴴ`" (`UᴴU = 1`, `VᴴV = 1`).
`realignM X ((a,a'),(b,b')) = X ((a,b),(a',b'))`, `ptrB`/`ptrA` are the partial traces `ρ_A`/`ρ_B`,
`frobSq` is the squared Frobenius norm, `applyB Λ = id ⊗ Λ`, `applyA Λ = Λ ⊗ id`, `choiMap J` is the linear map
whose Choi matrix (toqito convention `J = Σ_ij E_ij ⊗ Φ(E_ij)`) is `J`. -/

/-- **Bridge for the realignment.**  (1) The line-by-line model of `toqito.channels.realignment` (C03,
`Toq.PartialOps.realignment`, called with `dim = [dA, dB]` as `is_separable` does) has the entry
`X[a·dB + b, a'·dB + b']` at row `a·dA + a'`, column `b·dB + b'`; (2) the executable `realignE` on exact matrices,
read on pair indices, is `realignM` of the pair-indexed operator. -/
theorem realign_exec_eq_spec {dA dB : Nat} :
    (∀ (X : Nat → Nat → ℂ) (a a' : Fin dA) (b b' : Fin dB),
      Toq.PartialOps.realignment X dA dB dA dB (a.val * dA + a'.val) (b.val * dB + b'.val)
        = X (a.val * dB + b.val) (a'.val * dB + b'.val)) ∧
    (∀ X : EMat (dA * dB) (dA * dB),
      (realignE X).toM.submatrix (pairEquiv dA dA) (pairEquiv dB dB) = realignM (unflat X.toM)) := by
  refine ⟨fun X a a' b b' => ?_, realignE_toM⟩
  have hA : 0 < dA := Nat.lt_of_le_of_lt (Nat.zero_le _) a.isLt
  have hB : 0 < dB := Nat.lt_of_le_of_lt (Nat.zero_le _) b.isLt
  rw [Toq.PartialOps.realignment_eq_spec X dA dB dA dB hA hB hA hB _ _
    (Toq.Sep.pair_lt a.isLt a'.isLt) (Toq.Sep.pair_lt b.isLt b'.isLt)]
  unfold Toq.Spec.realignSpec
  have e1 : (a.val * dA + a'.val) / dA = a.val := by
    rw [Nat.add_comm, Nat.add_mul_div_right _ _ hA, Nat.div_eq_of_lt a'.isLt, Nat.zero_add]
  have e2 : (a.val * dA + a'.val) % dA = a'.val := by
    rw [Nat.add_comm, Nat.add_mul_mod_self_right, Nat.mod_eq_of_lt a'.isLt]
  have e3 : (b.val * dB + b'.val) / dB = b.val := by
    rw [Nat.add_comm, Nat.add_mul_div_right _ _ hB, Nat.div_eq_of_lt b'.isLt, Nat.zero_add]
  have e4 : (b.val * dB + b'.val) % dB = b'.val := by
    rw [Nat.add_comm, Nat.add_mul_mod_self_right, Nat.mod_eq_of_lt b'.isLt]
  rw [e1, e2, e3, e4]

/-- **Realignment (CCNR) criterion** (Chen–Wu, Rudolph).  For every mixture of product states `ρ`
(any local index types, in particular all local dimensions; weights `≥ 0`, not necessarily normalised) and every
contraction `W`: `Re tr(Wᴴ R(ρ)) ≤ tr ρ`, i.e. `‖R(ρ)‖₁ ≤ tr ρ`.  Consequently a state with
`Re tr(Wᴴ R(ρ)) > tr ρ` for some contraction `W` is not a mixture of product states. -/
theorem realignment_criterion {m n : Type*} [Fintype m] [Fintype n] [DecidableEq n]
    (ρ : Matrix (m × n) (m × n) ℂ) (W : Matrix (m × m) (n × n) ℂ) (hW : IsContr W) :
    (IsSepMix ρ → (Wᴴ * realignM ρ).trace.re ≤ ρ.trace.re) ∧
    (ρ.trace.re < (Wᴴ * realignM ρ).trace.re → ¬ IsSepMix ρ) :=
  ⟨fun h => h.re_trace_realign_le hW, fun hlt h => absurd (h.re_trace_realign_le hW) (not_le.mpr hlt)⟩

/-- **The test `trace_norm(realignment(ρ)) > 1 + tol` cannot fire on a separable state.**  Whatever singular value
decomposition `R(ρ) = U diag(σ) Vᴴ` (`UᴴU = 1`, `VᴴV = 1`) of the realigned mixture of product states is taken,
the sum of the singular values is at most `tr ρ` (`= 1` after the normalisation done by `is_separable`). -/
theorem realignment_criterion_svd {m n r : Type*} [Fintype m] [Fintype n] [Fintype r] [DecidableEq n]
    [DecidableEq r] (ρ : Matrix (m × n) (m × n) ℂ) (h : IsSepMix ρ) (U : Matrix (m × m) r ℂ)
    (V : Matrix (n × n) r ℂ) (σ : r → ℝ) (hU : Uᴴ * U = 1) (hV : Vᴴ * V = 1)
    (hsvd : realignM ρ = U * diagonal (fun i => (σ i : ℂ)) * Vᴴ) : ∑ i, σ i ≤ ρ.trace.re := by
  have h1 := h.re_trace_realign_le (isContr_mul_conjTranspose U V hU hV)
  rwa [hsvd, trace_polar_mul_svd U V σ hU hV, Complex.ofReal_re] at h1

/-- **Zhang–Zhang–Zhang–Guo bound** ("beyond realignment", the second test of the cascade).  For every mixture
of product states `ρ` with `tr ρ = 1`, marginals `ρ_A = tr_B ρ`, `ρ_B = tr_A ρ`: both `1 − tr ρ_A²` and
`1 − tr ρ_B²` are non-negative (so the `max(0, ·)` in the code is inactive), and for every contraction `W`
`Re tr(Wᴴ R(ρ − ρ_A ⊗ ρ_B)) ≤ √((1 − tr ρ_A²)(1 − tr ρ_B²))`, i.e.
`‖R(ρ − ρ_A ⊗ ρ_B)‖₁ ≤ √((1 − tr ρ_A²)(1 − tr ρ_B²))`; the purities are in the form the code computes,
`Re tr(ρ_A ρ_A)`. -/
theorem zhang_criterion {m n : Type*} [Fintype m] [Fintype n] [DecidableEq n]
    (ρ : Matrix (m × n) (m × n) ℂ) (h : IsSepMix ρ) (ht : ρ.trace = 1) :
    0 ≤ 1 - (ptrB ρ * ptrB ρ).trace.re ∧ 0 ≤ 1 - (ptrA ρ * ptrA ρ).trace.re ∧
    ∀ W : Matrix (m × m) (n × n) ℂ, IsContr W →
      (Wᴴ * realignM (ρ - ptrB ρ ⊗ₖ ptrA ρ)).trace.re
        ≤ √((1 - (ptrB ρ * ptrB ρ).trace.re) * (1 - (ptrA ρ * ptrA ρ).trace.re)) := by
  have hH := h.posSemidef.1
  rw [re_trace_mul_self_of_isHermitian (ptrB_isHermitian hH),
    re_trace_mul_self_of_isHermitian (ptrA_isHermitian hH)]
  have h0 := h.zhang ht (W := 0) IsContr.zero
  exact ⟨h0.1, h0.2.1, fun W hW => (h.zhang ht hW).2.2⟩

/-- **The test `trace_norm(realignment(ρ − ρ_A ⊗ ρ_B)) > tol + sqrt(…)` cannot fire on a separable state**: for
every singular value decomposition of `R(ρ − ρ_A ⊗ ρ_B)` the sum of the singular values is at most
`√((1 − tr ρ_A²)(1 − tr ρ_B²))`. -/
theorem zhang_criterion_svd {m n r : Type*} [Fintype m] [Fintype n] [Fintype r] [DecidableEq n]
    [DecidableEq r] (ρ : Matrix (m × n) (m × n) ℂ) (h : IsSepMix ρ) (ht : ρ.trace = 1)
    (U : Matrix (m × m) r ℂ) (V : Matrix (n × n) r ℂ) (σ : r → ℝ) (hU : Uᴴ * U = 1) (hV : Vᴴ * V = 1)
    (hsvd : realignM (ρ - ptrB ρ ⊗ₖ ptrA ρ) = U * diagonal (fun i => (σ i : ℂ)) * Vᴴ) :
    ∑ i, σ i ≤ √((1 - (ptrB ρ * ptrB ρ).trace.re) * (1 - (ptrA ρ * ptrA ρ).trace.re)) := by
  have h1 := (zhang_criterion ρ h ht).2.2 _ (isContr_mul_conjTranspose U V hU hV)
  rwa [hsvd, trace_polar_mul_svd U V σ hU hV, Complex.ofReal_re] at h1

/-- The same bound for mixtures `Σ_k p_k α_k ⊗ β_k` of products of arbitrary normalised local operators
(`tr α_k = tr β_k = 1`, `‖α_k‖_F, ‖β_k‖_F ≤ 1`: every density operator qualifies), with `p` a probability vector:
the marginals are `Σ_k p_k α_k`, `Σ_k p_k β_k` and
`‖R(ρ − ρ_A ⊗ ρ_B)‖₁ ≤ √((1 − ‖ρ_A‖_F²)(1 − ‖ρ_B‖_F²))`. -/
theorem zhang_products {m n K : Type*} [Fintype m] [Fintype n] [DecidableEq n] (s : Finset K) (p : K → ℝ)
    (α : K → Matrix m m ℂ) (β : K → Matrix n n ℂ) (hp : ∀ k ∈ s, 0 ≤ p k) (hsum : ∑ k ∈ s, p k = 1)
    (htα : ∀ k ∈ s, (α k).trace = 1) (htβ : ∀ k ∈ s, (β k).trace = 1)
    (hfα : ∀ k ∈ s, frobSq (α k) ≤ 1) (hfβ : ∀ k ∈ s, frobSq (β k) ≤ 1)
    (W : Matrix (m × m) (n × n) ℂ) (hW : IsContr W) :
    let ρ := ∑ k ∈ s, (p k : ℂ) • (α k ⊗ₖ β k)
    ptrB ρ = ∑ k ∈ s, (p k : ℂ) • α k ∧ ptrA ρ = ∑ k ∈ s, (p k : ℂ) • β k ∧
    0 ≤ 1 - frobSq (ptrB ρ) ∧ 0 ≤ 1 - frobSq (ptrA ρ) ∧
    (Wᴴ * realignM (ρ - ptrB ρ ⊗ₖ ptrA ρ)).trace.re
      ≤ √((1 - frobSq (ptrB ρ)) * (1 - frobSq (ptrA ρ))) :=
  zhang_general s p α β hp hsum htα htβ hfα hfβ hW _ rfl

/-- **Partial traces, executable = spec**: `ptrBE`/`ptrAE` on the flat index compute `ρ_A`/`ρ_B`, and the partial
traces preserve the trace. -/
theorem ptrace_exec_eq_spec {dA dB : Nat} (X : EMat (dA * dB) (dA * dB)) :
    (ptrBE X).toM = ptrB (unflat X.toM) ∧ (ptrAE X).toM = ptrA (unflat X.toM) ∧
    (ptrB (unflat X.toM)).trace = (unflat X.toM).trace ∧ (ptrA (unflat X.toM)).trace = (unflat X.toM).trace :=
  ⟨ptrBE_toM X, ptrAE_toM X, trace_ptrB _, trace_ptrA _⟩

/-- Every positive map (PSD operators to PSD operators) is positive on pure states: the hypothesis `IsPosOnPure` of the
positive-map criterion is the weakest form of positivity. -/
theorem positive_map_isPosOnPure {n k : Type*} [Finite n] (Λ : Matrix n n ℂ →ₗ[ℂ] Matrix k k ℂ)
    (hΛ : ∀ P : Matrix n n ℂ, P.PosSemidef → (Λ P).PosSemidef) : IsPosOnPure Λ :=
  fun b => hΛ _ (proj_posSemidef b)

/-- **Positive-map criterion** (Horodecki).  If the linear map `Λ` sends every `b bᴴ` to a positive semidefinite
operator (every positive map does), then `(id ⊗ Λ)(ρ) ⪰ 0` and, for `Λ` acting on the first party,
`(Λ ⊗ id)(ρ) ⪰ 0` for every mixture of product states `ρ`: a test
`not is_positive_semidefinite(partial_channel(ρ, J, sys, dim))` with the Choi matrix `J` of such a map cannot fire
on a separable state. -/
theorem positive_map_criterion {m n k : Type*} [Finite m] [Finite n] [Finite k]
    (ρ : Matrix (m × n) (m × n) ℂ) (h : IsSepMix ρ) :
    (∀ Λ : Matrix n n ℂ →ₗ[ℂ] Matrix k k ℂ, IsPosOnPure Λ → (applyB Λ ρ).PosSemidef) ∧
    (∀ Λ : Matrix m m ℂ →ₗ[ℂ] Matrix k k ℂ, IsPosOnPure Λ → (applyA Λ ρ).PosSemidef) :=
  ⟨fun _ hΛ => h.applyB_posSemidef hΛ, fun _ hΛ => h.applyA_posSemidef hΛ⟩

/-- **`partial_channel` with a Choi matrix, executable = spec**: on the flat indices, `choiApplyB J X` is
`(id ⊗ Φ_J)(X)` and `choiApplyA J X` is `(Φ_J ⊗ id)(X)`, where `Φ_J(Y) = Σ_kl Y_kl J[(k,·),(l,·)]` is the map with
Choi matrix `J`. -/
theorem partial_channel_exec_eq_spec {dA dB dO : Nat} (X : EMat (dA * dB) (dA * dB)) :
    (∀ J : EMat (dB * dO) (dB * dO),
      unflat (choiApplyB J X).toM = applyB (choiMap (unflat J.toM)) (unflat X.toM)) ∧
    (∀ J : EMat (dA * dO) (dA * dO),
      unflat (choiApplyA J X).toM = applyA (choiMap (unflat J.toM)) (unflat X.toM)) :=
  ⟨fun J => choiApplyB_toM J X, fun J => choiApplyA_toM J X⟩

/-- **Transposition is a positive map and `id ⊗ T` is the partial transpose**: Peres' criterion is the instance
`Λ = T` of the positive-map criterion. -/
theorem transposition_instance {m n : Type*} [Finite n] (X : Matrix (m × n) (m × n) ℂ) :
    IsPosOnPure (transposeL (n := n)) ∧ applyB transposeL X = ptBM X :=
  ⟨transposeL_pos, rfl⟩

/-- **Reduction criterion** (Horodecki, Cerf–Adami–Gingrich).  The reduction map `X ↦ tr(X)·1 − X` is positive on
pure states (Cauchy–Schwarz), `(id ⊗ R)(ρ) = ρ_A ⊗ 1 − ρ`, `(R ⊗ id)(ρ) = 1 ⊗ ρ_B − ρ`, and both are positive
semidefinite for every mixture of product states. -/
theorem reduction_criterion {m n : Type*} [Fintype m] [Fintype n] [DecidableEq m] [DecidableEq n]
    (ρ : Matrix (m × n) (m × n) ℂ) (h : IsSepMix ρ) :
    (ptrB ρ ⊗ₖ (1 : Matrix n n ℂ) - ρ).PosSemidef ∧ ((1 : Matrix m m ℂ) ⊗ₖ ptrA ρ - ρ).PosSemidef := by
  rw [← applyB_reductionL, ← applyA_reductionL]
  exact ⟨h.applyB_posSemidef reductionL_pos, h.applyA_posSemidef reductionL_pos⟩

/-- **Breuer–Hall criterion.**  For every antisymmetric (`Uᵀ = −U`) contraction `U` — in particular every
antisymmetric unitary, which exists in even dimension — the map `X ↦ tr(X)·1 − X − U Xᵀ Uᴴ` is positive on pure
states (`U b̄ ⟂ b`, `‖U b̄‖ ≤ ‖b‖`, Bessel), hence applying it to either party of a mixture of product states gives
a positive semidefinite operator. -/
theorem breuer_hall_criterion {m n : Type*} [Fintype m] [Fintype n] [DecidableEq m] [DecidableEq n]
    (ρ : Matrix (m × n) (m × n) ℂ) (h : IsSepMix ρ) :
    (∀ U : Matrix n n ℂ, Uᵀ = -U → IsContr U →
      IsPosOnPure (breuerHallL U) ∧ (applyB (breuerHallL U) ρ).PosSemidef) ∧
    (∀ U : Matrix m m ℂ, Uᵀ = -U → IsContr U →
      IsPosOnPure (breuerHallL U) ∧ (applyA (breuerHallL U) ρ).PosSemidef) :=
  ⟨fun _ ha hU => ⟨breuerHallL_pos ha hU, h.applyB_posSemidef (breuerHallL_pos ha hU)⟩,
   fun _ ha hU => ⟨breuerHallL_pos ha hU, h.applyA_posSemidef (breuerHallL_pos ha hU)⟩⟩

/-- **The qutrit maps of the cascade.**  The Choi matrix `diag(a+1, c, b, b, a+1, c, c, b, a+1) − |Ω⟩⟨Ω|` that
`is_separable` hands to `partial_channel` is the Choi matrix of the generalised Choi map
`Φ[a,b,c](X) = diag(a x₀₀ + b x₁₁ + c x₂₂, a x₁₁ + b x₂₂ + c x₀₀, a x₂₂ + b x₀₀ + c x₁₁) − offdiag(X)`; if that map is
positive on pure states (Cho–Kye–Lee: `a + b + c ≥ 2` and `bc ≥ (1 − a)²` for `0 ≤ a ≤ 1`, which the parameters
`a = (1−t)²/(1−t+t²)`, `b = t²/(1−t+t²)`, `c = 1/(1−t+t²)` of the code satisfy with equality — cited, a hypothesis
here), the test built from it accepts every mixture of product states on `3 ⊗ 3`. -/
theorem ha_maps_branch (a b c : ℝ) (ρ : Matrix (Fin 3 × Fin 3) (Fin 3 × Fin 3) ℂ) (h : IsSepMix ρ) :
    (∀ (X : Matrix (Fin 3) (Fin 3) ℂ) (k l : Fin 3), choiMap (haChoi a b c) X k l
      = (if k = l then (a : ℂ) * X k k + b * X (k + 1) (k + 1) + c * X (k + 2) (k + 2) else 0)
        - (if k = l then 0 else X k l)) ∧
    (IsPosOnPure (choiMap (haChoi a b c)) → (applyB (choiMap (haChoi a b c)) ρ).PosSemidef) :=
  ⟨choiMap_haChoi a b c, fun hΛ => h.applyB_posSemidef hΛ⟩

/-- **The trace norm of the statements above is the one numpy computes.**  `nucNorm M = sup { Re tr(Wᴴ M) : 1 − WᴴW ⪰ 0 }`
equals `Σ_i σ_i` for EVERY singular value decomposition `M = U diag(σ) Vᴴ` (`UᴴU = 1`, `VᴴV = 1`, `σ ≥ 0`), and a bound
`Re tr(Wᴴ M) ≤ c` for all contractions is a bound `nucNorm M ≤ c`. -/
theorem nucNorm_spec {ι κ r : Type*} [Fintype ι] [Fintype κ] [Fintype r] [DecidableEq κ] [DecidableEq r]
    (U : Matrix ι r ℂ) (V : Matrix κ r ℂ) (σ : r → ℝ) (hU : Uᴴ * U = 1) (hV : Vᴴ * V = 1)
    (hσ : ∀ i, 0 ≤ σ i) :
    nucNorm (U * diagonal (fun i => (σ i : ℂ)) * Vᴴ) = ∑ i, σ i ∧
    ∀ (M : Matrix ι κ ℂ) (c : ℝ), (∀ W : Matrix ι κ ℂ, IsContr W → (Wᴴ * M).trace.re ≤ c) → nucNorm M ≤ c :=
  ⟨nucNorm_eq_sum_of_svd U V σ hU hV hσ, fun _ _ h => nucNorm_le h⟩

/-- **Realignment and Zhang criteria in norm form**: `‖R(ρ)‖₁ ≤ tr ρ` for every mixture of product states, and
`‖R(ρ − ρ_A ⊗ ρ_B)‖₁ ≤ √((1 − tr ρ_A²)(1 − tr ρ_B²))` when `tr ρ = 1`. -/
theorem realignment_zhang_norm {m n : Type*} [Fintype m] [Fintype n] [DecidableEq n]
    (ρ : Matrix (m × n) (m × n) ℂ) (h : IsSepMix ρ) :
    nucNorm (realignM ρ) ≤ ρ.trace.re ∧
    (ρ.trace = 1 → nucNorm (realignM (ρ - ptrB ρ ⊗ₖ ptrA ρ))
      ≤ √((1 - (ptrB ρ * ptrB ρ).trace.re) * (1 - (ptrA ρ * ptrA ρ).trace.re))) :=
  ⟨nucNorm_le fun _ hW => h.re_trace_realign_le hW,
   fun ht => nucNorm_le fun W hW => (zhang_criterion ρ h ht).2.2 W hW⟩

/-! ### The new hypotheses are satisfiable; the criteria are not vacuous -/

section Examples2

/-- the two-qubit Bell state `|Φ⁺⟩⟨Φ⁺|` on pair indices -/
private noncomputable def bell : Matrix (Fin 2 × Fin 2) (Fin 2 × Fin 2) ℂ :=
  fun i j => if i.1 = i.2 ∧ j.1 = j.2 then 1 / 2 else 0

/-- the identity is a contraction; pairing `R(|Φ⁺⟩⟨Φ⁺|) = 1/2` with it gives `2 > 1 = tr`: the realignment
criterion detects the Bell state -/
example : ¬ IsSepMix bell := by
  have hW : IsContr (1 : Matrix (Fin 2 × Fin 2) (Fin 2 × Fin 2) ℂ) := by
    unfold IsContr; simpa using PosSemidef.zero
  refine (realignment_criterion bell 1 hW).2 ?_
  simp [bell, realignM, Matrix.trace, Fintype.sum_prod_type]
  norm_num

/-- an antisymmetric unitary in dimension two -/
example : (!![0, 1; -1, 0] : Matrix (Fin 2) (Fin 2) ℂ)ᵀ = -!![0, 1; -1, 0] ∧
    IsContr (!![0, 1; -1, 0] : Matrix (Fin 2) (Fin 2) ℂ) := by
  refine ⟨by ext i j; fin_cases i <;> fin_cases j <;> simp, ?_⟩
  unfold IsContr
  have : (1 : Matrix (Fin 2) (Fin 2) ℂ) - (!![0, 1; -1, 0] : Matrix (Fin 2) (Fin 2) ℂ)ᴴ * !![0, 1; -1, 0] = 0 := by
    ext i j; fin_cases i <;> fin_cases j <;> simp [Matrix.mul_apply, Fin.sum_univ_two]
  rw [this]; exact PosSemidef.zero

/-- the hypotheses of `zhang_criterion` are satisfiable: the equal mixture of `|00⟩⟨00|` and `|11⟩⟨11|` is a mixture of
product states of trace one -/
example : ∃ ρ : Matrix (Fin 2 × Fin 2) (Fin 2 × Fin 2) ℂ, IsSepMix ρ ∧ ρ.trace = 1 := by
  refine ⟨_, ⟨2, fun _ => 1 / 2, fun k => Pi.single k 1, fun k => Pi.single k 1, fun _ => by norm_num, rfl⟩, ?_⟩
  simp [proj, Matrix.trace, vecMulVec_apply, Fin.sum_univ_two, Fintype.sum_prod_type, Pi.single_apply]
  norm_num

private def x23 : EMat (2 * 3) (2 * 3) := EMat.ofFn fun i j => ⟨(10 * i.val + j.val : Nat), 0⟩

/-- the executable realignment of the `6 × 6` matrix with entry `10 i + j` (dims `2 ⊗ 3`): a `4 × 9` matrix whose
row `a·2 + a'` lists the `3 × 3` block `(a, a')` in row-major order -/
example : (List.finRange 4).map (fun i => (List.finRange 9).map fun j => ((realignE x23).get i j).re)
    = [[0, 1, 2, 10, 11, 12, 20, 21, 22], [3, 4, 5, 13, 14, 15, 23, 24, 25],
       [30, 31, 32, 40, 41, 42, 50, 51, 52], [33, 34, 35, 43, 44, 45, 53, 54, 55]] := by decide +kernel

example : (List.finRange 2).map (fun i => (List.finRange 2).map fun j => ((ptrBE x23).get i j).re)
    = [[0 + 11 + 22, 3 + 14 + 25], [30 + 41 + 52, 33 + 44 + 55]] := by decide +kernel

end Examples2

/-! ## Decision logic: what the functions do with the evaluated quantities (`Toq/Model/SepCascade.lean`) -/

open Toq.PartialOps in
/-- **Which operator `is_ppt` tests, for every form of `dim`.**  For local dimensions `dA, dB ≥ 1`, `sys ∈ {1, 2}` and an
`N × N` input with `N = dA·dB`, the call `partial_transpose(mat, [sys − 1], dim)` made by `is_ppt` is accepted for
`dim = [dA, dB]`, returns an `N × N` array `Y`, and `Y[a·dB + b, a'·dB + b'] = mat[a·dB + b', a'·dB + b]` for `sys = 2`
(second party transposed), `= mat[a'·dB + b, a·dB + b']` for `sys = 1` (first party) — the entries of `pt sys`
(`pt_exec_eq_spec`).  The forms `[[dA, dB], [dA, dB]]`, the scalar `dA`, `[dA]`, and the omitted `dim` when `dA = dB`
(`is_ppt` substitutes `[[s, s], [s, s]]`, `s = round √N`) denote the same call. -/
theorem is_ppt_operand_forms {α : Type} (X : Nat → Nat → α) (dA dB : Nat) (hA : 0 < dA) (hB : 0 < dB) (sys : Nat)
    (hs : sys = 1 ∨ sys = 2) :
    (∃ Y, isPptOperand X (dA * dB) (sys : Int) (.list [dA, dB]) = .ok (dA * dB, dA * dB, Y) ∧
      ∀ a b a' b', a < dA → b < dB → a' < dA → b' < dB →
        Y (a * dB + b) (a' * dB + b')
          = if sys = 1 then X (a' * dB + b) (a * dB + b') else X (a * dB + b') (a' * dB + b)) ∧
    isPptOperand X (dA * dB) (sys : Int) (.two [dA, dB] [dA, dB]) = isPptOperand X (dA * dB) (sys : Int) (.list [dA, dB]) ∧
    isPptOperand X (dA * dB) (sys : Int) (.scalar dA) = isPptOperand X (dA * dB) (sys : Int) (.list [dA, dB]) ∧
    isPptOperand X (dA * dB) (sys : Int) (.list [dA]) = isPptOperand X (dA * dB) (sys : Int) (.list [dA, dB]) ∧
    (dA = dB → isPptOperand X (dA * dB) (sys : Int) .omitted = isPptOperand X (dA * dB) (sys : Int) (.list [dA, dB])) := by
  obtain ⟨Y, h1, h2⟩ := isPptOperand_list X dA dB hA hB sys hs
  obtain ⟨f1, f2, f3, f4⟩ := isPptOperand_forms X dA dB hA hB (sys : Int)
  exact ⟨⟨Y, h1, fun a b a' b' ha hb ha' hb' => by rw [h2 a b a' b' ha hb ha' hb']; rfl⟩, f1, f2, f3, f4⟩

/-- **The decision of `is_ppt`, and `is_npt` is its negation.**  With `herm` the outcome of the Hermiticity test of the
partial transpose and `lamMin` its smallest eigenvalue: for a tolerance `tol ≥ 0` (or the default `√ε = 2⁻²⁶` when `tol`
is omitted) `is_ppt` answers `True` iff the partial transpose is Hermitian and `lamMin ≥ −tol`; `is_npt` answers the
opposite in every case. -/
theorem is_ppt_decision (herm : Bool) (lamMin : Rat) (tol : Option Rat) (ht : ∀ t, tol = some t → 0 ≤ t) :
    (isPptDecide herm lamMin tol = true ↔ herm = true ∧ -(pptTol tol) ≤ lamMin) ∧
    isNptDecide herm lamMin tol = !isPptDecide herm lamMin tol ∧
    pptTol none = 1 / 2 ^ 26 := by
  have hpos : ¬ pptTol tol < 0 := by
    cases tol with
    | none => simp [pptTol, sqrtEps]
    | some t => simpa [pptTol] using ht t rfl
  refine ⟨?_, rfl, by norm_num [pptTol, sqrtEps]⟩
  unfold isPptDecide
  rw [if_neg hpos, Bool.and_eq_true, decide_eq_true_eq]

/-- **The `dim` block of `is_separable` and `has_symmetric_extension`.**  A list `[a, b]` is taken as it is; an integer
`d ≥ 1` that divides the side `N` means `[d, N/d]` and one that does not is rejected (`ValueError`); an omitted `dim`
means `d = round √N`, so `N = d²` gives `[d, d]` (and `N = 6` gives `[2, 3]`, `N = 8` is rejected). -/
theorem sep_dim_forms (N a b d : Nat) :
    sepDecodeDim N (.pair a b) = .ok (a, b) ∧
    (0 < d → d ∣ N → sepDecodeDim N (.scalar d) = .ok (d, N / d)) ∧
    (0 < d → ¬ d ∣ N → sepDecodeDim N (.scalar d) = .error .InvalidDim) ∧
    (0 < d → sepDecodeDim (d * d) .omitted = .ok (d, d)) ∧
    sepDecodeDim 6 .omitted = .ok (2, 3) ∧ sepDecodeDim 8 .omitted = .error .InvalidDim := by
  refine ⟨rfl, fun hd hdiv => ?_, fun hd hdiv => ?_, fun hd => ?_, by decide, by decide⟩
  · simp [sepDecodeDim, scalarDim, Nat.ne_of_gt hd, Nat.mod_eq_zero_of_dvd hdiv]
  · have : N % d ≠ 0 := fun h => hdiv (Nat.dvd_of_mod_eq_zero h)
    simp [sepDecodeDim, scalarDim, Nat.ne_of_gt hd, this]
  · simp [sepDecodeDim, scalarDim, Toq.C02.roundSqrt_square, Nat.ne_of_gt hd, Nat.mul_div_cancel _ hd]

/-- **On two-qubit and qubit–qutrit states `is_separable` agrees with the PPT test.**  For local dimensions `≥ 2` with
`dA·dB ≤ 6` the cascade returns the outcome of `is_ppt(state, 2, dim, tol)` — `False` at the PPT statement, `True` at the
small-dimension statement — whatever all the later quantities are. -/
theorem cascade_small_dims_is_ppt (dA dB : Nat) (hA : 2 ≤ dA) (hB : 2 ≤ dB) (h6 : dA * dB ≤ 6) (tol : Rat) (q : Quant) :
    sepCascade dA dB tol q = .verdict (if q.ppt = true then .pptSufficient else .pptReject) q.ppt := by
  have hmin : min dA dB ≠ 1 := by omega
  unfold sepCascade stages
  cases hp : q.ppt <;> simp [firstSome, stDim1, stPpt, stSmall, hmin, hp, h6]

/-- **A state that fails the PPT test is never declared separable**: for local dimensions `≥ 2` and a negative outcome
of `is_ppt` the cascade answers `False` at the PPT statement, whatever the other quantities are. -/
theorem cascade_npt_rejected (dA dB : Nat) (hA : 2 ≤ dA) (hB : 2 ≤ dB) (tol : Rat) (q : Quant) (h : q.ppt = false) :
    sepCascade dA dB tol q = .verdict .pptReject false := by
  have hmin : min dA dB ≠ 1 := by omega
  unfold sepCascade stages
  simp [firstSome, stDim1, stPpt, hmin, h]

/-- **Only necessary criteria answer "entangled".**  If the cascade returns `False` at statement `b`, then `b` is the PPT
test (and `is_ppt` was negative), the realignment test (and `‖R(ρ)‖₁ > 1 + tol`), the Zhang test (and its inequality
fires), the rank-4 determinant test on `3 ⊗ 3` (and `|F| ≥ max(tol², ε^{3/4})`), or one of the qutrit maps on `3 ⊗ 3`
(and some `(id ⊗ Φ)(ρ)` was found not PSD).  No sufficient-criterion statement can produce `False`. -/
theorem cascade_false_only_by_necessary_criteria (dA dB : Nat) (tol : Rat) (q : Quant) (b : Branch)
    (h : sepCascade dA dB tol q = .verdict b false) :
    (b = .pptReject ∧ q.ppt = false) ∨
    (b = .realignment ∧ 1 + tol < q.realignNorm) ∨
    (b = .zhang ∧ gtAddSqrt q.zhangNorm tol (zhangRadicand q) = true) ∨
    (b = .rank4 ∧ q.rank = 4 ∧ dA = 3 ∧ dB = 3 ∧ max (tol * tol) eps34 ≤ q.absF) ∨
    (b = .haMaps ∧ dA = 3 ∧ dB = 3 ∧ ∃ x ∈ q.haPsd, x = false) := by
  unfold sepCascade at h
  cases hf : firstSome (stages dA dB tol q) with
  | none => rw [hf] at h; cases h
  | some r =>
    obtain ⟨b', v⟩ := r
    rw [hf] at h
    simp only [Out.verdict.injEq] at h
    obtain ⟨rfl, rfl⟩ := h
    have hm := firstSome_mem hf
    rcases stage_false hm with h1 | h2 | h3 | h4 | h5 | h6
    · exact Or.inl h1
    · -- the small-dimension statement returns `is_ppt_state`, which is `True` there: the PPT statement comes first
      exfalso
      obtain ⟨rfl, hp⟩ := h2
      unfold stages at hf
      by_cases hd : min dA dB = 1
      · simp [firstSome, stDim1, hd] at hf
      · simp [firstSome, stDim1, stPpt, hd, hp] at hf
    · exact Or.inr (Or.inl h3)
    · exact Or.inr (Or.inr (Or.inl h4))
    · exact Or.inr (Or.inr (Or.inr (Or.inl h5)))
    · exact Or.inr (Or.inr (Or.inr (Or.inr h6)))

/-- **No mixture of product states is declared entangled by the early statements.**  Let `ρ` be a mixture of product
states of trace one (any local index types), and let the quantities handed to the cascade be the exact ones:
`realignNorm = ‖R(ρ)‖₁`, `zhangNorm = ‖R(ρ − ρ_A ⊗ ρ_B)‖₁`, `purA = tr ρ_A²`, `purB = tr ρ_B²`, a positive PPT outcome
(Peres: `peres`), PSD outcomes for the qutrit maps (`positive_map_criterion`; their positivity is cited), and the rank-4
determinant test not applicable.  Then for every tolerance `tol ≥ 0` the cascade does not answer `False`: it answers
`True` at one of its statements or falls through to the late stage (the known finding). -/
theorem separable_never_rejected_early {m n : Type*} [Fintype m] [Fintype n] [DecidableEq n]
    (ρ : Matrix (m × n) (m × n) ℂ) (hsep : IsSepMix ρ) (htr : ρ.trace = 1) (dA dB : Nat) (tol : Rat) (htol : 0 ≤ tol)
    (q : Quant) (hppt : q.ppt = true)
    (hR : (q.realignNorm : ℝ) = nucNorm (realignM ρ))
    (hZ : (q.zhangNorm : ℝ) = nucNorm (realignM (ρ - ptrB ρ ⊗ₖ ptrA ρ)))
    (hpA : (q.purA : ℝ) = (ptrB ρ * ptrB ρ).trace.re) (hpB : (q.purB : ℝ) = (ptrA ρ * ptrA ρ).trace.re)
    (hrank : ¬ (q.rank = 4 ∧ dA = 3 ∧ dB = 3)) (hha : ∀ x ∈ q.haPsd, x = true) (b : Branch) :
    sepCascade dA dB tol q ≠ .verdict b false := by
  intro h
  have htol' : (0 : ℝ) ≤ (tol : ℝ) := by exact_mod_cast htol
  obtain ⟨hn1, hn2⟩ := realignment_zhang_norm ρ hsep
  obtain ⟨hz1, hz2, _⟩ := zhang_criterion ρ hsep htr
  rcases cascade_false_only_by_necessary_criteria dA dB tol q b h with h1 | h1 | h1 | h1 | h1
  · rw [hppt] at h1; exact absurd h1.2 (by simp)
  · have : ((1 + tol : Rat) : ℝ) < (q.realignNorm : ℝ) := by exact_mod_cast h1.2
    rw [hR] at this
    have h2 : ρ.trace.re = 1 := by rw [htr]; rfl
    push_cast at this
    linarith
  · have hr0 : 0 ≤ zhangRadicand q := mul_nonneg (le_max_left _ _) (le_max_left _ _)
    have hlt := (gtAddSqrt_iff _ _ _ hr0).mp h1.2
    have e : ((zhangRadicand q : Rat) : ℝ)
        = (1 - (ptrB ρ * ptrB ρ).trace.re) * (1 - (ptrA ρ * ptrA ρ).trace.re) := by
      unfold zhangRadicand
      push_cast
      rw [hpA, hpB, max_eq_right hz1, max_eq_right hz2]
    rw [e, hZ] at hlt
    have := hn2 htr
    linarith
  · exact hrank ⟨h1.2.1, h1.2.2.1, h1.2.2.2.1⟩
  · obtain ⟨_, _, _, x, hx, hx2⟩ := h1
    rw [hha x hx] at hx2; exact absurd hx2 (by simp)

/-- **The spectrum test uses the eigenvalues of Johnston's theorem.**  With `λ_k` the `k`-th largest eigenvalue
(`λ_k = lam[k − 1]`), `n = max_dim ≥ 2` and either party the qubit, the statement
`(lam[0] − lam[2n−2])² ≤ 4·lam[2n−3]·lam[2n−1] + tol²` fires iff `(λ₁ − λ_{2n−1})² ≤ 4 λ_{2n−2} λ_{2n} + tol²`; for
`tol = 0` and a sorted non-negative spectrum this is Johnston's condition `λ₁ − λ_{2n−1} ≤ 2 √(λ_{2n−2} λ_{2n})`. -/
theorem johnston_spectrum_indices (dA dB n : Nat) (hn : 2 ≤ n) (hd : (dA = 2 ∧ dB = n) ∨ (dA = n ∧ dB = 2)) (tol : Rat)
    (q : Quant) :
    (stSpectrum dA dB tol q = some (.spectrum2n, true) ↔
      (ev1 q 1 - ev1 q (2 * n - 1)) ^ 2 ≤ 4 * ev1 q (2 * n - 2) * ev1 q (2 * n) + (tol : ℝ) ^ 2) ∧
    (ev1 q (2 * n - 1) ≤ ev1 q 1 → 0 ≤ ev1 q (2 * n - 2) → 0 ≤ ev1 q (2 * n) →
      (stSpectrum dA dB 0 q = some (.spectrum2n, true) ↔
        ev1 q 1 - ev1 q (2 * n - 1) ≤ 2 * √(ev1 q (2 * n - 2) * ev1 q (2 * n)))) := by
  refine ⟨stSpectrum_iff dA dB n hn hd tol q, fun h1 h2 h3 => ?_⟩
  rw [stSpectrum_iff dA dB n hn hd 0 q, ← sq_le_four_mul_iff _ _ _ _ h1 h2 h3]
  simp

/-- **The rank-one-perturbation test compares the second largest with the smallest eigenvalue**:
`lam[1] − lam[prod_dim − 1] < tol²` is `λ₂ − λ_D < tol²`, `D = dA·dB`. -/
theorem rank_one_perturbation_indices (dA dB : Nat) (tol : Rat) (q : Quant) :
    stRank1 dA dB tol q = some (.rank1, true) ↔ ev1 q 2 - ev1 q (dA * dB) < (tol : ℝ) ^ 2 := by
  unfold stRank1 ev1
  constructor
  · intro h
    split at h
    · next hc =>
      have := (Rat.cast_lt (K := ℝ)).mpr hc
      push_cast at this
      rw [pow_two]; exact this
    · simp at h
  · intro h
    have hc : lamAt q 1 - lamAt q (dA * dB - 1) < tol * tol := by
      rw [pow_two] at h
      have : ((lamAt q 1 - lamAt q (dA * dB - 1) : Rat) : ℝ) < ((tol * tol : Rat) : ℝ) := by
        push_cast; exact h
      exact (Rat.cast_lt (K := ℝ)).mp this
    rw [if_pos hc]

/-- **The square-root-free form of the Zhang test is the test of the code**: for a radicand `r ≥ 0`
(`max(0, ·)·max(0, ·)` always is), `x > tol + √r` iff `x − tol > 0` and `(x − tol)² > r`. -/
theorem zhang_test_arithmetic (tol : Rat) (q : Quant) :
    0 ≤ zhangRadicand q ∧
    (stZhang tol q = some (.zhang, false) ↔ (tol : ℝ) + √((zhangRadicand q : Rat) : ℝ) < (q.zhangNorm : ℝ)) := by
  have hr0 : 0 ≤ zhangRadicand q := mul_nonneg (le_max_left _ _) (le_max_left _ _)
  refine ⟨hr0, ?_⟩
  rw [← gtAddSqrt_iff _ _ _ hr0]
  unfold stZhang
  constructor
  · intro h
    split at h
    · next hc => exact hc
    · simp at h
  · intro h; rw [if_pos h]

/-- **The blocks of the `2 ⊗ n` tests belong to the qubit, whichever party it is.**  With the qubit first,
`A = state[:n, :n]`, `B = state[:n, n:2n]`, `C = state[n:2n, n:2n]` are the blocks `⟨i|_qubit ρ |j⟩_qubit` for
`(i, j) = (0,0), (0,1), (1,1)`; with the qubit second the code first exchanges the parties (`swap(state, [1, 2], dim)`
when `dim[0] > 2`) and the same slices are again the blocks of the qubit. -/
theorem qubit_blocks_spec {n : Nat} (i j : Fin 2) :
    (∀ Y : EMat (2 * n) (2 * n), (blk Y i j).toM = blockB (unflat Y.toM) i j) ∧
    (∀ X : EMat (n * 2) (n * 2), (blk (qubitFirst X) i j).toM = blockA (unflat X.toM) i j) :=
  ⟨fun Y => blk_toM Y i j, fun X => blk_qubitFirst_toM X i j⟩

/-- **The block matrix of the homothetic-image test is `ρ − (1/6)·(1 ⊗ ρ_B)`**: for a Hermitian `ρ` on `ℂ² ⊗ ℂⁿ`,
`[[5/6·A − C/6, B], [Bᴴ, 5/6·C − A/6]] = ρ − (1/6)(1₂ ⊗ tr_A ρ)` — Hildebrand's homothety of the cone with centre
`1 ⊗ ρ_B`. -/
theorem homothetic_image_spec {n : Nat} (Y : EMat (2 * n) (2 * n)) (hY : Y.toM.IsHermitian) :
    unflat (homothetic Y).toM
      = unflat Y.toM - ((1 / 6 : ℝ) : ℂ) • ((1 : Matrix (Fin 2) (Fin 2) ℂ) ⊗ₖ ptrA (unflat Y.toM)) :=
  homothetic_toM Y hY

/-- **The Lemma-1 test is at least as strict as Johnston's Lemma 1.**  The code compares the FROBENIUS norm `‖B‖_F²` with
`λ_min(A)·λ_min(C) + tol²`; the lemma needs the operator norm, and `‖B x‖² ≤ ‖B‖_F² ‖x‖²` for every vector `x`. -/
theorem lemma1_frobenius_dominates {ι κ : Type*} [Fintype ι] [Fintype κ] (B : Matrix ι κ ℂ) (x : κ → ℂ) :
    nsq (B *ᵥ x) ≤ frobSq B * nsq x :=
  nsq_mulVec_le_frobSq B x

/-- **The qutrit maps of the cascade lie on the boundary of the Cho–Kye–Lee positivity region.**  For every `t ≥ 0`,
`a = (1−t)²/(1−t+t²)`, `b = t²/(1−t+t²)`, `c = 1/(1−t+t²)` satisfy `0 ≤ a ≤ 1`, `a + b + c = 2`, `bc = (1 − a)²`; the loop
of the code builds the maps for the 19 values `t = 0, 10, 1/10, 5, 1/5, …, 10/9, 9/10`, all `≥ 0`. -/
theorem ha_parameters_in_region :
    (∀ t : ℝ, 0 ≤ t →
      let D := 1 - t + t ^ 2
      0 < D ∧ 0 ≤ (1 - t) ^ 2 / D ∧ (1 - t) ^ 2 / D ≤ 1 ∧ (1 - t) ^ 2 / D + t ^ 2 / D + 1 / D = 2 ∧
        t ^ 2 / D * (1 / D) = (1 - (1 - t) ^ 2 / D) ^ 2) ∧
    haTs.length = 19 ∧ (∀ t ∈ haTs, 0 ≤ t) ∧ haABC 0 = (1, 0, 1) ∧ haABC (1 / 2) = (1 / 3, 1 / 3, 4 / 3) := by
  refine ⟨fun t ht => ha_abc_region t ht, by decide, by decide +kernel, by decide +kernel, by decide +kernel⟩

/-- **`has_symmetric_extension` accepts every state that is PSD and PPT whenever it does not reach the SDP**: at
`level = 1`, or for `N ≤ 6` with the PPT option, the verdict is `is_ppt(rho) and is_positive_semidefinite(rho)` (with the
option) resp. `is_positive_semidefinite(rho)` (without); both hold for every mixture of product states (`peres`). -/
theorem symext_shortcuts_accept_separable (N dA dB level : Nat) (ppt : Bool) (tol : Rat) (q : SymQuant)
    (hpsd : q.psd = true) (hppt : q.ppt = true) (hbr : level = 1 ∨ (N ≤ 6 ∧ ppt = true)) :
    (symExtCascade N dA dB level ppt tol q).2 = true ∧
    (symExtCascade N dA dB level ppt tol q).1 = (if ppt = true then .pptShortcut else .level1NoPpt) := by
  unfold symExtCascade
  rw [if_pos hbr]
  cases ppt <;> simp [hpsd, hppt]

/-- **The two-qubit analytic test** `tr ρ_B² ≥ tr ρ² − 4√(max(det ρ, 0)) − tol` is decided exactly by its
square-root-free form, and it is reached exactly for `level = 2`, no PPT option, `dim = [2, 2]`. -/
theorem symext_analytic_arithmetic (N : Nat) (tol : Rat) (q : SymQuant) :
    symExtCascade N 2 2 2 false tol q = (.analytic2qubit, geSubSqrt q.purB q.purRho q.detRho tol) ∧
    (geSubSqrt q.purB q.purRho q.detRho tol = true ↔
      (q.purRho : ℝ) - 4 * √(max (q.detRho : ℝ) 0) - (tol : ℝ) ≤ (q.purB : ℝ)) :=
  ⟨by simp [symExtCascade], geSubSqrt_iff _ _ _ _⟩

/-- **The SDP statement of `has_symmetric_extension` answers `True` iff the hierarchy value is below `1 − tol`.**  (The
program it evaluates, `symmetric_extension_hierarchy([rho])`, is a state-discrimination program with a single state, whose
optimum is `tr ρ = 1`: hence the known finding `c15-symext-sdp-constant-false`.) -/
theorem symext_sdp_branch_constant (val tol : Rat) (htol : 0 ≤ tol) :
    (sdpVerdict val tol = true ↔ val < 1 - tol) ∧ (1 - tol ≤ val → sdpVerdict val tol = false) := by
  have key : sdpVerdict val tol = true ↔ val < 1 - tol := by
    unfold sdpVerdict
    simp only [Bool.not_eq_true', decide_eq_false_iff_not, not_le]
    by_cases hv : val ≤ 1
    · rw [min_eq_left hv]
      have : ¬ (1 - val < 0) := by linarith
      rw [if_neg this]
      constructor <;> intro h <;> linarith
    · have hv' : 1 < val := not_le.mp hv
      rw [min_eq_right hv'.le]
      simp only [sub_self, lt_self_iff_false, if_false]
      constructor
      · intro h; linarith
      · intro h; linarith
  refine ⟨key, fun h => ?_⟩
  cases hs : sdpVerdict val tol
  · rfl
  · exact absurd (key.mp hs) (not_lt.mpr h)

/-- **Every mixture of product states has a symmetric PPT extension of every order.**  For `ρ = Σ_i w_i (a_i a_iᴴ) ⊗ (b_i b_iᴴ)`
and every `k ≥ 0` there is an operator `σ` on the first party and `k + 1` copies of the second party (a basis vector of the
copies is a function `Fin (k+1) → n`) that (1) reduces to `ρ` when the copies `1 … k` are traced out, (2) is invariant under
every permutation of the copies applied on the left or on the right (it is supported on the symmetric subspace), (3) after
the partial transpose of ANY set `S` of copies is still a mixture of product states across the cut `A | copies`, hence (4)
positive semidefinite with positive semidefinite partial transposes with respect to `S` and to `A ∪ S`, for every `S`.
These are the constraints of a symmetric-extension search with or without the PPT option, so a correct
`has_symmetric_extension` accepts every separable state at every level. -/
theorem separable_has_symmetric_extensions {m n : Type*} [Finite m] [Fintype n] (k : Nat)
    (ρ : Matrix (m × n) (m × n) ℂ) (h : IsSepMix ρ) :
    ∃ σ : Matrix (m × (Fin (k + 1) → n)) (m × (Fin (k + 1) → n)) ℂ,
      reduce1 σ = ρ ∧ IsBoseSym σ ∧
      ∀ S : Finset (Fin (k + 1)), IsSepMix (ptCopies S σ) ∧ (ptCopies S σ).PosSemidef ∧
        (ptAM (ptCopies S σ)).PosSemidef ∧ ptCopies ∅ σ = σ := by
  obtain ⟨σ, h1, h2, h3⟩ := h.exists_symmetric_extension k
  exact ⟨σ, h1, h2, fun S => ⟨h3 S, (h3 S).posSemidef, (h3 S).ptAM_posSemidef, ptCopies_empty σ⟩⟩

/-- **The statement `if min_dim == 1: return True` is sound.**  When one party has dimension one, every positive
semidefinite operator is a mixture of product states (whichever party it is), and the cascade answers `True` there. -/
theorem dim1_statement_sound {m n : Type*} [Unique m] [Finite n] :
    (∀ ρ : Matrix (m × n) (m × n) ℂ, ρ.PosSemidef → IsSepMix ρ) ∧
    (∀ ρ : Matrix (n × m) (n × m) ℂ, ρ.PosSemidef → IsSepMix ρ) ∧
    (∀ (d : Nat) (tol : Rat) (q : Quant), sepCascade 1 d tol q = .verdict .dim1 true ∨ d = 0) := by
  refine ⟨fun ρ h => isSepMix_of_unique_left ρ h, fun ρ h => ?_, fun d tol q => ?_⟩
  · have h2 : (swapM ρ).PosSemidef := by
      have : swapM ρ = ρ.submatrix (Equiv.prodComm m n) (Equiv.prodComm m n) := rfl
      rw [this]; exact h.submatrix _
    have := (isSepMix_of_unique_left (swapM ρ) h2).swap
    exact this
  · rcases Nat.eq_zero_or_pos d with h0 | hpos
    · exact Or.inr h0
    · left
      have : min 1 d = 1 := by omega
      simp [sepCascade, stages, firstSome, stDim1, this]

/-- **The decision logic treats the two parties alike.**  Exchanging the local dimensions and the two marginal purities
(all other quantities of the cascade are the same numbers for `ρ` and for `ρ` with the parties exchanged) does not change
the statement that returns nor the verdict: a dependence of the verdict on the order of the parties can only come from the
quantities themselves (the qutrit maps and the Breuer–Hall maps act on one party). -/
theorem cascade_exchange_symmetric (dA dB : Nat) (tol : Rat) (q : Quant) :
    sepCascade dB dA tol { q with purA := q.purB, purB := q.purA } = sepCascade dA dB tol q := by
  have hz : zhangRadicand { q with purA := q.purB, purB := q.purA } = zhangRadicand q := by
    unfold zhangRadicand; exact mul_comm _ _
  have h1 : stDim1 dB dA = stDim1 dA dB := by unfold stDim1; rw [Nat.min_comm]
  have h3 : stSmall dB dA { q with purA := q.purB, purB := q.purA } = stSmall dA dB q := by
    unfold stSmall; rw [Nat.min_comm, Nat.mul_comm]
  have h5 : stZhang tol { q with purA := q.purB, purB := q.purA } = stZhang tol q := by
    unfold stZhang; rw [hz]
  have h6 : stSpectrum dB dA tol { q with purA := q.purB, purB := q.purA } = stSpectrum dA dB tol q := by
    unfold stSpectrum; rw [Nat.min_comm, Nat.max_comm]; rfl
  have h7 : stHankel dB dA { q with purA := q.purB, purB := q.purA } = stHankel dA dB q := by
    unfold stHankel; rw [Nat.min_comm]
  have h8 : stHomothetic dB dA { q with purA := q.purB, purB := q.purA } = stHomothetic dA dB q := by
    unfold stHomothetic; rw [Nat.min_comm]
  have h9 : stLemma1 dB dA tol { q with purA := q.purB, purB := q.purA } = stLemma1 dA dB tol q := by
    unfold stLemma1; rw [Nat.min_comm]
  have h10 : stRank4 dB dA tol { q with purA := q.purB, purB := q.purA } = stRank4 dA dB tol q := by
    unfold stRank4; rw [Nat.min_comm, Nat.max_comm]
  have h12 : stRank1 dB dA tol { q with purA := q.purB, purB := q.purA } = stRank1 dA dB tol q := by
    unfold stRank1; rw [Nat.mul_comm]; rfl
  have h14 : stHa dB dA { q with purA := q.purB, purB := q.purA } = stHa dA dB q := by
    unfold stHa
    by_cases hA : dA = 3 <;> by_cases hB : dB = 3 <;> simp [hA, hB]
  unfold sepCascade stages
  rw [h1, h3, h5, h6, h7, h8, h9, h10, h12, h14]
  rfl

/-- **The float constants of the code are the exact rationals of the model**: `√ε = 2⁻²⁶` (default tolerance of `is_ppt`) and
`ε^{3/4} = 2⁻³⁹` (floor of the rank-4 determinant test), for `ε = 2⁻⁵²`. -/
theorem float_constants :
    sqrtEps * sqrtEps = 1 / 2 ^ 52 ∧ eps34 * eps34 * eps34 * eps34 = (1 / 2 ^ 52) * (1 / 2 ^ 52) * (1 / 2 ^ 52) ∧
    0 < sqrtEps ∧ 0 < eps34 := by
  refine ⟨by norm_num [sqrtEps], by norm_num [eps34], by norm_num [sqrtEps], by norm_num [eps34]⟩

/-! ### Examples for the decision logic: the hypotheses are satisfiable, the branches are reachable -/

section Examples3

/-- quantities of a `2 ⊗ 4` state with the flat spectrum `1/8`: PPT, realignment and Zhang silent, spectrum test fires -/
private def qFlat : Quant :=
  { psd := true, rank := 8, ppt := true, realignNorm := 1 / 2, zhangNorm := 0, purA := 1 / 2, purB := 1 / 4,
    lam := List.replicate 8 (1 / 8), hankelRank := 0, homPsd := true, homPpt := true, normB2 := 0, minA := 1 / 8,
    minC := 1 / 8, absF := 0, ball := true, osr := 1, haPsd := [] }

example : sepCascade 2 4 (1 / 100000000) qFlat = .verdict .spectrum2n true := by decide +kernel
example : sepCascade 4 2 (1 / 100000000) qFlat = .verdict .spectrum2n true := by decide +kernel
/-- the same quantities with a spectrum `(1/2, 1/2, 0, …)`: spectrum, Hankel (rank 2), homothetic tests silent, Lemma 1 fires -/
example : sepCascade 2 4 (1 / 100000000)
    { qFlat with lam := [1 / 2, 1 / 2, 0, 0, 0, 0, 0, 0], hankelRank := 2, homPsd := false } = .verdict .lemma12n true := by
  decide +kernel
/-- on `3 ⊗ 3` with all early tests silent and one qutrit map not PSD: `False` at the Ha–Kye statement -/
example : sepCascade 3 3 (1 / 100000000)
    { qFlat with lam := [1 / 2, 1 / 2, 0, 0, 0, 0, 0, 0, 0], ball := false, osr := 3, haPsd := [true, false] }
      = .verdict .haMaps false := by decide +kernel
/-- nothing fires on `4 ⊗ 4`: the late stage -/
example : sepCascade 4 4 (1 / 100000000)
    { qFlat with lam := [1 / 2, 1 / 2] ++ List.replicate 14 0, ball := false, osr := 3 } = .late := by decide +kernel
example : isSeparableModel 8 (.scalar 2) (1 / 100000000) qFlat = .ok (.verdict .spectrum2n true) := by decide +kernel
example : isSeparableModel 8 .omitted (1 / 100000000) qFlat = .error .InvalidDim := by decide +kernel
example : isSeparableModel 8 (.scalar 2) (1 / 100000000) { qFlat with psd := false } = .error .NotPSD := by decide +kernel
example : hasSymExtModel 9 2 .omitted true (1 / 10000) ⟨true, true, 0, 0, 0, 1⟩ = .ok (.sdp, false) := by decide +kernel
example : hasSymExtModel 4 2 (.pair 2 2) false (1 / 10000) ⟨true, true, 1 / 2, 1 / 4, 1 / 256, 1⟩
    = .ok (.analytic2qubit, true) := by decide +kernel

end Examples3

end Toq.C15
