import Toq.Proofs.Sep
import Toq.Proofs.PartialTranspose
/-!
# C15 — PPT and separability verdicts are sound

Vocabulary (`Toq/Proofs/Sep.lean`): matrices on `ℂ^dA ⊗ ℂ^dB` are indexed by pairs `(a, b)`;
`ptBM`/`ptAM` are the partial transposes, `swapM` exchanges the parties, `IsSepMix ρ` says that `ρ` is a
finite mixture `Σ_k w_k (a_k a_kᴴ) ⊗ (b_k b_kᴴ)` with `w_k ≥ 0`.  The executable model
(`Toq/Model/Sep.lean`) works on exact matrices over `ℚ[i]` with the flat index `a * dB + b` that toqito
uses; `unflat` reads a flat matrix as a pair-indexed one and `EMat.toM` is the complex matrix denoted by
an exact matrix.  "`λ_min(A) ≥ c`" is expressed as `(A − c·1).PosSemidef`.

The second half of the file covers the NECESSARY criteria that `is_separable` evaluates after the PPT test and that
make it answer "entangled": realignment (`realignment_criterion`, `_svd`, `realignment_zhang_norm`), the bound of
Zhang et al. (`zhang_criterion`, `_svd`, `zhang_products`), and the positive-map criterion
(`positive_map_criterion`) with the transposition, reduction and Breuer–Hall maps proved positive
(`transposition_instance`, `reduction_criterion`, `breuer_hall_criterion`) and the Ha–Kye qutrit maps identified
(`ha_maps_branch`; their positivity is a cited hypothesis).  Each says: no mixture of product states fails the test.

What the correspondence harness uses: the float matrix handed to toqito has an exact dyadic image `X`;
certificates `(c, L)` and `v` for `pt sys X` are checked by the compiled `checkLamMinLower/Upper`, and
the theorems below say what an accepted certificate means for `X`.
-/

open Matrix
open scoped ComplexOrder MatrixOrder Kronecker

namespace Toq.C15
open Toq.Sep

/-! ## Peres' criterion and the party of the transpose -/

/-- **Peres.**  Every finite mixture of product states `Σ_k w_k (a_k a_kᴴ) ⊗ (b_k b_kᴴ)`, `w_k ≥ 0`, has
a positive semidefinite partial transpose with respect to either party, for all local index types
(in particular all local dimensions). -/
theorem peres {m n : Type*} [Finite m] [Finite n] (ρ : Matrix (m × n) (m × n) ℂ) (h : IsSepMix ρ) :
    (ptBM ρ).PosSemidef ∧ (ptAM ρ).PosSemidef :=
  ⟨h.ptBM_posSemidef, h.ptAM_posSemidef⟩

/-- The same for mixtures of products of arbitrary (mixed) local states: `Σ_k w_k A_k ⊗ B_k` with
`w_k ≥ 0` and `A_k, B_k ⪰ 0` is PSD and has PSD partial transposes. -/
theorem peres_products {m n : Type*} [Finite m] [Finite n] {K : ℕ} (w : Fin K → ℝ)
    (A : Fin K → Matrix m m ℂ) (B : Fin K → Matrix n n ℂ) (hw : ∀ k, 0 ≤ w k)
    (hA : ∀ k, (A k).PosSemidef) (hB : ∀ k, (B k).PosSemidef) :
    (∑ k, (w k : ℂ) • (A k ⊗ₖ B k)).PosSemidef ∧
      (ptBM (∑ k, (w k : ℂ) • (A k ⊗ₖ B k))).PosSemidef ∧
      (ptAM (∑ k, (w k : ℂ) • (A k ⊗ₖ B k))).PosSemidef :=
  ⟨posSemidef_sum_smul_kron w A B hw hA hB, ptBM_posSemidef_of_products w A B hw hA hB, by
    rw [ptAM_eq_transpose]; exact (ptBM_posSemidef_of_products w A B hw hA hB).transpose⟩

/-- Transposing the first party is the full transpose of transposing the second party, and positive
semidefiniteness does not see the difference: the PPT verdict does not depend on `sys`. -/
theorem ppt_party_irrelevant {m n : Type*} (X : Matrix (m × n) (m × n) ℂ) :
    ptAM X = (ptBM X)ᵀ ∧ ((ptAM X).PosSemidef ↔ (ptBM X).PosSemidef) :=
  ⟨rfl, by rw [ptAM_eq_transpose]; exact posSemidef_transpose_iff⟩

/-- **Bridge.**  The executable partial transposes on the flat index `a * dB + b` are the partial
transposes: entrywise `(T_B X)[a·dB+b, a'·dB+b'] = X[a·dB+b', a'·dB+b]`,
`(T_A X)[a·dB+b, a'·dB+b'] = X[a'·dB+b, a·dB+b']`, and `pt sys` selects `T_A` for `sys = 1`, `T_B`
otherwise. -/
theorem pt_exec_eq_spec {dA dB : Nat} (X : EMat (dA * dB) (dA * dB)) (sys : Nat) :
    unflat (pt sys X).toM = (if sys = 1 then ptAM (unflat X.toM) else ptBM (unflat X.toM)) ∧
    (∀ (a a' : Fin dA) (b b' : Fin dB),
      (ptB X).toM (pair a b) (pair a' b') = X.toM (pair a b') (pair a' b) ∧
      (ptA X).toM (pair a b) (pair a' b') = X.toM (pair a' b) (pair a b')) := by
  refine ⟨?_, fun a a' b b' => ⟨?_, ?_⟩⟩
  · unfold pt; split
    · simp [unflat_ptA]
    · simp [unflat_ptB]
  · simp [ptB]
  · simp [ptA]

/-! ## Certified enclosure of the smallest eigenvalue -/

/-- If the lower checker accepts, it returns the proposed `c`, `A − c·1` is positive semidefinite, and
hence `c · xᴴx ≤ Re xᴴAx` for every vector `x`: every eigenvalue of `A` is at least `c`. -/
theorem checkLamMinLower_sound {n k : Nat} (A : EMat n n) (c : Rat) (L : EMat n k) (lo : Rat)
    (h : checkLamMinLower A c L = some lo) :
    lo = c ∧ (A.toM - (((lo : ℝ) : ℂ)) • (1 : Matrix (Fin n) (Fin n) ℂ)).PosSemidef ∧
      ∀ x : Fin n → ℂ, (lo : ℝ) * (star x ⬝ᵥ x).re ≤ (star x ⬝ᵥ (A.toM *ᵥ x)).re := by
  refine ⟨(checkLamMinLower_eq h).1, checkLamMinLower_psd h, fun x => ?_⟩
  have h1 := (checkLamMinLower_psd h).dotProduct_mulVec_nonneg x
  rw [Matrix.sub_mulVec, dotProduct_sub, Matrix.smul_mulVec, Matrix.one_mulVec, dotProduct_smul,
    smul_eq_mul] at h1
  have h2 := (Complex.nonneg_iff.mp h1).1
  rw [Complex.sub_re, Complex.re_ofReal_mul] at h2
  linarith

/-- If the upper checker accepts with value `hi` (the Rayleigh quotient `vᴴAv / vᴴv` of a non-zero
exact vector), then no `c > hi` has `A − c·1 ⪰ 0`: the smallest eigenvalue of `A` is at most `hi`. -/
theorem checkLamMinUpper_sound {n : Nat} (A : EMat n n) (v : EMat n 1) (hi : Rat)
    (h : checkLamMinUpper A v = some hi) :
    ∀ c : ℝ, (A.toM - (c : ℂ) • (1 : Matrix (Fin n) (Fin n) ℂ)).PosSemidef → c ≤ (hi : ℝ) :=
  fun c hc => checkLamMinUpper_bound h c hc

/-- Accepted lower and upper certificates enclose an interval. -/
theorem lamMin_lo_le_hi {n k : Nat} (A : EMat n n) (c : Rat) (L : EMat n k) (v : EMat n 1)
    (lo hi : Rat) (hlo : checkLamMinLower A c L = some lo) (hhi : checkLamMinUpper A v = some hi) :
    lo ≤ hi := by
  have := checkLamMinUpper_bound hhi (lo : ℝ) (checkLamMinLower_psd hlo)
  exact_mod_cast this

/-- **The PPT verdict decided by certificates is the mathematical one.**  `pptVerdict … = some true`
implies `T_sys X + tol·1 ⪰ 0` (the smallest eigenvalue of the exact partial transpose is `≥ −tol`);
`some false` implies that this fails. -/
theorem pptVerdict_sound {dA dB k : Nat} (sys : Nat) (X : EMat (dA * dB) (dA * dB)) (tol c : Rat)
    (L : EMat (dA * dB) k) (v : EMat (dA * dB) 1) (b : Bool)
    (h : pptVerdict sys X tol c L v = some b) :
    (b = true ↔ ((pt sys X).toM
        + (((tol : ℝ) : ℂ)) • (1 : Matrix (Fin (dA * dB)) (Fin (dA * dB)) ℂ)).PosSemidef) := by
  unfold pptVerdict at h
  cases b
  · obtain ⟨hi, hhi, hlt⟩ := lamMinVerdict_false h
    refine ⟨fun hb => absurd hb (by simp), fun hpsd => ?_⟩
    exfalso
    have e : (pt sys X).toM + (((tol : ℝ) : ℂ)) • (1 : Matrix (Fin (dA * dB)) (Fin (dA * dB)) ℂ)
        = (pt sys X).toM - (((-(tol : ℝ) : ℝ)) : ℂ) • 1 := by
      simp [sub_eq_add_neg]
    rw [e] at hpsd
    have h1 := checkLamMinUpper_bound hhi _ hpsd
    have h2 : ((hi : Rat) : ℝ) < -(tol : ℝ) := by exact_mod_cast hlt
    linarith
  · obtain ⟨lo, hlo, hle⟩ := lamMinVerdict_true h
    refine ⟨fun _ => ?_, fun _ => rfl⟩
    have h1 := checkLamMinLower_psd hlo
    have h2 : (0 : ℝ) ≤ (lo : ℝ) + (tol : ℝ) := by
      have : (-(tol : ℝ)) ≤ (lo : ℝ) := by exact_mod_cast hle
      linarith
    have h3 : ((((lo : ℝ) + (tol : ℝ) : ℝ)) • (1 : Matrix (Fin (dA * dB)) (Fin (dA * dB)) ℂ)).PosSemidef :=
      PosSemidef.one.smul h2
    have e : (pt sys X).toM + (((tol : ℝ) : ℂ)) • (1 : Matrix (Fin (dA * dB)) (Fin (dA * dB)) ℂ)
        = ((pt sys X).toM - (((lo : ℝ) : ℂ)) • 1)
          + (((lo : ℝ) + (tol : ℝ) : ℝ)) • (1 : Matrix (Fin (dA * dB)) (Fin (dA * dB)) ℂ) := by
      ext i j
      by_cases hij : i = j
      · subst hij; simp; ring
      · simp [hij]
    rw [e]
    exact h1.add h3

/-- **A certified negative partial transpose excludes separability.**  If some exact vector has a
negative Rayleigh quotient for the exact partial transpose (either party) of `X`, then `X` is not a
mixture of product states.  (This is what makes "`is_separable` must not answer True" an oracle.) -/
theorem negative_rayleigh_not_separable {dA dB : Nat} (sys : Nat) (X : EMat (dA * dB) (dA * dB))
    (v : EMat (dA * dB) 1) (hi : Rat) (h : checkLamMinUpper (pt sys X) v = some hi) (hneg : hi < 0) :
    ¬ IsSepMix (unflat X.toM) := by
  intro hsep
  have hP : (unflat (pt sys X).toM).PosSemidef := by
    rw [(pt_exec_eq_spec X sys).1]
    split
    · exact hsep.ptAM_posSemidef
    · exact hsep.ptBM_posSemidef
  rw [unflat_posSemidef_iff] at hP
  have h0 : ((pt sys X).toM - ((0 : ℝ) : ℂ) • (1 : Matrix (Fin (dA * dB)) (Fin (dA * dB)) ℂ)).PosSemidef := by
    simpa using hP
  have := checkLamMinUpper_bound h 0 h0
  have h2 : ((hi : Rat) : ℝ) < 0 := by exact_mod_cast hneg
  linarith

/-! ## The separable class: exact constructions and closure properties -/

/-- The exact matrix `Σ_k w_k (a_k a_kᴴ) ⊗ (b_k b_kᴴ)` computed by the model from rational data with
non-negative weights is a mixture of product states, it is PSD, and both of its executable partial
transposes are PSD. -/
theorem sepMix_separable {dA dB : Nat} (ws : List Rat) (as : List (EMat dA 1)) (bs : List (EMat dB 1))
    (hw : ∀ w ∈ ws, 0 ≤ w) :
    IsSepMix (unflat (sepMix ws as bs).toM) ∧ (sepMix ws as bs).toM.PosSemidef ∧
      ∀ sys, (pt sys (sepMix ws as bs)).toM.PosSemidef := by
  have h := sepMix_isSepMix ws as bs hw
  refine ⟨h, (unflat_posSemidef_iff _).mp h.posSemidef, fun sys => ?_⟩
  rw [← unflat_posSemidef_iff, (pt_exec_eq_spec _ sys).1]
  split
  · exact h.ptAM_posSemidef
  · exact h.ptBM_posSemidef

/-- The class of mixtures of product states is closed under local maps `ρ ↦ (U ⊗ V) ρ (U ⊗ V)ᴴ` (any
matrices `U`, `V`), and the executable `localConj` computes exactly this map. -/
theorem sep_local_unitary_closed {m n : Type*} [Fintype m] [Fintype n]
    (ρ : Matrix (m × n) (m × n) ℂ) (U : Matrix m m ℂ) (V : Matrix n n ℂ) (h : IsSepMix ρ) :
    IsSepMix ((U ⊗ₖ V) * ρ * (U ⊗ₖ V)ᴴ) :=
  h.localConj U V

/-- For unitary `U`, `V` the local map is a bijection of the class: `ρ` is a mixture of product states
iff `(U ⊗ V) ρ (U ⊗ V)ᴴ` is.  Hence a correct separability verdict is invariant under local unitaries. -/
theorem sep_local_unitary_iff {m n : Type*} [Fintype m] [Fintype n] [DecidableEq m] [DecidableEq n]
    (ρ : Matrix (m × n) (m × n) ℂ) (U : Matrix m m ℂ) (V : Matrix n n ℂ)
    (hU : Uᴴ * U = 1) (hV : Vᴴ * V = 1) :
    IsSepMix ((U ⊗ₖ V) * ρ * (U ⊗ₖ V)ᴴ) ↔ IsSepMix ρ := by
  refine ⟨fun h => ?_, fun h => h.localConj U V⟩
  have h2 := h.localConj Uᴴ Vᴴ
  have e : (Uᴴ ⊗ₖ Vᴴ) * (U ⊗ₖ V) = 1 := by
    rw [← mul_kronecker_mul, hU, hV, one_kronecker_one]
  have e' : (U ⊗ₖ V)ᴴ * (Uᴴ ⊗ₖ Vᴴ)ᴴ = 1 := by
    rw [← conjTranspose_mul, e, conjTranspose_one]
  have : (Uᴴ ⊗ₖ Vᴴ) * ((U ⊗ₖ V) * ρ * (U ⊗ₖ V)ᴴ) * (Uᴴ ⊗ₖ Vᴴ)ᴴ = ρ := by
    calc (Uᴴ ⊗ₖ Vᴴ) * ((U ⊗ₖ V) * ρ * (U ⊗ₖ V)ᴴ) * (Uᴴ ⊗ₖ Vᴴ)ᴴ
        = ((Uᴴ ⊗ₖ Vᴴ) * (U ⊗ₖ V)) * ρ * ((U ⊗ₖ V)ᴴ * (Uᴴ ⊗ₖ Vᴴ)ᴴ) := by
          simp only [Matrix.mul_assoc]
      _ = ρ := by rw [e, e', Matrix.one_mul, Matrix.mul_one]
  rwa [this] at h2

/-- The executable local conjugation on the flat index is `(U ⊗ V) X (U ⊗ V)ᴴ`. -/
theorem localConj_exec_eq_spec {dA dB : Nat} (U : EMat dA dA) (V : EMat dB dB)
    (X : EMat (dA * dB) (dA * dB)) :
    unflat (localConj U V X).toM = (U.toM ⊗ₖ V.toM) * unflat X.toM * (U.toM ⊗ₖ V.toM)ᴴ :=
  unflat_localConj U V X

/-- Exchanging the parties maps mixtures of product states to mixtures of product states, in both
directions (`swapM` is an involution); the executable `swapAB` on flat indices computes `swapM`. -/
theorem sep_swap_closed {m n : Type*} (ρ : Matrix (m × n) (m × n) ℂ) :
    (IsSepMix (swapM ρ) ↔ IsSepMix ρ) ∧ swapM (swapM ρ) = ρ :=
  ⟨⟨fun h => (show swapM (swapM ρ) = ρ from rfl) ▸ h.swap, fun h => h.swap⟩, rfl⟩

/-- The executable exchange of parties on the flat index is `swapM`. -/
theorem swapAB_exec_eq_spec {dA dB : Nat} (X : EMat (dA * dB) (dA * dB)) :
    unflat (swapAB X).toM = swapM (unflat X.toM) :=
  unflat_swapAB X

/-! ## The Gurvits–Barnum ball -/

/-- **`in_separable_ball` is a rational inequality.**  For an exact `n × n` matrix `M` (`n ≥ 2`) and a
positive trace threshold `thr` (toqito: `n·ε`), the decider accepts iff `Re tr M ≥ thr` and the
normalised operator `ρ = M / tr M` lies in the Gurvits–Barnum ball
`‖ρ − 1/n‖_F² ≤ 1/(n(n−1))` around the maximally mixed state. -/
theorem ball_exact {n : Nat} (hn : 2 ≤ n) (thr : Rat) (hthr : 0 < thr) (M : EMat n n) :
    inSepBall thr M = true ↔
      (thr : ℝ) ≤ (Matrix.trace M.toM).re ∧
      frobSq (((1 / (Matrix.trace M.toM).re : ℝ) : ℂ) • M.toM
          - ((1 / (n : ℝ) : ℝ) : ℂ) • (1 : Matrix (Fin n) (Fin n) ℂ))
        ≤ 1 / ((n : ℝ) * ((n : ℝ) - 1)) := by
  unfold inSepBall
  rw [Bool.and_eq_true, decide_eq_true_eq, decide_eq_true_eq]
  have hthr' : (0 : ℝ) < (thr : ℝ) := by exact_mod_cast hthr
  have h1 : thr ≤ trRe M ↔ (thr : ℝ) ≤ (Matrix.trace M.toM).re := by
    rw [← trRe_cast]; exact_mod_cast Iff.rfl
  have h2 : ((n : Rat) - 1) * frob2 M ≤ trRe M * trRe M ↔
      ((n : ℝ) - 1) * frobSq M.toM ≤ (Matrix.trace M.toM).re * (Matrix.trace M.toM).re := by
    rw [← trRe_cast, ← frob2_cast]; exact_mod_cast Iff.rfl
  rw [h1, h2]
  constructor
  · rintro ⟨ha, hb⟩
    exact ⟨ha, (ball_alg M.toM (lt_of_lt_of_le hthr' ha) hn).mpr hb⟩
  · rintro ⟨ha, hb⟩
    exact ⟨ha, (ball_alg M.toM (lt_of_lt_of_le hthr' ha) hn).mp hb⟩

/-- **The line-by-line mirror of `in_separable_ball` computes the same verdict** as the rational
inequality, for every exact matrix and every positive threshold. -/
theorem inSepBallMirror_eq {n : Nat} (thr : Rat) (hthr : 0 < thr) (M : EMat n n) :
    inSepBallMirror thr M = inSepBall thr M := by
  unfold inSepBallMirror inSepBall
  by_cases ht : trRe M < thr
  · simp [ht, not_le.mpr ht]
  · have hle : thr ≤ trRe M := not_lt.mp ht
    simp only [ht, if_false, hle, decide_true, Bool.true_and]
    congr 1
    apply propext
    have hpos : (0 : ℝ) < (Matrix.trace M.toM).re := by
      rw [← trRe_cast]; exact_mod_cast lt_of_lt_of_le hthr hle
    have key := mirror_alg M.toM hpos
    simp only at key
    have e1 : (EMat.smul (1 / trRe M) M).toM
        = ((1 / (Matrix.trace M.toM).re : ℝ) : ℂ) • M.toM := by
      rw [EMat.toM_smul, ← trRe_cast]; push_cast; rfl
    have lhs : (frob2 (EMat.smul (1 / frob2 (EMat.smul (1 / trRe M) M)) (EMat.smul (1 / trRe M) M)
          - EMat.one) ≤ 1) ↔
        frobSq (((1 / frobSq (((1 / (Matrix.trace M.toM).re : ℝ) : ℂ) • M.toM) : ℝ) : ℂ)
            • (((1 / (Matrix.trace M.toM).re : ℝ) : ℂ) • M.toM)
          - ((1 : ℝ) : ℂ) • (1 : Matrix (Fin n) (Fin n) ℂ)) ≤ 1 := by
      rw [← e1, ← frob2_cast]
      have e2 : (EMat.smul (1 / frob2 (EMat.smul (1 / trRe M) M)) (EMat.smul (1 / trRe M) M)
          - EMat.one).toM
          = (((1 / ((frob2 (EMat.smul (1 / trRe M) M) : Rat) : ℝ) : ℝ)) : ℂ)
              • (EMat.smul (1 / trRe M) M).toM - ((1 : ℝ) : ℂ) • (1 : Matrix (Fin n) (Fin n) ℂ) := by
        rw [EMat.toM_sub, EMat.toM_smul, EMat.toM_one]; push_cast; simp
      rw [← e2, ← frob2_cast]
      exact_mod_cast Iff.rfl
    have rhs : (((n : Rat) - 1) * frob2 M ≤ trRe M * trRe M) ↔
        ((n : ℝ) - 1) * frobSq M.toM ≤ (Matrix.trace M.toM).re * (Matrix.trace M.toM).re := by
      rw [← trRe_cast, ← frob2_cast]; exact_mod_cast Iff.rfl
    rw [lhs, rhs]
    exact key

/-- **Eigenvalue form of the ball test.**  `in_separable_ball` applied to a vector of eigenvalues
`λ` (it builds `diag λ`) accepts iff `Σλ ≥ thr` and `(n − 1) Σλ² ≤ (Σλ)²`. -/
theorem ball_eig_exact (thr : Rat) (lam : List Rat) :
    inSepBallEig thr lam = true ↔
      (thr : ℝ) ≤ ∑ i : Fin lam.length, ((lam.getD i.val 0 : Rat) : ℝ) ∧
      ((lam.length : ℝ) - 1) * ∑ i : Fin lam.length, ((lam.getD i.val 0 : Rat) : ℝ) ^ 2
        ≤ (∑ i : Fin lam.length, ((lam.getD i.val 0 : Rat) : ℝ)) ^ 2 := by
  unfold inSepBallEig inSepBall
  rw [Bool.and_eq_true, decide_eq_true_eq, decide_eq_true_eq]
  set D : EMat lam.length lam.length :=
    EMat.ofFn fun i j => if i = j then QI.ofRat (lam.getD i.val 0) else 0 with hD
  have h1 : ((trRe D : Rat) : ℝ) = ∑ i : Fin lam.length, ((lam.getD i.val 0 : Rat) : ℝ) := by
    rw [trRe_cast]
    simp [Matrix.trace, hD]
  have h2 : ((frob2 D : Rat) : ℝ) = ∑ i : Fin lam.length, ((lam.getD i.val 0 : Rat) : ℝ) ^ 2 := by
    rw [frob2_cast]
    unfold frobSq
    refine Finset.sum_congr rfl fun i _ => ?_
    have : ∀ j, Complex.normSq (D.toM i j)
        = if i = j then ((lam.getD i.val 0 : Rat) : ℝ) ^ 2 else 0 := by
      intro j
      by_cases hij : i = j
      · simp [hD, hij, Complex.normSq_apply, pow_two]
      · simp [hD, hij]
    simp_rw [this]
    simp
  rw [← h1, ← h2]
  constructor
  · rintro ⟨ha, hb⟩
    refine ⟨by exact_mod_cast ha, ?_⟩
    have : (((lam.length : Rat) - 1) * frob2 D : Rat) ≤ trRe D * trRe D := hb
    have h := (Rat.cast_le (K := ℝ)).mpr this
    push_cast at h
    rw [pow_two]; exact h
  · rintro ⟨ha, hb⟩
    refine ⟨by exact_mod_cast ha, ?_⟩
    rw [pow_two] at hb
    have : ((((lam.length : Rat) - 1) * frob2 D : Rat) : ℝ) ≤ ((trRe D * trRe D : Rat) : ℝ) := by
      push_cast; exact hb
    exact (Rat.cast_le (K := ℝ)).mp this

/-! ## The hypotheses are satisfiable: concrete instances accepted by the executable checkers -/

section Examples

private def r4 (f : Fin 4 → Fin 4 → Rat) : EMat 4 4 := EMat.ofFn fun i j => ⟨f i j, 0⟩

/-- the two-qubit isotropic-like state `p |Φ⁺⟩⟨Φ⁺| + (1 − p) 1/4` with `p = 1/2` (entangled):
its partial transpose has the eigenvalue `(1 − 3p)/4 = −1/8` -/
private def rhoIso : EMat (2 * 2) (2 * 2) :=
  r4 fun i j =>
    (if i = j then 1/8 else 0) + (if (i.val = 0 ∨ i.val = 3) ∧ (j.val = 0 ∨ j.val = 3) then 1/4 else 0)

private def vSing : EMat (2 * 2) 1 := EMat.ofFn fun i _ => if i.val = 1 then ⟨1, 0⟩ else if i.val = 2 then ⟨-1, 0⟩ else 0

example : checkLamMinUpper (pt 2 rhoIso) vSing = some (-1/8) := by decide +kernel
example : checkLamMinLower (pt 2 rhoIso) (-1/8) (EMat.zero : EMat (2 * 2) 1) = some (-1/8) := by
  decide +kernel
example : pptVerdict 2 rhoIso (1/100000000) (-1/8) (EMat.zero : EMat (2 * 2) 1) vSing = some false := by
  decide +kernel
example : pptVerdict 1 rhoIso (1/4) (-1/8) (EMat.zero : EMat (2 * 2) 1) vSing = some true := by
  decide +kernel

/-- `diag(3,2,2,1)/8`: inside the ball (`3·18 ≤ 64`); `diag(5,1,1,1)/8`: outside (`3·28 > 64`) -/
example : inSepBall (n := 4) (1/1000000) (r4 fun i j => if i = j then (if i.val = 0 then 3/8 else if i.val = 3 then 1/8 else 1/4) else 0) = true := by
  decide +kernel
example : inSepBall (n := 4) (1/1000000) (r4 fun i j => if i = j then (if i.val = 0 then 5/8 else 1/8) else 0) = false := by
  decide +kernel
example : inSepBallMirror (n := 4) (1/1000000) (r4 fun i j => if i = j then (if i.val = 0 then 5/8 else 1/8) else 0) = false := by
  decide +kernel

end Examples

/-! ## Necessary criteria evaluated after the PPT test: no separable state is rejected by them

`IsContr W` says `1 − WᴴW ⪰ 0` (operator norm at most one, `W` rectangular).  The trace (nuclear) norm is used in
its dual form `‖M‖₁ = sup { Re tr(Wᴴ M) : IsContr W }`: "`‖M‖₁ ≤ c`" is stated as
"`Re tr(Wᴴ M) ≤ c` for every contraction `W`", and — matching what `numpy.linalg.norm(·, "nuc")` computes — as
"`Σ_i σ_i ≤ c` for every singular value decomposition `M = U diag(σ) Vᴴ`" (`UᴴU = 1`, `VᴴV = 1`).
`realignM X ((a,a'),(b,b')) = X ((a,b),(a',b'))`, `ptrB`/`ptrA` are the partial traces `ρ_A`/`ρ_B`,
`frobSq` is the squared Frobenius norm, `applyB Λ = id ⊗ Λ`, `applyA Λ = Λ ⊗ id`, `choiMap J` is the linear map
whose Choi matrix (toqito convention `J = Σ_ij E_ij ⊗ Φ(E_ij)`) is `J`. -/

/-- **Bridge for the realignment.**  (1) The line-by-line model of `toqito.channels.realignment` (C03,
`Toq.PartialOps.realignment`, called with `dim = [dA, dB]` as `is_separable` does) has the entry
`X[a·dB + b, a'·dB + b']` at row `a·dA + a'`, column `b·dB + b'`; (2) the executable `realignE` on exact matrices,
read on pair indices, is `realignM` of the pair-indexed operator. -/
theorem realign_exec_eq_spec {dA dB : Nat} :
    (∀ (X : Nat → Nat → ℂ) (a a' : Fin dA) (b b' : Fin dB),
      Toq.PartialOps.realignment X dA dB dA dB (a.val * dA + a'.val) (b.val * dB + b'.val)
        = X (a.val * dB + b.val) (a'.val * dB + b'.val)) ∧
    (∀ X : EMat (dA * dB) (dA * dB),
      (realignE X).toM.submatrix (pairEquiv dA dA) (pairEquiv dB dB) = realignM (unflat X.toM)) := by
  refine ⟨fun X a a' b b' => ?_, realignE_toM⟩
  have hA : 0 < dA := Nat.lt_of_le_of_lt (Nat.zero_le _) a.isLt
  have hB : 0 < dB := Nat.lt_of_le_of_lt (Nat.zero_le _) b.isLt
  rw [Toq.PartialOps.realignment_eq_spec X dA dB dA dB hA hB hA hB _ _
    (Toq.Sep.pair_lt a.isLt a'.isLt) (Toq.Sep.pair_lt b.isLt b'.isLt)]
  unfold Toq.Spec.realignSpec
  have e1 : (a.val * dA + a'.val) / dA = a.val := by
    rw [Nat.add_comm, Nat.add_mul_div_right _ _ hA, Nat.div_eq_of_lt a'.isLt, Nat.zero_add]
  have e2 : (a.val * dA + a'.val) % dA = a'.val := by
    rw [Nat.add_comm, Nat.add_mul_mod_self_right, Nat.mod_eq_of_lt a'.isLt]
  have e3 : (b.val * dB + b'.val) / dB = b.val := by
    rw [Nat.add_comm, Nat.add_mul_div_right _ _ hB, Nat.div_eq_of_lt b'.isLt, Nat.zero_add]
  have e4 : (b.val * dB + b'.val) % dB = b'.val := by
    rw [Nat.add_comm, Nat.add_mul_mod_self_right, Nat.mod_eq_of_lt b'.isLt]
  rw [e1, e2, e3, e4]

/-- **Realignment (CCNR) criterion** (Chen–Wu, Rudolph).  For every mixture of product states `ρ`
(any local index types, in particular all local dimensions; weights `≥ 0`, not necessarily normalised) and every
contraction `W`: `Re tr(Wᴴ R(ρ)) ≤ tr ρ`, i.e. `‖R(ρ)‖₁ ≤ tr ρ`.  Consequently a state with
`Re tr(Wᴴ R(ρ)) > tr ρ` for some contraction `W` is not a mixture of product states. -/
theorem realignment_criterion {m n : Type*} [Fintype m] [Fintype n] [DecidableEq n]
    (ρ : Matrix (m × n) (m × n) ℂ) (W : Matrix (m × m) (n × n) ℂ) (hW : IsContr W) :
    (IsSepMix ρ → (Wᴴ * realignM ρ).trace.re ≤ ρ.trace.re) ∧
    (ρ.trace.re < (Wᴴ * realignM ρ).trace.re → ¬ IsSepMix ρ) :=
  ⟨fun h => h.re_trace_realign_le hW, fun hlt h => absurd (h.re_trace_realign_le hW) (not_le.mpr hlt)⟩

/-- **The test `trace_norm(realignment(ρ)) > 1 + tol` cannot fire on a separable state.**  Whatever singular value
decomposition `R(ρ) = U diag(σ) Vᴴ` (`UᴴU = 1`, `VᴴV = 1`) of the realigned mixture of product states is taken,
the sum of the singular values is at most `tr ρ` (`= 1` after the normalisation done by `is_separable`). -/
theorem realignment_criterion_svd {m n r : Type*} [Fintype m] [Fintype n] [Fintype r] [DecidableEq n]
    [DecidableEq r] (ρ : Matrix (m × n) (m × n) ℂ) (h : IsSepMix ρ) (U : Matrix (m × m) r ℂ)
    (V : Matrix (n × n) r ℂ) (σ : r → ℝ) (hU : Uᴴ * U = 1) (hV : Vᴴ * V = 1)
    (hsvd : realignM ρ = U * diagonal (fun i => (σ i : ℂ)) * Vᴴ) : ∑ i, σ i ≤ ρ.trace.re := by
  have h1 := h.re_trace_realign_le (isContr_mul_conjTranspose U V hU hV)
  rwa [hsvd, trace_polar_mul_svd U V σ hU hV, Complex.ofReal_re] at h1

/-- **Zhang–Zhang–Zhang–Guo bound** ("beyond realignment", the second test of the cascade).  For every mixture
of product states `ρ` with `tr ρ = 1`, marginals `ρ_A = tr_B ρ`, `ρ_B = tr_A ρ`: both `1 − tr ρ_A²` and
`1 − tr ρ_B²` are non-negative (so the `max(0, ·)` in the code is inactive), and for every contraction `W`
`Re tr(Wᴴ R(ρ − ρ_A ⊗ ρ_B)) ≤ √((1 − tr ρ_A²)(1 − tr ρ_B²))`, i.e.
`‖R(ρ − ρ_A ⊗ ρ_B)‖₁ ≤ √((1 − tr ρ_A²)(1 − tr ρ_B²))`; the purities are in the form the code computes,
`Re tr(ρ_A ρ_A)`. -/
theorem zhang_criterion {m n : Type*} [Fintype m] [Fintype n] [DecidableEq n]
    (ρ : Matrix (m × n) (m × n) ℂ) (h : IsSepMix ρ) (ht : ρ.trace = 1) :
    0 ≤ 1 - (ptrB ρ * ptrB ρ).trace.re ∧ 0 ≤ 1 - (ptrA ρ * ptrA ρ).trace.re ∧
    ∀ W : Matrix (m × m) (n × n) ℂ, IsContr W →
      (Wᴴ * realignM (ρ - ptrB ρ ⊗ₖ ptrA ρ)).trace.re
        ≤ √((1 - (ptrB ρ * ptrB ρ).trace.re) * (1 - (ptrA ρ * ptrA ρ).trace.re)) := by
  have hH := h.posSemidef.1
  rw [re_trace_mul_self_of_isHermitian (ptrB_isHermitian hH),
    re_trace_mul_self_of_isHermitian (ptrA_isHermitian hH)]
  have h0 := h.zhang ht (W := 0) IsContr.zero
  exact ⟨h0.1, h0.2.1, fun W hW => (h.zhang ht hW).2.2⟩

/-- **The test `trace_norm(realignment(ρ − ρ_A ⊗ ρ_B)) > tol + sqrt(…)` cannot fire on a separable state**: for
every singular value decomposition of `R(ρ − ρ_A ⊗ ρ_B)` the sum of the singular values is at most
`√((1 − tr ρ_A²)(1 − tr ρ_B²))`. -/
theorem zhang_criterion_svd {m n r : Type*} [Fintype m] [Fintype n] [Fintype r] [DecidableEq n]
    [DecidableEq r] (ρ : Matrix (m × n) (m × n) ℂ) (h : IsSepMix ρ) (ht : ρ.trace = 1)
    (U : Matrix (m × m) r ℂ) (V : Matrix (n × n) r ℂ) (σ : r → ℝ) (hU : Uᴴ * U = 1) (hV : Vᴴ * V = 1)
    (hsvd : realignM (ρ - ptrB ρ ⊗ₖ ptrA ρ) = U * diagonal (fun i => (σ i : ℂ)) * Vᴴ) :
    ∑ i, σ i ≤ √((1 - (ptrB ρ * ptrB ρ).trace.re) * (1 - (ptrA ρ * ptrA ρ).trace.re)) := by
  have h1 := (zhang_criterion ρ h ht).2.2 _ (isContr_mul_conjTranspose U V hU hV)
  rwa [hsvd, trace_polar_mul_svd U V σ hU hV, Complex.ofReal_re] at h1

/-- The same bound for mixtures `Σ_k p_k α_k ⊗ β_k` of products of arbitrary normalised local operators
(`tr α_k = tr β_k = 1`, `‖α_k‖_F, ‖β_k‖_F ≤ 1`: every density operator qualifies), with `p` a probability vector:
the marginals are `Σ_k p_k α_k`, `Σ_k p_k β_k` and
`‖R(ρ − ρ_A ⊗ ρ_B)‖₁ ≤ √((1 − ‖ρ_A‖_F²)(1 − ‖ρ_B‖_F²))`. -/
theorem zhang_products {m n K : Type*} [Fintype m] [Fintype n] [DecidableEq n] (s : Finset K) (p : K → ℝ)
    (α : K → Matrix m m ℂ) (β : K → Matrix n n ℂ) (hp : ∀ k ∈ s, 0 ≤ p k) (hsum : ∑ k ∈ s, p k = 1)
    (htα : ∀ k ∈ s, (α k).trace = 1) (htβ : ∀ k ∈ s, (β k).trace = 1)
    (hfα : ∀ k ∈ s, frobSq (α k) ≤ 1) (hfβ : ∀ k ∈ s, frobSq (β k) ≤ 1)
    (W : Matrix (m × m) (n × n) ℂ) (hW : IsContr W) :
    let ρ := ∑ k ∈ s, (p k : ℂ) • (α k ⊗ₖ β k)
    ptrB ρ = ∑ k ∈ s, (p k : ℂ) • α k ∧ ptrA ρ = ∑ k ∈ s, (p k : ℂ) • β k ∧
    0 ≤ 1 - frobSq (ptrB ρ) ∧ 0 ≤ 1 - frobSq (ptrA ρ) ∧
    (Wᴴ * realignM (ρ - ptrB ρ ⊗ₖ ptrA ρ)).trace.re
      ≤ √((1 - frobSq (ptrB ρ)) * (1 - frobSq (ptrA ρ))) :=
  zhang_general s p α β hp hsum htα htβ hfα hfβ hW _ rfl

/-- **Partial traces, executable = spec**: `ptrBE`/`ptrAE` on the flat index compute `ρ_A`/`ρ_B`, and the partial
traces preserve the trace. -/
theorem ptrace_exec_eq_spec {dA dB : Nat} (X : EMat (dA * dB) (dA * dB)) :
    (ptrBE X).toM = ptrB (unflat X.toM) ∧ (ptrAE X).toM = ptrA (unflat X.toM) ∧
    (ptrB (unflat X.toM)).trace = (unflat X.toM).trace ∧ (ptrA (unflat X.toM)).trace = (unflat X.toM).trace :=
  ⟨ptrBE_toM X, ptrAE_toM X, trace_ptrB _, trace_ptrA _⟩

/-- Every positive map (PSD operators to PSD operators) is positive on pure states: the hypothesis `IsPosOnPure` of the
positive-map criterion is the weakest form of positivity. -/
theorem positive_map_isPosOnPure {n k : Type*} [Finite n] (Λ : Matrix n n ℂ →ₗ[ℂ] Matrix k k ℂ)
    (hΛ : ∀ P : Matrix n n ℂ, P.PosSemidef → (Λ P).PosSemidef) : IsPosOnPure Λ :=
  fun b => hΛ _ (proj_posSemidef b)

/-- **Positive-map criterion** (Horodecki).  If the linear map `Λ` sends every `b bᴴ` to a positive semidefinite
operator (every positive map does), then `(id ⊗ Λ)(ρ) ⪰ 0` and, for `Λ` acting on the first party,
`(Λ ⊗ id)(ρ) ⪰ 0` for every mixture of product states `ρ`: a test
`not is_positive_semidefinite(partial_channel(ρ, J, sys, dim))` with the Choi matrix `J` of such a map cannot fire
on a separable state. -/
theorem positive_map_criterion {m n k : Type*} [Finite m] [Finite n] [Finite k]
    (ρ : Matrix (m × n) (m × n) ℂ) (h : IsSepMix ρ) :
    (∀ Λ : Matrix n n ℂ →ₗ[ℂ] Matrix k k ℂ, IsPosOnPure Λ → (applyB Λ ρ).PosSemidef) ∧
    (∀ Λ : Matrix m m ℂ →ₗ[ℂ] Matrix k k ℂ, IsPosOnPure Λ → (applyA Λ ρ).PosSemidef) :=
  ⟨fun _ hΛ => h.applyB_posSemidef hΛ, fun _ hΛ => h.applyA_posSemidef hΛ⟩

/-- **`partial_channel` with a Choi matrix, executable = spec**: on the flat indices, `choiApplyB J X` is
`(id ⊗ Φ_J)(X)` and `choiApplyA J X` is `(Φ_J ⊗ id)(X)`, where `Φ_J(Y) = Σ_kl Y_kl J[(k,·),(l,·)]` is the map with
Choi matrix `J`. -/
theorem partial_channel_exec_eq_spec {dA dB dO : Nat} (X : EMat (dA * dB) (dA * dB)) :
    (∀ J : EMat (dB * dO) (dB * dO),
      unflat (choiApplyB J X).toM = applyB (choiMap (unflat J.toM)) (unflat X.toM)) ∧
    (∀ J : EMat (dA * dO) (dA * dO),
      unflat (choiApplyA J X).toM = applyA (choiMap (unflat J.toM)) (unflat X.toM)) :=
  ⟨fun J => choiApplyB_toM J X, fun J => choiApplyA_toM J X⟩

/-- **Transposition is a positive map and `id ⊗ T` is the partial transpose**: Peres' criterion is the instance
`Λ = T` of the positive-map criterion. -/
theorem transposition_instance {m n : Type*} [Finite n] (X : Matrix (m × n) (m × n) ℂ) :
    IsPosOnPure (transposeL (n := n)) ∧ applyB transposeL X = ptBM X :=
  ⟨transposeL_pos, rfl⟩

/-- **Reduction criterion** (Horodecki, Cerf–Adami–Gingrich).  The reduction map `X ↦ tr(X)·1 − X` is positive on
pure states (Cauchy–Schwarz), `(id ⊗ R)(ρ) = ρ_A ⊗ 1 − ρ`, `(R ⊗ id)(ρ) = 1 ⊗ ρ_B − ρ`, and both are positive
semidefinite for every mixture of product states. -/
theorem reduction_criterion {m n : Type*} [Fintype m] [Fintype n] [DecidableEq m] [DecidableEq n]
    (ρ : Matrix (m × n) (m × n) ℂ) (h : IsSepMix ρ) :
    (ptrB ρ ⊗ₖ (1 : Matrix n n ℂ) - ρ).PosSemidef ∧ ((1 : Matrix m m ℂ) ⊗ₖ ptrA ρ - ρ).PosSemidef := by
  rw [← applyB_reductionL, ← applyA_reductionL]
  exact ⟨h.applyB_posSemidef reductionL_pos, h.applyA_posSemidef reductionL_pos⟩

/-- **Breuer–Hall criterion.**  For every antisymmetric (`Uᵀ = −U`) contraction `U` — in particular every
antisymmetric unitary, which exists in even dimension — the map `X ↦ tr(X)·1 − X − U Xᵀ Uᴴ` is positive on pure
states (`U b̄ ⟂ b`, `‖U b̄‖ ≤ ‖b‖`, Bessel), hence applying it to either party of a mixture of product states gives
a positive semidefinite operator. -/
theorem breuer_hall_criterion {m n : Type*} [Fintype m] [Fintype n] [DecidableEq m] [DecidableEq n]
    (ρ : Matrix (m × n) (m × n) ℂ) (h : IsSepMix ρ) :
    (∀ U : Matrix n n ℂ, Uᵀ = -U → IsContr U →
      IsPosOnPure (breuerHallL U) ∧ (applyB (breuerHallL U) ρ).PosSemidef) ∧
    (∀ U : Matrix m m ℂ, Uᵀ = -U → IsContr U →
      IsPosOnPure (breuerHallL U) ∧ (applyA (breuerHallL U) ρ).PosSemidef) :=
  ⟨fun _ ha hU => ⟨breuerHallL_pos ha hU, h.applyB_posSemidef (breuerHallL_pos ha hU)⟩,
   fun _ ha hU => ⟨breuerHallL_pos ha hU, h.applyA_posSemidef (breuerHallL_pos ha hU)⟩⟩

/-- **The qutrit maps of the cascade.**  The Choi matrix `diag(a+1, c, b, b, a+1, c, c, b, a+1) − |Ω⟩⟨Ω|` that
`is_separable` hands to `partial_channel` is the Choi matrix of the generalised Choi map
`Φ[a,b,c](X) = diag(a x₀₀ + b x₁₁ + c x₂₂, a x₁₁ + b x₂₂ + c x₀₀, a x₂₂ + b x₀₀ + c x₁₁) − offdiag(X)`; if that map is
positive on pure states (Cho–Kye–Lee: `a + b + c ≥ 2` and `bc ≥ (1 − a)²` for `0 ≤ a ≤ 1`, which the parameters
`a = (1−t)²/(1−t+t²)`, `b = t²/(1−t+t²)`, `c = 1/(1−t+t²)` of the code satisfy with equality — cited, a hypothesis
here), the test built from it accepts every mixture of product states on `3 ⊗ 3`. -/
theorem ha_maps_branch (a b c : ℝ) (ρ : Matrix (Fin 3 × Fin 3) (Fin 3 × Fin 3) ℂ) (h : IsSepMix ρ) :
    (∀ (X : Matrix (Fin 3) (Fin 3) ℂ) (k l : Fin 3), choiMap (haChoi a b c) X k l
      = (if k = l then (a : ℂ) * X k k + b * X (k + 1) (k + 1) + c * X (k + 2) (k + 2) else 0)
        - (if k = l then 0 else X k l)) ∧
    (IsPosOnPure (choiMap (haChoi a b c)) → (applyB (choiMap (haChoi a b c)) ρ).PosSemidef) :=
  ⟨choiMap_haChoi a b c, fun hΛ => h.applyB_posSemidef hΛ⟩

/-- **The trace norm of the statements above is the one numpy computes.**  `nucNorm M = sup { Re tr(Wᴴ M) : 1 − WᴴW ⪰ 0 }`
equals `Σ_i σ_i` for EVERY singular value decomposition `M = U diag(σ) Vᴴ` (`UᴴU = 1`, `VᴴV = 1`, `σ ≥ 0`), and a bound
`Re tr(Wᴴ M) ≤ c` for all contractions is a bound `nucNorm M ≤ c`. -/
theorem nucNorm_spec {ι κ r : Type*} [Fintype ι] [Fintype κ] [Fintype r] [DecidableEq κ] [DecidableEq r]
    (U : Matrix ι r ℂ) (V : Matrix κ r ℂ) (σ : r → ℝ) (hU : Uᴴ * U = 1) (hV : Vᴴ * V = 1)
    (hσ : ∀ i, 0 ≤ σ i) :
    nucNorm (U * diagonal (fun i => (σ i : ℂ)) * Vᴴ) = ∑ i, σ i ∧
    ∀ (M : Matrix ι κ ℂ) (c : ℝ), (∀ W : Matrix ι κ ℂ, IsContr W → (Wᴴ * M).trace.re ≤ c) → nucNorm M ≤ c :=
  ⟨nucNorm_eq_sum_of_svd U V σ hU hV hσ, fun _ _ h => nucNorm_le h⟩

/-- **Realignment and Zhang criteria in norm form**: `‖R(ρ)‖₁ ≤ tr ρ` for every mixture of product states, and
`‖R(ρ − ρ_A ⊗ ρ_B)‖₁ ≤ √((1 − tr ρ_A²)(1 − tr ρ_B²))` when `tr ρ = 1`. -/
theorem realignment_zhang_norm {m n : Type*} [Fintype m] [Fintype n] [DecidableEq n]
    (ρ : Matrix (m × n) (m × n) ℂ) (h : IsSepMix ρ) :
    nucNorm (realignM ρ) ≤ ρ.trace.re ∧
    (ρ.trace = 1 → nucNorm (realignM (ρ - ptrB ρ ⊗ₖ ptrA ρ))
      ≤ √((1 - (ptrB ρ * ptrB ρ).trace.re) * (1 - (ptrA ρ * ptrA ρ).trace.re))) :=
  ⟨nucNorm_le fun _ hW => h.re_trace_realign_le hW,
   fun ht => nucNorm_le fun W hW => (zhang_criterion ρ h ht).2.2 W hW⟩

/-! ### The new hypotheses are satisfiable; the criteria are not vacuous -/

section Examples2

/-- the two-qubit Bell state `|Φ⁺⟩⟨Φ⁺|` on pair indices -/
private noncomputable def bell : Matrix (Fin 2 × Fin 2) (Fin 2 × Fin 2) ℂ :=
  fun i j => if i.1 = i.2 ∧ j.1 = j.2 then 1 / 2 else 0

/-- the identity is a contraction; pairing `R(|Φ⁺⟩⟨Φ⁺|) = 1/2` with it gives `2 > 1 = tr`: the realignment
criterion detects the Bell state -/
example : ¬ IsSepMix bell := by
  have hW : IsContr (1 : Matrix (Fin 2 × Fin 2) (Fin 2 × Fin 2) ℂ) := by
    unfold IsContr; simpa using PosSemidef.zero
  refine (realignment_criterion bell 1 hW).2 ?_
  simp [bell, realignM, Matrix.trace, Fintype.sum_prod_type]
  norm_num

/-- an antisymmetric unitary in dimension two -/
example : (!![0, 1; -1, 0] : Matrix (Fin 2) (Fin 2) ℂ)ᵀ = -!![0, 1; -1, 0] ∧
    IsContr (!![0, 1; -1, 0] : Matrix (Fin 2) (Fin 2) ℂ) := by
  refine ⟨by ext i j; fin_cases i <;> fin_cases j <;> simp, ?_⟩
  unfold IsContr
  have : (1 : Matrix (Fin 2) (Fin 2) ℂ) - (!![0, 1; -1, 0] : Matrix (Fin 2) (Fin 2) ℂ)ᴴ * !![0, 1; -1, 0] = 0 := by
    ext i j; fin_cases i <;> fin_cases j <;> simp [Matrix.mul_apply, Fin.sum_univ_two]
  rw [this]; exact PosSemidef.zero

/-- the hypotheses of `zhang_criterion` are satisfiable: the equal mixture of `|00⟩⟨00|` and `|11⟩⟨11|` is a mixture of
product states of trace one -/
example : ∃ ρ : Matrix (Fin 2 × Fin 2) (Fin 2 × Fin 2) ℂ, IsSepMix ρ ∧ ρ.trace = 1 := by
  refine ⟨_, ⟨2, fun _ => 1 / 2, fun k => Pi.single k 1, fun k => Pi.single k 1, fun _ => by norm_num, rfl⟩, ?_⟩
  simp [proj, Matrix.trace, vecMulVec_apply, Fin.sum_univ_two, Fintype.sum_prod_type, Pi.single_apply]
  norm_num

private def x23 : EMat (2 * 3) (2 * 3) := EMat.ofFn fun i j => ⟨(10 * i.val + j.val : Nat), 0⟩

/-- the executable realignment of the `6 × 6` matrix with entry `10 i + j` (dims `2 ⊗ 3`): a `4 × 9` matrix whose
row `a·2 + a'` lists the `3 × 3` block `(a, a')` in row-major order -/
example : (List.finRange 4).map (fun i => (List.finRange 9).map fun j => ((realignE x23).get i j).re)
    = [[0, 1, 2, 10, 11, 12, 20, 21, 22], [3, 4, 5, 13, 14, 15, 23, 24, 25],
       [30, 31, 32, 40, 41, 42, 50, 51, 52], [33, 34, 35, 43, 44, 45, 53, 54, 55]] := by decide +kernel

example : (List.finRange 2).map (fun i => (List.finRange 2).map fun j => ((ptrBE x23).get i j).re)
    = [[0 + 11 + 22, 3 + 14 + 25], [30 + 41 + 52, 33 + 44 + 55]] := by decide +kernel

end Examples2

end Toq.C15
