import Toq.Model.MatrixOps
import Toq.Model.MatrixPreds
import Toq.Spec.MatrixOps
import Toq.Proofs.MatrixOps
import Toq.Model.MatrixPredsTol
import Toq.Model.MatrixPredsDet
import Toq.Proofs.MatrixOpsTol
import Toq.Proofs.MatrixOpsExtra
import Toq.Proofs.MatrixOpsDiagDom
import Toq.Proofs.MatrixOpsInv
import Toq.Proofs.MatrixOpsSpectral
import Toq.Proofs.MatrixOpsComm
import Toq.Proofs.MatrixOpsDet
import Toq.Proofs.MatrixOpsUpb
import Toq.Proofs.MatrixOpsPsd
/-!
# C16 — matrix / state-set predicates and linear-algebra helpers match their definitions

Property theorems only (helper lemmas live in `Toq/Proofs/MatrixOps.lean`).

* Part 1: the mirror models of `vec`, `unvec`, `tensor` (all argument forms, with the `fast_exp`
  recursion), `vectors_to_gram_matrix`, `to_density_matrix`, `majorizes` and the linear system of
  `commutant` (`Toq/Model/MatrixOps.lean`) satisfy the identities the property states, for all sizes.
* Part 2: what a `yes` / `no` of the exact deciders of `Toq/Model/MatrixPreds.lean` means.
* Part 3: the invariances the harness generators rely on (over commutative star rings, all sizes).
* Part 4: the exact rank routine is Mathlib's `Matrix.rank` (`rank_correct`), and what `spark`, `linIndepV`, the UPB rank
  test and `commutantDim` therefore compute.
* Part 5: the tolerance-level mirrors (`Toq/Model/MatrixPredsTol.lean`): `closeQ` / `allcloseQ` are `np.isclose` / `np.allclose`
  over the reals, and every three-valued verdict forces the verdict of the tolerance-level mirror.
* Part 6: readings of the remaining deciders (pseudo-unitary, pseudo-Hermitian, stochastic, positive, diagonally dominant, totally
  positive with the proved determinant, definiteness with self-checked certificates, density, pure / mixed, ensemble, mutually
  orthogonal, orthonormal, mutually unbiased, unextendible product bases incl. order independence).
* Part 7: helper operations, continued (n-ary associativity of `tensor`, `unvec` rejections, `majorizes` with its tolerance term,
  the commutant is the null space and `commutantDim` its dimension, Gram matrices are PSD, eigen-branch round trip, Frobenius
  shortcut of `kp_norm`, trace norm of Hermitian / PSD matrices).
* Part 8: invariance of every predicate's defining relation under the transformations the harness applies.
-/
namespace Toq.C16
open Toq.MatrixOps Toq.MatrixPreds
open scoped Toq.MatrixOps
open scoped ComplexOrder MatrixOrder

/-! ## Part 1 — helper operations -/

/-- `vec` is column stacking: entry `k` of `vec A` is `A[k mod r, k div r]` (mirror = spec). -/
theorem vec_apply {α : Type} (A : Mat α) (k : Nat) (hk : k < A.r * A.c) : (vec A).f k 0 = vecSpec A k := by
  rw [vec_f]
  unfold vecSpec
  have hr : 0 < A.r := by
    rcases Nat.eq_zero_or_pos A.r with h | h
    · rw [h] at hk; simp at hk
    · exact h
  have : k / A.r < A.c := by rw [Nat.div_lt_iff_lt_mul hr, Nat.mul_comm]; exact hk
  rw [Nat.mod_eq_of_lt this]

/-- `unvec(vec(A), A.shape) = A` for every rectangular `A`. -/
theorem unvec_vec {α : Type} (A : Mat α) (i j : Nat) (hi : i < A.r) (hj : j < A.c) :
    (unvecShape (fun k => (vec A).f k 0) A.r A.c).f i j = A.f i j :=
  unvec_vec_f A i j hi hj

/-- `vec(unvec(v, (r, c))) = v` for every vector of length `r*c`. -/
theorem vec_unvec {α : Type} (v : Nat → α) (r c k : Nat) (hk : k < r * c) :
    (vec (unvecShape v r c)).f k 0 = v k :=
  vec_unvec_f v r c k hk

/-- with the default shape (`dim = int(sqrt(size))`) `unvec` inverts `vec` on square matrices. -/
theorem unvec_default_vec {α : Type} (A : Mat α) (n : Nat) (hr : A.r = n) (hc : A.c = n) :
    ∃ M, unvec (fun k => (vec A).f k 0) (n * n) none = some M ∧ M.r = n ∧ M.c = n ∧
      ∀ i j, i < n → j < n → M.f i j = A.f i j := by
  refine ⟨_, unvec_default_sq _ n, rfl, rfl, ?_⟩
  intro i j hi hj
  have := unvec_vec_f A i j (hr ▸ hi) (hc ▸ hj)
  rw [hr, hc] at this
  exact this

/-- `vec(A X B) = (Bᵀ ⊗ A) vec(X)` for all conformable `A (m×n)`, `X (n×p)`, `B (p×q)` over a
    commutative semiring, with the Kronecker product as `np.kron` / `tensor` computes it. -/
theorem vec_mul_kron {α : Type} [CommSemiring α] (A X B : Mat α) (hAX : A.c = X.r) (hXB : X.c = B.r)
    (k : Nat) (hk : k < A.r * B.c) :
    (vec (mul (mul A X) B)).f k 0 = (mul (kron (transpose B) A) (vec X)).f k 0 :=
  vec_mul_kron_f A X B hAX hXB k hk

/-- the model's `np.kron` is the Kronecker product in toqito's index convention `enc`
    (first factor most significant): entry `((i1,i2),(j1,j2))` is `A[i1,j1]·B[i2,j2]`. -/
theorem kron_enc {α : Type} [Mul α] (A B : Mat α) : IsKron A B (kron A B) := kron_isKron A B

/-- `(A ⊗ B) ⊗ C = A ⊗ (B ⊗ C)` for rectangular matrices (shapes and all entries). -/
theorem tensor_assoc {α : Type} [Semigroup α] (A B C : Mat α) : kron (kron A B) C = kron A (kron B C) :=
  kron_assoc A B C

/-- `tensor(A, n)` (the squaring recursion `fast_exp`) is the `n`-fold iterated product, `n ≥ 1`. -/
theorem tensor_pow_eq_iterate {α : Type} [Monoid α] (A : Mat α) (n : Nat) (hn : 1 ≤ n) :
    tensor (TensorArgs.power A n) = TensorResult.mat (kronPow A n) := by
  unfold tensor
  have h0 : n ≠ 0 := by omega
  simp only [h0, ↓reduceIte]
  by_cases h1 : n = 1
  · subst h1; rfl
  · simp only [h1, ↓reduceIte]
    rw [fastExp_eq_kronPow A n hn]

/-- `tensor([A]*n)`, the left fold `((A ⊗ A) ⊗ A) …`, is the same iterated product; hence
    `tensor(A, n) = tensor([A]*n)` for every `n ≥ 1`. -/
theorem tensor_replicate_eq_iterate {α : Type} [Monoid α] (A : Mat α) (n : Nat) (hn : 1 ≤ n) :
    tensor (TensorArgs.list (List.replicate n A)) = TensorResult.mat (kronPow A n) := by
  have hfold : ∀ k m, (List.replicate k A).foldl kron (kronPow A (m + 1)) = kronPow A (m + 1 + k) := by
    intro k
    induction k with
    | zero => intro m; rfl
    | succ k ih =>
      intro m
      rw [List.replicate_succ, List.foldl_cons, ← kronPow_succ A (m + 1) (by omega), ih (m + 1)]
      congr 1; omega
  match n, hn with
  | 1, _ => rfl
  | 2, _ => rfl
  | n + 3, _ =>
    show TensorResult.mat (kronFold A (List.replicate (n + 2) A)) = _
    unfold kronFold
    have := hfold (n + 2) 0
    rw [show kronPow A (0 + 1) = A from rfl] at this
    rw [this]
    congr 2; omega

/-- the variadic form `tensor(A_1, …, A_n)` and the list form `tensor([A_1, …, A_n])` agree for `n ≥ 2`. -/
theorem tensor_many_eq_list {α : Type} [Monoid α] (l : List (Mat α)) (h : 2 ≤ l.length) :
    tensor (TensorArgs.many l) = tensor (TensorArgs.list l) := by
  match l, h with
  | [a, b], _ => rfl
  | a :: b :: c :: rest, _ => rfl

/-- `vectors_to_gram_matrix`: `G[i,j] = ⟨v_i, v_j⟩ = Σ_k conj(v_i[k])·v_j[k]`, i.e. `G = Vᴴ V`. -/
theorem gram_apply {α : Type} [CommSemiring α] [StarRing α] (d n : Nat) (vs : Nat → Nat → α) (i j : Nat) :
    (gram d n vs).f i j = ∑ k ∈ Finset.range d, star (vs i k) * vs j k :=
  gram_f d n vs i j

/-- a Gram matrix is Hermitian. -/
theorem gram_hermitian {α : Type} [CommSemiring α] [StarRing α] (d n : Nat) (vs : Nat → Nat → α) (i j : Nat) :
    star ((gram d n vs).f i j) = (gram d n vs).f j i :=
  gram_conj d n vs i j

/-- Round trip, Cholesky branch: if `G = L Lᴴ` then the **conjugated** rows of `L` are vectors whose
    Gram matrix is `G` (what `vectors_from_gram_matrix` must return). -/
theorem gram_of_conj_rows {α : Type} [CommSemiring α] [StarRing α] (d n : Nat) (L G : Nat → Nat → α)
    (hG : ∀ i j, G i j = ∑ k ∈ Finset.range d, L i k * star (L j k)) (i j : Nat) :
    (gram d n (fun a k => star (L a k))).f i j = G i j :=
  Toq.MatrixOps.gram_of_conj_rows d n L G hG i j

/-- … whereas the unconjugated rows of `L` have Gram matrix `Gᵀ = conj(G)` (the defect fixed in
    toqito commit 889422b: wrong for complex `G`). -/
theorem gram_of_rows {α : Type} [CommSemiring α] [StarRing α] (d n : Nat) (L G : Nat → Nat → α)
    (hG : ∀ i j, G i j = ∑ k ∈ Finset.range d, L i k * star (L j k)) (i j : Nat) :
    (gram d n L).f i j = G j i :=
  Toq.MatrixOps.gram_of_rows d n L G hG i j

/-- `to_density_matrix(v) = v vᴴ` is Hermitian, -/
theorem toDensity_hermitian {α : Type} [CommSemiring α] [StarRing α] (n : Nat) (v : Nat → α) (i j : Nat) :
    star ((outerConj n v).f i j) = (outerConj n v).f j i :=
  outerConj_conj n v i j

/-- satisfies `ρ² = ⟨v,v⟩·ρ` (so it is a projection, a pure state, exactly when `⟨v,v⟩ = 1`), -/
theorem toDensity_sq {α : Type} [CommSemiring α] [StarRing α] (n : Nat) (v : Nat → α) (i j : Nat) :
    (mul (outerConj n v) (outerConj n v)).f i j
      = (∑ k ∈ Finset.range n, star (v k) * v k) * (outerConj n v).f i j :=
  outerConj_sq n v i j

/-- and has trace `⟨v,v⟩`. -/
theorem toDensity_trace {α : Type} [CommSemiring α] [StarRing α] (n : Nat) (v : Nat → α) :
    sumN n (fun i => (outerConj n v).f i i) = ∑ k ∈ Finset.range n, star (v k) * v k :=
  outerConj_trace n v

/-- `majorizes(a, b)` (sort both descending, pad the shorter with zeros, compare running sums) holds
    iff every prefix sum of the sorted padded `a` dominates that of `b`. -/
theorem majorizes_iff_partial_sums (a b : List Rat) :
    majorizes a b = true ↔
      PrefixDominates (padTo (max a.length b.length) (sortDesc a)) (padTo (max a.length b.length) (sortDesc b))
        (max a.length b.length) :=
  majorizes_iff a b

/-- the sorting step of `majorizes` returns a descending rearrangement of its input. -/
theorem majorizes_sort_spec (l : List Rat) : (sortDesc l).Perm l ∧ (sortDesc l).Pairwise (fun x y => y ≤ x) :=
  ⟨sortDesc_perm l, sortDesc_sorted l⟩

/-- the linear system of `commutant`: `(A ⊗ I − I ⊗ Aᵀ)` applied to the row-major flattening of `X`
    is the row-major flattening of `A X − X A`; so its null space (reshaped in C order, as the code
    does) is exactly the set of matrices commuting with `A`. -/
theorem commutant_system_apply {α : Type} [CommRing α] (n : Nat) (A X : Mat α) (hAr : A.r = n) (hAc : A.c = n)
    (hXc : X.c = n) (i j : Nat) (hi : i < n) (hj : j < n) :
    (mul (commSystem n A) (vecC X)).f (i * n + j) 0 = (sub (mul A X) (mul X A)).f i j :=
  commSystem_apply_f n A X hAr hAc hXc i j hi hj

/-! ## Part 2 — what the verdicts of the exact deciders mean -/

/-- the generic equation decider says `yes` iff the two sides are equal in every entry. -/
theorem eqV_yes_iff (L R : Mat QI) (m : Rat) (hr : R.r = L.r) (hc : R.c = L.c) :
    eqV L R m = .yes ↔ ∀ i j, i < L.r → j < L.c → L.f i j = R.f i j :=
  Toq.MatrixPreds.eqV_yes_iff L R m hr hc

/-- it says `no` only if some entry of the two sides differs by at least `margin·(1 + S)`
    (in `|re| + |im|`) where `S` bounds every entry of both sides. -/
theorem eqV_no_imp (L R : Mat QI) (m : Rat) (hr : R.r = L.r) (hc : R.c = L.c) (h : eqV L R m = .no) :
    ∃ S : Rat, (∀ i j, i < L.r → j < L.c → (L.f i j).abs1 ≤ S ∧ (R.f i j).abs1 ≤ S) ∧
      ∃ i j, i < L.r ∧ j < L.c ∧ m * (1 + S) ≤ (L.f i j - R.f i j).abs1 :=
  eqV_no_far L R m hr hc h

/-- Hermitian decider: `yes` iff square and `A = Aᴴ` entrywise. -/
theorem hermitian_yes_iff (A : Mat QI) (m : Rat) :
    hermitianV A m = .yes ↔ A.r = A.c ∧ ∀ i j, i < A.r → j < A.c → A.f i j = (A.f j i).conj :=
  hermitianV_yes_iff A m

/-- symmetric decider: `yes` iff square and `A = Aᵀ`. -/
theorem symmetric_yes_iff (A : Mat QI) (m : Rat) :
    symmetricV A m = .yes ↔ A.r = A.c ∧ ∀ i j, i < A.r → j < A.c → A.f i j = A.f j i :=
  symmetricV_yes_iff A m

/-- identity decider: `yes` iff square with entries `δ_ij`. -/
theorem identity_yes_iff (A : Mat QI) (m : Rat) :
    identityV A m = .yes ↔ A.r = A.c ∧ ∀ i j, i < A.r → j < A.c → A.f i j = if i = j then 1 else 0 :=
  identityV_yes_iff A m

/-- idempotent decider: `yes` iff square and `A = A·A`. -/
theorem idempotent_yes_iff (A : Mat QI) (m : Rat) :
    idempotentV A m = .yes ↔ A.r = A.c ∧ ∀ i j, i < A.r → j < A.c → A.f i j = sumN A.c (fun k => A.f i k * A.f k j) :=
  idempotentV_yes_iff A m

/-- unitary decider: `yes` iff square, the columns are orthonormal (`Aᴴ A = I`) and the rows are (`A Aᴴ = I`). -/
theorem unitary_yes_iff (A : Mat QI) (m : Rat) :
    unitaryV A m = .yes ↔ A.r = A.c ∧
      (∀ i j, i < A.c → j < A.c → sumN A.r (fun k => (A.f k i).conj * A.f k j) = if i = j then 1 else 0) ∧
      (∀ i j, i < A.r → j < A.r → sumN A.c (fun k => A.f i k * (A.f j k).conj) = if i = j then 1 else 0) :=
  unitaryV_yes_iff A m

/-- normal decider: `yes` iff square and `A Aᴴ = Aᴴ A`. -/
theorem normal_yes_iff (A : Mat QI) (m : Rat) :
    normalV A m = .yes ↔ A.r = A.c ∧ ∀ i j, i < A.r → j < A.r →
      sumN A.c (fun k => A.f i k * (A.f j k).conj) = sumN A.r (fun k => (A.f k i).conj * A.f k j) :=
  normalV_yes_iff A m

/-- anti-Hermitian decider (the code asks `is_hermitian(1j * A)`): `yes` iff square and `A = -Aᴴ`. -/
theorem antiHermitian_yes_iff (A : Mat QI) (m : Rat) :
    antiHermitianV A m = .yes ↔ A.r = A.c ∧ ∀ i j, i < A.r → j < A.c → A.f i j = -((A.f j i).conj) :=
  antiHermitianV_yes_iff A m

/-- projection decider (toqito's `is_projection` = its docstring example = idempotent): `yes` iff square and `A·A = A`. -/
theorem projection_yes_iff (A : Mat QI) (m : Rat) :
    projectionV A m = .yes ↔ A.r = A.c ∧ ∀ i j, i < A.r → j < A.c → sumN A.c (fun k => A.f i k * A.f k j) = A.f i j :=
  projectionV_yes_iff A m

/-- commuting decider: `yes` iff `A B - B A = 0` entrywise (operands of the same square size). -/
theorem commuting_yes_iff (A B : Mat QI) (m : Rat) (hc : A.c = B.c) :
    commutingV A B m = .yes ↔ ∀ i j, i < A.r → j < B.c →
      sumN A.c (fun k => A.f i k * B.f k j) - sumN B.c (fun k => B.f i k * A.f k j) = 0 :=
  commutingV_yes_iff A B m hc

/-- circulant decider: `yes` iff square and every row is the previous row rotated one place to the right. -/
theorem circulant_yes_iff (A : Mat QI) (m : Rat) :
    circulantV A m = .yes ↔ A.r = A.c ∧ ∀ i j, i < A.r - 1 → j < A.r → A.f (i + 1) j = A.f i ((j + A.r - 1) % A.r) :=
  circulantV_yes_iff A m

/-- diagonal decider: `yes` iff square with all off-diagonal entries exactly zero. -/
theorem diagonal_yes_iff (A : Mat QI) :
    diagonalV A = .yes ↔ A.r = A.c ∧ ∀ i j, i < A.r → j < A.c → i ≠ j → A.f i j = 0 :=
  diagonalV_yes_iff A

/-- permutation decider: `yes` iff every entry is 0 or 1 and every row and every column sums to 1. -/
theorem permutation_yes_iff (A : Mat QI) :
    permutationV A = .yes ↔ (∀ i j, i < A.r → j < A.c → A.f i j = 0 ∨ A.f i j = 1) ∧
      (∀ i, i < A.r → sumN A.c (fun j => A.f i j) = 1) ∧ (∀ j, j < A.c → sumN A.r (fun i => A.f i j) = 1) :=
  permutationV_yes_iff A

/-- non-negative decider: `yes` iff every entry is real and `≥ 0`. -/
theorem nonnegative_yes_iff (A : Mat QI) :
    nonnegativeV A = .yes ↔ ∀ i j, i < A.r → j < A.c → (A.f i j).im = 0 ∧ 0 ≤ (A.f i j).re :=
  nonnegativeV_yes_iff A

/-- **PSD certificate**: if the checker accepts `A = L·diag(D)·Lᴴ` with `D ≥ 0` then the complex matrix
    denoted by `A` is positive semidefinite (the harness sends one for every `yes` of the definiteness deciders). -/
theorem psd_certificate_sound {n : Nat} (A L : EMat n n) (D : Fin n → Rat) :
    psdCertLDL A L D = true → A.toM.PosSemidef :=
  psdCertLDL_sound A L D

/-- **non-PSD certificate**: if the checker accepts a vector with `xᴴ (A + μ I) x < 0` then `A + μ I` is not
    positive semidefinite, i.e. `A` has an eigenvalue below `-μ` (sent for every `no` on a Hermitian matrix). -/
theorem not_psd_certificate_sound {n : Nat} (A : EMat n n) (x : EMat n 1) (μ : Rat) :
    npsdCert A x μ = true →
      ¬ (A.toM + (((μ : Rat) : ℝ) : ℂ) • (1 : Matrix (Fin n) (Fin n) ℂ)).PosSemidef :=
  npsdCert_sound A x μ

/-- **independence certificate**: a left inverse `W V = I` proves that the columns of `V` are linearly
    independent over `ℂ` (sent for every `yes` of `is_linearly_independent`). -/
theorem linIndep_certificate_sound {d n : Nat} (V : EMat d n) (W : EMat n d) :
    linIndepCert V W = true → LinearIndependent ℂ V.toM.col :=
  linIndepCert_sound V W

/-- **dependence certificate**: a non-zero `c` with `V c = 0` proves that they are not (sent for every `no`). -/
theorem linDep_certificate_sound {d n : Nat} (V : EMat d n) (c : EMat n 1) :
    linDepCert V c = true → ¬ LinearIndependent ℂ V.toM.col :=
  linDepCert_sound V c

/-- **rank certificate**: `P S Q = I_r`, `S N = 0`, `M N = I_k`, `r + k = #columns` prove `rank S = r` and
    `dim ker S = k`; with `S` the linear system of `commutant` this is the exact dimension of the commutant. -/
theorem rank_certificate_sound {R C r k : Nat} (S : EMat R C) (P : EMat r R) (Q : EMat C r) (N : EMat C k) (M : EMat k C) :
    rankCert S P Q N M = true → S.toM.rank = r ∧ Module.finrank ℂ (LinearMap.ker S.toM.mulVecLin) = k :=
  rankCert_sound S P Q N M

/-! ## Part 3 — invariances used by the generators (all sizes, commutative star rings) -/

section invariance
open Matrix
variable {n : Type} [Fintype n] [DecidableEq n] {R : Type} [CommRing R] [StarRing R]

/-- conjugation `U A Uᴴ` by any matrix preserves Hermitian matrices. -/
theorem hermitian_conj_invariant (A U : Matrix n n R) (hA : A.IsHermitian) : (U * A * Uᴴ).IsHermitian :=
  Toq.MatrixInv.herm_conj A U hA

/-- … and anti-Hermitian matrices. -/
theorem antiHermitian_conj_invariant (A U : Matrix n n R) (hA : Aᴴ = -A) : (U * A * Uᴴ)ᴴ = -(U * A * Uᴴ) :=
  Toq.MatrixInv.antiherm_conj A U hA

/-- unitary conjugation preserves normality. -/
theorem normal_unitary_conj_invariant (A U : Matrix n n R) (hU : Uᴴ * U = 1) (hA : A * Aᴴ = Aᴴ * A) :
    (U * A * Uᴴ) * (U * A * Uᴴ)ᴴ = (U * A * Uᴴ)ᴴ * (U * A * Uᴴ) :=
  Toq.MatrixInv.normal_conj A U hU hA

/-- products of unitaries are unitary (permutations, phases, Givens rotations, Cayley transforms compose). -/
theorem unitary_mul_closed (U V : Matrix n n R) (hU : Uᴴ * U = 1) (hV : Vᴴ * V = 1) : (U * V)ᴴ * (U * V) = 1 :=
  Toq.MatrixInv.unitary_mul U V hU hV

/-- the columns of a unitary are orthonormal. -/
theorem unitary_columns_orthonormal (U : Matrix n n R) (hU : Uᴴ * U = 1) (i j : n) :
    ∑ k, star (U k i) * U k j = if i = j then 1 else 0 :=
  Toq.MatrixInv.unitary_cols U hU i j

/-- unitary conjugation preserves idempotents (projections). -/
theorem idempotent_unitary_conj_invariant (A U : Matrix n n R) (hU : Uᴴ * U = 1) (hA : A * A = A) :
    (U * A * Uᴴ) * (U * A * Uᴴ) = U * A * Uᴴ :=
  Toq.MatrixInv.idem_conj A U hU hA

/-- transposition preserves symmetric matrices, -/
theorem symmetric_transpose_invariant (A : Matrix n n R) (hA : Aᵀ = A) : (Aᵀ)ᵀ = Aᵀ :=
  Toq.MatrixInv.symm_transpose A hA

/-- and so does every congruence `Q A Qᵀ`. -/
theorem symmetric_congruence_invariant (A Q : Matrix n n R) (hA : Aᵀ = A) : (Q * A * Qᵀ)ᵀ = Q * A * Qᵀ :=
  Toq.MatrixInv.symm_congr A Q hA

end invariance

/-- conjugation `B A Bᴴ` preserves positive semidefiniteness (any star-ordered coefficient ring, e.g. `ℂ`;
    rectangular `B` allowed). -/
theorem psd_conj_invariant {n m S : Type} [Fintype n] [Fintype m] [Ring S] [PartialOrder S] [StarRing S]
    (A : Matrix n n S) (B : Matrix m n S) (hA : A.PosSemidef) : (B * A * B.conjTranspose).PosSemidef :=
  hA.mul_mul_conjTranspose_same B

/-- **Cayley transform**: in any star ring, if `sᴴ = -s` and `u` is the inverse of `1 + s` then
    `(1 - s)·u` is unitary (used for `n × n` matrices over `ℚ[i]`). -/
theorem cayley_unitary {R : Type} [Ring R] [StarRing R] (s u : R) (hs : star s = -s)
    (h1 : u * (1 + s) = 1) (h2 : (1 + s) * u = 1) :
    star ((1 - s) * u) * ((1 - s) * u) = 1 ∧ ((1 - s) * u) * star ((1 - s) * u) = 1 :=
  Toq.MatrixInv.cayley_unitary s u hs h1 h2

/-- the product of two permutation matrices (ones at `(i, σ i)`) is the permutation matrix of the
    composition. -/
theorem permutation_mul_closed {α : Type} [Semiring α] (n : Nat) (σ τ : Nat → Nat) (hσ : ∀ i, i < n → σ i < n)
    (i j : Nat) (hi : i < n) :
    (mul (permMat n σ) (permMat n τ : Mat α)).f i j = (permMat n (fun k => τ (σ k)) : Mat α).f i j :=
  permMat_mul n σ τ hσ i j hi

/-! ## concrete instances (the hypotheses are satisfiable, the models compute) -/

/-- the docstring example of `vec` -/
example : (List.range 4).map (fun k => (vec (⟨2, 2, fun i j => (2 * i + j + 1 : Int)⟩ : Mat Int)).f k 0) = [1, 3, 2, 4] := by
  decide

/-- `tensor(v, 5)` through `fast_exp` on a length-2 integer vector: shape `1 × 32`, last entry `2^5` -/
example : tensor (TensorArgs.power (⟨1, 2, fun _ j => (j + 1 : Int)⟩ : Mat Int) 5)
      = TensorResult.mat (kronPow ⟨1, 2, fun _ j => (j + 1 : Int)⟩ 5)
    ∧ (kronPow (⟨1, 2, fun _ j => (j + 1 : Int)⟩ : Mat Int) 5).c = 32
    ∧ (kronPow (⟨1, 2, fun _ j => (j + 1 : Int)⟩ : Mat Int) 5).f 0 31 = 32 :=
  ⟨tensor_pow_eq_iterate _ 5 (by omega), by decide, by decide⟩

/-- the running-sum loop of `majorizes` on `[3,0,0]` against `[1,1,1]` and conversely -/
example : majLoop [3, 0, 0] [1, 1, 1] 0 0 = true ∧ majLoop [1, 1, 1] [3, 0, 0] 0 0 = false := by
  decide +kernel

/-! ## Part 4 — the exact rank oracle is Mathlib's rank (correctness of the elimination), and what uses it

`rank`, `spark`, `linIndepV`, the rank test of the UPB search and `commutantDim` all run the shared Gaussian elimination of
`Toq/Core/Rank.lean`, proved correct in `Toq/Proofs/Rank.lean`.  `qmatToM r c M` is the complex `r × c` matrix denoted by the
leading block of the exact rows `M`; `colFamily m M cols` the family of its columns with the listed indices. -/

/-- **The exact rank routine is correct.**  For every size and all exact rows, `rank rows cols M` (Gaussian elimination over
    `ℚ[i]`) equals Mathlib's `Matrix.rank` of the complex `rows × cols` matrix the rows denote. -/
theorem rank_correct (rows cols : Nat) (M : QMat) : rank rows cols M = (qmatToM rows cols M).rank :=
  rank_eq_rank rows cols M

/-- **Rank deficiency = a non-zero kernel vector.**  `rank r c M < c` holds exactly when some non-zero `x ∈ ℂ^c` satisfies
    `M x = 0`.  This is the test of the UPB search (`rank < d_i`: party `i` has a non-zero local vector annihilated by all
    local factors it received). -/
theorem rank_lt_cols_iff_kernel (r c : Nat) (M : QMat) :
    rank r c M < c ↔ ∃ x : Fin c → ℂ, x ≠ 0 ∧ Matrix.mulVec (qmatToM r c M) x = 0 := by
  rw [rank_correct]; exact Toq.Rank.rank_lt_cols_iff_kernel _

/-- **`is_linearly_independent` decides linear independence**: the exact verdict is `yes` exactly when the `n` vectors
    (of length `d`, as complex vectors) are linearly independent over `ℂ` … -/
theorem linIndepV_yes_iff (d n : Nat) (vs : Nat → Nat → QI) :
    linIndepV d n vs = .yes ↔ LinearIndependent ℂ (fun (k : Fin n) (a : Fin d) => (vs k.val a.val).toC) :=
  linIndepV_yes_iff' d n vs

/-- … and `no` exactly when they are not (the verdict is never `unknown`). -/
theorem linIndepV_no_iff (d n : Nat) (vs : Nat → Nat → QI) :
    linIndepV d n vs = .no ↔ ¬ LinearIndependent ℂ (fun (k : Fin n) (a : Fin d) => (vs k.val a.val).toC) := by
  rw [← linIndepV_yes_iff]
  unfold linIndepV Verdict.ofBool
  split <;> simp

/-- **Each rank test of `spark` decides linear dependence of the selected columns**: `matrix_rank(mat[:, cols]) < len(cols)`
    with the exact rank holds exactly when the columns `cols` of the matrix are linearly dependent over `ℂ`. -/
theorem spark_rank_test_iff (m : Nat) (M : QMat) (cols : List Nat) :
    rank m cols.length (selectCols M cols) < cols.length ↔ ¬ LinearIndependent ℂ (colFamily m M cols) :=
  rank_selectCols_lt_iff m M cols

/-- **The subsets `spark` runs through are all of them**: some `k`-subset enumerated by `combinations n k` is dependent iff some
    strictly increasing list of `k` column indices below `n` selects linearly dependent columns. -/
theorem spark_subsets_complete (m n : Nat) (M : QMat) (k : Nat) :
    DependentCols m n M k ↔ ∃ cols : List Nat, cols.length = k ∧ cols.Pairwise (· < ·) ∧ (∀ x ∈ cols, x < n) ∧
      ¬ LinearIndependent ℂ (colFamily m M cols) :=
  dependentCols_iff m n M k

/-- **`spark`: a zero column gives 1** (the shortcut `np.any(np.all(mat == 0, axis=0))`). -/
theorem spark_zero_column (m n : Nat) (M : QMat) (h : ∃ j, j < n ∧ ∀ i, i < m → M.get i j = 0) : spark m n M = 1 :=
  spark_of_zeroCol m n M h

/-- **`spark` is the least number of linearly dependent columns.**  For an `m × n` matrix without a zero column the value `s`
    returned by the mirror of `spark` (with the exact rank) satisfies `1 ≤ s ≤ min(m,n) + 1`; if `s ≤ min(m,n)` then some `s`
    columns are linearly dependent; and for every `1 ≤ k < s` every `k` columns are linearly independent
    (so `s = min(m,n) + 1` is returned exactly when every `min(m,n)` columns are independent). -/
theorem spark_spec (m n : Nat) (M : QMat) (h : ¬ ∃ j, j < n ∧ ∀ i, i < m → M.get i j = 0) :
    1 ≤ spark m n M ∧ spark m n M ≤ min m n + 1 ∧
    (spark m n M ≤ min m n → DependentCols m n M (spark m n M)) ∧
    (∀ k, 1 ≤ k → k < spark m n M → ¬ DependentCols m n M k) :=
  spark_spec_aux m n M h

/-- **`commutantDim` is the nullity of the linear system of `commutant`**: `dim² − rank` of the stacked system
    `[A_g ⊗ 1 − 1 ⊗ A_gᵀ]_g` equals the dimension over `ℂ` of its kernel (rank–nullity with the exact rank). -/
theorem commutantDim_eq_nullity (dim : Nat) (gens : List (Mat QI)) :
    commutantDim dim gens
      = Module.finrank ℂ (LinearMap.ker (qmatToM (gens.length * dim * dim) (dim * dim) (commStack dim gens)).mulVecLin) :=
  commutantDim_eq dim gens

/-- the routines on concrete matrices: `[[1, 0, 1], [0, i, i]]` has rank 2 and spark 3; `[[1, 2], [2, 4]]` has spark 2 -/
example : rank 2 3 #[#[1, 0, 1], #[0, ⟨0, 1⟩, ⟨0, 1⟩]] = 2 ∧ spark 2 3 #[#[1, 0, 1], #[0, ⟨0, 1⟩, ⟨0, 1⟩]] = 3
    ∧ spark 2 2 #[#[1, ⟨2, 0⟩], #[⟨2, 0⟩, ⟨4, 0⟩]] = 2 := by
  decide +kernel


/-! ## Part 5 — the tolerance-level mirrors (`Toq/Model/MatrixPredsTol.lean`) -/

/-- **`closeQ` is `np.isclose`.**  For `rtol, atol ≥ 0` the exact rational test `closeQ a b rtol atol` holds iff
    `|a − b| ≤ atol + rtol·|b|` for the complex numbers denoted by `a`, `b` (moduli over the reals; note the asymmetry in `a`, `b`). -/
theorem isclose_is_numpy (a b : QI) (rtol atol : Rat) (hr : 0 ≤ rtol) (ht : 0 ≤ atol) :
    closeQ a b rtol atol = true ↔ ‖a.toC - b.toC‖ ≤ ((atol : Rat) : ℝ) + ((rtol : Rat) : ℝ) * ‖b.toC‖ :=
  closeQ_iff_real a b rtol atol hr ht

/-- **`allcloseQ` is `np.allclose`**: every entry of the first matrix is close to the corresponding entry of the second (reference)
    matrix in the sense of `np.isclose`. -/
theorem allclose_is_numpy (L R : Mat QI) (rtol atol : Rat) (hr : 0 ≤ rtol) (ht : 0 ≤ atol) :
    allcloseQ L R rtol atol = true ↔ ∀ i j, i < L.r → j < L.c →
      ‖(L.f i j).toC - (R.f i j).toC‖ ≤ ((atol : Rat) : ℝ) + ((rtol : Rat) : ℝ) * ‖(R.f i j).toC‖ :=
  allcloseQ_iff_real L R rtol atol hr ht

/-- the library defaults `rtol = 1e-5`, `atol = 1e-8` are dominated by the margin `1e-3` the harness uses (`4·rtol ≤ m`, `4·atol ≤ m`). -/
theorem tolerance_default_ok : TolOK (1 / 1000) rtolDefault atolDefault := tolOK_default

/-- **exact equality forces `np.allclose`**: a `yes` of the three-valued equation decider implies that the comparison of the same two
    sides with any tolerances holds. -/
theorem equation_yes_forces_allclose (L R : Mat QI) (m rtol atol : Rat) (hr : R.r = L.r) (hc : R.c = L.c)
    (h : eqV L R m = .yes) : allcloseF L R rtol atol = true :=
  eqV_yes_allcloseF L R m rtol atol hr hc h

/-- **a violation by the margin forces `np.allclose` to fail**: a `no` of the three-valued equation decider (some entry differs by
    `≥ m·(1+scale)`) implies that the comparison fails for all tolerances with `4·rtol ≤ m`, `4·atol ≤ m`. -/
theorem equation_no_forces_not_allclose (L R : Mat QI) (m rtol atol : Rat) (hr : R.r = L.r) (hc : R.c = L.c)
    (hok : TolOK m rtol atol) (h : eqV L R m = .no) : allcloseF L R rtol atol = false :=
  eqV_no_allcloseF L R m rtol atol hr hc hok h

/-- `is_hermitian`: the three-valued verdict forces the verdict of the code's own test `allclose(mat, mat.conj().T, rtol, atol)`. -/
theorem hermitian_tolerance_agrees (A : Mat QI) (m rtol atol : Rat) :
    (hermitianV A m = .yes → hermitianT A rtol atol = true) ∧
    (TolOK m rtol atol → hermitianV A m = .no → hermitianT A rtol atol = false) := hermitianV_tol A m rtol atol

/-- `is_anti_hermitian` (`is_hermitian(1j * mat)`): likewise. -/
theorem antiHermitian_tolerance_agrees (A : Mat QI) (m rtol atol : Rat) :
    (antiHermitianV A m = .yes → antiHermitianT A rtol atol = true) ∧
    (TolOK m rtol atol → antiHermitianV A m = .no → antiHermitianT A rtol atol = false) := antiHermitianV_tol A m rtol atol

/-- `is_symmetric`: likewise. -/
theorem symmetric_tolerance_agrees (A : Mat QI) (m rtol atol : Rat) :
    (symmetricV A m = .yes → symmetricT A rtol atol = true) ∧
    (TolOK m rtol atol → symmetricV A m = .no → symmetricT A rtol atol = false) := symmetricV_tol A m rtol atol

/-- `is_normal` (`allclose(A Aᴴ, Aᴴ A)`): likewise. -/
theorem normal_tolerance_agrees (A : Mat QI) (m rtol atol : Rat) :
    (normalV A m = .yes → normalT A rtol atol = true) ∧
    (TolOK m rtol atol → normalV A m = .no → normalT A rtol atol = false) := normalV_tol A m rtol atol

/-- `is_unitary` (both `allclose(Uᴴ U, I)` and `allclose(U Uᴴ, I)`): likewise. -/
theorem unitary_tolerance_agrees (A : Mat QI) (m rtol atol : Rat) :
    (unitaryV A m = .yes → unitaryT A rtol atol = true) ∧
    (TolOK m rtol atol → unitaryV A m = .no → unitaryT A rtol atol = false) := unitaryV_tol A m rtol atol

/-- `is_pseudo_unitary(mat, p, q)` for `p, q ≥ 0`: likewise (negative `p`, `q` are the `ValueError` branch of the mirror). -/
theorem pseudoUnitary_tolerance_agrees (A : Mat QI) (p q : Nat) (m rtol atol : Rat) :
    (pseudoUnitaryV A p q m = .yes → pseudoUnitaryT A p q rtol atol = .ok true) ∧
    (TolOK m rtol atol → pseudoUnitaryV A p q m = .no → pseudoUnitaryT A p q rtol atol = .ok false) :=
  pseudoUnitaryV_tol A p q m rtol atol

/-- `is_identity`: likewise. -/
theorem identity_tolerance_agrees (A : Mat QI) (m rtol atol : Rat) :
    (identityV A m = .yes → identityT A rtol atol = true) ∧
    (TolOK m rtol atol → identityV A m = .no → identityT A rtol atol = false) := identityV_tol A m rtol atol

/-- `is_idempotent` (`allclose(mat, mat @ mat)`, reference side the square): likewise. -/
theorem idempotent_tolerance_agrees (A : Mat QI) (m rtol atol : Rat) :
    (idempotentV A m = .yes → idempotentT A rtol atol = true) ∧
    (TolOK m rtol atol → idempotentV A m = .no → idempotentT A rtol atol = false) := idempotentV_tol A m rtol atol

/-- `is_projection` (`allclose(matrix_power(mat, 2), mat)`, reference side the matrix): likewise. -/
theorem projection_tolerance_agrees (A : Mat QI) (m rtol atol : Rat) :
    (projectionV A m = .yes → projectionT A rtol atol = true) ∧
    (TolOK m rtol atol → projectionV A m = .no → projectionT A rtol atol = false) := projectionV_tol A m rtol atol

/-- `is_circulant` (row-by-row `allclose(mat[i+1], roll(mat[i], 1))`): likewise, for any tolerances and in particular the defaults. -/
theorem circulant_tolerance_agrees (A : Mat QI) (m rtol atol : Rat) :
    (circulantV A m = .yes → circulantTol A rtol atol = true) ∧
    (TolOK m rtol atol → circulantV A m = .no → circulantTol A rtol atol = false) := circulantV_tol A m rtol atol

/-- `is_commuting` (`allclose(AB − BA, 0)`): likewise. -/
theorem commuting_tolerance_agrees (A B : Mat QI) (m rtol atol : Rat) (hc : A.c = B.c) :
    (commutingV A B m = .yes → commutingTol A B rtol atol = true) ∧
    (TolOK m rtol atol → commutingV A B m = .no → commutingTol A B rtol atol = false) := commutingV_tol A B m rtol atol hc

/-- `is_stochastic(mat, mat_type)` (`mat_type ∈ {left, right, doubly}`): likewise. -/
theorem stochastic_tolerance_agrees (A : Mat QI) (k : Nat) (hk : k ≤ 2) (m rtol atol : Rat) :
    (stochasticV A k m = .yes → stochasticTol A k rtol atol = .ok true) ∧
    (TolOK m rtol atol → stochasticV A k m = .no → stochasticTol A k rtol atol = .ok false) := stochasticV_tol A k hk m rtol atol

/-- `is_mutually_orthogonal`: likewise, and the `ValueError` for fewer than two vectors is raised by both or neither. -/
theorem mutuallyOrthogonal_tolerance_agrees (d n : Nat) (vs : Nat → Nat → QI) (m rtol atol : Rat) :
    (mutuallyOrthogonalV d n vs m = .ok .yes → mutuallyOrthogonalTol d n vs rtol atol = .ok true) ∧
    (TolOK m rtol atol → mutuallyOrthogonalV d n vs m = .ok .no → mutuallyOrthogonalTol d n vs rtol atol = .ok false) ∧
    (∀ e, mutuallyOrthogonalV d n vs m = .error e ↔ mutuallyOrthogonalTol d n vs rtol atol = .error e) :=
  mutuallyOrthogonalV_tol d n vs m rtol atol

/-- `is_orthonormal`: likewise. -/
theorem orthonormal_tolerance_agrees (d n : Nat) (vs : Nat → Nat → QI) (m rtol atol : Rat) :
    (orthonormalV d n vs m = .ok .yes → orthonormalTol d n vs rtol atol = .ok true) ∧
    (TolOK m rtol atol → orthonormalV d n vs m = .ok .no → orthonormalTol d n vs rtol atol = .ok false) :=
  orthonormalV_tol d n vs m rtol atol

/-- **the eigenvalue test of `is_positive_semidefinite`** (`all(eigvalsh(A) ≥ −|atol|)`) is positive semidefiniteness of `A + |atol|·1`:
    for Hermitian `A` and real `t`, `A + t·1` is positive semidefinite iff every eigenvalue is `≥ −t`. -/
theorem psd_shift_iff_eigenvalues {n : Type} [Fintype n] [DecidableEq n] (A : Matrix n n ℂ) (hA : A.IsHermitian) (t : ℝ) :
    (A + (t : ℂ) • (1 : Matrix n n ℂ)).PosSemidef ↔ ∀ i, -t ≤ hA.eigenvalues i :=
  Toq.MatrixSpectral.posSemidef_shift_iff A hA t

/-! ## Part 6 — readings of the remaining deciders -/

/-- pseudo-unitary decider: `yes` iff square, `p + q = n` and `Aᴴ J A = J` entrywise for `J = diag(1_p, −1_q)`. -/
theorem pseudoUnitary_yes_iff (A : Mat QI) (p q : Nat) (m : Rat) :
    pseudoUnitaryV A p q m = .yes ↔ A.r = A.c ∧ p + q = A.r ∧
      ∀ i j, i < A.r → j < A.r → (mul (mul (ctranspose A) (signature p q)) A).f i j = (signature p q).f i j :=
  pseudoUnitaryV_yes_iff A p q m

/-- **the exact determinant is Mathlib's determinant** (Laplace expansion `detL`, all sizes). -/
theorem det_correct (n : Nat) (f : Nat → Nat → QI) : (detL n f).toC = (Toq.Rank.fnToM n n f).det := detL_eq_det n f

/-- **the exact inverse is Mathlib's inverse** (cofactor formula `invL`, all sizes; both are `0` on singular matrices). -/
theorem inverse_correct (n : Nat) (f : Nat → Nat → QI) : Toq.Rank.fnToM n n (invL n f) = (Toq.Rank.fnToM n n f)⁻¹ := fnToM_invL n f

/-- pseudo-Hermitian decider: `yes` iff the signature `η` is square, Hermitian and invertible, `H` is square of the same size and
    `η H η⁻¹ = Hᴴ` (Mathlib's inverse). -/
theorem pseudoHermitian_yes_iff (H η : Mat QI) (m : Rat) :
    pseudoHermitianVL H η m = .ok .yes ↔
      η.c = η.r ∧ H.r = η.r ∧ H.c = η.r ∧ (Toq.Rank.fnToM η.r η.r η.f).IsHermitian ∧ IsUnit (Toq.Rank.fnToM η.r η.r η.f).det ∧
        Toq.Rank.fnToM η.r η.r η.f * Toq.Rank.fnToM η.r η.r H.f * (Toq.Rank.fnToM η.r η.r η.f)⁻¹
          = (Toq.Rank.fnToM η.r η.r H.f).conjTranspose :=
  pseudoHermitianVL_yes_iff H η m

/-- … a `no` excludes the exact relation, -/
theorem pseudoHermitian_no_excludes (H η : Mat QI) (m : Rat) (hno : pseudoHermitianVL H η m = .ok .no) :
    ¬(H.r = η.r ∧ H.c = η.r ∧
      Toq.Rank.fnToM η.r η.r η.f * Toq.Rank.fnToM η.r η.r H.f * (Toq.Rank.fnToM η.r η.r η.f)⁻¹
        = (Toq.Rank.fnToM η.r η.r H.f).conjTranspose) :=
  pseudoHermitianVL_no_not H η m hno

/-- … and the two `ValueError`s are raised exactly for a signature that is not Hermitian resp. Hermitian with determinant zero. -/
theorem pseudoHermitian_errors (H η : Mat QI) (m : Rat) :
    (pseudoHermitianVL H η m = .error "SignatureNotHermitian" ↔ hermitianV η m ≠ .yes) ∧
    (pseudoHermitianVL H η m = .error "SignatureNotInvertible" ↔
      η.c = η.r ∧ (Toq.Rank.fnToM η.r η.r η.f).IsHermitian ∧ (Toq.Rank.fnToM η.r η.r η.f).det = 0) :=
  ⟨pseudoHermitianVL_error_notHermitian_iff H η m, pseudoHermitianVL_error_notInvertible_iff_det H η m⟩

/-- stochastic decider (`k = 0, 1, 2` for left, right, doubly): `yes` iff square, entries real and `≥ 0`, and the required column /
    row sums are exactly `1`. -/
theorem stochastic_yes_iff (A : Mat QI) (k : Nat) (m : Rat) :
    stochasticV A k m = .yes ↔ A.r = A.c ∧ (∀ i j, i < A.r → j < A.c → (A.f i j).im = 0 ∧ 0 ≤ (A.f i j).re) ∧
      ((k = 0 ∨ k = 2) → ∀ j, j < A.c → sumN A.r (fun i => A.f i j) = 1) ∧
      ((k = 1 ∨ k = 2) → ∀ i, i < A.r → sumN A.c (fun j => A.f i j) = 1) :=
  stochasticV_yes_iff A k m

/-- entrywise positive decider: `yes` iff every entry is real and `> 0`. -/
theorem positive_yes_iff (A : Mat QI) :
    positiveV A = .yes ↔ ∀ i j, i < A.r → j < A.c → (A.f i j).im = 0 ∧ 0 < (A.f i j).re := positiveV_yes_iff A

/-- **`is_diagonally_dominant`, verdict `yes`**: square, and in every row the modulus of the diagonal entry exceeds (`is_strict`) resp.
    is at least the sum of the moduli of the other entries — true moduli over the reals (`rowGap A i = |a_ii| − Σ_{j≠i} |a_ij|`). -/
theorem diagDominant_yes (A : Mat QI) (strict : Bool) (m : Rat) (hm : 0 < m) (h : diagDominantV A strict m = .yes) :
    A.r = A.c ∧ ∀ i, i < A.r → (strict = true → 0 < rowGap A i) ∧ 0 ≤ rowGap A i := diagDominantV_yes A strict m hm h

/-- **`is_diagonally_dominant`, verdict `no`**: not square, or some row is not strictly dominant (`is_strict`) resp. not weakly dominant. -/
theorem diagDominant_no (A : Mat QI) (strict : Bool) (m : Rat) (hm : 0 < m) (h : diagDominantV A strict m = .no) :
    A.r ≠ A.c ∨ ∃ i, i < A.r ∧ (strict = true → rowGap A i ≤ 0) ∧ (strict = false → rowGap A i < 0) :=
  diagDominantV_no A strict m hm h

/-- the rational enclosure of a modulus used for diagonal dominance contains the modulus. -/
theorem modulus_enclosure_sound (a : QI) :
    (((absEnclosure a).1 : Rat) : ℝ) ≤ ‖a.toC‖ ∧ ‖a.toC‖ ≤ (((absEnclosure a).2 : Rat) : ℝ) := absEnclosure_spec a

/-- **`is_totally_positive`, verdict `yes`** (proved determinant): every minor of the sizes considered — rows and columns selected by
    order embeddings, i.e. in increasing order — is real and `≥ margin`. -/
theorem totallyPositive_yes_iff (A : Mat QI) (ss : Option (List Nat)) (m : Rat) :
    totallyPositiveVL A ss m = .yes ↔
      ∀ j ∈ tpSizes A ss, ∀ (r : Fin j ↪o Fin A.r) (c : Fin j ↪o Fin A.c),
        ((Toq.Rank.fnToM A.r A.c A.f).submatrix r c).det.im = 0 ∧
          ((m : ℚ) : ℝ) ≤ ((Toq.Rank.fnToM A.r A.c A.f).submatrix r c).det.re :=
  totallyPositiveVL_yes_iff_orderEmb A ss m

/-- **`is_totally_positive`, verdict `no`**: some such minor has real part `≤ −margin` or an imaginary part of modulus `≥ margin`. -/
theorem totallyPositive_no_iff (A : Mat QI) (ss : Option (List Nat)) (m : Rat) (hm : 0 < m) :
    totallyPositiveVL A ss m = .no ↔
      ∃ j ∈ tpSizes A ss, ∃ (r : Fin j ↪o Fin A.r) (c : Fin j ↪o Fin A.c),
        ((Toq.Rank.fnToM A.r A.c A.f).submatrix r c).det.re ≤ -((m : ℚ) : ℝ) ∨
          ((m : ℚ) : ℝ) ≤ |((Toq.Rank.fnToM A.r A.c A.f).submatrix r c).det.im| :=
  totallyPositiveVL_no_iff_orderEmb A ss m hm

/-- the default `sub_sizes` of `is_totally_positive` are `1, …, min(rows, cols)`. -/
theorem totallyPositive_default_sizes (A : Mat QI) (j : Nat) : j ∈ tpSizes A none ↔ 1 ≤ j ∧ j ≤ min A.r A.c :=
  mem_tpSizes_none A j

/-- **`is_positive_semidefinite`, verdict `yes`** (self-checked `LDLᴴ` certificate, all sizes): the matrix is square and the complex
    matrix it denotes is positive semidefinite (in particular Hermitian). -/
theorem psd_yes_sound (A : Mat QI) (m : Rat) (h : psdV A m = .yes) :
    A.r = A.c ∧ (Toq.Rank.fnToM A.r A.r A.f).PosSemidef := psdV_yes_sound A m h

/-- **`is_positive_semidefinite`, verdict `no`** (self-checked negative direction): the matrix is not Hermitian by the margin, or it is
    Hermitian with an eigenvalue below `−μ` for some `μ > 0` (`μ = margin·(1 + scale)`). -/
theorem psd_no_sound (A : Mat QI) (m : Rat) (hm : 0 < m) (h : psdV A m = .no) :
    hermitianV A m = .no ∨ (∃ hA : (Toq.Rank.fnToM A.r A.r A.f).IsHermitian, ∃ μ : Rat, 0 < μ ∧
      ∃ i, hA.eigenvalues i < -((μ : Rat) : ℝ)) := psdV_no_sound A m hm h

/-- **`is_positive_definite`, verdict `yes`**: square and positive definite. -/
theorem pd_yes_sound (A : Mat QI) (m : Rat) (hm : 0 < m) (h : pdV A m = .yes) :
    A.r = A.c ∧ (Toq.Rank.fnToM A.r A.r A.f).PosDef := pdV_yes_sound A m hm h

/-- **`is_positive_definite`, verdict `no`**: not square, not exactly Hermitian (the code uses `np.array_equal`), or an eigenvalue
    below `−μ < 0`. -/
theorem pd_no_sound (A : Mat QI) (m : Rat) (hm : 0 < m) (h : pdV A m = .no) :
    A.r ≠ A.c ∨ (∃ i j, i < A.r ∧ j < A.c ∧ A.f i j ≠ (A.f j i).conj) ∨
      (∃ hA : (Toq.Rank.fnToM A.r A.r A.f).IsHermitian, ∃ μ : Rat, 0 < μ ∧ ∃ i, hA.eigenvalues i < -((μ : Rat) : ℝ)) :=
  pdV_no_sound A m hm h

/-- the eigenvalue test of the code agrees with a `yes`: all eigenvalues of a positive semidefinite matrix are `≥ −|atol|` for every
    `atol`. -/
theorem psd_yes_eigenvalue_test {n : Type} [Fintype n] [DecidableEq n] {A : Matrix n n ℂ} (hA : A.PosSemidef) (atol : ℝ) (i : n) :
    -|atol| ≤ hA.1.eigenvalues i :=
  Toq.MatrixSpectral.eigenvalues_ge_neg_of_posSemidef hA (abs_nonneg atol) i

/-- **`is_density`, verdict `yes`**: positive semidefinite with trace exactly one. -/
theorem density_yes_sound (A : Mat QI) (m : Rat) (h : densityV A m = .yes) :
    A.r = A.c ∧ (Toq.Rank.fnToM A.r A.r A.f).PosSemidef ∧ (Toq.Rank.fnToM A.r A.r A.f).trace = 1 := densityV_yes_sound A m h

/-- **`is_pure`, verdict `yes`**: a density matrix with `Tr ρ² = 1`, whose largest eigenvalue is `1` (what the code tests) and whose
    rank is one. -/
theorem pure_yes_sound (ρ : Mat QI) (m : Rat) (h : pureV ρ m = .yes) :
    ∃ hρ : (Toq.Rank.fnToM ρ.r ρ.r ρ.f).PosSemidef, (Toq.Rank.fnToM ρ.r ρ.r ρ.f).trace = 1 ∧
      (Toq.Rank.fnToM ρ.r ρ.r ρ.f * Toq.Rank.fnToM ρ.r ρ.r ρ.f).trace = 1 ∧
      IsGreatest (Set.range hρ.1.eigenvalues) 1 ∧ (Toq.Rank.fnToM ρ.r ρ.r ρ.f).rank = 1 := pureV_yes_sound ρ m h

/-- **`is_pure`, verdict `no`**: a density matrix all of whose eigenvalues are `≤ 1 − margin`. -/
theorem pure_no_sound (ρ : Mat QI) (m : Rat) (hm : 0 < m) (h : pureV ρ m = .no) :
    ∃ hρ : (Toq.Rank.fnToM ρ.r ρ.r ρ.f).PosSemidef, (Toq.Rank.fnToM ρ.r ρ.r ρ.f).trace = 1 ∧
      ∀ i, hρ.1.eigenvalues i ≤ 1 - ((m : Rat) : ℝ) := pureV_no_sound ρ m hm h

/-- `is_mixed = not is_pure`, and the list form of `is_pure` is the conjunction over the list. -/
theorem mixed_and_pure_list (ρ : Mat QI) (ρs : List (Mat QI)) (m : Rat) :
    (mixedV ρ m = .yes ↔ pureV ρ m = .no) ∧ (mixedV ρ m = .no ↔ pureV ρ m = .yes) ∧
    (pureListV ρs m = .yes ↔ ∀ ρ ∈ ρs, pureV ρ m = .yes) ∧ (pureListV ρs m = .no ↔ ∃ ρ ∈ ρs, pureV ρ m = .no) :=
  ⟨mixedV_yes_iff ρ m, mixedV_no_iff ρ m, pureListV_yes_iff ρs m, pureListV_no_iff ρs m⟩

/-- **`is_ensemble`, verdict `yes`**: every operator is positive semidefinite and the traces sum to exactly one. -/
theorem ensemble_yes_sound (ρs : List (Mat QI)) (m : Rat) (h : ensembleV ρs m = .yes) :
    (∀ ρ ∈ ρs, ρ.r = ρ.c ∧ (Toq.Rank.fnToM ρ.r ρ.r ρ.f).PosSemidef) ∧ ρs.foldl (fun acc ρ => acc + traceQ ρ) 0 = 1 := by
  obtain ⟨h1, h2⟩ := (ensembleV_yes_iff ρs m).mp h
  exact ⟨fun ρ hρ => psdV_yes_sound ρ m (h1 ρ hρ), h2⟩

/-- mutually orthogonal decider (at least two vectors): `yes` iff all inner products of distinct vectors vanish; fewer than two
    vectors is the `ValueError`. -/
theorem mutuallyOrthogonal_yes_iff (d n : Nat) (vs : Nat → Nat → QI) (m : Rat) (hn : 2 ≤ n) :
    mutuallyOrthogonalV d n vs m = .ok .yes ↔
      ∀ i j, i < n → j < n → i ≠ j → sumN d (fun k => (vs i k).conj * vs j k) = 0 :=
  mutuallyOrthogonalV_yes_iff d n vs m hn

/-- orthonormal decider: `yes` iff the vectors are pairwise orthogonal and `V Vᴴ = I` for the matrix `V` of row vectors. -/
theorem orthonormal_yes_iff (d n : Nat) (vs : Nat → Nat → QI) (m : Rat) (hn : 2 ≤ n) :
    orthonormalV d n vs m = .ok .yes ↔
      (∀ i j, i < n → j < n → i ≠ j → sumN d (fun k => (vs i k).conj * vs j k) = 0) ∧
      (∀ i j, i < n → j < n → sumN d (fun k => vs i k * (vs j k).conj) = if i = j then 1 else 0) :=
  orthonormalV_yes_iff d n vs m hn

/-- mutually-unbiased-bases decider (vector `k` is `w_k/√s_k`): `yes` iff the number of vectors is a multiple of `d`, every block of `d`
    vectors is orthonormal (`|⟨u,v⟩|² = δ`) and `|⟨u,v⟩|² = 1/d` across blocks. -/
theorem mub_yes_iff (d n : Nat) (w : Nat → Nat → QI) (s : Nat → Rat) (m : Rat) (hd : d ≠ 0) :
    mubV d n w s true m = .yes ↔ n % d = 0 ∧
      (∀ i k l, i < n / d → k < d → l < d →
        normSq (vdot d (w (i * d + k)) (w (i * d + l))) / (s (i * d + k) * s (i * d + l)) = if k = l then 1 else 0) ∧
      (∀ i j k l, i < n / d → j < n / d → i < j → k < d → l < d →
        normSq (vdot d (w (i * d + k)) (w (j * d + l))) / (s (i * d + k) * s (j * d + l)) = 1 / (d : Rat)) :=
  mubV_yes_iff d n w s m hd

/-- **`is_unextendible_product_basis`, verdict `no`** (guards passed: all vectors exactly product, mutually orthogonal): there is a
    distribution of the (zero-padded) vectors over the parties — every party served when `surj` — such that every party has a non-zero
    local vector annihilated by all local factors it received. -/
theorem upb_no_iff (dims : List Nat) (n : Nat) (vs : Nat → Nat → QI) (surj : Bool) (m : Rat)
    (hprod : ∀ k, k < n → isProductExact dims (vs k) = true)
    (hgram : 2 ≤ n → eqV (gramOffDiag (dims.foldl (· * ·) 1) n vs) (zeroMat n n) m = .yes) :
    upbV dims n vs surj m = .ok .no ↔ ∃ asg : List Nat, asg.length = max n dims.length ∧ (∀ x ∈ asg, x < dims.length) ∧
      (surj = true → ∀ i, i < dims.length → i ∈ asg) ∧
      ∀ i, i < dims.length → ∃ y : Fin (dims.getD i 1) → ℂ, y ≠ 0 ∧
        ∀ k, k < max n dims.length → asg.getD k 0 = i → ∑ t, (upbFactor dims n vs k i t.val).toC * y t = 0 :=
  upbV_no_iff dims n vs surj m hprod hgram

/-- … and when the guards pass the verdict is `yes` or `no`, never `unknown`. -/
theorem upb_decided (dims : List Nat) (n : Nat) (vs : Nat → Nat → QI) (surj : Bool) (m : Rat)
    (hprod : ∀ k, k < n → isProductExact dims (vs k) = true)
    (hgram : 2 ≤ n → eqV (gramOffDiag (dims.foldl (· * ·) 1) n vs) (zeroMat n n) m = .yes) :
    upbV dims n vs surj m = .ok .no ∨ upbV dims n vs surj m = .ok .yes :=
  upbV_guards_decided dims n vs surj m hprod hgram

/-- **the UPB verdict does not depend on the order in which the vectors are listed** (full equality of results, including the
    rejections), for every permutation `σ` of the positions `0 … n−1` with inverse `τ`. -/
theorem upb_order_independent (dims : List Nat) (n : Nat) (vs : Nat → Nat → QI) (surj : Bool) (m : Rat) (σ τ : Nat → Nat)
    (hσ : ∀ k, k < n → σ k < n) (hτ : ∀ k, k < n → τ k < n) (hτσ : ∀ k, k < n → τ (σ k) = k) (hστ : ∀ k, k < n → σ (τ k) = k) :
    upbV dims n (fun k => vs (σ k)) surj m = upbV dims n vs surj m :=
  upbV_perm dims n vs surj m σ τ hσ hτ hτσ hστ

/-- searching only the distributions that serve every party (as the Python code does, through set partitions) or all distributions
    gives the same verdict when every local dimension is at least 2. -/
theorem upb_surjective_search_suffices (dims : List Nat) (n : Nat) (vs : Nat → Nat → QI) (m : Rat)
    (hd : ∀ i, i < dims.length → 2 ≤ dims.getD i 1) : upbV dims n vs true m = upbV dims n vs false m :=
  upbV_surj_irrelevant dims n vs m hd

/-- the distributions searched are all maps from the `n` positions to the `m` parties. -/
theorem upb_assignments_complete (m n : Nat) (asg : List Nat) :
    asg ∈ assignments n m ↔ asg.length = n ∧ ∀ x ∈ asg, x < m := mem_assignments_iff m n asg

/-! ## Part 7 — helper operations, continued -/

/-- **n-ary associativity**: the left fold of `tensor([A_1, …, A_n])` splits at every position,
    `A_1 ⊗ … ⊗ A_n = (A_1 ⊗ … ⊗ A_k) ⊗ (A_{k+1} ⊗ … ⊗ A_n)`. -/
theorem tensor_list_split {α : Type} [Semigroup α] (a : Mat α) (l1 : List (Mat α)) (b : Mat α) (l2 : List (Mat α)) :
    kronFold a (l1 ++ b :: l2) = kron (kronFold a l1) (kronFold b l2) := kronFold_append a l1 b l2

/-- the list form of `tensor` on a non-empty list is that left fold (lengths 1, 2 and `≥ 3` are separate branches of the code). -/
theorem tensor_list_eq_fold {α : Type} [Mul α] (a : Mat α) (l : List (Mat α)) : tensorList (a :: l) = .mat (kronFold a l) :=
  tensorList_cons a l

/-- `tensor(A, 0) = np.eye(1)` is the unit of the Kronecker product. -/
theorem tensor_power_zero_unit {α : Type} [MulOneClass α] (A : Mat α) :
    ((kron eye1 A).r = A.r ∧ (kron eye1 A).c = A.c ∧ ∀ i j, i < A.r → j < A.c → (kron eye1 A).f i j = A.f i j) ∧
    ((kron A eye1).r = A.r ∧ (kron A eye1).c = A.c ∧ ∀ i j, (kron A eye1).f i j = A.f i j) :=
  ⟨kron_eye1_left A, kron_eye1_right A⟩

/-- `unvec` raises (NumPy cannot reshape) exactly when the requested shape — by default `int(√size)` squared — does not have `size`
    entries. -/
theorem unvec_reject_iff {α : Type} (v : Nat → α) (size : Nat) (shape : Option (Nat × Nat)) :
    unvec v size shape = none ↔
      (match shape with | none => Nat.sqrt size * Nat.sqrt size | some s => s.1 * s.2) ≠ size :=
  unvec_eq_none_iff v size shape

/-- `majorizes` with its tolerance term (`ctb` starts at `tol = −‖a‖·eps^{3/4}`): true iff every prefix sum of the sorted padded `a`
    is at least `tol` plus that of `b`. -/
theorem majorizes_tol_iff (a b : List Rat) (tol : Rat) :
    majorizesTol a b tol = true ↔ ∀ k, k < max a.length b.length →
      tol + prefixSum (padTo (max a.length b.length) (sortDesc b)) (k + 1)
        ≤ prefixSum (padTo (max a.length b.length) (sortDesc a)) (k + 1) :=
  majorizesTol_iff a b tol

/-- **the null space of the stacked system of `commutant` is the commutant**: `x` is annihilated by `[A_g ⊗ 1 − 1 ⊗ A_gᵀ]_g` iff its
    row-major reshaping `X` (`X i j = x (i·dim + j)`, as `reshape((dim, dim))` does) commutes with EVERY generator. -/
theorem commutant_kernel_iff (dim : Nat) (gens : List (Mat QI)) (h : ∀ A ∈ gens, A.r = dim ∧ A.c = dim)
    (x : Fin (dim * dim) → ℂ) :
    Matrix.mulVec (commStackM dim gens) x = 0
      ↔ ∀ A ∈ gens, Toq.Rank.fnToM dim dim A.f * unflat dim x = unflat dim x * Toq.Rank.fnToM dim dim A.f :=
  commStack_mulVec_eq_zero_iff dim gens h x

/-- … so the reshaped null space is exactly the commutant `{X | ∀ g, g X = X g}` (the centralizer of the generators), -/
theorem commutant_nullspace_is_commutant (dim : Nat) (gens : List (Mat QI)) (h : ∀ A ∈ gens, A.r = dim ∧ A.c = dim) :
    (LinearMap.ker (commStackM dim gens).mulVecLin).map (unflatEquiv dim : (Fin (dim * dim) → ℂ) →ₗ[ℂ] _)
      = commutantSubmodule dim gens ∧
    (commutantSubmodule dim gens : Set (Matrix (Fin dim) (Fin dim) ℂ)) = Set.centralizer (genSet dim gens) :=
  ⟨map_ker_commStack_eq dim gens h, commutantSubmodule_eq_centralizer dim gens⟩

/-- **… and `commutantDim` is its dimension**: the number of basis matrices `commutant` must return. -/
theorem commutantDim_eq_finrank (dim : Nat) (gens : List (Mat QI)) (h : ∀ A ∈ gens, A.r = dim ∧ A.c = dim) :
    commutantDim dim gens = Module.finrank ℂ (commutantSubmodule dim gens) :=
  commutantDim_eq_finrank_commutant dim gens h

/-- the commutant contains the identity and lives in the `dim²`-dimensional matrix space; it only depends on the SET of generators
    and shrinks when generators are added. -/
theorem commutantDim_bounds (dim : Nat) (gens gens' : List (Mat QI)) (h : ∀ A ∈ gens, A.r = dim ∧ A.c = dim)
    (h' : ∀ A ∈ gens', A.r = dim ∧ A.c = dim) :
    commutantDim dim gens ≤ dim * dim ∧ (1 ≤ dim → 1 ≤ commutantDim dim gens) ∧ commutantDim dim [] = dim * dim ∧
    ((∀ A ∈ gens, A ∈ gens') → commutantDim dim gens' ≤ commutantDim dim gens) :=
  ⟨commutantDim_le dim gens, one_le_commutantDim dim gens h, commutantDim_nil dim, commutantDim_anti dim gens gens' h h'⟩

/-- a Gram matrix `G_ij = ⟨v_i, v_j⟩` is positive semidefinite (so `vectors_from_gram_matrix ∘ vectors_to_gram_matrix` always runs on
    PSD input). -/
theorem gram_posSemidef {k d : Type} [Fintype d] [Fintype k] (v : k → d → ℂ) :
    (Toq.MatrixSpectral.gramMatrix v).PosSemidef := Toq.MatrixSpectral.gramMatrix_posSemidef v

/-- **Round trip, eigen-branch** (the code after toqito commits b44bccf / 4c1ddd1: `eigh`, `B = V·√D`, QR of `Bᴴ`, phases): with
    `G = B Bᴴ`, `Bᴴ = Q T`, `QᴴQ = 1` and unit-modulus phases `p`, the matrix `L = (diag(conj p)·T)ᴴ` satisfies `L Lᴴ = G`; the code
    returns the conjugated rows of `L`, whose Gram matrix is `G` by `gram_of_conj_rows` — the same final step as the Cholesky branch.
    (`G = B Bᴴ` needs ORTHONORMAL eigenvectors: `np.linalg.eig`, used before, does not return them for a repeated eigenvalue.) -/
theorem gram_eig_branch_factor {n m l : Type} [Fintype n] [Fintype m] [Fintype l] [DecidableEq l] {R : Type} [CommRing R] [StarRing R]
    (B : Matrix n m R) (Q : Matrix m l R) (T : Matrix l n R) (p : l → R) (hQ : Q.conjTranspose * Q = 1)
    (hB : B.conjTranspose = Q * T) (hp : ∀ i, p i * star (p i) = 1) :
    (Matrix.diagonal (fun i => star (p i)) * T).conjTranspose * ((Matrix.diagonal (fun i => star (p i)) * T).conjTranspose).conjTranspose
      = B * B.conjTranspose :=
  Toq.MatrixInv.gram_eig_branch_factor B Q T p hQ hB hp

/-- the spectral form behind `B = V·√D`: if `G = V diag(d) Vᴴ` and `d_k = conj(s_k)·s_k` then the vectors `w_i = s · conj(V[i,:])` have
    Gram matrix `G` (pure algebra; this was the literal form of the eigen-branch before commit 4c1ddd1). -/
theorem gram_eig_roundtrip {R ι κ : Type} [CommRing R] [StarRing R] [Fintype κ] (G : ι → ι → R) (V : ι → κ → R) (dd s : κ → R)
    (hG : ∀ i j, G i j = ∑ k, V i k * dd k * star (V j k)) (hd : ∀ k, dd k = star (s k) * s k) (i j : ι) :
    ∑ k, star (s k * star (V i k)) * (s k * star (V j k)) = G i j :=
  Toq.MatrixSpectral.gram_eig_roundtrip G V dd s hG hd i j

/-- **the Frobenius shortcut of `kp_norm`** (`k ≥ min(shape)`, `p = 2`): the Frobenius norm is the 2-norm of all singular values
    (`singularValue A k = √(k-th eigenvalue of Aᴴ A)`), -/
theorem frobenius_eq_singular_values {m n : Type} [Fintype m] [Fintype n] [DecidableEq n] (A : Matrix m n ℂ) :
    Real.sqrt (∑ i, ∑ j, ‖A i j‖ ^ 2) = Real.sqrt (∑ k, Toq.MatrixSpectral.singularValue A k ^ 2) :=
  Toq.MatrixSpectral.frobenius_eq_two_norm_singularValues A

/-- … of which exactly `rank A ≤ min(shape)` are non-zero (so summing over all of them is summing over the `min(shape)` values NumPy
    returns, and `k` larger than their number changes nothing). -/
theorem nonzero_singular_values_eq_rank {m n : Type} [Fintype m] [Fintype n] [DecidableEq n] (A : Matrix m n ℂ) :
    Fintype.card {k // Toq.MatrixSpectral.singularValue A k ≠ 0} = A.rank ∧
    Fintype.card {k // Toq.MatrixSpectral.singularValue A k ≠ 0} ≤ min (Fintype.card m) (Fintype.card n) :=
  ⟨Toq.MatrixSpectral.card_nonzero_singularValues_eq_rank A, Toq.MatrixSpectral.card_nonzero_singularValues_le A⟩

/-- **singular values of a Hermitian matrix are the moduli of its eigenvalues** (as multisets) — the fact behind `kp_norm` / `trace_norm`
    on Hermitian input with eigenvalues of both signs; -/
theorem singular_values_hermitian {n : Type} [Fintype n] [DecidableEq n] (A : Matrix n n ℂ) (hA : A.IsHermitian) :
    Multiset.map (Toq.MatrixSpectral.singularValue A) Finset.univ.val = Multiset.map (fun i => |hA.eigenvalues i|) Finset.univ.val :=
  Toq.MatrixSpectral.singularValue_multiset_hermitian A hA

/-- hence the trace norm (sum of the singular values) of a Hermitian matrix is `Σ |λ_i|`, of a positive semidefinite matrix its trace,
    of a density matrix `1`. -/
theorem trace_norm_hermitian {n : Type} [Fintype n] [DecidableEq n] (A : Matrix n n ℂ) :
    (∀ hA : A.IsHermitian, ∑ k, Toq.MatrixSpectral.singularValue A k = ∑ i, |hA.eigenvalues i|) ∧
    (A.PosSemidef → ∑ k, Toq.MatrixSpectral.singularValue A k = (A.trace).re) ∧
    (A.PosSemidef → A.trace = 1 → ∑ k, Toq.MatrixSpectral.singularValue A k = 1) :=
  ⟨fun hA => Toq.MatrixSpectral.traceNorm_hermitian A hA, fun h => Toq.MatrixSpectral.traceNorm_posSemidef A h,
    fun h ht => Toq.MatrixSpectral.traceNorm_density A h ht⟩


/-! ## Part 8 — every predicate's defining relation is invariant under the transformations the harness applies

Permutation similarity `P A Pᵀ` is `A.submatrix σ σ`, left permutation `P A` is `A.submatrix σ id` (`perm_similarity_is_submatrix`);
"phase" is conjugation by `diagonal d` with unit-modulus `d` (a unitary, `phase_is_unitary`); "conj" is `A.map star`. -/

section invariance2
open Matrix
variable {n : Type} [Fintype n] [DecidableEq n] {R : Type} [CommRing R] [StarRing R]

/-- permutation matrices act as reindexings and are unitary; diagonal phase matrices are unitary and act entrywise. -/
theorem perm_similarity_is_submatrix (σ : n ≃ n) (A : Matrix n n R) (d : n → R) (hd : ∀ i, star (d i) * d i = 1) :
    σ.toPEquiv.toMatrix * A * (σ.toPEquiv.toMatrix)ᵀ = A.submatrix σ σ ∧ σ.toPEquiv.toMatrix * A = A.submatrix σ id ∧
    ((diagonal d)ᴴ * diagonal d = 1 ∧ diagonal d * (diagonal d)ᴴ = 1) ∧
    (∀ i j, (diagonal d * A * (diagonal d)ᴴ) i j = d i * A i j * star (d j)) :=
  ⟨Toq.MatrixInv.perm_similarity_eq_submatrix σ A, Toq.MatrixInv.perm_left_eq_submatrix σ A,
    Toq.MatrixInv.phase_unitary d hd, Toq.MatrixInv.phase_conj_apply d A⟩

/-- **Hermitian** ⇔ after: permutation similarity, transposition, entrywise conjugation, negation, unitary conjugation (phases,
    permutations, rational unitaries); and scaling by a real scalar keeps it. -/
theorem hermitian_invariant (A U : Matrix n n R) (σ : n ≃ n) (c : R) (hU : Uᴴ * U = 1) (hc : star c = c) :
    ((A.submatrix σ σ).IsHermitian ↔ A.IsHermitian) ∧ (Aᵀ.IsHermitian ↔ A.IsHermitian) ∧
    ((A.map star).IsHermitian ↔ A.IsHermitian) ∧ ((-A).IsHermitian ↔ A.IsHermitian) ∧
    ((U * A * Uᴴ).IsHermitian ↔ A.IsHermitian) ∧ (A.IsHermitian → (c • A).IsHermitian) :=
  ⟨Toq.MatrixInv.herm_submatrix_iff A σ, Toq.MatrixInv.herm_transpose_iff A, Toq.MatrixInv.herm_map_star_iff A,
    Toq.MatrixInv.herm_neg_iff A, Toq.MatrixInv.herm_conj_iff A U hU, Toq.MatrixInv.herm_smul A c hc⟩

/-- **anti-Hermitian** (`Aᴴ = −A`): the same transformations. -/
theorem antiHermitian_invariant (A U : Matrix n n R) (σ : n ≃ n) (c : R) (hU : Uᴴ * U = 1) (hc : star c = c) :
    ((A.submatrix σ σ)ᴴ = -(A.submatrix σ σ) ↔ Aᴴ = -A) ∧ ((Aᵀ)ᴴ = -Aᵀ ↔ Aᴴ = -A) ∧
    ((A.map star)ᴴ = -(A.map star) ↔ Aᴴ = -A) ∧ ((-A)ᴴ = -(-A) ↔ Aᴴ = -A) ∧
    ((U * A * Uᴴ)ᴴ = -(U * A * Uᴴ) ↔ Aᴴ = -A) ∧ (Aᴴ = -A → (c • A)ᴴ = -(c • A)) :=
  ⟨Toq.MatrixInv.antiherm_submatrix_iff A σ, Toq.MatrixInv.antiherm_transpose_iff A, Toq.MatrixInv.antiherm_map_star_iff A,
    Toq.MatrixInv.antiherm_neg_iff A, Toq.MatrixInv.antiherm_conj_iff A U hU, Toq.MatrixInv.antiherm_smul A c hc⟩

/-- **symmetric** (`Aᵀ = A`): permutation similarity, conjugation, negation (iff), scaling. -/
theorem symmetric_invariant (A : Matrix n n R) (σ : n ≃ n) (c : R) :
    ((A.submatrix σ σ)ᵀ = A.submatrix σ σ ↔ Aᵀ = A) ∧ ((A.map star)ᵀ = A.map star ↔ Aᵀ = A) ∧
    ((-A)ᵀ = -A ↔ Aᵀ = A) ∧ (Aᵀ = A → (c • A)ᵀ = c • A) :=
  ⟨Toq.MatrixInv.symm_submatrix_iff A σ, Toq.MatrixInv.symm_map_star_iff A, Toq.MatrixInv.symm_neg_iff A,
    Toq.MatrixInv.symm_smul A c⟩

/-- **normal** (`A Aᴴ = Aᴴ A`): permutation similarity, transposition, conjugation, negation, unitary conjugation, adding a multiple of
    the identity (all iff), and scaling by any scalar. -/
theorem normal_invariant (A U : Matrix n n R) (σ : n ≃ n) (c : R) (hU : Uᴴ * U = 1) :
    (A.submatrix σ σ * (A.submatrix σ σ)ᴴ = (A.submatrix σ σ)ᴴ * A.submatrix σ σ ↔ A * Aᴴ = Aᴴ * A) ∧
    (Aᵀ * (Aᵀ)ᴴ = (Aᵀ)ᴴ * Aᵀ ↔ A * Aᴴ = Aᴴ * A) ∧
    (A.map star * (A.map star)ᴴ = (A.map star)ᴴ * A.map star ↔ A * Aᴴ = Aᴴ * A) ∧
    ((-A) * (-A)ᴴ = (-A)ᴴ * (-A) ↔ A * Aᴴ = Aᴴ * A) ∧
    ((U * A * Uᴴ) * (U * A * Uᴴ)ᴴ = (U * A * Uᴴ)ᴴ * (U * A * Uᴴ) ↔ A * Aᴴ = Aᴴ * A) ∧
    ((A + c • 1) * (A + c • 1)ᴴ = (A + c • 1)ᴴ * (A + c • 1) ↔ A * Aᴴ = Aᴴ * A) ∧
    (A * Aᴴ = Aᴴ * A → (c • A) * (c • A)ᴴ = (c • A)ᴴ * (c • A)) :=
  ⟨Toq.MatrixInv.normal_submatrix_iff A σ, Toq.MatrixInv.normal_transpose_iff A, Toq.MatrixInv.normal_map_star_iff A,
    Toq.MatrixInv.normal_neg_iff A, Toq.MatrixInv.normal_conj_iff A U hU, Toq.MatrixInv.normal_add_smul_one_iff A c,
    Toq.MatrixInv.normal_smul A c⟩

/-- **unitary** (`Uᴴ U = 1 ∧ U Uᴴ = 1`): permutation similarity, transposition, conjugation, negation, conjugation by and left
    multiplication with a unitary `V` (all iff). -/
theorem unitary_invariant (U V : Matrix n n R) (σ : n ≃ n) (hV : Vᴴ * V = 1 ∧ V * Vᴴ = 1) :
    (((U.submatrix σ σ)ᴴ * U.submatrix σ σ = 1 ∧ U.submatrix σ σ * (U.submatrix σ σ)ᴴ = 1) ↔ (Uᴴ * U = 1 ∧ U * Uᴴ = 1)) ∧
    (((Uᵀ)ᴴ * Uᵀ = 1 ∧ Uᵀ * (Uᵀ)ᴴ = 1) ↔ (Uᴴ * U = 1 ∧ U * Uᴴ = 1)) ∧
    (((U.map star)ᴴ * U.map star = 1 ∧ U.map star * (U.map star)ᴴ = 1) ↔ (Uᴴ * U = 1 ∧ U * Uᴴ = 1)) ∧
    (((-U)ᴴ * (-U) = 1 ∧ (-U) * (-U)ᴴ = 1) ↔ (Uᴴ * U = 1 ∧ U * Uᴴ = 1)) ∧
    (((V * U * Vᴴ)ᴴ * (V * U * Vᴴ) = 1 ∧ (V * U * Vᴴ) * (V * U * Vᴴ)ᴴ = 1) ↔ (Uᴴ * U = 1 ∧ U * Uᴴ = 1)) ∧
    (((V * U)ᴴ * (V * U) = 1 ∧ (V * U) * (V * U)ᴴ = 1) ↔ (Uᴴ * U = 1 ∧ U * Uᴴ = 1)) :=
  ⟨Toq.MatrixInv.unitary_submatrix_iff U σ, Toq.MatrixInv.unitary_transpose_iff U, Toq.MatrixInv.unitary_map_star_iff U,
    Toq.MatrixInv.unitary_neg_iff U, Toq.MatrixInv.unitary_conj_iff U V hV, Toq.MatrixInv.unitary_mul_left_iff U V hV⟩

/-- **pseudo-unitary** (`Aᴴ J A = J`): left / right multiplication by a `J`-isometry `W`, conjugation (real `J`), negation. -/
theorem pseudoUnitary_invariant (J A W : Matrix n n R) (hW : Wᴴ * J * W = J) (hJ : J.map star = J) (hA : Aᴴ * J * A = J) :
    (W * A)ᴴ * J * (W * A) = J ∧ (A * W)ᴴ * J * (A * W) = J ∧ (A.map star)ᴴ * J * A.map star = J ∧ (-A)ᴴ * J * (-A) = J :=
  ⟨Toq.MatrixInv.pseudoU_mul_left J A W hW hA, Toq.MatrixInv.pseudoU_mul_right J A W hW hA,
    Toq.MatrixInv.pseudoU_map_star J A hJ hA, Toq.MatrixInv.pseudoU_neg J A hA⟩

/-- block-diagonal unitaries `U ⊕ V` are isometries of the signature `1_p ⊕ (−1_q)` (the harness's `t_block_unitary`). -/
theorem block_unitary_is_signature_isometry {p q : Type} [Fintype p] [DecidableEq p] [Fintype q] [DecidableEq q]
    (U : Matrix p p R) (V : Matrix q q R) (hU : Uᴴ * U = 1) (hV : Vᴴ * V = 1) :
    (fromBlocks U 0 0 V)ᴴ * fromBlocks 1 0 0 (-1) * fromBlocks U 0 0 V = fromBlocks 1 0 0 (-1) :=
  Toq.MatrixInv.block_unitary_isometry U V hU hV

/-- **pseudo-Hermitian**: `η H η⁻¹ = Hᴴ` is `η H = Hᴴ η`; it is invariant (iff) under simultaneous unitary congruence of `η` and `H`,
    also with a rescaled signature, and under real scaling of `H`. -/
theorem pseudoHermitian_invariant (η ηinv H U : Matrix n n R) (c : R) (h1 : η * ηinv = 1) (h2 : ηinv * η = 1) (hU : Uᴴ * U = 1) :
    (η * H = Hᴴ * η ↔ η * H * ηinv = Hᴴ) ∧
    ((U * η * Uᴴ) * (U * H * Uᴴ) = (U * H * Uᴴ)ᴴ * (U * η * Uᴴ) ↔ η * H = Hᴴ * η) ∧
    (η * H = Hᴴ * η → (c • (U * η * Uᴴ)) * (U * H * Uᴴ) = (U * H * Uᴴ)ᴴ * (c • (U * η * Uᴴ))) ∧
    (star c = c → η * H = Hᴴ * η → η * (c • H) = (c • H)ᴴ * η) :=
  ⟨Toq.MatrixInv.pseudoH_iff η ηinv H h1 h2, Toq.MatrixInv.pseudoH_congr_iff η H U hU,
    Toq.MatrixInv.pseudoH_congr_smul η H U c hU, Toq.MatrixInv.pseudoH_smul_H η H c⟩

/-- **idempotent / projection** (`A A = A`): permutation similarity, transposition, conjugation, unitary conjugation, similarity
    `S A S⁻¹` (all iff). -/
theorem idempotent_invariant (A U S Sinv : Matrix n n R) (σ : n ≃ n) (hU : Uᴴ * U = 1) (h1 : Sinv * S = 1) (h2 : S * Sinv = 1) :
    (A.submatrix σ σ * A.submatrix σ σ = A.submatrix σ σ ↔ A * A = A) ∧ (Aᵀ * Aᵀ = Aᵀ ↔ A * A = A) ∧
    (A.map star * A.map star = A.map star ↔ A * A = A) ∧
    ((U * A * Uᴴ) * (U * A * Uᴴ) = U * A * Uᴴ ↔ A * A = A) ∧ ((S * A * Sinv) * (S * A * Sinv) = S * A * Sinv ↔ A * A = A) :=
  ⟨Toq.MatrixInv.idem_submatrix_iff A σ, Toq.MatrixInv.idem_transpose_iff A, Toq.MatrixInv.idem_map_star_iff A,
    Toq.MatrixInv.idem_conj_iff A U hU, Toq.MatrixInv.idem_similarity_iff A S Sinv h1 h2⟩

/-- **identity**: only the identity is conjugate to the identity; reindexing, transposing, conjugating the identity gives the identity. -/
theorem identity_invariant (A U : Matrix n n R) (σ : n ≃ n) (hU : Uᴴ * U = 1) :
    (U * A * Uᴴ = 1 ↔ A = 1) ∧ (1 : Matrix n n R).submatrix σ σ = 1 ∧ (1 : Matrix n n R)ᵀ = 1 ∧ (1 : Matrix n n R).map star = 1 :=
  ⟨Toq.MatrixInv.conj_eq_one_iff A U hU, Toq.MatrixInv.one_submatrix σ, Toq.MatrixInv.one_transpose, Toq.MatrixInv.one_map_star⟩

/-- **diagonal** (all off-diagonal entries zero): permutation similarity, transposition, conjugation (iff), negation, scaling, phase
    conjugation. -/
theorem diagonal_invariant (A : Matrix n n R) (σ : n ≃ n) (c : R) (d : n → R) :
    ((∀ i j, i ≠ j → A.submatrix σ σ i j = 0) ↔ ∀ i j, i ≠ j → A i j = 0) ∧
    ((∀ i j, i ≠ j → Aᵀ i j = 0) ↔ ∀ i j, i ≠ j → A i j = 0) ∧
    ((∀ i j, i ≠ j → A.map star i j = 0) ↔ ∀ i j, i ≠ j → A i j = 0) ∧
    ((∀ i j, i ≠ j → A i j = 0) → ∀ i j, i ≠ j → (-A) i j = 0) ∧
    ((∀ i j, i ≠ j → A i j = 0) → ∀ i j, i ≠ j → (c • A) i j = 0) ∧
    ((∀ i j, i ≠ j → A i j = 0) → ∀ i j, i ≠ j → (diagonal d * A * (diagonal d)ᴴ) i j = 0) :=
  ⟨Toq.MatrixInv.diag_submatrix_iff A σ, Toq.MatrixInv.diag_transpose_iff A, Toq.MatrixInv.diag_map_star_iff A,
    Toq.MatrixInv.diag_neg A, Toq.MatrixInv.diag_smul A c, Toq.MatrixInv.diag_phase A d⟩

/-- **commuting pair**: simultaneous unitary conjugation and simultaneous transposition (iff); the relation is symmetric. -/
theorem commuting_invariant (A B U : Matrix n n R) (hU : Uᴴ * U = 1) :
    ((U * A * Uᴴ) * (U * B * Uᴴ) = (U * B * Uᴴ) * (U * A * Uᴴ) ↔ A * B = B * A) ∧ (Aᵀ * Bᵀ = Bᵀ * Aᵀ ↔ A * B = B * A) ∧
    (A * B = B * A → B * A = A * B) :=
  ⟨Toq.MatrixInv.comm_conj_iff A B U hU, Toq.MatrixInv.comm_transpose_iff A B, Toq.MatrixInv.comm_swap A B⟩

/-- **permutation matrix** (entries 0/1, all row and column sums 1): transposition; reindexing rows and columns by any two
    permutations (iff; covers left multiplication and similarity); the matrix of a permutation is one. -/
theorem permutation_invariant (A : Matrix n n R) (σ τ : n ≃ n) :
    (((∀ i j, A i j = 0 ∨ A i j = 1) ∧ (∀ i, ∑ j, A i j = 1) ∧ ∀ j, ∑ i, A i j = 1) →
      (∀ i j, Aᵀ i j = 0 ∨ Aᵀ i j = 1) ∧ (∀ i, ∑ j, Aᵀ i j = 1) ∧ ∀ j, ∑ i, Aᵀ i j = 1) ∧
    (((∀ i j, A.submatrix σ τ i j = 0 ∨ A.submatrix σ τ i j = 1) ∧ (∀ i, ∑ j, A.submatrix σ τ i j = 1) ∧
        ∀ j, ∑ i, A.submatrix σ τ i j = 1) ↔
      (∀ i j, A i j = 0 ∨ A i j = 1) ∧ (∀ i, ∑ j, A i j = 1) ∧ ∀ j, ∑ i, A i j = 1) ∧
    ((∀ i j, (σ.toPEquiv.toMatrix : Matrix n n R) i j = 0 ∨ (σ.toPEquiv.toMatrix : Matrix n n R) i j = 1) ∧
      (∀ i, ∑ j, (σ.toPEquiv.toMatrix : Matrix n n R) i j = 1) ∧ ∀ j, ∑ i, (σ.toPEquiv.toMatrix : Matrix n n R) i j = 1) :=
  ⟨Toq.MatrixInv.permMat_transpose A, Toq.MatrixInv.permMat_submatrix_iff A σ τ, Toq.MatrixInv.permMat_of_equiv σ⟩

/-- **circulant** (shift-invariant entries over a finite cyclic index group): transposition, conjugation, negation, scaling, adding a
    multiple of the identity, and a cyclic shift of rows and columns — which even leaves the matrix unchanged. -/
theorem circulant_invariant {G : Type} [Fintype G] [DecidableEq G] [AddCommGroup G] (A : Matrix G G R) (c : R) (s : G)
    (hA : ∀ i j k : G, A (i + k) (j + k) = A i j) :
    (∀ i j k : G, Aᵀ (i + k) (j + k) = Aᵀ i j) ∧ (∀ i j k : G, A.map star (i + k) (j + k) = A.map star i j) ∧
    (∀ i j k : G, (-A) (i + k) (j + k) = (-A) i j) ∧ (∀ i j k : G, (c • A) (i + k) (j + k) = (c • A) i j) ∧
    (∀ i j k : G, (A + c • 1) (i + k) (j + k) = (A + c • 1) i j) ∧ A.submatrix (· + s) (· + s) = A :=
  ⟨Toq.MatrixInv.circ_transpose A hA, Toq.MatrixInv.circ_map_star A hA, Toq.MatrixInv.circ_neg A hA,
    Toq.MatrixInv.circ_smul A c hA, Toq.MatrixInv.circ_add_smul_one A c hA, Toq.MatrixInv.circ_shift_eq A s hA⟩

end invariance2

section invarianceOrder
open Matrix
variable {n : Type} [Fintype n] [DecidableEq n]

/-- **positive semidefinite** (over `ℂ`): permutation similarity, conjugation, unitary conjugation (iff), transposition, scaling by a real
    `c ≥ 0`. -/
theorem psd_invariant (A U : Matrix n n ℂ) (σ : n ≃ n) (c : ℝ) (hU : Uᴴ * U = 1) (hc : 0 ≤ c) :
    ((A.submatrix σ σ).PosSemidef ↔ A.PosSemidef) ∧ ((A.map star).PosSemidef ↔ A.PosSemidef) ∧
    ((U * A * Uᴴ).PosSemidef ↔ A.PosSemidef) ∧ (A.PosSemidef → Aᵀ.PosSemidef) ∧ (A.PosSemidef → (c • A).PosSemidef) :=
  ⟨Toq.MatrixInv.psd_submatrix_iff A σ, Toq.MatrixInv.psd_map_star_iff A, Toq.MatrixInv.psd_conj_iff A U hU,
    Toq.MatrixInv.psd_transpose A, Toq.MatrixInv.psd_smul_real A c hc⟩

/-- **positive definite**: the same with `c > 0`. -/
theorem pd_invariant (A U : Matrix n n ℂ) (σ : n ≃ n) (c : ℝ) (hU : Uᴴ * U = 1) (hc : 0 < c) :
    ((A.submatrix σ σ).PosDef ↔ A.PosDef) ∧ ((A.map star).PosDef ↔ A.PosDef) ∧
    ((U * A * Uᴴ).PosDef ↔ A.PosDef) ∧ (A.PosDef → Aᵀ.PosDef) ∧ (A.PosDef → (c • A).PosDef) :=
  ⟨Toq.MatrixInv.pd_submatrix_iff A σ, Toq.MatrixInv.pd_map_star_iff A, Toq.MatrixInv.pd_conj_iff A U hU,
    Toq.MatrixInv.pd_transpose A, Toq.MatrixInv.pd_smul_real A c hc⟩

/-- **density matrix** (PSD, trace one): permutation similarity, unitary conjugation, transposition (iff), conjugation. -/
theorem density_invariant (A U : Matrix n n ℂ) (σ : n ≃ n) (hU : Uᴴ * U = 1) :
    (((A.submatrix σ σ).PosSemidef ∧ (A.submatrix σ σ).trace = 1) ↔ (A.PosSemidef ∧ A.trace = 1)) ∧
    (((U * A * Uᴴ).PosSemidef ∧ (U * A * Uᴴ).trace = 1) ↔ (A.PosSemidef ∧ A.trace = 1)) ∧
    ((Aᵀ.PosSemidef ∧ Aᵀ.trace = 1) ↔ (A.PosSemidef ∧ A.trace = 1)) ∧
    ((A.PosSemidef ∧ A.trace = 1) → (A.map star).PosSemidef ∧ (A.map star).trace = 1) :=
  ⟨Toq.MatrixInv.density_submatrix_iff A σ, Toq.MatrixInv.density_conj_iff A U hU, Toq.MatrixInv.density_transpose_iff A,
    Toq.MatrixInv.density_map_star A⟩

/-- **pure state** (density matrix with `Tr ρ² = 1`): unitary conjugation (iff), transposition, conjugation, permutation similarity. -/
theorem pure_invariant (A U : Matrix n n ℂ) (σ : n ≃ n) (hU : Uᴴ * U = 1) :
    (((U * A * Uᴴ).PosSemidef ∧ (U * A * Uᴴ).trace = 1 ∧ ((U * A * Uᴴ) * (U * A * Uᴴ)).trace = 1) ↔
      (A.PosSemidef ∧ A.trace = 1 ∧ (A * A).trace = 1)) ∧
    ((A.PosSemidef ∧ A.trace = 1 ∧ (A * A).trace = 1) → Aᵀ.PosSemidef ∧ Aᵀ.trace = 1 ∧ (Aᵀ * Aᵀ).trace = 1) ∧
    ((A.PosSemidef ∧ A.trace = 1 ∧ (A * A).trace = 1) →
      (A.map star).PosSemidef ∧ (A.map star).trace = 1 ∧ (A.map star * A.map star).trace = 1) ∧
    ((A.PosSemidef ∧ A.trace = 1 ∧ (A * A).trace = 1) →
      (A.submatrix σ σ).PosSemidef ∧ (A.submatrix σ σ).trace = 1 ∧ (A.submatrix σ σ * A.submatrix σ σ).trace = 1) :=
  ⟨Toq.MatrixInv.pure_conj_iff A U hU, Toq.MatrixInv.pure_transpose A, Toq.MatrixInv.pure_map_star A,
    Toq.MatrixInv.pure_submatrix A σ⟩

/-- **diagonally dominant**, strict and non-strict (over `ℂ`): permutation similarity, phase conjugation, entrywise conjugation, negation,
    scaling by `c ≠ 0` (all iff). -/
theorem diagDominant_invariant (A : Matrix n n ℂ) (σ : n ≃ n) (d : n → ℂ) (c : ℂ) (hd : ∀ i, ‖d i‖ = 1) (hc : c ≠ 0) :
    ((∀ i, ∑ j ∈ Finset.univ.erase i, ‖A.submatrix σ σ i j‖ < ‖A.submatrix σ σ i i‖) ↔
      ∀ i, ∑ j ∈ Finset.univ.erase i, ‖A i j‖ < ‖A i i‖) ∧
    ((∀ i, ∑ j ∈ Finset.univ.erase i, ‖A.submatrix σ σ i j‖ ≤ ‖A.submatrix σ σ i i‖) ↔
      ∀ i, ∑ j ∈ Finset.univ.erase i, ‖A i j‖ ≤ ‖A i i‖) ∧
    ((∀ i, ∑ j ∈ Finset.univ.erase i, ‖(diagonal d * A * (diagonal d)ᴴ) i j‖ < ‖(diagonal d * A * (diagonal d)ᴴ) i i‖) ↔
      ∀ i, ∑ j ∈ Finset.univ.erase i, ‖A i j‖ < ‖A i i‖) ∧
    ((∀ i, ∑ j ∈ Finset.univ.erase i, ‖(diagonal d * A * (diagonal d)ᴴ) i j‖ ≤ ‖(diagonal d * A * (diagonal d)ᴴ) i i‖) ↔
      ∀ i, ∑ j ∈ Finset.univ.erase i, ‖A i j‖ ≤ ‖A i i‖) ∧
    (((∀ i, ∑ j ∈ Finset.univ.erase i, ‖A.map star i j‖ < ‖A.map star i i‖) ↔ ∀ i, ∑ j ∈ Finset.univ.erase i, ‖A i j‖ < ‖A i i‖) ∧
      ((∀ i, ∑ j ∈ Finset.univ.erase i, ‖(-A) i j‖ < ‖(-A) i i‖) ↔ ∀ i, ∑ j ∈ Finset.univ.erase i, ‖A i j‖ < ‖A i i‖)) ∧
    (((∀ i, ∑ j ∈ Finset.univ.erase i, ‖A.map star i j‖ ≤ ‖A.map star i i‖) ↔ ∀ i, ∑ j ∈ Finset.univ.erase i, ‖A i j‖ ≤ ‖A i i‖) ∧
      ((∀ i, ∑ j ∈ Finset.univ.erase i, ‖(-A) i j‖ ≤ ‖(-A) i i‖) ↔ ∀ i, ∑ j ∈ Finset.univ.erase i, ‖A i j‖ ≤ ‖A i i‖)) ∧
    ((∀ i, ∑ j ∈ Finset.univ.erase i, ‖(c • A) i j‖ < ‖(c • A) i i‖) ↔ ∀ i, ∑ j ∈ Finset.univ.erase i, ‖A i j‖ < ‖A i i‖) ∧
    ((∀ i, ∑ j ∈ Finset.univ.erase i, ‖(c • A) i j‖ ≤ ‖(c • A) i i‖) ↔ ∀ i, ∑ j ∈ Finset.univ.erase i, ‖A i j‖ ≤ ‖A i i‖) :=
  ⟨Toq.MatrixInv.sdd_submatrix_iff A σ, Toq.MatrixInv.dd_submatrix_iff A σ, Toq.MatrixInv.sdd_phase_iff A d hd,
    Toq.MatrixInv.dd_phase_iff A d hd, Toq.MatrixInv.sdd_map_star_neg_iff A, Toq.MatrixInv.dd_map_star_neg_iff A,
    Toq.MatrixInv.sdd_smul_iff A c hc, Toq.MatrixInv.dd_smul_iff A c hc⟩

/-- **stochastic** (over `ℝ`): permutation similarity keeps row- and column-stochasticity (iff), transposition exchanges them (iff),
    doubly stochastic matrices stay so under transposition and independent row / column permutations. -/
theorem stochastic_invariant (A : Matrix n n ℝ) (σ τ : n ≃ n) :
    (((∀ i j, 0 ≤ A.submatrix σ σ i j) ∧ ∀ i, ∑ j, A.submatrix σ σ i j = 1) ↔ ((∀ i j, 0 ≤ A i j) ∧ ∀ i, ∑ j, A i j = 1)) ∧
    (((∀ i j, 0 ≤ A.submatrix σ σ i j) ∧ ∀ j, ∑ i, A.submatrix σ σ i j = 1) ↔ ((∀ i j, 0 ≤ A i j) ∧ ∀ j, ∑ i, A i j = 1)) ∧
    (((∀ i j, 0 ≤ Aᵀ i j) ∧ ∀ j, ∑ i, Aᵀ i j = 1) ↔ ((∀ i j, 0 ≤ A i j) ∧ ∀ i, ∑ j, A i j = 1)) ∧
    (((∀ i j, 0 ≤ A i j) ∧ (∀ i, ∑ j, A i j = 1) ∧ ∀ j, ∑ i, A i j = 1) →
      (∀ i j, 0 ≤ Aᵀ i j) ∧ (∀ i, ∑ j, Aᵀ i j = 1) ∧ ∀ j, ∑ i, Aᵀ i j = 1) ∧
    (((∀ i j, 0 ≤ A i j) ∧ (∀ i, ∑ j, A i j = 1) ∧ ∀ j, ∑ i, A i j = 1) →
      (∀ i j, 0 ≤ A.submatrix σ τ i j) ∧ (∀ i, ∑ j, A.submatrix σ τ i j = 1) ∧ ∀ j, ∑ i, A.submatrix σ τ i j = 1) :=
  ⟨Toq.MatrixInv.rowStoch_submatrix_iff A σ, Toq.MatrixInv.colStoch_submatrix_iff A σ, Toq.MatrixInv.rowStoch_transpose_iff A,
    Toq.MatrixInv.doublyStoch_transpose A, Toq.MatrixInv.doublyStoch_submatrix A σ τ⟩

/-- **entrywise non-negative / positive, doubly non-negative** (over `ℝ`): row and column permutations (iff), transposition, scaling by
    `c ≥ 0` resp. `c > 0`. -/
theorem nonnegative_invariant (A : Matrix n n ℝ) (σ τ : n ≃ n) (c : ℝ) :
    ((∀ i j, 0 ≤ A.submatrix σ τ i j) ↔ ∀ i j, 0 ≤ A i j) ∧ ((∀ i j, 0 < A.submatrix σ τ i j) ↔ ∀ i j, 0 < A i j) ∧
    ((∀ i j, 0 ≤ A i j) → ∀ i j, 0 ≤ Aᵀ i j) ∧ ((∀ i j, 0 < A i j) → ∀ i j, 0 < Aᵀ i j) ∧
    (0 ≤ c → (∀ i j, 0 ≤ A i j) → ∀ i j, 0 ≤ (c • A) i j) ∧ (0 < c → (∀ i j, 0 < A i j) → ∀ i j, 0 < (c • A) i j) ∧
    ((A.PosSemidef ∧ ∀ i j, 0 ≤ A i j) → (A.submatrix σ σ).PosSemidef ∧ ∀ i j, 0 ≤ A.submatrix σ σ i j) ∧
    ((A.PosSemidef ∧ ∀ i j, 0 ≤ A i j) → Aᵀ.PosSemidef ∧ ∀ i j, 0 ≤ Aᵀ i j) ∧
    (0 ≤ c → (A.PosSemidef ∧ ∀ i j, 0 ≤ A i j) → (c • A).PosSemidef ∧ ∀ i j, 0 ≤ (c • A) i j) :=
  ⟨Toq.MatrixInv.nonneg_submatrix_iff A σ τ, Toq.MatrixInv.pos_submatrix_iff A σ τ, Toq.MatrixInv.nonneg_transpose A,
    Toq.MatrixInv.pos_transpose A, Toq.MatrixInv.nonneg_smul A c, Toq.MatrixInv.pos_smul A c,
    Toq.MatrixInv.doublyNonneg_submatrix A σ, Toq.MatrixInv.doublyNonneg_transpose A, Toq.MatrixInv.doublyNonneg_smul A c⟩

/-- **totally positive** (all minors with increasing row and column selections positive; rectangular, over `ℝ`): transposition and
    reversal of both index orders (iff), scaling by `a > 0`, positive diagonal scalings `D₁ A D₂`. -/
theorem totallyPositive_invariant {p q : ℕ} (A : Matrix (Fin p) (Fin q) ℝ) (a : ℝ) (d₁ : Fin p → ℝ) (d₂ : Fin q → ℝ)
    (ha : 0 < a) (h1 : ∀ i, 0 < d₁ i) (h2 : ∀ j, 0 < d₂ j) :
    ((∀ (k : ℕ) (r : Fin k ↪o Fin q) (c : Fin k ↪o Fin p), 0 < (Aᵀ.submatrix r c).det) ↔
      ∀ (k : ℕ) (r : Fin k ↪o Fin p) (c : Fin k ↪o Fin q), 0 < (A.submatrix r c).det) ∧
    ((∀ (k : ℕ) (r : Fin k ↪o Fin p) (c : Fin k ↪o Fin q), 0 < ((A.submatrix Fin.rev Fin.rev).submatrix r c).det) ↔
      ∀ (k : ℕ) (r : Fin k ↪o Fin p) (c : Fin k ↪o Fin q), 0 < (A.submatrix r c).det) ∧
    ((∀ (k : ℕ) (r : Fin k ↪o Fin p) (c : Fin k ↪o Fin q), 0 < (A.submatrix r c).det) →
      ∀ (k : ℕ) (r : Fin k ↪o Fin p) (c : Fin k ↪o Fin q), 0 < ((a • A).submatrix r c).det) ∧
    ((∀ (k : ℕ) (r : Fin k ↪o Fin p) (c : Fin k ↪o Fin q), 0 < (A.submatrix r c).det) →
      ∀ (k : ℕ) (r : Fin k ↪o Fin p) (c : Fin k ↪o Fin q), 0 < ((diagonal d₁ * A * diagonal d₂).submatrix r c).det) :=
  ⟨Toq.MatrixInv.totPos_transpose_iff A, Toq.MatrixInv.totPos_reverse_both_iff A, Toq.MatrixInv.totPos_smul A a ha,
    Toq.MatrixInv.totPos_diag_scaling A d₁ d₂ h1 h2⟩

/-- **sets of vectors** (over `ℂ`): linear independence is unchanged (iff) by a common isometry `U`, by reordering and by unit-modulus
    phases on the vectors; mutual orthogonality and orthonormality likewise (a common isometry: iff; reordering; scalings resp. phases). -/
theorem vector_set_invariant {ι : Type} [DecidableEq ι] (U : Matrix n n ℂ) (hU : Uᴴ * U = 1) (σ : ι ≃ ι) (c : ι → ℂ)
    (hc : ∀ k, ‖c k‖ = 1) (v : ι → n → ℂ) :
    ((LinearIndependent ℂ fun k => U.mulVec (v k)) ↔ LinearIndependent ℂ v) ∧
    (LinearIndependent ℂ (v ∘ σ) ↔ LinearIndependent ℂ v) ∧
    ((LinearIndependent ℂ fun k => c k • v k) ↔ LinearIndependent ℂ v) ∧
    ((∀ i j, i ≠ j → star (U.mulVec (v i)) ⬝ᵥ U.mulVec (v j) = 0) ↔ ∀ i j, i ≠ j → star (v i) ⬝ᵥ v j = 0) ∧
    ((∀ i j, i ≠ j → star (v i) ⬝ᵥ v j = 0) → ∀ i j, i ≠ j → star ((v ∘ σ) i) ⬝ᵥ (v ∘ σ) j = 0) ∧
    ((∀ i j, i ≠ j → star (v i) ⬝ᵥ v j = 0) → ∀ i j, i ≠ j → star (c i • v i) ⬝ᵥ (c j • v j) = 0) ∧
    ((∀ i j, star (U.mulVec (v i)) ⬝ᵥ U.mulVec (v j) = if i = j then 1 else 0) ↔ ∀ i j, star (v i) ⬝ᵥ v j = if i = j then 1 else 0) ∧
    ((∀ i j, star (v i) ⬝ᵥ v j = if i = j then 1 else 0) → ∀ i j, star ((v ∘ σ) i) ⬝ᵥ (v ∘ σ) j = if i = j then 1 else 0) ∧
    ((∀ i j, star (v i) ⬝ᵥ v j = if i = j then 1 else 0) → ∀ i j, star (c i • v i) ⬝ᵥ (c j • v j) = if i = j then 1 else 0) :=
  ⟨Toq.MatrixInv.linIndep_common_unitary_iff U hU v, Toq.MatrixInv.linIndep_reorder_iff σ v, Toq.MatrixInv.linIndep_phases_iff c hc v,
    Toq.MatrixInv.orth_common_unitary_iff U hU v, Toq.MatrixInv.orth_reorder σ v, Toq.MatrixInv.orth_smul c v,
    Toq.MatrixInv.orthonormal_common_unitary_iff U hU v, Toq.MatrixInv.orthonormal_reorder σ v,
    Toq.MatrixInv.orthonormal_phases c (fun k => Toq.MatrixInv.star_mul_self_of_norm_one (c k) (hc k)) v⟩

/-- **mutually unbiased**: the overlaps `|⟨v_i, w_j⟩|` between two families are unchanged by a common isometry and by unit-modulus phases,
    and a constant overlap survives reordering within each family. -/
theorem mub_invariant {ι κ : Type} (U : Matrix n n ℂ) (hU : Uᴴ * U = 1) (c : ι → ℂ) (e : κ → ℂ) (hc : ∀ k, ‖c k‖ = 1)
    (he : ∀ k, ‖e k‖ = 1) (σ : ι ≃ ι) (τ : κ ≃ κ) (v : ι → n → ℂ) (w : κ → n → ℂ) (a : ℝ) :
    (∀ i j, ‖star (U.mulVec (v i)) ⬝ᵥ U.mulVec (w j)‖ = ‖star (v i) ⬝ᵥ w j‖) ∧
    (∀ i j, ‖star (c i • v i) ⬝ᵥ (e j • w j)‖ = ‖star (v i) ⬝ᵥ w j‖) ∧
    ((∀ i j, ‖star (v i) ⬝ᵥ w j‖ = a) → ∀ i j, ‖star ((v ∘ σ) i) ⬝ᵥ (w ∘ τ) j‖ = a) :=
  ⟨Toq.MatrixInv.mub_norm_common_unitary U hU v w, Toq.MatrixInv.mub_norm_phases c e hc he v w,
    Toq.MatrixInv.mub_norm_reorder σ τ v w a⟩

end invarianceOrder


/-! ## concrete instances for Parts 5–6 (the hypotheses are satisfiable, the deciders and mirrors compute) -/

/-- the self-certifying definiteness deciders on the complex Hermitian positive definite `[[2, i], [-i, 2]]` and the indefinite
    `[[1, 2], [2, 1]]` (certificate search and proved checker run inside the kernel) -/
example : psdV (⟨2, 2, fun i j => if i = j then ⟨2, 0⟩ else ⟨0, if i < j then 1 else -1⟩⟩ : Mat QI) (1 / 1000) = .yes ∧ psdV (⟨2, 2, fun i j => if i = j then ⟨1, 0⟩ else ⟨2, 0⟩⟩ : Mat QI) (1 / 1000) = .no ∧ pdV (⟨2, 2, fun i j => if i = j then ⟨2, 0⟩ else ⟨0, if i < j then 1 else -1⟩⟩ : Mat QI) (1 / 1000) = .yes ∧ pdV (⟨2, 2, fun i j => if i = j then ⟨1, 0⟩ else ⟨2, 0⟩⟩ : Mat QI) (1 / 1000) = .no := by
  decide +kernel

/-- `np.isclose` is asymmetric: `1` is close to `1 + 5·10⁻⁶` with the default tolerances, `1 + 5·10⁻⁶` is not close to `0` -/
example : closeQ ⟨1, 0⟩ ⟨1 + 1 / 200000, 0⟩ rtolDefault atolDefault = true ∧
    closeQ ⟨1 + 1 / 200000, 0⟩ ⟨0, 0⟩ rtolDefault atolDefault = false := by decide +kernel

/-- the tolerance-level mirrors on `[[2, i], [-i, 2]]`: Hermitian, not symmetric -/
example : hermitianT (⟨2, 2, fun i j => if i = j then ⟨2, 0⟩ else ⟨0, if i < j then 1 else -1⟩⟩ : Mat QI) rtolDefault atolDefault = true ∧ symmetricT (⟨2, 2, fun i j => if i = j then ⟨2, 0⟩ else ⟨0, if i < j then 1 else -1⟩⟩ : Mat QI) rtolDefault atolDefault = false := by decide +kernel

/-- hence (Part 5) the three-valued verdicts agree: `hermitianV = yes`, `symmetricV = no` at margin `10⁻³` -/
example : hermitianV (⟨2, 2, fun i j => if i = j then ⟨2, 0⟩ else ⟨0, if i < j then 1 else -1⟩⟩ : Mat QI) (1 / 1000) = .yes ∧ symmetricV (⟨2, 2, fun i j => if i = j then ⟨2, 0⟩ else ⟨0, if i < j then 1 else -1⟩⟩ : Mat QI) (1 / 1000) = .no := by decide +kernel


/-! ## Part 9 — further code branches inside the model: `is_diagonal` line by line, `tensor_comb` -/

/-- **the reshape trick of `is_diagonal`** (`mat.reshape(-1)[:-1].reshape(n-1, n+1)[:, 1:]` must vanish) tests exactly the
    off-diagonal entries: the line-by-line mirror agrees with the definition for all sizes. -/
theorem diagonal_reshape_trick (A : Mat QI) : diagonalTrick A = true ↔ diagonalV A = .yes := diagonalTrick_iff A

/-- the keys of `tensor_comb(states, k)` are all index sequences of length `k` (`itertools.product(range(n), repeat=k)`). -/
theorem tensor_comb_sequences (n k : Nat) (l : List Nat) : l ∈ productSeqs n k ↔ l.length = k ∧ ∀ x ∈ l, x < n :=
  mem_productSeqs n k l

/-- **the density matrix of a product state is the product of the density matrices**, `(u ⊗ v)(u ⊗ v)ᴴ = (u uᴴ) ⊗ (v vᴴ)` — what
    `tensor_comb` computes for each sequence. -/
theorem tensor_comb_density_of_product {α : Type} [CommSemiring α] [StarRing α] (u v : Mat α) (i j : Nat) :
    (outerConj (u.c * v.c) (fun k => (kron u v).f 0 k)).f i j
      = (kron (outerConj u.c (fun k => u.f 0 k)) (outerConj v.c (fun k => v.f 0 k))).f i j :=
  outerConj_kron u v i j

/-- `tensor_comb` on two qubit states with `k = 2`: four sequences, in the order of `itertools.product` -/
example : productSeqs 2 2 = [[0, 0], [0, 1], [1, 0], [1, 1]] := by decide

end Toq.C16
