import Toq.Model.MatrixOps
import Toq.Model.MatrixPreds
import Toq.Spec.MatrixOps
import Toq.Proofs.MatrixOps
/-!
# C16 — matrix / state-set predicates and linear-algebra helpers match their definitions

Property theorems only (helper lemmas live in `Toq/Proofs/MatrixOps.lean`).

* Part 1: the mirror models of `vec`, `unvec`, `tensor` (all argument forms, with the `fast_exp`
  recursion), `vectors_to_gram_matrix`, `to_density_matrix`, `majorizes` and the linear system of
  `commutant` (`Toq/Model/MatrixOps.lean`) satisfy the identities the property states, for all sizes.
* Part 2: what a `yes` / `no` of the exact deciders of `Toq/Model/MatrixPreds.lean` means.
* Part 3: the invariances the harness generators rely on (over commutative star rings, all sizes).
* Part 4: the exact rank routine is Mathlib's `Matrix.rank` (`rank_correct`), and what `spark`, `linIndepV`, the UPB rank
  test and `commutantDim` therefore compute.
-/
namespace Toq.C16
open Toq.MatrixOps Toq.MatrixPreds
open scoped Toq.MatrixOps
open scoped ComplexOrder MatrixOrder

/-! ## Part 1 — helper operations -/

/-- `vec` is column stacking: entry `k` of `vec A` is `A[k mod r, k div r]` (mirror = spec). -/
theorem vec_apply {α : Type} (A : Mat α) (k : Nat) (hk : k < A.r * A.c) : (vec A).f k 0 = vecSpec A k := by
  rw [vec_f]
  unfold vecSpec
  have hr : 0 < A.r := by
    rcases Nat.eq_zero_or_pos A.r with h | h
    · rw [h] at hk; simp at hk
    · exact h
  have : k / A.r < A.c := by rw [Nat.div_lt_iff_lt_mul hr, Nat.mul_comm]; exact hk
  rw [Nat.mod_eq_of_lt this]

/-- `unvec(vec(A), A.shape) = A` for every rectangular `A`. -/
theorem unvec_vec {α : Type} (A : Mat α) (i j : Nat) (hi : i < A.r) (hj : j < A.c) :
    (unvecShape (fun k => (vec A).f k 0) A.r A.c).f i j = A.f i j :=
  unvec_vec_f A i j hi hj

/-- `vec(unvec(v, (r, c))) = v` for every vector of length `r*c`. -/
theorem vec_unvec {α : Type} (v : Nat → α) (r c k : Nat) (hk : k < r * c) :
    (vec (unvecShape v r c)).f k 0 = v k :=
  vec_unvec_f v r c k hk

/-- with the default shape (`dim = int(sqrt(size))`) `unvec` inverts `vec` on square matrices. -/
theorem unvec_default_vec {α : Type} (A : Mat α) (n : Nat) (hr : A.r = n) (hc : A.c = n) :
    ∃ M, unvec (fun k => (vec A).f k 0) (n * n) none = some M ∧ M.r = n ∧ M.c = n ∧
      ∀ i j, i < n → j < n → M.f i j = A.f i j := by
  refine ⟨_, unvec_default_sq _ n, rfl, rfl, ?_⟩
  intro i j hi hj
  have := unvec_vec_f A i j (hr ▸ hi) (hc ▸ hj)
  rw [hr, hc] at this
  exact this

/-- `vec(A X B) = (Bᵀ ⊗ A) vec(X)` for all conformable `A (m×n)`, `X (n×p)`, `B (p×q)` over a
    commutative semiring, with the Kronecker product as `np.kron` / `tensor` computes it. -/
theorem vec_mul_kron {α : Type} [CommSemiring α] (A X B : Mat α) (hAX : A.c = X.r) (hXB : X.c = B.r)
    (k : Nat) (hk : k < A.r * B.c) :
    (vec (mul (mul A X) B)).f k 0 = (mul (kron (transpose B) A) (vec X)).f k 0 :=
  vec_mul_kron_f A X B hAX hXB k hk

/-- the model's `np.kron` is the Kronecker product in toqito's index convention `enc`
    (first factor most significant): entry `((i1,i2),(j1,j2))` is `A[i1,j1]·B[i2,j2]`. -/
theorem kron_enc {α : Type} [Mul α] (A B : Mat α) : IsKron A B (kron A B) := kron_isKron A B

/-- `(A ⊗ B) ⊗ C = A ⊗ (B ⊗ C)` for rectangular matrices (shapes and all entries). -/
theorem tensor_assoc {α : Type} [Semigroup α] (A B C : Mat α) : kron (kron A B) C = kron A (kron B C) :=
  kron_assoc A B C

/-- `tensor(A, n)` (the squaring recursion `fast_exp`) is the `n`-fold iterated product, `n ≥ 1`. -/
theorem tensor_pow_eq_iterate {α : Type} [Monoid α] (A : Mat α) (n : Nat) (hn : 1 ≤ n) :
    tensor (TensorArgs.power A n) = TensorResult.mat (kronPow A n) := by
  unfold tensor
  have h0 : n ≠ 0 := by omega
  simp only [h0, ↓reduceIte]
  by_cases h1 : n = 1
  · subst h1; rfl
  · simp only [h1, ↓reduceIte]
    rw [fastExp_eq_kronPow A n hn]

/-- `tensor([A]*n)`, the left fold `((A ⊗ A) ⊗ A) …`, is the same iterated product; hence
    `tensor(A, n) = tensor([A]*n)` for every `n ≥ 1`. -/
theorem tensor_replicate_eq_iterate {α : Type} [Monoid α] (A : Mat α) (n : Nat) (hn : 1 ≤ n) :
    tensor (TensorArgs.list (List.replicate n A)) = TensorResult.mat (kronPow A n) := by
  have hfold : ∀ k m, (List.replicate k A).foldl kron (kronPow A (m + 1)) = kronPow A (m + 1 + k) := by
    intro k
    induction k with
    | zero => intro m; rfl
    | succ k ih =>
      intro m
      rw [List.replicate_succ, List.foldl_cons, ← kronPow_succ A (m + 1) (by omega), ih (m + 1)]
      congr 1; omega
  match n, hn with
  | 1, _ => rfl
  | 2, _ => rfl
  | n + 3, _ =>
    show TensorResult.mat (kronFold A (List.replicate (n + 2) A)) = _
    unfold kronFold
    have := hfold (n + 2) 0
    rw [show kronPow A (0 + 1) = A from rfl] at this
    rw [this]
    congr 2; omega

/-- the variadic form `tensor(A_1, …, A_n)` and the list form `tensor([A_1, …, A_n])` agree for `n ≥ 2`. -/
theorem tensor_many_eq_list {α : Type} [Monoid α] (l : List (Mat α)) (h : 2 ≤ l.length) :
    tensor (TensorArgs.many l) = tensor (TensorArgs.list l) := by
  match l, h with
  | [a, b], _ => rfl
  | a :: b :: c :: rest, _ => rfl

/-- `vectors_to_gram_matrix`: `G[i,j] = ⟨v_i, v_j⟩ = Σ_k conj(v_i[k])·v_j[k]`, i.e. `G = Vᴴ V`. -/
theorem gram_apply {α : Type} [CommSemiring α] [StarRing α] (d n : Nat) (vs : Nat → Nat → α) (i j : Nat) :
    (gram d n vs).f i j = ∑ k ∈ Finset.range d, star (vs i k) * vs j k :=
  gram_f d n vs i j

/-- a Gram matrix is Hermitian. -/
theorem gram_hermitian {α : Type} [CommSemiring α] [StarRing α] (d n : Nat) (vs : Nat → Nat → α) (i j : Nat) :
    star ((gram d n vs).f i j) = (gram d n vs).f j i :=
  gram_conj d n vs i j

/-- Round trip, Cholesky branch: if `G = L Lᴴ` then the **conjugated** rows of `L` are vectors whose
    Gram matrix is `G` (what `vectors_from_gram_matrix` must return). -/
theorem gram_of_conj_rows {α : Type} [CommSemiring α] [StarRing α] (d n : Nat) (L G : Nat → Nat → α)
    (hG : ∀ i j, G i j = ∑ k ∈ Finset.range d, L i k * star (L j k)) (i j : Nat) :
    (gram d n (fun a k => star (L a k))).f i j = G i j :=
  Toq.MatrixOps.gram_of_conj_rows d n L G hG i j

/-- … whereas the unconjugated rows of `L` have Gram matrix `Gᵀ = conj(G)` (the defect fixed in
    toqito commit 889422b: wrong for complex `G`). -/
theorem gram_of_rows {α : Type} [CommSemiring α] [StarRing α] (d n : Nat) (L G : Nat → Nat → α)
    (hG : ∀ i j, G i j = ∑ k ∈ Finset.range d, L i k * star (L j k)) (i j : Nat) :
    (gram d n L).f i j = G j i :=
  Toq.MatrixOps.gram_of_rows d n L G hG i j

/-- `to_density_matrix(v) = v vᴴ` is Hermitian, -/
theorem toDensity_hermitian {α : Type} [CommSemiring α] [StarRing α] (n : Nat) (v : Nat → α) (i j : Nat) :
    star ((outerConj n v).f i j) = (outerConj n v).f j i :=
  outerConj_conj n v i j

/-- satisfies `ρ² = ⟨v,v⟩·ρ` (so it is a projection, a pure state, exactly when `⟨v,v⟩ = 1`), -/
theorem toDensity_sq {α : Type} [CommSemiring α] [StarRing α] (n : Nat) (v : Nat → α) (i j : Nat) :
    (mul (outerConj n v) (outerConj n v)).f i j
      = (∑ k ∈ Finset.range n, star (v k) * v k) * (outerConj n v).f i j :=
  outerConj_sq n v i j

/-- and has trace `⟨v,v⟩`. -/
theorem toDensity_trace {α : Type} [CommSemiring α] [StarRing α] (n : Nat) (v : Nat → α) :
    sumN n (fun i => (outerConj n v).f i i) = ∑ k ∈ Finset.range n, star (v k) * v k :=
  outerConj_trace n v

/-- `majorizes(a, b)` (sort both descending, pad the shorter with zeros, compare running sums) holds
    iff every prefix sum of the sorted padded `a` dominates that of `b`. -/
theorem majorizes_iff_partial_sums (a b : List Rat) :
    majorizes a b = true ↔
      PrefixDominates (padTo (max a.length b.length) (sortDesc a)) (padTo (max a.length b.length) (sortDesc b))
        (max a.length b.length) :=
  majorizes_iff a b

/-- the sorting step of `majorizes` returns a descending rearrangement of its input. -/
theorem majorizes_sort_spec (l : List Rat) : (sortDesc l).Perm l ∧ (sortDesc l).Pairwise (fun x y => y ≤ x) :=
  ⟨sortDesc_perm l, sortDesc_sorted l⟩

/-- the linear system of `commutant`: `(A ⊗ I − I ⊗ Aᵀ)` applied to the row-major flattening of `X`
    is the row-major flattening of `A X − X A`; so its null space (reshaped in C order, as the code
    does) is exactly the set of matrices commuting with `A`. -/
theorem commutant_system_apply {α : Type} [CommRing α] (n : Nat) (A X : Mat α) (hAr : A.r = n) (hAc : A.c = n)
    (hXc : X.c = n) (i j : Nat) (hi : i < n) (hj : j < n) :
    (mul (commSystem n A) (vecC X)).f (i * n + j) 0 = (sub (mul A X) (mul X A)).f i j :=
  commSystem_apply_f n A X hAr hAc hXc i j hi hj

/-! ## Part 2 — what the verdicts of the exact deciders mean -/

/-- the generic equation decider says `yes` iff the two sides are equal in every entry. -/
theorem eqV_yes_iff (L R : Mat QI) (m : Rat) (hr : R.r = L.r) (hc : R.c = L.c) :
    eqV L R m = .yes ↔ ∀ i j, i < L.r → j < L.c → L.f i j = R.f i j :=
  Toq.MatrixPreds.eqV_yes_iff L R m hr hc

/-- it says `no` only if some entry of the two sides differs by at least `margin·(1 + S)`
    (in `|re| + |im|`) where `S` bounds every entry of both sides. -/
theorem eqV_no_imp (L R : Mat QI) (m : Rat) (hr : R.r = L.r) (hc : R.c = L.c) (h : eqV L R m = .no) :
    ∃ S : Rat, (∀ i j, i < L.r → j < L.c → (L.f i j).abs1 ≤ S ∧ (R.f i j).abs1 ≤ S) ∧
      ∃ i j, i < L.r ∧ j < L.c ∧ m * (1 + S) ≤ (L.f i j - R.f i j).abs1 :=
  eqV_no_far L R m hr hc h

/-- Hermitian decider: `yes` iff square and `A = Aᴴ` entrywise. -/
theorem hermitian_yes_iff (A : Mat QI) (m : Rat) :
    hermitianV A m = .yes ↔ A.r = A.c ∧ ∀ i j, i < A.r → j < A.c → A.f i j = (A.f j i).conj :=
  hermitianV_yes_iff A m

/-- symmetric decider: `yes` iff square and `A = Aᵀ`. -/
theorem symmetric_yes_iff (A : Mat QI) (m : Rat) :
    symmetricV A m = .yes ↔ A.r = A.c ∧ ∀ i j, i < A.r → j < A.c → A.f i j = A.f j i :=
  symmetricV_yes_iff A m

/-- identity decider: `yes` iff square with entries `δ_ij`. -/
theorem identity_yes_iff (A : Mat QI) (m : Rat) :
    identityV A m = .yes ↔ A.r = A.c ∧ ∀ i j, i < A.r → j < A.c → A.f i j = if i = j then 1 else 0 :=
  identityV_yes_iff A m

/-- idempotent decider: `yes` iff square and `A = A·A`. -/
theorem idempotent_yes_iff (A : Mat QI) (m : Rat) :
    idempotentV A m = .yes ↔ A.r = A.c ∧ ∀ i j, i < A.r → j < A.c → A.f i j = sumN A.c (fun k => A.f i k * A.f k j) :=
  idempotentV_yes_iff A m

/-- unitary decider: `yes` iff square, the columns are orthonormal (`Aᴴ A = I`) and the rows are (`A Aᴴ = I`). -/
theorem unitary_yes_iff (A : Mat QI) (m : Rat) :
    unitaryV A m = .yes ↔ A.r = A.c ∧
      (∀ i j, i < A.c → j < A.c → sumN A.r (fun k => (A.f k i).conj * A.f k j) = if i = j then 1 else 0) ∧
      (∀ i j, i < A.r → j < A.r → sumN A.c (fun k => A.f i k * (A.f j k).conj) = if i = j then 1 else 0) :=
  unitaryV_yes_iff A m

/-- normal decider: `yes` iff square and `A Aᴴ = Aᴴ A`. -/
theorem normal_yes_iff (A : Mat QI) (m : Rat) :
    normalV A m = .yes ↔ A.r = A.c ∧ ∀ i j, i < A.r → j < A.r →
      sumN A.c (fun k => A.f i k * (A.f j k).conj) = sumN A.r (fun k => (A.f k i).conj * A.f k j) :=
  normalV_yes_iff A m

/-- anti-Hermitian decider (the code asks `is_hermitian(1j * A)`): `yes` iff square and `A = -Aᴴ`. -/
theorem antiHermitian_yes_iff (A : Mat QI) (m : Rat) :
    antiHermitianV A m = .yes ↔ A.r = A.c ∧ ∀ i j, i < A.r → j < A.c → A.f i j = -((A.f j i).conj) :=
  antiHermitianV_yes_iff A m

/-- projection decider (toqito's `is_projection` = its docstring example = idempotent): `yes` iff square and `A·A = A`. -/
theorem projection_yes_iff (A : Mat QI) (m : Rat) :
    projectionV A m = .yes ↔ A.r = A.c ∧ ∀ i j, i < A.r → j < A.c → sumN A.c (fun k => A.f i k * A.f k j) = A.f i j :=
  projectionV_yes_iff A m

/-- commuting decider: `yes` iff `A B - B A = 0` entrywise (operands of the same square size). -/
theorem commuting_yes_iff (A B : Mat QI) (m : Rat) (hc : A.c = B.c) :
    commutingV A B m = .yes ↔ ∀ i j, i < A.r → j < B.c →
      sumN A.c (fun k => A.f i k * B.f k j) - sumN B.c (fun k => B.f i k * A.f k j) = 0 :=
  commutingV_yes_iff A B m hc

/-- circulant decider: `yes` iff square and every row is the previous row rotated one place to the right. -/
theorem circulant_yes_iff (A : Mat QI) (m : Rat) :
    circulantV A m = .yes ↔ A.r = A.c ∧ ∀ i j, i < A.r - 1 → j < A.r → A.f (i + 1) j = A.f i ((j + A.r - 1) % A.r) :=
  circulantV_yes_iff A m

/-- diagonal decider: `yes` iff square with all off-diagonal entries exactly zero. -/
theorem diagonal_yes_iff (A : Mat QI) :
    diagonalV A = .yes ↔ A.r = A.c ∧ ∀ i j, i < A.r → j < A.c → i ≠ j → A.f i j = 0 :=
  diagonalV_yes_iff A

/-- permutation decider: `yes` iff every entry is 0 or 1 and every row and every column sums to 1. -/
theorem permutation_yes_iff (A : Mat QI) :
    permutationV A = .yes ↔ (∀ i j, i < A.r → j < A.c → A.f i j = 0 ∨ A.f i j = 1) ∧
      (∀ i, i < A.r → sumN A.c (fun j => A.f i j) = 1) ∧ (∀ j, j < A.c → sumN A.r (fun i => A.f i j) = 1) :=
  permutationV_yes_iff A

/-- non-negative decider: `yes` iff every entry is real and `≥ 0`. -/
theorem nonnegative_yes_iff (A : Mat QI) :
    nonnegativeV A = .yes ↔ ∀ i j, i < A.r → j < A.c → (A.f i j).im = 0 ∧ 0 ≤ (A.f i j).re :=
  nonnegativeV_yes_iff A

/-- **PSD certificate**: if the checker accepts `A = L·diag(D)·Lᴴ` with `D ≥ 0` then the complex matrix
    denoted by `A` is positive semidefinite (the harness sends one for every `yes` of the definiteness deciders). -/
theorem psd_certificate_sound {n : Nat} (A L : EMat n n) (D : Fin n → Rat) :
    psdCertLDL A L D = true → A.toM.PosSemidef :=
  psdCertLDL_sound A L D

/-- **non-PSD certificate**: if the checker accepts a vector with `xᴴ (A + μ I) x < 0` then `A + μ I` is not
    positive semidefinite, i.e. `A` has an eigenvalue below `-μ` (sent for every `no` on a Hermitian matrix). -/
theorem not_psd_certificate_sound {n : Nat} (A : EMat n n) (x : EMat n 1) (μ : Rat) :
    npsdCert A x μ = true →
      ¬ (A.toM + (((μ : Rat) : ℝ) : ℂ) • (1 : Matrix (Fin n) (Fin n) ℂ)).PosSemidef :=
  npsdCert_sound A x μ

/-- **independence certificate**: a left inverse `W V = I` proves that the columns of `V` are linearly
    independent over `ℂ` (sent for every `yes` of `is_linearly_independent`). -/
theorem linIndep_certificate_sound {d n : Nat} (V : EMat d n) (W : EMat n d) :
    linIndepCert V W = true → LinearIndependent ℂ V.toM.col :=
  linIndepCert_sound V W

/-- **dependence certificate**: a non-zero `c` with `V c = 0` proves that they are not (sent for every `no`). -/
theorem linDep_certificate_sound {d n : Nat} (V : EMat d n) (c : EMat n 1) :
    linDepCert V c = true → ¬ LinearIndependent ℂ V.toM.col :=
  linDepCert_sound V c

/-- **rank certificate**: `P S Q = I_r`, `S N = 0`, `M N = I_k`, `r + k = #columns` prove `rank S = r` and
    `dim ker S = k`; with `S` the linear system of `commutant` this is the exact dimension of the commutant. -/
theorem rank_certificate_sound {R C r k : Nat} (S : EMat R C) (P : EMat r R) (Q : EMat C r) (N : EMat C k) (M : EMat k C) :
    rankCert S P Q N M = true → S.toM.rank = r ∧ Module.finrank ℂ (LinearMap.ker S.toM.mulVecLin) = k :=
  rankCert_sound S P Q N M

/-! ## Part 3 — invariances used by the generators (all sizes, commutative star rings) -/

section invariance
open Matrix
variable {n : Type} [Fintype n] [DecidableEq n] {R : Type} [CommRing R] [StarRing R]

/-- conjugation `U A Uᴴ` by any matrix preserves Hermitian matrices. -/
theorem hermitian_conj_invariant (A U : Matrix n n R) (hA : A.IsHermitian) : (U * A * Uᴴ).IsHermitian :=
  Toq.MatrixInv.herm_conj A U hA

/-- … and anti-Hermitian matrices. -/
theorem antiHermitian_conj_invariant (A U : Matrix n n R) (hA : Aᴴ = -A) : (U * A * Uᴴ)ᴴ = -(U * A * Uᴴ) :=
  Toq.MatrixInv.antiherm_conj A U hA

/-- unitary conjugation preserves normality. -/
theorem normal_unitary_conj_invariant (A U : Matrix n n R) (hU : Uᴴ * U = 1) (hA : A * Aᴴ = Aᴴ * A) :
    (U * A * Uᴴ) * (U * A * Uᴴ)ᴴ = (U * A * Uᴴ)ᴴ * (U * A * Uᴴ) :=
  Toq.MatrixInv.normal_conj A U hU hA

/-- products of unitaries are unitary (permutations, phases, Givens rotations, Cayley transforms compose). -/
theorem unitary_mul_closed (U V : Matrix n n R) (hU : Uᴴ * U = 1) (hV : Vᴴ * V = 1) : (U * V)ᴴ * (U * V) = 1 :=
  Toq.MatrixInv.unitary_mul U V hU hV

/-- the columns of a unitary are orthonormal. -/
theorem unitary_columns_orthonormal (U : Matrix n n R) (hU : Uᴴ * U = 1) (i j : n) :
    ∑ k, star (U k i) * U k j = if i = j then 1 else 0 :=
  Toq.MatrixInv.unitary_cols U hU i j

/-- unitary conjugation preserves idempotents (projections). -/
theorem idempotent_unitary_conj_invariant (A U : Matrix n n R) (hU : Uᴴ * U = 1) (hA : A * A = A) :
    (U * A * Uᴴ) * (U * A * Uᴴ) = U * A * Uᴴ :=
  Toq.MatrixInv.idem_conj A U hU hA

/-- transposition preserves symmetric matrices, -/
theorem symmetric_transpose_invariant (A : Matrix n n R) (hA : Aᵀ = A) : (Aᵀ)ᵀ = Aᵀ :=
  Toq.MatrixInv.symm_transpose A hA

/-- and so does every congruence `Q A Qᵀ`. -/
theorem symmetric_congruence_invariant (A Q : Matrix n n R) (hA : Aᵀ = A) : (Q * A * Qᵀ)ᵀ = Q * A * Qᵀ :=
  Toq.MatrixInv.symm_congr A Q hA

end invariance

/-- conjugation `B A Bᴴ` preserves positive semidefiniteness (any star-ordered coefficient ring, e.g. `ℂ`;
    rectangular `B` allowed). -/
theorem psd_conj_invariant {n m S : Type} [Fintype n] [Fintype m] [Ring S] [PartialOrder S] [StarRing S]
    (A : Matrix n n S) (B : Matrix m n S) (hA : A.PosSemidef) : (B * A * B.conjTranspose).PosSemidef :=
  hA.mul_mul_conjTranspose_same B

/-- **Cayley transform**: in any star ring, if `sᴴ = -s` and `u` is the inverse of `1 + s` then
    `(1 - s)·u` is unitary (used for `n × n` matrices over `ℚ[i]`). -/
theorem cayley_unitary {R : Type} [Ring R] [StarRing R] (s u : R) (hs : star s = -s)
    (h1 : u * (1 + s) = 1) (h2 : (1 + s) * u = 1) :
    star ((1 - s) * u) * ((1 - s) * u) = 1 ∧ ((1 - s) * u) * star ((1 - s) * u) = 1 :=
  Toq.MatrixInv.cayley_unitary s u hs h1 h2

/-- the product of two permutation matrices (ones at `(i, σ i)`) is the permutation matrix of the
    composition. -/
theorem permutation_mul_closed {α : Type} [Semiring α] (n : Nat) (σ τ : Nat → Nat) (hσ : ∀ i, i < n → σ i < n)
    (i j : Nat) (hi : i < n) :
    (mul (permMat n σ) (permMat n τ : Mat α)).f i j = (permMat n (fun k => τ (σ k)) : Mat α).f i j :=
  permMat_mul n σ τ hσ i j hi

/-! ## concrete instances (the hypotheses are satisfiable, the models compute) -/

/-- the docstring example of `vec` -/
example : (List.range 4).map (fun k => (vec (⟨2, 2, fun i j => (2 * i + j + 1 : Int)⟩ : Mat Int)).f k 0) = [1, 3, 2, 4] := by
  decide

/-- `tensor(v, 5)` through `fast_exp` on a length-2 integer vector: shape `1 × 32`, last entry `2^5` -/
example : tensor (TensorArgs.power (⟨1, 2, fun _ j => (j + 1 : Int)⟩ : Mat Int) 5)
      = TensorResult.mat (kronPow ⟨1, 2, fun _ j => (j + 1 : Int)⟩ 5)
    ∧ (kronPow (⟨1, 2, fun _ j => (j + 1 : Int)⟩ : Mat Int) 5).c = 32
    ∧ (kronPow (⟨1, 2, fun _ j => (j + 1 : Int)⟩ : Mat Int) 5).f 0 31 = 32 :=
  ⟨tensor_pow_eq_iterate _ 5 (by omega), by decide, by decide⟩

/-- the running-sum loop of `majorizes` on `[3,0,0]` against `[1,1,1]` and conversely -/
example : majLoop [3, 0, 0] [1, 1, 1] 0 0 = true ∧ majLoop [1, 1, 1] [3, 0, 0] 0 0 = false := by
  decide +kernel

/-! ## Part 4 — the exact rank oracle is Mathlib's rank (correctness of the elimination), and what uses it

`rank`, `spark`, `linIndepV`, the rank test of the UPB search and `commutantDim` all run the shared Gaussian elimination of
`Toq/Core/Rank.lean`, proved correct in `Toq/Proofs/Rank.lean`.  `qmatToM r c M` is the complex `r × c` matrix denoted by the
leading block of the exact rows `M`; `colFamily m M cols` the family of its columns with the listed indices. -/

/-- **The exact rank routine is correct.**  For every size and all exact rows, `rank rows cols M` (Gaussian elimination over
    `ℚ[i]`) equals Mathlib's `Matrix.rank` of the complex `rows × cols` matrix the rows denote. -/
theorem rank_correct (rows cols : Nat) (M : QMat) : rank rows cols M = (qmatToM rows cols M).rank :=
  rank_eq_rank rows cols M

/-- **Rank deficiency = a non-zero kernel vector.**  `rank r c M < c` holds exactly when some non-zero `x ∈ ℂ^c` satisfies
    `M x = 0`.  This is the test of the UPB search (`rank < d_i`: party `i` has a non-zero local vector annihilated by all
    local factors it received). -/
theorem rank_lt_cols_iff_kernel (r c : Nat) (M : QMat) :
    rank r c M < c ↔ ∃ x : Fin c → ℂ, x ≠ 0 ∧ Matrix.mulVec (qmatToM r c M) x = 0 := by
  rw [rank_correct]; exact Toq.Rank.rank_lt_cols_iff_kernel _

/-- **`is_linearly_independent` decides linear independence**: the exact verdict is `yes` exactly when the `n` vectors
    (of length `d`, as complex vectors) are linearly independent over `ℂ` … -/
theorem linIndepV_yes_iff (d n : Nat) (vs : Nat → Nat → QI) :
    linIndepV d n vs = .yes ↔ LinearIndependent ℂ (fun (k : Fin n) (a : Fin d) => (vs k.val a.val).toC) :=
  linIndepV_yes_iff' d n vs

/-- … and `no` exactly when they are not (the verdict is never `unknown`). -/
theorem linIndepV_no_iff (d n : Nat) (vs : Nat → Nat → QI) :
    linIndepV d n vs = .no ↔ ¬ LinearIndependent ℂ (fun (k : Fin n) (a : Fin d) => (vs k.val a.val).toC) := by
  rw [← linIndepV_yes_iff]
  unfold linIndepV Verdict.ofBool
  split <;> simp

/-- **Each rank test of `spark` decides linear dependence of the selected columns**: `matrix_rank(mat[:, cols]) < len(cols)`
    with the exact rank holds exactly when the columns `cols` of the matrix are linearly dependent over `ℂ`. -/
theorem spark_rank_test_iff (m : Nat) (M : QMat) (cols : List Nat) :
    rank m cols.length (selectCols M cols) < cols.length ↔ ¬ LinearIndependent ℂ (colFamily m M cols) :=
  rank_selectCols_lt_iff m M cols

/-- **The subsets `spark` runs through are all of them**: some `k`-subset enumerated by `combinations n k` is dependent iff some
    strictly increasing list of `k` column indices below `n` selects linearly dependent columns. -/
theorem spark_subsets_complete (m n : Nat) (M : QMat) (k : Nat) :
    DependentCols m n M k ↔ ∃ cols : List Nat, cols.length = k ∧ cols.Pairwise (· < ·) ∧ (∀ x ∈ cols, x < n) ∧
      ¬ LinearIndependent ℂ (colFamily m M cols) :=
  dependentCols_iff m n M k

/-- **`spark`: a zero column gives 1** (the shortcut `np.any(np.all(mat == 0, axis=0))`). -/
theorem spark_zero_column (m n : Nat) (M : QMat) (h : ∃ j, j < n ∧ ∀ i, i < m → M.get i j = 0) : spark m n M = 1 :=
  spark_of_zeroCol m n M h

/-- **`spark` is the least number of linearly dependent columns.**  For an `m × n` matrix without a zero column the value `s`
    returned by the mirror of `spark` (with the exact rank) satisfies `1 ≤ s ≤ min(m,n) + 1`; if `s ≤ min(m,n)` then some `s`
    columns are linearly dependent; and for every `1 ≤ k < s` every `k` columns are linearly independent
    (so `s = min(m,n) + 1` is returned exactly when every `min(m,n)` columns are independent). -/
theorem spark_spec (m n : Nat) (M : QMat) (h : ¬ ∃ j, j < n ∧ ∀ i, i < m → M.get i j = 0) :
    1 ≤ spark m n M ∧ spark m n M ≤ min m n + 1 ∧
    (spark m n M ≤ min m n → DependentCols m n M (spark m n M)) ∧
    (∀ k, 1 ≤ k → k < spark m n M → ¬ DependentCols m n M k) :=
  spark_spec_aux m n M h

/-- **`commutantDim` is the nullity of the linear system of `commutant`**: `dim² − rank` of the stacked system
    `[A_g ⊗ 1 − 1 ⊗ A_gᵀ]_g` equals the dimension over `ℂ` of its kernel (rank–nullity with the exact rank). -/
theorem commutantDim_eq_nullity (dim : Nat) (gens : List (Mat QI)) :
    commutantDim dim gens
      = Module.finrank ℂ (LinearMap.ker (qmatToM (gens.length * dim * dim) (dim * dim) (commStack dim gens)).mulVecLin) :=
  commutantDim_eq dim gens

/-- the routines on concrete matrices: `[[1, 0, 1], [0, i, i]]` has rank 2 and spark 3; `[[1, 2], [2, 4]]` has spark 2 -/
example : rank 2 3 #[#[1, 0, 1], #[0, ⟨0, 1⟩, ⟨0, 1⟩]] = 2 ∧ spark 2 3 #[#[1, 0, 1], #[0, ⟨0, 1⟩, ⟨0, 1⟩]] = 3
    ∧ spark 2 2 #[#[1, ⟨2, 0⟩], #[⟨2, 0⟩, ⟨4, 0⟩]] = 2 := by
  decide +kernel

end Toq.C16
