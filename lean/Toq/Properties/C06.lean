import Toq.Model.ChannelProps
import Toq.Spec.ChannelProps
import Toq.Proofs.ChannelProps
/-!
# C06 — channel predicates decide by definition; built-in channels are what they claim

Property theorems only (helper lemmas: `Toq/Proofs/ChannelProps.lean`).  Vocabulary: `Toq/Spec/ChannelProps.lean`
(maps `Φ : M_{di}(ℂ) → M_{dO}(ℂ)`, Choi matrix `J(Φ) = Σ_ij E_ij ⊗ Φ(E_ij)` over `Fin di × Fin dO`, the textbook
definitions `IsTP`, `IsUnital`, `IsHP`, `IsPositive`, `IsCP` (all amplifications positive), `HasKraus`,
`IsUnitaryChannel`); executable deciders and closed-form channel models: `Toq/Model/ChannelProps.lean`.

1. **Characterisations** — the tests toqito's predicates perform are equivalent to the definitions:
   `tp_iff_ptrace_choi`, `unital_iff_ptrace_choi`, `hp_iff_choi_hermitian`, Choi's theorem `cp_iff_choi_psd`
   (with `cp_of_kraus`, `kraus_of_psd_choi`, `kraus_isCP`), `cp_implies_positive`, `pairMap_tp_iff`,
   `unitary_channel`, `unitary_iff_choi`, `choiRank_le_kraus`, and the bridge `choi_pairMap_eq_choiSpec` to the
   Choi matrix that `kraus_to_choi` computes (C04).
2. **Deciders** — the exact three-valued deciders run by the driver mean what they say:
   `tpDecide_iff`, `unitalDecide_iff`, `hpDecide_iff`, `psdYes_sound`, `negWitness_sound`, `eqV_yes_iff`, `eqV_no_imp`,
   `…V_yes_iff / …V_no_imp`, and end to end `tpDecide_correct`, `cpDecide_sound`, `cpRefute_sound`, ….
3. **Built-in channels** — action formulas and textbook properties for all dimensions and all parameters in
   range: depolarizing, dephasing, reduction map, Choi map, (generalized) amplitude damping, phase damping,
   bit flip, Pauli channels.

4. **Ties** — the model functions the driver runs denote the specification objects: `choiOfPairs_eq_choi`,
   `choiOfArg_denotes` (Kraus list → Choi matrix), `actOfChoi_eq`, `depolAct_eq_spec`, … (direct-application
   formulas), `amplitude_damping_model_apply`, `pauliChoi_eq`; and the one-sided positivity test:
   `positive_of_choi_psd`, `not_positive_of_product_witness`.

Extremality (Choi's criterion) is cited, not proved; `extremalDecide` evaluates it exactly on a basis of
`span{K_i}`.  The exact rank (`rankQ`, Gaussian elimination over `ℚ[i]`, the shared routine of `Toq/Core/Rank.lean`) is
proved correct: `rankQ_eq_rank` (= Mathlib's `Matrix.rank` of the denoted complex matrix), `choiRank_exact` (the rank the
driver reports is the rank of the Choi matrix), `pivotCols_length` / `pivotCols_linearIndependent` (the columns
`extremalDecide` reads its basis from are `rank J` independent columns), `rankQ_eq_rows_iff` (the final test
`rank == r²` of both extremality procedures decides linear independence of the `r²` rows);
`choiRank_le_kraus` bounds the Choi rank by the number of Kraus operators.
-/

section Characterisations
open Toq.ChanPropSpec Matrix
open scoped ComplexOrder MatrixOrder
namespace Toq.C06
open Toq.ChanPropProofs
variable {di dO r n : Nat}

/-- A linear map is recovered from its Choi matrix. -/
theorem choi_faithful (Φ : LMap di dO) : ofChoi (choi Φ) = Φ := by
  apply LinearMap.ext
  intro X
  ext a b
  rw [ofChoi_apply, map_eq_sum_single Φ X]
  simp only [Matrix.sum_apply, Matrix.smul_apply, smul_eq_mul, choi_apply]

/-- Every matrix over the tensor product is the Choi matrix of the map it defines. -/
theorem choi_ofChoi (J : TMat di dO) : choi (ofChoi J) = J := by
  ext ⟨i, a⟩ ⟨j, b⟩
  rw [choi_apply, ofChoi_apply]
  rw [Finset.sum_eq_single i, Finset.sum_eq_single j]
  · simp
  · intro j' _ h; simp [Matrix.single_apply_of_col_ne _ _ (Ne.symm h)]
  · simp
  · intro i' _ h
    apply Finset.sum_eq_zero; intro j' _
    simp [Matrix.single_apply_of_row_ne (Ne.symm h)]
  · simp

/-- `Φ` preserves the trace iff the partial trace of its Choi matrix over the output factor is the identity. -/
theorem tp_iff_ptrace_choi (Φ : LMap di dO) : IsTP Φ ↔ ptraceOut (choi Φ) = 1 := by
  constructor
  · intro h
    ext i j
    rw [ptraceOut_choi_apply, h, Matrix.one_apply]
    by_cases hij : i = j
    · subst hij; simp
    · rw [Matrix.trace_single_eq_of_ne _ _ _ hij, if_neg hij]
  · intro h X
    rw [trace_map_eq, h, Matrix.trace]
    refine Finset.sum_congr rfl fun i _ => ?_
    rw [Finset.sum_eq_single i]
    · simp
    · intro j _ hj; simp [Ne.symm hj]
    · simp

/-- `Φ` is unital iff the partial trace of its Choi matrix over the input factor is the identity. -/
theorem unital_iff_ptrace_choi (Φ : LMap di dO) : IsUnital Φ ↔ ptraceIn (choi Φ) = 1 := by
  unfold IsUnital
  rw [map_one_eq]

/-- `Φ` preserves Hermiticity iff its Choi matrix is Hermitian. -/
theorem hp_iff_choi_hermitian (Φ : LMap di dO) : IsHP Φ ↔ (choi Φ).IsHermitian := by
  constructor
  · intro h
    ext ⟨i, a⟩ ⟨j, b⟩
    rw [Matrix.conjTranspose_apply, choi_apply, choi_apply]
    have := h (Matrix.single j i 1)
    rw [Matrix.conjTranspose_single, star_one] at this
    rw [this, Matrix.conjTranspose_apply]
  · intro h X
    have hE : ∀ i j, (Φ (Matrix.single i j 1))ᴴ = Φ (Matrix.single j i 1) := by
      intro i j
      ext a b
      rw [Matrix.conjTranspose_apply, ← choi_apply, ← choi_apply]
      have := congrFun (congrFun h (j, a)) (i, b)
      rw [Matrix.conjTranspose_apply] at this
      exact this
    rw [map_eq_sum_single Φ Xᴴ, map_eq_sum_single Φ X, Matrix.conjTranspose_sum, Finset.sum_comm]
    refine Finset.sum_congr rfl fun i _ => ?_
    rw [Matrix.conjTranspose_sum]
    refine Finset.sum_congr rfl fun j _ => ?_
    rw [Matrix.conjTranspose_smul, hE, Matrix.conjTranspose_apply]

/-- The Choi matrix of `X ↦ Σ_k A_k X B_kᴴ` is `Σ_k vec(A_k) vec(B_k)ᴴ`. -/
theorem choi_pairMap (A B : Fin r → Matrix (Fin dO) (Fin di) ℂ) :
    choi (pairMap A B) = ∑ k, Matrix.vecMulVec (kvec (A k)) (star (kvec (B k))) := by
  ext ⟨i, a⟩ ⟨j, b⟩
  rw [choi_apply, pairMap_apply, Matrix.sum_apply, Matrix.sum_apply]
  refine Finset.sum_congr rfl fun k _ => ?_
  rw [mul_single_mul_apply]
  rfl

/-- The Choi matrix of a map given by Kraus operators is positive semidefinite. -/
theorem cp_of_kraus (K : Fin r → Matrix (Fin dO) (Fin di) ℂ) : (choi (krausMap K)).PosSemidef := by
  unfold krausMap
  rw [choi_pairMap]
  exact Matrix.posSemidef_sum _ fun k _ => Matrix.posSemidef_vecMulVec_self_star _

/-- A map whose Choi matrix is positive semidefinite has a Kraus representation. -/
theorem kraus_of_psd_choi (Φ : LMap di dO) : (choi Φ).PosSemidef → HasKraus Φ := by
  intro h
  let e : Fin (di * dO) ≃ Fin di × Fin dO := finProdFinEquiv.symm
  let S : Matrix (Fin di × Fin dO) (Fin di × Fin dO) ℂ := CFC.sqrt (choi Φ)
  have hS : S.PosSemidef := (CFC.sqrt_nonneg (choi Φ)).posSemidef
  have hSS : S * S = choi Φ := CFC.sqrt_mul_sqrt_self (choi Φ) h.nonneg
  have hH : Sᴴ = S := hS.isHermitian
  refine ⟨di * dO, _, eq_krausMap_of_choi_eq Φ (S.submatrix id e) ?_⟩
  have hJ : choi Φ = S * Sᴴ := by rw [hH, hSS]
  rw [hJ]
  ext p q
  rw [Matrix.mul_apply, Matrix.mul_apply]
  rw [← Equiv.sum_comp e]
  rfl

/-- A map given by Kraus operators is completely positive. -/
theorem kraus_isCP (K : Fin r → Matrix (Fin dO) (Fin di) ℂ) : IsCP (krausMap K) := by
  intro n X hX
  rw [ampl_krausMap]
  exact Matrix.posSemidef_sum _ fun k _ => hX.mul_mul_conjTranspose_same _

/-- The Choi matrix of a completely positive map is positive semidefinite. -/
theorem choi_psd_of_isCP (Φ : LMap di dO) : IsCP Φ → (choi Φ).PosSemidef := by
  intro h
  rw [choi_eq_ampl]
  exact h di _ (Matrix.posSemidef_vecMulVec_self_star _)

/-- **Choi's theorem**: a map is completely positive iff its Choi matrix is positive semidefinite. -/
theorem cp_iff_choi_psd (Φ : LMap di dO) : IsCP Φ ↔ (choi Φ).PosSemidef := by
  constructor
  · exact choi_psd_of_isCP Φ
  · intro h
    obtain ⟨r, K, hK⟩ := kraus_of_psd_choi Φ h
    rw [hK]
    exact kraus_isCP K

/-- A map is completely positive iff it has a Kraus representation. -/
theorem cp_iff_hasKraus (Φ : LMap di dO) : IsCP Φ ↔ HasKraus Φ := by
  constructor
  · intro h
    exact kraus_of_psd_choi Φ (choi_psd_of_isCP Φ h)
  · rintro ⟨r, K, hK⟩
    rw [hK]
    exact kraus_isCP K

/-- A completely positive map is positive. -/
theorem cp_implies_positive (Φ : LMap di dO) : IsCP Φ → IsPositive Φ := by
  intro h X hX
  have h1 : (X.submatrix (Prod.snd : Fin 1 × Fin di → Fin di) Prod.snd).PosSemidef := hX.submatrix _
  have h2 := (h 1 _ h1).submatrix (fun a : Fin dO => ((0 : Fin 1), a))
  exact h2

/-- `X ↦ Σ_k A_k X B_kᴴ` preserves the trace iff `Σ_k A_kᴴ B_k = 1` (the test of `is_trace_preserving`). -/
theorem pairMap_tp_iff (A B : Fin r → Matrix (Fin dO) (Fin di) ℂ) :
    IsTP (pairMap A B) ↔ ∑ k, (A k)ᴴ * B k = 1 := by
  have e : (∑ k, (A k)ᴴ * B k) = (∑ k, (B k)ᴴ * A k)ᴴ := by
    rw [Matrix.conjTranspose_sum]
    refine Finset.sum_congr rfl fun k _ => ?_
    rw [Matrix.conjTranspose_mul, Matrix.conjTranspose_conjTranspose]
  have e2 : (∑ k, (A k)ᴴ * B k) = 1 ↔ (∑ k, (B k)ᴴ * A k) = 1 := by
    rw [e]
    constructor
    · intro h
      have := congrArg Matrix.conjTranspose h
      rwa [Matrix.conjTranspose_conjTranspose, Matrix.conjTranspose_one] at this
    · intro h; rw [h, Matrix.conjTranspose_one]
  rw [e2, Matrix.ext_iff_trace_mul_right]
  unfold IsTP
  simp only [trace_pairMap, Matrix.one_mul]

/-- `X ↦ Σ_k K_k X K_kᴴ` is unital iff `Σ_k K_k K_kᴴ = 1`. -/
theorem krausMap_unital_iff (K : Fin r → Matrix (Fin dO) (Fin di) ℂ) :
    IsUnital (krausMap K) ↔ ∑ k, K k * (K k)ᴴ = 1 := by
  unfold IsUnital
  rw [krausMap_apply]
  simp only [Matrix.mul_one]

/-- A unitary channel is completely positive, trace preserving and unital. -/
theorem unitary_channel (Φ : LMap di di) : IsUnitaryChannel Φ → IsCP Φ ∧ IsTP Φ ∧ IsUnital Φ := by
  rintro ⟨U, h1, h2, hΦ⟩
  have e : Φ = krausMap (one_fam U) := by
    apply LinearMap.ext; intro X; rw [hΦ, krausMap_one_fam]
  refine ⟨?_, ?_, ?_⟩
  · rw [e]; exact kraus_isCP _
  · rw [e]; unfold krausMap
    rw [pairMap_tp_iff, Fin.sum_univ_one]; exact h1
  · rw [e, krausMap_unital_iff, Fin.sum_univ_one]; exact h2

/-- A map is a unitary channel iff its Choi matrix is `vec(U) vec(U)ᴴ` for an isometry (hence unitary) `U`. -/
theorem unitary_iff_choi (Φ : LMap di di) :
    IsUnitaryChannel Φ ↔ ∃ U : Matrix (Fin di) (Fin di) ℂ, Uᴴ * U = 1 ∧
      choi Φ = Matrix.vecMulVec (kvec U) (star (kvec U)) := by
  constructor
  · rintro ⟨U, h1, h2, hΦ⟩
    have e : Φ = krausMap (one_fam U) := by
      apply LinearMap.ext; intro X; rw [hΦ, krausMap_one_fam]
    exact ⟨U, h1, by rw [e, choi_krausMap_one_fam]⟩
  · rintro ⟨U, h1, hJ⟩
    have e : Φ = krausMap (one_fam U) := by
      apply choi_injective; rw [hJ, choi_krausMap_one_fam]
    refine ⟨U, h1, mul_eq_one_comm.mp h1, fun X => ?_⟩
    rw [e, krausMap_one_fam]

/-- A trace-preserving map whose Choi matrix is `vec(K) vec(K)ᴴ` is a unitary channel (the criterion of `is_unitary`). -/
theorem unitary_of_rank_one_tp (Φ : LMap di di) (K : Matrix (Fin di) (Fin di) ℂ)
    (h : choi Φ = Matrix.vecMulVec (kvec K) (star (kvec K))) (htp : IsTP Φ) : IsUnitaryChannel Φ := by
  rw [unitary_iff_choi]
  refine ⟨K, ?_, h⟩
  have e : Φ = pairMap (one_fam K) (one_fam K) := by
    apply choi_injective; rw [h]; exact (choi_krausMap_one_fam K).symm
  rw [e, pairMap_tp_iff, Fin.sum_univ_one] at htp
  exact htp

/-- A vector with negative shifted quadratic form refutes `A + c·1 ⪰ 0`. -/
theorem not_psd_of_witness {ι : Type} [Fintype ι] [DecidableEq ι] (A : Matrix ι ι ℂ) (v : ι → ℂ) (c : ℝ)
    (h : (star v ⬝ᵥ (A *ᵥ v)).re + c * (star v ⬝ᵥ v).re < 0) :
    ¬ (A + (c : ℂ) • (1 : Matrix ι ι ℂ)).PosSemidef := by
  intro hp
  have h0 := hp.dotProduct_mulVec_nonneg v
  rw [Matrix.add_mulVec, Matrix.smul_mulVec, Matrix.one_mulVec, dotProduct_add, dotProduct_smul, smul_eq_mul] at h0
  have h1 := (Complex.nonneg_iff.mp h0).1
  rw [Complex.add_re, Complex.re_ofReal_mul] at h1
  linarith

/-- A vector with negative quadratic form refutes positive semidefiniteness. -/
theorem not_psd_of_neg_quadForm {ι : Type} [Fintype ι] [DecidableEq ι] (A : Matrix ι ι ℂ) (v : ι → ℂ)
    (h : (star v ⬝ᵥ (A *ᵥ v)).re < 0) : ¬ A.PosSemidef := by
  have := not_psd_of_witness A v 0 (by simpa using h)
  simpa using this

/-- The Choi rank is at most the number of Kraus operators. -/
theorem choiRank_le_kraus (K : Fin r → Matrix (Fin dO) (Fin di) ℂ) : (choi (krausMap K)).rank ≤ r := by
  have e : choi (krausMap K) =
      (Matrix.of fun (p : Fin di × Fin dO) (k : Fin r) => kvec (K k) p) *
      (Matrix.of fun (p : Fin di × Fin dO) (k : Fin r) => kvec (K k) p)ᴴ := by
    ext ⟨i, a⟩ ⟨j, b⟩
    rw [choi_krausMap_apply, Matrix.mul_apply]
    rfl
  rw [e]
  refine (Matrix.rank_mul_le_left _ _).trans ?_
  exact (Matrix.rank_le_card_width _).trans_eq (Fintype.card_fin r)

section bridge
open Toq.ChannelOps Toq.ChannelSpec

/-- The Choi matrix of the specification of C06 is, under the big-endian pairing `(i, a) ↦ i·d_out + a`,
    the Choi matrix `choiSpec` of the specification of C04 (what `kraus_to_choi` returns). -/
theorem choi_pairMap_eq_choiSpec (A B : Nat → Nat → Nat → ℂ) (r di dO : Nat) :
    ∀ (i j : Fin di) (a b : Fin dO),
      choi (pairMap (fun k : Fin r => toM dO di (A k)) (fun k : Fin r => toM dO di (B k))) (i, a) (j, b)
        = choiSpec r A B di di dO dO (i.val * dO + a.val) (j.val * dO + b.val) := by
  intro i j a b
  rw [choi_pairMap_apply]
  unfold choiSpec
  obtain ⟨h1, h2⟩ := divmod_be i.val dO a.val a.2
  obtain ⟨h3, h4⟩ := divmod_be j.val dO b.val b.2
  rw [h1, h2, h3, h4, applySpec_unit r A B di di i.val j.val a.val b.val i.2 j.2, sumN_eq_sum_fin]
  rfl

end bridge

end Toq.C06
end Characterisations

section Deciders
open Matrix
open scoped ComplexOrder
namespace Toq.C06
open Toq.ChannelProps Toq.ChanPropSpec Toq.ChanPropProofs

variable {di dO : Nat}

/-- The exact trace-preservation test on a rational Choi matrix answers `true` exactly when the partial
trace over the output factor of the denoted complex matrix is the identity. -/
theorem tpDecide_iff (J : EMat (di * dO) (di * dO)) :
    tpDecide J = true ↔ Toq.ChanPropSpec.ptraceOut (toChoi J) = 1 := by
  unfold tpDecide
  rw [beq_iff, toM_ptraceOut, EMat.toM_one]

/-- The exact unitality test answers `true` exactly when the partial trace over the input factor of the
denoted complex matrix is the identity. -/
theorem unitalDecide_iff (J : EMat (di * dO) (di * dO)) :
    unitalDecide J = true ↔ Toq.ChanPropSpec.ptraceIn (toChoi J) = 1 := by
  unfold unitalDecide
  rw [beq_iff, toM_ptraceIn, EMat.toM_one]

/-- The exact Hermiticity-preservation test answers `true` exactly when the denoted Choi matrix is Hermitian. -/
theorem hpDecide_iff (J : EMat (di * dO) (di * dO)) :
    hpDecide J = true ↔ (toChoi J).IsHermitian := by
  unfold hpDecide
  rw [isHermitian_iff, toChoi_isHermitian_iff]

/-- `eqV` answers `yes` exactly when the two denoted complex matrices are equal. -/
theorem eqV_yes_iff {n m : Nat} (A B : EMat n m) : eqV A B = Verdict.yes ↔ A.toM = B.toM := by
  rw [eqV_yes, beq_iff]

/-- `eqV` answers `no` only when the two denoted complex matrices differ. -/
theorem eqV_no_imp {n m : Nat} (A B : EMat n m) : eqV A B = Verdict.no → A.toM ≠ B.toM :=
  fun h => farApart_ne A B (eqV_no A B h)

/-- The exact single-operator unitarity test answers `true` exactly when `UᴴU = 1` and `UUᴴ = 1` hold for the
denoted complex matrix. -/
theorem unitaryMatDecide_iff {d : Nat} (U : EMat d d) :
    unitaryMatDecide U = true ↔ U.toMᴴ * U.toM = 1 ∧ U.toM * U.toMᴴ = 1 := by
  unfold unitaryMatDecide
  rw [Bool.and_eq_true, beq_iff, beq_iff, EMat.toM_mul, EMat.toM_mul, EMat.toM_ct, EMat.toM_one]

/-- The trace-preservation verdict is `yes` exactly when `Tr_out J = 1` for the denoted Choi matrix. -/
theorem tpV_yes_iff (J : EMat (di * dO) (di * dO)) :
    tpV J = Verdict.yes ↔ Toq.ChanPropSpec.ptraceOut (toChoi J) = 1 := by
  unfold tpV
  rw [eqV_yes_iff, toM_ptraceOut, EMat.toM_one]

/-- The trace-preservation verdict is `no` only when `Tr_out J ≠ 1` for the denoted Choi matrix. -/
theorem tpV_no_imp (J : EMat (di * dO) (di * dO)) :
    tpV J = Verdict.no → Toq.ChanPropSpec.ptraceOut (toChoi J) ≠ 1 := by
  intro h
  have := eqV_no_imp _ _ h
  rwa [toM_ptraceOut, EMat.toM_one] at this

/-- The unitality verdict is `yes` exactly when `Tr_in J = 1` for the denoted Choi matrix. -/
theorem unitalV_yes_iff (J : EMat (di * dO) (di * dO)) :
    unitalV J = Verdict.yes ↔ Toq.ChanPropSpec.ptraceIn (toChoi J) = 1 := by
  unfold unitalV
  rw [eqV_yes_iff, toM_ptraceIn, EMat.toM_one]

/-- The unitality verdict is `no` only when `Tr_in J ≠ 1` for the denoted Choi matrix. -/
theorem unitalV_no_imp (J : EMat (di * dO) (di * dO)) :
    unitalV J = Verdict.no → Toq.ChanPropSpec.ptraceIn (toChoi J) ≠ 1 := by
  intro h
  have := eqV_no_imp _ _ h
  rwa [toM_ptraceIn, EMat.toM_one] at this

/-- The Hermiticity-preservation verdict is `yes` exactly when the denoted Choi matrix is Hermitian. -/
theorem hpV_yes_iff (J : EMat (di * dO) (di * dO)) :
    hpV J = Verdict.yes ↔ (toChoi J).IsHermitian := by
  unfold hpV
  rw [eqV_yes_iff, EMat.toM_ct, toChoi_isHermitian_iff]
  exact eq_comm

/-- The Hermiticity-preservation verdict is `no` only when the denoted Choi matrix is not Hermitian. -/
theorem hpV_no_imp (J : EMat (di * dO) (di * dO)) :
    hpV J = Verdict.no → ¬ (toChoi J).IsHermitian := by
  intro h hH
  have := eqV_no_imp _ _ h
  rw [EMat.toM_ct] at this
  exact this ((toChoi_isHermitian_iff J).mp hH).symm

/-- A positive certificate (`J` Hermitian and `J - L Lᴴ` diagonally dominant) proves that the denoted Choi
matrix is positive semidefinite. -/
theorem psdYes_sound {k : Nat} (J : EMat (di * dO) (di * dO)) (L : EMat (di * dO) k) :
    psdYes J L = true → (toChoi J).PosSemidef := by
  intro h
  rw [toChoi_posSemidef_iff]
  exact psdCert_sound J L h

/-- A negative witness `v` with margin `μ` (`vᴴAv < 0` and `Re vᴴAv ≤ -μ·vᴴv`, `μ ≥ 0`) refutes positive
semidefiniteness of `A`, and of every shift `A + c·1` with `c < μ`. -/
theorem negWitness_sound {n : Nat} (A : EMat n n) (v : EMat n 1) (μ : Rat) :
    negWitness A v μ = true →
      ¬ A.toM.PosSemidef ∧
        ∀ c : ℝ, c < (μ : ℝ) → ¬ (A.toM + (c : ℂ) • (1 : Matrix (Fin n) (Fin n) ℂ)).PosSemidef := by
  intro h
  simp only [negWitness, Bool.and_eq_true, decide_eq_true_eq] at h
  obtain ⟨⟨h1, h2⟩, h3⟩ := h
  have hq : (star (colVec v) ⬝ᵥ (A.toM *ᵥ colVec v)).re = ((quadForm A v).re : ℝ) := by
    rw [← quadForm_toC]; rfl
  have hn : (star (colVec v) ⬝ᵥ colVec v).re = ((normSq v).re : ℝ) := by
    rw [← normSq_toC]; rfl
  have h1' : (((quadForm A v).re : Rat) : ℝ) < 0 := by exact_mod_cast h1
  have h2' : (((quadForm A v).re : Rat) : ℝ) + (μ : ℝ) * (((normSq v).re : Rat) : ℝ) ≤ 0 := by
    exact_mod_cast h2
  have hn0 : 0 ≤ (((normSq v).re : Rat) : ℝ) := by
    rw [← hn]
    have : 0 ≤ star (colVec v) ⬝ᵥ colVec v := dotProduct_star_self_nonneg _
    exact (Complex.nonneg_iff.mp this).1
  constructor
  · intro hP
    have := (Complex.nonneg_iff.mp (hP.dotProduct_mulVec_nonneg (colVec v))).1
    rw [hq] at this
    linarith
  · intro c hc hP
    have := (Complex.nonneg_iff.mp (hP.dotProduct_mulVec_nonneg (colVec v))).1
    rw [Matrix.add_mulVec, dotProduct_add, Matrix.smul_mulVec, Matrix.one_mulVec, dotProduct_smul,
      Complex.add_re, hq, smul_eq_mul, Complex.re_ofReal_mul, hn] at this
    rcases eq_or_lt_of_le hn0 with h0 | hpos
    · rw [← h0] at this; linarith
    · have : c * (((normSq v).re : Rat) : ℝ) < (μ : ℝ) * (((normSq v).re : Rat) : ℝ) :=
        mul_lt_mul_of_pos_right hc hpos
      linarith

/-- A negative witness refutes positive semidefiniteness of the denoted Choi matrix. -/
theorem negWitness_sound_choi (J : EMat (di * dO) (di * dO)) (v : EMat (di * dO) 1) (μ : Rat) :
    negWitness J v μ = true → ¬ (toChoi J).PosSemidef := by
  intro h
  rw [toChoi_posSemidef_iff]
  exact (negWitness_sound J v μ h).1

/-- The positive-semidefiniteness verdict is `yes` only when the denoted Choi matrix is positive semidefinite. -/
theorem psdV_yes_imp {k : Nat} (J : EMat (di * dO) (di * dO)) (L : Option (EMat (di * dO) k))
    (v : Option (EMat (di * dO) 1)) : psdV J L v = Verdict.yes → (toChoi J).PosSemidef := by
  unfold psdV
  cases hE : eqV J J.ct <;> simp only [reduceCtorEq, false_imp_iff]
  cases L with
  | none =>
    cases v with
    | none => simp
    | some v => by_cases hv : negWitness J v (tolOf (maxAbs1 J)) = true <;> simp [hv]
  | some L =>
    by_cases hL : psdYes J L = true
    · intro _; exact psdYes_sound J L hL
    · cases v with
      | none => simp [hL]
      | some v => by_cases hv : negWitness J v (tolOf (maxAbs1 J)) = true <;> simp [hL, hv]

/-- The positive-semidefiniteness verdict is `no` only when the denoted Choi matrix is not positive
semidefinite (it is not Hermitian, or a negative witness was checked). -/
theorem psdV_no_imp {k : Nat} (J : EMat (di * dO) (di * dO)) (L : Option (EMat (di * dO) k))
    (v : Option (EMat (di * dO) 1)) : psdV J L v = Verdict.no → ¬ (toChoi J).PosSemidef := by
  unfold psdV
  cases hE : eqV J J.ct
  case no =>
    intro _ hP
    exact hpV_no_imp J hE hP.isHermitian
  case unknown => simp
  case yes =>
    simp only
    cases v with
    | none => cases L with
      | none => simp
      | some L => by_cases hL : psdYes J L = true <;> simp [hL]
    | some v =>
      by_cases hv : negWitness J v (tolOf (maxAbs1 J)) = true
      · intro _; exact negWitness_sound_choi J v _ hv
      · cases L with
        | none => simp [hv]
        | some L => by_cases hL : psdYes J L = true <;> simp [hL, hv]

/-! ## non-vacuity: the deciders do answer `true` on concrete inputs -/

/-- the identity channel on one qubit: `J = Σ_ij E_ij ⊗ E_ij` -/
private def Jid : EMat (2 * 2) (2 * 2) :=
  EMat.ofFn fun p q => if p.val / 2 = p.val % 2 ∧ q.val / 2 = q.val % 2 then 1 else 0
/-- `vec(1)` as a `4 × 1` factor of `Jid` -/
private def Lid : EMat (2 * 2) 1 := EMat.ofFn fun p _ => if p.val / 2 = p.val % 2 then 1 else 0
/-- `-1` on the one-dimensional space -/
private def Jneg : EMat (1 * 1) (1 * 1) := EMat.ofFn fun _ _ => ⟨-1, 0⟩
private def vone : EMat (1 * 1) 1 := EMat.ofFn fun _ _ => 1

example : tpDecide (di := 2) (dO := 2) Jid = true := by decide +kernel
example : unitalDecide (di := 2) (dO := 2) Jid = true := by decide +kernel
example : hpDecide (di := 2) (dO := 2) Jid = true := by decide +kernel
example : psdYes (n := 2 * 2) Jid Lid = true := by decide +kernel
example : negWitness (n := 1 * 1) Jneg vone 1 = true := by decide +kernel
example : psdV (k := 1) (n := 2 * 2) Jid (some Lid) none = Verdict.yes := by decide +kernel
example : psdV (k := 1) (n := 1 * 1) Jneg none (some vone) = Verdict.no := by decide +kernel
example : tpV (di := 1) (dO := 1) Jneg = Verdict.no := by decide +kernel


end Toq.C06
end Deciders

section ChoiConstructors
open Toq.ChannelProps Toq.ChanPropSpec Matrix
open scoped ComplexOrder
namespace Toq.C06
open Toq.ChanPropProofs

/-- The matrix returned by `depolarizing(d, p)` is the Choi matrix of `X ↦ (1-p)·tr(X)·1/d + p·X`. -/
theorem depolarizing_apply (d : Nat) (p : ℂ) (X : Matrix (Fin d) (Fin d) ℂ) :
    ofChoi (toT (depolChoi d p)) X = depolSpec d p X := by
  ext a b
  have h1 : ∀ i j : Fin d, X i j * (toT (depolChoi d p) : TMat d d) (i, a) (j, b)
      = ((1 - p) / (d : ℂ)) * (X i j * (if i = j ∧ a = b then (1 : ℂ) else 0))
        + p * (X i j * ((if i = a then (1 : ℂ) else 0) * (if j = b then 1 else 0))) := by
    intro i j
    rw [toT_apply]
    simp only [depolChoi, psi_idx, delta_idx]
    ring
  simp only [ofChoi_apply', h1, Finset.sum_add_distrib, ← Finset.mul_sum, sum_pick, sum_diag]
  simp only [depolSpec, Matrix.add_apply, Matrix.smul_apply, Matrix.one_apply, smul_eq_mul]
  by_cases h : a = b
  · simp [h]; ring
  · simp [h]

/-- `depolarizing(d, p)` is trace preserving for every parameter. -/
theorem depolarizing_tp (d : Nat) (p : ℂ) : IsTP (ofChoi (toT (depolChoi d p) : TMat d d)) := by
  intro X
  rw [depolarizing_apply]
  rcases Nat.eq_zero_or_pos d with rfl | hd
  · simp [Matrix.trace]
  · have hd' : (d : ℂ) ≠ 0 := Nat.cast_ne_zero.mpr hd.ne'
    simp only [depolSpec, Matrix.trace_add, Matrix.trace_smul, Matrix.trace_one, Fintype.card_fin,
      smul_eq_mul]
    field_simp
    ring

/-- `depolarizing(d, p)` is unital for every parameter. -/
theorem depolarizing_unital (d : Nat) (p : ℂ) : IsUnital (ofChoi (toT (depolChoi d p) : TMat d d)) := by
  unfold IsUnital
  rw [depolarizing_apply]
  rcases Nat.eq_zero_or_pos d with rfl | hd
  · exact Subsingleton.elim _ _
  · have hd' : (d : ℂ) ≠ 0 := Nat.cast_ne_zero.mpr hd.ne'
    simp only [depolSpec, Matrix.trace_one, Fintype.card_fin]
    rw [← add_smul]
    have : (1 - p) * (d : ℂ) / (d : ℂ) + p = 1 := by field_simp; ring
    rw [this, one_smul]

/-- For `0 ≤ p ≤ 1` the matrix `depolarizing(d, p)` is positive semidefinite (the map is completely positive). -/
theorem depolarizing_choi_psd (d : Nat) (p : ℝ) (h0 : 0 ≤ p) (h1 : p ≤ 1) :
    (toT (depolChoi d (p : ℂ)) : TMat d d).PosSemidef := by
  rw [toT_depol_eq]
  have hc : (0 : ℂ) ≤ (1 - (p : ℂ)) / (d : ℂ) := by
    have : (1 - (p : ℂ)) / (d : ℂ) = (((1 - p) / (d : ℝ) : ℝ) : ℂ) := by push_cast; rfl
    rw [this, Complex.zero_le_real]
    exact div_nonneg (sub_nonneg.mpr h1) (Nat.cast_nonneg d)
  have hp : (0 : ℂ) ≤ (p : ℂ) := Complex.zero_le_real.mpr h0
  exact (PosSemidef.one.smul hc).add ((posSemidef_vecMulVec_self_star _).smul hp)

/-- The matrix returned by `dephasing(d, p)` is the Choi matrix of `X ↦ (1-p)·diag(X) + p·X`. -/
theorem dephasing_apply (d : Nat) (p : ℂ) (X : Matrix (Fin d) (Fin d) ℂ) :
    ofChoi (toT (dephChoi d p)) X = dephSpec d p X := by
  ext a b
  have h1 : ∀ i j : Fin d, X i j * (toT (dephChoi d p) : TMat d d) (i, a) (j, b)
      = (1 - p) * (X i j * (if i = j ∧ a = b then (if i = a then (1 : ℂ) else 0) * (if i = a then 1 else 0) else 0))
        + p * (X i j * ((if i = a then (1 : ℂ) else 0) * (if j = b then 1 else 0))) := by
    intro i j
    rw [toT_apply]
    simp only [dephChoi, psi_idx, idx_inj]
    ring
  simp only [ofChoi_apply', h1, Finset.sum_add_distrib, ← Finset.mul_sum, sum_pick, sum_diag_pick]
  simp only [dephSpec, diagPart, Matrix.add_apply, Matrix.smul_apply, Matrix.diagonal_apply, smul_eq_mul]

/-- `dephasing(d, p)` is trace preserving for every parameter. -/
theorem dephasing_tp (d : Nat) (p : ℂ) : IsTP (ofChoi (toT (dephChoi d p) : TMat d d)) := by
  intro X
  rw [dephasing_apply]
  simp only [dephSpec, diagPart, Matrix.trace_add, Matrix.trace_smul, Matrix.trace_diagonal, smul_eq_mul]
  simp only [Matrix.trace, Matrix.diag_apply]
  ring

/-- `dephasing(d, p)` is unital for every parameter. -/
theorem dephasing_unital (d : Nat) (p : ℂ) : IsUnital (ofChoi (toT (dephChoi d p) : TMat d d)) := by
  unfold IsUnital
  rw [dephasing_apply]
  have : diagPart (1 : Matrix (Fin d) (Fin d) ℂ) = 1 := by
    simp only [diagPart, Matrix.one_apply_eq]
    exact Matrix.diagonal_one
  rw [dephSpec, this, ← add_smul, sub_add_cancel, one_smul]

/-- For `0 ≤ p ≤ 1` the matrix `dephasing(d, p)` is positive semidefinite (the map is completely positive). -/
theorem dephasing_choi_psd (d : Nat) (p : ℝ) (h0 : 0 ≤ p) (h1 : p ≤ 1) :
    (toT (dephChoi d (p : ℂ)) : TMat d d).PosSemidef := by
  rw [toT_deph_eq]
  have hc : (0 : ℂ) ≤ 1 - (p : ℂ) := by
    have : 1 - (p : ℂ) = ((1 - p : ℝ) : ℂ) := by push_cast; rfl
    rw [this, Complex.zero_le_real]
    exact sub_nonneg.mpr h1
  have hp : (0 : ℂ) ≤ (p : ℂ) := Complex.zero_le_real.mpr h0
  have hD : (diagonal (fun q : Fin d × Fin d => maxEntVec d q * maxEntVec d q)).PosSemidef := by
    apply PosSemidef.diagonal
    intro q
    simp only [maxEntVec, Pi.zero_apply]
    split_ifs <;> simp
  exact (hD.smul hc).add ((posSemidef_vecMulVec_self_star _).smul hp)

/-- The matrix returned by `reduction(d, k)` is the Choi matrix of `X ↦ k·tr(X)·1 - X`. -/
theorem reduction_apply (d : Nat) (k : ℂ) (X : Matrix (Fin d) (Fin d) ℂ) :
    ofChoi (toT (reductionChoi d k)) X = reductionSpec d k X := by
  rw [reductionChoi_eq_gen, gen_apply, reductionSpec]
  congr 1
  ext a b
  simp only [Matrix.diagonal_apply, Matrix.smul_apply, Matrix.one_apply, smul_eq_mul, ← Finset.sum_mul,
    Matrix.trace, Matrix.diag_apply]
  split_ifs <;> ring

/-- `reduction(d, k)` multiplies the trace by `k·d - 1`. -/
theorem reduction_trace (d : Nat) (k : ℂ) (X : Matrix (Fin d) (Fin d) ℂ) :
    trace (ofChoi (toT (reductionChoi d k) : TMat d d) X) = (k * d - 1) * trace X := by
  rw [reduction_apply, reductionSpec, Matrix.trace_sub, Matrix.trace_smul, Matrix.trace_one,
    Fintype.card_fin, smul_eq_mul]
  ring

/-- For real `k` the matrix `reduction(d, k)` is Hermitian (the map preserves Hermiticity). -/
theorem reduction_choi_hermitian (d : Nat) (k : ℝ) :
    (toT (reductionChoi d (k : ℂ)) : TMat d d).IsHermitian := by
  apply toT_isHermitian
  intro P Q
  simp only [reductionChoi, star_sub, star_mul', star_psi, delta_comm Q P, Complex.star_def,
    Complex.conj_ofReal]
  have : (starRingEnd ℂ) (delta P Q : ℂ) = delta P Q := by
    unfold delta; split_ifs <;> simp
  rw [this]
  ring

/-- For `k < d` the matrix `reduction(d, k)` is not positive semidefinite (the map is not completely positive):
    the maximally entangled vector `ψ` has `ψᴴJψ = k·d - d² < 0`. -/
theorem reduction_not_cp (d : Nat) (k : ℝ) (hk : k < d) (hd : 0 < d) :
    ¬ (toT (reductionChoi d (k : ℂ)) : TMat d d).PosSemidef := by
  intro h
  have h2 := h.dotProduct_mulVec_nonneg (maxEntVec d)
  rw [reductionChoi_eq_gen, toT_gen_eq, quad_maxEnt] at h2
  simp only [Finset.sum_const, Finset.card_univ, Fintype.card_fin, nsmul_eq_mul] at h2
  have h3 : (d : ℂ) * (k : ℂ) - (d : ℂ) * d = (((d : ℝ) * (k - d) : ℝ) : ℂ) := by push_cast; ring
  rw [h3, Complex.zero_le_real] at h2
  have hd' : (0 : ℝ) < d := Nat.cast_pos.mpr hd
  nlinarith

/-- The matrix returned by `choi(a, b, c)` is the Choi matrix of the generalised Choi map
    `X ↦ diag((a+1)x₀₀ + b x₁₁ + c x₂₂, c x₀₀ + (a+1)x₁₁ + b x₂₂, b x₀₀ + c x₁₁ + (a+1)x₂₂) - X`. -/
theorem choiMap_apply (a b c : ℂ) (X : Matrix (Fin 3) (Fin 3) ℂ) :
    ofChoi (toT (choiMapChoi a b c) : TMat 3 3) X = choiMapSpec a b c X := by
  rw [choiMapChoi_eq_gen, gen_apply, choiMapSpec]
  congr 2
  funext s
  fin_cases s <;> simp [Fin.sum_univ_three, choiDiag] <;> ring

/-- For real parameters the matrix `choi(a, b, c)` is Hermitian. -/
theorem choiMap_choi_hermitian (a b c : ℝ) :
    (toT (choiMapChoi (a : ℂ) b c) : TMat 3 3).IsHermitian := by
  apply toT_isHermitian
  intro P Q
  have hD : ∀ P, star (choiDiag (a : ℂ) b c P) = choiDiag (a : ℂ) b c P := by
    intro P
    unfold choiDiag
    split <;> simp
  simp only [choiMapChoi, star_sub, star_mul', star_psi]
  by_cases h : P = Q
  · subst h; simp [hD]
  · have h' : ¬ Q = P := fun e => h e.symm
    simp [h, h', mul_comm]

/-- For `a < 2` the matrix `choi(a, b, c)` is not positive semidefinite (the map is not completely positive):
    the maximally entangled vector `ψ` has `ψᴴJψ = 3(a+1) - 9 < 0`. -/
theorem choiMap_not_cp (a b c : ℝ) (ha : a < 2) :
    ¬ (toT (choiMapChoi (a : ℂ) b c) : TMat 3 3).PosSemidef := by
  intro h
  have h2 := h.dotProduct_mulVec_nonneg (maxEntVec 3)
  rw [choiMapChoi_eq_gen, toT_gen_eq, quad_maxEnt] at h2
  simp only [Fin.sum_univ_three] at h2
  have h3 : choiDiag (a : ℂ) b c ((0 : Fin 3).val * 3 + (0 : Fin 3).val)
      + choiDiag (a : ℂ) b c ((1 : Fin 3).val * 3 + (1 : Fin 3).val)
      + choiDiag (a : ℂ) b c ((2 : Fin 3).val * 3 + (2 : Fin 3).val) - ((3 : ℕ) : ℂ) * ((3 : ℕ) : ℂ)
      = ((3 * (a + 1) - 9 : ℝ) : ℂ) := by
    simp [choiDiag]; ring
  rw [h3, Complex.zero_le_real] at h2
  linarith

/-- `choi(0, 1, 1)` is the reduction map `reduction(3, 1)`, entry by entry. -/
theorem choiMap_011_eq_reduction :
    ∀ P Q, P < 9 → Q < 9 → choiMapChoi (0 : ℂ) 1 1 P Q = reductionChoi 3 (1 : ℂ) P Q := by
  intro P Q hP _
  have hD : choiDiag (0 : ℂ) 1 1 P = 1 := by
    interval_cases P <;> simp [choiDiag]
  simp only [choiMapChoi, reductionChoi, delta, hD, one_mul]

/-- `choi(a, b, c)` multiplies the trace by `a + b + c`. -/
theorem choiMap_trace (a b c : ℂ) (X : Matrix (Fin 3) (Fin 3) ℂ) :
    trace (ofChoi (toT (choiMapChoi a b c) : TMat 3 3) X) = (a + b + c) * trace X := by
  rw [choiMapChoi_eq_gen, gen_apply, Matrix.trace_sub, Matrix.trace_diagonal]
  simp [Fin.sum_univ_three, choiDiag, Matrix.trace]
  ring

/-- For `k ≥ 1` the reduction map `X ↦ k·tr(X)·1 - X` is positive. -/
theorem reduction_positive (d : Nat) (k : ℝ) (hk : 1 ≤ k) :
    IsPositive (ofChoi (toT (reductionChoi d (k : ℂ)) : TMat d d)) := by
  intro X hX
  rw [reduction_apply, reductionSpec]
  have hsplit : ((k : ℂ) * X.trace) • (1 : Matrix (Fin d) (Fin d) ℂ) - X
      = (((k - 1 : ℝ) : ℂ) * X.trace) • (1 : Matrix (Fin d) (Fin d) ℂ) + (X.trace • 1 - X) := by
    push_cast
    rw [sub_mul, one_mul, sub_smul]
    abel
  rw [hsplit]
  have hc : (0 : ℂ) ≤ ((k - 1 : ℝ) : ℂ) * X.trace :=
    mul_nonneg (Complex.zero_le_real.mpr (sub_nonneg.mpr hk)) hX.trace_nonneg
  exact (PosSemidef.one.smul hc).add (trace_smul_one_sub_posSemidef hX)

/-- `reduction(2, 1)` evaluated on integers -/
example : (List.range 4).map (fun P => (List.range 4).map (fun Q => reductionChoi (α := Int) 2 1 P Q))
    = [[0, 0, 0, -1], [0, 1, 0, 0], [0, 0, 1, 0], [-1, 0, 0, 0]] := by decide

/-- the diagonal and the first row of `choi(1, 2, 3)` evaluated on integers -/
example : ((List.range 9).map (fun P => choiMapChoi (α := Int) 1 2 3 P P),
      (List.range 9).map (fun Q => choiMapChoi (α := Int) 1 2 3 0 Q))
    = ([1, 3, 2, 2, 1, 3, 3, 2, 1], [1, 0, 0, 0, -1, 0, 0, 0, -1]) := by decide

/-- `dephasing(2, 3)` evaluated on integers (`(1-p)·diag + p·ψψᴴ`) -/
example : (List.range 4).map (fun P => (List.range 4).map (fun Q => dephChoi (α := Int) 2 3 P Q))
    = [[1, 0, 0, 3], [0, 0, 0, 0], [0, 0, 0, 0], [3, 0, 0, 1]] := by decide

end Toq.C06
end ChoiConstructors

section KrausConstructors
open Toq.ChannelProps Toq.ChanPropSpec Matrix
open scoped Kronecker
namespace Toq.C06
open Toq.ChanPropProofs

/-- The four Kraus operators of the generalized amplitude damping channel satisfy the completeness relation. -/
theorem amplitude_damping_complete (sp cp sg cg : ℝ) (hp : sp ^ 2 + cp ^ 2 = 1) (hg : sg ^ 2 + cg ^ 2 = 1) :
    ∑ k, (fam2 (adKraus (sp : ℂ) cp sg cg) k)ᴴ * fam2 (adKraus (sp : ℂ) cp sg cg) k = 1 := by
  have hp' : (sp : ℂ) ^ 2 + (cp : ℂ) ^ 2 = 1 := by exact_mod_cast hp
  have hg' : (sg : ℂ) ^ 2 + (cg : ℂ) ^ 2 = 1 := by exact_mod_cast hg
  rw [fam2_adKraus]
  show ∑ k : Fin 4, _ = _
  rw [Fin.sum_univ_four]
  ext i j
  fin_cases i <;> fin_cases j <;>
    simp [Matrix.mul_apply, Fin.sum_univ_two]
  · linear_combination hp' + (cp : ℂ) ^ 2 * hg'
  · linear_combination hp' + (sp : ℂ) ^ 2 * hg'

/-- The generalized amplitude damping channel is trace preserving. -/
theorem amplitude_damping_tp (sp cp sg cg : ℝ) (hp : sp ^ 2 + cp ^ 2 = 1) (hg : sg ^ 2 + cg ^ 2 = 1) :
    IsTP (krausMap (fam2 (adKraus (sp : ℂ) cp sg cg))) :=
  krausMap_tp_of_complete _ (amplitude_damping_complete sp cp sg cg hp hg)

/-- The action of the generalized amplitude damping channel on a 2×2 matrix, entry by entry. -/
theorem amplitude_damping_apply (sp cp sg cg : ℝ) (X : Matrix (Fin 2) (Fin 2) ℂ) :
    krausMap (fam2 (adKraus (sp : ℂ) cp sg cg)) X =
      !![((sp : ℂ) ^ 2 + (cp : ℂ) ^ 2 * (cg : ℂ) ^ 2) * X 0 0 + (sp : ℂ) ^ 2 * (sg : ℂ) ^ 2 * X 1 1,
         ((sp : ℂ) ^ 2 + (cp : ℂ) ^ 2) * (cg : ℂ) * X 0 1;
         ((sp : ℂ) ^ 2 + (cp : ℂ) ^ 2) * (cg : ℂ) * X 1 0,
         ((sp : ℂ) ^ 2 * (cg : ℂ) ^ 2 + (cp : ℂ) ^ 2) * X 1 1 + (cp : ℂ) ^ 2 * (sg : ℂ) ^ 2 * X 0 0] := by
  rw [krausMap_apply', fam2_adKraus]
  show ∑ k : Fin 4, _ = _
  rw [Fin.sum_univ_four]
  ext i j
  fin_cases i <;> fin_cases j <;>
    simp only [Matrix.add_apply, Matrix.mul_apply, Fin.sum_univ_two, Matrix.conjTranspose_apply] <;>
    simp <;> ring

/-- With `prob = 1` the textbook amplitude damping channel
    `[[x₀₀ + γ x₁₁, √(1-γ) x₀₁], [√(1-γ) x₁₀, (1-γ) x₁₁]]`. -/
theorem amplitude_damping_apply_standard (sg cg : ℝ) (X : Matrix (Fin 2) (Fin 2) ℂ) :
    krausMap (fam2 (adKraus (1 : ℂ) 0 sg cg)) X =
      !![X 0 0 + (sg : ℂ) ^ 2 * X 1 1, (cg : ℂ) * X 0 1;
         (cg : ℂ) * X 1 0, (cg : ℂ) ^ 2 * X 1 1] := by
  have h := amplitude_damping_apply 1 0 sg cg X
  simp only [Complex.ofReal_one, Complex.ofReal_zero] at h
  rw [h]
  ext i j
  fin_cases i <;> fin_cases j <;> simp

/-- The driver's direct application formula `Σ_K K X Kᵀ` on the model list agrees with the Kraus map. -/
theorem amplitude_damping_model_apply (sp cp sg cg : ℝ) (X : Nat → Nat → ℂ) (a b : Nat) (ha : a < 2) (hb : b < 2) :
    applyReal2 (adKraus (sp : ℂ) cp sg cg) X a b
      = krausMap (fam2 (adKraus (sp : ℂ) cp sg cg)) (toSq 2 X) ⟨a, ha⟩ ⟨b, hb⟩ := by
  rw [amplitude_damping_apply]
  have ha' : a = 0 ∨ a = 1 := by omega
  have hb' : b = 0 ∨ b = 1 := by omega
  rcases ha' with rfl | rfl <;> rcases hb' with rfl | rfl <;>
    simp [applyReal2, adKraus, sumN, m22, toSq] <;> ring

/-! ### phase damping -/

/-- The two Kraus operators of the phase damping channel satisfy the completeness relation. -/
theorem phase_damping_complete (sg cg : ℝ) (hg : sg ^ 2 + cg ^ 2 = 1) :
    ∑ k, (fam2 (pdKraus (sg : ℂ) cg) k)ᴴ * fam2 (pdKraus (sg : ℂ) cg) k = 1 := by
  have hg' : (sg : ℂ) ^ 2 + (cg : ℂ) ^ 2 = 1 := by exact_mod_cast hg
  rw [fam2_pdKraus]
  show ∑ k : Fin 2, _ = _
  rw [Fin.sum_univ_two]
  ext i j
  fin_cases i <;> fin_cases j <;>
    simp [Matrix.mul_apply, Fin.sum_univ_two]
  linear_combination hg'

/-- The phase damping channel is trace preserving. -/
theorem phase_damping_tp (sg cg : ℝ) (hg : sg ^ 2 + cg ^ 2 = 1) :
    IsTP (krausMap (fam2 (pdKraus (sg : ℂ) cg))) :=
  krausMap_tp_of_complete _ (phase_damping_complete sg cg hg)

/-- The action of the phase damping channel: the off-diagonal entries are multiplied by `√(1-γ)`. -/
theorem phase_damping_apply (sg cg : ℝ) (X : Matrix (Fin 2) (Fin 2) ℂ) :
    krausMap (fam2 (pdKraus (sg : ℂ) cg)) X =
      !![X 0 0, (cg : ℂ) * X 0 1;
         (cg : ℂ) * X 1 0, ((cg : ℂ) ^ 2 + (sg : ℂ) ^ 2) * X 1 1] := by
  rw [krausMap_apply', fam2_pdKraus]
  show ∑ k : Fin 2, _ = _
  rw [Fin.sum_univ_two]
  ext i j
  fin_cases i <;> fin_cases j <;>
    simp only [Matrix.add_apply, Matrix.mul_apply, Fin.sum_univ_two, Matrix.conjTranspose_apply] <;>
    simp <;> ring

/-- The phase damping channel is unital. -/
theorem phase_damping_unital (sg cg : ℝ) (hg : sg ^ 2 + cg ^ 2 = 1) :
    krausMap (fam2 (pdKraus (sg : ℂ) cg)) 1 = 1 := by
  have hg' : (sg : ℂ) ^ 2 + (cg : ℂ) ^ 2 = 1 := by exact_mod_cast hg
  rw [phase_damping_apply]
  ext i j
  fin_cases i <;> fin_cases j <;> simp
  linear_combination hg'

/-! ### bit flip -/

/-- The two Kraus operators of the bit-flip channel satisfy the completeness relation. -/
theorem bitflip_complete (s c : ℝ) (h : s ^ 2 + c ^ 2 = 1) :
    ∑ k, (fam2 (bfKraus (s : ℂ) c) k)ᴴ * fam2 (bfKraus (s : ℂ) c) k = 1 := by
  have h' : (s : ℂ) ^ 2 + (c : ℂ) ^ 2 = 1 := by exact_mod_cast h
  rw [fam2_bfKraus]
  show ∑ k : Fin 2, _ = _
  rw [Fin.sum_univ_two]
  ext i j
  fin_cases i <;> fin_cases j <;>
    simp [Matrix.mul_apply, Fin.sum_univ_two]
  · linear_combination h'
  · linear_combination h'

/-- The bit-flip channel is trace preserving. -/
theorem bitflip_tp (s c : ℝ) (h : s ^ 2 + c ^ 2 = 1) :
    IsTP (krausMap (fam2 (bfKraus (s : ℂ) c))) :=
  krausMap_tp_of_complete _ (bitflip_complete s c h)

/-- The bit-flip channel is `X ↦ (1-p)·X + p·σx X σx`. -/
theorem bitflip_apply (s c : ℝ) (X : Matrix (Fin 2) (Fin 2) ℂ) :
    krausMap (fam2 (bfKraus (s : ℂ) c)) X
      = ((c : ℂ) ^ 2) • X + ((s : ℂ) ^ 2) • ((!![0, 1; 1, 0] : Matrix (Fin 2) (Fin 2) ℂ) * X * !![0, 1; 1, 0]) := by
  rw [krausMap_apply', fam2_bfKraus]
  show ∑ k : Fin 2, _ = _
  rw [Fin.sum_univ_two]
  ext i j
  fin_cases i <;> fin_cases j <;>
    simp only [Matrix.add_apply, Matrix.smul_apply, Matrix.mul_apply, Fin.sum_univ_two, Matrix.conjTranspose_apply] <;>
    simp <;> ring

/-- The bit-flip channel is unital. -/
theorem bitflip_unital (s c : ℝ) (h : s ^ 2 + c ^ 2 = 1) :
    krausMap (fam2 (bfKraus (s : ℂ) c)) 1 = 1 := by
  have h' : (s : ℂ) ^ 2 + (c : ℂ) ^ 2 = 1 := by exact_mod_cast h
  rw [bitflip_apply]
  ext i j
  fin_cases i <;> fin_cases j <;>
    simp only [Matrix.add_apply, Matrix.smul_apply, Matrix.mul_apply, Fin.sum_univ_two] <;>
    simp
  · linear_combination h'
  · linear_combination h'

/-! ### Pauli matrices -/

/-- Each of the four Pauli matrices is Hermitian. -/
theorem pauli1_hermitian (s : Nat) : (toSq 2 (pauli1 Complex.I s))ᴴ = toSq 2 (pauli1 Complex.I s) := by
  rcases s with _ | _ | _ | s <;> simp only [pauli1, toSq_m22] <;>
    (ext i j; fin_cases i <;> fin_cases j <;> simp)

/-- Each of the four Pauli matrices is unitary. -/
theorem pauli1_unitary (s : Nat) : (toSq 2 (pauli1 Complex.I s))ᴴ * toSq 2 (pauli1 Complex.I s) = 1 := by
  rw [pauli1_hermitian]
  rcases s with _ | _ | _ | s <;> simp only [pauli1, toSq_m22] <;>
    (ext i j; fin_cases i <;> fin_cases j <;> simp [Matrix.mul_apply, Fin.sum_univ_two])

/-- Every Pauli string `σ_{i_0} ⊗ … ⊗ σ_{i_{q-1}}` is unitary (all `q`, all indices `j`). -/
theorem pauliString_unitary (q j : Nat) :
    (toSq (2 ^ q) (pauliString Complex.I q j))ᴴ * toSq (2 ^ q) (pauliString Complex.I q j) = 1 := by
  induction q generalizing j with
  | zero =>
    show (toSq 1 _)ᴴ * toSq 1 _ = 1
    ext a b
    obtain rfl : a = b := Subsingleton.elim a b
    simp [toSq, pauliString, prodFn, Matrix.mul_apply]
  | succ q ih =>
    show (toSq (2 ^ q * 2) _)ᴴ * toSq (2 ^ q * 2) _ = 1
    have e : toSq (2 ^ q * 2) (pauliString Complex.I (q + 1) j)
        = toSq (2 ^ q * 2) (fun a b => pauliString Complex.I q (j / 4) (a / 2) (b / 2)
            * pauli1 Complex.I (j % 4) (a % 2) (b % 2)) := by
      ext a b
      exact pauliString_succ _ _ _ _ _
    rw [e]
    exact toSq_kron_unitary _ _ _ _ (ih (j / 4)) (pauli1_unitary (j % 4))

/-- A mixed-unitary channel with Kraus operators `√p_k · U_k` (the list `pauli_channel(…, return_kraus_ops=True)`
    returns) is trace preserving, unital, and acts as `X ↦ Σ_k p_k U_k X U_kᴴ`. -/
theorem mixed_unitary_tp_unital {d r : Nat} (p : Fin r → ℝ) (U : Fin r → Matrix (Fin d) (Fin d) ℂ)
    (hU : ∀ k, (U k)ᴴ * U k = 1) (hU' : ∀ k, U k * (U k)ᴴ = 1) (hs : ∑ k, p k = 1) (hp : ∀ k, 0 ≤ p k) :
    IsTP (krausMap fun k => ((Real.sqrt (p k) : ℝ) : ℂ) • U k) ∧
    IsUnital (krausMap fun k => ((Real.sqrt (p k) : ℝ) : ℂ) • U k) ∧
    ∀ X, krausMap (fun k => ((Real.sqrt (p k) : ℝ) : ℂ) • U k) X = ∑ k, (p k : ℂ) • (U k * X * (U k)ᴴ) := by
  have hform : ∀ X, krausMap (fun k => ((Real.sqrt (p k) : ℝ) : ℂ) • U k) X
      = ∑ k, (p k : ℂ) • (U k * X * (U k)ᴴ) := by
    intro X
    rw [krausMap_apply']
    refine Finset.sum_congr rfl fun k _ => ?_
    rw [Matrix.conjTranspose_smul, Matrix.smul_mul, Matrix.smul_mul, Matrix.mul_smul, smul_smul]
    congr 1
    rw [Complex.star_def, Complex.conj_ofReal, ← Complex.ofReal_mul, Real.mul_self_sqrt (hp k)]
  have hs' : ∑ k, (p k : ℂ) = 1 := by rw [← Complex.ofReal_sum, hs, Complex.ofReal_one]
  refine ⟨?_, ?_, hform⟩
  · intro X
    rw [hform, Matrix.trace_sum]
    have : ∀ k, Matrix.trace ((p k : ℂ) • (U k * X * (U k)ᴴ)) = (p k : ℂ) * Matrix.trace X := by
      intro k
      rw [Matrix.trace_smul, Matrix.trace_mul_cycle, hU k, Matrix.one_mul, smul_eq_mul]
    simp only [this]
    rw [← Finset.sum_mul, hs', one_mul]
  · show krausMap _ 1 = 1
    rw [hform]
    have : ∀ k, (p k : ℂ) • (U k * 1 * (U k)ᴴ) = (p k : ℂ) • (1 : Matrix (Fin d) (Fin d) ℂ) := by
      intro k
      rw [Matrix.mul_one, hU' k]
    simp only [this]
    rw [← Finset.sum_smul, hs', one_smul]

/-- Pauli strings are unitary, other side: `P Pᴴ = 1`. -/
theorem pauliString_unitary_right (q j : Nat) :
    toSq (2 ^ q) (pauliString Complex.I q j) * (toSq (2 ^ q) (pauliString Complex.I q j))ᴴ = 1 :=
  mul_eq_one_comm.mp (pauliString_unitary q j)

/-- The Kraus list `[√p_j · P_j]` of `pauli_channel(prob, return_kraus_ops=True)` for a probability vector
    `prob` over the `4^q` Pauli strings is a trace-preserving, unital map acting as `X ↦ Σ_j p_j P_j X P_jᴴ`. -/
theorem pauli_channel_kraus_tp_unital (q : Nat) (p : Fin (4 ^ q) → ℝ) (hs : ∑ k, p k = 1) (hp : ∀ k, 0 ≤ p k) :
    IsTP (krausMap fun k : Fin (4 ^ q) => ((Real.sqrt (p k) : ℝ) : ℂ) • toSq (2 ^ q) (pauliString Complex.I q k)) ∧
    IsUnital (krausMap fun k : Fin (4 ^ q) => ((Real.sqrt (p k) : ℝ) : ℂ) • toSq (2 ^ q) (pauliString Complex.I q k)) ∧
    ∀ X, krausMap (fun k : Fin (4 ^ q) => ((Real.sqrt (p k) : ℝ) : ℂ) • toSq (2 ^ q) (pauliString Complex.I q k)) X
      = ∑ k : Fin (4 ^ q), (p k : ℂ) • (toSq (2 ^ q) (pauliString Complex.I q k) * X
          * (toSq (2 ^ q) (pauliString Complex.I q k))ᴴ) :=
  mixed_unitary_tp_unital p (fun k => toSq (2 ^ q) (pauliString Complex.I q k))
    (fun k => pauliString_unitary q k) (fun k => pauliString_unitary_right q k) hs hp

/-- The matrix accumulated by `pauli_channel` is the sum of the Choi matrices of the maps
    `X ↦ P_j X (P_jᴴ)ᴴ` weighted by `p_j`, i.e. the terms `prob[j] * kraus_to_choi([[P, P.conj().T]])`. -/
theorem pauliChoi_eq (q : Nat) (p : Nat → ℂ) :
    (Matrix.of fun (P Q : Fin (2 ^ q) × Fin (2 ^ q)) =>
        pauliChoi Complex.I q p (P.1.val * 2 ^ q + P.2.val) (Q.1.val * 2 ^ q + Q.2.val) : TMat (2 ^ q) (2 ^ q))
      = ∑ j : Fin (4 ^ q), p j • choi (pairMap (r := 1)
          (fun _ => toSq (2 ^ q) (pauliString Complex.I q j))
          (fun _ => (toSq (2 ^ q) (pauliString Complex.I q j))ᴴ)) := by
  ext ⟨i, a⟩ ⟨j', b⟩
  rw [Matrix.sum_apply]
  simp only [Matrix.of_apply, pauliChoi, Toq.ChannelOps.sumN_eq_sum_fin]
  refine Finset.sum_congr rfl fun j _ => ?_
  obtain ⟨h1, h2⟩ := Toq.ChannelOps.divmod_be i.val (2 ^ q) a.val a.isLt
  obtain ⟨h3, h4⟩ := Toq.ChannelOps.divmod_be j'.val (2 ^ q) b.val b.isLt
  rw [h1, h2, h3, h4, Matrix.smul_apply, smul_eq_mul]
  congr 1
  show _ = pairMap _ _ (Matrix.single i j' 1) a b
  rw [pairMap_apply', Fin.sum_univ_one, Matrix.conjTranspose_conjTranspose, Matrix.mul_apply]
  simp only [Matrix.mul_apply, Matrix.single_apply, toSq_apply]
  rw [Finset.sum_eq_single j' (fun x _ hx => by
        rw [Finset.sum_eq_zero (fun y _ => by rw [if_neg (fun h => hx h.2.symm), mul_zero]), zero_mul])
      (fun h => absurd (Finset.mem_univ _) h),
    Finset.sum_eq_single i (fun y _ hy => by rw [if_neg (fun h => hy h.1.symm), mul_zero])
      (fun h => absurd (Finset.mem_univ _) h),
    if_pos ⟨rfl, rfl⟩, mul_one]

/-! ### executable sanity checks -/

/-- index 6 of the two-qubit odometer is `X ⊗ Y` -/
example : pauliDigit 2 6 0 = 1 ∧ pauliDigit 2 6 1 = 2 := by decide

/-- index 1 of the two-qubit odometer is `I ⊗ X` -/
example : ∀ a b : Fin 4, pauliString (α := Int) 0 2 1 a b
    = ![![0, 1, 0, 0], ![1, 0, 0, 0], ![0, 0, 0, 1], ![0, 0, 1, 0]] a b := by decide

/-- index 12 of the two-qubit odometer is `Z ⊗ I` -/
example : ∀ a b : Fin 4, pauliString (α := Int) 0 2 12 a b
    = ![![1, 0, 0, 0], ![0, 1, 0, 0], ![0, 0, -1, 0], ![0, 0, 0, -1]] a b := by decide

end Toq.C06
end KrausConstructors

/-! ## ties between the driver's model functions and the specification -/
section Ties
open Toq.ChannelProps Toq.ChanPropSpec Matrix
namespace Toq.C06
open Toq.ChanPropProofs

/-- The Choi matrix that the driver forms from a paired Kraus list `[[A_1, B_1], …]` (`choiOfPairs`) is, entry by
    entry, the Choi matrix of the map `X ↦ Σ_k A_k X B_kᴴ`. -/
theorem choiOfPairs_eq_choi (as bs : List (Toq.ChannelOps.Mat QI)) (hl : as.length = bs.length) (di dO : Nat)
    (i j : Fin di) (a b : Fin dO) :
    (choiOfPairs as bs dO dO (i.val * dO + a.val) (j.val * dO + b.val)).toC
      = choi (pairMap (fun k : Fin as.length => matC di dO as[k])
          (fun k : Fin as.length => matC di dO (bs[k.val]'(hl ▸ k.isLt)))) (i, a) (j, b) := by
  rw [choi_pairMap_apply]
  unfold choiOfPairs
  rw [foldl_add_toC, QI.toC_zero, zero_add, List.map_map, pair_mod, pair_div, pair_mod, pair_div]
  rw [← sum_zip_eq_sum_fin (fun A B => matC di dO A a i * star (matC di dO B b j)) as bs hl]
  congr 1
  apply List.map_congr_left
  intro ab _
  simp only [Function.comp_apply, QI.toC_mul, QI.toC_conj, matC]
  rfl

/-- The exact Choi matrix that `choiOfArg` hands to the deciders denotes (through `toChoi`) the Choi matrix of the
    map `X ↦ Σ_k A_k X B_kᴴ` given by the Kraus pair list. -/
theorem choiOfArg_denotes (as bs : List (Toq.ChannelOps.Mat QI)) (hl : as.length = bs.length) (di dO : Nat) :
    toChoi (EMat.ofFn fun p q : Fin (di * dO) => choiOfPairs as bs dO dO p.val q.val)
      = choi (pairMap (fun k : Fin as.length => matC di dO as[k])
          (fun k : Fin as.length => matC di dO (bs[k.val]'(hl ▸ k.isLt)))) := by
  ext ⟨i, a⟩ ⟨j, b⟩
  rw [← choiOfPairs_eq_choi as bs hl di dO i j a b]
  simp only [toChoi, EMat.get_ofFn]
  rfl

/-- Evaluating a map from its Choi matrix entry by entry (`actOfChoi`) is the application of the linear map
    `ofChoi J` with that Choi matrix. -/
theorem actOfChoi_eq (J X : Nat → Nat → ℂ) (di dO : Nat) :
    toSq dO (actOfChoi J di dO X) = ofChoi (toT J : TMat di dO) (toSq di X) := by
  ext a b
  rw [ofChoi_apply]
  simp only [toSq, actOfChoi, Toq.ChannelOps.sumN_eq_sum_fin, toT]

/-- The entry-level generalised Choi map of the model is the map `choiMapSpec` of the specification. -/
theorem choiMapAct_eq_spec (a b c : ℂ) (X : Nat → Nat → ℂ) :
    toSq 3 (choiMapAct a b c X) = choiMapSpec a b c (toSq 3 X) := by
  ext s t
  fin_cases s <;> fin_cases t <;>
    simp [toSq, choiMapAct, choiMapSpec, Matrix.sub_apply]

end Toq.C06
end Ties

/-! ## end-to-end meaning of the deciders, corollaries for the constructors -/
section Combined
open Toq.ChannelProps Toq.ChanPropSpec Toq.ChanPropProofs Matrix
open scoped ComplexOrder
namespace Toq.C06
variable {di dO : Nat}

/-- **`Tr_out J = 1` decides trace preservation.**  If the exact matrix `J` denotes the Choi matrix of `Φ`,
    the exact test `tpDecide J` is `true` exactly when `tr Φ(X) = tr X` for every `X`. -/
theorem tpDecide_correct (Φ : LMap di dO) (J : EMat (di * dO) (di * dO)) (h : choi Φ = toChoi J) :
    tpDecide J = true ↔ IsTP Φ := by
  rw [tpDecide_iff, ← h, ← tp_iff_ptrace_choi]

/-- **`Tr_in J = 1` decides unitality.** -/
theorem unitalDecide_correct (Φ : LMap di dO) (J : EMat (di * dO) (di * dO)) (h : choi Φ = toChoi J) :
    unitalDecide J = true ↔ IsUnital Φ := by
  rw [unitalDecide_iff, ← h, ← unital_iff_ptrace_choi]

/-- **`J = Jᴴ` decides Hermiticity preservation.** -/
theorem hpDecide_correct (Φ : LMap di dO) (J : EMat (di * dO) (di * dO)) (h : choi Φ = toChoi J) :
    hpDecide J = true ↔ IsHP Φ := by
  rw [hpDecide_iff, ← h, ← hp_iff_choi_hermitian]

/-- **An accepted positive certificate proves complete positivity** (every amplification `id_n ⊗ Φ` is
    positive), by Choi's theorem. -/
theorem cpDecide_sound {k : Nat} (Φ : LMap di dO) (J : EMat (di * dO) (di * dO)) (L : EMat (di * dO) k)
    (h : choi Φ = toChoi J) : psdYes J L = true → IsCP Φ := by
  intro hc
  rw [cp_iff_choi_psd, h]
  exact psdYes_sound J L hc

/-- **An accepted negative witness refutes complete positivity.** -/
theorem cpRefute_sound (Φ : LMap di dO) (J : EMat (di * dO) (di * dO)) (v : EMat (di * dO) 1) (μ : Rat)
    (h : choi Φ = toChoi J) : negWitness J v μ = true → ¬ IsCP Φ := by
  intro hc hcp
  rw [cp_iff_choi_psd, h] at hcp
  exact negWitness_sound_choi J v μ hc hcp

/-- **Quantum channel.**  Positive certificate and exact `Tr_out J = 1` together prove that `Φ` is completely
    positive and trace preserving. -/
theorem channelDecide_sound {k : Nat} (Φ : LMap di dO) (J : EMat (di * dO) (di * dO)) (L : EMat (di * dO) k)
    (h : choi Φ = toChoi J) : psdYes J L = true → tpDecide J = true → IsChannel Φ :=
  fun h1 h2 => ⟨cpDecide_sound Φ J L h h1, (tpDecide_correct Φ J h).mp h2⟩

/-- **What `is_positive` accepts is positive.**  `is_positive` tests positive semidefiniteness of the Choi
    matrix; a map with positive semidefinite Choi matrix is completely positive, hence positive: the test never
    accepts a non-positive map, and it accepts every completely positive one (`cp_iff_choi_psd`). -/
theorem positive_of_choi_psd (Φ : LMap di dO) : (choi Φ).PosSemidef → IsPositive Φ :=
  fun h => cp_implies_positive Φ ((cp_iff_choi_psd Φ).mpr h)

/-- **Product-vector witness of non-positivity.**  For vectors `x`, `y`:
    `yᴴ Φ(x xᴴ) y = vᴴ J(Φ) v` with the product vector `v(i,a) = conj(x_i)·y_a`; so a negative value of the
    quadratic form of the Choi matrix at a product vector shows that `Φ` is not a positive map. -/
theorem not_positive_of_product_witness (Φ : LMap di dO) (x : Fin di → ℂ) (y : Fin dO → ℂ)
    (h : (star (fun p : Fin di × Fin dO => star (x p.1) * y p.2) ⬝ᵥ
          (choi Φ *ᵥ fun p : Fin di × Fin dO => star (x p.1) * y p.2)).re < 0) : ¬ IsPositive Φ := by
  intro hpos
  have hX : (Matrix.vecMulVec x (star x)).PosSemidef := Matrix.posSemidef_vecMulVec_self_star x
  have hq := (hpos _ hX).dotProduct_mulVec_nonneg y
  have key : star y ⬝ᵥ (Φ (Matrix.vecMulVec x (star x)) *ᵥ y)
      = star (fun p : Fin di × Fin dO => star (x p.1) * y p.2) ⬝ᵥ
          (choi Φ *ᵥ fun p : Fin di × Fin dO => star (x p.1) * y p.2) := by
    conv_lhs => rw [← choi_faithful Φ]
    simp only [dotProduct, Matrix.mulVec, ofChoi_apply, Matrix.vecMulVec_apply, Pi.star_apply,
      Fintype.sum_prod_type, Finset.mul_sum, Finset.sum_mul, star_mul', star_star]
    have s1 : ∀ (F : Fin dO → Fin dO → Fin di → Fin di → ℂ),
        ∑ a, ∑ b, ∑ i, ∑ j, F a b i j = ∑ i, ∑ a, ∑ j, ∑ b, F a b i j := by
      intro F
      calc ∑ a, ∑ b, ∑ i, ∑ j, F a b i j = ∑ a, ∑ i, ∑ b, ∑ j, F a b i j :=
            Finset.sum_congr rfl fun a _ => Finset.sum_comm
        _ = ∑ i, ∑ a, ∑ b, ∑ j, F a b i j := Finset.sum_comm
        _ = ∑ i, ∑ a, ∑ j, ∑ b, F a b i j :=
            Finset.sum_congr rfl fun i _ => Finset.sum_congr rfl fun a _ => Finset.sum_comm
    rw [s1]
    refine Finset.sum_congr rfl fun i _ => Finset.sum_congr rfl fun a _ =>
      Finset.sum_congr rfl fun j _ => Finset.sum_congr rfl fun b _ => ?_
    ring
  rw [key] at hq
  have := (Complex.nonneg_iff.mp hq).1
  linarith

/-- **Depolarizing channel.**  For every dimension and every `0 ≤ p ≤ 1` the map whose Choi matrix
    `depolarizing(d, p)` returns is a quantum channel (completely positive, trace preserving) and unital. -/
theorem depolarizing_channel (d : Nat) (p : ℝ) (h0 : 0 ≤ p) (h1 : p ≤ 1) :
    IsChannel (ofChoi (toT (depolChoi d (p : ℂ)) : TMat d d)) ∧ IsUnital (ofChoi (toT (depolChoi d (p : ℂ)) : TMat d d)) :=
  ⟨⟨(cp_iff_choi_psd _).mpr (by rw [choi_ofChoi]; exact depolarizing_choi_psd d p h0 h1), depolarizing_tp d p⟩,
    depolarizing_unital d p⟩

/-- **Dephasing channel.**  Same for `dephasing(d, p)`. -/
theorem dephasing_channel (d : Nat) (p : ℝ) (h0 : 0 ≤ p) (h1 : p ≤ 1) :
    IsChannel (ofChoi (toT (dephChoi d (p : ℂ)) : TMat d d)) ∧ IsUnital (ofChoi (toT (dephChoi d (p : ℂ)) : TMat d d)) :=
  ⟨⟨(cp_iff_choi_psd _).mpr (by rw [choi_ofChoi]; exact dephasing_choi_psd d p h0 h1), dephasing_tp d p⟩,
    dephasing_unital d p⟩

/-- **Reduction map: positive, not completely positive.**  For `1 ≤ k < d` the map `X ↦ k·tr(X)·1 - X` whose Choi
    matrix `reduction(d, k)` returns is positive but not completely positive (the maximally entangled vector
    is a negative direction of its Choi matrix). -/
theorem reduction_positive_not_cp (d : Nat) (hd : 0 < d) (k : ℝ) (hk : 1 ≤ k) (hkd : k < d) :
    IsPositive (ofChoi (toT (reductionChoi d (k : ℂ)) : TMat d d)) ∧ ¬ IsCP (ofChoi (toT (reductionChoi d (k : ℂ)) : TMat d d)) :=
  ⟨reduction_positive d k hk, fun h => reduction_not_cp d k hkd hd (by rw [cp_iff_choi_psd, choi_ofChoi] at h; exact h)⟩

/-- **Choi map: not completely positive** for `a < 2` (in particular the standard Choi map `choi(1,1,0)`). -/
theorem choiMap_not_completely_positive (a b c : ℝ) (ha : a < 2) :
    ¬ IsCP (ofChoi (toT (choiMapChoi (a : ℂ) b c) : TMat 3 3)) :=
  fun h => choiMap_not_cp a b c ha (by rw [cp_iff_choi_psd, choi_ofChoi] at h; exact h)

/-- **Kraus lists of the qubit constructors are channels.**  Any Kraus family with `Σ KᴴK = 1` (amplitude
    damping: `amplitude_damping_complete`, phase damping, bit flip) is a completely positive trace-preserving map. -/
theorem kraus_channel_of_complete {r : Nat} (K : Fin r → Matrix (Fin dO) (Fin di) ℂ)
    (h : ∑ k, (K k)ᴴ * K k = 1) : IsChannel (krausMap K) :=
  ⟨kraus_isCP K, krausMap_tp_of_complete K h⟩

/-- **The driver's direct-application formulas are the specification maps.**  The entrywise textbook actions
    evaluated by the driver (`depolAct`, `dephAct`, `reductionAct`, `choiMapAct`) are `depolSpec`, `dephSpec`,
    `reductionSpec`, `choiMapSpec`, hence (by the `…_apply` theorems) the maps of the returned Choi matrices. -/
theorem depolAct_eq_spec (d : Nat) (p : ℂ) (X : Nat → Nat → ℂ) :
    toSq d (depolAct d p X) = depolSpec d p (toSq d X) := by
  ext a b
  simp only [toSq_apply, depolAct, depolSpec, trN, delta, Matrix.add_apply, Matrix.smul_apply, Matrix.one_apply,
    smul_eq_mul, Matrix.trace, Matrix.diag, Toq.ChannelOps.sumN_eq_sum_fin, Fin.ext_iff]

/-- The entrywise dephasing formula of the driver is `dephSpec`. -/
theorem dephAct_eq_spec (d : Nat) (p : ℂ) (X : Nat → Nat → ℂ) :
    toSq d (dephAct p X) = dephSpec d p (toSq d X) := by
  ext a b
  simp only [toSq_apply, dephAct, dephSpec, diagPart, Matrix.add_apply, Matrix.smul_apply, Matrix.diagonal_apply,
    smul_eq_mul, Fin.ext_iff]

/-- The entrywise reduction-map formula of the driver is `reductionSpec`. -/
theorem reductionAct_eq_spec (d : Nat) (k : ℂ) (X : Nat → Nat → ℂ) :
    toSq d (reductionAct d k X) = reductionSpec d k (toSq d X) := by
  ext a b
  simp only [toSq_apply, reductionAct, reductionSpec, trN, delta, Matrix.sub_apply, Matrix.smul_apply, Matrix.one_apply,
    smul_eq_mul, Matrix.trace, Matrix.diag, Toq.ChannelOps.sumN_eq_sum_fin, Fin.ext_iff]

end Toq.C06
end Combined


/-! ## the exact rank oracle is Mathlib's rank (correctness of the elimination) -/
section ExactRank
open Toq.ChannelProps Toq.ChanPropSpec Toq.ChanPropProofs Matrix
namespace Toq.C06

/-- **The exact rank routine is correct.**  For every size and all exact rows, `rankQ r c M` (Gaussian elimination over
    `ℚ[i]`) equals Mathlib's `Matrix.rank` of the complex `r × c` matrix that the rows denote. -/
theorem rankQ_eq_rank (r c : Nat) (M : QM) : rankQ r c M = (qmToM r c M).rank :=
  Toq.Rank.rankFn_eq_rank r c M.get

/-- **The reported Choi rank is the Choi rank.**  If the exact matrix `c.J` denotes the Choi matrix of `Φ`, the field
    `rank` of the driver's report (the oracle for `choi_rank`, and the input of the unitarity verdict) equals
    `Matrix.rank (choi Φ)`. -/
theorem choiRank_exact {k : Nat} (c : ChoiForm) (Φ : LMap c.di c.dO) (L : Option (EMat (c.di * c.dO) k))
    (v : Option (EMat (c.di * c.dO) 1)) (h : choi Φ = toChoi c.J) : (report c L v).rank = (choi Φ).rank := by
  rw [h, rank_toChoi]
  show rankQ (c.di * c.dO) (c.di * c.dO) c.toQM = _
  rw [rankQ_eq_rank, qmToM_toQM]

/-- **Pivot columns: as many as the rank.** -/
theorem pivotCols_length (r c : Nat) (M : QM) : (pivotCols r c M).length = (qmToM r c M).rank :=
  Toq.Rank.pivotsFn_length r c M.get

/-- **Pivot columns are independent columns of the matrix**: every listed index is a column index, and the listed columns
    of the denoted complex matrix are linearly independent — with `pivotCols_length`, a basis of the column space.  These are
    the columns of the Choi matrix from which `extremalDecide` reads its basis `W_1 … W_r` of `span{K_i}`. -/
theorem pivotCols_linearIndependent (r c : Nat) (M : QM) :
    (∀ q ∈ pivotCols r c M, q < c) ∧
    LinearIndependent ℂ (fun t : Fin (pivotCols r c M).length => fun i : Fin r => (M.get i.val ((pivotCols r c M)[t.val])).toC) :=
  ⟨Toq.Rank.pivotsFn_lt r c M.get, Toq.Rank.pivotsFn_linearIndependent r c M.get⟩

/-- **The final test of the extremality procedures decides linear independence.**  `rankQ r c M = r` (for `extremalDecide`
    and `extremalAsCoded`: the `r²` flattened operators `W_kᴴ W_l` as rows, compared with `r²`) holds exactly when the `r`
    rows of the denoted complex matrix are linearly independent. -/
theorem rankQ_eq_rows_iff (r c : Nat) (M : QM) : rankQ r c M = r ↔ LinearIndependent ℂ (qmToM r c M).row := by
  rw [rankQ_eq_rank, Toq.Rank.linearIndependent_row_iff_rank]

/-- the routine on a concrete complex matrix: `[[1, i], [i, -1]]` has rank 1 and pivot column 0 -/
example : rankQ 2 2 #[#[⟨1, 0⟩, ⟨0, 1⟩], #[⟨0, 1⟩, ⟨-1, 0⟩]] = 1 ∧ pivotCols 2 2 #[#[⟨1, 0⟩, ⟨0, 1⟩], #[⟨0, 1⟩, ⟨-1, 0⟩]] = [0] := by
  decide +kernel

end Toq.C06
end ExactRank
