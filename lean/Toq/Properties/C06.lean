import Toq.Model.ChannelProps
import Toq.Spec.ChannelProps
import Toq.Proofs.ChannelProps
import Toq.Proofs.ChannelPropsExtremal
import Toq.Proofs.ChannelPropsTol
import Toq.Proofs.ChannelPropsRanges
import Mathlib.Analysis.Convex.Extreme
import Mathlib.LinearAlgebra.Complex.Module
/-!
# C06 — channel predicates decide by definition; built-in channels are what they claim

Property theorems only (helper lemmas: `Toq/Proofs/ChannelProps.lean`).  Vocabulary: `Toq/Spec/ChannelProps.lean`
(maps `Φ : M_{di}(ℂ) → M_{dO}(ℂ)`, Choi matrix `J(Φ) = Σ_ij E_ij ⊗ Φ(E_ij)` over `Fin di × Fin dO`, the textbook
definitions `IsTP`, `IsUnital`, `IsHP`, `IsPositive`, `IsCP` (all amplifications positive), `HasKraus`,
`IsUnitaryChannel`, `IsExtremeChannel`); executable deciders and closed-form channel models: `Toq/Model/ChannelProps.lean`,
`Toq/Model/ChannelPropsTol.lean` (tolerance arithmetic).

1. **Characterisations** — the tests toqito's predicates perform are equivalent to the definitions:
   `tp_iff_ptrace_choi`, `unital_iff_ptrace_choi`, `hp_iff_choi_hermitian`, Choi's theorem `cp_iff_choi_psd`
   (with `cp_of_kraus`, `kraus_of_psd_choi`, `kraus_isCP`), `cp_implies_positive`, `pairMap_tp_iff`,
   `unitary_channel`, `unitary_iff_choi`, `choiRank_le_kraus`, and the bridge `choi_pairMap_eq_choiSpec` to the
   Choi matrix that `kraus_to_choi` computes (C04).
2. **Deciders** — the exact three-valued deciders run by the driver mean what they say:
   `tpDecide_iff`, `unitalDecide_iff`, `hpDecide_iff`, `psdYes_sound`, `negWitness_sound`, `eqV_yes_iff`, `eqV_no_imp`,
   `…V_yes_iff / …V_no_imp`, and end to end `tpDecide_correct`, `cpDecide_sound`, `cpRefute_sound`, ….
3. **Built-in channels** — action formulas and textbook properties for all dimensions and all parameters in
   range: depolarizing, dephasing, reduction map, Choi map, (generalized) amplitude damping, phase damping,
   bit flip, Pauli channels.

4. **Ties** — the model functions the driver runs denote the specification objects: `choiOfPairs_eq_choi`,
   `choiOfArg_denotes` (Kraus list → Choi matrix), `actOfChoi_eq`, `depolAct_eq_spec`, … (direct-application
   formulas), `amplitude_damping_model_apply`, `pauliChoi_eq`; and the one-sided positivity test:
   `positive_of_choi_psd`, `not_positive_of_product_witness`.

5. **Extremality** — Choi's theorem is proved, nothing is cited: `extreme_iff_kraus_products_independent` (a channel with
   linearly independent Kraus operators is an extreme point of the convex set of channels iff the products `K_kᴴ K_l` are
   linearly independent), its basis form `extreme_iff_basis_products_independent`, `extreme_of_products_independent`,
   `unitary_channel_extreme`, `channels_convex`, `isExtremeChannel_iff_choi`, `isExtremeChannel_iff_mem_extremePoints` (the notion is
   Mathlib's `Set.extremePoints`); and the two executable procedures: `extremalDecide_correct` / `report_extremal_correct` (the
   decider of the driver answers `true` exactly for extreme channels), `extremalAsCoded_correct` (the procedure of `is_extremal` is
   right on independent Kraus lists) and `extremalAsCoded_dependent` (it answers `false` on every dependent list — the known finding).
6. **Exact rank** — `rankQ` (Gaussian elimination over `ℚ[i]`, the shared routine of `Toq/Core/Rank.lean`) is proved correct:
   `rankQ_eq_rank` (= Mathlib's `Matrix.rank` of the denoted complex matrix), `choiRank_exact`, `pivotCols_length` /
   `pivotCols_linearIndependent`, `rankQ_eq_rows_iff`; `choiRank_le_kraus` bounds the Choi rank by the number of Kraus operators.
7. **Parameter ranges** — `depolarizing_cp_iff` (`-1/(d²-1) ≤ p ≤ 1`), `dephasing_cp_iff` (`-1/(d-1) ≤ p ≤ 1`),
   `depolarizing_not_cp_of_gt_one`, `dephasing_not_cp_of_gt_one`; Pauli channels in all forms: `pauliString_hermitian`,
   `pauliChoi_eq_choi_kraus`, `pauli_channel_channel`; `phase_damping_model_apply`, `bitflip_model_apply`.
   Qubit constructors over the whole documented range with real square roots: `amplitude_damping_channel`, `phase_damping_channel`,
   `bitflip_channel`; guards: `adGuard_ok_iff`, `pdGuard_ok_iff`, `bfGuard_ok_iff`, `pauliGuard_ok_imp`; `amplitude_damping_extreme`,
   `amplitude_damping_standard_eq_pair`, `amplitude_damping_list_answered_false` (the known finding for every damping amplitude).
   Unitarity verdict end to end: `unitaryV_yes_sound`, `unitaryV_no_sound`, `unitary_choi_rank_trace`.
8. **Tolerances** — the exact mirror of `np.allclose` (`allclose_mirror`, `tpClose_iff`, `unitalClose_iff`, `hpClose_iff`,
   `tpPairsClose_iff`, `sumAdjMul_denotes`, `tpPairs_correct`), the margin of the three-valued verdicts against it
   (`eqV_yes_imp_allclose`, `eqV_no_imp_not_allclose`, `verdicts_agree_with_default_tolerances`), and the eigenvalue test of
   `is_positive_semidefinite` (`psd_shift_iff_eigenvalues`, `psdTolV_yes_imp`, `psdTolV_no_imp`).
-/

section Characterisations
open Toq.ChanPropSpec Matrix
open scoped ComplexOrder MatrixOrder
namespace Toq.C06
open Toq.ChanPropProofs
variable {di dO r n : Nat}

/-- A linear map is recovered from its Choi matrix. -/
theorem choi_faithful (Φ : LMap di dO) : ofChoi (choi Φ) = Φ := by
  apply LinearMap.ext
  intro X
  ext a b
  rw [ofChoi_apply, map_eq_sum_single Φ X]
  simp only [Matrix.sum_apply, Matrix.smul_apply, smul_eq_mul, choi_apply]

/-- Every matrix over the tensor product is the Choi matrix of the map it defines. -/
theorem choi_ofChoi (J : TMat di dO) : choi (ofChoi J) = J := by
  ext ⟨i, a⟩ ⟨j, b⟩
  rw [choi_apply, ofChoi_apply]
  rw [Finset.sum_eq_single i, Finset.sum_eq_single j]
  · simp
  · intro j' _ h; simp [Matrix.single_apply_of_col_ne _ _ (Ne.symm h)]
  · simp
  · intro i' _ h
    apply Finset.sum_eq_zero; intro j' _
    simp [Matrix.single_apply_of_row_ne (Ne.symm h)]
  · simp

/-- `Φ` preserves the trace iff the partial trace of its Choi matrix over the output factor is the identity. -/
theorem tp_iff_ptrace_choi (Φ : LMap di dO) : IsTP Φ ↔ ptraceOut (choi Φ) = 1 := by
  constructor
  · intro h
    ext i j
    rw [ptraceOut_choi_apply, h, Matrix.one_apply]
    by_cases hij : i = j
    · subst hij; simp
    · rw [Matrix.trace_single_eq_of_ne _ _ _ hij, if_neg hij]
  · intro h X
    rw [trace_map_eq, h, Matrix.trace]
    refine Finset.sum_congr rfl fun i _ => ?_
    rw [Finset.sum_eq_single i]
    · simp
    · intro j _ hj; simp [Ne.symm hj]
    · simp

/-- `Φ` is unital iff the partial trace of its Choi matrix over the input factor is the identity. -/
theorem unital_iff_ptrace_choi (Φ : LMap di dO) : IsUnital Φ ↔ ptraceIn (choi Φ) = 1 := by
  unfold IsUnital
  rw [map_one_eq]

/-- `Φ` preserves Hermiticity iff its Choi matrix is Hermitian. -/
theorem hp_iff_choi_hermitian (Φ : LMap di dO) : IsHP Φ ↔ (choi Φ).IsHermitian := by
  constructor
  · intro h
    ext ⟨i, a⟩ ⟨j, b⟩
    rw [Matrix.conjTranspose_apply, choi_apply, choi_apply]
    have := h (Matrix.single j i 1)
    rw [Matrix.conjTranspose_single, star_one] at this
    rw [this, Matrix.conjTranspose_apply]
  · intro h X
    have hE : ∀ i j, (Φ (Matrix.single i j 1))ᴴ = Φ (Matrix.single j i 1) := by
      intro i j
      ext a b
      rw [Matrix.conjTranspose_apply, ← choi_apply, ← choi_apply]
      have := congrFun (congrFun h (j, a)) (i, b)
      rw [Matrix.conjTranspose_apply] at this
      exact this
    rw [map_eq_sum_single Φ Xᴴ, map_eq_sum_single Φ X, Matrix.conjTranspose_sum, Finset.sum_comm]
    refine Finset.sum_congr rfl fun i _ => ?_
    rw [Matrix.conjTranspose_sum]
    refine Finset.sum_congr rfl fun j _ => ?_
    rw [Matrix.conjTranspose_smul, hE, Matrix.conjTranspose_apply]

/-- The Choi matrix of `X ↦ Σ_k A_k X B_kᴴ` is `Σ_k vec(A_k) vec(B_k)ᴴ`. -/
theorem choi_pairMap (A B : Fin r → Matrix (Fin dO) (Fin di) ℂ) :
    choi (pairMap A B) = ∑ k, Matrix.vecMulVec (kvec (A k)) (star (kvec (B k))) := by
  ext ⟨i, a⟩ ⟨j, b⟩
  rw [choi_apply, pairMap_apply, Matrix.sum_apply, Matrix.sum_apply]
  refine Finset.sum_congr rfl fun k _ => ?_
  rw [mul_single_mul_apply]
  rfl

/-- The Choi matrix of a map given by Kraus operators is positive semidefinite. -/
theorem cp_of_kraus (K : Fin r → Matrix (Fin dO) (Fin di) ℂ) : (choi (krausMap K)).PosSemidef := by
  unfold krausMap
  rw [choi_pairMap]
  exact Matrix.posSemidef_sum _ fun k _ => Matrix.posSemidef_vecMulVec_self_star _

/-- A map whose Choi matrix is positive semidefinite has a Kraus representation. -/
theorem kraus_of_psd_choi (Φ : LMap di dO) : (choi Φ).PosSemidef → HasKraus Φ := by
  intro h
  let e : Fin (di * dO) ≃ Fin di × Fin dO := finProdFinEquiv.symm
  let S : Matrix (Fin di × Fin dO) (Fin di × Fin dO) ℂ := CFC.sqrt (choi Φ)
  have hS : S.PosSemidef := (CFC.sqrt_nonneg (choi Φ)).posSemidef
  have hSS : S * S = choi Φ := CFC.sqrt_mul_sqrt_self (choi Φ) h.nonneg
  have hH : Sᴴ = S := hS.isHermitian
  refine ⟨di * dO, _, eq_krausMap_of_choi_eq Φ (S.submatrix id e) ?_⟩
  have hJ : choi Φ = S * Sᴴ := by rw [hH, hSS]
  rw [hJ]
  ext p q
  rw [Matrix.mul_apply, Matrix.mul_apply]
  rw [← Equiv.sum_comp e]
  rfl

/-- A map given by Kraus operators is completely positive. -/
theorem kraus_isCP (K : Fin r → Matrix (Fin dO) (Fin di) ℂ) : IsCP (krausMap K) := by
  intro n X hX
  rw [ampl_krausMap]
  exact Matrix.posSemidef_sum _ fun k _ => hX.mul_mul_conjTranspose_same _

/-- The Choi matrix of a completely positive map is positive semidefinite. -/
theorem choi_psd_of_isCP (Φ : LMap di dO) : IsCP Φ → (choi Φ).PosSemidef := by
  intro h
  rw [choi_eq_ampl]
  exact h di _ (Matrix.posSemidef_vecMulVec_self_star _)

/-- **Choi's theorem**: a map is completely positive iff its Choi matrix is positive semidefinite. -/
theorem cp_iff_choi_psd (Φ : LMap di dO) : IsCP Φ ↔ (choi Φ).PosSemidef := by
  constructor
  · exact choi_psd_of_isCP Φ
  · intro h
    obtain ⟨r, K, hK⟩ := kraus_of_psd_choi Φ h
    rw [hK]
    exact kraus_isCP K

/-- A map is completely positive iff it has a Kraus representation. -/
theorem cp_iff_hasKraus (Φ : LMap di dO) : IsCP Φ ↔ HasKraus Φ := by
  constructor
  · intro h
    exact kraus_of_psd_choi Φ (choi_psd_of_isCP Φ h)
  · rintro ⟨r, K, hK⟩
    rw [hK]
    exact kraus_isCP K

/-- A completely positive map is positive. -/
theorem cp_implies_positive (Φ : LMap di dO) : IsCP Φ → IsPositive Φ := by
  intro h X hX
  have h1 : (X.submatrix (Prod.snd : Fin 1 × Fin di → Fin di) Prod.snd).PosSemidef := hX.submatrix _
  have h2 := (h 1 _ h1).submatrix (fun a : Fin dO => ((0 : Fin 1), a))
  exact h2

/-- `X ↦ Σ_k A_k X B_kᴴ` preserves the trace iff `Σ_k A_kᴴ B_k = 1` (the test of `is_trace_preserving`). -/
theorem pairMap_tp_iff (A B : Fin r → Matrix (Fin dO) (Fin di) ℂ) :
    IsTP (pairMap A B) ↔ ∑ k, (A k)ᴴ * B k = 1 := by
  have e : (∑ k, (A k)ᴴ * B k) = (∑ k, (B k)ᴴ * A k)ᴴ := by
    rw [Matrix.conjTranspose_sum]
    refine Finset.sum_congr rfl fun k _ => ?_
    rw [Matrix.conjTranspose_mul, Matrix.conjTranspose_conjTranspose]
  have e2 : (∑ k, (A k)ᴴ * B k) = 1 ↔ (∑ k, (B k)ᴴ * A k) = 1 := by
    rw [e]
    constructor
    · intro h
      have := congrArg Matrix.conjTranspose h
      rwa [Matrix.conjTranspose_conjTranspose, Matrix.conjTranspose_one] at this
    · intro h; rw [h, Matrix.conjTranspose_one]
  rw [e2, Matrix.ext_iff_trace_mul_right]
  unfold IsTP
  simp only [trace_pairMap, Matrix.one_mul]

/-- `X ↦ Σ_k K_k X K_kᴴ` is unital iff `Σ_k K_k K_kᴴ = 1`. -/
theorem krausMap_unital_iff (K : Fin r → Matrix (Fin dO) (Fin di) ℂ) :
    IsUnital (krausMap K) ↔ ∑ k, K k * (K k)ᴴ = 1 := by
  unfold IsUnital
  rw [krausMap_apply]
  simp only [Matrix.mul_one]

/-- A unitary channel is completely positive, trace preserving and unital. -/
theorem unitary_channel (Φ : LMap di di) : IsUnitaryChannel Φ → IsCP Φ ∧ IsTP Φ ∧ IsUnital Φ := by
  rintro ⟨U, h1, h2, hΦ⟩
  have e : Φ = krausMap (one_fam U) := by
    apply LinearMap.ext; intro X; rw [hΦ, krausMap_one_fam]
  refine ⟨?_, ?_, ?_⟩
  · rw [e]; exact kraus_isCP _
  · rw [e]; unfold krausMap
    rw [pairMap_tp_iff, Fin.sum_univ_one]; exact h1
  · rw [e, krausMap_unital_iff, Fin.sum_univ_one]; exact h2

/-- A map is a unitary channel iff its Choi matrix is `vec(U) vec(U)ᴴ` for an isometry (hence unitary) `U`. -/
theorem unitary_iff_choi (Φ : LMap di di) :
    IsUnitaryChannel Φ ↔ ∃ U : Matrix (Fin di) (Fin di) ℂ, Uᴴ * U = 1 ∧
      choi Φ = Matrix.vecMulVec (kvec U) (star (kvec U)) := by
  constructor
  · rintro ⟨U, h1, h2, hΦ⟩
    have e : Φ = krausMap (one_fam U) := by
      apply LinearMap.ext; intro X; rw [hΦ, krausMap_one_fam]
    exact ⟨U, h1, by rw [e, choi_krausMap_one_fam]⟩
  · rintro ⟨U, h1, hJ⟩
    have e : Φ = krausMap (one_fam U) := by
      apply choi_injective; rw [hJ, choi_krausMap_one_fam]
    refine ⟨U, h1, mul_eq_one_comm.mp h1, fun X => ?_⟩
    rw [e, krausMap_one_fam]

/-- A trace-preserving map whose Choi matrix is `vec(K) vec(K)ᴴ` is a unitary channel (the criterion of `is_unitary`). -/
theorem unitary_of_rank_one_tp (Φ : LMap di di) (K : Matrix (Fin di) (Fin di) ℂ)
    (h : choi Φ = Matrix.vecMulVec (kvec K) (star (kvec K))) (htp : IsTP Φ) : IsUnitaryChannel Φ := by
  rw [unitary_iff_choi]
  refine ⟨K, ?_, h⟩
  have e : Φ = pairMap (one_fam K) (one_fam K) := by
    apply choi_injective; rw [h]; exact (choi_krausMap_one_fam K).symm
  rw [e, pairMap_tp_iff, Fin.sum_univ_one] at htp
  exact htp

/-- A vector with negative shifted quadratic form refutes `A + c·1 ⪰ 0`. -/
theorem not_psd_of_witness {ι : Type} [Fintype ι] [DecidableEq ι] (A : Matrix ι ι ℂ) (v : ι → ℂ) (c : ℝ)
    (h : (star v ⬝ᵥ (A *ᵥ v)).re + c * (star v ⬝ᵥ v).re < 0) :
    ¬ (A + (c : ℂ) • (1 : Matrix ι ι ℂ)).PosSemidef := by
  intro hp
  have h0 := hp.dotProduct_mulVec_nonneg v
  rw [Matrix.add_mulVec, Matrix.smul_mulVec, Matrix.one_mulVec, dotProduct_add, dotProduct_smul, smul_eq_mul] at h0
  have h1 := (Complex.nonneg_iff.mp h0).1
  rw [Complex.add_re, Complex.re_ofReal_mul] at h1
  linarith

/-- A vector with negative quadratic form refutes positive semidefiniteness. -/
theorem not_psd_of_neg_quadForm {ι : Type} [Fintype ι] [DecidableEq ι] (A : Matrix ι ι ℂ) (v : ι → ℂ)
    (h : (star v ⬝ᵥ (A *ᵥ v)).re < 0) : ¬ A.PosSemidef := by
  have := not_psd_of_witness A v 0 (by simpa using h)
  simpa using this

/-- The Choi rank is at most the number of Kraus operators. -/
theorem choiRank_le_kraus (K : Fin r → Matrix (Fin dO) (Fin di) ℂ) : (choi (krausMap K)).rank ≤ r := by
  have e : choi (krausMap K) =
      (Matrix.of fun (p : Fin di × Fin dO) (k : Fin r) => kvec (K k) p) *
      (Matrix.of fun (p : Fin di × Fin dO) (k : Fin r) => kvec (K k) p)ᴴ := by
    ext ⟨i, a⟩ ⟨j, b⟩
    rw [choi_krausMap_apply, Matrix.mul_apply]
    rfl
  rw [e]
  refine (Matrix.rank_mul_le_left _ _).trans ?_
  exact (Matrix.rank_le_card_width _).trans_eq (Fintype.card_fin r)

section bridge
open Toq.ChannelOps Toq.ChannelSpec

/-- The Choi matrix of the specification of C06 is, under the big-endian pairing `(i, a) ↦ i·d_out + a`,
    the Choi matrix `choiSpec` of the specification of C04 (what `kraus_to_choi` returns). -/
theorem choi_pairMap_eq_choiSpec (A B : Nat → Nat → Nat → ℂ) (r di dO : Nat) :
    ∀ (i j : Fin di) (a b : Fin dO),
      choi (pairMap (fun k : Fin r => toM dO di (A k)) (fun k : Fin r => toM dO di (B k))) (i, a) (j, b)
        = choiSpec r A B di di dO dO (i.val * dO + a.val) (j.val * dO + b.val) := by
  intro i j a b
  rw [choi_pairMap_apply]
  unfold choiSpec
  obtain ⟨h1, h2⟩ := divmod_be i.val dO a.val a.2
  obtain ⟨h3, h4⟩ := divmod_be j.val dO b.val b.2
  rw [h1, h2, h3, h4, applySpec_unit r A B di di i.val j.val a.val b.val i.2 j.2, sumN_eq_sum_fin]
  rfl

end bridge

end Toq.C06
end Characterisations

section Deciders
open Matrix
open scoped ComplexOrder
namespace Toq.C06
open Toq.ChannelProps Toq.ChanPropSpec Toq.ChanPropProofs

variable {di dO : Nat}

/-- The exact trace-preservation test on a rational Choi matrix answers `true` exactly when the partial
trace over the output factor of the denoted complex matrix is the identity. -/
theorem tpDecide_iff (J : EMat (di * dO) (di * dO)) :
    tpDecide J = true ↔ Toq.ChanPropSpec.ptraceOut (toChoi J) = 1 := by
  unfold tpDecide
  rw [beq_iff, toM_ptraceOut, EMat.toM_one]

/-- The exact unitality test answers `true` exactly when the partial trace over the input factor of the
denoted complex matrix is the identity. -/
theorem unitalDecide_iff (J : EMat (di * dO) (di * dO)) :
    unitalDecide J = true ↔ Toq.ChanPropSpec.ptraceIn (toChoi J) = 1 := by
  unfold unitalDecide
  rw [beq_iff, toM_ptraceIn, EMat.toM_one]

/-- The exact Hermiticity-preservation test answers `true` exactly when the denoted Choi matrix is Hermitian. -/
theorem hpDecide_iff (J : EMat (di * dO) (di * dO)) :
    hpDecide J = true ↔ (toChoi J).IsHermitian := by
  unfold hpDecide
  rw [isHermitian_iff, toChoi_isHermitian_iff]

/-- `eqV` answers `yes` exactly when the two denoted complex matrices are equal. -/
theorem eqV_yes_iff {n m : Nat} (A B : EMat n m) : eqV A B = Verdict.yes ↔ A.toM = B.toM := by
  rw [eqV_yes, beq_iff]

/-- `eqV` answers `no` only when the two denoted complex matrices differ. -/
theorem eqV_no_imp {n m : Nat} (A B : EMat n m) : eqV A B = Verdict.no → A.toM ≠ B.toM :=
  fun h => farApart_ne A B (eqV_no A B h)

/-- The exact single-operator unitarity test answers `true` exactly when `UᴴU = 1` and `UUᴴ = 1` hold for the
denoted complex matrix. -/
theorem unitaryMatDecide_iff {d : Nat} (U : EMat d d) :
    unitaryMatDecide U = true ↔ U.toMᴴ * U.toM = 1 ∧ U.toM * U.toMᴴ = 1 := by
  unfold unitaryMatDecide
  rw [Bool.and_eq_true, beq_iff, beq_iff, EMat.toM_mul, EMat.toM_mul, EMat.toM_ct, EMat.toM_one]

/-- The trace-preservation verdict is `yes` exactly when `Tr_out J = 1` for the denoted Choi matrix. -/
theorem tpV_yes_iff (J : EMat (di * dO) (di * dO)) :
    tpV J = Verdict.yes ↔ Toq.ChanPropSpec.ptraceOut (toChoi J) = 1 := by
  unfold tpV
  rw [eqV_yes_iff, toM_ptraceOut, EMat.toM_one]

/-- The trace-preservation verdict is `no` only when `Tr_out J ≠ 1` for the denoted Choi matrix. -/
theorem tpV_no_imp (J : EMat (di * dO) (di * dO)) :
    tpV J = Verdict.no → Toq.ChanPropSpec.ptraceOut (toChoi J) ≠ 1 := by
  intro h
  have := eqV_no_imp _ _ h
  rwa [toM_ptraceOut, EMat.toM_one] at this

/-- The unitality verdict is `yes` exactly when `Tr_in J = 1` for the denoted Choi matrix. -/
theorem unitalV_yes_iff (J : EMat (di * dO) (di * dO)) :
    unitalV J = Verdict.yes ↔ Toq.ChanPropSpec.ptraceIn (toChoi J) = 1 := by
  unfold unitalV
  rw [eqV_yes_iff, toM_ptraceIn, EMat.toM_one]

/-- The unitality verdict is `no` only when `Tr_in J ≠ 1` for the denoted Choi matrix. -/
theorem unitalV_no_imp (J : EMat (di * dO) (di * dO)) :
    unitalV J = Verdict.no → Toq.ChanPropSpec.ptraceIn (toChoi J) ≠ 1 := by
  intro h
  have := eqV_no_imp _ _ h
  rwa [toM_ptraceIn, EMat.toM_one] at this

/-- The Hermiticity-preservation verdict is `yes` exactly when the denoted Choi matrix is Hermitian. -/
theorem hpV_yes_iff (J : EMat (di * dO) (di * dO)) :
    hpV J = Verdict.yes ↔ (toChoi J).IsHermitian := by
  unfold hpV
  rw [eqV_yes_iff, EMat.toM_ct, toChoi_isHermitian_iff]
  exact eq_comm

/-- The Hermiticity-preservation verdict is `no` only when the denoted Choi matrix is not Hermitian. -/
theorem hpV_no_imp (J : EMat (di * dO) (di * dO)) :
    hpV J = Verdict.no → ¬ (toChoi J).IsHermitian := by
  intro h hH
  have := eqV_no_imp _ _ h
  rw [EMat.toM_ct] at this
  exact this ((toChoi_isHermitian_iff J).mp hH).symm

/-- A positive certificate (`J` Hermitian and `J - L Lᴴ` diagonally dominant) proves that the denoted Choi
matrix is positive semidefinite. -/
theorem psdYes_sound {k : Nat} (J : EMat (di * dO) (di * dO)) (L : EMat (di * dO) k) :
    psdYes J L = true → (toChoi J).PosSemidef := by
  intro h
  rw [toChoi_posSemidef_iff]
  exact psdCert_sound J L h

/-- A negative witness `v` with margin `μ` (`vᴴAv < 0` and `Re vᴴAv ≤ -μ·vᴴv`, `μ ≥ 0`) refutes positive
semidefiniteness of `A`, and of every shift `A + c·1` with `c < μ`. -/
theorem negWitness_sound {n : Nat} (A : EMat n n) (v : EMat n 1) (μ : Rat) :
    negWitness A v μ = true →
      ¬ A.toM.PosSemidef ∧
        ∀ c : ℝ, c < (μ : ℝ) → ¬ (A.toM + (c : ℂ) • (1 : Matrix (Fin n) (Fin n) ℂ)).PosSemidef := by
  intro h
  simp only [negWitness, Bool.and_eq_true, decide_eq_true_eq] at h
  obtain ⟨⟨h1, h2⟩, h3⟩ := h
  have hq : (star (colVec v) ⬝ᵥ (A.toM *ᵥ colVec v)).re = ((quadForm A v).re : ℝ) := by
    rw [← quadForm_toC]; rfl
  have hn : (star (colVec v) ⬝ᵥ colVec v).re = ((normSq v).re : ℝ) := by
    rw [← normSq_toC]; rfl
  have h1' : (((quadForm A v).re : Rat) : ℝ) < 0 := by exact_mod_cast h1
  have h2' : (((quadForm A v).re : Rat) : ℝ) + (μ : ℝ) * (((normSq v).re : Rat) : ℝ) ≤ 0 := by
    exact_mod_cast h2
  have hn0 : 0 ≤ (((normSq v).re : Rat) : ℝ) := by
    rw [← hn]
    have : 0 ≤ star (colVec v) ⬝ᵥ colVec v := dotProduct_star_self_nonneg _
    exact (Complex.nonneg_iff.mp this).1
  constructor
  · intro hP
    have := (Complex.nonneg_iff.mp (hP.dotProduct_mulVec_nonneg (colVec v))).1
    rw [hq] at this
    linarith
  · intro c hc hP
    have := (Complex.nonneg_iff.mp (hP.dotProduct_mulVec_nonneg (colVec v))).1
    rw [Matrix.add_mulVec, dotProduct_add, Matrix.smul_mulVec, Matrix.one_mulVec, dotProduct_smul,
      Complex.add_re, hq, smul_eq_mul, Complex.re_ofReal_mul, hn] at this
    rcases eq_or_lt_of_le hn0 with h0 | hpos
    · rw [← h0] at this; linarith
    · have : c * (((normSq v).re : Rat) : ℝ) < (μ : ℝ) * (((normSq v).re : Rat) : ℝ) :=
        mul_lt_mul_of_pos_right hc hpos
      linarith

/-- A negative witness refutes positive semidefiniteness of the denoted Choi matrix. -/
theorem negWitness_sound_choi (J : EMat (di * dO) (di * dO)) (v : EMat (di * dO) 1) (μ : Rat) :
    negWitness J v μ = true → ¬ (toChoi J).PosSemidef := by
  intro h
  rw [toChoi_posSemidef_iff]
  exact (negWitness_sound J v μ h).1

/-- The positive-semidefiniteness verdict is `yes` only when the denoted Choi matrix is positive semidefinite. -/
theorem psdV_yes_imp {k : Nat} (J : EMat (di * dO) (di * dO)) (L : Option (EMat (di * dO) k))
    (v : Option (EMat (di * dO) 1)) : psdV J L v = Verdict.yes → (toChoi J).PosSemidef := by
  unfold psdV
  cases hE : eqV J J.ct <;> simp only [reduceCtorEq, false_imp_iff]
  cases L with
  | none =>
    cases v with
    | none => simp
    | some v => by_cases hv : negWitness J v (tolOf (maxAbs1 J)) = true <;> simp [hv]
  | some L =>
    by_cases hL : psdYes J L = true
    · intro _; exact psdYes_sound J L hL
    · cases v with
      | none => simp [hL]
      | some v => by_cases hv : negWitness J v (tolOf (maxAbs1 J)) = true <;> simp [hL, hv]

/-- The positive-semidefiniteness verdict is `no` only when the denoted Choi matrix is not positive
semidefinite (it is not Hermitian, or a negative witness was checked). -/
theorem psdV_no_imp {k : Nat} (J : EMat (di * dO) (di * dO)) (L : Option (EMat (di * dO) k))
    (v : Option (EMat (di * dO) 1)) : psdV J L v = Verdict.no → ¬ (toChoi J).PosSemidef := by
  unfold psdV
  cases hE : eqV J J.ct
  case no =>
    intro _ hP
    exact hpV_no_imp J hE hP.isHermitian
  case unknown => simp
  case yes =>
    simp only
    cases v with
    | none => cases L with
      | none => simp
      | some L => by_cases hL : psdYes J L = true <;> simp [hL]
    | some v =>
      by_cases hv : negWitness J v (tolOf (maxAbs1 J)) = true
      · intro _; exact negWitness_sound_choi J v _ hv
      · cases L with
        | none => simp [hv]
        | some L => by_cases hL : psdYes J L = true <;> simp [hL, hv]

/-! ## non-vacuity: the deciders do answer `true` on concrete inputs -/

/-- the identity channel on one qubit: `J = Σ_ij E_ij ⊗ E_ij` -/
private def Jid : EMat (2 * 2) (2 * 2) :=
  EMat.ofFn fun p q => if p.val / 2 = p.val % 2 ∧ q.val / 2 = q.val % 2 then 1 else 0
/-- `vec(1)` as a `4 × 1` factor of `Jid` -/
private def Lid : EMat (2 * 2) 1 := EMat.ofFn fun p _ => if p.val / 2 = p.val % 2 then 1 else 0
/-- `-1` on the one-dimensional space -/
private def Jneg : EMat (1 * 1) (1 * 1) := EMat.ofFn fun _ _ => ⟨-1, 0⟩
private def vone : EMat (1 * 1) 1 := EMat.ofFn fun _ _ => 1

example : tpDecide (di := 2) (dO := 2) Jid = true := by decide +kernel
example : unitalDecide (di := 2) (dO := 2) Jid = true := by decide +kernel
example : hpDecide (di := 2) (dO := 2) Jid = true := by decide +kernel
example : psdYes (n := 2 * 2) Jid Lid = true := by decide +kernel
example : negWitness (n := 1 * 1) Jneg vone 1 = true := by decide +kernel
example : psdV (k := 1) (n := 2 * 2) Jid (some Lid) none = Verdict.yes := by decide +kernel
example : psdV (k := 1) (n := 1 * 1) Jneg none (some vone) = Verdict.no := by decide +kernel
example : tpV (di := 1) (dO := 1) Jneg = Verdict.no := by decide +kernel


end Toq.C06
end Deciders

section ChoiConstructors
open Toq.ChannelProps Toq.ChanPropSpec Matrix
open scoped ComplexOrder
namespace Toq.C06
open Toq.ChanPropProofs

/-- The matrix returned by `depolarizing(d, p)` is the Choi matrix of `X ↦ (1-p)·tr(X)·1/d + p·X`. -/
theorem depolarizing_apply (d : Nat) (p : ℂ) (X : Matrix (Fin d) (Fin d) ℂ) :
    ofChoi (toT (depolChoi d p)) X = depolSpec d p X := by
  ext a b
  have h1 : ∀ i j : Fin d, X i j * (toT (depolChoi d p) : TMat d d) (i, a) (j, b)
      = ((1 - p) / (d : ℂ)) * (X i j * (if i = j ∧ a = b then (1 : ℂ) else 0))
        + p * (X i j * ((if i = a then (1 : ℂ) else 0) * (if j = b then 1 else 0))) := by
    intro i j
    rw [toT_apply]
    simp only [depolChoi, psi_idx, delta_idx]
    ring
  simp only [ofChoi_apply', h1, Finset.sum_add_distrib, ← Finset.mul_sum, sum_pick, sum_diag]
  simp only [depolSpec, Matrix.add_apply, Matrix.smul_apply, Matrix.one_apply, smul_eq_mul]
  by_cases h : a = b
  · simp [h]; ring
  · simp [h]

/-- `depolarizing(d, p)` is trace preserving for every parameter. -/
theorem depolarizing_tp (d : Nat) (p : ℂ) : IsTP (ofChoi (toT (depolChoi d p) : TMat d d)) := by
  intro X
  rw [depolarizing_apply]
  rcases Nat.eq_zero_or_pos d with rfl | hd
  · simp [Matrix.trace]
  · have hd' : (d : ℂ) ≠ 0 := Nat.cast_ne_zero.mpr hd.ne'
    simp only [depolSpec, Matrix.trace_add, Matrix.trace_smul, Matrix.trace_one, Fintype.card_fin,
      smul_eq_mul]
    field_simp
    ring

/-- `depolarizing(d, p)` is unital for every parameter. -/
theorem depolarizing_unital (d : Nat) (p : ℂ) : IsUnital (ofChoi (toT (depolChoi d p) : TMat d d)) := by
  unfold IsUnital
  rw [depolarizing_apply]
  rcases Nat.eq_zero_or_pos d with rfl | hd
  · exact Subsingleton.elim _ _
  · have hd' : (d : ℂ) ≠ 0 := Nat.cast_ne_zero.mpr hd.ne'
    simp only [depolSpec, Matrix.trace_one, Fintype.card_fin]
    rw [← add_smul]
    have : (1 - p) * (d : ℂ) / (d : ℂ) + p = 1 := by field_simp; ring
    rw [this, one_smul]

/-- For `0 ≤ p ≤ 1` the matrix `depolarizing(d, p)` is positive semidefinite (the map is completely positive). -/
theorem depolarizing_choi_psd (d : Nat) (p : ℝ) (h0 : 0 ≤ p) (h1 : p ≤ 1) :
    (toT (depolChoi d (p : ℂ)) : TMat d d).PosSemidef := by
  rw [toT_depol_eq]
  have hc : (0 : ℂ) ≤ (1 - (p : ℂ)) / (d : ℂ) := by
    have : (1 - (p : ℂ)) / (d : ℂ) = (((1 - p) / (d : ℝ) : ℝ) : ℂ) := by push_cast; rfl
    rw [this, Complex.zero_le_real]
    exact div_nonneg (sub_nonneg.mpr h1) (Nat.cast_nonneg d)
  have hp : (0 : ℂ) ≤ (p : ℂ) := Complex.zero_le_real.mpr h0
  exact (PosSemidef.one.smul hc).add ((posSemidef_vecMulVec_self_star _).smul hp)

/-- The matrix returned by `dephasing(d, p)` is the Choi matrix of `X ↦ (1-p)·diag(X) + p·X`. -/
theorem dephasing_apply (d : Nat) (p : ℂ) (X : Matrix (Fin d) (Fin d) ℂ) :
    ofChoi (toT (dephChoi d p)) X = dephSpec d p X := by
  ext a b
  have h1 : ∀ i j : Fin d, X i j * (toT (dephChoi d p) : TMat d d) (i, a) (j, b)
      = (1 - p) * (X i j * (if i = j ∧ a = b then (if i = a then (1 : ℂ) else 0) * (if i = a then 1 else 0) else 0))
        + p * (X i j * ((if i = a then (1 : ℂ) else 0) * (if j = b then 1 else 0))) := by
    intro i j
    rw [toT_apply]
    simp only [dephChoi, psi_idx, idx_inj]
    ring
  simp only [ofChoi_apply', h1, Finset.sum_add_distrib, ← Finset.mul_sum, sum_pick, sum_diag_pick]
  simp only [dephSpec, diagPart, Matrix.add_apply, Matrix.smul_apply, Matrix.diagonal_apply, smul_eq_mul]

/-- `dephasing(d, p)` is trace preserving for every parameter. -/
theorem dephasing_tp (d : Nat) (p : ℂ) : IsTP (ofChoi (toT (dephChoi d p) : TMat d d)) := by
  intro X
  rw [dephasing_apply]
  simp only [dephSpec, diagPart, Matrix.trace_add, Matrix.trace_smul, Matrix.trace_diagonal, smul_eq_mul]
  simp only [Matrix.trace, Matrix.diag_apply]
  ring

/-- `dephasing(d, p)` is unital for every parameter. -/
theorem dephasing_unital (d : Nat) (p : ℂ) : IsUnital (ofChoi (toT (dephChoi d p) : TMat d d)) := by
  unfold IsUnital
  rw [dephasing_apply]
  have : diagPart (1 : Matrix (Fin d) (Fin d) ℂ) = 1 := by
    simp only [diagPart, Matrix.one_apply_eq]
    exact Matrix.diagonal_one
  rw [dephSpec, this, ← add_smul, sub_add_cancel, one_smul]

/-- For `0 ≤ p ≤ 1` the matrix `dephasing(d, p)` is positive semidefinite (the map is completely positive). -/
theorem dephasing_choi_psd (d : Nat) (p : ℝ) (h0 : 0 ≤ p) (h1 : p ≤ 1) :
    (toT (dephChoi d (p : ℂ)) : TMat d d).PosSemidef := by
  rw [toT_deph_eq]
  have hc : (0 : ℂ) ≤ 1 - (p : ℂ) := by
    have : 1 - (p : ℂ) = ((1 - p : ℝ) : ℂ) := by push_cast; rfl
    rw [this, Complex.zero_le_real]
    exact sub_nonneg.mpr h1
  have hp : (0 : ℂ) ≤ (p : ℂ) := Complex.zero_le_real.mpr h0
  have hD : (diagonal (fun q : Fin d × Fin d => maxEntVec d q * maxEntVec d q)).PosSemidef := by
    apply PosSemidef.diagonal
    intro q
    simp only [maxEntVec, Pi.zero_apply]
    split_ifs <;> simp
  exact (hD.smul hc).add ((posSemidef_vecMulVec_self_star _).smul hp)

/-- The matrix returned by `reduction(d, k)` is the Choi matrix of `X ↦ k·tr(X)·1 - X`. -/
theorem reduction_apply (d : Nat) (k : ℂ) (X : Matrix (Fin d) (Fin d) ℂ) :
    ofChoi (toT (reductionChoi d k)) X = reductionSpec d k X := by
  rw [reductionChoi_eq_gen, gen_apply, reductionSpec]
  congr 1
  ext a b
  simp only [Matrix.diagonal_apply, Matrix.smul_apply, Matrix.one_apply, smul_eq_mul, ← Finset.sum_mul,
    Matrix.trace, Matrix.diag_apply]
  split_ifs <;> ring

/-- `reduction(d, k)` multiplies the trace by `k·d - 1`. -/
theorem reduction_trace (d : Nat) (k : ℂ) (X : Matrix (Fin d) (Fin d) ℂ) :
    trace (ofChoi (toT (reductionChoi d k) : TMat d d) X) = (k * d - 1) * trace X := by
  rw [reduction_apply, reductionSpec, Matrix.trace_sub, Matrix.trace_smul, Matrix.trace_one,
    Fintype.card_fin, smul_eq_mul]
  ring

/-- For real `k` the matrix `reduction(d, k)` is Hermitian (the map preserves Hermiticity). -/
theorem reduction_choi_hermitian (d : Nat) (k : ℝ) :
    (toT (reductionChoi d (k : ℂ)) : TMat d d).IsHermitian := by
  apply toT_isHermitian
  intro P Q
  simp only [reductionChoi, star_sub, star_mul', star_psi, delta_comm Q P, Complex.star_def,
    Complex.conj_ofReal]
  have : (starRingEnd ℂ) (delta P Q : ℂ) = delta P Q := by
    unfold delta; split_ifs <;> simp
  rw [this]
  ring

/-- For `k < d` the matrix `reduction(d, k)` is not positive semidefinite (the map is not completely positive):
    the maximally entangled vector `ψ` has `ψᴴJψ = k·d - d² < 0`. -/
theorem reduction_not_cp (d : Nat) (k : ℝ) (hk : k < d) (hd : 0 < d) :
    ¬ (toT (reductionChoi d (k : ℂ)) : TMat d d).PosSemidef := by
  intro h
  have h2 := h.dotProduct_mulVec_nonneg (maxEntVec d)
  rw [reductionChoi_eq_gen, toT_gen_eq, quad_maxEnt] at h2
  simp only [Finset.sum_const, Finset.card_univ, Fintype.card_fin, nsmul_eq_mul] at h2
  have h3 : (d : ℂ) * (k : ℂ) - (d : ℂ) * d = (((d : ℝ) * (k - d) : ℝ) : ℂ) := by push_cast; ring
  rw [h3, Complex.zero_le_real] at h2
  have hd' : (0 : ℝ) < d := Nat.cast_pos.mpr hd
  nlinarith

/-- The matrix returned by `choi(a, b, c)` is the Choi matrix of the generalised Choi map
    `X ↦ diag((a+1)x₀₀ + b x₁₁ + c x₂₂, c x₀₀ + (a+1)x₁₁ + b x₂₂, b x₀₀ + c x₁₁ + (a+1)x₂₂) - X`. -/
theorem choiMap_apply (a b c : ℂ) (X : Matrix (Fin 3) (Fin 3) ℂ) :
    ofChoi (toT (choiMapChoi a b c) : TMat 3 3) X = choiMapSpec a b c X := by
  rw [choiMapChoi_eq_gen, gen_apply, choiMapSpec]
  congr 2
  funext s
  fin_cases s <;> simp [Fin.sum_univ_three, choiDiag] <;> ring

/-- For real parameters the matrix `choi(a, b, c)` is Hermitian. -/
theorem choiMap_choi_hermitian (a b c : ℝ) :
    (toT (choiMapChoi (a : ℂ) b c) : TMat 3 3).IsHermitian := by
  apply toT_isHermitian
  intro P Q
  have hD : ∀ P, star (choiDiag (a : ℂ) b c P) = choiDiag (a : ℂ) b c P := by
    intro P
    unfold choiDiag
    split <;> simp
  simp only [choiMapChoi, star_sub, star_mul', star_psi]
  by_cases h : P = Q
  · subst h; simp [hD]
  · have h' : ¬ Q = P := fun e => h e.symm
    simp [h, h', mul_comm]

/-- For `a < 2` the matrix `choi(a, b, c)` is not positive semidefinite (the map is not completely positive):
    the maximally entangled vector `ψ` has `ψᴴJψ = 3(a+1) - 9 < 0`. -/
theorem choiMap_not_cp (a b c : ℝ) (ha : a < 2) :
    ¬ (toT (choiMapChoi (a : ℂ) b c) : TMat 3 3).PosSemidef := by
  intro h
  have h2 := h.dotProduct_mulVec_nonneg (maxEntVec 3)
  rw [choiMapChoi_eq_gen, toT_gen_eq, quad_maxEnt] at h2
  simp only [Fin.sum_univ_three] at h2
  have h3 : choiDiag (a : ℂ) b c ((0 : Fin 3).val * 3 + (0 : Fin 3).val)
      + choiDiag (a : ℂ) b c ((1 : Fin 3).val * 3 + (1 : Fin 3).val)
      + choiDiag (a : ℂ) b c ((2 : Fin 3).val * 3 + (2 : Fin 3).val) - ((3 : ℕ) : ℂ) * ((3 : ℕ) : ℂ)
      = ((3 * (a + 1) - 9 : ℝ) : ℂ) := by
    simp [choiDiag]; ring
  rw [h3, Complex.zero_le_real] at h2
  linarith

/-- `choi(0, 1, 1)` is the reduction map `reduction(3, 1)`, entry by entry. -/
theorem choiMap_011_eq_reduction :
    ∀ P Q, P < 9 → Q < 9 → choiMapChoi (0 : ℂ) 1 1 P Q = reductionChoi 3 (1 : ℂ) P Q := by
  intro P Q hP _
  have hD : choiDiag (0 : ℂ) 1 1 P = 1 := by
    interval_cases P <;> simp [choiDiag]
  simp only [choiMapChoi, reductionChoi, delta, hD, one_mul]

/-- `choi(a, b, c)` multiplies the trace by `a + b + c`. -/
theorem choiMap_trace (a b c : ℂ) (X : Matrix (Fin 3) (Fin 3) ℂ) :
    trace (ofChoi (toT (choiMapChoi a b c) : TMat 3 3) X) = (a + b + c) * trace X := by
  rw [choiMapChoi_eq_gen, gen_apply, Matrix.trace_sub, Matrix.trace_diagonal]
  simp [Fin.sum_univ_three, choiDiag, Matrix.trace]
  ring

/-- For `k ≥ 1` the reduction map `X ↦ k·tr(X)·1 - X` is positive. -/
theorem reduction_positive (d : Nat) (k : ℝ) (hk : 1 ≤ k) :
    IsPositive (ofChoi (toT (reductionChoi d (k : ℂ)) : TMat d d)) := by
  intro X hX
  rw [reduction_apply, reductionSpec]
  have hsplit : ((k : ℂ) * X.trace) • (1 : Matrix (Fin d) (Fin d) ℂ) - X
      = (((k - 1 : ℝ) : ℂ) * X.trace) • (1 : Matrix (Fin d) (Fin d) ℂ) + (X.trace • 1 - X) := by
    push_cast
    rw [sub_mul, one_mul, sub_smul]
    abel
  rw [hsplit]
  have hc : (0 : ℂ) ≤ ((k - 1 : ℝ) : ℂ) * X.trace :=
    mul_nonneg (Complex.zero_le_real.mpr (sub_nonneg.mpr hk)) hX.trace_nonneg
  exact (PosSemidef.one.smul hc).add (trace_smul_one_sub_posSemidef hX)

/-- `reduction(2, 1)` evaluated on integers -/
example : (List.range 4).map (fun P => (List.range 4).map (fun Q => reductionChoi (α := Int) 2 1 P Q))
    = [[0, 0, 0, -1], [0, 1, 0, 0], [0, 0, 1, 0], [-1, 0, 0, 0]] := by decide

/-- the diagonal and the first row of `choi(1, 2, 3)` evaluated on integers -/
example : ((List.range 9).map (fun P => choiMapChoi (α := Int) 1 2 3 P P),
      (List.range 9).map (fun Q => choiMapChoi (α := Int) 1 2 3 0 Q))
    = ([1, 3, 2, 2, 1, 3, 3, 2, 1], [1, 0, 0, 0, -1, 0, 0, 0, -1]) := by decide

/-- `dephasing(2, 3)` evaluated on integers (`(1-p)·diag + p·ψψᴴ`) -/
example : (List.range 4).map (fun P => (List.range 4).map (fun Q => dephChoi (α := Int) 2 3 P Q))
    = [[1, 0, 0, 3], [0, 0, 0, 0], [0, 0, 0, 0], [3, 0, 0, 1]] := by decide

end Toq.C06
end ChoiConstructors

section KrausConstructors
open Toq.ChannelProps Toq.ChanPropSpec Matrix
open scoped Kronecker
namespace Toq.C06
open Toq.ChanPropProofs

/-- The four Kraus operators of the generalized amplitude damping channel satisfy the completeness relation. -/
theorem amplitude_damping_complete (sp cp sg cg : ℝ) (hp : sp ^ 2 + cp ^ 2 = 1) (hg : sg ^ 2 + cg ^ 2 = 1) :
    ∑ k, (fam2 (adKraus (sp : ℂ) cp sg cg) k)ᴴ * fam2 (adKraus (sp : ℂ) cp sg cg) k = 1 := by
  have hp' : (sp : ℂ) ^ 2 + (cp : ℂ) ^ 2 = 1 := by exact_mod_cast hp
  have hg' : (sg : ℂ) ^ 2 + (cg : ℂ) ^ 2 = 1 := by exact_mod_cast hg
  rw [fam2_adKraus]
  show ∑ k : Fin 4, _ = _
  rw [Fin.sum_univ_four]
  ext i j
  fin_cases i <;> fin_cases j <;>
    simp [Matrix.mul_apply, Fin.sum_univ_two]
  · linear_combination hp' + (cp : ℂ) ^ 2 * hg'
  · linear_combination hp' + (sp : ℂ) ^ 2 * hg'

/-- The generalized amplitude damping channel is trace preserving. -/
theorem amplitude_damping_tp (sp cp sg cg : ℝ) (hp : sp ^ 2 + cp ^ 2 = 1) (hg : sg ^ 2 + cg ^ 2 = 1) :
    IsTP (krausMap (fam2 (adKraus (sp : ℂ) cp sg cg))) :=
  krausMap_tp_of_complete _ (amplitude_damping_complete sp cp sg cg hp hg)

/-- The action of the generalized amplitude damping channel on a 2×2 matrix, entry by entry. -/
theorem amplitude_damping_apply (sp cp sg cg : ℝ) (X : Matrix (Fin 2) (Fin 2) ℂ) :
    krausMap (fam2 (adKraus (sp : ℂ) cp sg cg)) X =
      !![((sp : ℂ) ^ 2 + (cp : ℂ) ^ 2 * (cg : ℂ) ^ 2) * X 0 0 + (sp : ℂ) ^ 2 * (sg : ℂ) ^ 2 * X 1 1,
         ((sp : ℂ) ^ 2 + (cp : ℂ) ^ 2) * (cg : ℂ) * X 0 1;
         ((sp : ℂ) ^ 2 + (cp : ℂ) ^ 2) * (cg : ℂ) * X 1 0,
         ((sp : ℂ) ^ 2 * (cg : ℂ) ^ 2 + (cp : ℂ) ^ 2) * X 1 1 + (cp : ℂ) ^ 2 * (sg : ℂ) ^ 2 * X 0 0] := by
  rw [krausMap_apply', fam2_adKraus]
  show ∑ k : Fin 4, _ = _
  rw [Fin.sum_univ_four]
  ext i j
  fin_cases i <;> fin_cases j <;>
    simp only [Matrix.add_apply, Matrix.mul_apply, Fin.sum_univ_two, Matrix.conjTranspose_apply] <;>
    simp <;> ring

/-- With `prob = 1` the textbook amplitude damping channel
    `[[x₀₀ + γ x₁₁, √(1-γ) x₀₁], [√(1-γ) x₁₀, (1-γ) x₁₁]]`. -/
theorem amplitude_damping_apply_standard (sg cg : ℝ) (X : Matrix (Fin 2) (Fin 2) ℂ) :
    krausMap (fam2 (adKraus (1 : ℂ) 0 sg cg)) X =
      !![X 0 0 + (sg : ℂ) ^ 2 * X 1 1, (cg : ℂ) * X 0 1;
         (cg : ℂ) * X 1 0, (cg : ℂ) ^ 2 * X 1 1] := by
  have h := amplitude_damping_apply 1 0 sg cg X
  simp only [Complex.ofReal_one, Complex.ofReal_zero] at h
  rw [h]
  ext i j
  fin_cases i <;> fin_cases j <;> simp

/-- The driver's direct application formula `Σ_K K X Kᵀ` on the model list agrees with the Kraus map. -/
theorem amplitude_damping_model_apply (sp cp sg cg : ℝ) (X : Nat → Nat → ℂ) (a b : Nat) (ha : a < 2) (hb : b < 2) :
    applyReal2 (adKraus (sp : ℂ) cp sg cg) X a b
      = krausMap (fam2 (adKraus (sp : ℂ) cp sg cg)) (toSq 2 X) ⟨a, ha⟩ ⟨b, hb⟩ := by
  rw [amplitude_damping_apply]
  have ha' : a = 0 ∨ a = 1 := by omega
  have hb' : b = 0 ∨ b = 1 := by omega
  rcases ha' with rfl | rfl <;> rcases hb' with rfl | rfl <;>
    simp [applyReal2, adKraus, sumN, m22, toSq] <;> ring

/-! ### phase damping -/

/-- The two Kraus operators of the phase damping channel satisfy the completeness relation. -/
theorem phase_damping_complete (sg cg : ℝ) (hg : sg ^ 2 + cg ^ 2 = 1) :
    ∑ k, (fam2 (pdKraus (sg : ℂ) cg) k)ᴴ * fam2 (pdKraus (sg : ℂ) cg) k = 1 := by
  have hg' : (sg : ℂ) ^ 2 + (cg : ℂ) ^ 2 = 1 := by exact_mod_cast hg
  rw [fam2_pdKraus]
  show ∑ k : Fin 2, _ = _
  rw [Fin.sum_univ_two]
  ext i j
  fin_cases i <;> fin_cases j <;>
    simp [Matrix.mul_apply, Fin.sum_univ_two]
  linear_combination hg'

/-- The phase damping channel is trace preserving. -/
theorem phase_damping_tp (sg cg : ℝ) (hg : sg ^ 2 + cg ^ 2 = 1) :
    IsTP (krausMap (fam2 (pdKraus (sg : ℂ) cg))) :=
  krausMap_tp_of_complete _ (phase_damping_complete sg cg hg)

/-- The action of the phase damping channel: the off-diagonal entries are multiplied by `√(1-γ)`. -/
theorem phase_damping_apply (sg cg : ℝ) (X : Matrix (Fin 2) (Fin 2) ℂ) :
    krausMap (fam2 (pdKraus (sg : ℂ) cg)) X =
      !![X 0 0, (cg : ℂ) * X 0 1;
         (cg : ℂ) * X 1 0, ((cg : ℂ) ^ 2 + (sg : ℂ) ^ 2) * X 1 1] := by
  rw [krausMap_apply', fam2_pdKraus]
  show ∑ k : Fin 2, _ = _
  rw [Fin.sum_univ_two]
  ext i j
  fin_cases i <;> fin_cases j <;>
    simp only [Matrix.add_apply, Matrix.mul_apply, Fin.sum_univ_two, Matrix.conjTranspose_apply] <;>
    simp <;> ring

/-- The phase damping channel is unital. -/
theorem phase_damping_unital (sg cg : ℝ) (hg : sg ^ 2 + cg ^ 2 = 1) :
    krausMap (fam2 (pdKraus (sg : ℂ) cg)) 1 = 1 := by
  have hg' : (sg : ℂ) ^ 2 + (cg : ℂ) ^ 2 = 1 := by exact_mod_cast hg
  rw [phase_damping_apply]
  ext i j
  fin_cases i <;> fin_cases j <;> simp
  linear_combination hg'

/-! ### bit flip -/

/-- The two Kraus operators of the bit-flip channel satisfy the completeness relation. -/
theorem bitflip_complete (s c : ℝ) (h : s ^ 2 + c ^ 2 = 1) :
    ∑ k, (fam2 (bfKraus (s : ℂ) c) k)ᴴ * fam2 (bfKraus (s : ℂ) c) k = 1 := by
  have h' : (s : ℂ) ^ 2 + (c : ℂ) ^ 2 = 1 := by exact_mod_cast h
  rw [fam2_bfKraus]
  show ∑ k : Fin 2, _ = _
  rw [Fin.sum_univ_two]
  ext i j
  fin_cases i <;> fin_cases j <;>
    simp [Matrix.mul_apply, Fin.sum_univ_two]
  · linear_combination h'
  · linear_combination h'

/-- The bit-flip channel is trace preserving. -/
theorem bitflip_tp (s c : ℝ) (h : s ^ 2 + c ^ 2 = 1) :
    IsTP (krausMap (fam2 (bfKraus (s : ℂ) c))) :=
  krausMap_tp_of_complete _ (bitflip_complete s c h)

/-- The bit-flip channel is `X ↦ (1-p)·X + p·σx X σx`. -/
theorem bitflip_apply (s c : ℝ) (X : Matrix (Fin 2) (Fin 2) ℂ) :
    krausMap (fam2 (bfKraus (s : ℂ) c)) X
      = ((c : ℂ) ^ 2) • X + ((s : ℂ) ^ 2) • ((!![0, 1; 1, 0] : Matrix (Fin 2) (Fin 2) ℂ) * X * !![0, 1; 1, 0]) := by
  rw [krausMap_apply', fam2_bfKraus]
  show ∑ k : Fin 2, _ = _
  rw [Fin.sum_univ_two]
  ext i j
  fin_cases i <;> fin_cases j <;>
    simp only [Matrix.add_apply, Matrix.smul_apply, Matrix.mul_apply, Fin.sum_univ_two, Matrix.conjTranspose_apply] <;>
    simp <;> ring

/-- The bit-flip channel is unital. -/
theorem bitflip_unital (s c : ℝ) (h : s ^ 2 + c ^ 2 = 1) :
    krausMap (fam2 (bfKraus (s : ℂ) c)) 1 = 1 := by
  have h' : (s : ℂ) ^ 2 + (c : ℂ) ^ 2 = 1 := by exact_mod_cast h
  rw [bitflip_apply]
  ext i j
  fin_cases i <;> fin_cases j <;>
    simp only [Matrix.add_apply, Matrix.smul_apply, Matrix.mul_apply, Fin.sum_univ_two] <;>
    simp
  · linear_combination h'
  · linear_combination h'

/-! ### Pauli matrices -/

/-- Each of the four Pauli matrices is Hermitian. -/
theorem pauli1_hermitian (s : Nat) : (toSq 2 (pauli1 Complex.I s))ᴴ = toSq 2 (pauli1 Complex.I s) := by
  rcases s with _ | _ | _ | s <;> simp only [pauli1, toSq_m22] <;>
    (ext i j; fin_cases i <;> fin_cases j <;> simp)

/-- Each of the four Pauli matrices is unitary. -/
theorem pauli1_unitary (s : Nat) : (toSq 2 (pauli1 Complex.I s))ᴴ * toSq 2 (pauli1 Complex.I s) = 1 := by
  rw [pauli1_hermitian]
  rcases s with _ | _ | _ | s <;> simp only [pauli1, toSq_m22] <;>
    (ext i j; fin_cases i <;> fin_cases j <;> simp [Matrix.mul_apply, Fin.sum_univ_two])

/-- Every Pauli string `σ_{i_0} ⊗ … ⊗ σ_{i_{q-1}}` is unitary (all `q`, all indices `j`). -/
theorem pauliString_unitary (q j : Nat) :
    (toSq (2 ^ q) (pauliString Complex.I q j))ᴴ * toSq (2 ^ q) (pauliString Complex.I q j) = 1 := by
  induction q generalizing j with
  | zero =>
    show (toSq 1 _)ᴴ * toSq 1 _ = 1
    ext a b
    obtain rfl : a = b := Subsingleton.elim a b
    simp [toSq, pauliString, prodFn, Matrix.mul_apply]
  | succ q ih =>
    show (toSq (2 ^ q * 2) _)ᴴ * toSq (2 ^ q * 2) _ = 1
    have e : toSq (2 ^ q * 2) (pauliString Complex.I (q + 1) j)
        = toSq (2 ^ q * 2) (fun a b => pauliString Complex.I q (j / 4) (a / 2) (b / 2)
            * pauli1 Complex.I (j % 4) (a % 2) (b % 2)) := by
      ext a b
      exact pauliString_succ _ _ _ _ _
    rw [e]
    exact toSq_kron_unitary _ _ _ _ (ih (j / 4)) (pauli1_unitary (j % 4))

/-- A mixed-unitary channel with Kraus operators `√p_k · U_k` (the list `pauli_channel(…, return_kraus_ops=True)`
    returns) is trace preserving, unital, and acts as `X ↦ Σ_k p_k U_k X U_kᴴ`. -/
theorem mixed_unitary_tp_unital {d r : Nat} (p : Fin r → ℝ) (U : Fin r → Matrix (Fin d) (Fin d) ℂ)
    (hU : ∀ k, (U k)ᴴ * U k = 1) (hU' : ∀ k, U k * (U k)ᴴ = 1) (hs : ∑ k, p k = 1) (hp : ∀ k, 0 ≤ p k) :
    IsTP (krausMap fun k => ((Real.sqrt (p k) : ℝ) : ℂ) • U k) ∧
    IsUnital (krausMap fun k => ((Real.sqrt (p k) : ℝ) : ℂ) • U k) ∧
    ∀ X, krausMap (fun k => ((Real.sqrt (p k) : ℝ) : ℂ) • U k) X = ∑ k, (p k : ℂ) • (U k * X * (U k)ᴴ) := by
  have hform : ∀ X, krausMap (fun k => ((Real.sqrt (p k) : ℝ) : ℂ) • U k) X
      = ∑ k, (p k : ℂ) • (U k * X * (U k)ᴴ) := by
    intro X
    rw [krausMap_apply']
    refine Finset.sum_congr rfl fun k _ => ?_
    rw [Matrix.conjTranspose_smul, Matrix.smul_mul, Matrix.smul_mul, Matrix.mul_smul, smul_smul]
    congr 1
    rw [Complex.star_def, Complex.conj_ofReal, ← Complex.ofReal_mul, Real.mul_self_sqrt (hp k)]
  have hs' : ∑ k, (p k : ℂ) = 1 := by rw [← Complex.ofReal_sum, hs, Complex.ofReal_one]
  refine ⟨?_, ?_, hform⟩
  · intro X
    rw [hform, Matrix.trace_sum]
    have : ∀ k, Matrix.trace ((p k : ℂ) • (U k * X * (U k)ᴴ)) = (p k : ℂ) * Matrix.trace X := by
      intro k
      rw [Matrix.trace_smul, Matrix.trace_mul_cycle, hU k, Matrix.one_mul, smul_eq_mul]
    simp only [this]
    rw [← Finset.sum_mul, hs', one_mul]
  · show krausMap _ 1 = 1
    rw [hform]
    have : ∀ k, (p k : ℂ) • (U k * 1 * (U k)ᴴ) = (p k : ℂ) • (1 : Matrix (Fin d) (Fin d) ℂ) := by
      intro k
      rw [Matrix.mul_one, hU' k]
    simp only [this]
    rw [← Finset.sum_smul, hs', one_smul]

/-- Pauli strings are unitary, other side: `P Pᴴ = 1`. -/
theorem pauliString_unitary_right (q j : Nat) :
    toSq (2 ^ q) (pauliString Complex.I q j) * (toSq (2 ^ q) (pauliString Complex.I q j))ᴴ = 1 :=
  mul_eq_one_comm.mp (pauliString_unitary q j)

/-- The Kraus list `[√p_j · P_j]` of `pauli_channel(prob, return_kraus_ops=True)` for a probability vector
    `prob` over the `4^q` Pauli strings is a trace-preserving, unital map acting as `X ↦ Σ_j p_j P_j X P_jᴴ`. -/
theorem pauli_channel_kraus_tp_unital (q : Nat) (p : Fin (4 ^ q) → ℝ) (hs : ∑ k, p k = 1) (hp : ∀ k, 0 ≤ p k) :
    IsTP (krausMap fun k : Fin (4 ^ q) => ((Real.sqrt (p k) : ℝ) : ℂ) • toSq (2 ^ q) (pauliString Complex.I q k)) ∧
    IsUnital (krausMap fun k : Fin (4 ^ q) => ((Real.sqrt (p k) : ℝ) : ℂ) • toSq (2 ^ q) (pauliString Complex.I q k)) ∧
    ∀ X, krausMap (fun k : Fin (4 ^ q) => ((Real.sqrt (p k) : ℝ) : ℂ) • toSq (2 ^ q) (pauliString Complex.I q k)) X
      = ∑ k : Fin (4 ^ q), (p k : ℂ) • (toSq (2 ^ q) (pauliString Complex.I q k) * X
          * (toSq (2 ^ q) (pauliString Complex.I q k))ᴴ) :=
  mixed_unitary_tp_unital p (fun k => toSq (2 ^ q) (pauliString Complex.I q k))
    (fun k => pauliString_unitary q k) (fun k => pauliString_unitary_right q k) hs hp

/-- The matrix accumulated by `pauli_channel` is the sum of the Choi matrices of the maps
    `X ↦ P_j X (P_jᴴ)ᴴ` weighted by `p_j`, i.e. the terms `prob[j] * kraus_to_choi([[P, P.conj().T]])`. -/
theorem pauliChoi_eq (q : Nat) (p : Nat → ℂ) :
    (Matrix.of fun (P Q : Fin (2 ^ q) × Fin (2 ^ q)) =>
        pauliChoi Complex.I q p (P.1.val * 2 ^ q + P.2.val) (Q.1.val * 2 ^ q + Q.2.val) : TMat (2 ^ q) (2 ^ q))
      = ∑ j : Fin (4 ^ q), p j • choi (pairMap (r := 1)
          (fun _ => toSq (2 ^ q) (pauliString Complex.I q j))
          (fun _ => (toSq (2 ^ q) (pauliString Complex.I q j))ᴴ)) := by
  ext ⟨i, a⟩ ⟨j', b⟩
  rw [Matrix.sum_apply]
  simp only [Matrix.of_apply, pauliChoi, Toq.ChannelOps.sumN_eq_sum_fin]
  refine Finset.sum_congr rfl fun j _ => ?_
  obtain ⟨h1, h2⟩ := Toq.ChannelOps.divmod_be i.val (2 ^ q) a.val a.isLt
  obtain ⟨h3, h4⟩ := Toq.ChannelOps.divmod_be j'.val (2 ^ q) b.val b.isLt
  rw [h1, h2, h3, h4, Matrix.smul_apply, smul_eq_mul]
  congr 1
  show _ = pairMap _ _ (Matrix.single i j' 1) a b
  rw [pairMap_apply', Fin.sum_univ_one, Matrix.conjTranspose_conjTranspose, Matrix.mul_apply]
  simp only [Matrix.mul_apply, Matrix.single_apply, toSq_apply]
  rw [Finset.sum_eq_single j' (fun x _ hx => by
        rw [Finset.sum_eq_zero (fun y _ => by rw [if_neg (fun h => hx h.2.symm), mul_zero]), zero_mul])
      (fun h => absurd (Finset.mem_univ _) h),
    Finset.sum_eq_single i (fun y _ hy => by rw [if_neg (fun h => hy h.1.symm), mul_zero])
      (fun h => absurd (Finset.mem_univ _) h),
    if_pos ⟨rfl, rfl⟩, mul_one]

/-! ### executable sanity checks -/

/-- index 6 of the two-qubit odometer is `X ⊗ Y` -/
example : pauliDigit 2 6 0 = 1 ∧ pauliDigit 2 6 1 = 2 := by decide

/-- index 1 of the two-qubit odometer is `I ⊗ X` -/
example : ∀ a b : Fin 4, pauliString (α := Int) 0 2 1 a b
    = ![![0, 1, 0, 0], ![1, 0, 0, 0], ![0, 0, 0, 1], ![0, 0, 1, 0]] a b := by decide

/-- index 12 of the two-qubit odometer is `Z ⊗ I` -/
example : ∀ a b : Fin 4, pauliString (α := Int) 0 2 12 a b
    = ![![1, 0, 0, 0], ![0, 1, 0, 0], ![0, 0, -1, 0], ![0, 0, 0, -1]] a b := by decide

end Toq.C06
end KrausConstructors

/-! ## ties between the driver's model functions and the specification -/
section Ties
open Toq.ChannelProps Toq.ChanPropSpec Matrix
namespace Toq.C06
open Toq.ChanPropProofs

/-- The Choi matrix that the driver forms from a paired Kraus list `[[A_1, B_1], …]` (`choiOfPairs`) is, entry by
    entry, the Choi matrix of the map `X ↦ Σ_k A_k X B_kᴴ`. -/
theorem choiOfPairs_eq_choi (as bs : List (Toq.ChannelOps.Mat QI)) (hl : as.length = bs.length) (di dO : Nat)
    (i j : Fin di) (a b : Fin dO) :
    (choiOfPairs as bs dO dO (i.val * dO + a.val) (j.val * dO + b.val)).toC
      = choi (pairMap (fun k : Fin as.length => matC di dO as[k])
          (fun k : Fin as.length => matC di dO (bs[k.val]'(hl ▸ k.isLt)))) (i, a) (j, b) := by
  rw [choi_pairMap_apply]
  unfold choiOfPairs
  rw [foldl_add_toC, QI.toC_zero, zero_add, List.map_map, pair_mod, pair_div, pair_mod, pair_div]
  rw [← sum_zip_eq_sum_fin (fun A B => matC di dO A a i * star (matC di dO B b j)) as bs hl]
  congr 1
  apply List.map_congr_left
  intro ab _
  simp only [Function.comp_apply, QI.toC_mul, QI.toC_conj, matC]
  rfl

/-- The exact Choi matrix that `choiOfArg` hands to the deciders denotes (through `toChoi`) the Choi matrix of the
    map `X ↦ Σ_k A_k X B_kᴴ` given by the Kraus pair list. -/
theorem choiOfArg_denotes (as bs : List (Toq.ChannelOps.Mat QI)) (hl : as.length = bs.length) (di dO : Nat) :
    toChoi (EMat.ofFn fun p q : Fin (di * dO) => choiOfPairs as bs dO dO p.val q.val)
      = choi (pairMap (fun k : Fin as.length => matC di dO as[k])
          (fun k : Fin as.length => matC di dO (bs[k.val]'(hl ▸ k.isLt)))) := by
  ext ⟨i, a⟩ ⟨j, b⟩
  rw [← choiOfPairs_eq_choi as bs hl di dO i j a b]
  simp only [toChoi, EMat.get_ofFn]
  rfl

/-- Evaluating a map from its Choi matrix entry by entry (`actOfChoi`) is the application of the linear map
    `ofChoi J` with that Choi matrix. -/
theorem actOfChoi_eq (J X : Nat → Nat → ℂ) (di dO : Nat) :
    toSq dO (actOfChoi J di dO X) = ofChoi (toT J : TMat di dO) (toSq di X) := by
  ext a b
  rw [ofChoi_apply]
  simp only [toSq, actOfChoi, Toq.ChannelOps.sumN_eq_sum_fin, toT]

/-- The entry-level generalised Choi map of the model is the map `choiMapSpec` of the specification. -/
theorem choiMapAct_eq_spec (a b c : ℂ) (X : Nat → Nat → ℂ) :
    toSq 3 (choiMapAct a b c X) = choiMapSpec a b c (toSq 3 X) := by
  ext s t
  fin_cases s <;> fin_cases t <;>
    simp [toSq, choiMapAct, choiMapSpec, Matrix.sub_apply]

end Toq.C06
end Ties

/-! ## end-to-end meaning of the deciders, corollaries for the constructors -/
section Combined
open Toq.ChannelProps Toq.ChanPropSpec Toq.ChanPropProofs Matrix
open scoped ComplexOrder
namespace Toq.C06
variable {di dO : Nat}

/-- **`Tr_out J = 1` decides trace preservation.**  If the exact matrix `J` denotes the Choi matrix of `Φ`,
    the exact test `tpDecide J` is `true` exactly when `tr Φ(X) = tr X` for every `X`. -/
theorem tpDecide_correct (Φ : LMap di dO) (J : EMat (di * dO) (di * dO)) (h : choi Φ = toChoi J) :
    tpDecide J = true ↔ IsTP Φ := by
  rw [tpDecide_iff, ← h, ← tp_iff_ptrace_choi]

/-- **`Tr_in J = 1` decides unitality.** -/
theorem unitalDecide_correct (Φ : LMap di dO) (J : EMat (di * dO) (di * dO)) (h : choi Φ = toChoi J) :
    unitalDecide J = true ↔ IsUnital Φ := by
  rw [unitalDecide_iff, ← h, ← unital_iff_ptrace_choi]

/-- **`J = Jᴴ` decides Hermiticity preservation.** -/
theorem hpDecide_correct (Φ : LMap di dO) (J : EMat (di * dO) (di * dO)) (h : choi Φ = toChoi J) :
    hpDecide J = true ↔ IsHP Φ := by
  rw [hpDecide_iff, ← h, ← hp_iff_choi_hermitian]

/-- **An accepted positive certificate proves complete positivity** (every amplification `id_n ⊗ Φ` is
    positive), by Choi's theorem. -/
theorem cpDecide_sound {k : Nat} (Φ : LMap di dO) (J : EMat (di * dO) (di * dO)) (L : EMat (di * dO) k)
    (h : choi Φ = toChoi J) : psdYes J L = true → IsCP Φ := by
  intro hc
  rw [cp_iff_choi_psd, h]
  exact psdYes_sound J L hc

/-- **An accepted negative witness refutes complete positivity.** -/
theorem cpRefute_sound (Φ : LMap di dO) (J : EMat (di * dO) (di * dO)) (v : EMat (di * dO) 1) (μ : Rat)
    (h : choi Φ = toChoi J) : negWitness J v μ = true → ¬ IsCP Φ := by
  intro hc hcp
  rw [cp_iff_choi_psd, h] at hcp
  exact negWitness_sound_choi J v μ hc hcp

/-- **Quantum channel.**  Positive certificate and exact `Tr_out J = 1` together prove that `Φ` is completely
    positive and trace preserving. -/
theorem channelDecide_sound {k : Nat} (Φ : LMap di dO) (J : EMat (di * dO) (di * dO)) (L : EMat (di * dO) k)
    (h : choi Φ = toChoi J) : psdYes J L = true → tpDecide J = true → IsChannel Φ :=
  fun h1 h2 => ⟨cpDecide_sound Φ J L h h1, (tpDecide_correct Φ J h).mp h2⟩

/-- **What `is_positive` accepts is positive.**  `is_positive` tests positive semidefiniteness of the Choi
    matrix; a map with positive semidefinite Choi matrix is completely positive, hence positive: the test never
    accepts a non-positive map, and it accepts every completely positive one (`cp_iff_choi_psd`). -/
theorem positive_of_choi_psd (Φ : LMap di dO) : (choi Φ).PosSemidef → IsPositive Φ :=
  fun h => cp_implies_positive Φ ((cp_iff_choi_psd Φ).mpr h)

/-- **Product-vector witness of non-positivity.**  For vectors `x`, `y`:
    `yᴴ Φ(x xᴴ) y = vᴴ J(Φ) v` with the product vector `v(i,a) = conj(x_i)·y_a`; so a negative value of the
    quadratic form of the Choi matrix at a product vector shows that `Φ` is not a positive map. -/
theorem not_positive_of_product_witness (Φ : LMap di dO) (x : Fin di → ℂ) (y : Fin dO → ℂ)
    (h : (star (fun p : Fin di × Fin dO => star (x p.1) * y p.2) ⬝ᵥ
          (choi Φ *ᵥ fun p : Fin di × Fin dO => star (x p.1) * y p.2)).re < 0) : ¬ IsPositive Φ := by
  intro hpos
  have hX : (Matrix.vecMulVec x (star x)).PosSemidef := Matrix.posSemidef_vecMulVec_self_star x
  have hq := (hpos _ hX).dotProduct_mulVec_nonneg y
  have key : star y ⬝ᵥ (Φ (Matrix.vecMulVec x (star x)) *ᵥ y)
      = star (fun p : Fin di × Fin dO => star (x p.1) * y p.2) ⬝ᵥ
          (choi Φ *ᵥ fun p : Fin di × Fin dO => star (x p.1) * y p.2) := by
    conv_lhs => rw [← choi_faithful Φ]
    simp only [dotProduct, Matrix.mulVec, ofChoi_apply, Matrix.vecMulVec_apply, Pi.star_apply,
      Fintype.sum_prod_type, Finset.mul_sum, Finset.sum_mul, star_mul', star_star]
    have s1 : ∀ (F : Fin dO → Fin dO → Fin di → Fin di → ℂ),
        ∑ a, ∑ b, ∑ i, ∑ j, F a b i j = ∑ i, ∑ a, ∑ j, ∑ b, F a b i j := by
      intro F
      calc ∑ a, ∑ b, ∑ i, ∑ j, F a b i j = ∑ a, ∑ i, ∑ b, ∑ j, F a b i j :=
            Finset.sum_congr rfl fun a _ => Finset.sum_comm
        _ = ∑ i, ∑ a, ∑ b, ∑ j, F a b i j := Finset.sum_comm
        _ = ∑ i, ∑ a, ∑ j, ∑ b, F a b i j :=
            Finset.sum_congr rfl fun i _ => Finset.sum_congr rfl fun a _ => Finset.sum_comm
    rw [s1]
    refine Finset.sum_congr rfl fun i _ => Finset.sum_congr rfl fun a _ =>
      Finset.sum_congr rfl fun j _ => Finset.sum_congr rfl fun b _ => ?_
    ring
  rw [key] at hq
  have := (Complex.nonneg_iff.mp hq).1
  linarith

/-- **Depolarizing channel.**  For every dimension and every `0 ≤ p ≤ 1` the map whose Choi matrix
    `depolarizing(d, p)` returns is a quantum channel (completely positive, trace preserving) and unital. -/
theorem depolarizing_channel (d : Nat) (p : ℝ) (h0 : 0 ≤ p) (h1 : p ≤ 1) :
    IsChannel (ofChoi (toT (depolChoi d (p : ℂ)) : TMat d d)) ∧ IsUnital (ofChoi (toT (depolChoi d (p : ℂ)) : TMat d d)) :=
  ⟨⟨(cp_iff_choi_psd _).mpr (by rw [choi_ofChoi]; exact depolarizing_choi_psd d p h0 h1), depolarizing_tp d p⟩,
    depolarizing_unital d p⟩

/-- **Dephasing channel.**  Same for `dephasing(d, p)`. -/
theorem dephasing_channel (d : Nat) (p : ℝ) (h0 : 0 ≤ p) (h1 : p ≤ 1) :
    IsChannel (ofChoi (toT (dephChoi d (p : ℂ)) : TMat d d)) ∧ IsUnital (ofChoi (toT (dephChoi d (p : ℂ)) : TMat d d)) :=
  ⟨⟨(cp_iff_choi_psd _).mpr (by rw [choi_ofChoi]; exact dephasing_choi_psd d p h0 h1), dephasing_tp d p⟩,
    dephasing_unital d p⟩

/-- **Reduction map: positive, not completely positive.**  For `1 ≤ k < d` the map `X ↦ k·tr(X)·1 - X` whose Choi
    matrix `reduction(d, k)` returns is positive but not completely positive (the maximally entangled vector
    is a negative direction of its Choi matrix). -/
theorem reduction_positive_not_cp (d : Nat) (hd : 0 < d) (k : ℝ) (hk : 1 ≤ k) (hkd : k < d) :
    IsPositive (ofChoi (toT (reductionChoi d (k : ℂ)) : TMat d d)) ∧ ¬ IsCP (ofChoi (toT (reductionChoi d (k : ℂ)) : TMat d d)) :=
  ⟨reduction_positive d k hk, fun h => reduction_not_cp d k hkd hd (by rw [cp_iff_choi_psd, choi_ofChoi] at h; exact h)⟩

/-- **Choi map: not completely positive** for `a < 2` (in particular the standard Choi map `choi(1,1,0)`). -/
theorem choiMap_not_completely_positive (a b c : ℝ) (ha : a < 2) :
    ¬ IsCP (ofChoi (toT (choiMapChoi (a : ℂ) b c) : TMat 3 3)) :=
  fun h => choiMap_not_cp a b c ha (by rw [cp_iff_choi_psd, choi_ofChoi] at h; exact h)

/-- **Kraus lists of the qubit constructors are channels.**  Any Kraus family with `Σ KᴴK = 1` (amplitude
    damping: `amplitude_damping_complete`, phase damping, bit flip) is a completely positive trace-preserving map. -/
theorem kraus_channel_of_complete {r : Nat} (K : Fin r → Matrix (Fin dO) (Fin di) ℂ)
    (h : ∑ k, (K k)ᴴ * K k = 1) : IsChannel (krausMap K) :=
  ⟨kraus_isCP K, krausMap_tp_of_complete K h⟩

/-- **The driver's direct-application formulas are the specification maps.**  The entrywise textbook actions
    evaluated by the driver (`depolAct`, `dephAct`, `reductionAct`, `choiMapAct`) are `depolSpec`, `dephSpec`,
    `reductionSpec`, `choiMapSpec`, hence (by the `…_apply` theorems) the maps of the returned Choi matrices. -/
theorem depolAct_eq_spec (d : Nat) (p : ℂ) (X : Nat → Nat → ℂ) :
    toSq d (depolAct d p X) = depolSpec d p (toSq d X) := by
  ext a b
  simp only [toSq_apply, depolAct, depolSpec, trN, delta, Matrix.add_apply, Matrix.smul_apply, Matrix.one_apply,
    smul_eq_mul, Matrix.trace, Matrix.diag, Toq.ChannelOps.sumN_eq_sum_fin, Fin.ext_iff]

/-- The entrywise dephasing formula of the driver is `dephSpec`. -/
theorem dephAct_eq_spec (d : Nat) (p : ℂ) (X : Nat → Nat → ℂ) :
    toSq d (dephAct p X) = dephSpec d p (toSq d X) := by
  ext a b
  simp only [toSq_apply, dephAct, dephSpec, diagPart, Matrix.add_apply, Matrix.smul_apply, Matrix.diagonal_apply,
    smul_eq_mul, Fin.ext_iff]

/-- The entrywise reduction-map formula of the driver is `reductionSpec`. -/
theorem reductionAct_eq_spec (d : Nat) (k : ℂ) (X : Nat → Nat → ℂ) :
    toSq d (reductionAct d k X) = reductionSpec d k (toSq d X) := by
  ext a b
  simp only [toSq_apply, reductionAct, reductionSpec, trN, delta, Matrix.sub_apply, Matrix.smul_apply, Matrix.one_apply,
    smul_eq_mul, Matrix.trace, Matrix.diag, Toq.ChannelOps.sumN_eq_sum_fin, Fin.ext_iff]

end Toq.C06
end Combined


/-! ## the exact rank oracle is Mathlib's rank (correctness of the elimination) -/
section ExactRank
open Toq.ChannelProps Toq.ChanPropSpec Toq.ChanPropProofs Matrix
namespace Toq.C06

/-- **The exact rank routine is correct.**  For every size and all exact rows, `rankQ r c M` (Gaussian elimination over
    `ℚ[i]`) equals Mathlib's `Matrix.rank` of the complex `r × c` matrix that the rows denote. -/
theorem rankQ_eq_rank (r c : Nat) (M : QM) : rankQ r c M = (qmToM r c M).rank :=
  Toq.Rank.rankFn_eq_rank r c M.get

/-- **The reported Choi rank is the Choi rank.**  If the exact matrix `c.J` denotes the Choi matrix of `Φ`, the field
    `rank` of the driver's report (the oracle for `choi_rank`, and the input of the unitarity verdict) equals
    `Matrix.rank (choi Φ)`. -/
theorem choiRank_exact {k : Nat} (c : ChoiForm) (Φ : LMap c.di c.dO) (L : Option (EMat (c.di * c.dO) k))
    (v : Option (EMat (c.di * c.dO) 1)) (h : choi Φ = toChoi c.J) : (report c L v).rank = (choi Φ).rank := by
  rw [h, rank_toChoi]
  show rankQ (c.di * c.dO) (c.di * c.dO) c.toQM = _
  rw [rankQ_eq_rank, qmToM_toQM]

/-- **Pivot columns: as many as the rank.** -/
theorem pivotCols_length (r c : Nat) (M : QM) : (pivotCols r c M).length = (qmToM r c M).rank :=
  Toq.Rank.pivotsFn_length r c M.get

/-- **Pivot columns are independent columns of the matrix**: every listed index is a column index, and the listed columns
    of the denoted complex matrix are linearly independent — with `pivotCols_length`, a basis of the column space.  These are
    the columns of the Choi matrix from which `extremalDecide` reads its basis `W_1 … W_r` of `span{K_i}`. -/
theorem pivotCols_linearIndependent (r c : Nat) (M : QM) :
    (∀ q ∈ pivotCols r c M, q < c) ∧
    LinearIndependent ℂ (fun t : Fin (pivotCols r c M).length => fun i : Fin r => (M.get i.val ((pivotCols r c M)[t.val])).toC) :=
  ⟨Toq.Rank.pivotsFn_lt r c M.get, Toq.Rank.pivotsFn_linearIndependent r c M.get⟩

/-- **The final test of the extremality procedures decides linear independence.**  `rankQ r c M = r` (for `extremalDecide`
    and `extremalAsCoded`: the `r²` flattened operators `W_kᴴ W_l` as rows, compared with `r²`) holds exactly when the `r`
    rows of the denoted complex matrix are linearly independent. -/
theorem rankQ_eq_rows_iff (r c : Nat) (M : QM) : rankQ r c M = r ↔ LinearIndependent ℂ (qmToM r c M).row := by
  rw [rankQ_eq_rank, Toq.Rank.linearIndependent_row_iff_rank]

/-- the routine on a concrete complex matrix: `[[1, i], [i, -1]]` has rank 1 and pivot column 0 -/
example : rankQ 2 2 #[#[⟨1, 0⟩, ⟨0, 1⟩], #[⟨0, 1⟩, ⟨-1, 0⟩]] = 1 ∧ pivotCols 2 2 #[#[⟨1, 0⟩, ⟨0, 1⟩], #[⟨0, 1⟩, ⟨-1, 0⟩]] = [0] := by
  decide +kernel

end Toq.C06
end ExactRank

/-! ## Choi's theorem on the extreme points of the set of channels; the extremality deciders -/
section Extremality
open Toq.ChannelProps Toq.ChanPropSpec Toq.ChanPropProofs Toq.Rank Matrix
open scoped ComplexOrder
namespace Toq.C06
variable {di dO r : Nat}

/-- The Choi matrix depends linearly on the map. -/
theorem choi_linear (a b : ℂ) (Φ Ψ : LMap di dO) : choi (a • Φ + b • Ψ) = a • choi Φ + b • choi Ψ := rfl

/-- A map is a channel (completely positive — every amplification positive — and trace preserving) iff its Choi matrix is
    positive semidefinite with `Tr_out J = 1`. -/
theorem isChannel_iff_choi (Φ : LMap di dO) : IsChannel Φ ↔ IsChoiChannel (choi Φ) := by
  unfold IsChannel IsChoiChannel
  rw [cp_iff_choi_psd, tp_iff_ptrace_choi]

/-- The channels form a convex set. -/
theorem channels_convex (Φ₀ Φ₁ : LMap di dO) (h0 : IsChannel Φ₀) (h1 : IsChannel Φ₁) (t : ℝ) (ht0 : 0 ≤ t) (ht1 : t ≤ 1) :
    IsChannel ((t : ℂ) • Φ₀ + ((1 - t : ℝ) : ℂ) • Φ₁) := by
  rw [isChannel_iff_choi] at h0 h1 ⊢
  rw [choi_linear]
  refine ⟨(h0.1.smul (Complex.zero_le_real.mpr ht0)).add (h1.1.smul (Complex.zero_le_real.mpr (sub_nonneg.mpr ht1))), ?_⟩
  have hlin : ∀ (a b : ℂ) (A B : TMat di dO), Toq.ChanPropSpec.ptraceOut (a • A + b • B)
      = a • Toq.ChanPropSpec.ptraceOut A + b • Toq.ChanPropSpec.ptraceOut B := by
    intro a b A B
    ext i j
    simp only [Toq.ChanPropSpec.ptraceOut, Matrix.add_apply, Matrix.smul_apply, smul_eq_mul, Finset.sum_add_distrib,
      Finset.mul_sum]
  rw [hlin, h0.2, h1.2, ← add_smul]
  push_cast
  rw [add_sub_cancel, one_smul]

/-- A map is an extreme point of the convex set of channels iff its Choi matrix is an extreme point of the convex set of
    Choi matrices of channels (positive semidefinite, `Tr_out J = 1`). -/
theorem isExtremeChannel_iff_choi (Φ : LMap di dO) : IsExtremeChannel Φ ↔ IsChoiExtreme (choi Φ) := by
  unfold IsExtremeChannel IsChoiExtreme
  rw [isChannel_iff_choi]
  refine and_congr_right fun _ => ⟨fun h J₀ J₁ t h0 h1 ht0 ht1 hc => ?_, fun h Φ₀ Φ₁ t h0 h1 ht0 ht1 hc => ?_⟩
  · have := h (ofChoi J₀) (ofChoi J₁) t (by rw [isChannel_iff_choi, choi_ofChoi]; exact h0)
      (by rw [isChannel_iff_choi, choi_ofChoi]; exact h1) ht0 ht1
      (choi_injective (by rw [choi_linear, choi_ofChoi, choi_ofChoi]; exact hc))
    constructor
    · rw [← this.1, choi_ofChoi]
    · rw [← this.2, choi_ofChoi]
  · have := h (choi Φ₀) (choi Φ₁) t ((isChannel_iff_choi Φ₀).mp h0) ((isChannel_iff_choi Φ₁).mp h1) ht0 ht1
      (by rw [hc, choi_linear])
    exact ⟨choi_injective this.1, choi_injective this.2⟩

/-- **Choi's theorem on extreme channels, basis form.**  Let `Φ` be a channel and `W_1 … W_r` linearly independent operators
    whose column-stacking vectors lie in the column space of the Choi matrix, `r` = the Choi rank (so they form a basis of the
    span of the Kraus operators of `Φ`).  Then `Φ` is an extreme point of the set of channels iff the `r²` operators
    `W_kᴴ W_l` are linearly independent. -/
theorem extreme_iff_basis_products_independent (Φ : LMap di dO) (hΦ : IsChannel Φ) (W : Fin r → Matrix (Fin dO) (Fin di) ℂ)
    (hLI : LinearIndependent ℂ W) (hcol : ∀ k, ∃ c, kvec (W k) = choi Φ *ᵥ c) (hr : (choi Φ).rank = r) :
    IsExtremeChannel Φ ↔ LinearIndependent ℂ (fun p : Fin r × Fin r => (W p.1)ᴴ * W p.2) := by
  rw [isExtremeChannel_iff_choi]
  choose c hc using hcol
  refine choiExtreme_iff_of_basis (choi Φ) ((isChannel_iff_choi Φ).mp hΦ) W hLI (Matrix.of fun p k => c k p) ?_ hr
  ext p k
  have := congrFun (hc k) p
  rw [Matrix.mul_apply]
  exact this

/-- **Choi's theorem on extreme channels (Choi 1975; Watrous, Thm 2.31).**  A channel `X ↦ Σ_k K_k X K_kᴴ` with linearly
    independent Kraus operators is an extreme point of the convex set of channels iff the `r²` operators `K_kᴴ K_l` are
    linearly independent. -/
theorem extreme_iff_kraus_products_independent (K : Fin r → Matrix (Fin dO) (Fin di) ℂ) (hLI : LinearIndependent ℂ K)
    (hTP : ∑ k, (K k)ᴴ * K k = 1) :
    IsExtremeChannel (krausMap K) ↔ LinearIndependent ℂ (fun p : Fin r × Fin r => (K p.1)ᴴ * K p.2) := by
  rw [isExtremeChannel_iff_choi, choi_krausMap_eq]
  exact choiExtreme_kraus_iff K hLI hTP

/-- Sufficiency needs no assumption on the Kraus operators: if the products `K_kᴴ K_l` of a trace-preserving Kraus family
    are linearly independent (which forces the `K_k` to be independent), the channel is extreme. -/
theorem extreme_of_products_independent (K : Fin r → Matrix (Fin dO) (Fin di) ℂ) (hTP : ∑ k, (K k)ᴴ * K k = 1)
    (h : LinearIndependent ℂ (fun p : Fin r × Fin r => (K p.1)ᴴ * K p.2)) : IsExtremeChannel (krausMap K) :=
  (extreme_iff_kraus_products_independent K (linearIndependent_of_products K h) hTP).mpr h

/-- A unitary channel is an extreme point of the set of channels. -/
theorem unitary_channel_extreme (Φ : LMap di di) (h : IsUnitaryChannel Φ) : IsExtremeChannel Φ := by
  obtain ⟨U, h1, _, hΦ⟩ := h
  have e : Φ = krausMap (one_fam U) := by
    apply LinearMap.ext; intro X; rw [hΦ, krausMap_one_fam]
  rcases Nat.eq_zero_or_pos di with rfl | hd
  · have hsub : ∀ Ψ Ψ' : LMap 0 0, Ψ = Ψ' := fun Ψ Ψ' => LinearMap.ext fun X => Subsingleton.elim _ _
    refine ⟨?_, fun Φ₀ Φ₁ _ _ _ _ _ _ => ⟨hsub _ _, hsub _ _⟩⟩
    rw [e]
    exact ⟨kraus_isCP _, krausMap_tp_of_complete _ (by rw [Fin.sum_univ_one]; exact h1)⟩
  · rw [e]
    have hTP : ∑ k, (one_fam U k)ᴴ * one_fam U k = 1 := by rw [Fin.sum_univ_one]; exact h1
    exact extreme_of_products_independent _ hTP (products_independent_of_single _ rfl hd hTP)

/-- **`extremalDecide` decides extremality.**  If the exact matrix `c.J` denotes the Choi matrix of a channel `Φ`, the
    executable test (pivot columns of `J` as a basis `W_1 … W_r` of the span of the Kraus operators, exact rank of the `r²`
    flattened products `W_kᴴ W_l` compared with `r²`) answers `true` exactly when `Φ` is an extreme point of the convex set of
    channels. -/
theorem extremalDecide_correct (c : ChoiForm) (Φ : LMap c.di c.dO) (h : choi Φ = toChoi c.J) (hΦ : IsChannel Φ) :
    extremalDecide c.di c.dO c.toQM = true ↔ IsExtremeChannel Φ := by
  rw [isExtremeChannel_iff_choi, h]
  exact extremalDecide_iff_choiExtreme c (h ▸ (isChannel_iff_choi Φ).mp hΦ)

/-- The field `extremal` of the driver's report is that decision. -/
theorem report_extremal_correct {k : Nat} (c : ChoiForm) (Φ : LMap c.di c.dO) (L : Option (EMat (c.di * c.dO) k))
    (v : Option (EMat (c.di * c.dO) 1)) (h : choi Φ = toChoi c.J) (hΦ : IsChannel Φ) :
    (report c L v).extremal = true ↔ IsExtremeChannel Φ :=
  extremalDecide_correct c Φ h hΦ

/-- **The procedure of `is_extremal` is right on linearly independent Kraus lists.**  For a list of exact operators that is
    linearly independent and satisfies `Σ KᴴK = 1` (input dimension at least one), `matrix_rank([K_iᴴ K_j]) == r²` — with the
    shortcut `True` for a single operator — answers `true` exactly when the channel is extreme. -/
theorem extremalAsCoded_correct (di dO : Nat) (Ks : List (Nat → Nat → QI)) (hd : 0 < di)
    (hLI : LinearIndependent ℂ (fun k : Fin Ks.length => fnToM dO di Ks[k]))
    (hTP : ∑ k : Fin Ks.length, (fnToM dO di Ks[k])ᴴ * fnToM dO di Ks[k] = 1) :
    extremalAsCoded di dO Ks = true ↔ IsExtremeChannel (krausMap fun k : Fin Ks.length => fnToM dO di Ks[k]) := by
  rw [isExtremeChannel_iff_choi, choi_krausMap_eq]
  exact extremalAsCoded_iff_choiExtreme di dO Ks hd hLI hTP

/-- **… and answers `false` on every linearly dependent list of two or more operators**, whether or not the channel is
    extreme (the known finding `c06-extremal-redundant-kraus`: e.g. the unitary channel written as `[3/5·U, 4/5·U]`). -/
theorem extremalAsCoded_dependent (di dO : Nat) (Ks : List (Nat → Nat → QI)) (hr : Ks.length ≠ 1)
    (hdep : ¬ LinearIndependent ℂ (fun k : Fin Ks.length => fnToM dO di Ks[k])) :
    extremalAsCoded di dO Ks = false :=
  extremalAsCoded_of_dependent di dO Ks hr hdep

/-! ### the deciders on concrete channels (non-vacuity) -/

/-- the identity channel on one qubit -/
private def JidE : EMat (2 * 2) (2 * 2) :=
  EMat.ofFn fun p q => if p.val / 2 = p.val % 2 ∧ q.val / 2 = q.val % 2 then 1 else 0
/-- the completely depolarizing channel on one qubit: `J = 1/2` -/
private def JdepE : EMat (2 * 2) (2 * 2) := EMat.ofFn fun p q => if p = q then ⟨1 / 2, 0⟩ else 0
/-- amplitude damping with `√γ = 3/5`, `√(1-γ) = 4/5`: `J = vec K₀ vec K₀ᴴ + vec K₁ vec K₁ᴴ`, `K₀ = diag(1, 4/5)`, `K₁ = (3/5)·E₀₁` -/
private def JadE : EMat (2 * 2) (2 * 2) :=
  EMat.ofFn fun p q =>
    match p.val, q.val with
    | 0, 0 => 1 | 0, 3 => ⟨4 / 5, 0⟩ | 3, 0 => ⟨4 / 5, 0⟩ | 3, 3 => ⟨16 / 25, 0⟩ | 2, 2 => ⟨9 / 25, 0⟩
    | _, _ => 0

/-- the identity channel is extreme -/
example : extremalDecide 2 2 (ChoiForm.toQM ⟨2, 2, JidE⟩) = true := by decide +kernel
/-- the completely depolarizing channel is not -/
example : extremalDecide 2 2 (ChoiForm.toQM ⟨2, 2, JdepE⟩) = false := by decide +kernel
/-- the amplitude damping channel is (it is trace preserving, of Choi rank two) -/
example : tpDecide (di := 2) (dO := 2) JadE = true ∧ rankQ 4 4 (ChoiForm.toQM ⟨2, 2, JadE⟩) = 2
    ∧ extremalDecide 2 2 (ChoiForm.toQM ⟨2, 2, JadE⟩) = true := by decide +kernel
/-- the identity channel on a one-dimensional space written as `[3/5, 4/5]`: `is_extremal`'s procedure says `false`, Choi's
    criterion on a basis says `true` -/
example : extremalAsCoded 1 1 [fun _ _ => ⟨3 / 5, 0⟩, fun _ _ => ⟨4 / 5, 0⟩] = false
    ∧ extremalDecide 1 1 (ChoiForm.toQM ⟨1, 1, EMat.ofFn fun _ _ => 1⟩) = true := by decide +kernel

end Toq.C06
end Extremality


/-! ## parameter ranges of the Choi-form constructors: exactly when the returned matrix is a channel -/
section Ranges
open Toq.ChannelProps Toq.ChanPropSpec Toq.ChanPropProofs Matrix
open scoped ComplexOrder
namespace Toq.C06

/-- **Depolarizing channel: the exact range.**  For `d ≥ 2` the matrix `depolarizing(d, p)` is positive semidefinite — the
    map is completely positive, hence (being trace preserving for every `p`) a channel — exactly for
    `-1/(d²-1) ≤ p ≤ 1`, written as `p ≤ 1 ∧ 0 ≤ 1 + p(d²-1)`. -/
theorem depolarizing_cp_iff (d : Nat) (hd : 2 ≤ d) (p : ℝ) :
    (toT (depolChoi d (p : ℂ)) : TMat d d).PosSemidef ↔ p ≤ 1 ∧ 0 ≤ 1 + p * ((d : ℝ) ^ 2 - 1) := by
  have hd0 : (0 : ℝ) < d := Nat.cast_pos.mpr (by omega)
  have hdc : (d : ℂ) ≠ 0 := Nat.cast_ne_zero.mpr (by omega)
  rw [toT_depol_eq]
  constructor
  · intro h
    constructor
    · -- a diagonal entry away from the support of ψ is (1-p)/d
      have h1 := h.diag_nonneg (i := ((⟨0, by omega⟩ : Fin d), (⟨1, by omega⟩ : Fin d)))
      have hne : ¬ ((⟨0, by omega⟩ : Fin d) = (⟨1, by omega⟩ : Fin d)) := by simp [Fin.ext_iff]
      simp only [Matrix.add_apply, Matrix.smul_apply, Matrix.one_apply_eq, vecMulVec_apply, maxEntVec, hne, if_false,
        smul_eq_mul, mul_one, mul_zero, add_zero, Pi.star_apply, star_zero] at h1
      have e : (1 - (p : ℂ)) / (d : ℂ) = (((1 - p) / d : ℝ) : ℂ) := by push_cast; rfl
      rw [e, Complex.zero_le_real] at h1
      have := (div_nonneg_iff.mp h1)
      rcases this with ⟨h2, _⟩ | ⟨_, h3⟩
      · linarith
      · linarith
    · have h2 := h.dotProduct_mulVec_nonneg (maxEntVec d)
      rw [quad_maxEnt_depol] at h2
      have e : (1 - (p : ℂ)) / (d : ℂ) * d + (p : ℂ) * ((d : ℂ) * d) = ((1 + p * ((d : ℝ) ^ 2 - 1) : ℝ) : ℂ) := by
        push_cast; field_simp; ring
      rw [e, Complex.zero_le_real] at h2
      exact h2
  · rintro ⟨h1, h2⟩
    have e : ((1 - (p : ℂ)) / (d : ℂ)) • (1 : TMat d d) + (p : ℂ) • vecMulVec (maxEntVec d) (star (maxEntVec d))
        = (((1 - p) / (d : ℝ) ^ 2 : ℝ) : ℂ) • ((d : ℂ) • (1 : TMat d d) - vecMulVec (maxEntVec d) (star (maxEntVec d)))
          + (((1 + p * ((d : ℝ) ^ 2 - 1)) / (d : ℝ) ^ 2 : ℝ) : ℂ) • vecMulVec (maxEntVec d) (star (maxEntVec d)) := by
      rw [smul_sub, smul_smul, sub_add_eq_add_sub, add_sub_assoc, ← sub_smul]
      congr 2
      · push_cast; field_simp
      · push_cast; field_simp; ring
    rw [e]
    refine ((smul_one_sub_maxEnt_psd d).smul ?_).add ((posSemidef_vecMulVec_self_star _).smul ?_)
    · exact Complex.zero_le_real.mpr (div_nonneg (sub_nonneg.mpr h1) (sq_nonneg _))
    · exact Complex.zero_le_real.mpr (div_nonneg h2 (sq_nonneg _))

/-- For `p > 1` (just outside the documented range) `depolarizing(d, p)`, `d ≥ 2`, is not completely positive. -/
theorem depolarizing_not_cp_of_gt_one (d : Nat) (hd : 2 ≤ d) (p : ℝ) (hp : 1 < p) :
    ¬ IsCP (ofChoi (toT (depolChoi d (p : ℂ)) : TMat d d)) := by
  rw [cp_iff_choi_psd, choi_ofChoi, depolarizing_cp_iff d hd]
  intro h; linarith [h.1]

/-- For `p > 1` the matrix `dephasing(d, p)`, `d ≥ 2`, is not positive semidefinite (the map is not completely positive):
    the vector `e₀₀ - e₁₁` has quadratic form `2(1-p) < 0`. -/
theorem dephasing_not_cp_of_gt_one (d : Nat) (hd : 2 ≤ d) (p : ℝ) (hp : 1 < p) :
    ¬ IsCP (ofChoi (toT (dephChoi d (p : ℂ)) : TMat d d)) := by
  rw [cp_iff_choi_psd, choi_ofChoi]
  intro h
  let i0 : Fin d := ⟨0, by omega⟩
  let i1 : Fin d := ⟨1, by omega⟩
  have hne : i0 ≠ i1 := by simp [i0, i1, Fin.ext_iff]
  -- the 2×2 principal submatrix on (0,0), (1,1) is [[1, p], [p, 1]]
  have hs := h.submatrix ![(i0, i0), (i1, i1)]
  have hq := hs.dotProduct_mulVec_nonneg ![1, -1]
  simp only [dotProduct, Matrix.mulVec, Fin.sum_univ_two, Matrix.submatrix_apply, Matrix.cons_val_zero,
    Matrix.cons_val_one, Pi.star_apply, toT, dephChoi, psi_idx, idx_inj] at hq
  simp only [hne, hne.symm, and_self, if_true, if_false] at hq
  have hr := (Complex.nonneg_iff.mp hq).1
  simp at hr
  linarith

end Toq.C06
end Ranges


/-! ## Pauli channels: agreement of the Choi and Kraus forms; remaining direct-application ties -/
section PauliExtra
open Toq.ChannelProps Toq.ChanPropSpec Toq.ChanPropProofs Matrix
open scoped Kronecker ComplexOrder
namespace Toq.C06

/-- Every Pauli string is Hermitian. -/
theorem pauliString_hermitian (q j : Nat) :
    (toSq (2 ^ q) (pauliString Complex.I q j))ᴴ = toSq (2 ^ q) (pauliString Complex.I q j) := by
  induction q generalizing j with
  | zero =>
    show (toSq 1 _)ᴴ = toSq 1 _
    ext a b
    obtain rfl : a = b := Subsingleton.elim a b
    simp [toSq, pauliString, prodFn]
  | succ q ih =>
    show (toSq (2 ^ q * 2) _)ᴴ = toSq (2 ^ q * 2) _
    have e : toSq (2 ^ q * 2) (pauliString Complex.I (q + 1) j)
        = toSq (2 ^ q * 2) (fun a b => pauliString Complex.I q (j / 4) (a / 2) (b / 2)
            * pauli1 Complex.I (j % 4) (a % 2) (b % 2)) := by
      ext a b
      exact pauliString_succ _ _ _ _ _
    rw [e]
    exact toSq_kron_hermitian _ _ _ _ (ih (j / 4)) (pauli1_hermitian (j % 4))

/-- **Choi and Kraus forms of `pauli_channel` agree.**  For non-negative weights the matrix accumulated by `pauli_channel`
    (`Σ_j p_j · kraus_to_choi([[P_j, P_jᴴ]])`) is the Choi matrix of the map with the returned Kraus list `[√p_j · P_j]`. -/
theorem pauliChoi_eq_choi_kraus (q : Nat) (p : Fin (4 ^ q) → ℝ) (hp : ∀ k, 0 ≤ p k) :
    (Matrix.of fun (P Q : Fin (2 ^ q) × Fin (2 ^ q)) =>
        pauliChoi Complex.I q (fun j => if h : j < 4 ^ q then ((p ⟨j, h⟩ : ℝ) : ℂ) else 0)
          (P.1.val * 2 ^ q + P.2.val) (Q.1.val * 2 ^ q + Q.2.val) : TMat (2 ^ q) (2 ^ q))
      = choi (krausMap fun k : Fin (4 ^ q) => ((Real.sqrt (p k) : ℝ) : ℂ) • toSq (2 ^ q) (pauliString Complex.I q k)) := by
  rw [pauliChoi_eq]
  ext ⟨i, a⟩ ⟨j, b⟩
  rw [choi_krausMap_apply, Matrix.sum_apply]
  refine Finset.sum_congr rfl fun k _ => ?_
  rw [dif_pos k.isLt, Matrix.smul_apply, choi_pairMap_apply, Fin.sum_univ_one, pauliString_hermitian, smul_eq_mul]
  simp only [Matrix.smul_apply, smul_eq_mul, star_mul', Complex.star_def, Complex.conj_ofReal]
  have hs : ((Real.sqrt (p k) : ℝ) : ℂ) * ((Real.sqrt (p k) : ℝ) : ℂ) = ((p k : ℝ) : ℂ) := by
    rw [← Complex.ofReal_mul, Real.mul_self_sqrt (hp k)]
  rw [← hs]
  ring

/-- **`pauli_channel` returns a unital channel, in every form.**  For a probability vector over the `4^q` Pauli strings the
    map whose Choi matrix `pauli_channel` returns is completely positive, trace preserving, unital, equals the map of the
    returned Kraus list `[√p_j · P_j]`, and acts as `X ↦ Σ_j p_j P_j X P_jᴴ` (the direct-application output). -/
theorem pauli_channel_channel (q : Nat) (p : Fin (4 ^ q) → ℝ) (hs : ∑ k, p k = 1) (hp : ∀ k, 0 ≤ p k) :
    let Φ := ofChoi (Matrix.of fun (P Q : Fin (2 ^ q) × Fin (2 ^ q)) =>
        pauliChoi Complex.I q (fun j => if h : j < 4 ^ q then ((p ⟨j, h⟩ : ℝ) : ℂ) else 0)
          (P.1.val * 2 ^ q + P.2.val) (Q.1.val * 2 ^ q + Q.2.val) : TMat (2 ^ q) (2 ^ q))
    Φ = krausMap (fun k : Fin (4 ^ q) => ((Real.sqrt (p k) : ℝ) : ℂ) • toSq (2 ^ q) (pauliString Complex.I q k)) ∧
    IsChannel Φ ∧ IsUnital Φ ∧
    ∀ X, Φ X = ∑ k : Fin (4 ^ q), (p k : ℂ) • (toSq (2 ^ q) (pauliString Complex.I q k) * X
          * (toSq (2 ^ q) (pauliString Complex.I q k))ᴴ) := by
  intro Φ
  have e : Φ = krausMap (fun k : Fin (4 ^ q) => ((Real.sqrt (p k) : ℝ) : ℂ) • toSq (2 ^ q) (pauliString Complex.I q k)) := by
    show ofChoi _ = _
    rw [pauliChoi_eq_choi_kraus q p hp, choi_faithful]
  obtain ⟨h1, h2, h3⟩ := pauli_channel_kraus_tp_unital q p hs hp
  refine ⟨e, ?_, ?_, ?_⟩
  · rw [e]; exact ⟨kraus_isCP _, h1⟩
  · rw [e]; exact h2
  · rw [e]; exact h3

/-- The driver's direct application formula `Σ_K K X Kᵀ` on the phase-damping list is the Kraus map. -/
theorem phase_damping_model_apply (sg cg : ℝ) (X : Nat → Nat → ℂ) (a b : Nat) (ha : a < 2) (hb : b < 2) :
    applyReal2 (pdKraus (sg : ℂ) cg) X a b
      = krausMap (fam2 (pdKraus (sg : ℂ) cg)) (toSq 2 X) ⟨a, ha⟩ ⟨b, hb⟩ := by
  rw [phase_damping_apply]
  have ha' : a = 0 ∨ a = 1 := by omega
  have hb' : b = 0 ∨ b = 1 := by omega
  rcases ha' with rfl | rfl <;> rcases hb' with rfl | rfl <;>
    simp [applyReal2, pdKraus, sumN, m22, toSq] <;> ring

/-- The driver's direct application formula on the bit-flip list is the Kraus map. -/
theorem bitflip_model_apply (s c : ℝ) (X : Nat → Nat → ℂ) (a b : Nat) (ha : a < 2) (hb : b < 2) :
    applyReal2 (bfKraus (s : ℂ) c) X a b
      = krausMap (fam2 (bfKraus (s : ℂ) c)) (toSq 2 X) ⟨a, ha⟩ ⟨b, hb⟩ := by
  have h : krausMap (fam2 (bfKraus (s : ℂ) c)) (toSq 2 X)
      = !![(c : ℂ) ^ 2 * X 0 0 + (s : ℂ) ^ 2 * X 1 1, (c : ℂ) ^ 2 * X 0 1 + (s : ℂ) ^ 2 * X 1 0;
           (c : ℂ) ^ 2 * X 1 0 + (s : ℂ) ^ 2 * X 0 1, (c : ℂ) ^ 2 * X 1 1 + (s : ℂ) ^ 2 * X 0 0] := by
    rw [krausMap_apply', fam2_bfKraus]
    show ∑ k : Fin 2, _ = _
    rw [Fin.sum_univ_two]
    ext i j
    fin_cases i <;> fin_cases j <;>
      simp only [Matrix.add_apply, Matrix.mul_apply, Fin.sum_univ_two, Matrix.conjTranspose_apply, toSq_apply] <;>
      simp <;> ring
  rw [h]
  have ha' : a = 0 ∨ a = 1 := by omega
  have hb' : b = 0 ∨ b = 1 := by omega
  rcases ha' with rfl | rfl <;> rcases hb' with rfl | rfl <;>
    simp [applyReal2, bfKraus, sumN, m22] <;> ring

end Toq.C06
end PauliExtra


/-! ## tolerance arithmetic: the exact mirror of `np.allclose` and the margin of the three-valued verdicts -/
section Tolerances
open Toq.ChannelProps Toq.ChanPropSpec Toq.ChanPropProofs Matrix
open scoped ComplexOrder
namespace Toq.C06
variable {di dO : Nat}

/-- **The mirror of `np.allclose` means `np.allclose`.**  For non-negative tolerances, `allcloseQ rtol atol A B` is `true`
    exactly when `|A_ij - B_ij| ≤ atol + rtol·|B_ij|` (complex moduli) holds in every entry of the denoted matrices. -/
theorem allclose_mirror {n m : Nat} (rtol atol : Rat) (hr : 0 ≤ rtol) (ha : 0 ≤ atol) (A B : EMat n m) :
    allcloseQ rtol atol A B = true ↔
      ∀ i j, ‖A.toM i j - B.toM i j‖ ≤ (atol : ℝ) + (rtol : ℝ) * ‖B.toM i j‖ :=
  allcloseQ_iff rtol atol hr ha A B

/-- The mirror of `is_trace_preserving(J, rtol, atol)`: `Tr_out J` is entrywise within `atol + rtol·δ_ij` of the identity. -/
theorem tpClose_iff (rtol atol : Rat) (hr : 0 ≤ rtol) (ha : 0 ≤ atol) (J : EMat (di * dO) (di * dO)) :
    tpClose rtol atol J = true ↔
      ∀ i j, ‖Toq.ChanPropSpec.ptraceOut (toChoi J) i j - (1 : Matrix (Fin di) (Fin di) ℂ) i j‖
        ≤ (atol : ℝ) + (rtol : ℝ) * ‖(1 : Matrix (Fin di) (Fin di) ℂ) i j‖ := by
  unfold tpClose
  rw [allcloseQ_iff rtol atol hr ha, toM_ptraceOut, EMat.toM_one]

/-- The mirror of `is_unital(J, rtol, atol)`: `Tr_in J = Φ(1)` is entrywise within `atol + rtol·δ_ab` of the identity. -/
theorem unitalClose_iff (rtol atol : Rat) (hr : 0 ≤ rtol) (ha : 0 ≤ atol) (J : EMat (di * dO) (di * dO)) :
    unitalClose rtol atol J = true ↔
      ∀ a b, ‖Toq.ChanPropSpec.ptraceIn (toChoi J) a b - (1 : Matrix (Fin dO) (Fin dO) ℂ) a b‖
        ≤ (atol : ℝ) + (rtol : ℝ) * ‖(1 : Matrix (Fin dO) (Fin dO) ℂ) a b‖ := by
  unfold unitalClose
  rw [allcloseQ_iff rtol atol hr ha, toM_ptraceIn, EMat.toM_one]

/-- The mirror of `is_herm_preserving(J, rtol, atol)`: `|J_pq - conj(J_qp)| ≤ atol + rtol·|J_qp|` for all `p, q`. -/
theorem hpClose_iff (rtol atol : Rat) (hr : 0 ≤ rtol) (ha : 0 ≤ atol) (J : EMat (di * dO) (di * dO)) :
    hpClose rtol atol J = true ↔
      ∀ p q, ‖J.toM p q - star (J.toM q p)‖ ≤ (atol : ℝ) + (rtol : ℝ) * ‖J.toM q p‖ := by
  unfold hpClose
  rw [allcloseQ_iff rtol atol hr ha, EMat.toM_ct]
  simp only [Matrix.conjTranspose_apply, norm_star]

/-- **A verdict `yes` is inside every tolerance**: if the exact decider finds the two sides equal, `np.allclose` holds for all
    non-negative `rtol`, `atol`. -/
theorem eqV_yes_imp_allclose {n m : Nat} (rtol atol : Rat) (hr : 0 ≤ rtol) (ha : 0 ≤ atol) (A B : EMat n m) :
    eqV A B = Verdict.yes → allcloseQ rtol atol A B = true :=
  fun h => allcloseQ_of_eq rtol atol hr ha A B ((eqV_yes_iff A B).mp h)

/-- **A verdict `no` is outside the tolerance**: if the exact decider finds the two sides apart by its margin
    `100·(1e-8 + 1e-5·scale)`, then `np.allclose` fails for every `rtol ≤ 1e-5`, `atol ≤ 1e-8` (in particular toqito's
    defaults).  Together with `eqV_yes_imp_allclose`: on every input on which the three-valued deciders answer `yes` or `no`, the
    tolerance test of `is_trace_preserving` / `is_unital` / `is_herm_preserving` evaluated exactly gives the same answer. -/
theorem eqV_no_imp_not_allclose {n m : Nat} (rtol atol : Rat) (hr0 : 0 ≤ rtol) (ha0 : 0 ≤ atol)
    (hr : rtol ≤ 1 / 100000) (ha : atol ≤ 1 / 100000000) (A B : EMat n m) :
    eqV A B = Verdict.no → allcloseQ rtol atol A B = false :=
  fun h => not_allcloseQ_of_farApart rtol atol hr0 ha0 hr ha A B (eqV_no A B h)

/-- The three verdicts about a Choi matrix agree with the exact mirrors of toqito's tolerance tests at the default
    tolerances whenever they are decided. -/
theorem verdicts_agree_with_default_tolerances (J : EMat (di * dO) (di * dO)) :
    (tpV J = Verdict.yes → tpClose (1 / 100000) (1 / 100000000) J = true) ∧
    (tpV J = Verdict.no → tpClose (1 / 100000) (1 / 100000000) J = false) ∧
    (unitalV J = Verdict.yes → unitalClose (1 / 100000) (1 / 100000000) J = true) ∧
    (unitalV J = Verdict.no → unitalClose (1 / 100000) (1 / 100000000) J = false) ∧
    (hpV J = Verdict.yes → hpClose (1 / 100000) (1 / 100000000) J = true) ∧
    (hpV J = Verdict.no → hpClose (1 / 100000) (1 / 100000000) J = false) := by
  have h1 : (0 : Rat) ≤ 1 / 100000 := by norm_num
  have h2 : (0 : Rat) ≤ 1 / 100000000 := by norm_num
  exact ⟨eqV_yes_imp_allclose _ _ h1 h2 _ _, eqV_no_imp_not_allclose _ _ h1 h2 le_rfl le_rfl _ _,
    eqV_yes_imp_allclose _ _ h1 h2 _ _, eqV_no_imp_not_allclose _ _ h1 h2 le_rfl le_rfl _ _,
    eqV_yes_imp_allclose _ _ h1 h2 _ _, eqV_no_imp_not_allclose _ _ h1 h2 le_rfl le_rfl _ _⟩

/-- **The eigenvalue test of `is_positive_semidefinite`.**  For a Hermitian matrix, `A + c·1 ⪰ 0` holds exactly when every
    eigenvalue is at least `-c` (the test `all(x >= -abs(atol) for x in evals)` with `c = |atol|`). -/
theorem psd_shift_iff_eigenvalues {n : Type*} [Fintype n] [DecidableEq n] {A : Matrix n n ℂ} (hA : A.IsHermitian) (c : ℝ) :
    (A + (c : ℂ) • (1 : Matrix n n ℂ)).PosSemidef ↔ ∀ i, -c ≤ hA.eigenvalues i := by
  obtain ⟨U, hU, hU', hAe⟩ : ∃ U : Matrix n n ℂ, U * Uᴴ = 1 ∧ Uᴴ * U = 1 ∧
      A = U * diagonal (fun i => (hA.eigenvalues i : ℂ)) * Uᴴ := by
    refine ⟨hA.eigenvectorUnitary, ?_, ?_, ?_⟩
    · rw [← star_eq_conjTranspose]; exact Unitary.coe_mul_star_self _
    · rw [← star_eq_conjTranspose]; exact Unitary.coe_star_mul_self _
    · have := hA.spectral_theorem
      rw [Unitary.conjStarAlgAut_apply] at this
      exact this
  have key : A + (c : ℂ) • (1 : Matrix n n ℂ) = U * diagonal (fun i => ((hA.eigenvalues i + c : ℝ) : ℂ)) * Uᴴ := by
    have hd : diagonal (fun i => ((hA.eigenvalues i + c : ℝ) : ℂ))
        = diagonal (fun i => (hA.eigenvalues i : ℂ)) + (c : ℂ) • (1 : Matrix n n ℂ) := by
      ext i j
      by_cases h : i = j
      · subst h; simp
      · simp [h]
    rw [hd, Matrix.mul_add, Matrix.add_mul, ← hAe, Matrix.mul_smul, Matrix.mul_one, Matrix.smul_mul, hU]
  have hdiag : (diagonal (fun i => ((hA.eigenvalues i + c : ℝ) : ℂ))).PosSemidef ↔ ∀ i, -c ≤ hA.eigenvalues i := by
    rw [posSemidef_diagonal_iff]
    refine forall_congr' fun i => ?_
    rw [Complex.zero_le_real]
    constructor <;> intro h <;> linarith
  rw [← hdiag, key]
  constructor
  · intro h
    have := h.conjTranspose_mul_mul_same U
    rwa [← Matrix.mul_assoc, ← Matrix.mul_assoc, hU', Matrix.one_mul, Matrix.mul_assoc, hU', Matrix.mul_one] at this
  · intro h
    exact h.mul_mul_conjTranspose_same U

/-- **`psdTolV = yes` means `is_positive_semidefinite` holds on the exact input**: the matrix is Hermitian and `J + |atol|·1 ⪰ 0`,
    i.e. every eigenvalue is `≥ -|atol|` (`psd_shift_iff_eigenvalues`). -/
theorem psdTolV_yes_imp {n k : Nat} (rtol atol : Rat) (J : EMat n n) (L : Option (EMat n k)) (c : Rat)
    (v : Option (EMat n 1)) (μ : Rat) :
    psdTolV rtol atol J L c v μ = Verdict.yes →
      J.toM.IsHermitian ∧ (J.toM + ((absQ atol : Rat) : ℂ) • (1 : Matrix (Fin n) (Fin n) ℂ)).PosSemidef := by
  unfold psdTolV
  split_ifs with h1 h2 h3 h4
  · simp
  · simp
  · intro _
    have hH : J.toM.IsHermitian := (isHermitian_iff J).mp (by simpa using h2)
    refine ⟨hH, ?_⟩
    cases L with
    | none => simp at h3
    | some L =>
      simp only [Bool.and_eq_true, decide_eq_true_eq] at h3
      obtain ⟨⟨hc0, hc⟩, hL⟩ := h3
      have hp := psdCert_sound _ L hL
      rw [EMat.toM_add, EMat.toM_scalar] at hp
      have hd : (0 : ℂ) ≤ (((absQ atol - c : Rat) : ℝ) : ℂ) := by
        rw [Complex.zero_le_real]; exact_mod_cast sub_nonneg.mpr hc
      have := hp.add (PosSemidef.one.smul hd)
      convert this using 1
      rw [add_assoc, ← add_smul]
      congr 2
      push_cast; ring
  · simp
  · simp

/-- **`psdTolV = no` means `is_positive_semidefinite` fails on the exact input**: the Hermiticity test fails, or the matrix is
    Hermitian and `J + |atol|·1` is not positive semidefinite, i.e. some eigenvalue is `< -|atol|`. -/
theorem psdTolV_no_imp {n k : Nat} (rtol atol : Rat) (J : EMat n n) (L : Option (EMat n k)) (c : Rat)
    (v : Option (EMat n 1)) (μ : Rat) :
    psdTolV rtol atol J L c v μ = Verdict.no →
      allcloseQ rtol atol J J.ct = false ∨
      (J.toM.IsHermitian ∧ ¬ (J.toM + ((absQ atol : Rat) : ℂ) • (1 : Matrix (Fin n) (Fin n) ℂ)).PosSemidef) := by
  unfold psdTolV
  split_ifs with h1 h2 h3 h4
  · intro _; left; simpa using h1
  · simp
  · simp
  · intro _
    right
    have hH : J.toM.IsHermitian := (isHermitian_iff J).mp (by simpa using h2)
    refine ⟨hH, ?_⟩
    cases v with
    | none => simp at h4
    | some v =>
      simp only [Bool.and_eq_true, decide_eq_true_eq] at h4
      obtain ⟨hμ, hw⟩ := h4
      have := (negWitness_sound J v μ hw).2 ((absQ atol : Rat) : ℝ) (by exact_mod_cast hμ)
      simpa using this
  · simp

end Toq.C06
end Tolerances


/-! ## the list branch of `is_trace_preserving` -/
section PairsTP
open Toq.ChannelProps Toq.ChanPropSpec Toq.ChanPropProofs Matrix
open scoped ComplexOrder
namespace Toq.C06

/-- **The list branch of `is_trace_preserving` computes `Σ_k A_kᴴ B_k`.**  For a paired list of exact `dO × di` operators the
    matrix `k_l.conj().T @ k_r` of the stacked operators (model: `sumAdjMul`) denotes `Σ_k A_kᴴ B_k`. -/
theorem sumAdjMul_denotes (as bs : List (Toq.ChannelOps.Mat QI)) (hl : as.length = bs.length) (di dO : Nat)
    (hr : ∀ A ∈ as, A.r = dO) :
    (sumAdjMul as bs di).toM
      = ∑ k : Fin as.length, (matC di dO as[k])ᴴ * matC di dO (bs[k.val]'(hl ▸ k.isLt)) := by
  ext i j
  rw [Matrix.sum_apply]
  simp only [sumAdjMul, EMat.toM_apply, EMat.get_ofFn]
  rw [foldl_add_toC, QI.toC_zero, zero_add, List.map_map]
  have hmap : ∀ ab ∈ as.zip bs, (QI.toC ∘ fun ab : Toq.ChannelOps.Mat QI × Toq.ChannelOps.Mat QI =>
        sumN ab.1.r fun a => (ab.1.e a i.val).conj * ab.2.e a j.val) ab
      = (fun ab : Toq.ChannelOps.Mat QI × Toq.ChannelOps.Mat QI => ((matC di dO ab.1)ᴴ * matC di dO ab.2) i j) ab := by
    intro ab hab
    have hA : ab.1.r = dO := hr _ (List.of_mem_zip hab).1
    simp only [Function.comp_apply]
    rw [hA, toC_sumN, Toq.ChannelOps.sumN_eq_sum_fin, Matrix.mul_apply]
    refine Finset.sum_congr rfl fun a _ => ?_
    rw [QI.toC_mul, QI.toC_conj]
    rfl
  rw [List.map_congr_left hmap]
  rw [sum_zip_eq_sum_fin (fun A B => ((matC di dO A)ᴴ * matC di dO B) i j) as bs hl]

/-- **`is_trace_preserving` on a paired list, exact test.**  `Σ_k A_kᴴ B_k = 1` exactly (the relation whose `allclose` version
    the code tests) holds iff the map `X ↦ Σ_k A_k X B_kᴴ` preserves the trace. -/
theorem tpPairs_correct (as bs : List (Toq.ChannelOps.Mat QI)) (hl : as.length = bs.length) (di dO : Nat)
    (hr : ∀ A ∈ as, A.r = dO) :
    (sumAdjMul as bs di).beq EMat.one = true ↔
      IsTP (pairMap (fun k : Fin as.length => matC di dO as[k])
        (fun k : Fin as.length => matC di dO (bs[k.val]'(hl ▸ k.isLt)))) := by
  rw [beq_iff, sumAdjMul_denotes as bs hl di dO hr, EMat.toM_one, pairMap_tp_iff]

/-- The mirror of `is_trace_preserving([[A, B], …], rtol, atol)`: every entry of `Σ_k A_kᴴ B_k` is within `atol + rtol·δ_ij` of the
    identity. -/
theorem tpPairsClose_iff (rtol atol : Rat) (hr0 : 0 ≤ rtol) (ha0 : 0 ≤ atol) (as bs : List (Toq.ChannelOps.Mat QI))
    (hl : as.length = bs.length) (di dO : Nat) (hr : ∀ A ∈ as, A.r = dO) :
    tpPairsClose rtol atol as bs di = true ↔
      ∀ i j, ‖(∑ k : Fin as.length, (matC di dO as[k])ᴴ * matC di dO (bs[k.val]'(hl ▸ k.isLt))) i j
          - (1 : Matrix (Fin di) (Fin di) ℂ) i j‖ ≤ (atol : ℝ) + (rtol : ℝ) * ‖(1 : Matrix (Fin di) (Fin di) ℂ) i j‖ := by
  unfold tpPairsClose
  rw [allcloseQ_iff rtol atol hr0 ha0, sumAdjMul_denotes as bs hl di dO hr, EMat.toM_one]

end Toq.C06
end PairsTP


/-! ## the notion of extreme point used above is Mathlib's -/
section ExtremePoints
open Toq.ChannelProps Toq.ChanPropSpec Toq.ChanPropProofs Matrix
open scoped ComplexOrder
namespace Toq.C06
variable {di dO : Nat}

/-- **`IsExtremeChannel` is Mathlib's notion of extreme point** of the set of channels inside the real vector space of linear
    maps. -/
theorem isExtremeChannel_iff_mem_extremePoints (Φ : LMap di dO) :
    IsExtremeChannel Φ ↔ Φ ∈ Set.extremePoints ℝ {Ψ : LMap di dO | IsChannel Ψ} := by
  have key : ∀ (a : ℝ) (Ψ : LMap di dO), a • Ψ = (a : ℂ) • Ψ := by
    intro a Ψ
    apply LinearMap.ext
    intro X
    ext i j
    simp [Complex.real_smul]
  rw [mem_extremePoints]
  unfold IsExtremeChannel
  refine and_congr_right fun _ => ⟨fun h Φ₀ h0 Φ₁ h1 hseg => ?_, fun h Φ₀ Φ₁ t h0 h1 ht0 ht1 hc => ?_⟩
  · obtain ⟨a, b, ha, hb, hab, hx⟩ := hseg
    have hb' : b = 1 - a := by linarith
    refine h Φ₀ Φ₁ a h0 h1 ha (by linarith) ?_
    rw [← hx, hb', key, key]
  · refine h Φ₀ h0 Φ₁ h1 ⟨t, 1 - t, ht0, by linarith, by ring, ?_⟩
    rw [hc, key, key]

end Toq.C06
end ExtremePoints


/-! ## dephasing: the exact parameter range -/
section DephRange
open Toq.ChannelProps Toq.ChanPropSpec Toq.ChanPropProofs Matrix
open scoped ComplexOrder
namespace Toq.C06

/-- **Dephasing channel: the exact range.**  For `d ≥ 2` the matrix `dephasing(d, p)` is positive semidefinite (the map, trace
    preserving and unital for every `p`, is a channel) exactly for `-1/(d-1) ≤ p ≤ 1`, written `p ≤ 1 ∧ 0 ≤ 1 + p(d-1)`. -/
theorem dephasing_cp_iff (d : Nat) (hd : 2 ≤ d) (p : ℝ) :
    (toT (dephChoi d (p : ℂ)) : TMat d d).PosSemidef ↔ p ≤ 1 ∧ 0 ≤ 1 + p * ((d : ℝ) - 1) := by
  have hd0 : (0 : ℝ) < d := Nat.cast_pos.mpr (by omega)
  have hdc : (d : ℂ) ≠ 0 := Nat.cast_ne_zero.mpr (by omega)
  constructor
  · intro h
    constructor
    · by_contra hp
      rw [not_le] at hp
      exact dephasing_not_cp_of_gt_one d hd p hp (by rw [cp_iff_choi_psd, choi_ofChoi]; exact h)
    · have h2 := h.dotProduct_mulVec_nonneg (maxEntVec d)
      rw [toT_deph_eq, star_maxEntVec] at h2
      have hq : maxEntVec d ⬝ᵥ (((1 - (p : ℂ)) • diagonal (fun q : Fin d × Fin d => maxEntVec d q * maxEntVec d q)
          + (p : ℂ) • vecMulVec (maxEntVec d) (maxEntVec d)) *ᵥ maxEntVec d)
          = (1 - (p : ℂ)) * d + (p : ℂ) * (d * d) := by
        have hin : ∀ P : Fin d × Fin d,
            ∑ Q, ((1 - (p : ℂ)) * diagonal (fun q : Fin d × Fin d => maxEntVec d q * maxEntVec d q) P Q
                + (p : ℂ) * (maxEntVec d P * maxEntVec d Q)) * maxEntVec d Q
              = ∑ j, ((1 - (p : ℂ)) * diagonal (fun q : Fin d × Fin d => maxEntVec d q * maxEntVec d q) P (j, j)
                + (p : ℂ) * (maxEntVec d P * maxEntVec d (j, j))) := by
          intro P
          rw [← sum_maxEnt (fun Q => (1 - (p : ℂ)) * diagonal (fun q : Fin d × Fin d => maxEntVec d q * maxEntVec d q) P Q
            + (p : ℂ) * (maxEntVec d P * maxEntVec d Q))]
          exact Finset.sum_congr rfl fun Q _ => mul_comm _ _
        simp only [dotProduct, Matrix.mulVec, Matrix.add_apply, Matrix.smul_apply, vecMulVec_apply, smul_eq_mul, hin]
        rw [sum_maxEnt]
        have h1 : ∀ i j : Fin d, ((1 - (p : ℂ)) * diagonal (fun q : Fin d × Fin d => maxEntVec d q * maxEntVec d q) (i, i) (j, j)
            + (p : ℂ) * (maxEntVec d (i, i) * maxEntVec d (j, j))) = (if i = j then (1 - (p : ℂ)) else 0) + p := by
          intro i j
          by_cases h : i = j
          · subst h; simp [maxEntVec]
          · have : ¬ ((i, i) : Fin d × Fin d) = (j, j) := fun e => h (Prod.ext_iff.mp e).1
            simp [maxEntVec, h]
        simp only [h1, Finset.sum_add_distrib, Finset.sum_ite_eq, Finset.mem_univ, if_true, Finset.sum_const, Finset.card_univ,
          Fintype.card_fin, nsmul_eq_mul]
        ring
      rw [hq] at h2
      have e : (1 - (p : ℂ)) * d + (p : ℂ) * ((d : ℂ) * d) = (((d : ℝ) * (1 + p * ((d : ℝ) - 1)) : ℝ) : ℂ) := by
        push_cast; ring
      rw [e, Complex.zero_le_real] at h2
      exact (mul_nonneg_iff_of_pos_left hd0).mp h2
  · rintro ⟨h1, h2⟩
    rw [toT_deph_eq]
    have e : (1 - (p : ℂ)) • diagonal (fun q : Fin d × Fin d => maxEntVec d q * maxEntVec d q)
          + (p : ℂ) • vecMulVec (maxEntVec d) (star (maxEntVec d))
        = (((1 - p) / (d : ℝ) : ℝ) : ℂ) • ((d : ℂ) • diagonal (fun q : Fin d × Fin d => maxEntVec d q * maxEntVec d q)
            - vecMulVec (maxEntVec d) (star (maxEntVec d)))
          + (((1 + p * ((d : ℝ) - 1)) / (d : ℝ) : ℝ) : ℂ) • vecMulVec (maxEntVec d) (star (maxEntVec d)) := by
      rw [smul_sub, smul_smul, sub_add_eq_add_sub, add_sub_assoc, ← sub_smul]
      congr 2
      · push_cast; field_simp
      · push_cast; field_simp; ring
    rw [e]
    refine ((smul_diag_sub_maxEnt_psd d).smul ?_).add ((posSemidef_vecMulVec_self_star _).smul ?_)
    · exact Complex.zero_le_real.mpr (div_nonneg (sub_nonneg.mpr h1) hd0.le)
    · exact Complex.zero_le_real.mpr (div_nonneg h2 hd0.le)

end Toq.C06
end DephRange


/-! ## qubit constructors over the whole documented parameter range; the guards -/
section ConstructorRanges
open Toq.ChannelProps Toq.ChanPropSpec Toq.ChanPropProofs Matrix
open scoped ComplexOrder
namespace Toq.C06

/-- **Generalized amplitude damping: a channel for every admissible parameter.**  For `0 ≤ γ ≤ 1` and `0 ≤ prob ≤ 1` the Kraus
    list returned by `amplitude_damping(None, γ, prob)` — entries built from `√prob`, `√(1-prob)`, `√γ`, `√(1-γ)` — is a
    completely positive trace-preserving map. -/
theorem amplitude_damping_channel (γ prob : ℝ) (hγ0 : 0 ≤ γ) (hγ1 : γ ≤ 1) (hp0 : 0 ≤ prob) (hp1 : prob ≤ 1) :
    IsChannel (krausMap (fam2 (adKraus ((Real.sqrt prob : ℝ) : ℂ) (Real.sqrt (1 - prob) : ℝ)
      (Real.sqrt γ : ℝ) (Real.sqrt (1 - γ) : ℝ)))) := by
  refine kraus_channel_of_complete _ (amplitude_damping_complete _ _ _ _ ?_ ?_)
  · rw [Real.sq_sqrt hp0, Real.sq_sqrt (sub_nonneg.mpr hp1)]; ring
  · rw [Real.sq_sqrt hγ0, Real.sq_sqrt (sub_nonneg.mpr hγ1)]; ring

/-- **Phase damping: a unital channel for every `0 ≤ γ ≤ 1`.** -/
theorem phase_damping_channel (γ : ℝ) (hγ0 : 0 ≤ γ) (hγ1 : γ ≤ 1) :
    IsChannel (krausMap (fam2 (pdKraus ((Real.sqrt γ : ℝ) : ℂ) (Real.sqrt (1 - γ) : ℝ)))) ∧
    IsUnital (krausMap (fam2 (pdKraus ((Real.sqrt γ : ℝ) : ℂ) (Real.sqrt (1 - γ) : ℝ)))) := by
  have h : Real.sqrt γ ^ 2 + Real.sqrt (1 - γ) ^ 2 = 1 := by
    rw [Real.sq_sqrt hγ0, Real.sq_sqrt (sub_nonneg.mpr hγ1)]; ring
  exact ⟨kraus_channel_of_complete _ (phase_damping_complete _ _ h), phase_damping_unital _ _ h⟩

/-- **Bit flip: a unital channel for every `0 ≤ prob ≤ 1`**, acting as `X ↦ (1-prob)·X + prob·σx X σx`. -/
theorem bitflip_channel (prob : ℝ) (hp0 : 0 ≤ prob) (hp1 : prob ≤ 1) :
    IsChannel (krausMap (fam2 (bfKraus ((Real.sqrt prob : ℝ) : ℂ) (Real.sqrt (1 - prob) : ℝ)))) ∧
    IsUnital (krausMap (fam2 (bfKraus ((Real.sqrt prob : ℝ) : ℂ) (Real.sqrt (1 - prob) : ℝ)))) ∧
    ∀ X, krausMap (fam2 (bfKraus ((Real.sqrt prob : ℝ) : ℂ) (Real.sqrt (1 - prob) : ℝ))) X
      = ((1 - prob : ℝ) : ℂ) • X + (prob : ℂ) • ((!![0, 1; 1, 0] : Matrix (Fin 2) (Fin 2) ℂ) * X * !![0, 1; 1, 0]) := by
  have h : Real.sqrt prob ^ 2 + Real.sqrt (1 - prob) ^ 2 = 1 := by
    rw [Real.sq_sqrt hp0, Real.sq_sqrt (sub_nonneg.mpr hp1)]; ring
  refine ⟨kraus_channel_of_complete _ (bitflip_complete _ _ h), bitflip_unital _ _ h, fun X => ?_⟩
  rw [bitflip_apply]
  have e1 : ((Real.sqrt (1 - prob) : ℝ) : ℂ) ^ 2 = ((1 - prob : ℝ) : ℂ) := by
    rw [← Complex.ofReal_pow, Real.sq_sqrt (sub_nonneg.mpr hp1)]
  have e2 : ((Real.sqrt prob : ℝ) : ℂ) ^ 2 = (prob : ℂ) := by
    rw [← Complex.ofReal_pow, Real.sq_sqrt hp0]
  rw [e1, e2]

/-- The parameter guard of `amplitude_damping` accepts exactly the documented ranges (and a `2 × 2` input when one is given). -/
theorem adGuard_ok_iff (gamma prob : Rat) (shape : Option (Nat × Nat)) :
    adGuard gamma prob shape = Guard.ok ↔
      (0 ≤ prob ∧ prob ≤ 1) ∧ (0 ≤ gamma ∧ gamma ≤ 1) ∧ (shape = none ∨ shape = some (2, 2)) := by
  unfold adGuard inUnit
  by_cases h1 : 0 ≤ prob ∧ prob ≤ 1
  · by_cases h2 : 0 ≤ gamma ∧ gamma ≤ 1
    · cases shape with
      | none => simp [h1, h2]
      | some s => by_cases h3 : s = (2, 2) <;> simp [h1, h2, h3]
    · have : ¬ (decide (0 ≤ gamma) && decide (gamma ≤ 1)) = true := by simpa using h2
      simp [h1, h2, this]
  · have : ¬ (decide (0 ≤ prob) && decide (prob ≤ 1)) = true := by simpa using h1
    simp [this]
    intro a b; exact absurd ⟨a, b⟩ h1

/-- The parameter guard of `phase_damping` accepts exactly `0 ≤ γ ≤ 1` (and a `2 × 2` input when one is given). -/
theorem pdGuard_ok_iff (gamma : Rat) (shape : Option (Nat × Nat)) :
    pdGuard gamma shape = Guard.ok ↔ (0 ≤ gamma ∧ gamma ≤ 1) ∧ (shape = none ∨ shape = some (2, 2)) := by
  unfold pdGuard inUnit
  by_cases h2 : 0 ≤ gamma ∧ gamma ≤ 1
  · cases shape with
    | none => simp [h2]
    | some s => by_cases h3 : s = (2, 2) <;> simp [h2, h3]
  · have : ¬ (decide (0 ≤ gamma) && decide (gamma ≤ 1)) = true := by simpa using h2
    simp [h2, this]

/-- The parameter guard of `bitflip` accepts exactly `0 ≤ prob ≤ 1` (and a `2 × 2` input when one is given). -/
theorem bfGuard_ok_iff (prob : Rat) (shape : Option (Nat × Nat)) :
    bfGuard prob shape = Guard.ok ↔ (0 ≤ prob ∧ prob ≤ 1) ∧ (shape = none ∨ shape = some (2, 2)) := by
  unfold bfGuard inUnit
  by_cases h2 : 0 ≤ prob ∧ prob ≤ 1
  · cases shape with
    | none => simp [h2]
    | some s => by_cases h3 : s = (2, 2) <;> simp [h2, h3]
  · have : ¬ (decide (0 ≤ prob) && decide (prob ≤ 1)) = true := by simpa using h2
    simp [h2, this]

/-- The guard of `pauli_channel` accepts only probability vectors (no negative entry, sum exactly one) whose length is a power
    of four. -/
theorem pauliGuard_ok_imp (p : List Rat) (h : pauliGuard p = Guard.ok) :
    (∀ x ∈ p, 0 ≤ x) ∧ p.foldl (· + ·) 0 = 1 ∧ ∃ q, 4 ^ q = p.length := by
  unfold pauliGuard at h
  dsimp only at h
  by_cases h1 : (p.any (· < 0)) = true
  · rw [if_pos h1] at h; exact absurd h (by decide)
  rw [if_neg h1] at h
  by_cases h2 : tolOf 1 ≤ (if p.foldl (· + ·) 0 < 1 then 1 - p.foldl (· + ·) 0 else p.foldl (· + ·) 0 - 1)
  · rw [if_pos h2] at h; exact absurd h (by decide)
  rw [if_neg h2] at h
  by_cases h3 : ((if p.foldl (· + ·) 0 < 1 then 1 - p.foldl (· + ·) 0 else p.foldl (· + ·) 0 - 1) != 0) = true
  · rw [if_pos h3] at h; exact absurd h (by decide)
  rw [if_neg h3] at h
  have hneg : ∀ x ∈ p, 0 ≤ x := by
    intro x hx
    by_contra hc
    exact h1 (List.any_eq_true.mpr ⟨x, hx, by simpa using hc⟩)
  have hsum : p.foldl (· + ·) 0 = 1 := by
    have h3' : (if p.foldl (· + ·) 0 < 1 then 1 - p.foldl (· + ·) 0 else p.foldl (· + ·) 0 - 1) = 0 := by
      simpa using h3
    split_ifs at h3' with hlt
    · linarith
    · linarith
  refine ⟨hneg, hsum, ?_⟩
  cases hq : log4? p.length with
  | none => rw [hq] at h; exact absurd h (by decide)
  | some q =>
    unfold log4? at hq
    have := List.find?_some hq
    exact ⟨q, by simpa using this⟩

end Toq.C06
end ConstructorRanges


/-! ## the unitarity verdict, end to end -/
section UnitaryDecider
open Toq.ChannelProps Toq.ChanPropSpec Toq.ChanPropProofs Matrix
open scoped ComplexOrder
namespace Toq.C06

/-- The Choi matrix of a unitary channel on a non-trivial space has rank one and trace `d`. -/
theorem unitary_choi_rank_trace {d : Nat} (hd : 0 < d) (Φ : LMap d d) (h : IsUnitaryChannel Φ) :
    (choi Φ).rank = 1 ∧ (choi Φ).trace = (d : ℂ) := by
  obtain ⟨U, hU, hJ⟩ := (unitary_iff_choi Φ).mp h
  have htr : (choi Φ).trace = (d : ℂ) := by
    rw [hJ, Matrix.trace_vecMulVec]
    have e : kvec U ⬝ᵥ star (kvec U) = Matrix.trace (Uᴴ * U) := by
      simp only [dotProduct, kvec, Pi.star_apply, Matrix.trace, Matrix.diag_apply, Matrix.mul_apply,
        Matrix.conjTranspose_apply, Fintype.sum_prod_type]
      refine Finset.sum_congr rfl fun i _ => Finset.sum_congr rfl fun a _ => mul_comm _ _
    rw [e, hU, Matrix.trace_one, Fintype.card_fin]
  refine ⟨?_, htr⟩
  have hle : (choi Φ).rank ≤ 1 := by rw [hJ]; exact Matrix.rank_vecMulVec_le _ _
  have hne : (choi Φ).rank ≠ 0 := by
    intro h0
    have := eq_zero_of_rank_eq_zero _ h0
    rw [this, Matrix.trace_zero] at htr
    have : (d : ℂ) ≠ 0 := Nat.cast_ne_zero.mpr hd.ne'
    exact this htr.symm
  omega

/-- **The unitarity verdict `yes` is sound.**  If the exact matrix `J` denotes the Choi matrix of `Φ` and the verdict computed
    from the exact rank is `yes` (rank one, Hermitian, positive trace, `Tr_out J = 1`), then `Φ(X) = U X Uᴴ` for a unitary `U`. -/
theorem unitaryV_yes_sound (d : Nat) (J : EMat (d * d) (d * d)) (Φ : LMap d d) (h : choi Φ = toChoi J) :
    unitaryV ⟨d, d, J⟩ (rankQ (d * d) (d * d) (ChoiForm.toQM ⟨d, d, J⟩)) = Verdict.yes → IsUnitaryChannel Φ := by
  intro hv
  unfold unitaryV at hv
  simp only [bne_self_eq_false, Bool.false_eq_true, if_false] at hv
  have hrk : rankQ (d * d) (d * d) (ChoiForm.toQM ⟨d, d, J⟩) = (choi Φ).rank := by
    rw [h, rank_toChoi, rankQ_eq_rank]
    exact congrArg Matrix.rank (qmToM_toQM ⟨d, d, J⟩)
  by_cases h1 : (rankQ (d * d) (d * d) (ChoiForm.toQM ⟨d, d, J⟩) != 1) = true
  · rw [if_pos h1] at hv; exact absurd hv (by decide)
  rw [if_neg h1] at hv
  cases hH : hpV J with
  | no => rw [hH] at hv; dsimp only at hv; exact absurd hv (by decide)
  | unknown => rw [hH] at hv; dsimp only at hv; exact absurd hv (by decide)
  | yes =>
    rw [hH] at hv
    dsimp only at hv
    by_cases h2 : (J.trace).re ≤ 0
    · rw [if_pos h2] at hv; exact absurd hv (by decide)
    rw [if_neg h2] at hv
    have hr1 : (choi Φ).rank = 1 := by
      rw [← hrk]; simpa using h1
    have hHerm : (choi Φ).IsHermitian := by rw [h]; exact (hpV_yes_iff J).mp hH
    have htp : IsTP Φ := by rw [tp_iff_ptrace_choi, h]; exact (tpV_yes_iff J).mp hv
    have htr : 0 < (choi Φ).trace.re := by
      have e : (choi Φ).trace = J.toM.trace := by
        rw [h, toChoi_eq_submatrix]
        simp only [Matrix.trace, Matrix.diag_apply, Matrix.submatrix_apply]
        exact Equiv.sum_comp finProdFinEquiv (fun p => J.toM p p)
      rw [e, ← EMat.re_trace]
      have : (0 : Rat) < (J.trace).re := not_le.mp h2
      exact_mod_cast this
    obtain ⟨v, hvv⟩ := hermitian_rank_one_eq (choi Φ) hHerm hr1 htr
    exact unitary_of_rank_one_tp Φ (Matrix.of fun a i => v (i, a)) (by rw [hvv]; rfl) htp

/-- **The unitarity verdict `no` is sound** (spaces of dimension at least one): a map judged `no` — Choi rank different from one,
    Choi matrix not Hermitian, non-positive trace, or `Tr_out J ≠ 1` — is not a unitary channel. -/
theorem unitaryV_no_sound (d : Nat) (hd : 0 < d) (J : EMat (d * d) (d * d)) (Φ : LMap d d) (h : choi Φ = toChoi J) :
    unitaryV ⟨d, d, J⟩ (rankQ (d * d) (d * d) (ChoiForm.toQM ⟨d, d, J⟩)) = Verdict.no → ¬ IsUnitaryChannel Φ := by
  intro hv hU
  obtain ⟨hr1, htrd⟩ := unitary_choi_rank_trace hd Φ hU
  obtain ⟨hcp, htp, _⟩ := unitary_channel Φ hU
  unfold unitaryV at hv
  simp only [bne_self_eq_false, Bool.false_eq_true, if_false] at hv
  have hrk : rankQ (d * d) (d * d) (ChoiForm.toQM ⟨d, d, J⟩) = (choi Φ).rank := by
    rw [h, rank_toChoi, rankQ_eq_rank]
    exact congrArg Matrix.rank (qmToM_toQM ⟨d, d, J⟩)
  rw [hrk, hr1] at hv
  simp only [bne_self_eq_false, Bool.false_eq_true, if_false] at hv
  have hHerm : (toChoi J).IsHermitian := by rw [← h]; exact ((cp_iff_choi_psd Φ).mp hcp).isHermitian
  have hHy : hpV J = Verdict.yes := (hpV_yes_iff J).mpr hHerm
  rw [hHy] at hv
  simp only at hv
  have htr : ¬ (J.trace).re ≤ 0 := by
    have e : (choi Φ).trace = J.toM.trace := by
      rw [h, toChoi_eq_submatrix]
      simp only [Matrix.trace, Matrix.diag_apply, Matrix.submatrix_apply]
      exact Equiv.sum_comp finProdFinEquiv (fun p => J.toM p p)
    have h1 : (((J.trace).re : Rat) : ℝ) = (d : ℝ) := by
      rw [EMat.re_trace, ← e, htrd]; simp
    intro hle
    have : (((J.trace).re : Rat) : ℝ) ≤ 0 := by exact_mod_cast hle
    rw [h1] at this
    have : (0 : ℝ) < d := Nat.cast_pos.mpr hd
    linarith
  rw [if_neg htr] at hv
  exact tpV_no_imp J hv (by rw [← h]; exact (tp_iff_ptrace_choi Φ).mp htp)

end Toq.C06
end UnitaryDecider


/-! ## amplitude damping is extreme; `is_extremal` on the list `amplitude_damping` returns -/
section ADExtreme
open Toq.ChannelProps Toq.ChanPropSpec Toq.ChanPropProofs Matrix
open scoped ComplexOrder
namespace Toq.C06

/-- **The amplitude damping channel is an extreme channel** for every damping rate `γ = s² > 0` (`s² + c² = 1`):
    the four products `K_kᴴ K_l` of `K₀ = diag(1, c)`, `K₁ = s·E₀₁` are `diag(1, c²)`, `s·E₀₁`, `s·E₁₀`, `s²·E₁₁`. -/
theorem amplitude_damping_extreme (sg cg : ℝ) (h : sg ^ 2 + cg ^ 2 = 1) (hs : sg ≠ 0) :
    IsExtremeChannel (krausMap (adPair (sg : ℂ) cg)) := by
  have h' : (sg : ℂ) ^ 2 + (cg : ℂ) ^ 2 = 1 := by exact_mod_cast h
  have hs' : (sg : ℂ) ≠ 0 := Complex.ofReal_ne_zero.mpr hs
  have hTP : ∑ k, (adPair (sg : ℂ) cg k)ᴴ * adPair (sg : ℂ) cg k = 1 := by
    rw [Fin.sum_univ_two]
    ext i j
    fin_cases i <;> fin_cases j <;> simp [adPair, Matrix.mul_apply, Fin.sum_univ_two]
    linear_combination h'
  refine extreme_of_products_independent _ hTP ?_
  rw [Fintype.linearIndependent_iff]
  intro g hg
  rw [Fintype.sum_prod_type, Fin.sum_univ_two, Fin.sum_univ_two, Fin.sum_univ_two] at hg
  have e00 := congrFun (congrFun hg 0) 0
  have e01 := congrFun (congrFun hg 0) 1
  have e10 := congrFun (congrFun hg 1) 0
  have e11 := congrFun (congrFun hg 1) 1
  simp [adPair, Matrix.mul_apply, Fin.sum_univ_two] at e00 e01 e10 e11
  have g00 : g (0, 0) = 0 := e00
  have g01 : g (0, 1) = 0 := by
    rcases e01 with h | h
    · exact h
    · exact absurd h hs
  have g10 : g (1, 0) = 0 := by
    rcases e10 with h | h
    · exact h
    · exact absurd h hs
  have g11 : g (1, 1) = 0 := by
    rw [g00] at e11
    simp at e11
    rcases e11 with h | h
    · exact h
    · exact absurd h hs
  rintro ⟨a, b⟩
  fin_cases a <;> fin_cases b <;> assumption

/-- With `prob = 1` the list returned by `amplitude_damping` is `K₀, K₁` followed by two zero operators: the same map. -/
theorem amplitude_damping_standard_eq_pair (sg cg : ℂ) :
    krausMap (fam2 (adKraus (1 : ℂ) 0 sg cg)) = krausMap (adPair sg cg) := by
  apply LinearMap.ext
  intro X
  rw [krausMap_apply', krausMap_apply', fam2_adKraus]
  show ∑ k : Fin 4, _ = _
  rw [Fin.sum_univ_four, Fin.sum_univ_two]
  ext i j
  fin_cases i <;> fin_cases j <;>
    simp only [adPair, Matrix.add_apply, Matrix.mul_apply, Fin.sum_univ_two, Matrix.conjTranspose_apply] <;>
    simp

/-- **The known finding, for every damping amplitude.**  On the four-element list that `amplitude_damping(None, γ, 1)` itself
    returns (two of its operators vanish) the procedure of `is_extremal` answers `false`, although the channel is extreme for every
    `γ > 0` (`amplitude_damping_extreme`, `amplitude_damping_standard_eq_pair`). -/
theorem amplitude_damping_list_answered_false (s c : QI) :
    extremalAsCoded 2 2 (adKraus (1 : QI) 0 s c) = false := by
  refine extremalAsCoded_dependent 2 2 _ (by show (4 : Nat) ≠ 1; decide) fun hLI => ?_
  have h3 : (3 : Nat) < (adKraus (1 : QI) 0 s c).length := by show 3 < 4; decide
  refine hLI.ne_zero ⟨3, h3⟩ ?_
  ext a i
  have e : (0 : QI) * s = 0 := by
    show (⟨0 * s.re - 0 * s.im, 0 * s.im + 0 * s.re⟩ : QI) = ⟨0, 0⟩
    simp
  show ((m22 (0 : QI) 0 (0 * s) 0) a.val i.val).toC = 0
  rw [e]
  fin_cases a <;> fin_cases i <;> simp [m22, QI.toC_zero]

end Toq.C06
end ADExtreme
