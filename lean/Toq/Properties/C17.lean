import Toq.Model.States
import Toq.Model.Combinat
import Toq.Spec.States
import Toq.Proofs.States
import Toq.Proofs.StatesHoro
import Toq.Proofs.StatesMub
import Toq.Proofs.StatesMore
import Toq.Proofs.StatesMisc
import Toq.Proofs.StatesTensor
import Toq.Proofs.StatesScale
import Mathlib.RingTheory.RootsOfUnity.Complex
/-!
# C17 — named states and standard matrices satisfy their defining identities

Property theorems only (helper lemmas: `Toq/Proofs/States.lean`; vocabulary: `Toq/Spec/States.lean`).
The models (`Toq/Model/Matrices.lean`, `Toq/Model/States.lean`) are the closed forms the driver evaluates and
the harness compares with toqito's arrays on every run.  Root-of-unity matrices are stated over an arbitrary
commutative ring (domain where a primitive root is needed) with `ω` a `d`-th root of unity and `ωc` its
inverse (= complex conjugate for `ω = exp(2πi/d)`); integer-structured objects are stated on their integer
numerators, the real normalisation `1/√den2` being carried separately.
-/
namespace Toq.C17
open Toq.Matrices Toq.States Toq.Spec17

/-! ## clock, shift, Fourier, generalised Pauli -/

section roots
variable {α : Type} [CommRing α]

/-- The exponent model (what the driver prints: `none` = 0, `some k` = `ω^k`) denotes the valued model:
    shift matrix. -/
theorem shiftE_eval (ω : α) (d i j : Nat) : RU.eval ω (shiftE d i j) = shiftX d i j := by
  unfold shiftE shiftX
  by_cases h : i = (j + 1) % d
  · rw [if_pos h, if_pos h]; simp [RU.eval]
  · rw [if_neg h, if_neg h]; rfl

/-- The exponent model denotes the valued model: clock matrix (`ω^d = 1`). -/
theorem clockE_eval (ω : α) (d : Nat) (hω : ω ^ d = 1) (i j : Nat) :
    RU.eval ω (clockE d i j) = clockZ ω i j := by
  unfold clockE clockZ
  by_cases h : i = j
  · rw [if_pos h, if_pos h]; exact pow_mod_root ω d hω i
  · rw [if_neg h, if_neg h]; rfl

/-- The exponent model denotes the valued model: generalised Pauli operators (`ω^d = 1`). -/
theorem genPauliE_eval (ω : α) (d : Nat) (hω : ω ^ d = 1) (a b i j : Nat) :
    RU.eval ω (genPauliE d a b i j) = genPauli ω d a b i j := by
  unfold genPauliE genPauli
  by_cases h : i = (j + a) % d
  · rw [if_pos h, if_pos h]; exact pow_mod_root ω d hω (b * j)
  · rw [if_neg h, if_neg h]; rfl

/-- The exponent model denotes the valued model: (unnormalised) Fourier matrix (`ω^d = 1`). -/
theorem fourierE_eval (ω : α) (d : Nat) (hω : ω ^ d = 1) (i j : Nat) :
    RU.eval ω (fourierE d i j) = fourierU ω i j :=
  pow_mod_root ω d hω (i * j)

/-- **Mirror = closed form.**  The code `matrix_power(X, a) @ matrix_power(Z, b)` has entry `(i, j)`
    equal to `ω^{b j}` if `i = j + a (mod d)` and `0` otherwise — for every dimension and all exponents. -/
theorem genPauli_mirror_eq (ω : α) (d : Nat) (hd : 0 < d) (a b i j : Nat) (hj : j < d) :
    genPauliMirror ω d a b i j = genPauli ω d a b i j := by
  unfold genPauliMirror matMul
  rw [sumN_single d j hj]
  · rw [matPow_shift d hd a i j hj, matPow_clock ω d b j j hj, if_pos rfl]
    unfold genPauli
    by_cases h : i = (j + a) % d
    · rw [if_pos h, if_pos h, one_mul]
    · rw [if_neg h, if_neg h, zero_mul]
  · intro k _ hne
    rw [matPow_clock ω d b k j hj, if_neg hne, mul_zero]

/-- `cyclic_permutation_matrix(n, k)`: the `k`-th power of the cyclic shift has a `1` exactly at
    `(j + k mod n, j)` — mirror (`matrix_power`) = closed form, every `n ≥ 1`, every `k`. -/
theorem cyclicPerm_mirror_eq (n : Nat) (hn : 0 < n) (k i j : Nat) (hj : j < n) :
    cyclicPermMirror n k i j = cyclicPerm n k i j :=
  matPow_shift (α := Int) n hn k i j hj

/-- **Weyl relation** `Z X = ω X Z`, entrywise, for every dimension `d` and every `d`-th root of unity. -/
theorem weyl_relation (ω : α) (d : Nat) (hω : ω ^ d = 1) (i j : Nat) (hi : i < d) (hj : j < d) :
    matMul d (clockZ ω) (shiftX d) i j = ω * matMul d (shiftX d) (clockZ ω) i j := by
  rw [clock_mul ω d _ i j hi, mul_clock ω d _ i j hj]
  unfold shiftX
  by_cases h : i = (j + 1) % d
  · rw [if_pos h, mul_one, one_mul, h, pow_mod_root ω d hω, pow_succ, mul_comm]
  · rw [if_neg h, mul_zero, zero_mul, mul_zero]

/-- **Fourier intertwining** `F X = Z F` (so `F X F† = Z`), entrywise on the unnormalised Fourier matrix
    `ω^{ij}`, for every dimension. -/
theorem fourier_intertwines (ω : α) (d : Nat) (hd : 0 < d) (hω : ω ^ d = 1) (i j : Nat) (hi : i < d) :
    matMul d (fourierU ω) (shiftX d) i j = matMul d (clockZ ω) (fourierU ω) i j := by
  rw [mul_shift d hd, clock_mul ω d _ i j hi]
  unfold fourierU
  have h1 : (ω ^ i) ^ d = 1 := by rw [← pow_mul, mul_comm, pow_mul, hω, one_pow]
  rw [pow_mul, pow_mod_root (ω ^ i) d h1, ← pow_mul, ← pow_add]
  congr 1; ring

/-- **Fourier matrix is unitary**: `Σ_k ω^{ik} ω̄^{jk} = d·δ_ij` for a primitive `d`-th root of unity
    (rows of `√d·F` are orthogonal with squared norm `d`). -/
theorem fourier_unitary [IsDomain α] (ω ωc : α) (d : Nat) (hω : IsPrimitiveRoot ω d) (hc : ω * ωc = 1)
    (i j : Nat) (hi : i < d) (hj : j < d) :
    sumN d (fun k => fourierU ω i k * fourierU ωc j k) = if i = j then (d : α) else 0 :=
  char_orth ω ωc d hω hc i j hi hj

/-- `F X F† = Z` with the normalisation made explicit: `(√d F) X (√d F)† = d · Z`. -/
theorem fourier_conjugates_shift_to_clock [IsDomain α] (ω ωc : α) (d : Nat) (hd : 0 < d)
    (hω : IsPrimitiveRoot ω d) (hc : ω * ωc = 1) (i j : Nat) (hi : i < d) (hj : j < d) :
    sumN d (fun k => matMul d (fourierU ω) (shiftX d) i k * fourierU ωc j k) = (d : α) * clockZ ω i j := by
  rw [sumN_congr _ (fun k => ω ^ i * (fourierU ω i k * fourierU ωc j k)) d (fun k _ => by
    rw [fourier_intertwines ω d hd hω.pow_eq_one i k hi, clock_mul ω d _ i k hi, mul_assoc])]
  rw [sumN_mul_left, fourier_unitary ω ωc d hω hc i j hi hj]
  unfold clockZ
  by_cases h : i = j
  · rw [if_pos h, if_pos h, mul_comm]
  · rw [if_neg h, if_neg h, mul_zero, mul_zero]

/-- **Generalised Pauli operators are unitary** (rows): `W W† = I`. -/
theorem genPauli_unitary (ω ωc : α) (d : Nat) (hd : 0 < d) (hc : ω * ωc = 1) (a b : Nat) :
    RowOrthonormal d (genPauli ω d a b) (genPauli ωc d a b) := by
  intro i i' hi hi'
  unfold genPauli
  rw [sumN_single d (unshift d a i) (unshift_lt d a i hd)]
  · rw [shift_unshift d a i hi, if_pos rfl]
    unfold δ
    by_cases h : i = i'
    · rw [if_pos h.symm, if_pos h, pow_mul_inv_pow ω ωc hc]
    · rw [if_neg (Ne.symm h), if_neg h, mul_zero]
  · intro k hk hne
    rw [if_neg (fun h => hne ((shift_eq_iff d a i k hi hk).mp h)), zero_mul]

/-- Generalised Pauli operators are unitary (columns): `W† W = I`. -/
theorem genPauli_unitary_cols (ω ωc : α) (d : Nat) (hd : 0 < d) (hc : ω * ωc = 1) (a b j j' : Nat)
    (hj : j < d) (hj' : j' < d) :
    sumN d (fun i => genPauli ωc d a b i j * genPauli ω d a b i j') = δ j j' := by
  unfold genPauli
  rw [sumN_single d ((j + a) % d) (Nat.mod_lt _ hd)]
  · rw [if_pos rfl]
    unfold δ
    by_cases h : j = j'
    · subst h; rw [if_pos rfl, if_pos rfl, mul_comm, pow_mul_inv_pow ω ωc hc]
    · rw [if_neg (fun h' => h (add_mod_inj d a j j' hj hj' h')), if_neg h, mul_zero]
  · intro k _ hne
    rw [if_neg hne, zero_mul]

/-- **Trace-orthogonality of the generalised Pauli family**: for a primitive `d`-th root of unity the `d²`
    operators `X^a Z^b` (`a, b < d`) satisfy `tr(P_{ab}† P_{a'b'}) = d·δ_{aa'}δ_{bb'}` — every dimension. -/
theorem genPauli_trace_orthogonal [IsDomain α] (ω ωc : α) (d : Nat) (hd : 0 < d) (hω : IsPrimitiveRoot ω d)
    (hc : ω * ωc = 1) (a b a' b' : Nat) (ha : a < d) (hb : b < d) (ha' : a' < d) (hb' : b' < d) :
    hsInner d (genPauli ωc d a b) (genPauli ω d a' b') = if a = a' ∧ b = b' then (d : α) else 0 := by
  unfold hsInner
  have inner : ∀ i, i < d → sumN d (fun k => genPauli ωc d a b k i * genPauli ω d a' b' k i)
      = if a = a' then ω ^ (b' * i) * ωc ^ (b * i) else 0 := by
    intro i _
    unfold genPauli
    rw [sumN_single d ((i + a) % d) (Nat.mod_lt _ hd)]
    · rw [if_pos rfl]
      by_cases h : a = a'
      · subst h; rw [if_pos rfl, if_pos rfl, mul_comm]
      · rw [if_neg (fun h' => h (shift_mod_inj d a a' i ha ha' h')), if_neg h, mul_zero]
    · intro k _ hne
      rw [if_neg hne, zero_mul]
  rw [sumN_congr _ _ d inner]
  by_cases h : a = a'
  · simp only [if_pos h]
    rw [char_orth ω ωc d hω hc b' b hb' hb]
    by_cases h2 : b = b'
    · rw [if_pos h2.symm, if_pos ⟨h, h2⟩]
    · rw [if_neg (Ne.symm h2), if_neg (fun hh => h2 hh.2)]
  · simp only [if_neg h]
    rw [sumN_zero' d _ (fun _ _ => rfl), if_neg (fun hh => h hh.1)]

/-- `X^d = I`: the shift matrix has order `d`. -/
theorem shift_pow_order (d : Nat) (hd : 0 < d) (i j : Nat) (hj : j < d) :
    matPow d (shiftX (α := α) d) d i j = matId i j := by
  rw [matPow_shift d hd d i j hj, Nat.add_mod_right, Nat.mod_eq_of_lt hj]
  rfl

/-- `Z^d = I`: the clock matrix has order `d` (for a `d`-th root of unity). -/
theorem clock_pow_order (ω : α) (d : Nat) (hω : ω ^ d = 1) (i j : Nat) (hj : j < d) :
    matPow d (clockZ ω) d i j = matId i j := by
  rw [matPow_clock ω d d i j hj, pow_mul, hω, one_pow]
  rfl


/-- The hypotheses on `ω`, `ωc` are satisfiable in every dimension: `ω = exp(2πi/d) ∈ ℂ` is a primitive `d`-th
    root of unity and `ωc = ω⁻¹` (its complex conjugate) satisfies `ω ωc = 1`. -/
example (d : ℕ) (hd : d ≠ 0) : ∃ ω ωc : ℂ, IsPrimitiveRoot ω d ∧ ω * ωc = 1 :=
  ⟨_, _, Complex.isPrimitiveRoot_exp d hd, mul_inv_cancel₀ ((Complex.isPrimitiveRoot_exp d hd).ne_zero hd)⟩

end roots

/-! ## Pauli and Gell-Mann matrices (finite: checked by evaluation over the Gaussian integers) -/

/-- `σ_a² = I` for `a = 0..3`. -/
theorem pauli_sq : ∀ a, a < 4 → ∀ i, i < 2 → ∀ j, j < 2 →
    matMul 2 (pauli a) (pauli a) i j = if i = j then 1 else 0 := by decide

/-- **Pauli product rule** `σ_x σ_y = i σ_z`, `σ_y σ_z = i σ_x`, `σ_z σ_x = i σ_y`. -/
theorem pauli_product : ∀ i, i < 2 → ∀ j, j < 2 →
    matMul 2 (pauli 1) (pauli 2) i j = (⟨0, 1⟩ : GI) * pauli 3 i j ∧
    matMul 2 (pauli 2) (pauli 3) i j = (⟨0, 1⟩ : GI) * pauli 1 i j ∧
    matMul 2 (pauli 3) (pauli 1) i j = (⟨0, 1⟩ : GI) * pauli 2 i j := by decide

/-- **Pauli anticommutation** `σ_a σ_b + σ_b σ_a = 0` for `a ≠ b ∈ {1,2,3}` (indices shifted by one). -/
theorem pauli_anticommute : ∀ a, a < 3 → ∀ b, b < 3 → ∀ i, i < 2 → ∀ j, j < 2 → a ≠ b →
    matMul 2 (pauli (a + 1)) (pauli (b + 1)) i j + matMul 2 (pauli (b + 1)) (pauli (a + 1)) i j = 0 := by decide

/-- **Pauli matrices are a trace-orthogonal operator basis**: `tr(σ_a† σ_b) = 2 δ_ab`, `a, b = 0..3`. -/
theorem pauli_trace_orthogonal : ∀ a, a < 4 → ∀ b, b < 4 →
    hsInner 2 (conjM (pauli a)) (pauli b) = if a = b then ⟨2, 0⟩ else 0 := by decide

/-- Pauli matrices are Hermitian. -/
theorem pauli_hermitian : ∀ a, a < 4 → ∀ i, i < 2 → ∀ j, j < 2 → (pauli a j i).conj = pauli a i j := by decide

/-- **Gell-Mann matrices are trace-orthogonal**: with `λ_a = gellMann a / √(gellMannDen2 a)`,
    `tr(λ_a λ_b) = 0` for `a ≠ b`, `tr(λ_0²) = 3`, `tr(λ_a²) = 2` for `a = 1..8`
    (stated on the integer numerators: `tr(num_a num_a) = 2·den2_a`). -/
theorem gellMann_trace_orthogonal : ∀ a, a < 9 → ∀ b, b < 9 →
    trMul 3 (gellMann a) (gellMann b)
      = if a = b then (if a = 0 then ⟨3, 0⟩ else ⟨2 * (gellMannDen2 a : Int), 0⟩) else 0 := by decide

/-- Gell-Mann matrices are Hermitian. -/
theorem gellMann_hermitian : ∀ a, a < 9 → ∀ i, i < 3 → ∀ j, j < 3 → (gellMann a j i).conj = gellMann a i j := by
  decide

/-- Gell-Mann matrices `λ_1 … λ_8` are traceless. -/
theorem gellMann_traceless : ∀ a, a < 9 → 0 < a → trace 3 (gellMann a) = 0 := by decide

/-! ## CNOT, standard basis -/

/-- **CNOT** maps `|x, y⟩` to `|x, x ⊕ y⟩`: column `2x + y` of the matrix is the basis vector `2x + (x xor y)`. -/
theorem cnot_action : ∀ x, x < 2 → ∀ y, y < 2 → ∀ r, r < 4 →
    cnot r (2 * x + y) = if r = 2 * x + (x ^^^ y) then 1 else 0 := by decide

/-- CNOT is a unitary (a permutation matrix equal to its own inverse). -/
theorem cnot_involution : ∀ i, i < 4 → ∀ j, j < 4 → matMul 4 cnot cnot i j = if i = j then 1 else 0 := by decide

/-- `standard_basis(d)[j]` is the `j`-th computational basis vector, every `d`. -/
theorem standardBasis_eq (d i j : Nat) (hi : i < d) (hj : j < d) :
    standardBasis d j i = if i = j then 1 else 0 := by
  unfold standardBasis
  by_cases h : i = j
  · subst h
    rw [if_pos rfl, if_pos]
    rw [Nat.add_sub_cancel_left, Nat.mod_self]
  · rw [if_neg h, if_neg]
    by_cases c : j ≤ i
    · rw [Nat.mod_eq_sub_mod (by omega), Nat.mod_eq_of_lt (by omega)]; omega
    · rw [Nat.mod_eq_of_lt (by omega)]; omega

/-! ## Bell states, tile and domino states (finite) -/

/-- **Bell states are orthonormal**: `⟨√2 b_a, √2 b_b⟩ = 2 δ_ab`. -/
theorem bell_orthonormal : ∀ a, a < 4 → ∀ b, b < 4 →
    inner 4 (bellS a) (bellS b) = if a = b then 2 else 0 := by decide

/-- **Bell states are maximally entangled**: both reduced operators of `|b_a⟩⟨b_a|` are `I/2`
    (on the numerators `√2·b_a`: the identity). -/
theorem bell_maximally_entangled : ∀ a, a < 4 → ∀ i, i < 2 → ∀ j, j < 2 →
    marginalA 2 (bellS a) (bellS a) i j = (if i = j then 1 else 0) ∧
    marginalB 2 (bellS a) (bellS a) i j = (if i = j then 1 else 0) := by decide

/-- **Tile states are orthonormal** (`tile(a) = tileS a / √(tileDen2 a)`); each is a product vector by
    construction (`kronV`). -/
theorem tile_orthonormal : ∀ a, a < 5 → ∀ b, b < 5 →
    inner 9 (tileS a) (tileS b) = if a = b then (tileDen2 a : Int) else 0 := by decide

/-- **Domino states are an orthonormal product basis** of `C³ ⊗ C³` (nine vectors). -/
theorem domino_orthonormal : ∀ a, a < 9 → ∀ b, b < 9 →
    inner 9 (dominoS a) (dominoS b) = if a = b then (dominoDen2 a : Int) else 0 := by decide


/-! ## maximally entangled, GHZ, W and Dicke states (every dimension / number of parties) -/

/-- **Maximally entangled state has maximally mixed marginals**, every `d`: for `ψ = Σ_i |ii⟩/√d` both reduced
    operators of `|ψ⟩⟨ψ|` are `I/d` (on the numerators `√d·ψ`: the identity). -/
theorem maxEnt_marginal_mixed (d i j : Nat) (hi : i < d) (hj : j < d) :
    marginalA d (maxEntS d) (maxEntS d) i j = (if i = j then 1 else 0) ∧
    marginalB d (maxEntS d) (maxEntS d) i j = (if i = j then 1 else 0) := by
  constructor
  · unfold marginalA
    rw [sumN_congr _ (fun k => (if i = k then 1 else 0) * (if j = k then 1 else 0)) d (fun k hk => by
      rw [maxEntS_flat d i k hi hk, maxEntS_flat d j k hj hk])]
    rw [sumN_single d i hi]
    · by_cases h : i = j
      · simp [h]
      · simp [h, Ne.symm h]
    · intro k _ hne; rw [if_neg (Ne.symm hne), zero_mul]
  · unfold marginalB
    rw [sumN_congr _ (fun k => (if k = i then 1 else 0) * (if k = j then 1 else 0)) d (fun k hk => by
      rw [maxEntS_flat d k i hk hi, maxEntS_flat d k j hk hj])]
    rw [sumN_single d i hi]
    · by_cases h : i = j
      · simp [h]
      · simp [h]
    · intro k _ hne; rw [if_neg hne, zero_mul]

/-- `max_entangled(d)` has squared norm `d` before normalisation (so `1` after dividing by `√d`). -/
theorem maxEnt_norm (d : Nat) : inner (d * d) (maxEntS d) (maxEntS d) = (d : Int) := by
  unfold inner
  rw [sumN_flat d _ d]
  rw [sumN_congr _ (fun _ => (1 : Int)) d (fun i hi => by
    rw [sumN_congr _ (fun k => if k = i then (1 : Int) else 0) d (fun k hk => by
      rw [maxEntS_flat d i k hi hk]
      by_cases h : i = k
      · rw [if_pos h, if_pos h.symm]; rfl
      · rw [if_neg h, if_neg (Ne.symm h)]; rfl)]
    rw [sumN_ite_eq d i hi])]
  rw [sumN_const, mul_one]

/-- The loop index of `ghz` is the index of the basis state `|i i … i⟩`. -/
theorem ghz_index (d n i : Nat) : ghzIdx d n i = index d n (fun _ => i) := ghzIdx_eq_enc d i n

/-- **GHZ support and amplitudes**, every local dimension `d` and number of parties `n ≥ 1`: the amplitude of
    `|x_0 … x_{n-1}⟩` in `ghz(d, n, c)` (before normalisation) is `c[x_0]` if all digits are equal and `0`
    otherwise; with the default coefficients all `d` non-zero amplitudes are equal. -/
theorem ghz_support (d n : Nat) (hn : 0 < n) (c : Nat → Int) (x : Nat → Nat) (hx : ∀ k, k < n → x k < d) :
    ghzGen d n c (index d n x) = if (∀ k, k < n → x k = x 0) then c (x 0) else 0 := by
  rw [ghzGen_eq_pick]
  by_cases h : ∀ k, k < n → x k = x 0
  · rw [if_pos h]
    apply pick_unique _ _ _ (x 0)
    · rw [ghzIdx_eq_enc]; exact enc_congr _ _ _ _ n (fun _ _ => rfl) (fun k hk => (h k hk).symm)
    · exact hx 0 hn
    · intro i hi hidx
      rw [ghzIdx_eq_enc] at hidx
      exact enc_inj _ _ _ n (fun _ _ => hi) hx hidx 0 hn
  · rw [if_neg h]
    apply pick_none
    intro i hi hidx
    apply h
    rw [ghzIdx_eq_enc] at hidx
    have e := enc_inj _ _ _ n (fun _ _ => hi) hx hidx
    intro k hk
    rw [← e k hk, ← e 0 hn]

/-- **GHZ is permutation symmetric**: relabelling the parties by any permutation `σ` does not change any
    amplitude. -/
theorem ghz_symmetric (d n : Nat) (hn : 0 < n) (x σ : Nat → Nat) (hx : ∀ k, k < n → x k < d) (hσ : IsPermN n σ) :
    ghzS d n (index d n (fun k => x (σ k))) = ghzS d n (index d n x) := by
  unfold ghzS
  rw [ghz_support d n hn _ _ (fun k hk => hx _ (hσ.lt k hk)), ghz_support d n hn _ _ hx]
  have hiff : (∀ k, k < n → x (σ k) = x (σ 0)) ↔ (∀ k, k < n → x k = x 0) := by
    constructor
    · intro h k hk
      obtain ⟨a, ha, rfl⟩ := Toq.Perms.surj_of_inj n σ hσ.lt hσ.inj k hk
      obtain ⟨b, hb, hb0⟩ := Toq.Perms.surj_of_inj n σ hσ.lt hσ.inj 0 hn
      rw [h a ha, ← h b hb, hb0]
    · intro h k hk
      rw [h _ (hσ.lt k hk), h _ (hσ.lt 0 hn)]
  by_cases h : ∀ k, k < n → x k = x 0
  · rw [if_pos h, if_pos (hiff.mpr h)]
  · rw [if_neg h, if_neg (fun hh => h (hiff.mp hh))]

/-- **W-state amplitudes (1)**: in `w_state(n, c)` (before normalisation) the basis state with the single
    excitation at party `p` has amplitude `c[p]` — the documented `c_0|10…0⟩ + c_1|01…0⟩ + … `. -/
theorem w_amplitude (n : Nat) (c : Nat → Int) (p : Nat) (hp : p < n) :
    wGen n c (index 2 n (unit p)) = c p := by
  rw [wGen_eq_pick]
  show pick n _ _ (enc (fun _ => 2) (unit p) n) = _
  rw [enc_unit p n hp]
  have : c p = (fun i => c (n - i - 1)) (n - 1 - p) := by
    show c p = c (n - (n - 1 - p) - 1); congr 1; omega
  rw [this]
  apply pick_unique _ _ _ (n - 1 - p) rfl n (by omega)
  intro i _ hi
  exact Nat.pow_right_injective (le_refl 2) hi

/-- **W-state support (2)**: every basis state whose number of excitations is not `1` has amplitude `0`. -/
theorem w_support (n : Nat) (c : Nat → Int) (x : Nat → Nat) (hx : ∀ k, k < n → x k < 2)
    (hw : weight n x ≠ 1) : wGen n c (index 2 n x) = 0 := by
  rw [wGen_eq_pick]
  apply pick_none
  intro i hi hidx
  apply hw
  have hu : enc (fun _ => 2) (unit (n - 1 - i)) n = 2 ^ i := by
    rw [enc_unit _ n (by omega)]; congr 1; omega
  have e := enc_inj (fun _ => 2) (unit (n - 1 - i)) x n
    (fun k _ => by unfold unit; split <;> omega) hx (hu.trans hidx)
  unfold weight
  rw [← sumN_congr _ _ n e]
  exact weight_unit _ n (by omega)

/-- **Dicke support**: the amplitude of `|x_0 … x_{n-1}⟩` in `√C(n,k)·dicke(n, k)` is `1` if exactly `k` parties are
    excited and `0` otherwise — every `n`, `k`. -/
theorem dicke_support (n k : Nat) (x : Nat → Nat) (hx : ∀ k, k < n → x k < 2) :
    dickeS n k (index 2 n x) = if weight n x = k then 1 else 0 := by
  unfold dickeS index weight
  rw [popcount_enc x n hx]
  have hlt : enc (fun _ => 2) x n < 2 ^ n := by
    have := enc_lt (fun _ => 2) x n hx
    have hp : ∀ m, prodN (fun _ => 2) m = 2 ^ m := by
      intro m; induction m with
      | zero => rfl
      | succ m ih => show prodN (fun _ => 2) m * 2 = _; rw [ih, Nat.pow_succ]
    rwa [hp] at this
  by_cases h : sumN n x = k
  · rw [if_pos ⟨hlt, h⟩, if_pos h]
  · rw [if_neg (fun hh => h hh.2), if_neg h]

/-- **Dicke states are permutation symmetric**, every `n`, `k`, every permutation of the qubits. -/
theorem dicke_symmetric (n k : Nat) (x σ : Nat → Nat) (hx : ∀ k, k < n → x k < 2) (hσ : IsPermN n σ) :
    dickeS n k (index 2 n (fun m => x (σ m))) = dickeS n k (index 2 n x) := by
  rw [dicke_support n k _ (fun m hm => hx _ (hσ.lt m hm)), dicke_support n k x hx]
  unfold weight
  rw [sumN_reindex n σ x hσ.lt hσ.inj]

/-- **`w_state(n)` (documented normalisation) is the Dicke state with one excitation**, hence has the stated
    support, equal amplitudes and permutation symmetry. -/
theorem w_eq_dicke_one (n : Nat) (x : Nat → Nat) (hx : ∀ k, k < n → x k < 2) :
    wS n (index 2 n x) = dickeS n 1 (index 2 n x) := by
  rw [dicke_support n 1 x hx]
  by_cases h : weight n x = 1
  · rw [if_pos h]
    obtain ⟨p, hp, hpk⟩ := weight_one_unit x n hx h
    have : index 2 n x = index 2 n (unit p) := enc_congr _ _ _ _ n (fun _ _ => rfl) hpk
    rw [this]
    exact w_amplitude n (fun _ => 1) p hp
  · rw [if_neg h]
    exact w_support n _ x hx h

/-- **W states are permutation symmetric.** -/
theorem w_symmetric (n : Nat) (x σ : Nat → Nat) (hx : ∀ k, k < n → x k < 2) (hσ : IsPermN n σ) :
    wS n (index 2 n (fun m => x (σ m))) = wS n (index 2 n x) := by
  rw [w_eq_dicke_one n _ (fun m hm => hx _ (hσ.lt m hm)), w_eq_dicke_one n x hx]
  exact dicke_symmetric n 1 x σ hx hσ

example : IsPermN 3 (fun k => [2, 0, 1].getD k 0) :=
  ⟨by decide, fun a b ha hb => by
    have : ∀ a, a < 3 → ∀ b, b < 3 → [2, 0, 1].getD a 0 = [2, 0, 1].getD b 0 → a = b := by decide
    exact this a ha b hb⟩


/-! ## Werner and isotropic states: symmetry -/

/-- **SWAP commutes with `U ⊗ U`** for *every* matrix `U` over a commutative semiring and every `d`:
    `((U⊗U)·S)[r,c] = (S·(U⊗U))[r,c]`. -/
theorem swap_commutes_UU {α : Type} [CommSemiring α] (d : Nat) (U : Nat → Nat → α) (r c : Nat)
    (hr : r < d * d) (hc : c < d * d) :
    matMul (d * d) (kron2 d U U) (swapOp d) r c = matMul (d * d) (swapOp d) (kron2 d U U) r c := by
  rw [kron_mul_swap d U U r c hc, swap_mul_kron d U U r c hr, mul_comm]

/-- **Werner states are `U ⊗ U` invariant**: `ρ_α = (I − α S)/(d(d−α))` commutes with `U ⊗ U` for every matrix `U`
    (for unitary `U` this is `(U⊗U) ρ_α (U⊗U)† = ρ_α`) — every `d`, every `α`. -/
theorem werner_UU_invariant {α : Type} [Field α] (d : Nat) (a : α) (U : Nat → Nat → α) (r c : Nat)
    (hr : r < d * d) (hc : c < d * d) :
    matMul (d * d) (kron2 d U U) (werner d a) r c = matMul (d * d) (werner d a) (kron2 d U U) r c := by
  unfold werner
  rw [matMul_lincomb_right, matMul_lincomb_left, matMul_delta_right _ _ r c hc, matMul_delta_left _ _ r c hr,
    swap_commutes_UU d U r c hr hc]

/-- `|Ω⟩⟨Ω|` is the model's `omegaProj`. -/
theorem omegaProj_eq {α : Type} [CommSemiring α] (d r c : Nat) :
    omegaProj (α := α) d r c = omegaVec d r * omegaVec d c := by
  unfold omegaProj omegaVec
  by_cases h1 : r / d = r % d <;> by_cases h2 : c / d = c % d <;> simp [h1, h2]

/-- **`(U ⊗ Ū) Ω = Ω`** whenever `U U† = I` (`Uc` = entrywise conjugate of `U`), every `d`. -/
theorem omega_UUbar_invariant {α : Type} [CommSemiring α] (d : Nat) (U Uc : Nat → Nat → α)
    (hU : RowOrthonormal d U Uc) (r : Nat) (hr : r < d * d) :
    sumN (d * d) (fun m => kron2 d U Uc r m * omegaVec d m) = omegaVec d r := by
  have hd := pos_of_lt_sq d r hr
  rw [sumN_flat d _ d]
  rw [sumN_congr _ (fun i => U (r / d) i * Uc (r % d) i) d (fun i hi => by
    rw [sumN_single d i hi]
    · unfold kron2 omegaVec
      rw [flat_div d i i hi, flat_mod d i i hi, if_pos rfl, mul_one]
    · intro k hk hne
      unfold omegaVec
      rw [flat_div d i k hk, flat_mod d i k hk, if_neg (Ne.symm hne), mul_zero])]
  rw [hU (r / d) (r % d) (div_lt_of_lt_sq d r hr) (Nat.mod_lt _ hd)]
  rfl

/-- **Isotropic states are `U ⊗ Ū` invariant**: `(U ⊗ Ū) ρ_α (U ⊗ Ū)† = ρ_α` for every `U` with `U U† = I`
    (`Uc` = entrywise conjugate of `U`), every `d`, every `α`. -/
theorem isotropic_UUbar_invariant {α : Type} [Field α] (d : Nat) (a : α) (U Uc : Nat → Nat → α)
    (hU : RowOrthonormal d U Uc) (r c : Nat) (hr : r < d * d) (hc : c < d * d) :
    sumN (d * d) (fun m => sumN (d * d) (fun m' => kron2 d U Uc r m * isotropic d a m m' * kron2 d Uc U c m'))
      = isotropic d a r c := by
  have hUc : RowOrthonormal d Uc U := by
    intro i j hi hj
    rw [sumN_congr _ (fun k => U j k * Uc i k) d (fun k _ => mul_comm _ _), hU j i hj hi]
    unfold δ
    by_cases h : i = j
    · rw [if_pos h, if_pos h.symm]
    · rw [if_neg h, if_neg (Ne.symm h)]
  have hiso : ∀ m m', isotropic d a m m'
      = (1 - a) / ((d : α) * (d : α)) * delta m m' + a / (d : α) * (omegaVec d m * omegaVec d m') := by
    intro m m'
    unfold isotropic
    rw [omegaProj_eq]; ring
  rw [sumN_congr _ _ (d * d) (fun m _ => sumN_congr _ _ (d * d) (fun m' _ => by rw [hiso m m']))]
  rw [conj_rank_one, kron_row_orthonormal d U Uc hU r c hr hc, omega_UUbar_invariant d U Uc hU r hr,
    omega_UUbar_invariant d Uc U hUc c hc, hiso]

/-- `RowOrthonormal` is satisfiable by a genuinely complex unitary: `U = [[0, i], [i, 0]]`, `Uc = conj U`. -/
example : RowOrthonormal 2 (fun i j => if i = j then (0 : GI) else ⟨0, 1⟩) (fun i j => if i = j then (0 : GI) else ⟨0, -1⟩) := by
  have h : ∀ i, i < 2 → ∀ j, j < 2 →
      sumN 2 (fun k => (if i = k then (0 : GI) else ⟨0, 1⟩) * (if j = k then (0 : GI) else ⟨0, -1⟩))
        = δ i j := by decide
  intro i j hi hj
  exact h i hi j hj

/-! ## Werner and isotropic states: partial transpose in closed form -/

/-- The partial transpose of SWAP is `|Ω⟩⟨Ω|` (unnormalised `Ω`), every `d`. -/
theorem pT_swap {α : Type} [Zero α] [One α] (d r c : Nat) (hr : r < d * d) (_hc : c < d * d) :
    pT2 d (swapOp (α := α) d) r c = omegaProj d r c := by
  have hd := pos_of_lt_sq d r hr
  unfold pT2 swapOp omegaProj
  rw [flat_div d _ _ (Nat.mod_lt c hd), flat_mod d _ _ (Nat.mod_lt c hd), flat_div d _ _ (Nat.mod_lt r hd),
    flat_mod d _ _ (Nat.mod_lt r hd)]
  by_cases h : r / d = r % d ∧ c / d = c % d
  · rw [if_pos ⟨h.1, h.2.symm⟩, if_pos h]
  · rw [if_neg (fun hh => h ⟨hh.1, hh.2.symm⟩), if_neg h]

/-- The partial transpose of `|Ω⟩⟨Ω|` is SWAP. -/
theorem pT_omega {α : Type} [Zero α] [One α] (d r c : Nat) (hr : r < d * d) (_hc : c < d * d) :
    pT2 d (omegaProj (α := α) d) r c = swapOp d r c := by
  have hd := pos_of_lt_sq d r hr
  unfold pT2 swapOp omegaProj
  rw [flat_div d _ _ (Nat.mod_lt c hd), flat_mod d _ _ (Nat.mod_lt c hd), flat_div d _ _ (Nat.mod_lt r hd),
    flat_mod d _ _ (Nat.mod_lt r hd)]
  by_cases h : r / d = c % d ∧ r % d = c / d
  · rw [if_pos ⟨h.1, h.2.symm⟩, if_pos h]
  · rw [if_neg (fun hh => h ⟨hh.1, hh.2.symm⟩), if_neg h]

/-- The partial transpose fixes the identity. -/
theorem pT_delta {α : Type} [Zero α] [One α] (d r c : Nat) (hr : r < d * d) (_hc : c < d * d) :
    pT2 d (delta (α := α)) r c = delta r c := by
  have hd := pos_of_lt_sq d r hr
  unfold pT2 delta
  have key : (r / d * d + c % d = c / d * d + r % d) ↔ r = c := by
    constructor
    · intro h
      have h1 := congrArg (· / d) h
      have h2 := congrArg (· % d) h
      simp only [flat_div d _ _ (Nat.mod_lt c hd), flat_div d _ _ (Nat.mod_lt r hd),
        flat_mod d _ _ (Nat.mod_lt c hd), flat_mod d _ _ (Nat.mod_lt r hd)] at h1 h2
      rw [← Nat.div_add_mod r d, ← Nat.div_add_mod c d, h1, h2]
    · intro h; rw [h]
  by_cases h : r = c
  · rw [if_pos (key.mpr h), if_pos h]
  · rw [if_neg (fun hh => h (key.mp hh)), if_neg h]

/-- **Partial transpose of the Werner state**: `ρ_α^Γ = (I − α |Ω⟩⟨Ω|)/(d(d−α))`, every `d`. -/
theorem werner_pt_closed {α : Type} [Field α] (d : Nat) (a : α) (r c : Nat) (hr : r < d * d) (hc : c < d * d) :
    pT2 d (werner d a) r c = (delta r c - a * omegaProj d r c) / ((d : α) * ((d : α) - a)) := by
  have h1 := pT_swap (α := α) d r c hr hc
  have h2 := pT_delta (α := α) d r c hr hc
  unfold pT2 at h1 h2 ⊢
  unfold werner
  rw [h1, h2]

/-- **Partial transpose of the isotropic state**: `ρ_α^Γ = (1−α) I/d² + α S/d`, every `d`. -/
theorem isotropic_pt_closed {α : Type} [Field α] (d : Nat) (a : α) (r c : Nat) (hr : r < d * d) (hc : c < d * d) :
    pT2 d (isotropic d a) r c = (1 - a) * delta r c / ((d : α) * (d : α)) + a * swapOp d r c / (d : α) := by
  have h1 := pT_omega (α := α) d r c hr hc
  have h2 := pT_delta (α := α) d r c hr hc
  unfold pT2 at h1 h2 ⊢
  unfold isotropic
  rw [h1, h2]


/-! ## Werner: list form, normalisation -/

/-- The numerator of the documented one-parameter list form is `I − α·P_{(1 0)} = I − α·SWAP`. -/
theorem wernerListNum_one {α : Type} [Field α] (d : Nat) (a : α) (argsort : Bool) (r c : Nat)
    (hr : r < d * d) (hc : c < d * d) :
    wernerListNum d 2 [a] argsort r c = delta r c - a * swapOp d r c := by
  unfold wernerListNum
  have hp : (lexPerms 2 (List.range 2)).drop 1 = [[1, 0]] := by decide
  have ha : argsortL [1, 0] = [1, 0] := by decide
  simp only [hp, List.zip_cons_cons, List.zip_nil_right, List.foldl_cons, List.foldl_nil]
  cases argsort
  · simp only [Bool.false_eq_true, if_false]
    rw [permOp_swap d r c hr hc]
  · simp only [if_true]
    rw [ha, permOp_swap d r c hr hc]

/-- **The one-parameter list form of a bipartite Werner state equals the scalar form** (for the list form
    *as documented*: `I − alpha[0]·P(second permutation)`, normalised to trace one) — every `d`, every `α`,
    both conventions for the permutation operator. -/
theorem werner_list_eq_scalar {α : Type} [Field α] (d : Nat) (a : α) (argsort : Bool) (r c : Nat)
    (hr : r < d * d) (hc : c < d * d) :
    wernerList d 2 [a] argsort r c = werner d a r c := by
  unfold wernerList werner
  rw [wernerListNum_one d a argsort r c hr hc]
  congr 1
  rw [Nat.pow_two]
  unfold trace
  rw [sumN_congr _ (fun i => delta i i - a * swapOp d i i) (d * d)
    (fun i hi => wernerListNum_one d a argsort i i hi hi)]
  rw [sumN_sub, sumN_mul_left]
  have h1 := trace_delta (α := α) (d * d)
  have h2 := trace_swap (α := α) d
  unfold trace at h1 h2
  rw [h1, h2]
  push_cast
  ring

/-- **Werner states have trace one** whenever the normalisation `d(d−α)` is non-zero. -/
theorem werner_trace_one {α : Type} [Field α] (d : Nat) (a : α) (h : (d : α) * ((d : α) - a) ≠ 0) :
    trace (d * d) (werner d a) = 1 := by
  unfold trace werner
  rw [sumN_div, sumN_sub, sumN_mul_left]
  have h1 := trace_delta (α := α) (d * d)
  have h2 := trace_swap (α := α) d
  unfold trace at h1 h2
  rw [h1, h2]
  push_cast
  rw [div_eq_one_iff_eq h]
  ring

/-- **Isotropic states have trace one** (`d ≠ 0` in the field). -/
theorem isotropic_trace_one {α : Type} [Field α] (d : Nat) (a : α) (h : (d : α) ≠ 0) :
    trace (d * d) (isotropic d a) = 1 := by
  unfold trace isotropic
  rw [sumN_add, sumN_div, sumN_div, sumN_mul_left, sumN_mul_left]
  have h1 := trace_delta (α := α) (d * d)
  have h2 := trace_omegaProj (α := α) d
  unfold trace at h1 h2
  rw [h1, h2]
  push_cast
  field_simp
  ring

/-- `singlet(d) = werner(d, 1)`. -/
theorem singlet_eq_werner_one {α : Type} [Field α] (d r c : Nat) :
    singlet (α := α) d r c = werner d 1 r c := by
  unfold singlet werner
  rw [one_mul, mul_sub, mul_one]


/-! ## generalised Bell states -/

section genbell
variable {α : Type} [CommRing α]

/-- The exponent model of `gen_bell(a, b, d)` denotes `vec(W) vec(W)†` (the driver reports the factor `1/d`
    as `den2 = d²`): entry `(r, c)` is `vec(W)[r] · conj(vec(W)[c])`. -/
theorem genBellE_eval (ω ωc : α) (d : Nat) (hd : 0 < d) (hω : ω ^ d = 1) (hc : ω * ωc = 1) (a b r c : Nat) :
    RU.eval ω (genBellE d a b r c)
      = vecF d (genPauli ω d a b) r * vecF d (genPauli ωc d a b) c := by
  have hcd : ωc ^ d = 1 := by
    have := pow_mul_inv_pow ω ωc hc d
    rwa [hω, one_mul] at this
  unfold genBellE vecF genPauliE genPauli
  by_cases h1 : r % d = (r / d + a) % d <;> by_cases h2 : c % d = (c / d + a) % d
  · simp only [if_pos h1, if_pos h2]
    show ω ^ ((b * (r / d) % d + d - b * (c / d) % d % d) % d) = _
    rw [pow_mod_root ω d hω, Nat.mod_mod]
    have hy : b * (c / d) % d < d := Nat.mod_lt _ hd
    have e1 : ω ^ (b * (r / d) % d + d - b * (c / d) % d) * ω ^ (b * (c / d) % d) = ω ^ (b * (r / d)) := by
      rw [← pow_add, Nat.sub_add_cancel (by omega), pow_add, hω, mul_one, pow_mod_root ω d hω]
    have e2 : ω ^ (b * (c / d) % d) * ωc ^ (b * (c / d)) = 1 := by
      rw [pow_mod_root ω d hω]; exact pow_mul_inv_pow ω ωc hc _
    calc ω ^ (b * (r / d) % d + d - b * (c / d) % d)
        = ω ^ (b * (r / d) % d + d - b * (c / d) % d) * (ω ^ (b * (c / d) % d) * ωc ^ (b * (c / d))) := by
          rw [e2, mul_one]
      _ = ω ^ (b * (r / d)) * ωc ^ (b * (c / d)) := by rw [← mul_assoc, e1]
  · simp only [if_pos h1, if_neg h2]; simp [RU.eval]
  · simp only [if_neg h1, if_pos h2]; simp [RU.eval]
  · simp only [if_neg h1, if_neg h2]; simp [RU.eval]

/-- **Generalised Bell states are orthonormal**, every `d`: `⟨vec W_{ab}, vec W_{a'b'}⟩ = d·δ_{aa'}δ_{bb'}`
    (so the `d²` states `vec(W_{ab})/√d` form an orthonormal basis of `C^d ⊗ C^d`). -/
theorem genBell_orthonormal [IsDomain α] (ω ωc : α) (d : Nat) (hd : 0 < d) (hω : IsPrimitiveRoot ω d)
    (hc : ω * ωc = 1) (a b a' b' : Nat) (ha : a < d) (hb : b < d) (ha' : a' < d) (hb' : b' < d) :
    inner (d * d) (vecF d (genPauli ωc d a b)) (vecF d (genPauli ω d a' b'))
      = if a = a' ∧ b = b' then (d : α) else 0 := by
  rw [← genPauli_trace_orthogonal ω ωc d hd hω hc a b a' b' ha hb ha' hb']
  unfold inner hsInner
  rw [sumN_flat d _ d]
  apply sumN_congr; intro j _
  apply sumN_congr; intro i hi
  unfold vecF
  rw [flat_div d j i hi, flat_mod d j i hi]

/-- **Generalised Bell states are maximally entangled**, every `d`: both reduced operators of
    `|ψ⟩⟨ψ|`, `ψ = vec(W_{ab})/√d`, are `I/d` (on the numerators: the identity). -/
theorem genBell_marginal_mixed (ω ωc : α) (d : Nat) (hd : 0 < d) (hc : ω * ωc = 1) (a b i j : Nat)
    (hi : i < d) (hj : j < d) :
    marginalA d (vecF d (genPauli ω d a b)) (vecF d (genPauli ωc d a b)) i j = δ i j ∧
    marginalB d (vecF d (genPauli ω d a b)) (vecF d (genPauli ωc d a b)) i j = δ i j := by
  constructor
  · unfold marginalA
    rw [← genPauli_unitary_cols ωc ω d hd (by rw [mul_comm]; exact hc) a b i j hi hj]
    apply sumN_congr; intro k hk
    unfold vecF
    rw [flat_div d i k hk, flat_mod d i k hk, flat_div d j k hk, flat_mod d j k hk]
  · unfold marginalB
    rw [← genPauli_unitary ω ωc d hd hc a b i j hi hj]
    apply sumN_congr; intro k _
    unfold vecF
    rw [flat_div d k i hi, flat_mod d k i hi, flat_div d k j hj, flat_mod d k j hj]

end genbell


/-! ## Hadamard matrices -/

/-- **Hadamard matrices are unitary**, every `n`: the sign matrix `(-1)^{popcount(i & k)}` (the numerator of
    `hadamard(n)`, normalisation `2^{-n/2}`) has orthogonal rows of squared norm `2^n`: `H Hᵀ = 2^n I`. -/
theorem hadamard_orthogonal (n i j : Nat) (hi : i < 2 ^ n) (hj : j < 2 ^ n) :
    sumN (2 ^ n) (fun k => hadamardS n i k * hadamardS n j k) = if i = j then (2 : Int) ^ n else 0 := by
  rw [hadamard_gram i j n, Nat.mod_eq_of_lt hi, Nat.mod_eq_of_lt hj]

/-- The Hadamard sign matrix is symmetric. -/
theorem hadamard_symmetric (n i k : Nat) : hadamardS n i k = hadamardS n k i := by
  unfold hadamardS
  apply prodFn_congr
  intro b _
  rw [Bool.and_comm]

/-! ## generalised Gell-Mann matrices (every dimension) -/

/-- **Generalised Gell-Mann matrices are Hermitian** (all indices, all entries). -/
theorem genGellMann_hermitian (a b i j : Nat) : (genGellMann a b j i).conj = genGellMann a b i j := by
  unfold genGellMann
  by_cases hab : a = b
  · simp only [if_pos hab]
    by_cases hij : i = j
    · subst hij
      simp only [if_true]
      split_ifs <;> rfl
    · rw [if_neg hij, if_neg (Ne.symm hij)]; rfl
  · simp only [if_neg hab]
    by_cases hlt : a < b
    · simp only [if_pos hlt]
      by_cases h : (i = a ∧ j = b) ∨ (i = b ∧ j = a)
      · rw [if_pos h, if_pos (by rcases h with ⟨h1, h2⟩ | ⟨h1, h2⟩ <;> [right; left] <;> exact ⟨h2, h1⟩)]; rfl
      · rw [if_neg h, if_neg (fun hh => h (by rcases hh with ⟨h1, h2⟩ | ⟨h1, h2⟩ <;> [right; left] <;> exact ⟨h2, h1⟩))]
        rfl
    · simp only [if_neg hlt]
      by_cases h1 : i = a ∧ j = b
      · have h2 : ¬(j = a ∧ i = b) := fun hh => hab (by omega)
        rw [if_pos h1, if_neg h2, if_pos ⟨h1.2, h1.1⟩]; rfl
      · rw [if_neg h1]
        by_cases h2 : i = b ∧ j = a
        · rw [if_pos h2, if_pos ⟨h2.2, h2.1⟩]; rfl
        · rw [if_neg h2, if_neg (fun hh => h2 ⟨hh.2, hh.1⟩), if_neg (fun hh => h1 ⟨hh.2, hh.1⟩)]; rfl

/-- **Generalised Gell-Mann matrices other than the identity are traceless**, every `d`. -/
theorem genGellMann_traceless (d a b : Nat) (ha : a < d) (_hb : b < d) (hne : ¬(a = 0 ∧ b = 0)) :
    trace d (genGellMann a b) = 0 := by
  unfold trace
  by_cases hab : a = b
  · subst hab
    rw [sumN_congr _ (fun i => GI.ofInt (dvec a i)) d (fun i _ => by rw [genGellMann_diag, if_pos rfl]),
      sumN_ofInt, sumN_dvec a d (by omega) ha]
    rfl
  · let _ := GIring.commRing
    exact sumN_zero' d _ (fun i _ => genGellMann_off_zero a b i i hab (by omega))

/-- **Generalised Gell-Mann matrices are a trace-orthogonal operator basis**, every `d`: with
    `G_{ab} = genGellMann a b / √(genGellMannDen2 a b)`, `tr(G_{ab} G_{a'b'}) = 0` unless `(a,b) = (a',b')`,
    `tr(G_{00}²) = d` and `tr(G_{ab}²) = 2` otherwise (on the numerators: `2·den2`). -/
theorem genGellMann_trace_orthogonal (d a b a' b' : Nat) (ha : a < d) (hb : b < d) (ha' : a' < d) (hb' : b' < d) :
    trMul d (genGellMann a b) (genGellMann a' b')
      = if a = a' ∧ b = b' then
          (if a = 0 ∧ b = 0 then (⟨(d : Int), 0⟩ : GI) else ⟨2 * (genGellMannDen2 a b : Int), 0⟩)
        else 0 := by
  have den1 : ∀ p q, p ≠ q → genGellMannDen2 p q = 1 := by
    intro p q hpq; unfold genGellMannDen2; rw [if_neg (fun hh => hpq hh.1)]
  have off := fun p q p' q' hp hq hpq => trMul_off_eval d p q p' q' hp hq hpq
  by_cases hab : a = b
  · by_cases hab' : a' = b'
    · subst hab; subst hab'
      rw [trMul_diag_diag d a a' ha ha']
      unfold genGellMannDen2 GI.ofInt
      by_cases h : a = a'
      · subst h
        by_cases h0 : a = 0
        · simp [h0]
        · simp only [h0, and_self, if_true, if_false, ne_eq, not_false_eq_true]
          congr 1
          have := Nat.mul_div_cancel' (Nat.even_mul_succ_self a).two_dvd
          exact_mod_cast this.symm
      · simp only [h, and_self, if_false]; rfl
    · rw [trMul_comm, off a' b' a b ha' hb' hab', if_neg (show ¬(a' = a ∧ b' = b) by omega),
        if_neg (show ¬(a = a' ∧ b = b') by omega)]
  · rw [off a b a' b' ha hb hab, den1 a b hab]
    by_cases h : a = a' ∧ b = b'
    · rw [if_pos h, if_pos h, if_neg (show ¬(a = 0 ∧ b = 0) by omega)]; rfl
    · rw [if_neg h, if_neg h]


/-! ## PPT thresholds -/

section ppt
variable {α : Type} [Field α] [LinearOrder α] [IsStrictOrderedRing α]

/-- **Werner states are PPT exactly for `α ≤ 1/d`** (every `d ≥ 1`, every `α < d`): the partial transpose
    `(I − α|Ω⟩⟨Ω|)/(d(d−α))` is positive semidefinite iff `α·d ≤ 1`. -/
theorem werner_ppt_iff (d : Nat) (hd : 0 < d) (a : α) (ha : a < (d : α)) :
    PSD (d * d) (pT2 d (werner d a)) ↔ a * (d : α) ≤ 1 := by
  have hdpos : (0 : α) < (d : α) := by exact_mod_cast hd
  have hN : (0 : α) < (d : α) * ((d : α) - a) := mul_pos hdpos (sub_pos.mpr ha)
  -- the quadratic form
  have hq : ∀ v : Nat → α, quadForm (d * d) (pT2 d (werner d a)) v
      = (sumN (d * d) (fun m => v m * v m)
          - a * (sumN (d * d) (fun m => v m * omegaVec d m) * sumN (d * d) (fun m => v m * omegaVec d m)))
        / ((d : α) * ((d : α) - a)) := by
    intro v
    have : quadForm (d * d) (pT2 d (werner d a)) v
        = quadForm (d * d) (fun r c => (1 / ((d : α) * ((d : α) - a))) * delta r c
            + (-a / ((d : α) * ((d : α) - a))) * (omegaVec d r * omegaVec d c)) v := by
      unfold quadForm
      apply sumN_congr; intro r hr
      apply sumN_congr; intro c hc
      rw [werner_pt_closed d a r c hr hc, omegaProj_eq]; ring
    rw [this, quadForm_rank_one]; ring
  constructor
  · intro h
    have h1 := h (omegaVec d)
    rw [hq, omegaVec_sq_sum] at h1
    have h2 : 0 ≤ (d : α) - a * ((d : α) * (d : α)) := by
      by_contra hneg
      exact absurd h1 (not_le.mpr (div_neg_of_neg_of_pos (not_le.mp hneg) hN))
    have h3 : 0 ≤ (d : α) * (1 - a * (d : α)) := by linarith [h2]
    have h4 : 0 ≤ 1 - a * (d : α) := nonneg_of_mul_nonneg_right h3 hdpos
    linarith
  · intro h v
    rw [hq]
    apply div_nonneg _ hN.le
    have hS := sumN_sq_nonneg (d * d) v
    have hC := sumN_cauchy (d * d) v (omegaVec (α := α) d)
    rw [omegaVec_sq_sum] at hC
    set S := sumN (d * d) (fun m => v m * v m)
    set T := sumN (d * d) (fun m => v m * omegaVec d m) * sumN (d * d) (fun m => v m * omegaVec d m)
    have hT : 0 ≤ T := mul_self_nonneg _
    by_cases ha0 : a ≤ 0
    · have : a * T ≤ 0 := mul_nonpos_of_nonpos_of_nonneg ha0 hT
      linarith
    · have ha1 : 0 < a := not_le.mp ha0
      have h5 : a * T ≤ a * (S * (d : α)) := mul_le_mul_of_nonneg_left hC ha1.le
      have h6 : a * (S * (d : α)) = (a * (d : α)) * S := by ring
      have h7 : (a * (d : α)) * S ≤ 1 * S := mul_le_mul_of_nonneg_right h hS
      linarith

/-- **Isotropic states are PPT exactly for `−1/(d−1) ≤ α ≤ 1/(d+1)`** (every `d ≥ 2`): the partial transpose
    `(1−α) I/d² + α S/d` is positive semidefinite iff `α(d+1) ≤ 1` and `−1 ≤ α(d−1)`.  On the admissible range
    `α ≥ −1/(d²−1)` (where `ρ_α` is a state) the second condition holds, so PPT ⇔ `α ≤ 1/(d+1)`. -/
theorem isotropic_ppt_iff (d : Nat) (hd : 2 ≤ d) (a : α) :
    PSD (d * d) (pT2 d (isotropic d a)) ↔ (a * ((d : α) + 1) ≤ 1 ∧ -1 ≤ a * ((d : α) - 1)) := by
  have hdpos : (0 : α) < (d : α) := by exact_mod_cast (show 0 < d by omega)
  have hd2 : (0 : α) < (d : α) * (d : α) := mul_pos hdpos hdpos
  have hdne : (d : α) ≠ 0 := ne_of_gt hdpos
  set x : α := (1 - a) / ((d : α) * (d : α)) with hx
  set y : α := a / (d : α) with hy
  have hq : ∀ v : Nat → α, quadForm (d * d) (pT2 d (isotropic d a)) v
      = x * sumN (d * d) (fun m => v m * v m) + y * sumN (d * d) (fun m => v m * v (swapIdx d m)) := by
    intro v
    rw [← quadForm_swap]
    unfold quadForm
    apply sumN_congr; intro r hr
    apply sumN_congr; intro c hc
    rw [isotropic_pt_closed d a r c hr hc, hx, hy]; ring
  have hsum : x + y = (1 + a * ((d : α) - 1)) / ((d : α) * (d : α)) := by
    rw [hx, hy]; field_simp; ring
  have hdiff : x - y = (1 - a * ((d : α) + 1)) / ((d : α) * (d : α)) := by
    rw [hx, hy]; field_simp; ring
  have hsum_iff : 0 ≤ x + y ↔ -1 ≤ a * ((d : α) - 1) := by
    rw [hsum, div_nonneg_iff]
    constructor
    · rintro (⟨h, _⟩ | ⟨_, h⟩)
      · linarith
      · exact absurd h (not_le.mpr hd2)
    · intro h; left; exact ⟨by linarith, hd2.le⟩
  have hdiff_iff : 0 ≤ x - y ↔ a * ((d : α) + 1) ≤ 1 := by
    rw [hdiff, div_nonneg_iff]
    constructor
    · rintro (⟨h, _⟩ | ⟨_, h⟩)
      · linarith
      · exact absurd h (not_le.mpr hd2)
    · intro h; left; exact ⟨by linarith, hd2.le⟩
  rw [← hsum_iff, ← hdiff_iff]
  have h1d : 1 < d * d := by nlinarith
  have hdd : d < d * d := by nlinarith
  have hs1 : swapIdx d 1 = d := by
    unfold swapIdx; rw [Nat.mod_eq_of_lt (by omega), Nat.div_eq_of_lt (by omega)]; omega
  have hsd : swapIdx d d = 1 := by
    unfold swapIdx; rw [Nat.mod_self, Nat.div_self (by omega)]; omega
  have hs0 : swapIdx d 0 = 0 := by unfold swapIdx; simp
  have h1ned : (1 : Nat) ≠ d := by omega
  have hdne1 : d ≠ 1 := by omega
  constructor
  · intro h
    constructor
    · -- antisymmetric test vector |01⟩ − |10⟩
      have h1 := h (fun m => (if m = 1 then 1 else 0) - (if m = d then 1 else 0))
      rw [hq] at h1
      have eP : sumN (d * d) (fun m => ((if m = 1 then (1 : α) else 0) - (if m = d then 1 else 0))
          * ((if m = 1 then 1 else 0) - (if m = d then 1 else 0))) = 2 := by
        rw [sumN_congr _ (fun m => (if m = 1 then (1 : α) else 0) + (if m = d then 1 else 0)) (d * d) (fun m _ => by
          by_cases m1 : m = 1
          · rw [if_pos m1, if_neg (by omega)]; ring
          · by_cases m2 : m = d
            · rw [if_neg m1, if_pos m2]; ring
            · rw [if_neg m1, if_neg m2]; ring)]
        rw [sumN_add, sumN_ite_eq (d * d) 1 h1d (fun _ => (1 : α)), sumN_ite_eq (d * d) d hdd (fun _ => (1 : α))]
        norm_num
      have eQ : sumN (d * d) (fun m => ((if m = 1 then (1 : α) else 0) - (if m = d then 1 else 0))
          * ((if swapIdx d m = 1 then 1 else 0) - (if swapIdx d m = d then 1 else 0))) = -2 := by
        rw [sumN_congr _ (fun m => (if m = 1 then (-1 : α) else 0) + (if m = d then -1 else 0)) (d * d) (fun m _ => by
          by_cases m1 : m = 1
          · rw [m1, hs1]; simp [h1ned, hdne1]
          · by_cases m2 : m = d
            · rw [m2, hsd]; simp [h1ned, hdne1]
            · simp [m1, m2])]
        rw [sumN_add, sumN_ite_eq (d * d) 1 h1d (fun _ => (-1 : α)), sumN_ite_eq (d * d) d hdd (fun _ => (-1 : α))]
        norm_num
      rw [eP, eQ] at h1
      linarith
    · -- symmetric test vector |00⟩
      have h0 := h (fun m => if m = 0 then 1 else 0)
      rw [hq] at h0
      have eP : sumN (d * d) (fun m => (if m = 0 then (1 : α) else 0) * (if m = 0 then 1 else 0)) = 1 := by
        rw [sumN_congr _ (fun m => if m = 0 then (1 : α) else 0) (d * d) (fun m _ => by
          by_cases m0 : m = 0 <;> simp [m0])]
        exact sumN_ite_eq (d * d) 0 (by omega) (fun _ => (1 : α))
      have eQ : sumN (d * d) (fun m => (if m = 0 then (1 : α) else 0) * (if swapIdx d m = 0 then 1 else 0)) = 1 := by
        rw [sumN_congr _ (fun m => if m = 0 then (1 : α) else 0) (d * d) (fun m _ => by
          by_cases m0 : m = 0
          · subst m0; rw [hs0]; simp
          · simp [m0])]
        exact sumN_ite_eq (d * d) 0 (by omega) (fun _ => (1 : α))
      rw [eP, eQ] at h0
      linarith
  · rintro ⟨hm, hp⟩ v
    rw [hq]
    obtain ⟨b1, b2⟩ := swap_form_bounds d v
    have e : x * sumN (d * d) (fun m => v m * v m) + y * sumN (d * d) (fun m => v m * v (swapIdx d m))
        = ((x + y) * (sumN (d * d) (fun m => v m * v m) + sumN (d * d) (fun m => v m * v (swapIdx d m)))
          + (x - y) * (sumN (d * d) (fun m => v m * v m) - sumN (d * d) (fun m => v m * v (swapIdx d m)))) / 2 := by
      ring
    rw [e]
    exact div_nonneg (add_nonneg (mul_nonneg hp b1) (mul_nonneg hm b2)) (by norm_num)


/-- **Admissible range of the Werner parameter**: `(I − αS)/(d(d−α))` is positive semidefinite iff
    `−1 ≤ α ≤ 1` (every `d ≥ 2`, `α < d`). -/
theorem werner_psd_iff (d : Nat) (hd : 2 ≤ d) (a : α) (ha : a < (d : α)) :
    PSD (d * d) (werner d a) ↔ (-1 ≤ a ∧ a ≤ 1) := by
  have hdpos : (0 : α) < (d : α) := by exact_mod_cast (show 0 < d by omega)
  have hN : (0 : α) < (d : α) * ((d : α) - a) := mul_pos hdpos (sub_pos.mpr ha)
  have hform : PSD (d * d) (werner d a) ↔
      PSD (d * d) (fun r c => (1 / ((d : α) * ((d : α) - a))) * delta r c
        + (-a / ((d : α) * ((d : α) - a))) * swapOp d r c) := by
    unfold PSD
    refine forall_congr' (fun v => ?_)
    have : quadForm (d * d) (werner d a) v = quadForm (d * d) (fun r c => (1 / ((d : α) * ((d : α) - a))) * delta r c
        + (-a / ((d : α) * ((d : α) - a))) * swapOp d r c) v := by
      unfold quadForm werner
      apply sumN_congr; intro r _
      apply sumN_congr; intro c _
      ring
    rw [this]
  rw [hform, psd_swap_iff d hd]
  have e1 : 1 / ((d : α) * ((d : α) - a)) - -a / ((d : α) * ((d : α) - a)) = (1 + a) / ((d : α) * ((d : α) - a)) := by
    ring
  have e2 : 1 / ((d : α) * ((d : α) - a)) + -a / ((d : α) * ((d : α) - a)) = (1 - a) / ((d : α) * ((d : α) - a)) := by
    ring
  rw [e1, e2, div_nonneg_iff, div_nonneg_iff]
  constructor
  · rintro ⟨h1 | h1, h2 | h2⟩
    · exact ⟨by linarith [h1.1], by linarith [h2.1]⟩
    · exact absurd h2.2 (not_le.mpr hN)
    · exact absurd h1.2 (not_le.mpr hN)
    · exact absurd h1.2 (not_le.mpr hN)
  · rintro ⟨h1, h2⟩
    exact ⟨Or.inl ⟨by linarith, hN.le⟩, Or.inl ⟨by linarith, hN.le⟩⟩

/-- **Admissible range of the isotropic parameter**: `(1−α) I/d² + α|ψ₊⟩⟨ψ₊|` is positive semidefinite iff
    `−1/(d²−1) ≤ α ≤ 1` (every `d ≥ 2`). -/
theorem isotropic_psd_iff (d : Nat) (hd : 2 ≤ d) (a : α) :
    PSD (d * d) (isotropic d a) ↔ (a ≤ 1 ∧ -1 ≤ a * ((d : α) * (d : α) - 1)) := by
  have hdpos : (0 : α) < (d : α) := by exact_mod_cast (show 0 < d by omega)
  have hd2 : (0 : α) < (d : α) * (d : α) := mul_pos hdpos hdpos
  have hdne : (d : α) ≠ 0 := ne_of_gt hdpos
  have hform : PSD (d * d) (isotropic d a) ↔
      PSD (d * d) (fun r c => ((1 - a) / ((d : α) * (d : α))) * delta r c
        + (a / (d : α)) * (omegaVec d r * omegaVec d c)) := by
    unfold PSD
    refine forall_congr' (fun v => ?_)
    have : quadForm (d * d) (isotropic d a) v = quadForm (d * d) (fun r c => ((1 - a) / ((d : α) * (d : α))) * delta r c
        + (a / (d : α)) * (omegaVec d r * omegaVec d c)) v := by
      unfold quadForm isotropic
      apply sumN_congr; intro r _
      apply sumN_congr; intro c _
      rw [omegaProj_eq]; ring
    rw [this]
  rw [hform, psd_omega_iff d hd]
  have e2 : (1 - a) / ((d : α) * (d : α)) + a / (d : α) * (d : α)
      = (1 + a * ((d : α) * (d : α) - 1)) / ((d : α) * (d : α)) := by
    field_simp; ring
  rw [e2, div_nonneg_iff, div_nonneg_iff]
  constructor
  · rintro ⟨h1 | h1, h2 | h2⟩
    · exact ⟨by linarith [h1.1], by linarith [h2.1]⟩
    · exact absurd h2.2 (not_le.mpr hd2)
    · exact absurd h1.2 (not_le.mpr hd2)
    · exact absurd h1.2 (not_le.mpr hd2)
  · rintro ⟨h1, h2⟩
    exact ⟨Or.inl ⟨by linarith, hd2.le⟩, Or.inl ⟨by linarith, hd2.le⟩⟩


end ppt


/-! ## Pauli strings, normalisations, cyclic shift, Horodecki trace -/

/-- **Pauli strings are a trace-orthogonal operator basis, every number of qubits**: for index lists `l, l'` of
    the same length `n` (entries `0..3`), `tr(P_l† P_{l'}) = 2^n` if `l = l'` and `0` otherwise
    (`pauli([i_1, …, i_n]) = σ_{i_1} ⊗ … ⊗ σ_{i_n}`). -/
theorem pauliString_trace_orthogonal (l l' : List Nat) (hlen : l.length = l'.length)
    (hl : ∀ a ∈ l, a < 4) (hl' : ∀ a ∈ l', a < 4) :
    hsInner (2 ^ l.length) (conjM (pauliList l)) (pauliList l')
      = if l = l' then (⟨(2 : Int) ^ l.length, 0⟩ : GI) else 0 :=
  pauliList_hs l l' hlen hl hl'

/-- **GHZ normalisation**: the squared norm of the un-normalised `ghz(d, n, c)` is `Σ_i c_i²` (`= d` for the default
    coefficients), so dividing by `‖c‖` gives a unit vector — every `d`, `n ≥ 1`. -/
theorem ghz_norm (d n : Nat) (hn : 0 < n) (c : Nat → Int) :
    inner (d ^ n) (ghzGen d n c) (ghzGen d n c) = sumN d (fun i => c i * c i) := by
  show sumN (d ^ n) (fun j => pick d (ghzIdx d n) c j * pick d (ghzIdx d n) c j) = _
  exact pick_sq_sum (d ^ n) (ghzIdx d n) c d (fun i hi => ghzIdx_lt d n i hi)
    (fun i j hi hj h => ghzIdx_inj d n hn i j hi hj h)

/-- **W-state normalisation**: the squared norm of the un-normalised, un-rounded `w_state(n, c)` is `Σ_i c_i²`
    (`= n` for the default coefficients). -/
theorem w_norm (n : Nat) (c : Nat → Int) :
    inner (2 ^ n) (wGen n c) (wGen n c) = sumN n (fun i => c (n - i - 1) * c (n - i - 1)) := by
  show sumN (2 ^ n) (fun j => pick n (fun i => 2 ^ i) (fun i => c (n - i - 1)) j
      * pick n (fun i => 2 ^ i) (fun i => c (n - i - 1)) j) = _
  exact pick_sq_sum (2 ^ n) (fun i => 2 ^ i) (fun i => c (n - i - 1)) n
    (fun i hi => Nat.pow_lt_pow_right (by omega) hi)
    (fun i j _ _ h => Nat.pow_right_injective (le_refl 2) h)

/-- **Dicke normalisation**: exactly `C(n, k)` basis states have amplitude `1` in `√C(n,k)·dicke(n, k)`, so
    `dicke(n, k)` is a unit vector — every `n`, `k`. -/
theorem dicke_norm (n k : Nat) : inner (2 ^ n) (dickeS n k) (dickeS n k) = (choose n k : Int) :=
  dicke_count n k

/-- **Cyclic shift matrices are unitary** (permutation matrices): `P P† = I`, every `n ≥ 1`, every power `k`. -/
theorem cyclicPerm_unitary (n k : Nat) (hn : 0 < n) : RowOrthonormal n (cyclicPerm n k) (cyclicPerm n k) := by
  have e : cyclicPerm n k = genPauli (1 : Int) n k 0 := by
    funext i j
    unfold cyclicPerm genPauli
    simp
  rw [e]
  exact genPauli_unitary (1 : Int) 1 n hn (by norm_num) k 0

/-- **Horodecki states have trace one** (both supported dimensions), every parameter with non-zero normalisation
    (in a field where `2 ≠ 0`). -/
theorem horodecki_trace_one {α : Type} [Field α] (a c : α) :
    ((2 : Nat) : α) ≠ 0 → ((8 : Nat) : α) * a + 1 ≠ 0 → trace 9 (horodecki33 a c) = 1 := by
  intro h2 h
  simp only [trace, sumN, horodecki33]
  norm_num at h2 h ⊢
  field_simp
  ring

/-- Horodecki `2 ⊗ 4` states have trace one. -/
theorem horodecki24_trace_one {α : Type} [Field α] (a c : α) :
    ((2 : Nat) : α) ≠ 0 → ((7 : Nat) : α) * a + 1 ≠ 0 → trace 8 (horodecki24 a c) = 1 := by
  intro h2 h
  simp only [trace, sumN, horodecki24]
  norm_num at h2 h ⊢
  field_simp
  ring

/-! ## Horodecki states: positive and PPT for every parameter (symbolic, over any ordered field) -/

section horodecki
variable {α : Type} [Field α] [LinearOrder α] [IsStrictOrderedRing α]

/-- **`horodecki(a, [3,3])` is a positive semidefinite matrix for every `a ≥ 0`** (so for the whole admissible range
    `0 ≤ a ≤ 1`), `c = √(1-a²)/2` entering only through `4c² = 1 - a²` (either sign of `c`). -/
theorem horodecki33_psd (a c : α) (ha0 : 0 ≤ a) (hc : 4 * c * c = 1 - a * a) : PSD 9 (horodecki33 a c) :=
  horodecki33_psd_aux a c ha0 hc

/-- **`horodecki(a, [3,3])` is PPT for every admissible `a`**: its partial transpose (second factor, `3 ⊗ 3`) is
    positive semidefinite — a symbolic statement for all `a`, not a sampled one. -/
theorem horodecki33_ppt (a c : α) (ha0 : 0 ≤ a) (hc : 4 * c * c = 1 - a * a) : PSD 9 (pT2 3 (horodecki33 a c)) :=
  horodecki33_ppt_aux a c ha0 hc

/-- **`horodecki(a, [2,4])` is positive semidefinite for every admissible `a`.** -/
theorem horodecki24_psd (a c : α) (ha0 : 0 ≤ a) (hc : 4 * c * c = 1 - a * a) : PSD 8 (horodecki24 a c) :=
  horodecki24_psd_aux a c ha0 hc

/-- **`horodecki(a, [2,4])` is PPT for every admissible `a`**: the partial transpose on the second (`4`-dimensional) factor
    of the `2 ⊗ 4` state is positive semidefinite. -/
theorem horodecki24_ppt (a c : α) (ha0 : 0 ≤ a) (hc : 4 * c * c = 1 - a * a) : PSD 8 (pT2 4 (horodecki24 a c)) :=
  horodecki24_ppt_aux a c ha0 hc

omit [LinearOrder α] [IsStrictOrderedRing α] in
/-- Horodecki states are real symmetric matrices (both supported dimensions), so `PSD` above is positivity of a
    Hermitian operator. -/
theorem horodecki_symmetric (a c : α) :
    (∀ i, i < 9 → ∀ j, j < 9 → horodecki33 a c i j = horodecki33 a c j i) ∧
    (∀ i, i < 8 → ∀ j, j < 8 → horodecki24 a c i j = horodecki24 a c j i) :=
  ⟨horodecki33_symm a c, horodecki24_symm a c⟩

/-- the hypotheses are satisfiable at a non-trivial rational parameter: `a = 3/5`, `c = 2/5` -/
example : (0 : ℚ) ≤ 3 / 5 ∧ 4 * (2 / 5 : ℚ) * (2 / 5) = 1 - (3 / 5) * (3 / 5) := by norm_num

end horodecki

/-! ## Hadamard: the code's bit-count loop, tensor-power structure -/

/-- **Mirror = closed form for `hadamard`**, every `n`: `(-1) ** _hamming_distance(i & j)` with Kernighan's loop
    `x &= x - 1` equals `(-1)^{popcount(i & j)}` (the product over the bits). -/
theorem hadamardMirror_eq (n i j : Nat) (hi : i < 2 ^ n) : hadamardMirror n i j = hadamardS n i j :=
  hadamardMirror_eq_aux n i j hi

/-- **`hadamard(n+1) = hadamard(1) ⊗ hadamard(n)`**, every `n`: the sign matrix is the `n`-fold tensor power of
    `[[1, 1], [1, -1]]`. -/
theorem hadamard_tensor_power (n i j : Nat) :
    hadamardS (n + 1) i j = kron (2 ^ n) (2 ^ n) (hadamardS 1) (hadamardS n) i j :=
  hadamardS_kron n i j

/-! ## mutually unbiased bases -/

section mub
variable {α : Type} [CommRing α]

/-- The exponent model of the eigenvectors of `X Z^j` (what the driver prints) denotes the valued model. -/
theorem mubE_eval (ω : α) (d : Nat) (hω : ω ^ d = 1) (j m x : Nat) :
    RU.eval ω (mubE d j m x) = mubVec ω j m x :=
  pow_mod_root ω d hω _

/-- **Mirror = closed form**: the matrix the code hands to `eig`, `gen_pauli(1,0,d) @ gen_pauli(0,1,d) ** j` with NumPy's
    *elementwise* power, is `X Z^j` for every `j ≥ 1` (for `j = 0` the elementwise power would give the all-ones matrix;
    the loop runs over `j = d, …, 1`). -/
theorem mubMatMirror_eq (ω : α) (d j : Nat) (hj : 0 < j) (i k : Nat) (hk : k < d) :
    mubMatMirror ω d j i k = genPauli ω d 1 j i k :=
  Toq.States.mubMatMirror_eq ω d j hj i k hk

/-- **The model vectors are eigenvectors**: for odd `d`, `v_{j,m}[x] = ω^{j x(x-1)/2 + m x}` satisfies
    `(X Z^j) v_{j,m} = ω̄^m v_{j,m}`. -/
theorem mub_eigenvector (ω ωc : α) (d : Nat) (hodd : Odd d) (j m : Nat) (hω : ω ^ d = 1) (hc : ω * ωc = 1)
    (i : Nat) (hi : i < d) :
    sumN d (fun l => genPauli ω d 1 j i l * mubVec ω j m l) = ωc ^ m * mubVec ω j m i := by
  obtain ⟨k, rfl⟩ := hodd
  exact mub_eigen_aux ω ωc k j m hω hc i hi

/-- **Eigenvectors of `X Z^j` are unique up to a scalar**: any `u` with `(X Z^j) u = λ u`, `λ` invertible, is
    `u[i] = λ⁻ⁱ ω^{j i(i-1)/2} u[0]`; for `λ = ω̄^m` this is `u[0]·v_{j,m}`.  This is why the harness may compare LAPACK's
    eigenvectors with the model up to order and phase. -/
theorem mub_eigenvector_unique (ω lam lamc : α) (d j : Nat) (u : Nat → α) (hl : lam * lamc = 1)
    (h : ∀ i, i < d → sumN d (fun k => genPauli ω d 1 j i k * u k) = lam * u i) (i : Nat) (hi : i < d) :
    u i = lamc ^ i * ω ^ (j * tri i) * u 0 :=
  mub_eig_unique_aux ω lam lamc d j u hl h i hi

/-- **Each basis is orthonormal**, every `d`: `⟨v_{j,m}, v_{j,m'}⟩ = d·δ_{mm'}` (numerators; the vectors carry `1/√d`). -/
theorem mub_basis_orthonormal [IsDomain α] (ω ωc : α) (d : Nat) (hω : IsPrimitiveRoot ω d) (hc : ω * ωc = 1)
    (j m m' : Nat) (hm : m < d) (hm' : m' < d) :
    inner d (mubVec ωc j m) (mubVec ω j m') = if m = m' then (d : α) else 0 :=
  mub_orthonormal_aux ω ωc d hω hc j m m' hm hm'

/-- **Mutual unbiasedness for every odd prime `p`** (quadratic Gauss sum): for `j ≠ j'` the eigenvectors of `X Z^j` and
    `X Z^{j'}` satisfy `|⟨v_{j,m}, v_{j',m'}⟩|² = p` on the numerators, i.e. `1/p` for the normalised vectors — all `m, m'`.
    (The second factor is the complex conjugate of the first when `ωc = conj ω`.) -/
theorem mub_unbiased [IsDomain α] (ω ωc : α) (p : Nat) (hp : p.Prime) (hp2 : p ≠ 2) (hω : IsPrimitiveRoot ω p)
    (hc : ω * ωc = 1) (j j' m m' : Nat) (hj : j < p) (hj' : j' < p) (hne : j ≠ j') :
    inner p (mubVec ωc j m) (mubVec ω j' m') * inner p (mubVec ω j m) (mubVec ωc j' m') = (p : α) := by
  rcases hp.eq_two_or_odd' with h | h
  · exact absurd h hp2
  · obtain ⟨k, rfl⟩ := h
    exact mub_unbiased_aux ω ωc k hp hω hc j j' m m' hj hj' hne

/-- **Unbiased with respect to the standard basis**: every component of `v_{j,m}` has modulus one (`1/√d` after
    normalisation). -/
theorem mub_unbiased_standard (ω ωc : α) (hc : ω * ωc = 1) (j m x : Nat) :
    mubVec ω j m x * mubVec ωc j m x = 1 :=
  pow_mul_inv_pow ω ωc hc _

end mub

/-- **`dim = 2`** (the even prime; the eigenvalues of `X Z` are `±i`, not square roots of unity): the table vectors are
    eigenvectors of the mirrored matrices `pauli_x @ pauli_z ** j` (`g = 1, 2`, i.e. `j = 2, 1`). -/
theorem mub2_eigenvector : ∀ g, g < 3 → 0 < g → ∀ m, m < 2 → ∀ i, i < 2 →
    sumN 2 (fun k => mub2Mat g i k * mub2 g m k) = mub2Eig g m * mub2 g m i := by decide

/-- **`dim = 2`: each of the three bases is orthonormal**: `⟨u_m, u_{m'}⟩ = den2·δ_{mm'}` on the numerators. -/
theorem mub2_orthonormal : ∀ g, g < 3 → ∀ m, m < 2 → ∀ m', m' < 2 →
    inner 2 (fun x => (mub2 g m x).conj) (mub2 g m') = if m = m' then ⟨(mub2Den2 g : Int), 0⟩ else 0 := by decide

/-- **`dim = 2`: the three bases are mutually unbiased**: across bases `|⟨u, v⟩|²·2 = den2_g·den2_h`, i.e.
    `|⟨u, v⟩|² = 1/2` after normalisation. -/
theorem mub2_unbiased : ∀ g, g < 3 → ∀ h, h < 3 → ∀ m, m < 2 → ∀ m', m' < 2 → g ≠ h →
    (inner 2 (fun x => (mub2 g m x).conj) (mub2 h m') * (inner 2 (fun x => (mub2 g m x).conj) (mub2 h m')).conj)
        * ⟨2, 0⟩ = (⟨(mub2Den2 g * mub2Den2 h : Nat), 0⟩ : GI) := by decide

/-- an odd prime with a primitive root exists in `ℂ` for the hypotheses of `mub_unbiased`: `p = 3` -/
example : ∃ ω ωc : ℂ, IsPrimitiveRoot ω 3 ∧ ω * ωc = 1 ∧ Nat.Prime 3 :=
  ⟨_, _, Complex.isPrimitiveRoot_exp 3 (by norm_num),
    mul_inv_cancel₀ ((Complex.isPrimitiveRoot_exp 3 (by norm_num)).ne_zero (by norm_num)), Nat.prime_three⟩

/-! ## spectra of the partially transposed Werner / isotropic states (the closed-form eigenvalues the driver reports) -/

/-- **`Ω` is an eigenvector of the partially transposed Werner state** with eigenvalue `(1 − α d)/(d(d−α))`
    (`wernerPTEigs.2`) — every `d`. -/
theorem werner_pt_eig_omega {α : Type} [Field α] (d : Nat) (a : α) (r : Nat) (hr : r < d * d) :
    sumN (d * d) (fun c => pT2 d (werner d a) r c * omegaVec d c) = (wernerPTEigs d a).2 * omegaVec d r := by
  rw [sumN_congr _ (fun c => ((1 / ((d : α) * ((d : α) - a))) * delta r c
      + (-a / ((d : α) * ((d : α) - a))) * (omegaVec d r * omegaVec d c)) * omegaVec d c) (d * d) (fun c hc => by
    rw [werner_pt_closed d a r c hr hc, omegaProj_eq]; ring)]
  rw [matvec_rank_one (d * d) _ _ _ _ r hr, omegaVec_sq_sum]
  unfold wernerPTEigs
  ring

/-- **Every vector orthogonal to `Ω` is an eigenvector of the partially transposed Werner state** with eigenvalue
    `1/(d(d−α))` (`wernerPTEigs.1`); together with `werner_pt_eig_omega` this is the whole spectrum. -/
theorem werner_pt_eig_perp {α : Type} [Field α] (d : Nat) (a : α) (v : Nat → α)
    (hv : sumN (d * d) (fun c => omegaVec d c * v c) = 0) (r : Nat) (hr : r < d * d) :
    sumN (d * d) (fun c => pT2 d (werner d a) r c * v c) = (wernerPTEigs d a).1 * v r := by
  rw [sumN_congr _ (fun c => ((1 / ((d : α) * ((d : α) - a))) * delta r c
      + (-a / ((d : α) * ((d : α) - a))) * (omegaVec d r * omegaVec d c)) * v c) (d * d) (fun c hc => by
    rw [werner_pt_closed d a r c hr hc, omegaProj_eq]; ring)]
  rw [matvec_rank_one (d * d) _ _ _ _ r hr, hv]
  unfold wernerPTEigs
  ring

/-- **Symmetric vectors (`v ∘ swap = v`) are eigenvectors of the partially transposed isotropic state** with eigenvalue
    `(1−α)/d² + α/d` (`isotropicPTEigs.1`). -/
theorem isotropic_pt_eig_sym {α : Type} [Field α] (d : Nat) (a : α) (v : Nat → α)
    (hv : ∀ r, r < d * d → v (swapIdx d r) = v r) (r : Nat) (hr : r < d * d) :
    sumN (d * d) (fun c => pT2 d (isotropic d a) r c * v c) = (isotropicPTEigs d a).1 * v r := by
  rw [sumN_congr _ (fun c => (((1 - a) / ((d : α) * (d : α))) * delta r c + (a / (d : α)) * swapOp d r c) * v c) (d * d)
    (fun c hc => by rw [isotropic_pt_closed d a r c hr hc]; ring)]
  rw [matvec_swap d v _ _ r hr, hv r hr]
  unfold isotropicPTEigs
  ring

/-- **Antisymmetric vectors (`v ∘ swap = −v`) are eigenvectors of the partially transposed isotropic state** with
    eigenvalue `(1−α)/d² − α/d` (`isotropicPTEigs.2`); symmetric and antisymmetric vectors span the space. -/
theorem isotropic_pt_eig_antisym {α : Type} [Field α] (d : Nat) (a : α) (v : Nat → α)
    (hv : ∀ r, r < d * d → v (swapIdx d r) = -v r) (r : Nat) (hr : r < d * d) :
    sumN (d * d) (fun c => pT2 d (isotropic d a) r c * v c) = (isotropicPTEigs d a).2 * v r := by
  rw [sumN_congr _ (fun c => (((1 - a) / ((d : α) * (d : α))) * delta r c + (a / (d : α)) * swapOp d r c) * v c) (d * d)
    (fun c hc => by rw [isotropic_pt_closed d a r c hr hc]; ring)]
  rw [matvec_swap d v _ _ r hr, hv r hr]
  unfold isotropicPTEigs
  ring

/-! ## operator bases span; the generalised Bell basis is complete -/

/-- **Generalised Pauli operators span all matrices**, every `d`: the matrix unit `E_{ij}` is
    `(1/d) Σ_b ω̄^{b j} X^a Z^b` with `a = i − j (mod d)`; entrywise, for any `a`:
    `Σ_b ω̄^{b j} (X^a Z^b)[i', j'] = d·[i' = j + a mod d]·[j' = j]`. -/
theorem genPauli_spans {α : Type} [CommRing α] [IsDomain α] (ω ωc : α) (d : Nat) (hω : IsPrimitiveRoot ω d)
    (hc : ω * ωc = 1) (a j i' j' : Nat) (hj : j < d) (hj' : j' < d) :
    sumN d (fun b => ωc ^ (b * j) * genPauli ω d a b i' j') = if i' = (j + a) % d ∧ j' = j then (d : α) else 0 :=
  genPauli_unit_expansion ω ωc d hω hc a j i' j' hj hj'

/-- **The generalised Bell states resolve the identity**, every `d`: `Σ_{a,b<d} |ψ_{ab}⟩⟨ψ_{ab}| = I` (on the numerators
    `vec(W_{ab})`: `d·δ_{rc}`), so the `d²` orthonormal vectors are a complete basis of `C^d ⊗ C^d`. -/
theorem genBell_complete {α : Type} [CommRing α] [IsDomain α] (ω ωc : α) (d : Nat) (hd : 0 < d)
    (hω : IsPrimitiveRoot ω d) (hc : ω * ωc = 1) (r c : Nat) (hr : r < d * d) (hcc : c < d * d) :
    sumN d (fun a => sumN d (fun b => vecF d (genPauli ω d a b) r * vecF d (genPauli ωc d a b) c))
      = if r = c then (d : α) else 0 :=
  genBell_complete_aux ω ωc d hd hω hc r c hr hcc

/-- **Generalised Gell-Mann matrices span the off-diagonal matrix units**: for `a < b`, `G_{ab} + i·G_{ba} = 2E_{ab}` and
    `G_{ab} − i·G_{ba} = 2E_{ba}` (all entries). -/
theorem genGellMann_spans_offdiag (a b i j : Nat) (hab : a < b) :
    genGellMann a b i j + (⟨0, 1⟩ : GI) * genGellMann b a i j = (if i = a ∧ j = b then ⟨2, 0⟩ else 0) ∧
    genGellMann a b i j + (⟨0, -1⟩ : GI) * genGellMann b a i j = (if i = b ∧ j = a then ⟨2, 0⟩ else 0) :=
  genGellMann_offdiag_unit a b i j hab

/-- **… and the diagonal matrix units**, every `d ≥ 1`: with `D_l = diag(genGellMann l l)`,
    `E_{kk} = (1/d)·G_{00} + Σ_{l=1}^{d-1} D_l[k]/(l(l+1))·(numerator of G_{ll})`; entrywise
    `1/d + Σ_{l=1}^{d-1} D_l[k] D_l[i]/(l(l+1)) = δ_{ki}`.  Together with trace-orthogonality the `d²` matrices are an
    operator basis. -/
theorem genGellMann_spans_diag {α : Type} [Field α] [CharZero α] (d : Nat) (hd : 0 < d) (k i : Nat)
    (hk : k < d) (hi : i < d) :
    1 / (d : α) + sumN d (fun l => if l = 0 then 0 else
        (((genGellMann l l k k).re : Int) : α) * (((genGellMann l l i i).re : Int) : α) / ((l : α) * ((l : α) + 1)))
      = if k = i then 1 else 0 := by
  obtain ⟨n, rfl⟩ : ∃ n, d = n + 1 := ⟨d - 1, by omega⟩
  rw [← gm_diag_complete_succ n k i hk hi]
  congr 1
  apply sumN_congr
  intro l _
  unfold gmTerm
  rw [genGellMann_diag, genGellMann_diag, if_pos rfl, if_pos rfl]
  rfl

/-- **The dimension guard of `mutually_unbiased_basis` is a primality test**: the model takes the "build the bases" branch
    exactly for prime `d` (so the hypothesis `p.Prime` of `mub_unbiased` is what the code checks). -/
theorem mub_guard_prime (d : Nat) : mubGuard d = 0 ↔ d.Prime := by
  unfold mubGuard
  rw [← isPrimeB_iff]
  by_cases h : isPrimeB d = true
  · simp [h]
  · simp only [h, if_false, Bool.false_eq_true, iff_false]
    split <;> omega

/-! ## BB84, trine, Gisin, Pusey–Barrett–Rudolph, Breuer, Brauer, chessboard states -/

/-- **BB84: both bases are orthonormal** (`⟨u_m, u_{m'}⟩ = den2·δ`). -/
theorem bb84_orthonormal : ∀ b, b < 2 → ∀ m, m < 2 → ∀ m', m' < 2 →
    inner 2 (bb84S b m) (bb84S b m') = if m = m' then (bb84Den2 b : Int) else 0 := by decide

/-- **BB84: the two bases are mutually unbiased**: `|⟨z_m, x_{m'}⟩|²·2 = 1·2`, i.e. `1/2` after normalisation. -/
theorem bb84_unbiased : ∀ m, m < 2 → ∀ m', m' < 2 →
    inner 2 (bb84S 0 m) (bb84S 1 m') * inner 2 (bb84S 0 m) (bb84S 1 m') * 2 = (bb84Den2 0 * bb84Den2 1 : Nat) := by decide

/-- **Trine states: Gram matrix** `⟨ψ_i, ψ_j⟩ = 1` for `i = j` and `-1/2` otherwise (components are `(p + q√3)/2`; the
    products are computed in `ℤ[√3]` and carry the factor `1/4`). -/
theorem trine_gram : ∀ i, i < 3 → ∀ j, j < 3 →
    addR3 (mulR3 (trineS i 0) (trineS j 0)) (mulR3 (trineS i 1) (trineS j 1)) = if i = j then (4, 0) else (-2, 0) := by
  decide

/-- **Trine states sum to zero** (they form a symmetric frame). -/
theorem trine_sum_zero : ∀ x, x < 2 → addR3 (addR3 (trineS 0 x) (trineS 1 x)) (trineS 2 x) = (0, 0) := by decide

/-- **Gisin states are the documented mixture**: `ρ_{λ,θ} = λ|ψ_θ⟩⟨ψ_θ| + (1−λ)(|00⟩⟨00| + |11⟩⟨11|)/2` with
    `ψ_θ = sin θ|01⟩ − cos θ|10⟩` (the code's `-sin(2θ)/2` is `-sin θ cos θ`). -/
theorem gisin_mixture {α : Type} [Field α] (lam s c : α) (h2 : (2 : α) ≠ 0) (i j : Nat) (hi : i < 4) (hj : j < 4) :
    gisin lam s c i j = lam * (gisinPsi s c i * gisinPsi s c j)
      + (1 - lam) * (if i = j ∧ (i = 0 ∨ i = 3) then 1 else 0) / 2 :=
  gisin_entry lam s c h2 i j hi hj

/-- **Gisin states have trace one** for every `λ` and every angle (`cos² + sin² = 1`). -/
theorem gisin_trace_one {α : Type} [Field α] (lam s c : α) (h2 : (2 : α) ≠ 0) (h : c * c + s * s = 1) :
    trace 4 (gisin lam s c) = 1 :=
  gisin_trace lam s c h2 h

/-- **Gisin states are positive semidefinite for every admissible `λ ∈ [0, 1]`** and every angle. -/
theorem gisin_psd {α : Type} [Field α] [LinearOrder α] [IsStrictOrderedRing α] (lam s c : α) (h0 : 0 ≤ lam)
    (h1 : lam ≤ 1) : PSD 4 (gisin lam s c) :=
  gisin_psd_aux lam s c h0 h1

/-- **PBR states: the Gram matrix factorises over the qubits**, every `n`: `⟨Ψ_t, Ψ_{t'}⟩ = Π_k g(t_k, t'_k)` with
    `g = c² + s²` for equal bits and `c² − s²` for different bits (`c = cos(θ/2)`, `s = sin(θ/2)`). -/
theorem pbr_gram {α : Type} [CommRing α] (c s : α) (n t t' : Nat) :
    inner (2 ^ n) (pbrVec c s n t) (pbrVec c s n t') = pbrGram c s n t t' :=
  pbr_gram_aux c s n t t'

/-- **PBR states: `⟨Ψ_t, Ψ_{t'}⟩ = cos(θ)^{Hamming distance(t, t')}`** (`cos θ = c² − s²`), every `n`; in particular all
    states are normalised. -/
theorem pbr_gram_cos {α : Type} [CommRing α] (c s : α) (h : c * c + s * s = 1) (n t t' : Nat) :
    inner (2 ^ n) (pbrVec c s n t) (pbrVec c s n t') = (c * c - s * s) ^ popcount n (t ^^^ t') := by
  rw [pbr_gram, pbrGram_pow c s h]

example : (4 / 5 : ℚ) * (4 / 5) + (3 / 5) * (3 / 5) = 1 := by norm_num

/-- **Breuer: mirror = closed form** for the pure component: `kron(I, V) @ max_entangled(d)` has the amplitude
    `(-1)^{j+1}/√d` at `|i, j⟩` with `i + j = d − 1` and `0` elsewhere — every `d`. -/
theorem breuerPsi_mirror_eq (d r : Nat) (hr : r < d * d) : breuerPsiMirror d r = breuerPsi d r :=
  breuerPsiMirror_eq_aux d r hr

/-- The pure component of the Breuer state is normalised (`Σ ψ² = d` on the numerators), every `d`. -/
theorem breuer_psi_normalised (d : Nat) : inner (d * d) (breuerPsi d) (breuerPsi d) = (d : Int) :=
  breuerPsi_norm d

/-- **For even `d` the pure component is antisymmetric** under exchange of the two parties (it lies in the
    antisymmetric subspace, orthogonal to the support of the symmetric projection). -/
theorem breuer_psi_antisymmetric (d r : Nat) (hd : d % 2 = 0) (hr : r < d * d) :
    breuerPsi d (swapIdx d r) = -breuerPsi d r :=
  breuerPsi_antisym d r hd hr

/-- **Breuer states have trace one**, every `d`, every `λ`. -/
theorem breuer_trace_one {α : Type} [Field α] (d : Nat) (lam : α) (h2 : (2 : α) ≠ 0) (hd : (d : α) ≠ 0)
    (hd1 : (d : α) + 1 ≠ 0) : trace (d * d) (breuer d (breuerPsi d) lam) = 1 :=
  breuer_trace d lam h2 hd hd1

/-- **Breuer states are positive semidefinite for every `λ ∈ [0, 1]`**, every `d ≥ 1`. -/
theorem breuer_psd {α : Type} [Field α] [LinearOrder α] [IsStrictOrderedRing α] (d : Nat) (hd : 0 < d) (lam : α)
    (h0 : 0 ≤ lam) (h1 : lam ≤ 1) : PSD (d * d) (breuer d (breuerPsi d) lam) :=
  breuer_psd_aux d hd lam h0 h1

/-- **Brauer: the `p`-fold tensor power of `Σ_i |ii⟩`** has amplitude `1` on `|x_0 … x_{2p−1}⟩` iff `x_{2k} = x_{2k+1}` for all
    `k`, else `0` — every `d`, `p`. -/
theorem brauer_phi (d : Nat) (x : Nat → Nat) (p : Nat) (hx : ∀ k, k < 2 * p → x k < d) :
    brauerPhi d p (index d (2 * p) x) = if ∀ k, k < p → x (2 * k) = x (2 * k + 1) then 1 else 0 :=
  brauerPhi_enc d x p hx

/-- **Brauer columns (mirror = spec)**: for every permutation `σ` of the `2p` parties (every row of
    `perfect_matchings(2p)` is one), `permute_systems(phi, σ)` has amplitude `1` on `|y_0 … y_{2p−1}⟩` iff
    `y_{σ⁻¹(2k)} = y_{σ⁻¹(2k+1)}` for all `k < p` — the parties sitting at the positions whose `σ`-values are `2k`, `2k+1` are
    maximally entangled — and `0` otherwise. -/
theorem brauer_column (d p : Nat) (hd : 0 < d) (mt : List Nat)
    (hlt : ∀ k, k < 2 * p → (fnOfList mt) k < 2 * p)
    (hinj : ∀ a b, a < 2 * p → b < 2 * p → (fnOfList mt) a = (fnOfList mt) b → a = b) (j : Nat) :
    brauerCol d p mt j
      = if ∀ k, k < p → digit d (2 * p) j (invPerm (2 * p) (fnOfList mt) (2 * k))
            = digit d (2 * p) j (invPerm (2 * p) (fnOfList mt) (2 * k + 1)) then 1 else 0 :=
  brauerCol_eq d p hd mt hlt hinj j

/-- **Every Brauer column has squared norm `d^p`** (documented: unnormalised states). -/
theorem brauer_column_norm (d p : Nat) (hd : 0 < d) (mt : List Nat)
    (hlt : ∀ k, k < 2 * p → (fnOfList mt) k < 2 * p)
    (hinj : ∀ a b, a < 2 * p → b < 2 * p → (fnOfList mt) a = (fnOfList mt) b → a = b) :
    inner ((d * d) ^ p) (brauerCol d p mt) (brauerCol d p mt) = (d : Int) ^ p :=
  brauerCol_sq_sum d p hd mt hlt hinj

/-- the hypotheses of `brauer_column` hold for the rows of `perfect_matchings(4)` -/
example : ∀ mt ∈ Toq.Combinat.perfectMatchings (List.range 4),
    (∀ k, k < 4 → (fnOfList mt) k < 4) ∧ (∀ a, a < 4 → ∀ b, b < 4 → (fnOfList mt) a = (fnOfList mt) b → a = b) := by
  decide

/-- **Chessboard states have trace one** whenever the normalisation `tr Σ_k v_k† v_k` is non-zero. -/
theorem chessboard_trace_one {α : Type} [Field α] [HasConj α] (pr : Nat → α) (s t : α)
    (h : trace 9 (chessNum pr s t) ≠ 0) : trace 9 (chessboard pr s t) = 1 :=
  chessboard_trace_aux pr s t h

/-- **Chessboard states are Hermitian** (`conj` any involutive ring homomorphism, e.g. complex conjugation), all parameters
    including explicitly passed `s`, `t`. -/
theorem chessboard_hermitian {α : Type} [Field α] [HasConj α] (σ : α →+* α) (hσ : ∀ x : α, HasConj.conj x = σ x)
    (hinv : ∀ x, σ (σ x) = x) (pr : Nat → α) (s t : α) (i j : Nat) :
    HasConj.conj (chessboard pr s t i j) = chessboard pr s t j i :=
  chessboard_hermitian_aux σ hσ hinv pr s t i j

/-! ## argument handling of `werner`, consistency between the families -/

/-- **The party-count loop of `werner` (list form) accepts exactly the lengths `p! − 1`** (checked for every length
    `1 … 129`, i.e. `p = 2 … 5`): the mirrored loop `n_var //= i …` together with the later row access `sorted_perms[i]`
    agrees with the specification "`len(alpha) + 1 = p!`".  (Lengths such as `6` or `24 … 28` pass the loop itself and die with
    an `IndexError` in the row access; the model counts that as a rejection.) -/
theorem wernerParties_spec : ∀ len, len < 130 → 0 < len → wernerParties len = factInv (len + 1) := by decide +kernel

/-- **`bell(idx)` as written in the code** (`kron(e_a, e_b) ± kron(e_c, e_d)`) is the table used above. -/
theorem bellMirror_eq : ∀ idx, idx < 4 → ∀ k, k < 4 → bellMirror idx k = bellS idx k := by decide

/-- **For `d = 2` the generalised Bell states are the Bell states**: `gen_bell(a, b, 2) = |bell(2a + b)⟩⟨bell(2a + b)|`
    (`ω = −1`; numerators, both sides carry the factor `1/2`). -/
theorem genBell_two_eq_bell : ∀ a, a < 2 → ∀ b, b < 2 → ∀ r, r < 4 → ∀ c, c < 4 →
    vecF 2 (genPauli (-1 : Int) 2 a b) r * vecF 2 (genPauli (-1 : Int) 2 a b) c
      = bellS (2 * a + b) r * bellS (2 * a + b) c := by decide

/-- **The Gell-Mann matrices are the generalised Gell-Mann matrices for `d = 3`**: `λ_1 … λ_8 =
    G_{01}, G_{10}, G_{11}, G_{02}, G_{20}, G_{12}, G_{21}, G_{22}` (numerators; the normalisations agree:
    `gellMannDen2 8 = genGellMannDen2 2 2 = 3`). -/
theorem gellMann_eq_genGellMann : ∀ i, i < 3 → ∀ j, j < 3 →
    gellMann 1 i j = genGellMann 0 1 i j ∧ gellMann 2 i j = genGellMann 1 0 i j ∧ gellMann 3 i j = genGellMann 1 1 i j ∧
    gellMann 4 i j = genGellMann 0 2 i j ∧ gellMann 5 i j = genGellMann 2 0 i j ∧ gellMann 6 i j = genGellMann 1 2 i j ∧
    gellMann 7 i j = genGellMann 2 1 i j ∧ gellMann 8 i j = genGellMann 2 2 i j ∧ gellMann 0 i j = genGellMann 0 0 i j := by
  decide

/-- **The Pauli matrices are the generalised Gell-Mann matrices for `d = 2`.** -/
theorem pauli_eq_genGellMann : ∀ i, i < 2 → ∀ j, j < 2 →
    pauli 1 i j = genGellMann 0 1 i j ∧ pauli 2 i j = genGellMann 1 0 i j ∧ pauli 3 i j = genGellMann 1 1 i j ∧
    pauli 0 i j = genGellMann 0 0 i j := by decide

/-- **Tile states are product vectors**: each is `u ⊗ w` for explicit `u, w ∈ C³`. -/
theorem tile_product : ∀ a, a < 5 → ∃ u w : Nat → Int, ∀ k, tileS a k = u (k / 3) * w (k % 3) := by
  intro a ha
  interval_cases a <;> first | exact ⟨_, _, fun _ => rfl⟩ | exact ⟨fun _ => 1, fun _ => 1, fun _ => rfl⟩

/-- **Domino states are product vectors.** -/
theorem domino_product : ∀ a, a < 9 → ∃ u w : Nat → Int, ∀ k, dominoS a k = u (k / 3) * w (k % 3) := by
  intro a ha
  interval_cases a <;> exact ⟨_, _, fun _ => rfl⟩

/-! ## multipartite Werner states: invariance under `U^{⊗p}` -/

/-- `U^{⊗2}` in the digit form used below is the Kronecker square `U ⊗ U` of the bipartite theorems. -/
theorem tensorPow_two_eq_kron {α : Type} [CommRing α] (d : Nat) (U : Nat → Nat → α) (r c : Nat) (hr : r < d * d)
    (hc : c < d * d) : tensorPow d 2 U r c = kron2 d U U r c :=
  tensorPow_two d U r c hr hc

/-- **toqito's permutation operators commute with `U^{⊗p}`** — every matrix `U`, every local dimension `d ≥ 1`, every
    number of parties `p`, every permutation of the parties: `P_σ U^{⊗p} = U^{⊗p} P_σ` (entries of the mirror model of
    `permutation_operator`). -/
theorem permOp_commutes_tensor {α : Type} [CommRing α] (d p : Nat) (hd : 0 < d) (U : Nat → Nat → α) (f : Nat → Nat)
    (hlt : ∀ k, k < p → f k < p) (hinj : ∀ a b, a < p → b < p → f a = f b → a = b) (r c : Nat)
    (hr : r < d ^ p) (hc : c < d ^ p) :
    matMul (d ^ p) (Toq.Perms.permOp p f (fun _ => d) false) (tensorPow d p U) r c
      = matMul (d ^ p) (tensorPow d p U) (Toq.Perms.permOp p f (fun _ => d) false) r c :=
  permOp_commutes_tensorPow d p hd U f hlt hinj r c hr hc

/-- **Multipartite Werner states (list form) are `U^{⊗p}` invariant**: `I − Σ_k α_k P(σ_k)`, normalised, commutes with
    `U^{⊗p}` for every matrix `U` (for unitary `U`: `U^{⊗p} ρ (U^{⊗p})† = ρ`) — every `d`, every coefficient list, both
    conventions for the permutation operator, every `p` for which the enumerated index lists are permutations
    (`WernerPermsValid`, which holds by evaluation for `p = 2, 3, 4`: next theorem). -/
theorem wernerList_tensor_invariant {α : Type} [Field α] (d p : Nat) (hd : 0 < d) (alphas : List α) (argsort : Bool)
    (hperm : WernerPermsValid p argsort) (U : Nat → Nat → α) (r c : Nat) (hr : r < d ^ p) (hc : c < d ^ p) :
    matMul (d ^ p) (wernerList d p alphas argsort) (tensorPow d p U) r c
      = matMul (d ^ p) (tensorPow d p U) (wernerList d p alphas argsort) r c :=
  wernerList_commutes_tensorPow d p hd alphas argsort hperm U r c hr hc

/-- The enumeration `itertools.permutations(range(p))[1:]` (and its `argsort`) consists of permutations for `p = 2, 3, 4`,
    so `wernerList_tensor_invariant` applies to every bi-, tri- and four-partite Werner state. -/
theorem wernerPerms_valid : WernerPermsValid 2 true ∧ WernerPermsValid 2 false ∧ WernerPermsValid 3 true ∧
    WernerPermsValid 3 false ∧ WernerPermsValid 4 true ∧ WernerPermsValid 4 false :=
  wernerPermsValid_small


/-! ## coefficient vectors are normalised at every scale -/

/-- **`ghz(d, n, coeff)` does not depend on the scale of `coeff`**: normalising `t·c` (divide by `‖t·c‖`) and filling gives,
    entry by entry, the state obtained from `c` — every `d`, `n`, real coefficient vector `c`, every `t > 0` (norms far
    below or above 1 included: no threshold on `‖coeff‖` is part of the definition). -/
theorem ghz_coeff_scale_invariant (d n : Nat) (c : Nat → ℝ) (t : ℝ) (ht : 0 < t) (j : Nat) :
    ghzGenG d n (fun i => t * c i) j / Real.sqrt (sumN d (fun i => (t * c i) * (t * c i)))
      = ghzGenG d n c j / Real.sqrt (sumN d (fun i => c i * c i)) := by
  rw [sumN_scale_sq]
  exact pickG_normalised_scale t ht d (ghzIdx d n) c _ j

/-- **`w_state(n, coeff)` does not depend on the scale of `coeff`** — every `n`, real `c`, `t > 0`. -/
theorem w_coeff_scale_invariant (n : Nat) (c : Nat → ℝ) (t : ℝ) (ht : 0 < t) (j : Nat) :
    wGenG n (fun i => t * c i) j / Real.sqrt (sumN n (fun i => (t * c i) * (t * c i)))
      = wGenG n c j / Real.sqrt (sumN n (fun i => c i * c i)) := by
  rw [sumN_scale_sq]
  exact pickG_normalised_scale t ht n (fun i => 2 ^ i) (fun i => c (n - i - 1)) _ j

/-- **Oracle of the scaled-coefficient check (GHZ)**: for an integer vector `c` and any `t > 0` the state built from the
    coefficients `t·c` is `ghzGen d n c / √(Σ c_i²)` — exactly what the driver reports for `c` (numerators `ghzGen`,
    `den2 = Σ c_i²`), to which `ghz_support` / `ghz_norm` apply. -/
theorem ghz_scaled_coeff_model (d n : Nat) (c : Nat → Int) (t : ℝ) (ht : 0 < t) (j : Nat) :
    ghzGenG d n (fun i => t * (c i : ℝ)) j / Real.sqrt (sumN d (fun i => (t * (c i : ℝ)) * (t * (c i : ℝ))))
      = ((ghzGen d n c j : Int) : ℝ) / Real.sqrt ((sumN d (fun i => c i * c i) : Int) : ℝ) := by
  rw [ghz_coeff_scale_invariant d n (fun i => (c i : ℝ)) t ht j, ghzGenG_cast, sumN_int_cast]
  simp only [Int.cast_mul]

/-- **Oracle of the scaled-coefficient check (W state)**: likewise `wGen n c / √(Σ c_i²)`. -/
theorem w_scaled_coeff_model (n : Nat) (c : Nat → Int) (t : ℝ) (ht : 0 < t) (j : Nat) :
    wGenG n (fun i => t * (c i : ℝ)) j / Real.sqrt (sumN n (fun i => (t * (c i : ℝ)) * (t * (c i : ℝ))))
      = ((wGen n c j : Int) : ℝ) / Real.sqrt ((sumN n (fun i => c i * c i) : Int) : ℝ) := by
  rw [w_coeff_scale_invariant n (fun i => (c i : ℝ)) t ht j, wGenG_cast, sumN_int_cast]
  simp only [Int.cast_mul]

example : (0 : ℝ) < (2 : ℝ)⁻¹ ^ 60 := by positivity


end Toq.C17
