import Toq.Proofs.Rand
/-!
# C19 — random generators, pretty good / pretty bad measurement, `measure`

Scheme C (DESIGN.md §2): NumPy's PCG64 bit stream and LAPACK's factorizations are runtime behaviour no model exhibits.
What is logic, and is proved here for **all** dimensions, seeds, histories and raw draws:

* **Seeding discipline** (`Toq.Rand.step`, `Toq.Rand.run`): a seeded call's output is a function of
  (generator, arguments, seed) wherever it occurs in a history, and deleting seeded calls (resp. all toqito calls) from a
  history changes nothing that the remaining operations (resp. the global generator) can observe.  The correspondence
  check drives random histories through the real code and compares the equality pattern with the model's.
* **Post-processing**: whatever the raw draws `G`, `Q`, `R`, eigenvectors, singular vectors … are, the formula applied to
  them yields an object of the advertised kind, *given the stated relation the LAPACK factor satisfies*
  (`Qᴴ Q = 1`, `S = U diag(s) Uᴴ`, `s > 0`, …).  The harness checks these kinds on the real outputs.
* **PGM / PBM / `measure`**: pure matrix algebra.

Not provable (checked numerically only): "different seeds give different objects", the Barnum–Knill bound
`P_opt² ≤ P_pgm ≤ P_opt` (cited), invertibility of `Σ pᵢρᵢ` for a concrete ensemble.
-/

open Matrix
open scoped ComplexOrder MatrixOrder

namespace Toq.C19
open Toq.Rand Toq.Perms

/-! ## Seeding discipline -/

section machine
variable {Gen Args Seed G E V : Type}

/-- **Same seed ⇒ same object, regardless of earlier calls and of the global random state.**  Wherever
`gen(args, seed=s)` occurs (position `i`) in whatever history `h`, started in whatever world `w` (global NumPy generator
state, OS entropy pool), its output is `draws gen args s`. -/
theorem seeded_output_history_independent (env : Env Gen Args Seed G E V) (g : Gen) (a : Args) (s : Nat)
    (h : List (Op Gen Args)) (w : World G E) (i : Nat) (hi : h[i]? = some (.seeded g a s)) :
    (run env w h).2[i]? = some (some (env.draws g a (env.user s))) :=
  seeded_output_at env g a s h w i hi

/-- Two occurrences of the same seeded call — in two different histories, worlds and positions — return the same object. -/
theorem same_seed_same_output (env : Env Gen Args Seed G E V) (g : Gen) (a : Args) (s : Nat)
    (h h' : List (Op Gen Args)) (w w' : World G E) (i i' : Nat)
    (hi : h[i]? = some (.seeded g a s)) (hi' : h'[i']? = some (.seeded g a s)) :
    (run env w h).2[i]? = (run env w' h').2[i']? := by
  rw [seeded_output_at env g a s h w i hi, seeded_output_at env g a s h' w' i' hi']

/-- **Seeded calls are invisible to everything else.**  Deleting all seeded calls from a history leaves the final world
(global generator state, entropy pool) and the outputs of all remaining operations (global draws, unseeded calls, other
generators) unchanged. -/
theorem seeded_calls_do_not_disturb (env : Env Gen Args Seed G E V) (h : List (Op Gen Args)) (w : World G E) :
    run env w (h.filter (fun op => !op.isSeeded))
      = ((run env w h).1, outputsWhere (fun op => !op.isSeeded) h (run env w h).2) :=
  run_filter_not_seeded env h w

/-- **No toqito call touches NumPy's global generator.**  The global-generator operations (`np.random.seed`,
`np.random.rand`) see the same state trajectory and return the same values when *all* other operations (seeded and
unseeded generator calls, private `default_rng` draws) are deleted from the history. -/
theorem toqito_calls_do_not_disturb_global (env : Env Gen Args Seed G E V) (h : List (Op Gen Args)) (w : World G E) :
    (run env w (h.filter Op.isGlobal)).1.glob = (run env w h).1.glob ∧
    (run env w (h.filter Op.isGlobal)).2 = outputsWhere Op.isGlobal h (run env w h).2 :=
  global_view env h w w rfl

/-- a history with repeated seeds, an unseeded call, re-seeding of the global generator and global draws: positions 0 and 4
(same generator, arguments, seed) fall in one class, the two global draws after `np.random.seed(7)` at positions 2 and 7
coincide, everything else is distinct -/
example :
    classIds (run symEnv symWorld0
      [.seeded 0 1 5, .npSeed 7, .globalDraw, .unseeded 0 1, .seeded 0 1 5, .seeded 0 1 6, .npSeed 7, .globalDraw,
       .globalDraw, .rngDraw 5, .rngDrawFresh]).2
      = [some 0, none, some 2, some 3, some 0, some 5, none, some 2, some 8, some 9, some 10] := by decide

end machine

/-! ## Post-processing of the generators -/

/-- **`random_density_matrix`**: for every `d×k` factor `G` (the Ginibre draw, `k = k_param`) with `tr(G Gᴴ) ≠ 0`, the
returned `G Gᴴ / tr(G Gᴴ)` is positive semidefinite, has trace one and rank at most `k`. -/
theorem density_post {d k : Nat} (G : Matrix (Fin d) (Fin k) ℂ) (h : (G * Gᴴ).trace ≠ 0) :
    (densityOf G).PosSemidef ∧ (densityOf G).trace = 1 ∧ (densityOf G).rank ≤ k :=
  ⟨density_psd G, density_trace G h, density_rank G⟩

/-- hypothesis of `density_post`: the `2×1` factor `(1, i)ᵀ` has `tr(G Gᴴ) = 2 ≠ 0` -/
example : let G : Matrix (Fin 2) (Fin 1) ℂ := Matrix.of fun i _ => if i = 0 then 1 else Complex.I
    (G * Gᴴ).trace ≠ 0 := by
  intro G
  have : (G * Gᴴ).trace = 2 := by
    simp [Matrix.trace, Matrix.diag, Matrix.mul_apply, G, Fin.sum_univ_two]
    norm_num
  rw [this]; norm_num

/-- **Bures option** (`(𝟙 + U) G` with `U` the random unitary and `G` the `d×k` Ginibre draw): the final factor still has `k`
columns, so the result is a density operator of rank at most `k`.
(Without the parentheses, `U + 𝟙 @ G`, the factor is `U + G`: a `d×d` matrix when `k = d` — `density_post` then only gives rank
`≤ d` — and a broadcast / shape error when `k < d`; the correspondence check reports that.  The hypothesis fails exactly when
`(𝟙 + U) G = 0`, which for random draws happens only for `d = 1`, `U = −1`: there the code must not divide by the zero trace.) -/
theorem density_bures_post {d k : Nat} (U : Matrix (Fin d) (Fin d) ℂ) (G : Matrix (Fin d) (Fin k) ℂ)
    (h : (((1 + U) * G) * ((1 + U) * G)ᴴ).trace ≠ 0) :
    (densityOf ((1 + U) * G)).PosSemidef ∧ (densityOf ((1 + U) * G)).trace = 1 ∧
      (densityOf ((1 + U) * G)).rank ≤ k :=
  density_post ((1 + U) * G) h

/-- **`random_unitary`, the QR phase fix**: a unitary (over `ℝ`: orthogonal) `Q` times a diagonal matrix of unimodular
entries is unitary (orthogonal) — on both sides. -/
theorem unitary_post {R : Type*} [CommRing R] [StarRing R] {ι : Type*} [Fintype ι] [DecidableEq ι]
    (Q : Matrix ι ι R) (u : ι → R) (hQ : Qᴴ * Q = 1) (hu : ∀ i, star (u i) * u i = 1) :
    (Q * diagonal u)ᴴ * (Q * diagonal u) = 1 ∧ (Q * diagonal u) * (Q * diagonal u)ᴴ = 1 :=
  ⟨unitary_post_left Q u hQ hu, unitary_post_right Q u hQ hu⟩

/-- hypotheses of `unitary_post` on a non-trivial instance: `Q` the swap matrix, phases `i` and `-1` -/
example : (!![0, 1; 1, 0] : Matrix (Fin 2) (Fin 2) ℂ)ᴴ * !![0, 1; 1, 0] = 1 ∧
    ∀ i : Fin 2, star ((![Complex.I, -1] : Fin 2 → ℂ) i) * (![Complex.I, -1] : Fin 2 → ℂ) i = 1 := by
  constructor
  · ext a b; fin_cases a <;> fin_cases b <;> simp [Matrix.mul_apply, Fin.sum_univ_two]
  · intro i; fin_cases i <;> simp

/-- complex case with the code's diagonal `np.sign(np.diag(R))`, zeros replaced by 1 -/
theorem unitary_post_csign {ι : Type*} [Fintype ι] [DecidableEq ι] (Q : Matrix ι ι ℂ) (r : ι → ℂ) (hQ : Qᴴ * Q = 1) :
    (Q * diagonal fun i => csign (r i))ᴴ * (Q * diagonal fun i => csign (r i)) = 1 :=
  unitary_post_left Q _ hQ (fun i => csign_unimodular (r i))

/-- real case (`is_real=True`): the result is orthogonal (`ᴴ` over `ℝ` is the transpose) -/
theorem orthogonal_post_rsign {ι : Type*} [Fintype ι] [DecidableEq ι] (Q : Matrix ι ι ℝ) (r : ι → ℝ) (hQ : Qᵀ * Q = 1) :
    (Q * diagonal fun i => rsign (r i))ᵀ * (Q * diagonal fun i => rsign (r i)) = 1 := by
  have := unitary_post_left Q (fun i => rsign (r i)) (by simpa [conjTranspose_eq_transpose_of_trivial] using hQ)
    (fun i => rsign_unimodular (r i))
  simpa [conjTranspose_eq_transpose_of_trivial] using this

/-- **`random_orthonormal_basis`**: the columns of a unitary matrix are orthonormal. -/
theorem orthonormal_basis_post {ι : Type*} [Fintype ι] [DecidableEq ι] (U : Matrix ι ι ℂ) (hU : Uᴴ * U = 1) (i j : ι) :
    ∑ r, star (U r i) * U r j = if i = j then 1 else 0 :=
  unitary_columns_orthonormal U hU i j

/-- **`random_psd_operator`**: `Q · diag(|λ|) · Qᴴ` is positive semidefinite for any square `Q` and real `λ`
(here `λ` = eigenvalues of the Hermitised draw, `Q` = QR factor of its eigenvectors). -/
theorem psd_post {ι : Type*} [Fintype ι] [DecidableEq ι] (Q : Matrix ι ι ℂ) (ev : ι → ℝ) :
    (Q * diagonal (fun i => ((|ev i| : ℝ) : ℂ)) * Qᴴ).PosSemidef :=
  Toq.Rand.psd_post Q ev

/-- **`random_povm`**, one input setting: with `S = Σ_y A_yᴴ A_y = U diag(s) Uᴴ` (`U` unitary, `s > 0`: the SVD of a positive
definite matrix) the operators `M_y = (A_y U diag(s^{-1/2}))ᴴ (A_y U diag(s^{-1/2}))` are positive semidefinite and sum to the
identity. -/
theorem povm_post {ι κ : Type*} [Fintype ι] [DecidableEq ι] [Fintype κ]
    (A : κ → Matrix ι ι ℂ) (U : Matrix ι ι ℂ) (s : ι → ℝ)
    (hU : Uᴴ * U = 1) (hs : ∀ i, 0 < s i)
    (hS : ∑ y, (A y)ᴴ * A y = U * diagonal (fun i => (s i : ℂ)) * Uᴴ) :
    IsPOVM (fun y => (A y * U * diagonal (fun j => (((Real.sqrt (s j))⁻¹ : ℝ) : ℂ)))ᴴ *
        (A y * U * diagonal (fun j => (((Real.sqrt (s j))⁻¹ : ℝ) : ℂ)))) :=
  Toq.Rand.povm_post A U s hU hs hS

/-- the returned array has axes `(row, col, input, output)` -/
theorem povm_layout {α : Type} (P : Nat → Nat → Nat → Nat → α) (r c x y : Nat) :
    povmLayout P r c x y = P x y r c := rfl

/-- **Normalisation** (`random_states`, `random_state_vector`): a non-zero vector divided by its Euclidean norm is a unit
vector. -/
theorem normalise_unit {ι : Type*} [Fintype ι] (v : ι → ℂ) (h : ∑ i, Complex.normSq (v i) ≠ 0) :
    ∑ i, Complex.normSq (v i / ((Real.sqrt (∑ j, Complex.normSq (v j)) : ℝ) : ℂ)) = 1 :=
  Toq.Rand.normalise_unit v h

/-- **`random_state_vector`, mirror = closed form**: entry `s·d1+t` of `mat_1 @ mat_2` (Kronecker product of the draws,
`swap` of subsystems 2 and 3 of `[k,d0,k,d1]`, contraction with `⟨Σ_j jj|`) is `Σ_{j<k} a[j·d0+s] · b[j·d1+t]`,
over any commutative semiring. -/
theorem stateVector_mirror_eq_closed_form {α : Type} [CommSemiring α] (k d0 d1 : Nat) (a b : Nat → α)
    (hk : 0 < k) (h0 : 0 < d0) (h1 : 0 < d1) (s t : Nat) (hs : s < d0) (ht : t < d1) :
    svRaw k d0 d1 a b (s * d1 + t) = svAmp k d0 d1 a b s t :=
  svRaw_eq_amp k d0 d1 a b hk h0 h1 s t hs ht

/-- **Schmidt rank ≤ `k_param`**: the `d0×d1` amplitude matrix of the returned vector (`c` = the normalisation factor) is
`c · Aᵀ B` with `A : k×d0`, `B : k×d1`, hence has rank at most `k`. -/
theorem stateVector_schmidt_le_k (k d0 d1 : Nat) (a b : Nat → ℂ) (c : ℂ) (hk : 0 < k) (h0 : 0 < d0) (h1 : 0 < d1) :
    (c • Matrix.of fun (s : Fin d0) (t : Fin d1) => svRaw k d0 d1 a b (s.val * d1 + t.val)).rank ≤ k := by
  have : (Matrix.of fun (s : Fin d0) (t : Fin d1) => svRaw k d0 d1 a b (s.val * d1 + t.val))
      = Matrix.of fun (s : Fin d0) (t : Fin d1) => svAmp k d0 d1 a b s.val t.val := by
    ext s t
    exact svRaw_eq_amp k d0 d1 a b hk h0 h1 s.val t.val s.isLt t.isLt
  rw [this]
  exact svAmp_rank_le k d0 d1 a b c

/-- the construction on `k = 2`, `d0 = 2`, `d1 = 3` with integer draws: mirror and closed form agree entry by entry -/
example : (List.range 6).map (svRaw 2 2 3 (fun i => (i : Int) + 1) (fun i => 2 * (i : Int) - 3))
    = (List.range 6).map (fun r => svAmp 2 2 3 (fun i => (i : Int) + 1) (fun i => 2 * (i : Int) - 3) (r / 3) (r % 3)) := by
  decide

/-- **`random_circulant_gram_matrix` is positive semidefinite**: `Re(Fᴴ diag(λ) F)` for `λ ≥ 0` (uniform draws in `[0,1)`),
as a real matrix, for the DFT matrix `F` with any root `ω` and scale `c`. -/
theorem circulant_gram_psd {d : Nat} (c : ℝ) (ω : ℂ) (lam : Fin d → ℝ) (h : ∀ k, 0 ≤ lam k) :
    (circGramRe d c ω lam).PosSemidef :=
  circGramRe_psd c ω lam h

/-- **… and circulant**: for a `d`-th root of unity `ω` of modulus one the `(i,j)` entry
`c² Σ_k λ_k ω^{k(j−i)}` (and so its real part) depends only on `(i − j) mod d`. -/
theorem circulant_gram_circulant {d : Nat} (c : ℝ) (ω : ℂ) (lam : Fin d → ℝ) (hω : ω ^ d = 1) (hu : star ω * ω = 1)
    (i j i' j' : Fin d) (h : (i.val + j'.val) % d = (i'.val + j.val) % d) :
    circGramRe d c ω lam i j = circGramRe d c ω lam i' j' := by
  unfold circGramRe
  rw [circGram_circulant c ω lam hω hu i j i' j' h]

/-- NumPy's DFT root `e^{-2πi/d}` satisfies the two hypotheses of `circulant_gram_circulant`. -/
theorem dftRoot_spec (d : Nat) (hd : 0 < d) : dftRoot d ^ d = 1 ∧ star (dftRoot d) * dftRoot d = 1 :=
  ⟨dftRoot_pow d hd, dftRoot_unimodular d⟩

/-! ## Pretty good / pretty bad measurement -/

/-- **PGM is a POVM** whenever `P = Σ pᵢρᵢ` is invertible: for positive semidefinite `ρᵢ`, `pᵢ ≥ 0` and a Hermitian `S`
with `S P S = 1` (`S = P^{-1/2}`), the operators `S (pᵢρᵢ) S` are positive semidefinite and sum to the identity. -/
theorem pgm_is_povm {ι κ : Type*} [Fintype ι] [DecidableEq ι] [Fintype κ]
    (ρ : κ → Matrix ι ι ℂ) (p : κ → ℝ) (S : Matrix ι ι ℂ)
    (hρ : ∀ i, (ρ i).PosSemidef) (hp : ∀ i, 0 ≤ p i) (hS : Sᴴ = S)
    (hSPS : S * (∑ i, (p i : ℂ) • ρ i) * S = 1) :
    IsPOVM (fun i => S * ((p i : ℂ) • ρ i) * S) :=
  Toq.Rand.pgm_is_povm ρ p S hρ hp hS hSPS

/-- hypotheses of `pgm_is_povm`: the ensemble `{(1/4, |0⟩⟨0|), (1/4, |1⟩⟨1|)}` (unnormalised priors) with `S = 2·𝟙` -/
example : let ρ : Fin 2 → Matrix (Fin 2) (Fin 2) ℂ := fun i => diagonal fun j => if j = i then 1 else 0
    let p : Fin 2 → ℝ := fun _ => 1 / 4
    let S : Matrix (Fin 2) (Fin 2) ℂ := (2 : ℂ) • 1
    (∀ i, (ρ i).PosSemidef) ∧ (∀ i, 0 ≤ p i) ∧ Sᴴ = S ∧ S * (∑ i, (p i : ℂ) • ρ i) * S = 1 := by
  intro ρ p S
  refine ⟨fun i => PosSemidef.diagonal (fun j => ?_), fun i => by norm_num, ?_, ?_⟩
  · show (0 : ℂ) ≤ if j = i then 1 else 0
    split_ifs
    · exact zero_le_one
    · exact le_refl _
  · ext a b; fin_cases a <;> fin_cases b <;> simp [S, Matrix.conjTranspose_apply, Matrix.smul_apply]
  · ext a b
    fin_cases a <;> fin_cases b <;>
      simp [S, ρ, p, Fin.sum_univ_two, Matrix.mul_apply, Matrix.smul_apply, Matrix.one_apply] <;> norm_num

/-- **PBM is a POVM**: for any POVM `G` with `n ≥ 2` outcomes, `Bᵢ = (1 − Gᵢ)/(n − 1)` is a POVM. -/
theorem pbm_is_povm {ι κ : Type*} [Fintype ι] [DecidableEq ι] [Fintype κ]
    (G : κ → Matrix ι ι ℂ) (hG : IsPOVM G) (hn : 2 ≤ Fintype.card κ) :
    IsPOVM (fun i => ((Fintype.card κ : ℂ) - 1)⁻¹ • (1 - G i)) :=
  Toq.Rand.pbm_is_povm G hG hn

/-- the hypotheses of `pgm_is_povm` / `pbm_is_povm` are satisfiable: the two-outcome computational-basis measurement -/
example : IsPOVM (fun i : Fin 2 => (diagonal fun j : Fin 2 => if j = i then (1 : ℂ) else 0)) := by
  refine ⟨fun i => PosSemidef.diagonal (fun j => ?_), ?_⟩
  · show (0 : ℂ) ≤ if j = i then 1 else 0
    split_ifs
    · exact zero_le_one
    · exact le_refl _
  · ext a b
    fin_cases a <;> fin_cases b <;> simp [Fin.sum_univ_two]

/-! ## `measure` -/

/-- **Born rule**: the probability `tr(K ρ Kᴴ)` computed by the code equals `tr(Kᴴ K ρ)`. -/
theorem measure_born {ι μ : Type*} [Fintype ι] [Fintype μ] (K : Matrix μ ι ℂ) (ρ : Matrix ι ι ℂ) :
    (K * ρ * Kᴴ).trace = (Kᴴ * K * ρ).trace :=
  Toq.Rand.measure_born K ρ

/-- for a positive semidefinite state the outcome probability is a non-negative real (taking `.real` loses nothing) -/
theorem measure_prob_nonneg {ι μ : Type*} [Fintype ι] [Fintype μ] (K : Matrix μ ι ℂ) (ρ : Matrix ι ι ℂ)
    (hρ : ρ.PosSemidef) : 0 ≤ (K * ρ * Kᴴ).trace.re ∧ (K * ρ * Kᴴ).trace.im = 0 :=
  measure_prob_real_nonneg K ρ hρ

/-- **probabilities of a complete measurement** (`Σ Kᵢᴴ Kᵢ = 1`) sum to `tr ρ`, i.e. to one for a density operator -/
theorem measure_probs_sum_one {ι μ κ : Type*} [Fintype ι] [DecidableEq ι] [Fintype μ] [Fintype κ]
    (K : κ → Matrix μ ι ℂ) (ρ : Matrix ι ι ℂ) (hK : ∑ i, (K i)ᴴ * K i = 1) (hρ : ρ.trace = 1) :
    ∑ i, (K i * ρ * (K i)ᴴ).trace.re = 1 :=
  Toq.Rand.measure_probs_sum_one K ρ hK hρ

/-- **post-measurement state** `K ρ Kᴴ / p` is positive semidefinite with trace one whenever `p ≠ 0` -/
theorem measure_post_normalised {ι μ : Type*} [Fintype ι] [Fintype μ] (K : Matrix μ ι ℂ) (ρ : Matrix ι ι ℂ)
    (hρ : ρ.PosSemidef) (hp : (K * ρ * Kᴴ).trace.re ≠ 0) :
    ((((K * ρ * Kᴴ).trace.re : ℝ) : ℂ)⁻¹ • (K * ρ * Kᴴ)).PosSemidef ∧
    ((((K * ρ * Kᴴ).trace.re : ℝ) : ℂ)⁻¹ • (K * ρ * Kᴴ)).trace = 1 :=
  Toq.Rand.measure_post_normalised K ρ hρ hp

end Toq.C19
