import Toq.Proofs.Rand
import Toq.Proofs.RandPgm
import Toq.Proofs.RandPost
import Toq.Proofs.RandCirc
import Toq.Proofs.RandTol
/-!
# C19 — random generators, pretty good / pretty bad measurement, `measure`

Scheme C (DESIGN.md §2): NumPy's PCG64 bit stream and LAPACK's factorizations are runtime behaviour no model exhibits.
What is logic, and is proved here for **all** dimensions, seeds, histories and raw draws:

* **Seeding discipline** (`Toq.Rand.step`, `Toq.Rand.run`): a seeded call's output is a function of
  (generator, arguments, seed) wherever it occurs in a history, and deleting seeded calls (resp. all toqito calls) from a
  history changes nothing that the remaining operations (resp. the global generator) can observe.  The correspondence
  check drives random histories through the real code and compares the equality pattern with the model's.
* **Post-processing**: whatever the raw draws `G`, `Q`, `R`, eigenvectors, singular vectors … are, the formula applied to
  them yields an object of the advertised kind, *given the stated relation the LAPACK factor satisfies*
  (`Qᴴ Q = 1`, `S = U diag(s) Uᴴ`, `s > 0`, …).  The harness checks these kinds on the real outputs.
* **PGM / PBM / `measure`**: pure matrix algebra.

* **Draw programs** (`Toq.Rand.trace`): for every generator, option combination and `dim` form the sequence of
  generator constructions and draws (method, shape); the abstract `draws` of the state machine is refined to "post-processing of
  the arrays this program yields from fresh generators of the seed".  The harness records the real events of every call
  (proxy around `np.random.default_rng`) and compares them, and the arrays, with the program.
* **Executable post-processing models** (`Toq/Model/RandPost.lean`) are proved to be the formulas of the theorems
  (`…_model_refines`); the harness evaluates them exactly on the raw draws / LAPACK factors the code saw and compares with the
  returned floats.
* **Barnum–Knill** `P_opt² ≤ P_pgm ≤ P_opt` is proved (`barnum_knill`, `pgm_between_sq_opt_and_opt`), as are existence and
  uniqueness of the normaliser of a spanning ensemble.

Not provable (checked numerically only): "different seeds give different objects" (a statement about PCG64 streams), an unseeded
call not being reproducible (OS entropy).
-/

open Matrix
open scoped ComplexOrder MatrixOrder

namespace Toq.C19
open Toq.Rand Toq.Perms

/-! ## Seeding discipline -/

section machine
variable {Gen Args Seed G E V : Type}

/-- **Same seed ⇒ same object, regardless of earlier calls and of the global random state.**  Wherever
`gen(args, seed=s)` occurs (position `i`) in whatever history `h`, started in whatever world `w` (global NumPy generator
state, OS entropy pool), its output is `draws gen args s`. -/
theorem seeded_output_history_independent (env : Env Gen Args Seed G E V) (g : Gen) (a : Args) (s : Nat)
    (h : List (Op Gen Args)) (w : World G E) (i : Nat) (hi : h[i]? = some (.seeded g a s)) :
    (run env w h).2[i]? = some (some (env.draws g a (env.user s))) :=
  seeded_output_at env g a s h w i hi

/-- Two occurrences of the same seeded call — in two different histories, worlds and positions — return the same object. -/
theorem same_seed_same_output (env : Env Gen Args Seed G E V) (g : Gen) (a : Args) (s : Nat)
    (h h' : List (Op Gen Args)) (w w' : World G E) (i i' : Nat)
    (hi : h[i]? = some (.seeded g a s)) (hi' : h'[i']? = some (.seeded g a s)) :
    (run env w h).2[i]? = (run env w' h').2[i']? := by
  rw [seeded_output_at env g a s h w i hi, seeded_output_at env g a s h' w' i' hi']

/-- **Seeded calls are invisible to everything else.**  Deleting all seeded calls from a history leaves the final world
(global generator state, entropy pool) and the outputs of all remaining operations (global draws, unseeded calls, other
generators) unchanged. -/
theorem seeded_calls_do_not_disturb (env : Env Gen Args Seed G E V) (h : List (Op Gen Args)) (w : World G E) :
    run env w (h.filter (fun op => !op.isSeeded))
      = ((run env w h).1, outputsWhere (fun op => !op.isSeeded) h (run env w h).2) :=
  run_filter_not_seeded env h w

/-- **No toqito call touches NumPy's global generator.**  The global-generator operations (`np.random.seed`,
`np.random.rand`) see the same state trajectory and return the same values when *all* other operations (seeded and
unseeded generator calls, private `default_rng` draws) are deleted from the history. -/
theorem toqito_calls_do_not_disturb_global (env : Env Gen Args Seed G E V) (h : List (Op Gen Args)) (w : World G E) :
    (run env w (h.filter Op.isGlobal)).1.glob = (run env w h).1.glob ∧
    (run env w (h.filter Op.isGlobal)).2 = outputsWhere Op.isGlobal h (run env w h).2 :=
  global_view env h w w rfl

/-- a history with repeated seeds, an unseeded call, re-seeding of the global generator and global draws: positions 0 and 4
(same generator, arguments, seed) fall in one class, the two global draws after `np.random.seed(7)` at positions 2 and 7
coincide, everything else is distinct -/
example :
    classIds (run symEnv symWorld0
      [.seeded 0 1 5, .npSeed 7, .globalDraw, .unseeded 0 1, .seeded 0 1 5, .seeded 0 1 6, .npSeed 7, .globalDraw,
       .globalDraw, .rngDraw 5, .rngDrawFresh]).2
      = [some 0, none, some 2, some 3, some 0, some 5, none, some 2, some 8, some 9, some 10] := by decide

/-- **The output of a seeded call is the post-processing of what its draw program yields from fresh generators of the seed.**
The machine environment is refined (`envOfPrim`): `prim` is the bit generator (PCG64: how a state is made from a seed, what a draw
returns — unknown to the model), `trace c` the draw program of the call `c`, `post` the post-processing.  Wherever
`gen(args, seed=s)` occurs in whatever history, its output is `post c (arrays of (trace c) from seed s)`. -/
theorem draws_are_function_of_seed {Seed St Arr G E V : Type} (prim : Prim Seed St Arr)
    (post : Call → Option (List (Option Arr)) → V) (user : Nat → Seed) (gseed : Nat → G) (gnext : G → G × V)
    (entropy : E → E × Seed) (rdraw : Seed → V) (c : Call) (s : Nat)
    (h : List (Op Unit Call)) (w : World G E) (i : Nat) (hi : h[i]? = some (.seeded () c s)) :
    (run (envOfPrim prim post user gseed gnext entropy rdraw) w h).2[i]?
      = some (some (post c ((Toq.Rand.trace c).toOption.map (interp prim (user s) none)))) :=
  seeded_output_at _ () c s h w i hi

/-- **Every generator constructs its private generator before it draws anything**: the draw program of every call that does not
raise starts with `np.random.default_rng(seed=seed)`. -/
theorem trace_starts_with_construct (c : Call) (evs : List Ev) (h : Toq.Rand.trace c = .ok evs) : evs.head? = some .construct :=
  trace_head_construct c evs h

/-- **The helper generator of the Bures branch restarts the stream**: `random_density_matrix(…, "bures", seed)` draws its Ginibre
factor exactly like the Haar branch, and then — from a second generator constructed from the *same* seed — exactly the arrays a
stand-alone `random_unitary(dim, is_real, seed)` draws. -/
theorem bures_helper_draws_are_random_unitary_draws {Seed St Arr : Type} (prim : Prim Seed St Arr) (seed : Seed) (dim : Nat)
    (isReal : Bool) (k : Option Nat) (evs : List Ev) (h : Toq.Rand.trace (.density dim isReal k true) = .ok evs) :
    ∃ own u, Toq.Rand.trace (.density dim isReal k false) = .ok own ∧ Toq.Rand.trace (.unitary (.int dim) isReal) = .ok u ∧
      interp prim seed none evs = interp prim seed none own ++ interp prim seed none u :=
  bures_interp prim seed dim isReal k evs h

/-- number of scalars drawn: `random_unitary` `d²` (real) / `2d²` (complex); `random_povm` `num_inputs·num_outputs·d²`;
Schmidt branch of `random_state_vector` `(d0+d1)·k` (real) / twice that (complex) -/
theorem draw_counts (d ni no d0 d1 k : Nat) (isReal : Bool) (hk : 0 < k) (hk' : k < min d0 d1) :
    (Toq.Rand.trace (.unitary (.int d) isReal)).toOption.map scalars = some ((if isReal then 1 else 2) * (d * d)) ∧
    (Toq.Rand.trace (.povm d ni no)).toOption.map scalars = some (ni * no * d * d) ∧
    (Toq.Rand.trace (.stateVector (.list [d0, d1]) isReal k)).toOption.map scalars
      = some ((if isReal then 1 else 2) * ((d0 + d1) * k)) :=
  ⟨unitary_scalars d isReal, povm_scalars d ni no, stateVector_schmidt_scalars d0 d1 k isReal hk hk'⟩

/-- the draw programs on concrete calls: complex Bures density of dimension 3 (two generators, four draws), a list-`dim` Schmidt
state vector, a non-square `dim` list rejected -/
example : Toq.Rand.trace (.density 3 false none true)
      = .ok [.construct, .draw ⟨.random, [3, 3]⟩, .draw ⟨.standardNormal, [3, 3]⟩,
             .construct, .draw ⟨.standardNormal, [3, 3]⟩, .draw ⟨.standardNormal, [3, 3]⟩] ∧
    Toq.Rand.trace (.stateVector (.list [3, 2]) true 1) = .ok [.construct, .draw ⟨.random, [3, 1]⟩, .draw ⟨.random, [2, 1]⟩] ∧
    Toq.Rand.trace (.unitary (.list [2, 3]) false) = .error "ValueError" := by decide

end machine

/-! ## Post-processing of the generators -/

/-- **`random_density_matrix`**: for every `d×k` factor `G` (the Ginibre draw, `k = k_param`) with `tr(G Gᴴ) ≠ 0`, the
returned `G Gᴴ / tr(G Gᴴ)` is positive semidefinite, has trace one and rank at most `k`. -/
theorem density_post {d k : Nat} (G : Matrix (Fin d) (Fin k) ℂ) (h : (G * Gᴴ).trace ≠ 0) :
    (densityOf G).PosSemidef ∧ (densityOf G).trace = 1 ∧ (densityOf G).rank ≤ k :=
  ⟨density_psd G, density_trace G h, density_rank G⟩

/-- hypothesis of `density_post`: the `2×1` factor `(1, i)ᵀ` has `tr(G Gᴴ) = 2 ≠ 0` -/
example : let G : Matrix (Fin 2) (Fin 1) ℂ := Matrix.of fun i _ => if i = 0 then 1 else Complex.I
    (G * Gᴴ).trace ≠ 0 := by
  intro G
  have : (G * Gᴴ).trace = 2 := by
    simp [Matrix.trace, Matrix.diag, Matrix.mul_apply, G, Fin.sum_univ_two]
    norm_num
  rw [this]; norm_num

/-- **Bures option** (`(𝟙 + U) G` with `U` the random unitary and `G` the `d×k` Ginibre draw): the final factor still has `k`
columns, so the result is a density operator of rank at most `k`.
(Without the parentheses, `U + 𝟙 @ G`, the factor is `U + G`: a `d×d` matrix when `k = d` — `density_post` then only gives rank
`≤ d` — and a broadcast / shape error when `k < d`; the correspondence check reports that.  The hypothesis fails exactly when
`(𝟙 + U) G = 0`, which for random draws happens only for `d = 1`, `U = −1`: there the code must not divide by the zero trace.) -/
theorem density_bures_post {d k : Nat} (U : Matrix (Fin d) (Fin d) ℂ) (G : Matrix (Fin d) (Fin k) ℂ)
    (h : (((1 + U) * G) * ((1 + U) * G)ᴴ).trace ≠ 0) :
    (densityOf ((1 + U) * G)).PosSemidef ∧ (densityOf ((1 + U) * G)).trace = 1 ∧
      (densityOf ((1 + U) * G)).rank ≤ k :=
  density_post ((1 + U) * G) h

/-- **mirror = spec for `random_density_matrix`**: the executable model (numerator `densityNum`, trace `trc`; run by the driver
on the raw draws) is `densityOf` of the factor. -/
theorem density_model_refines (d k : Nat) (G : Nat → Nat → ℂ) :
    (trc d (densityNum star k G))⁻¹ • toMat d d (densityNum star k G) = densityOf (toMat d k G) :=
  density_model d k G

/-- **`is_real=True`**: a real factor gives a real density operator. -/
theorem density_real_of_real {m n : Type*} [Fintype m] [Fintype n] (G : Matrix m n ℂ) (hG : ∀ i j, (G i j).im = 0) (i j : m) :
    (densityOf G i j).im = 0 :=
  Toq.Rand.density_real G hG i j

/-- the Bures factor **as written** (`random_unitary(dim) + np.identity(dim) @ gin`, `k = dim ≥ 2`) is `U + G`, not `(𝟙 + U) G`;
`density_post` still applies to it (rank `≤ dim`). -/
theorem bures_factor_as_written (d : Nat) (hd : d ≠ 1) (U G : Nat → Nat → ℂ) :
    toMat d d (buresFactor d d U G) = toMat d d U + toMat d d G :=
  buresFactor_square d hd U G

/-- **mirror = spec for the relation checked on `random_unitary`**: the model `unitaryRel` is `Uᴴ G`. -/
theorem unitaryRel_model_refines (d : Nat) (U G : Nat → Nat → ℂ) :
    toMat d d (unitaryRel star d U G) = (toMat d d U)ᴴ * toMat d d G :=
  unitaryRel_refines d U G

/-- **`random_unitary`, the QR phase fix**: a unitary (over `ℝ`: orthogonal) `Q` times a diagonal matrix of unimodular
entries is unitary (orthogonal) — on both sides. -/
theorem unitary_post {R : Type*} [CommRing R] [StarRing R] {ι : Type*} [Fintype ι] [DecidableEq ι]
    (Q : Matrix ι ι R) (u : ι → R) (hQ : Qᴴ * Q = 1) (hu : ∀ i, star (u i) * u i = 1) :
    (Q * diagonal u)ᴴ * (Q * diagonal u) = 1 ∧ (Q * diagonal u) * (Q * diagonal u)ᴴ = 1 :=
  ⟨unitary_post_left Q u hQ hu, unitary_post_right Q u hQ hu⟩

/-- hypotheses of `unitary_post` on a non-trivial instance: `Q` the swap matrix, phases `i` and `-1` -/
example : (!![0, 1; 1, 0] : Matrix (Fin 2) (Fin 2) ℂ)ᴴ * !![0, 1; 1, 0] = 1 ∧
    ∀ i : Fin 2, star ((![Complex.I, -1] : Fin 2 → ℂ) i) * (![Complex.I, -1] : Fin 2 → ℂ) i = 1 := by
  constructor
  · ext a b; fin_cases a <;> fin_cases b <;> simp [Matrix.mul_apply, Fin.sum_univ_two]
  · intro i; fin_cases i <;> simp

/-- complex case with the code's diagonal `np.sign(np.diag(R))`, zeros replaced by 1 -/
theorem unitary_post_csign {ι : Type*} [Fintype ι] [DecidableEq ι] (Q : Matrix ι ι ℂ) (r : ι → ℂ) (hQ : Qᴴ * Q = 1) :
    (Q * diagonal fun i => csign (r i))ᴴ * (Q * diagonal fun i => csign (r i)) = 1 :=
  unitary_post_left Q _ hQ (fun i => csign_unimodular (r i))

/-- real case (`is_real=True`): the result is orthogonal (`ᴴ` over `ℝ` is the transpose) -/
theorem orthogonal_post_rsign {ι : Type*} [Fintype ι] [DecidableEq ι] (Q : Matrix ι ι ℝ) (r : ι → ℝ) (hQ : Qᵀ * Q = 1) :
    (Q * diagonal fun i => rsign (r i))ᵀ * (Q * diagonal fun i => rsign (r i)) = 1 := by
  have := unitary_post_left Q (fun i => rsign (r i)) (by simpa [conjTranspose_eq_transpose_of_trivial] using hQ)
    (fun i => rsign_unimodular (r i))
  simpa [conjTranspose_eq_transpose_of_trivial] using this

/-- **The phase fix pins the result (existence).**  With `G = Q R` (`Q` unitary, `R` upper triangular with non-zero diagonal: the
QR factorisation LAPACK returned) the code's `U = Q · diag(sign(diag R))` makes `Uᴴ G` upper triangular with positive diagonal
`|R_ii|`. -/
theorem unitary_post_is_phase_fixed_qr {n : Nat} (G Q R : Matrix (Fin n) (Fin n) ℂ) (hG : G = Q * R) (hQ : Qᴴ * Q = 1)
    (hR : UpperTri R) (hd : ∀ i, R i i ≠ 0) :
    UpperPos ((Q * diagonal fun i => csign (R i i))ᴴ * G) :=
  unitary_post_upperPos G Q R hG hQ hR hd

/-- **The phase fix pins the result (uniqueness).**  Two unitaries `U`, `U'` such that `Uᴴ G` and `U'ᴴ G` are upper triangular
with positive diagonal are equal.  So `random_unitary` is a function of its Ginibre draw `G`: whatever signs / phases the QR
routine chose for `Q` and `R`, the returned matrix is the same.  (The harness checks this relation between the returned `U`
and the draw `G` it recorded.) -/
theorem unitary_post_unique {n : Nat} (G U U' : Matrix (Fin n) (Fin n) ℂ) (hU : Uᴴ * U = 1) (hU' : U'ᴴ * U' = 1)
    (hT : UpperPos (Uᴴ * G)) (hT' : UpperPos (U'ᴴ * G)) : U = U' :=
  qr_posdiag_unique G U U' hU hU' hT hT'

/-- hypotheses of `unitary_post_is_phase_fixed_qr` on a non-trivial instance: `Q` the swap, `R = [[i, 2], [0, -3]]` -/
example : (!![0, 1; 1, 0] : Matrix (Fin 2) (Fin 2) ℂ)ᴴ * !![0, 1; 1, 0] = 1 ∧
    UpperTri (!![Complex.I, 2; 0, -3] : Matrix (Fin 2) (Fin 2) ℂ) ∧
    ∀ i, (!![Complex.I, 2; 0, -3] : Matrix (Fin 2) (Fin 2) ℂ) i i ≠ 0 := by
  refine ⟨?_, ?_, ?_⟩
  · ext a b; fin_cases a <;> fin_cases b <;> simp [Matrix.mul_apply, Fin.sum_univ_two]
  · intro i j hij
    fin_cases i <;> fin_cases j <;> simp_all
  · intro i; fin_cases i <;> simp [Complex.ext_iff]

/-- on real data the complex sign is the real sign (`is_real=True` is the complex branch run on real numbers) -/
theorem unitary_real_sign (x : ℝ) : csign (x : ℂ) = ((rsign x : ℝ) : ℂ) := csign_ofReal x

/-- **`random_orthonormal_basis`**: the columns of a unitary matrix are orthonormal. -/
theorem orthonormal_basis_post {ι : Type*} [Fintype ι] [DecidableEq ι] (U : Matrix ι ι ℂ) (hU : Uᴴ * U = 1) (i j : ι) :
    ∑ r, star (U r i) * U r j = if i = j then 1 else 0 :=
  unitary_columns_orthonormal U hU i j

/-- **`random_psd_operator`**: `Q · diag(|λ|) · Qᴴ` is positive semidefinite for any square `Q` and real `λ`
(here `λ` = eigenvalues of the Hermitised draw, `Q` = QR factor of its eigenvectors). -/
theorem psd_post {ι : Type*} [Fintype ι] [DecidableEq ι] (Q : Matrix ι ι ℂ) (ev : ι → ℝ) :
    (Q * diagonal (fun i => ((|ev i| : ℝ) : ℂ)) * Qᴴ).PosSemidef :=
  Toq.Rand.psd_post Q ev

/-- **`random_psd_operator` returns `|H|`.**  `H` the Hermitised draw with eigendecomposition `H = V diag(λ) Vᴴ` (`V` unitary: what
`eigh` returns), `Q` the QR factor of `V` (`V = Q R'`, `Q` unitary, `R'` upper triangular): the returned `A = Q diag|λ| Qᴴ` is
positive semidefinite with `A·A = H·H`, and it is the *only* positive semidefinite matrix with that square. -/
theorem psd_post_is_abs {n : Nat} (H V Q R' : Matrix (Fin n) (Fin n) ℂ) (ev : Fin n → ℝ) (hV : Vᴴ * V = 1) (hQ : Qᴴ * Q = 1)
    (hVQ : V = Q * R') (hR : UpperTri R') (hH : H = V * diagonal (fun i => (ev i : ℂ)) * Vᴴ) :
    (Q * diagonal (fun i => ((|ev i| : ℝ) : ℂ)) * Qᴴ).PosSemidef ∧
    (Q * diagonal (fun i => ((|ev i| : ℝ) : ℂ)) * Qᴴ) * (Q * diagonal (fun i => ((|ev i| : ℝ) : ℂ)) * Qᴴ) = H * H ∧
    ∀ B : Matrix (Fin n) (Fin n) ℂ, B.PosSemidef → B * B = H * H → B = Q * diagonal (fun i => ((|ev i| : ℝ) : ℂ)) * Qᴴ := by
  obtain ⟨h1, h2⟩ := psd_post_sq H V Q R' ev hV hQ hVQ hR hH
  exact ⟨h1, h2, fun B hB hBB => psd_sq_unique B _ hB h1 (hBB.trans h2.symm)⟩

/-- **`random_povm`**, one input setting: with `S = Σ_y A_yᴴ A_y = U diag(s) Uᴴ` (`U` unitary, `s > 0`: the SVD of a positive
definite matrix) the operators `M_y = (A_y U diag(s^{-1/2}))ᴴ (A_y U diag(s^{-1/2}))` are positive semidefinite and sum to the
identity. -/
theorem povm_post {ι κ : Type*} [Fintype ι] [DecidableEq ι] [Fintype κ]
    (A : κ → Matrix ι ι ℂ) (U : Matrix ι ι ℂ) (s : ι → ℝ)
    (hU : Uᴴ * U = 1) (hs : ∀ i, 0 < s i)
    (hS : ∑ y, (A y)ᴴ * A y = U * diagonal (fun i => (s i : ℂ)) * Uᴴ) :
    IsPOVM (fun y => (A y * U * diagonal (fun j => (((Real.sqrt (s j))⁻¹ : ℝ) : ℂ)))ᴴ *
        (A y * U * diagonal (fun j => (((Real.sqrt (s j))⁻¹ : ℝ) : ℂ)))) :=
  Toq.Rand.povm_post A U s hU hs hS

/-- **`random_povm`, general form**: for ANY family of positive semidefinite `E_y` and ANY `W` with `Wᴴ (Σ_y E_y) W = 1`
(`W = U diag(s^{-1/2})` in the code, `W = S^{-1/2}` in the textbook) the operators `Wᴴ E_y W` form a POVM. -/
theorem povm_post_general {ι κ : Type*} [Fintype ι] [DecidableEq ι] [Fintype κ]
    (W : Matrix ι ι ℂ) (E : κ → Matrix ι ι ℂ) (hE : ∀ y, (E y).PosSemidef) (h : Wᴴ * (∑ y, E y) * W = 1) :
    IsPOVM (fun y => Wᴴ * E y * W) :=
  povm_of_conj W E hE h

/-- **Normalising any family with a positive definite sum gives a POVM**: for positive semidefinite `E_y` whose sum `S` is positive
definite there is a `W` (`= S^{-1/2}`) such that the `Wᴴ E_y W` form a POVM. -/
theorem povm_normalisation_exists {ι κ : Type*} [Fintype ι] [DecidableEq ι] [Fintype κ]
    (E : κ → Matrix ι ι ℂ) (hE : ∀ y, (E y).PosSemidef) (hS : (∑ y, E y).PosDef) :
    ∃ W : Matrix ι ι ℂ, IsPOVM (fun y => Wᴴ * E y * W) := by
  obtain ⟨W, hW, hWSW⟩ := inv_sqrt_exists _ hS
  exact ⟨W, povm_of_conj W E hE (by rw [hW.isHermitian.eq]; exact hWSW)⟩

/-- **mirror = spec for `random_povm`**: the executable model `povmCore` (run by the driver on the raw blocks and the captured SVD
factor) is `(A_y U)ᴴ (A_y U)`, and entry `(i,j)` of the operator of `povm_post` is that core divided by `√sᵢ √sⱼ`. -/
theorem povm_model_refines (d : Nat) (Ay U : Nat → Nat → ℂ) (s : Fin d → ℝ) (i j : Fin d) :
    ((toMat d d Ay * toMat d d U * diagonal (fun l => (((Real.sqrt (s l))⁻¹ : ℝ) : ℂ)))ᴴ *
        (toMat d d Ay * toMat d d U * diagonal (fun l => (((Real.sqrt (s l))⁻¹ : ℝ) : ℂ)))) i j
      = povmCore star d Ay U i.val j.val * ((((Real.sqrt (s i))⁻¹ : ℝ) : ℂ) * (((Real.sqrt (s j))⁻¹ : ℝ) : ℂ)) := by
  rw [povm_model_entry, ← povmCore_refines]; rfl

/-- the returned array has axes `(row, col, input, output)` -/
theorem povm_layout {α : Type} (P : Nat → Nat → Nat → Nat → α) (r c x y : Nat) :
    povmLayout P r c x y = P x y r c := rfl

/-- **Normalisation** (`random_states`, `random_state_vector`): a non-zero vector divided by its Euclidean norm is a unit
vector. -/
theorem normalise_unit {ι : Type*} [Fintype ι] (v : ι → ℂ) (h : ∑ i, Complex.normSq (v i) ≠ 0) :
    ∑ i, Complex.normSq (v i / ((Real.sqrt (∑ j, Complex.normSq (v j)) : ℝ) : ℂ)) = 1 :=
  Toq.Rand.normalise_unit v h

/-- **`random_state_vector`, mirror = closed form**: entry `s·d1+t` of `mat_1 @ mat_2` (Kronecker product of the draws,
`swap` of subsystems 2 and 3 of `[k,d0,k,d1]`, contraction with `⟨Σ_j jj|`) is `Σ_{j<k} a[j·d0+s] · b[j·d1+t]`,
over any commutative semiring. -/
theorem stateVector_mirror_eq_closed_form {α : Type} [CommSemiring α] (k d0 d1 : Nat) (a b : Nat → α)
    (hk : 0 < k) (h0 : 0 < d0) (h1 : 0 < d1) (s t : Nat) (hs : s < d0) (ht : t < d1) :
    svRaw k d0 d1 a b (s * d1 + t) = svAmp k d0 d1 a b s t :=
  svRaw_eq_amp k d0 d1 a b hk h0 h1 s t hs ht

/-- **Schmidt rank ≤ `k_param`**: the `d0×d1` amplitude matrix of the returned vector (`c` = the normalisation factor) is
`c · Aᵀ B` with `A : k×d0`, `B : k×d1`, hence has rank at most `k`. -/
theorem stateVector_schmidt_le_k (k d0 d1 : Nat) (a b : Nat → ℂ) (c : ℂ) (hk : 0 < k) (h0 : 0 < d0) (h1 : 0 < d1) :
    (c • Matrix.of fun (s : Fin d0) (t : Fin d1) => svRaw k d0 d1 a b (s.val * d1 + t.val)).rank ≤ k := by
  have : (Matrix.of fun (s : Fin d0) (t : Fin d1) => svRaw k d0 d1 a b (s.val * d1 + t.val))
      = Matrix.of fun (s : Fin d0) (t : Fin d1) => svAmp k d0 d1 a b s.val t.val := by
    ext s t
    exact svRaw_eq_amp k d0 d1 a b hk h0 h1 s.val t.val s.isLt t.isLt
  rw [this]
  exact svAmp_rank_le k d0 d1 a b c

/-- **Schmidt rank in the full-rank branch** (`k_param = 0` or `k_param ≥ min(dim)`): any vector on `d0·d1` dimensions has
Schmidt rank at most `min(d0, d1)`, so a bound `k ≥ min(d0, d1)` holds trivially. -/
theorem stateVector_plain_schmidt_le_k (d0 d1 k : Nat) (v : Nat → ℂ) (hk : min d0 d1 ≤ k) :
    (Matrix.of fun (s : Fin d0) (t : Fin d1) => v (s.val * d1 + t.val)).rank ≤ k := by
  refine le_trans ?_ hk
  refine le_min ?_ ?_
  · simpa using Matrix.rank_le_card_height (Matrix.of fun (s : Fin d0) (t : Fin d1) => v (s.val * d1 + t.val))
  · simpa using Matrix.rank_le_card_width (Matrix.of fun (s : Fin d0) (t : Fin d1) => v (s.val * d1 + t.val))

/-- the construction on `k = 2`, `d0 = 2`, `d1 = 3` with integer draws: mirror and closed form agree entry by entry -/
example : (List.range 6).map (svRaw 2 2 3 (fun i => (i : Int) + 1) (fun i => 2 * (i : Int) - 3))
    = (List.range 6).map (fun r => svAmp 2 2 3 (fun i => (i : Int) + 1) (fun i => 2 * (i : Int) - 3) (r / 3) (r % 3)) := by
  decide

/-- **`random_circulant_gram_matrix` is positive semidefinite**: `Re(Fᴴ diag(λ) F)` for `λ ≥ 0` (uniform draws in `[0,1)`),
as a real matrix, for the DFT matrix `F` with any root `ω` and scale `c`. -/
theorem circulant_gram_psd {d : Nat} (c : ℝ) (ω : ℂ) (lam : Fin d → ℝ) (h : ∀ k, 0 ≤ lam k) :
    (circGramRe d c ω lam).PosSemidef :=
  circGramRe_psd c ω lam h

/-- **… and circulant**: for a `d`-th root of unity `ω` of modulus one the `(i,j)` entry
`c² Σ_k λ_k ω^{k(j−i)}` (and so its real part) depends only on `(i − j) mod d`. -/
theorem circulant_gram_circulant {d : Nat} (c : ℝ) (ω : ℂ) (lam : Fin d → ℝ) (hω : ω ^ d = 1) (hu : star ω * ω = 1)
    (i j i' j' : Fin d) (h : (i.val + j'.val) % d = (i'.val + j.val) % d) :
    circGramRe d c ω lam i j = circGramRe d c ω lam i' j' := by
  unfold circGramRe
  rw [circGram_circulant c ω lam hω hu i j i' j' h]

/-- NumPy's DFT root `e^{-2πi/d}` satisfies the two hypotheses of `circulant_gram_circulant`. -/
theorem dftRoot_spec (d : Nat) (hd : 0 < d) : dftRoot d ^ d = 1 ∧ star (dftRoot d) * dftRoot d = 1 :=
  ⟨dftRoot_pow d hd, dftRoot_unimodular d⟩

/-- **entry formula of `random_circulant_gram_matrix`**: with NumPy's scaling `c = 1/√d` and root `ω = e^{−2πi/d}` the returned
matrix is `C[i,j] = (1/d) Σ_k λ_k cos(2π k (j − i)/d)` for the drawn eigenvalues `λ` (the harness compares the returned floats
with this closed form on the recorded draw). -/
theorem circulant_gram_entry (d : Nat) (lam : Fin d → ℝ) (i j : Fin d) :
    circGramRe d (1 / Real.sqrt d) (dftRoot d) lam i j
      = (1 / (d : ℝ)) * ∑ k : Fin d, lam k * Real.cos (2 * Real.pi * k.val * ((j.val : ℝ) - i.val) / d) :=
  circGramRe_entry d lam i j

/-! ## Pretty good / pretty bad measurement -/

/-- **PGM is a POVM** whenever `P = Σ pᵢρᵢ` is invertible: for positive semidefinite `ρᵢ`, `pᵢ ≥ 0` and a Hermitian `S`
with `S P S = 1` (`S = P^{-1/2}`), the operators `S (pᵢρᵢ) S` are positive semidefinite and sum to the identity. -/
theorem pgm_is_povm {ι κ : Type*} [Fintype ι] [DecidableEq ι] [Fintype κ]
    (ρ : κ → Matrix ι ι ℂ) (p : κ → ℝ) (S : Matrix ι ι ℂ)
    (hρ : ∀ i, (ρ i).PosSemidef) (hp : ∀ i, 0 ≤ p i) (hS : Sᴴ = S)
    (hSPS : S * (∑ i, (p i : ℂ) • ρ i) * S = 1) :
    IsPOVM (fun i => S * ((p i : ℂ) • ρ i) * S) :=
  Toq.Rand.pgm_is_povm ρ p S hρ hp hS hSPS

/-- hypotheses of `pgm_is_povm`: the ensemble `{(1/4, |0⟩⟨0|), (1/4, |1⟩⟨1|)}` (unnormalised priors) with `S = 2·𝟙` -/
example : let ρ : Fin 2 → Matrix (Fin 2) (Fin 2) ℂ := fun i => diagonal fun j => if j = i then 1 else 0
    let p : Fin 2 → ℝ := fun _ => 1 / 4
    let S : Matrix (Fin 2) (Fin 2) ℂ := (2 : ℂ) • 1
    (∀ i, (ρ i).PosSemidef) ∧ (∀ i, 0 ≤ p i) ∧ Sᴴ = S ∧ S * (∑ i, (p i : ℂ) • ρ i) * S = 1 := by
  intro ρ p S
  refine ⟨fun i => PosSemidef.diagonal (fun j => ?_), fun i => by norm_num, ?_, ?_⟩
  · show (0 : ℂ) ≤ if j = i then 1 else 0
    split_ifs
    · exact zero_le_one
    · exact le_refl _
  · ext a b; fin_cases a <;> fin_cases b <;> simp [S, Matrix.conjTranspose_apply, Matrix.smul_apply]
  · ext a b
    fin_cases a <;> fin_cases b <;>
      simp [S, ρ, p, Fin.sum_univ_two, Matrix.mul_apply, Matrix.smul_apply, Matrix.one_apply] <;> norm_num

/-- **For every ensemble spanning the space the normaliser exists**: a positive definite average state `P = Σ pᵢρᵢ` has a positive
semidefinite `S` (`= P^{-1/2}`) with `S P S = 1`; hence (with `pgm_is_povm`, `pbm_is_povm`) the pretty good and the pretty bad
measurement of every spanning ensemble are POVMs. -/
theorem pgm_pbm_povm_of_spanning {ι κ : Type*} [Fintype ι] [DecidableEq ι] [Fintype κ]
    (ρ : κ → Matrix ι ι ℂ) (p : κ → ℝ) (hρ : ∀ i, (ρ i).PosSemidef) (hp : ∀ i, 0 ≤ p i)
    (hspan : (∑ i, (p i : ℂ) • ρ i).PosDef) (hn : 2 ≤ Fintype.card κ) :
    ∃ S : Matrix ι ι ℂ, S.PosSemidef ∧ S * (∑ i, (p i : ℂ) • ρ i) * S = 1 ∧
      IsPOVM (pgmOf ρ p S) ∧ IsPOVM (pbmOf (pgmOf ρ p S)) := by
  obtain ⟨S, hS, hSPS⟩ := inv_sqrt_exists _ hspan
  have hG : IsPOVM (pgmOf ρ p S) := Toq.Rand.pgm_is_povm ρ p S hρ hp hS.isHermitian.eq hSPS
  exact ⟨S, hS, hSPS, hG, Toq.Rand.pbm_is_povm _ hG hn⟩

/-- **The normaliser is unique**: two positive semidefinite `S`, `S'` with `S P S = 1 = S' P S'` are equal — "the" pretty good
measurement of a spanning ensemble is well defined. -/
theorem pgm_normaliser_unique {ι : Type*} [Fintype ι] [DecidableEq ι] (P S S' : Matrix ι ι ℂ) (hP : Pᴴ = P)
    (hS : S.PosSemidef) (hS' : S'.PosSemidef) (h : S * P * S = 1) (h' : S' * P * S' = 1) : S = S' :=
  inv_sqrt_unique P S S' hP hS hS' h h'

/-- **Barnum–Knill**: for every measurement `M`, `P(M)² ≤ P_pgm · tr(Σ pᵢρᵢ)` (`successProb ρ p M = Σ pᵢ Re tr(ρᵢ Mᵢ)`). -/
theorem barnum_knill {ι κ : Type*} [Fintype ι] [DecidableEq ι] [Fintype κ]
    (ρ : κ → Matrix ι ι ℂ) (p : κ → ℝ) (S : Matrix ι ι ℂ) (M : κ → Matrix ι ι ℂ)
    (hρ : ∀ i, (ρ i).PosSemidef) (hp : ∀ i, 0 ≤ p i) (hS : S.PosSemidef)
    (hSPS : S * (∑ i, (p i : ℂ) • ρ i) * S = 1) (hM : IsPOVM M) :
    successProb ρ p M ^ 2 ≤ successProb ρ p (pgmOf ρ p S) * (∑ i, (p i : ℂ) • ρ i).trace.re :=
  barnum_knill_successProb ρ p S M hρ hp hS hSPS hM

/-- **The pretty good success probability lies between the square of the optimum and the optimum.**  For a normalised ensemble
(`tr ρᵢ = 1`, `Σ pᵢ = 1`) with normaliser `S`, and `opt` the least upper bound of the success probabilities of all measurements:
`opt² ≤ P_pgm ≤ opt`. -/
theorem pgm_between_sq_opt_and_opt {ι κ : Type*} [Fintype ι] [DecidableEq ι] [Fintype κ]
    (ρ : κ → Matrix ι ι ℂ) (p : κ → ℝ) (S : Matrix ι ι ℂ)
    (hρ : ∀ i, (ρ i).PosSemidef) (hρ1 : ∀ i, (ρ i).trace = 1) (hp : ∀ i, 0 ≤ p i) (hp1 : ∑ i, p i = 1)
    (hS : S.PosSemidef) (hSPS : S * (∑ i, (p i : ℂ) • ρ i) * S = 1)
    (opt : ℝ) (hopt : IsLUB (successValues ρ p) opt) :
    opt ^ 2 ≤ successProb ρ p (pgmOf ρ p S) ∧ successProb ρ p (pgmOf ρ p S) ≤ opt :=
  pgm_between ρ p S hρ hp hS hSPS (trace_average_state ρ p hρ1 hp1) opt hopt

/-- **mirror = spec for the pretty good measurement**: the executable model `pgmElem` (run by the driver on the normaliser the
code obtained) is `S A S`. -/
theorem pgm_model_refines (d : Nat) (S A : Nat → Nat → ℂ) :
    toMat d d (pgmElem d S A) = toMat d d S * toMat d d A * toMat d d S :=
  pgmElem_refines d S A

/-- **PBM is a POVM**: for any POVM `G` with `n ≥ 2` outcomes, `Bᵢ = (1 − Gᵢ)/(n − 1)` is a POVM. -/
theorem pbm_is_povm {ι κ : Type*} [Fintype ι] [DecidableEq ι] [Fintype κ]
    (G : κ → Matrix ι ι ℂ) (hG : IsPOVM G) (hn : 2 ≤ Fintype.card κ) :
    IsPOVM (fun i => ((Fintype.card κ : ℂ) - 1)⁻¹ • (1 - G i)) :=
  Toq.Rand.pbm_is_povm G hG hn

/-- the hypotheses of `pgm_is_povm` / `pbm_is_povm` are satisfiable: the two-outcome computational-basis measurement -/
example : IsPOVM (fun i : Fin 2 => (diagonal fun j : Fin 2 => if j = i then (1 : ℂ) else 0)) := by
  refine ⟨fun i => PosSemidef.diagonal (fun j => ?_), ?_⟩
  · show (0 : ℂ) ≤ if j = i then 1 else 0
    split_ifs
    · exact zero_le_one
    · exact le_refl _
  · ext a b
    fin_cases a <;> fin_cases b <;> simp [Fin.sum_univ_two]

/-! ## `measure` -/

/-- **Born rule**: the probability `tr(K ρ Kᴴ)` computed by the code equals `tr(Kᴴ K ρ)`. -/
theorem measure_born {ι μ : Type*} [Fintype ι] [Fintype μ] (K : Matrix μ ι ℂ) (ρ : Matrix ι ι ℂ) :
    (K * ρ * Kᴴ).trace = (Kᴴ * K * ρ).trace :=
  Toq.Rand.measure_born K ρ

/-- for a positive semidefinite state the outcome probability is a non-negative real (taking `.real` loses nothing) -/
theorem measure_prob_nonneg {ι μ : Type*} [Fintype ι] [Fintype μ] (K : Matrix μ ι ℂ) (ρ : Matrix ι ι ℂ)
    (hρ : ρ.PosSemidef) : 0 ≤ (K * ρ * Kᴴ).trace.re ∧ (K * ρ * Kᴴ).trace.im = 0 :=
  measure_prob_real_nonneg K ρ hρ

/-- **probabilities of a complete measurement** (`Σ Kᵢᴴ Kᵢ = 1`) sum to `tr ρ`, i.e. to one for a density operator -/
theorem measure_probs_sum_one {ι μ κ : Type*} [Fintype ι] [DecidableEq ι] [Fintype μ] [Fintype κ]
    (K : κ → Matrix μ ι ℂ) (ρ : Matrix ι ι ℂ) (hK : ∑ i, (K i)ᴴ * K i = 1) (hρ : ρ.trace = 1) :
    ∑ i, (K i * ρ * (K i)ᴴ).trace.re = 1 :=
  Toq.Rand.measure_probs_sum_one K ρ hK hρ

/-- **post-measurement state** `K ρ Kᴴ / p` is positive semidefinite with trace one whenever `p ≠ 0` -/
theorem measure_post_normalised {ι μ : Type*} [Fintype ι] [Fintype μ] (K : Matrix μ ι ℂ) (ρ : Matrix ι ι ℂ)
    (hρ : ρ.PosSemidef) (hp : (K * ρ * Kᴴ).trace.re ≠ 0) :
    ((((K * ρ * Kᴴ).trace.re : ℝ) : ℂ)⁻¹ • (K * ρ * Kᴴ)).PosSemidef ∧
    ((((K * ρ * Kᴴ).trace.re : ℝ) : ℂ)⁻¹ • (K * ρ * Kᴴ)).trace = 1 :=
  Toq.Rand.measure_post_normalised K ρ hρ hp

/-- **Born rule of the executable model**: the probability computed by `measureOne` on exact rationals is `Re tr(K ρ Kᴴ)`. -/
theorem measure_model_born (d m : Nat) (tol : Rat) (K ρ : Nat → Nat → QI) :
    (((measureOne d tol K ρ m).prob : Rat) : ℝ) = (toMatQ m d K * toMatQ d d ρ * (toMatQ m d K)ᴴ).trace.re :=
  measureOne_prob d m tol K ρ

/-- **Branch logic of the model**: a definite answer of the three-valued comparison `prob > tol` is the true answer, and then
the post-measurement state is `K ρ Kᴴ / prob`. -/
theorem measure_model_branch (d m : Nat) (tol : Rat) (htol : 0 ≤ tol) (K ρ : Nat → Nat → QI) :
    (∀ b, (measureOne d tol K ρ m).positive = some b → (b = true ↔ (measureOne d tol K ρ m).prob > tol)) ∧
    ((measureOne d tol K ρ m).positive = some true → ∀ i j,
      (measureOne d tol K ρ m).post i j = QI.smul (1 / (measureOne d tol K ρ m).prob) (measResult QI.conj d K ρ i j)) :=
  ⟨fun b hb => gtMargin_sound _ tol htol b hb, fun h i j => measureOne_post d m tol K ρ h i j⟩

/-- the model on `ρ = 𝟙/2`, `K = |0⟩⟨0|`, `tol = 10⁻¹⁰`: probability `1/2`, above the threshold -/
example : let ρ : Nat → Nat → QI := fun i j => if i = j then ⟨1/2, 0⟩ else 0
    let K : Nat → Nat → QI := fun i j => if i = 0 ∧ j = 0 then 1 else 0
    (measureOne 2 (1 / 10000000000) K ρ 2).prob = 1 / 2 ∧ (measureOne 2 (1 / 10000000000) K ρ 2).positive = some true := by
  decide +kernel

/-- **The tolerance does not enter the reported probability**: for any two values of `tol` the model of `measure` reports the same
probability (the Born value, `measure_model_born`).  `tol` only selects whether a post-measurement state is produced; an unlikely
outcome stays an outcome, so the probabilities of a complete measurement sum to one (`measure_probs_sum_one`) whatever `tol` is. -/
theorem measure_model_prob_tol_indep (d m : Nat) (tol tol' : Rat) (K ρ : Nat → Nat → QI) :
    (measureOne d tol K ρ m).prob = (measureOne d tol' K ρ m).prob :=
  measureOne_prob_tol_indep d m tol tol' K ρ

/-- **An outcome below the tolerance keeps its probability**: when the comparison answers `prob ≤ tol`, the model still reports
`Re tr(K ρ Kᴴ)`, and the post-measurement state is the zero matrix of the state's side length (`np.zeros_like(state)`). -/
theorem measure_model_below_tol (d m : Nat) (tol : Rat) (K ρ : Nat → Nat → QI)
    (h : (measureOne d tol K ρ m).positive = some false) :
    (((measureOne d tol K ρ m).prob : Rat) : ℝ) = (toMatQ m d K * toMatQ d d ρ * (toMatQ m d K)ᴴ).trace.re ∧
    (measureOne d tol K ρ m).postDim = d ∧ ∀ i j, (measureOne d tol K ρ m).post i j = 0 :=
  ⟨measureOne_prob d m tol K ρ, measureOne_below d m tol K ρ h⟩

/-- the model on `ρ = diag(2499/2500, 1/2500)`, `K = |1⟩⟨1|`, `tol = 10⁻³`: the outcome has probability `4·10⁻⁴`, below the tolerance,
and the probability is reported all the same (the hypothesis of `measure_model_below_tol` is satisfiable on a non-trivial instance) -/
example : let ρ : Nat → Nat → QI := fun i j => if i = j then (if i = 0 then ⟨2499/2500, 0⟩ else ⟨1/2500, 0⟩) else 0
    let K : Nat → Nat → QI := fun i j => if i = 1 ∧ j = 1 then 1 else 0
    (measureOne 2 (1 / 1000) K ρ 2).prob = 1 / 2500 ∧ (measureOne 2 (1 / 1000) K ρ 2).positive = some false := by
  decide +kernel

end Toq.C19
