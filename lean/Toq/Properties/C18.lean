import Toq.Model.Combinat
import Toq.Spec.Combinat
import Toq.Proofs.Combinat
import Toq.Proofs.CombinatRank
import Mathlib.Data.Nat.Choose.Basic
/-!
# C18 — symmetric / antisymmetric projectors and combinatorial enumerators are exact

Property theorems only (helper lemmas: `Toq/Proofs/Combinat.lean`).  Mirror models: `Toq/Model/Combinat.lean`
(`permSign`, `permsList`, `uniquePerms`, `perfectMatchings`, `symProjN`, `antisymProjN`); specification vocabulary:
`Toq/Spec/Combinat.lean` (`symSpec`, `antiSpec` as rational matrices indexed by digit vectors `Fin p → Fin d`, `permMat`,
`IsPerm1`, `IsPerfectMatching`, `matchingOf`, `rankTable`).

What is proved about what:
* `perm_sign`, `unique_perms`, `perfect_matchings`: theorems about the mirror models, for all inputs in the stated domain.
* projectors: (a) the mirror models are *entrywise* `p!` times the specification matrices, for **all** `d`, `p` and all entries
  (`symProj_eq_spec`, `antisymProj_eq_spec`, `index_is_digits`); (b) the algebraic laws (Hermitian, idempotent, permutation action,
  orthogonality, `p = 2` resolution of the identity) are proved for the specification matrices for **all** `d`, `p` by group averaging
  over `Equiv.Perm (Fin p)`, where `permMat σ` is proved to be the entry pattern of the C01 model of `permutation_operator`
  (`permOp_eq_permMat`); two of the laws are also transported back to the integer model (`symProj_idempotent_model`,
  `symProj_fixed_model`); (c) ranks, for **all** `d`, `p`: `rank = trace` for idempotents (`rank_eq_trace_of_idempotent`); `trace symSpec = C(d+p-1, p)` by
  Burnside's lemma for the subsystem permutations acting on digit vectors, whose orbits are the multisets of `p` digits (stars and bars,
  `fixed_digit_vectors_count`, `symSpec_trace`); `trace antiSpec = C(d, p)` because only injective digit vectors have a non-zero diagonal
  entry, `1/p!` (`antiSpec_trace`); hence `symSpec_rank`, `antiSpec_rank`, also for the integer models (`symProj_rank_model`, …).  The kernel
  evaluation of the traces on the table `d, p ∈ 1..4` is kept as a cross-check `example`.
* the ranges: the range of `symSpec` is exactly the set of vectors fixed by every `W_τ`, the range of `antiSpec` the set of vectors on which every `W_τ`
  acts as its sign (`symSpec_range`, `antiSpec_range`).
* `partial=True`: the control flow (early returns, shapes) is modelled (`symForm`, `antisymForm`; `partial_shape`: the number of columns is the
  rank); LAPACK's `orth` itself has no Lean model, its contract is: `VᵀV = 1`, `V Vᵀ = P`.  `isometry_contract_of_residuals` proves that what the
  harness measures exactly on the returned floats (`VᵀV = 1`, `P V = V`, number of columns `= rank P`) implies the contract, in any field of
  characteristic `0`; `isometry_contract_consequences` is the converse.
-/
namespace Toq.C18
open Equiv Matrix Toq.Perms Toq.C01 Toq.Combinat Toq.Combinat.Spec

/-! ## `perm_sign` -/

/-- **Sign = (-1)^inversions.**  For every `n` and every permutation `perm` of `1..n`, all NumPy fancy indices `perm - 1` are
    valid and the determinant of the column-selected identity computed by `perm_sign` equals `(-1)^(number of inversions)`. -/
theorem permSign_eq_inversions (n : ℕ) (perm : ℕ → ℤ) (h : IsPerm1 n perm) :
    selValid n perm = true ∧ permSign n perm = signInv n perm := by
  constructor
  · unfold selValid
    rw [allBelow_iff]
    intro j hj
    have := h.range j hj
    rw [perm_eq_succ h j hj, add_sub_cancel_right, wrapIdx_nat n _ (by omega)]
    rfl
  · have hf := isPermN_of_isPerm1 h
    rw [permSign_congr n perm (fun j => ((perm j - 1).toNat : ℤ) + 1) (perm_eq_succ h),
      permSign_one_indexed n _ hf, sign_permOfFn]
    unfold signInv
    congr 1
    apply inversions_congr
    intro i j hi hj
    have h1 := h.range i hi
    have h2 := h.range j hj
    show ((perm j - 1).toNat : ℤ) < ((perm i - 1).toNat : ℤ) ↔ perm j < perm i
    omega

/-- **Multiplicativity.**  For permutations `s`, `t` of `1..n`, the sign of the composition `j ↦ s[t[j]]` (1-indexed) is the
    product of the signs. -/
theorem permSign_mul (n : ℕ) (s t : ℕ → ℤ) (hs : IsPerm1 n s) (ht : IsPerm1 n t) :
    permSign n (fun j => s (t j - 1).toNat) = permSign n s * permSign n t := by
  have hfs := isPermN_of_isPerm1 hs
  have hft := isPermN_of_isPerm1 ht
  rw [permSign_congr n s _ (perm_eq_succ hs), permSign_congr n t _ (perm_eq_succ ht),
    permSign_one_indexed n _ hfs, permSign_one_indexed n _ hft, ← Units.val_mul, ← Perm.sign_mul,
    ← permOfFn_comp hfs hft, ← permSign_one_indexed n _ (isPermN_comp hfs hft)]
  apply permSign_congr
  intro j hj
  have := (isPermN_of_isPerm1 ht).lt j hj
  exact perm_eq_succ hs _ this

/-- **Index-convention hazard.**  On a permutation of `0..n-1` (0-indexed, outside the documented convention) the index `-1` wraps
    around to the last column and `perm_sign` returns `(-1)^(n-1)` times the true sign: wrong for every even `n`.  This is why
    `antisymmetric_projection` must pass `p_list[j, :] + 1`. -/
theorem permSign_zero_indexed (n : ℕ) (hn : 0 < n) (f : ℕ → ℕ) (hf : IsPermN n f) :
    permSign n (fun j => (f j : ℤ)) = (-1) ^ (n - 1) * signInv n (fun j => (f j : ℤ)) := by
  rw [permSign_zero_indexed_sign n hn f hf, sign_permOfFn]

/-- non-vacuity: `[2, 4, 1, 3]` is a permutation of `1..4` with 3 inversions; the 0-indexed `[1, 0]` gets the wrong sign `+1` -/
example : permSign 4 (fun k => [2, 4, 1, 3].getD k 0) = -1 ∧ inversions 4 (fun k => [2, 4, 1, 3].getD k 0) = 3
    ∧ permSign 2 (fun k => [1, 0].getD k 0) = 1 := by decide

/-! ## `itertools.permutations(range(p))` as used by the projectors -/

/-- the list the projectors loop over contains exactly the rearrangements of `0..p-1` … -/
theorem permsList_complete (p : ℕ) (t : List ℕ) : t ∈ permsList p ↔ t.Perm (List.range p) :=
  mem_permsList p t

/-- … each once -/
theorem permsList_nodup (p : ℕ) : (permsList p).Nodup := nodup_permsList p

/-! ## `unique_perms` -/

/-- **No repetition.**  For any list of distinct values `uniq` (the iteration order of `set(elements)`), the generator never
    yields the same tuple twice. -/
theorem uniquePerms_nodup {α : Type} [DecidableEq α] (uniq elements : List α) (hu : uniq.Nodup)
    (hm : ∀ v, v ∈ uniq ↔ v ∈ elements) : (uniquePerms uniq elements).Nodup := by
  have hp := expand_counters_perm uniq elements hu hm
  exact nodup_uniqueHelper _ (counters uniq elements) [] hp.length_eq (by rw [counters_fst]; exact hu)

/-- **Completeness.**  A tuple is yielded iff it is a rearrangement of `elements` (so every distinct rearrangement of the multiset
    occurs, and nothing else). -/
theorem uniquePerms_complete {α : Type} [DecidableEq α] (uniq elements : List α) (hu : uniq.Nodup)
    (hm : ∀ v, v ∈ uniq ↔ v ∈ elements) (r : List α) :
    r ∈ uniquePerms uniq elements ↔ r.Perm elements := by
  have hp := expand_counters_perm uniq elements hu hm
  unfold uniquePerms
  rw [show uniq.map (fun v => (v, elements.count v)) = counters uniq elements from rfl,
    mem_uniqueHelper _ _ [] r hp.length_eq]
  constructor
  · rintro ⟨l, hl, rfl⟩
    rw [List.append_nil]; exact hl.trans hp
  · intro h
    exact ⟨r, h.trans hp.symm, (List.append_nil r).symm⟩

/-- **Multinomial count.**  (number of yielded tuples) · ∏ (multiplicity of v)! = (number of elements)!. -/
theorem uniquePerms_count {α : Type} [DecidableEq α] (uniq elements : List α) (hu : uniq.Nodup)
    (hm : ∀ v, v ∈ uniq ↔ v ∈ elements) :
    (uniquePerms uniq elements).length * (uniq.map (fun v => (elements.count v).factorial)).prod
      = elements.length.factorial := by
  have hp := expand_counters_perm uniq elements hu hm
  have htot : total (counters uniq elements) = elements.length := by rw [← length_expand, hp.length_eq]
  have := length_uniqueHelper elements.length (counters uniq elements) [] htot
  rw [← this]
  unfold uniquePerms factProd counters
  simp [List.map_map, Function.comp_def]

/-- non-vacuity: `[7, 7, 9]` with `set` order `[9, 7]` yields the three rearrangements, last position filled first -/
example : uniquePerms [9, 7] [7, 7, 9] = [[7, 7, 9], [7, 9, 7], [9, 7, 7]] := by decide

/-! ## `perfect_matchings` -/

/-- **Every row is a perfect matching** of the given distinct objects (even number `≥ 2` of them). -/
theorem perfectMatchings_valid {α : Type} [DecidableEq α] (S : List α) (hn : S.Nodup) (he : S.length % 2 = 0)
    (h0 : S ≠ []) (row : List α) (hrow : row ∈ perfectMatchings S) : IsPerfectMatching S (matchingOf row) := by
  rw [perfectMatchings_eq_pmSpec S h0] at hrow
  exact (pmGood S hn he).valid row hrow

/-- **Each matching once**: different rows represent different matchings (as sets of unordered pairs), and no row is repeated. -/
theorem perfectMatchings_nodup {α : Type} [DecidableEq α] (S : List α) (hn : S.Nodup) (he : S.length % 2 = 0)
    (h0 : S ≠ []) : ((perfectMatchings S).map matchingOf).Nodup := by
  rw [perfectMatchings_eq_pmSpec S h0]
  have g := pmGood S hn he
  exact List.Nodup.map_on g.inj g.nodup

/-- **Completeness**: every perfect matching of the objects is represented by some row. -/
theorem perfectMatchings_complete {α : Type} [DecidableEq α] (S : List α) (hn : S.Nodup) (he : S.length % 2 = 0)
    (h0 : S ≠ []) (M : Finset (Sym2 α)) (hM : IsPerfectMatching S M) :
    ∃ row ∈ perfectMatchings S, matchingOf row = M := by
  rw [perfectMatchings_eq_pmSpec S h0]
  exact (pmGood S hn he).complete M hM

/-- **Count**: `n` objects (`n` even, `≥ 2`) have `(n-1)!!` rows. -/
theorem perfectMatchings_count {α : Type} [DecidableEq α] (S : List α) (he : S.length % 2 = 0) (h0 : S ≠ []) :
    (perfectMatchings S).length = Nat.doubleFactorial (S.length - 1) := by
  rw [perfectMatchings_eq_pmSpec S h0]
  exact length_pmSpec S he

/-- an odd number of objects has no perfect matching: the function returns no rows -/
theorem perfectMatchings_odd {α : Type} [DecidableEq α] (S : List α) (ho : S.length % 2 = 1) :
    perfectMatchings S = [] := by
  have h0 : S ≠ [] := by rintro rfl; simp at ho
  rw [perfectMatchings_eq_pmSpec S h0]
  exact pmSpec_odd S ho

/-- **The `int` argument form** `perfect_matchings(n)` (`num = np.arange(n)`), `n` even and positive: the rows are perfect matchings of `0..n-1`, pairwise
    different as matchings, every perfect matching occurs, and there are `(n-1)!!` rows. -/
theorem perfectMatchingsInt_spec (n : ℕ) (he : n % 2 = 0) (h0 : 0 < n) :
    (∀ row ∈ perfectMatchingsInt n, IsPerfectMatching (List.range n) (matchingOf row)) ∧
    ((perfectMatchingsInt n).map matchingOf).Nodup ∧
    (∀ M, IsPerfectMatching (List.range n) M → ∃ row ∈ perfectMatchingsInt n, matchingOf row = M) ∧
    (perfectMatchingsInt n).length = Nat.doubleFactorial (n - 1) := by
  have hn : (List.range n).Nodup := List.nodup_range
  have hl : (List.range n).length % 2 = 0 := by rw [List.length_range]; exact he
  have hne : List.range n ≠ [] := by
    intro h; have := congrArg List.length h; rw [List.length_range] at this; simp at this; omega
  refine ⟨fun row hrow => perfectMatchings_valid _ hn hl hne row hrow, perfectMatchings_nodup _ hn hl hne,
    fun M hM => perfectMatchings_complete _ hn hl hne M hM, ?_⟩
  have := perfectMatchings_count (List.range n) hl hne
  rwa [List.length_range] at this

/-- non-vacuity: the docstring example, and the count for six objects -/
example : perfectMatchings [0, 1, 2, 3] = [[0, 1, 2, 3], [0, 2, 1, 3], [0, 3, 2, 1]]
    ∧ (perfectMatchings [5, 3, 9, 1, 0, 4]).length = 15 := by decide

/-! ## projectors: mirror = specification -/

/-- every flat index below `d^p` is the tensor index of its digit vector, so the entrywise theorems below cover all entries -/
theorem index_is_digits {d p : ℕ} (hd : 0 < d) (i : ℕ) (hi : i < d ^ p) :
    ∃ y : Fin p → Fin d, encD y = i :=
  ⟨_, encD_digits hd i (by rw [prodN_const]; exact hi)⟩

/-- **`permutation_operator` is `W_σ`.**  The C01 mirror model of `permutation_operator(d·ones(p), σ)` has entry `(y, x)` equal to `1` iff
    `y = x ∘ σ`, i.e. it is the specification's `permMat σ`. -/
theorem permOp_eq_permMat {d p : ℕ} (f : ℕ → ℕ) (hf : IsPermN p f) (y x : Fin p → Fin d) :
    ((permOp (α := ℤ) p f (constDims d) false (encD y) (encD x) : ℤ) : ℚ) = permMat d p (permOfFn p f hf) y x := by
  rw [permOp_encD f hf]
  unfold permMat
  push_cast
  rfl

/-- **Symmetric projection.**  For all `d`, `p` the integer matrix accumulated by `symmetric_projection` (before `/= p!`) is
    entrywise `p!` times the projector `(1/p!) Σ_σ W_σ`. -/
theorem symProj_eq_spec {d p : ℕ} (y x : Fin p → Fin d) :
    ((symProjN d p (encD y) (encD x) : ℤ) : ℚ) = (p.factorial : ℚ) * symSpec d p y x :=
  symProjN_eq y x

/-- **Antisymmetric projection.**  For all `d`, `p` (including the `p = 1` and `d < p` early returns) the integer matrix accumulated
    by `antisymmetric_projection` is entrywise `p!` times the projector `(1/p!) Σ_σ sgn(σ) W_σ`. -/
theorem antisymProj_eq_spec {d p : ℕ} (y x : Fin p → Fin d) :
    ((antisymProjN d p (encD y) (encD x) : ℤ) : ℚ) = (p.factorial : ℚ) * antiSpec d p y x :=
  antisymProjN_eq y x

/-- the executable reference definitions used by the harness are the specification as well -/
theorem refs_eq_spec {d p : ℕ} (y x : Fin p → Fin d) :
    ((symRefN d p (encD y) (encD x) : ℤ) : ℚ) = (p.factorial : ℚ) * symSpec d p y x ∧
    ((antisymRefN d p (encD y) (encD x) : ℤ) : ℚ) = (p.factorial : ℚ) * antiSpec d p y x :=
  ⟨symRefN_eq y x, antisymRefN_eq y x⟩

/-- the driver's row-wise evaluation returns exactly the rows of the models -/
theorem driver_rows (d p N i j : ℕ) (hj : j < N) :
    (symProjRow d p N i)[j]? = some (symProjN d p i j) ∧ (antisymProjRow d p N i)[j]? = some (antisymProjN d p i j) ∧
    (symRefRow d p N i)[j]? = some (symRefN d p i j) ∧ (antisymRefRow d p N i)[j]? = some (antisymRefN d p i j) :=
  ⟨symProjRow_get d p N i j hj, antisymProjRow_get d p N i j hj, symRefRow_get d p N i j hj,
    antisymRefRow_get d p N i j hj⟩

/-! ## projectors: algebraic laws (all `d`, `p`) -/

/-- `W_σ W_τ = W_{τσ}`, `W_1 = 1`, `W_σᵀ = W_{σ⁻¹}`: the permutation operators form a (anti-)representation -/
theorem permMat_group {d p : ℕ} (σ τ : Perm (Fin p)) :
    permMat d p σ * permMat d p τ = permMat d p (τ * σ) ∧ permMat d p 1 = 1 ∧ (permMat d p σ)ᵀ = permMat d p σ⁻¹ :=
  ⟨permMat_mul σ τ, permMat_one, permMat_transpose σ⟩

/-- the symmetric projector is Hermitian (real symmetric) -/
theorem symSpec_hermitian (d p : ℕ) : (symSpec d p)ᵀ = symSpec d p := symSpec_transpose

/-- the symmetric projector is idempotent -/
theorem symSpec_idempotent (d p : ℕ) : symSpec d p * symSpec d p = symSpec d p := symSpec_mul_self

/-- the symmetric projector is fixed by every subsystem permutation (on either side) -/
theorem symSpec_fixed {d p : ℕ} (τ : Perm (Fin p)) :
    permMat d p τ * symSpec d p = symSpec d p ∧ symSpec d p * permMat d p τ = symSpec d p :=
  ⟨permMat_mul_symSpec τ, symSpec_mul_permMat τ⟩

/-- the antisymmetric projector is Hermitian (real symmetric) -/
theorem antiSpec_hermitian (d p : ℕ) : (antiSpec d p)ᵀ = antiSpec d p := antiSpec_transpose

/-- the antisymmetric projector is idempotent -/
theorem antiSpec_idempotent (d p : ℕ) : antiSpec d p * antiSpec d p = antiSpec d p := antiSpec_mul_self

/-- every subsystem permutation acts on the antisymmetric projector as its sign -/
theorem antiSpec_sign {d p : ℕ} (τ : Perm (Fin p)) :
    permMat d p τ * antiSpec d p = ((Perm.sign τ : ℤ) : ℚ) • antiSpec d p ∧
    antiSpec d p * permMat d p τ = ((Perm.sign τ : ℤ) : ℚ) • antiSpec d p :=
  ⟨permMat_mul_antiSpec τ, antiSpec_mul_permMat τ⟩

/-- the two projectors are orthogonal for `p ≥ 2` -/
theorem symSpec_mul_antiSpec_zero {d p : ℕ} (hp : 2 ≤ p) :
    symSpec d p * antiSpec d p = 0 ∧ antiSpec d p * symSpec d p = 0 :=
  ⟨symSpec_mul_antiSpec hp, antiSpec_mul_symSpec hp⟩

/-- for `p = 2` they sum to the identity -/
theorem symSpec_add_antiSpec (d : ℕ) : symSpec d 2 + antiSpec d 2 = 1 := symSpec_add_antiSpec_two

/-- the antisymmetric subspace is `0` when `d < p` (what the early return of the code asserts) -/
theorem antiSpec_zero_of_lt {d p : ℕ} (h : d < p) : antiSpec d p = 0 := antiSpec_eq_zero_of_lt h

/-! ### two laws transported back to the integer model -/

/-- idempotence on the integer model: `(p!·P)² = p!·(p!·P)` with the matrix product written as the model's `sumN` -/
theorem symProj_idempotent_model {d p : ℕ} (hd : 0 < d) (i j : ℕ) (hi : i < d ^ p) (hj : j < d ^ p) :
    sumN (d ^ p) (fun k => symProjN d p i k * symProjN d p k j) = (p.factorial : ℤ) * symProjN d p i j := by
  obtain ⟨y, rfl⟩ := index_is_digits hd i hi
  obtain ⟨x, rfl⟩ := index_is_digits hd j hj
  have h := matmul_cast hd (symProjN d p) (symProjN d p) (symSpec d p) (symSpec d p) _ _
    (fun y x => symProjN_eq y x) (fun y x => symProjN_eq y x) y x
  rw [symSpec_mul_self] at h
  have h2 : (((p.factorial : ℤ) * symProjN d p (encD y) (encD x) : ℤ) : ℚ)
      = (p.factorial : ℚ) * (p.factorial : ℚ) * symSpec d p y x := by
    push_cast; rw [symProjN_eq]; ring
  exact Int.cast_injective (h.trans h2.symm)

/-- invariance on the integer model: left multiplication by the model of `permutation_operator(d·ones(p), τ)` fixes the matrix -/
theorem symProj_fixed_model {d p : ℕ} (hd : 0 < d) (f : ℕ → ℕ) (hf : IsPermN p f) (i j : ℕ) (hi : i < d ^ p)
    (hj : j < d ^ p) :
    sumN (d ^ p) (fun k => permOp (α := ℤ) p f (constDims d) false i k * symProjN d p k j) = symProjN d p i j := by
  obtain ⟨y, rfl⟩ := index_is_digits hd i hi
  obtain ⟨x, rfl⟩ := index_is_digits hd j hj
  have h := matmul_cast hd (permOp (α := ℤ) p f (constDims d) false) (symProjN d p) (permMat d p (permOfFn p f hf))
    (symSpec d p) 1 _ (fun y x => by rw [permOp_eq_permMat f hf, one_mul]) (fun y x => symProjN_eq y x) y x
  rw [permMat_mul_symSpec, one_mul, ← symProjN_eq] at h
  exact Int.cast_injective h

/-- idempotence of the antisymmetric integer model: `(p!·A)² = p!·(p!·A)` -/
theorem antisymProj_idempotent_model {d p : ℕ} (hd : 0 < d) (i j : ℕ) (hi : i < d ^ p) (hj : j < d ^ p) :
    sumN (d ^ p) (fun k => antisymProjN d p i k * antisymProjN d p k j) = (p.factorial : ℤ) * antisymProjN d p i j := by
  obtain ⟨y, rfl⟩ := index_is_digits hd i hi
  obtain ⟨x, rfl⟩ := index_is_digits hd j hj
  have h := matmul_cast hd (antisymProjN d p) (antisymProjN d p) (antiSpec d p) (antiSpec d p) _ _
    (fun y x => antisymProjN_eq y x) (fun y x => antisymProjN_eq y x) y x
  rw [antiSpec_mul_self] at h
  have h2 : (((p.factorial : ℤ) * antisymProjN d p (encD y) (encD x) : ℤ) : ℚ)
      = (p.factorial : ℚ) * (p.factorial : ℚ) * antiSpec d p y x := by
    push_cast; rw [antisymProjN_eq]; ring
  exact Int.cast_injective (h.trans h2.symm)

/-- sign action on the integer model: left multiplication by the model of `permutation_operator(d·ones(p), τ)` multiplies the accumulated
    antisymmetric matrix by `perm_sign(τ + 1)` (the very call the code makes) -/
theorem antisymProj_sign_model {d p : ℕ} (hd : 0 < d) (f : ℕ → ℕ) (hf : IsPermN p f) (i j : ℕ) (hi : i < d ^ p)
    (hj : j < d ^ p) :
    sumN (d ^ p) (fun k => permOp (α := ℤ) p f (constDims d) false i k * antisymProjN d p k j)
      = permSign p (fun k => (f k : ℤ) + 1) * antisymProjN d p i j := by
  obtain ⟨y, rfl⟩ := index_is_digits hd i hi
  obtain ⟨x, rfl⟩ := index_is_digits hd j hj
  have h := matmul_cast hd (permOp (α := ℤ) p f (constDims d) false) (antisymProjN d p) (permMat d p (permOfFn p f hf))
    (antiSpec d p) 1 _ (fun y x => by rw [permOp_eq_permMat f hf, one_mul]) (fun y x => antisymProjN_eq y x) y x
  rw [permMat_mul_antiSpec, one_mul, Matrix.smul_apply, smul_eq_mul] at h
  have h2 : ((permSign p (fun k => (f k : ℤ) + 1) * antisymProjN d p (encD y) (encD x) : ℤ) : ℚ)
      = (p.factorial : ℚ) * (((Perm.sign (permOfFn p f hf) : ℤ) : ℚ) * antiSpec d p y x) := by
    push_cast; rw [antisymProjN_eq, permSign_one_indexed p f hf]; ring
  exact Int.cast_injective (h.trans h2.symm)

/-- orthogonality on the integer models, `p ≥ 2` -/
theorem proj_orthogonal_model {d p : ℕ} (hd : 0 < d) (hp : 2 ≤ p) (i j : ℕ) (hi : i < d ^ p) (hj : j < d ^ p) :
    sumN (d ^ p) (fun k => symProjN d p i k * antisymProjN d p k j) = 0 ∧
    sumN (d ^ p) (fun k => antisymProjN d p i k * symProjN d p k j) = 0 := by
  obtain ⟨y, rfl⟩ := index_is_digits hd i hi
  obtain ⟨x, rfl⟩ := index_is_digits hd j hj
  have h1 := matmul_cast hd (symProjN d p) (antisymProjN d p) (symSpec d p) (antiSpec d p) _ _
    (fun y x => symProjN_eq y x) (fun y x => antisymProjN_eq y x) y x
  have h2 := matmul_cast hd (antisymProjN d p) (symProjN d p) (antiSpec d p) (symSpec d p) _ _
    (fun y x => antisymProjN_eq y x) (fun y x => symProjN_eq y x) y x
  rw [symSpec_mul_antiSpec hp] at h1
  rw [antiSpec_mul_symSpec hp] at h2
  constructor
  · apply Int.cast_injective (α := ℚ); rw [h1]; simp
  · apply Int.cast_injective (α := ℚ); rw [h2]; simp

/-- `p = 2` on the integer models: `2!·S + 2!·A = 2·1` entrywise -/
theorem proj_sum_model {d : ℕ} (hd : 0 < d) (i j : ℕ) (hi : i < d ^ 2) (hj : j < d ^ 2) :
    symProjN d 2 i j + antisymProjN d 2 i j = if i = j then 2 else 0 := by
  obtain ⟨y, rfl⟩ := index_is_digits hd i hi
  obtain ⟨x, rfl⟩ := index_is_digits hd j hj
  apply Int.cast_injective (α := ℚ)
  push_cast
  rw [symProjN_eq, antisymProjN_eq, ← mul_add, ← Matrix.add_apply, symSpec_add_antiSpec_two, Matrix.one_apply]
  by_cases h : y = x
  · subst h; simp [Nat.factorial]
  · rw [if_neg h, if_neg (fun e => h (encD_inj _ _ e))]; simp

/-! ## ranks -/

/-- **rank = trace for idempotents** (over `ℚ`): the linear-algebra fact that turns the trace table into a rank table -/
theorem rank_eq_trace_of_idempotent {ι : Type} [Fintype ι] [DecidableEq ι] (P : Matrix ι ι ℚ) (h : P * P = P) :
    (P.rank : ℚ) = P.trace :=
  Toq.Combinat.rank_eq_trace_of_idempotent P h

/-- **Burnside count.**  Summed over all subsystem permutations `σ`, the number of digit vectors fixed by `σ` (i.e. `tr W_σ = d^(cycles σ)`) is
    `p!` times the number of multisets of `p` digits out of `d`. -/
theorem fixed_digit_vectors_count (d p : ℕ) :
    ∑ σ : Perm (Fin p), (Finset.univ.filter (fun x : Fin p → Fin d => x = x ∘ σ)).card = Nat.multichoose d p * p.factorial :=
  sum_card_fixed

/-- **Trace of the symmetric projector**, all `d`, `p`: `C(d+p-1, p)`. -/
theorem symSpec_trace (d p : ℕ) : (symSpec d p).trace = (Nat.choose (d + p - 1) p : ℚ) := trace_symSpec

/-- **Trace of the antisymmetric projector**, all `d`, `p`: `C(d, p)`. -/
theorem antiSpec_trace (d p : ℕ) : (antiSpec d p).trace = (Nat.choose d p : ℚ) := trace_antiSpec

/-- **Rank of the symmetric projector**, all local dimensions `d` and numbers of copies `p`: `C(d+p-1, p)`. -/
theorem symSpec_rank (d p : ℕ) : (symSpec d p).rank = Nat.choose (d + p - 1) p := rank_symSpec

/-- **Rank of the antisymmetric projector**, all `d`, `p`: `C(d, p)` (in particular `0` for `d < p`). -/
theorem antiSpec_rank (d p : ℕ) : (antiSpec d p).rank = Nat.choose d p := rank_antiSpec

/-- the trace of the integer matrix accumulated by `symmetric_projection` / `antisymmetric_projection` (what the driver reports as `trace`) is
    `p!` times the binomial coefficient, for all `d ≥ 1`, `p` -/
theorem proj_trace_model {d p : ℕ} (hd : 0 < d) :
    traceN (d ^ p) (symProjN d p) = (p.factorial : ℤ) * (Nat.choose (d + p - 1) p : ℤ) ∧
    traceN (d ^ p) (antisymProjN d p) = (p.factorial : ℤ) * (Nat.choose d p : ℤ) :=
  ⟨traceN_symProjN hd, traceN_antisymProjN hd⟩

/-- the integer matrices of the mirror models, read as rational matrices on digit vectors, have these ranks too -/
theorem proj_rank_model (d p : ℕ) :
    (modelMat (d := d) (p := p) (symProjN d p)).rank = Nat.choose (d + p - 1) p ∧
    (modelMat (d := d) (p := p) (antisymProjN d p)).rank = Nat.choose d p :=
  ⟨(rank_modelMat _ _ (fun y x => symProjN_eq y x)).trans rank_symSpec,
   (rank_modelMat _ _ (fun y x => antisymProjN_eq y x)).trans rank_antiSpec⟩

/-- cross-check of the general formulas by kernel evaluation of the integer reference model: `3!·C(5,3)` and `3!·C(3,3)` at `d = p = 3` -/
example : traceN (3 ^ 3) (symRefN 3 3) = 60 ∧ traceN (3 ^ 3) (antisymRefN 3 3) = 6 ∧ Nat.choose (3 + 3 - 1) 3 = 10 := by
  decide +kernel

/-! ## uniqueness: the clauses of the property determine the projectors -/

/-- **The symmetric projector is the only matrix with the properties the statement lists**: a symmetric idempotent that is fixed by every subsystem
    permutation and has rank `C(d+p-1, p)` is `symSpec d p`.  (So the laws the harness evaluates on the implementation's output pin the output down.) -/
theorem symSpec_unique {d p : ℕ} (Q : Matrix (Fin p → Fin d) (Fin p → Fin d) ℚ) (hT : Qᵀ = Q) (hQ : Q * Q = Q)
    (hfix : ∀ τ : Perm (Fin p), permMat d p τ * Q = Q) (hr : Q.rank = Nat.choose (d + p - 1) p) : Q = symSpec d p :=
  symSpec_unique' Q hT hQ hfix hr

/-- **The antisymmetric projector is the only** symmetric idempotent on which every subsystem permutation acts as its sign and that has rank `C(d, p)`. -/
theorem antiSpec_unique {d p : ℕ} (Q : Matrix (Fin p → Fin d) (Fin p → Fin d) ℚ) (hT : Qᵀ = Q) (hQ : Q * Q = Q)
    (hsgn : ∀ τ : Perm (Fin p), permMat d p τ * Q = ((Perm.sign τ : ℤ) : ℚ) • Q) (hr : Q.rank = Nat.choose d p) :
    Q = antiSpec d p :=
  antiSpec_unique' Q hT hQ hsgn hr

/-- the hypotheses are satisfiable: the projectors themselves meet them -/
example (d p : ℕ) : (symSpec d p)ᵀ = symSpec d p ∧ symSpec d p * symSpec d p = symSpec d p ∧
    (∀ τ : Perm (Fin p), permMat d p τ * symSpec d p = symSpec d p) ∧ (symSpec d p).rank = Nat.choose (d + p - 1) p :=
  ⟨symSpec_transpose, symSpec_mul_self, permMat_mul_symSpec, rank_symSpec⟩

/-! ## ranges -/

/-- `W_τ` permutes the tensor factors: `(W_τ v)[y] = v[y ∘ τ⁻¹]` -/
theorem permMat_action {d p : ℕ} (τ : Perm (Fin p)) (v : (Fin p → Fin d) → ℚ) (y : Fin p → Fin d) :
    (permMat d p τ).mulVec v y = v (y ∘ (τ⁻¹ : Perm (Fin p))) := permMat_mulVec τ v y

/-- **The symmetric projector projects onto the permutation-invariant vectors**: `v` is in its range iff `P v = v` iff every subsystem permutation
    fixes `v`. -/
theorem symSpec_range {d p : ℕ} (v : (Fin p → Fin d) → ℚ) :
    (v ∈ LinearMap.range (symSpec d p).mulVecLin ↔ ∀ τ : Perm (Fin p), (permMat d p τ).mulVec v = v) ∧
    ((symSpec d p).mulVec v = v ↔ ∀ τ : Perm (Fin p), (permMat d p τ).mulVec v = v) :=
  ⟨(mem_range_iff_of_idempotent _ symSpec_mul_self v).trans (symSpec_mulVec_eq_iff v), symSpec_mulVec_eq_iff v⟩

/-- **The antisymmetric projector projects onto the vectors on which every permutation acts as its sign.** -/
theorem antiSpec_range {d p : ℕ} (v : (Fin p → Fin d) → ℚ) :
    (v ∈ LinearMap.range (antiSpec d p).mulVecLin ↔
      ∀ τ : Perm (Fin p), (permMat d p τ).mulVec v = ((Perm.sign τ : ℤ) : ℚ) • v) ∧
    ((antiSpec d p).mulVec v = v ↔ ∀ τ : Perm (Fin p), (permMat d p τ).mulVec v = ((Perm.sign τ : ℤ) : ℚ) • v) :=
  ⟨(mem_range_iff_of_idempotent _ antiSpec_mul_self v).trans (antiSpec_mulVec_eq_iff v), antiSpec_mulVec_eq_iff v⟩

/-! ## `partial=True`: control flow, shapes, and the contract of the isometry -/

/-- the Mathlib-free binomial coefficient of the model is `Nat.choose` -/
theorem binom_is_choose (n k : ℕ) : binom n k = Nat.choose n k := binom_eq_choose n k

/-- **Shape of the isometry forms.**  For every `d` and `p ≥ 1`, along every branch (`p = 1` early return, the `d < p` early return with
    `d^p·(1 - partial) = 0` columns, and `orth`), `partial=True` returns `d^p` rows and as many columns as the rank of the projector. -/
theorem partial_shape (d p : ℕ) (hp : 1 ≤ p) :
    (symForm d p true).shape = (d ^ p, (symSpec d p).rank) ∧ (antisymForm d p true).shape = (d ^ p, (antiSpec d p).rank) :=
  ⟨symForm_shape d p hp, antisymForm_shape d p hp⟩

/-- **The early returns are right**, `partial` on or off: for one copy both projectors are the identity (so `np.eye(dim)` is the projector and an
    isometry onto its range at once); for `d < p` the antisymmetric projector is `0` (no columns). -/
theorem early_returns (d : ℕ) : symSpec d 1 = 1 ∧ antiSpec d 1 = 1 ∧ ∀ p, d < p → antiSpec d p = 0 :=
  ⟨symSpec_one_copy, antiSpec_one_copy, fun _ h => antiSpec_eq_zero_of_lt h⟩

/-- **What the harness measures implies the isometry contract** (any field `K` of characteristic `0`, e.g. `ℝ` where the returned doubles live).
    If `P` is a symmetric idempotent, the columns of `V` are orthonormal (`VᵀV = 1`), lie in the range of `P` (`P V = V`), and there are `rank P`
    of them, then `V Vᵀ = P`: the columns span exactly the range of `P`. -/
theorem isometry_contract_of_residuals {K : Type} [Field K] [CharZero K] {ι κ : Type} [Fintype ι] [DecidableEq ι] [Fintype κ]
    [DecidableEq κ] (P : Matrix ι ι K) (V : Matrix ι κ K) (hT : Pᵀ = P) (hP : P * P = P) (hV : Vᵀ * V = 1) (hPV : P * V = V)
    (hk : Fintype.card κ = P.rank) : V * Vᵀ = P :=
  isometry_of_residuals P V hT hP hV hPV hk

/-- **Consequences of the contract.**  If `VᵀV = 1` and `V Vᵀ = P` then `V` has exactly `rank P` columns, `P V = V`, and the column space of
    `V` is the range of `P`. -/
theorem isometry_contract_consequences {K : Type} [Field K] [CharZero K] {ι κ : Type} [Fintype ι] [DecidableEq ι] [Fintype κ]
    [DecidableEq κ] (P : Matrix ι ι K) (V : Matrix ι κ K) (hV : Vᵀ * V = 1) (hVV : V * Vᵀ = P) :
    Fintype.card κ = P.rank ∧ P * V = V ∧ LinearMap.range V.mulVecLin = LinearMap.range P.mulVecLin :=
  contract_of_isometry P V hV hVV

/-- **The contract for the two projectors**, entries read in any field `K` of characteristic `0`: a matrix with orthonormal columns, fixed by the
    symmetric (antisymmetric) projector, with `C(d+p-1, p)` (`C(d, p)`) columns satisfies `V Vᵀ = P`. -/
theorem partial_contract {K : Type} [Field K] [CharZero K] {d p : ℕ} {κ : Type} [Fintype κ] [DecidableEq κ]
    (V : Matrix (Fin p → Fin d) κ K) (hV : Vᵀ * V = 1) :
    (castMat K (symSpec d p) * V = V → Fintype.card κ = Nat.choose (d + p - 1) p → V * Vᵀ = castMat K (symSpec d p)) ∧
    (castMat K (antiSpec d p) * V = V → Fintype.card κ = Nat.choose d p → V * Vᵀ = castMat K (antiSpec d p)) :=
  ⟨fun h hk => isometry_of_residuals_cast _ symSpec_transpose symSpec_mul_self V hV h (hk.trans rank_symSpec.symm),
   fun h hk => isometry_of_residuals_cast _ antiSpec_transpose antiSpec_mul_self V hV h (hk.trans rank_antiSpec.symm)⟩

/-- non-vacuity of the contract: the column `(3/5, 4/5)` and the projector onto its span -/
example : let P : Matrix (Fin 2) (Fin 2) ℚ := !![9/25, 12/25; 12/25, 16/25]
    let V : Matrix (Fin 2) (Fin 1) ℚ := !![3/5; 4/5]
    Pᵀ = P ∧ P * P = P ∧ Vᵀ * V = 1 ∧ P * V = V ∧ V * Vᵀ = P := by
  intro P V
  refine ⟨?_, ?_, ?_, ?_, ?_⟩ <;> ext i j <;> fin_cases i <;> fin_cases j <;>
    simp [P, V, Matrix.mul_apply, Fin.sum_univ_two] <;> norm_num

/-- the branches of the control-flow model on the property's corner cases -/
example : symForm 3 1 true = .eye 3 ∧ antisymForm 2 3 true = .zeros 8 0 ∧ antisymForm 2 3 false = .zeros 8 8
    ∧ symForm 3 4 true = .orth 81 15 ∧ antisymForm 4 2 true = .orth 16 6 ∧ antisymForm 4 4 false = .full 256 := by decide

/-- non-vacuity: `2!·symmetric_projection(2, 2)` and `2!·antisymmetric_projection(2, 2)` as the mirror models compute them -/
example : (List.range 4).map (fun i => (List.range 4).map (symProjN 2 2 i)) = [[2,0,0,0],[0,1,1,0],[0,1,1,0],[0,0,0,2]]
    ∧ (List.range 4).map (fun i => (List.range 4).map (antisymProjN 2 2 i)) = [[0,0,0,0],[0,1,-1,0],[0,-1,1,0],[0,0,0,0]] := by
  decide +kernel

end Toq.C18
