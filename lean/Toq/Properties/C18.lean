import Toq.Model.Combinat
import Toq.Spec.Combinat
import Toq.Proofs.Combinat
import Mathlib.Data.Nat.Choose.Basic
/-!
# C18 — symmetric / antisymmetric projectors and combinatorial enumerators are exact

Property theorems only (helper lemmas: `Toq/Proofs/Combinat.lean`).  Mirror models: `Toq/Model/Combinat.lean`
(`permSign`, `permsList`, `uniquePerms`, `perfectMatchings`, `symProjN`, `antisymProjN`); specification vocabulary:
`Toq/Spec/Combinat.lean` (`symSpec`, `antiSpec` as rational matrices indexed by digit vectors `Fin p → Fin d`, `permMat`,
`IsPerm1`, `IsPerfectMatching`, `matchingOf`, `rankTable`).

What is proved about what:
* `perm_sign`, `unique_perms`, `perfect_matchings`: theorems about the mirror models, for all inputs in the stated domain.
* projectors: (a) the mirror models are *entrywise* `p!` times the specification matrices, for **all** `d`, `p` and all entries
  (`symProj_eq_spec`, `antisymProj_eq_spec`, `index_is_digits`); (b) the algebraic laws (Hermitian, idempotent, permutation action,
  orthogonality, `p = 2` resolution of the identity) are proved for the specification matrices for **all** `d`, `p` by group averaging
  over `Equiv.Perm (Fin p)`, where `permMat σ` is proved to be the entry pattern of the C01 model of `permutation_operator`
  (`permOp_eq_permMat`); two of the laws are also transported back to the integer model (`symProj_idempotent_model`,
  `symProj_fixed_model`); (c) ranks: `rank = trace` for idempotents is proved in general (`rank_eq_trace_of_idempotent`); the trace itself
  is evaluated by the kernel (`decide +kernel`) on the property's finite table `d, p ∈ 1..4` only (`symSpec_rank_table`,
  `antiSpec_rank_table`) — no general-`d` rank formula is proved.
* `partial=True` (LAPACK `orth`) has no Lean model; it is checked numerically by the harness against the exact projector.
-/
namespace Toq.C18
open Equiv Matrix Toq.Perms Toq.C01 Toq.Combinat Toq.Combinat.Spec

/-! ## `perm_sign` -/

/-- **Sign = (-1)^inversions.**  For every `n` and every permutation `perm` of `1..n`, all NumPy fancy indices `perm - 1` are
    valid and the determinant of the column-selected identity computed by `perm_sign` equals `(-1)^(number of inversions)`. -/
theorem permSign_eq_inversions (n : ℕ) (perm : ℕ → ℤ) (h : IsPerm1 n perm) :
    selValid n perm = true ∧ permSign n perm = signInv n perm := by
  constructor
  · unfold selValid
    rw [allBelow_iff]
    intro j hj
    have := h.range j hj
    rw [perm_eq_succ h j hj, add_sub_cancel_right, wrapIdx_nat n _ (by omega)]
    rfl
  · have hf := isPermN_of_isPerm1 h
    rw [permSign_congr n perm (fun j => ((perm j - 1).toNat : ℤ) + 1) (perm_eq_succ h),
      permSign_one_indexed n _ hf, sign_permOfFn]
    unfold signInv
    congr 1
    apply inversions_congr
    intro i j hi hj
    have h1 := h.range i hi
    have h2 := h.range j hj
    show ((perm j - 1).toNat : ℤ) < ((perm i - 1).toNat : ℤ) ↔ perm j < perm i
    omega

/-- **Multiplicativity.**  For permutations `s`, `t` of `1..n`, the sign of the composition `j ↦ s[t[j]]` (1-indexed) is the
    product of the signs. -/
theorem permSign_mul (n : ℕ) (s t : ℕ → ℤ) (hs : IsPerm1 n s) (ht : IsPerm1 n t) :
    permSign n (fun j => s (t j - 1).toNat) = permSign n s * permSign n t := by
  have hfs := isPermN_of_isPerm1 hs
  have hft := isPermN_of_isPerm1 ht
  rw [permSign_congr n s _ (perm_eq_succ hs), permSign_congr n t _ (perm_eq_succ ht),
    permSign_one_indexed n _ hfs, permSign_one_indexed n _ hft, ← Units.val_mul, ← Perm.sign_mul,
    ← permOfFn_comp hfs hft, ← permSign_one_indexed n _ (isPermN_comp hfs hft)]
  apply permSign_congr
  intro j hj
  have := (isPermN_of_isPerm1 ht).lt j hj
  exact perm_eq_succ hs _ this

/-- **Index-convention hazard.**  On a permutation of `0..n-1` (0-indexed, outside the documented convention) the index `-1` wraps
    around to the last column and `perm_sign` returns `(-1)^(n-1)` times the true sign: wrong for every even `n`.  This is why
    `antisymmetric_projection` must pass `p_list[j, :] + 1`. -/
theorem permSign_zero_indexed (n : ℕ) (hn : 0 < n) (f : ℕ → ℕ) (hf : IsPermN n f) :
    permSign n (fun j => (f j : ℤ)) = (-1) ^ (n - 1) * signInv n (fun j => (f j : ℤ)) := by
  rw [permSign_zero_indexed_sign n hn f hf, sign_permOfFn]

/-- non-vacuity: `[2, 4, 1, 3]` is a permutation of `1..4` with 3 inversions; the 0-indexed `[1, 0]` gets the wrong sign `+1` -/
example : permSign 4 (fun k => [2, 4, 1, 3].getD k 0) = -1 ∧ inversions 4 (fun k => [2, 4, 1, 3].getD k 0) = 3
    ∧ permSign 2 (fun k => [1, 0].getD k 0) = 1 := by decide

/-! ## `itertools.permutations(range(p))` as used by the projectors -/

/-- the list the projectors loop over contains exactly the rearrangements of `0..p-1` … -/
theorem permsList_complete (p : ℕ) (t : List ℕ) : t ∈ permsList p ↔ t.Perm (List.range p) :=
  mem_permsList p t

/-- … each once -/
theorem permsList_nodup (p : ℕ) : (permsList p).Nodup := nodup_permsList p

/-! ## `unique_perms` -/

/-- **No repetition.**  For any list of distinct values `uniq` (the iteration order of `set(elements)`), the generator never
    yields the same tuple twice. -/
theorem uniquePerms_nodup {α : Type} [DecidableEq α] (uniq elements : List α) (hu : uniq.Nodup)
    (hm : ∀ v, v ∈ uniq ↔ v ∈ elements) : (uniquePerms uniq elements).Nodup := by
  have hp := expand_counters_perm uniq elements hu hm
  exact nodup_uniqueHelper _ (counters uniq elements) [] hp.length_eq (by rw [counters_fst]; exact hu)

/-- **Completeness.**  A tuple is yielded iff it is a rearrangement of `elements` (so every distinct rearrangement of the multiset
    occurs, and nothing else). -/
theorem uniquePerms_complete {α : Type} [DecidableEq α] (uniq elements : List α) (hu : uniq.Nodup)
    (hm : ∀ v, v ∈ uniq ↔ v ∈ elements) (r : List α) :
    r ∈ uniquePerms uniq elements ↔ r.Perm elements := by
  have hp := expand_counters_perm uniq elements hu hm
  unfold uniquePerms
  rw [show uniq.map (fun v => (v, elements.count v)) = counters uniq elements from rfl,
    mem_uniqueHelper _ _ [] r hp.length_eq]
  constructor
  · rintro ⟨l, hl, rfl⟩
    rw [List.append_nil]; exact hl.trans hp
  · intro h
    exact ⟨r, h.trans hp.symm, (List.append_nil r).symm⟩

/-- **Multinomial count.**  (number of yielded tuples) · ∏ (multiplicity of v)! = (number of elements)!. -/
theorem uniquePerms_count {α : Type} [DecidableEq α] (uniq elements : List α) (hu : uniq.Nodup)
    (hm : ∀ v, v ∈ uniq ↔ v ∈ elements) :
    (uniquePerms uniq elements).length * (uniq.map (fun v => (elements.count v).factorial)).prod
      = elements.length.factorial := by
  have hp := expand_counters_perm uniq elements hu hm
  have htot : total (counters uniq elements) = elements.length := by rw [← length_expand, hp.length_eq]
  have := length_uniqueHelper elements.length (counters uniq elements) [] htot
  rw [← this]
  unfold uniquePerms factProd counters
  simp [List.map_map, Function.comp_def]

/-- non-vacuity: `[7, 7, 9]` with `set` order `[9, 7]` yields the three rearrangements, last position filled first -/
example : uniquePerms [9, 7] [7, 7, 9] = [[7, 7, 9], [7, 9, 7], [9, 7, 7]] := by decide

/-! ## `perfect_matchings` -/

/-- **Every row is a perfect matching** of the given distinct objects (even number `≥ 2` of them). -/
theorem perfectMatchings_valid {α : Type} [DecidableEq α] (S : List α) (hn : S.Nodup) (he : S.length % 2 = 0)
    (h0 : S ≠ []) (row : List α) (hrow : row ∈ perfectMatchings S) : IsPerfectMatching S (matchingOf row) := by
  rw [perfectMatchings_eq_pmSpec S h0] at hrow
  exact (pmGood S hn he).valid row hrow

/-- **Each matching once**: different rows represent different matchings (as sets of unordered pairs), and no row is repeated. -/
theorem perfectMatchings_nodup {α : Type} [DecidableEq α] (S : List α) (hn : S.Nodup) (he : S.length % 2 = 0)
    (h0 : S ≠ []) : ((perfectMatchings S).map matchingOf).Nodup := by
  rw [perfectMatchings_eq_pmSpec S h0]
  have g := pmGood S hn he
  exact List.Nodup.map_on g.inj g.nodup

/-- **Completeness**: every perfect matching of the objects is represented by some row. -/
theorem perfectMatchings_complete {α : Type} [DecidableEq α] (S : List α) (hn : S.Nodup) (he : S.length % 2 = 0)
    (h0 : S ≠ []) (M : Finset (Sym2 α)) (hM : IsPerfectMatching S M) :
    ∃ row ∈ perfectMatchings S, matchingOf row = M := by
  rw [perfectMatchings_eq_pmSpec S h0]
  exact (pmGood S hn he).complete M hM

/-- **Count**: `n` objects (`n` even, `≥ 2`) have `(n-1)!!` rows. -/
theorem perfectMatchings_count {α : Type} [DecidableEq α] (S : List α) (he : S.length % 2 = 0) (h0 : S ≠ []) :
    (perfectMatchings S).length = Nat.doubleFactorial (S.length - 1) := by
  rw [perfectMatchings_eq_pmSpec S h0]
  exact length_pmSpec S he

/-- an odd number of objects has no perfect matching: the function returns no rows -/
theorem perfectMatchings_odd {α : Type} [DecidableEq α] (S : List α) (ho : S.length % 2 = 1) :
    perfectMatchings S = [] := by
  have h0 : S ≠ [] := by rintro rfl; simp at ho
  rw [perfectMatchings_eq_pmSpec S h0]
  exact pmSpec_odd S ho

/-- non-vacuity: the docstring example, and the count for six objects -/
example : perfectMatchings [0, 1, 2, 3] = [[0, 1, 2, 3], [0, 2, 1, 3], [0, 3, 2, 1]]
    ∧ (perfectMatchings [5, 3, 9, 1, 0, 4]).length = 15 := by decide

/-! ## projectors: mirror = specification -/

/-- every flat index below `d^p` is the tensor index of its digit vector, so the entrywise theorems below cover all entries -/
theorem index_is_digits {d p : ℕ} (hd : 0 < d) (i : ℕ) (hi : i < d ^ p) :
    ∃ y : Fin p → Fin d, encD y = i :=
  ⟨_, encD_digits hd i (by rw [prodN_const]; exact hi)⟩

/-- **`permutation_operator` is `W_σ`.**  The C01 mirror model of `permutation_operator(d·ones(p), σ)` has entry `(y, x)` equal to `1` iff
    `y = x ∘ σ`, i.e. it is the specification's `permMat σ`. -/
theorem permOp_eq_permMat {d p : ℕ} (f : ℕ → ℕ) (hf : IsPermN p f) (y x : Fin p → Fin d) :
    ((permOp (α := ℤ) p f (constDims d) false (encD y) (encD x) : ℤ) : ℚ) = permMat d p (permOfFn p f hf) y x := by
  rw [permOp_encD f hf]
  unfold permMat
  push_cast
  rfl

/-- **Symmetric projection.**  For all `d`, `p` the integer matrix accumulated by `symmetric_projection` (before `/= p!`) is
    entrywise `p!` times the projector `(1/p!) Σ_σ W_σ`. -/
theorem symProj_eq_spec {d p : ℕ} (y x : Fin p → Fin d) :
    ((symProjN d p (encD y) (encD x) : ℤ) : ℚ) = (p.factorial : ℚ) * symSpec d p y x :=
  symProjN_eq y x

/-- **Antisymmetric projection.**  For all `d`, `p` (including the `p = 1` and `d < p` early returns) the integer matrix accumulated
    by `antisymmetric_projection` is entrywise `p!` times the projector `(1/p!) Σ_σ sgn(σ) W_σ`. -/
theorem antisymProj_eq_spec {d p : ℕ} (y x : Fin p → Fin d) :
    ((antisymProjN d p (encD y) (encD x) : ℤ) : ℚ) = (p.factorial : ℚ) * antiSpec d p y x :=
  antisymProjN_eq y x

/-- the executable reference definitions used by the harness are the specification as well -/
theorem refs_eq_spec {d p : ℕ} (y x : Fin p → Fin d) :
    ((symRefN d p (encD y) (encD x) : ℤ) : ℚ) = (p.factorial : ℚ) * symSpec d p y x ∧
    ((antisymRefN d p (encD y) (encD x) : ℤ) : ℚ) = (p.factorial : ℚ) * antiSpec d p y x :=
  ⟨symRefN_eq y x, antisymRefN_eq y x⟩

/-- the driver's row-wise evaluation returns exactly the rows of the models -/
theorem driver_rows (d p N i j : ℕ) (hj : j < N) :
    (symProjRow d p N i)[j]? = some (symProjN d p i j) ∧ (antisymProjRow d p N i)[j]? = some (antisymProjN d p i j) ∧
    (symRefRow d p N i)[j]? = some (symRefN d p i j) ∧ (antisymRefRow d p N i)[j]? = some (antisymRefN d p i j) :=
  ⟨symProjRow_get d p N i j hj, antisymProjRow_get d p N i j hj, symRefRow_get d p N i j hj,
    antisymRefRow_get d p N i j hj⟩

/-! ## projectors: algebraic laws (all `d`, `p`) -/

/-- `W_σ W_τ = W_{τσ}`, `W_1 = 1`, `W_σᵀ = W_{σ⁻¹}`: the permutation operators form a (anti-)representation -/
theorem permMat_group {d p : ℕ} (σ τ : Perm (Fin p)) :
    permMat d p σ * permMat d p τ = permMat d p (τ * σ) ∧ permMat d p 1 = 1 ∧ (permMat d p σ)ᵀ = permMat d p σ⁻¹ :=
  ⟨permMat_mul σ τ, permMat_one, permMat_transpose σ⟩

/-- the symmetric projector is Hermitian (real symmetric) -/
theorem symSpec_hermitian (d p : ℕ) : (symSpec d p)ᵀ = symSpec d p := symSpec_transpose

/-- the symmetric projector is idempotent -/
theorem symSpec_idempotent (d p : ℕ) : symSpec d p * symSpec d p = symSpec d p := symSpec_mul_self

/-- the symmetric projector is fixed by every subsystem permutation (on either side) -/
theorem symSpec_fixed {d p : ℕ} (τ : Perm (Fin p)) :
    permMat d p τ * symSpec d p = symSpec d p ∧ symSpec d p * permMat d p τ = symSpec d p :=
  ⟨permMat_mul_symSpec τ, symSpec_mul_permMat τ⟩

/-- the antisymmetric projector is Hermitian (real symmetric) -/
theorem antiSpec_hermitian (d p : ℕ) : (antiSpec d p)ᵀ = antiSpec d p := antiSpec_transpose

/-- the antisymmetric projector is idempotent -/
theorem antiSpec_idempotent (d p : ℕ) : antiSpec d p * antiSpec d p = antiSpec d p := antiSpec_mul_self

/-- every subsystem permutation acts on the antisymmetric projector as its sign -/
theorem antiSpec_sign {d p : ℕ} (τ : Perm (Fin p)) :
    permMat d p τ * antiSpec d p = ((Perm.sign τ : ℤ) : ℚ) • antiSpec d p ∧
    antiSpec d p * permMat d p τ = ((Perm.sign τ : ℤ) : ℚ) • antiSpec d p :=
  ⟨permMat_mul_antiSpec τ, antiSpec_mul_permMat τ⟩

/-- the two projectors are orthogonal for `p ≥ 2` -/
theorem symSpec_mul_antiSpec_zero {d p : ℕ} (hp : 2 ≤ p) :
    symSpec d p * antiSpec d p = 0 ∧ antiSpec d p * symSpec d p = 0 :=
  ⟨symSpec_mul_antiSpec hp, antiSpec_mul_symSpec hp⟩

/-- for `p = 2` they sum to the identity -/
theorem symSpec_add_antiSpec (d : ℕ) : symSpec d 2 + antiSpec d 2 = 1 := symSpec_add_antiSpec_two

/-- the antisymmetric subspace is `0` when `d < p` (what the early return of the code asserts) -/
theorem antiSpec_zero_of_lt {d p : ℕ} (h : d < p) : antiSpec d p = 0 := antiSpec_eq_zero_of_lt h

/-! ### two laws transported back to the integer model -/

/-- idempotence on the integer model: `(p!·P)² = p!·(p!·P)` with the matrix product written as the model's `sumN` -/
theorem symProj_idempotent_model {d p : ℕ} (hd : 0 < d) (i j : ℕ) (hi : i < d ^ p) (hj : j < d ^ p) :
    sumN (d ^ p) (fun k => symProjN d p i k * symProjN d p k j) = (p.factorial : ℤ) * symProjN d p i j := by
  obtain ⟨y, rfl⟩ := index_is_digits hd i hi
  obtain ⟨x, rfl⟩ := index_is_digits hd j hj
  have h := matmul_cast hd (symProjN d p) (symProjN d p) (symSpec d p) (symSpec d p) _ _
    (fun y x => symProjN_eq y x) (fun y x => symProjN_eq y x) y x
  rw [symSpec_mul_self] at h
  have h2 : (((p.factorial : ℤ) * symProjN d p (encD y) (encD x) : ℤ) : ℚ)
      = (p.factorial : ℚ) * (p.factorial : ℚ) * symSpec d p y x := by
    push_cast; rw [symProjN_eq]; ring
  exact Int.cast_injective (h.trans h2.symm)

/-- invariance on the integer model: left multiplication by the model of `permutation_operator(d·ones(p), τ)` fixes the matrix -/
theorem symProj_fixed_model {d p : ℕ} (hd : 0 < d) (f : ℕ → ℕ) (hf : IsPermN p f) (i j : ℕ) (hi : i < d ^ p)
    (hj : j < d ^ p) :
    sumN (d ^ p) (fun k => permOp (α := ℤ) p f (constDims d) false i k * symProjN d p k j) = symProjN d p i j := by
  obtain ⟨y, rfl⟩ := index_is_digits hd i hi
  obtain ⟨x, rfl⟩ := index_is_digits hd j hj
  have h := matmul_cast hd (permOp (α := ℤ) p f (constDims d) false) (symProjN d p) (permMat d p (permOfFn p f hf))
    (symSpec d p) 1 _ (fun y x => by rw [permOp_eq_permMat f hf, one_mul]) (fun y x => symProjN_eq y x) y x
  rw [permMat_mul_symSpec, one_mul, ← symProjN_eq] at h
  exact Int.cast_injective h

/-! ## ranks -/

/-- **rank = trace for idempotents** (over `ℚ`): the linear-algebra fact that turns the trace table into a rank table -/
theorem rank_eq_trace_of_idempotent {ι : Type} [Fintype ι] [DecidableEq ι] (P : Matrix ι ι ℚ) (h : P * P = P) :
    (P.rank : ℚ) = P.trace :=
  Toq.Combinat.rank_eq_trace_of_idempotent P h

/-- **Rank table (finite check).**  For every `(d, p)` in the table the symmetric projector has rank `C(d+p-1, p)`.  The trace is
    evaluated by the kernel on the integer reference model (`decide +kernel`), the rest is the general theory above. -/
theorem symSpec_rank_table : ∀ dp ∈ rankTable,
    (symSpec dp.1 dp.2).rank = Nat.choose (dp.1 + dp.2 - 1) dp.2 := by
  intro dp hdp
  have h1 := rank_eq_trace_of_idempotent _ (symSpec_mul_self (d := dp.1) (p := dp.2))
  have h2 := traceN_symRefN (d := dp.1) (p := dp.2) (rankTable_pos dp hdp)
  rw [sym_trace_table dp hdp] at h2
  push_cast at h2
  have h3 : (Matrix.trace (symSpec dp.1 dp.2)) = (Nat.choose (dp.1 + dp.2 - 1) dp.2 : ℚ) :=
    (mul_left_cancel₀ (fact_ne_zero' (p := dp.2)) h2).symm
  rw [h3] at h1
  exact_mod_cast h1

/-- **Rank table (finite check).**  For every `(d, p)` in the table the antisymmetric projector has rank `C(d, p)`. -/
theorem antiSpec_rank_table : ∀ dp ∈ rankTable, (antiSpec dp.1 dp.2).rank = Nat.choose dp.1 dp.2 := by
  intro dp hdp
  have h1 := rank_eq_trace_of_idempotent _ (antiSpec_mul_self (d := dp.1) (p := dp.2))
  have h2 := traceN_antisymRefN (d := dp.1) (p := dp.2) (rankTable_pos dp hdp)
  rw [anti_trace_table dp hdp] at h2
  push_cast at h2
  have h3 : (Matrix.trace (antiSpec dp.1 dp.2)) = (Nat.choose dp.1 dp.2 : ℚ) :=
    (mul_left_cancel₀ (fact_ne_zero' (p := dp.2)) h2).symm
  rw [h3] at h1
  exact_mod_cast h1

/-- non-vacuity: `2!·symmetric_projection(2, 2)` and `2!·antisymmetric_projection(2, 2)` as the mirror models compute them -/
example : (List.range 4).map (fun i => (List.range 4).map (symProjN 2 2 i)) = [[2,0,0,0],[0,1,1,0],[0,1,1,0],[0,0,0,2]]
    ∧ (List.range 4).map (fun i => (List.range 4).map (antisymProjN 2 2 i)) = [[0,0,0,0],[0,1,-1,0],[0,-1,1,0],[0,0,0,0]] := by
  decide +kernel

end Toq.C18
