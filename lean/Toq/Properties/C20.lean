import Toq.Proofs.ChanMetrics
import Toq.Proofs.ChanMetricsUnitary
import Toq.Proofs.ChanMetricsPath
import Toq.Proofs.ChanMetricsSpectral
import Toq.Proofs.ChanMetricsFos
import Toq.Proofs.MetricsWatrousGen
import Mathlib.Data.Real.Pointwise
import Mathlib.Analysis.Convex.Topology
import Mathlib.Analysis.Convex.Combination
import Mathlib.Topology.MetricSpace.HausdorffDistance
/-!
# C20 — channel distance measures: completely bounded trace norm / diamond distance and channel fidelity

A linear map `Φ : L(X) → L(Y)` is represented by its Choi matrix `J = Σ_ab E_ab ⊗ Φ(E_ab)` on `X ⊗ Y`
(toqito's convention); here `X`, `Y` are arbitrary finite index types and `J : Matrix (X × Y) (X × Y) ℂ`.
`ptr2` is the partial trace over `Y`.  The executable certificate checkers (`Toq.Model.ChanMetrics`) work over
exact Gaussian rationals with row/column index `x·dY + y`; `toP` is the denotation of such a matrix on `Fin dX × Fin dY`.

* **cb trace norm** (`completely_bounded_trace_norm`, `diamond_distance(J1, J2)` = its value at `J1 − J2`,
  `completely_bounded_spectral_norm` = its value at the Choi matrix of the dual map): Watrous' SDP,
  primal `sup Re tr(Jᴴ Z)` over `[[ρ0 ⊗ 1, Z],[Zᴴ, ρ1 ⊗ 1]] ⪰ 0` with density operators `ρ0, ρ1`;
  dual `inf ½(c0 + c1)` over `[[Y0, −J],[−Jᴴ, Y1]] ⪰ 0`, `c_i·1 ⪰ Tr_Y Y_i`.  `cbNorm J` is the primal supremum.
* **channel (root) fidelity** (`channel_fidelity`): Katariya–Wilde SDP, primal `sup λ` over `[[J1, Qᴴ],[Q, J2]] ⪰ 0`,
  `½(Tr_Y Q + (Tr_Y Q)ᴴ) ⪰ λ·1` (Loewner order on the Hermitian part); dual `inf ½ Re(tr(J1 W0) + tr(J2 W1))` over
  `[[W0, −ρ ⊗ 1],[−ρ ⊗ 1, W1]] ⪰ 0` with a density operator `ρ`.  `chanFid J1 J2` is the primal supremum.
-/

open Matrix Kronecker
open scoped ComplexOrder MatrixOrder Pointwise

namespace Toq.C20
open Toq.ChanMetrics

/-! ## The mathematical programs -/

section Programs
variable {X Y : Type*} [Fintype X] [DecidableEq X] [Fintype Y] [DecidableEq Y]

/-- operators on `X ⊗ Y` (Choi matrices of maps `L(X) → L(Y)`) -/
abbrev Choi (X Y : Type*) := Matrix (X × Y) (X × Y) ℂ

/-- `ρ` is a density operator -/
def IsDensity (ρ : Matrix X X ℂ) : Prop := ρ.PosSemidef ∧ ρ.trace = 1

/-- `(ρ0, ρ1, Z)` is feasible for the primal cb-norm program -/
def CbPrimalFeasible (ρ0 ρ1 : Matrix X X ℂ) (Z : Choi X Y) : Prop :=
  IsDensity ρ0 ∧ IsDensity ρ1 ∧
    (fromBlocks (ρ0 ⊗ₖ (1 : Matrix Y Y ℂ)) Z Zᴴ (ρ1 ⊗ₖ (1 : Matrix Y Y ℂ))).PosSemidef

/-- primal objective `Re tr(Jᴴ Z) = ½⟨J, Z⟩ + ½⟨Z, J⟩` -/
def cbObj (J Z : Choi X Y) : ℝ := (Jᴴ * Z).trace.re

/-- `(Y0, Y1, c0, c1)` is feasible for the dual cb-norm program of `J` (with `c_i` bounding `‖Tr_Y Y_i‖_∞`) -/
def CbDualFeasible (J Y0 Y1 : Choi X Y) (c0 c1 : ℝ) : Prop :=
  (fromBlocks Y0 (-J) (-Jᴴ) Y1).PosSemidef ∧
    ((c0 : ℂ) • (1 : Matrix X X ℂ) - ptr2 Y0).PosSemidef ∧ ((c1 : ℂ) • (1 : Matrix X X ℂ) - ptr2 Y1).PosSemidef

/-- the set of primal values -/
def cbValues (J : Choi X Y) : Set ℝ := {v | ∃ ρ0 ρ1 Z, CbPrimalFeasible ρ0 ρ1 Z ∧ cbObj J Z = v}

/-- the completely bounded trace norm (diamond norm) of the map with Choi matrix `J`: the primal optimum -/
noncomputable def cbNorm (J : Choi X Y) : ℝ := sSup (cbValues J)

/-- `(λ, Q)` is feasible for the primal channel-fidelity program -/
def CfPrimalFeasible (J1 J2 : Choi X Y) (lam : ℝ) (Q : Choi X Y) : Prop :=
  0 ≤ lam ∧ (fromBlocks J1 Qᴴ Q J2).PosSemidef ∧
    ((((1 / 2 : ℝ)) : ℂ) • (ptr2 Q + (ptr2 Q)ᴴ) - (lam : ℂ) • (1 : Matrix X X ℂ)).PosSemidef

/-- `(ρ, W0, W1)` is feasible for the dual channel-fidelity program -/
def CfDualFeasible (ρ : Matrix X X ℂ) (W0 W1 : Choi X Y) : Prop :=
  IsDensity ρ ∧
    (fromBlocks W0 (-(ρ ⊗ₖ (1 : Matrix Y Y ℂ))) (-(ρ ⊗ₖ (1 : Matrix Y Y ℂ))) W1).PosSemidef

/-- dual objective `½ Re(tr(J1 W0) + tr(J2 W1))` -/
noncomputable def cfDualObj (J1 J2 W0 W1 : Choi X Y) : ℝ := ((J1 * W0).trace.re + (J2 * W1).trace.re) / 2

/-- the set of primal values -/
def cfValues (J1 J2 : Choi X Y) : Set ℝ := {lam | ∃ Q, CfPrimalFeasible J1 J2 lam Q}

/-- the (root) channel fidelity: the primal optimum -/
noncomputable def chanFid (J1 J2 : Choi X Y) : ℝ := sSup (cfValues J1 J2)

/-! ## Completely bounded trace norm -/

omit [DecidableEq X] in
/-- The partial trace over `Y` is the adjoint of `ρ ↦ ρ ⊗ 1_Y` for the trace pairing (with the index convention
`(x, y)`, i.e. flat index `x·dY + y`). -/
theorem ptrace_adjoint (ρ : Matrix X X ℂ) (A : Choi X Y) :
    ((ρ ⊗ₖ (1 : Matrix Y Y ℂ)) * A).trace = (ρ * ptr2 A).trace :=
  trace_kron_one_mul ρ A

/-- Weak duality for Watrous' SDP: every primal-feasible point has value at most `½(c0 + c1)` for every
dual-feasible `(Y0, Y1, c0, c1)`.  No assumption on `J` (any complex matrix). -/
theorem cb_weak_duality (J : Choi X Y) {ρ0 ρ1 : Matrix X X ℂ} {Z Y0 Y1 : Choi X Y} {c0 c1 : ℝ}
    (hP : CbPrimalFeasible ρ0 ρ1 Z) (hD : CbDualFeasible J Y0 Y1 c0 c1) :
    cbObj J Z ≤ (c0 + c1) / 2 :=
  cb_weak_duality_gen J Z Y0 Y1 ρ0 ρ1 c0 c1 hP.1.1 hP.2.1.1 hP.1.2 hP.2.1.2 hP.2.2 hD.1 hD.2.1 hD.2.2

/-- For every density operator `ρ`, the point `(ρ, ρ, ρ ⊗ 1)` is primal feasible. -/
theorem cb_primal_point {ρ : Matrix X X ℂ} (hρ : IsDensity ρ) :
    CbPrimalFeasible ρ ρ (ρ ⊗ₖ (1 : Matrix Y Y ℂ)) := by
  have hK : (ρ ⊗ₖ (1 : Matrix Y Y ℂ)).PosSemidef := hρ.1.kronecker Matrix.PosSemidef.one
  refine ⟨hρ, hρ, ?_⟩
  rw [hK.isHermitian.eq]
  exact psd_block_same hK

/-- A density operator exists on a non-empty index type, hence the primal program is feasible. -/
theorem exists_density [Nonempty X] : ∃ ρ : Matrix X X ℂ, IsDensity ρ := by
  obtain ⟨a0⟩ := ‹Nonempty X›
  refine ⟨Matrix.diagonal fun a => if a = a0 then 1 else 0, ?_, ?_⟩
  · refine Matrix.PosSemidef.diagonal fun a => ?_
    by_cases h : a = a0 <;> simp [h]
  · simp [Matrix.trace_diagonal]

/-- The dual program is feasible for every `J` (so the primal values are bounded: the cb trace norm is finite). -/
theorem cb_dual_exists (J : Choi X Y) : ∃ Y0 Y1 c0 c1, CbDualFeasible J Y0 Y1 c0 c1 := by
  refine ⟨J * Jᴴ, 1, _, _, ?_, psd_scalar_sub_of_entry_sum ?_, psd_scalar_sub_of_entry_sum ?_⟩
  · have h := Matrix.posSemidef_self_mul_conjTranspose (fromRows (-J) (1 : Choi X Y))
    rw [Matrix.conjTranspose_fromRows_eq_fromCols_conjTranspose, Matrix.fromRows_mul_fromCols] at h
    simpa using h
  · rw [Matrix.IsHermitian, ← ptr2_conjTranspose, Matrix.conjTranspose_mul, Matrix.conjTranspose_conjTranspose]
  · rw [Matrix.IsHermitian, ← ptr2_conjTranspose, Matrix.conjTranspose_one]

/-- The set of primal values is bounded above. -/
theorem cbValues_bddAbove (J : Choi X Y) : BddAbove (cbValues J) := by
  obtain ⟨Y0, Y1, c0, c1, hD⟩ := cb_dual_exists J
  refine ⟨(c0 + c1) / 2, ?_⟩
  rintro v ⟨ρ0, ρ1, Z, hP, rfl⟩
  exact cb_weak_duality J hP hD

/-- Every feasible point is a lower bound of the cb trace norm. -/
theorem cbObj_le_cbNorm (J : Choi X Y) {ρ0 ρ1 : Matrix X X ℂ} {Z : Choi X Y}
    (hP : CbPrimalFeasible ρ0 ρ1 Z) : cbObj J Z ≤ cbNorm J :=
  le_csSup (cbValues_bddAbove J) ⟨ρ0, ρ1, Z, hP, rfl⟩

/-- Every dual-feasible point is an upper bound of the cb trace norm. -/
theorem cbNorm_le_of_dual [Nonempty X] (J : Choi X Y) {Y0 Y1 : Choi X Y} {c0 c1 : ℝ}
    (hD : CbDualFeasible J Y0 Y1 c0 c1) : cbNorm J ≤ (c0 + c1) / 2 := by
  obtain ⟨ρ, hρ⟩ := exists_density (X := X)
  refine csSup_le ⟨_, ρ, ρ, _, cb_primal_point hρ, rfl⟩ ?_
  rintro v ⟨ρ0, ρ1, Z, hP, rfl⟩
  exact cb_weak_duality J hP hD

omit [DecidableEq X] [DecidableEq Y] in
private theorem cbObj_smul_smul (c u : ℂ) (J Z : Choi X Y) :
    cbObj (c • J) (u • Z) = (star c * u * (Jᴴ * Z).trace).re := re_trace_smul_smul c u J Z

private theorem cb_phase_feasible {ρ0 ρ1 : Matrix X X ℂ} {Z : Choi X Y} (u : ℂ) (hu : u * star u = 1)
    (hP : CbPrimalFeasible ρ0 ρ1 Z) : CbPrimalFeasible ρ0 ρ1 (u • Z) :=
  ⟨hP.1, hP.2.1, psd_block_phase u hu hP.2.2⟩

/-- The set of primal values of `c • J` is the set of primal values of `J` scaled by `|c|` (feasible points are
mapped to feasible points by `Z ↦ phase · Z`). -/
theorem cbValues_smul (c : ℂ) (J : Choi X Y) : cbValues (c • J) = ‖c‖ • cbValues J := by
  obtain ⟨u, hu, hcu⟩ := exists_phase c
  have hu' : star u * star (star u) = 1 := by rw [star_star, mul_comm]; exact hu
  have hn : star (‖c‖ : ℂ) = (‖c‖ : ℂ) := Complex.conj_ofReal _
  have hsc : star c = (‖c‖ : ℂ) * star u := by
    conv_lhs => rw [hcu]
    rw [star_mul', hn]
  have hre : ∀ t : ℂ, (star c * u * t).re = ‖c‖ * t.re := by
    intro t
    have : star c * u = (‖c‖ : ℂ) := by
      rw [hsc, mul_assoc, mul_comm (star u) u, hu, mul_one]
    rw [this, Complex.re_ofReal_mul]
  ext v
  simp only [Set.mem_smul_set, smul_eq_mul]
  constructor
  · rintro ⟨ρ0, ρ1, Z, hP, rfl⟩
    refine ⟨cbObj J (star u • Z), ⟨ρ0, ρ1, _, cb_phase_feasible _ hu' hP, rfl⟩, ?_⟩
    have h1 := cbObj_smul_smul 1 (star u) J Z
    have h2 := cbObj_smul_smul c 1 J Z
    rw [one_smul] at h1 h2
    rw [h1, h2, star_one, one_mul, mul_one, hsc, mul_assoc, Complex.re_ofReal_mul]
  · rintro ⟨w, ⟨ρ0, ρ1, Z, hP, rfl⟩, rfl⟩
    refine ⟨ρ0, ρ1, u • Z, cb_phase_feasible u hu hP, ?_⟩
    rw [cbObj_smul_smul, hre]
    rfl

/-- **Absolute homogeneity**: the cb trace norm of `c • J` is `|c|` times that of `J`, for every complex `c`. -/
theorem cb_homogeneous (c : ℂ) (J : Choi X Y) : cbNorm (c • J) = ‖c‖ * cbNorm J := by
  rw [cbNorm, cbValues_smul, Real.sSup_smul_of_nonneg (norm_nonneg c)]
  rfl

/-- **Symmetry of the diamond distance**: the value for `J1 − J2` equals the value for `J2 − J1`. -/
theorem diamond_symm (J1 J2 : Choi X Y) : cbNorm (J1 - J2) = cbNorm (J2 - J1) := by
  have h : J1 - J2 = (-1 : ℂ) • (J2 - J1) := by simp
  rw [h, cb_homogeneous]
  simp

/-- **The diamond distance of a map to itself is zero.** -/
theorem diamond_self_zero (J : Choi X Y) : cbNorm (J - J) = 0 := by
  have h : J - J = (0 : ℂ) • J := by simp
  rw [h, cb_homogeneous]
  simp

/-- Explicit dual certificate for a difference of completely positive maps (`P, Q ⪰ 0`):
`(P + Q, P + Q, c, c)` is dual feasible for `J = P − Q` whenever `c·1 ⪰ Tr_Y(P + Q)`. -/
theorem cb_jordan_dual_cert {P Q : Choi X Y} {c : ℝ} (hP : P.PosSemidef) (hQ : Q.PosSemidef)
    (hc : ((c : ℂ) • (1 : Matrix X X ℂ) - ptr2 (P + Q)).PosSemidef) :
    CbDualFeasible (P - Q) (P + Q) (P + Q) c c := by
  refine ⟨?_, hc, hc⟩
  have h := (psd_block_same_neg hP).add (psd_block_same hQ)
  rw [Matrix.fromBlocks_add] at h
  have e : (P - Q)ᴴ = P - Q := by rw [Matrix.conjTranspose_sub, hP.isHermitian.eq, hQ.isHermitian.eq]
  rw [e]
  have e2 : -(P - Q) = -P + Q := by abel
  rw [e2]
  exact h

/-- Explicit dual certificate for a completely positive map (`J ⪰ 0`): `(J, J, c, c)` whenever `c·1 ⪰ Tr_Y J`. -/
theorem cb_cp_dual_cert {J : Choi X Y} {c : ℝ} (hJ : J.PosSemidef)
    (hc : ((c : ℂ) • (1 : Matrix X X ℂ) - ptr2 J).PosSemidef) : CbDualFeasible J J J c c := by
  have h := cb_jordan_dual_cert hJ Matrix.PosSemidef.zero (c := c) (by simpa using hc)
  simpa using h

/-- For a completely positive map the cb trace norm is at most every `c` with `c·1 ⪰ Tr_Y J = Φ*(1)`, i.e. at most
the operator norm of `Φ*(1)`. -/
theorem cb_cp_le [Nonempty X] {J : Choi X Y} {c : ℝ} (hJ : J.PosSemidef)
    (hc : ((c : ℂ) • (1 : Matrix X X ℂ) - ptr2 J).PosSemidef) : cbNorm J ≤ c := by
  have h := cbNorm_le_of_dual J (cb_cp_dual_cert hJ hc)
  linarith

omit [DecidableEq X] in
private theorem cbObj_kron {J : Choi X Y} (hJ : J.IsHermitian) (ρ : Matrix X X ℂ) :
    cbObj J (ρ ⊗ₖ (1 : Matrix Y Y ℂ)) = (ρ * ptr2 J).trace.re := by
  rw [cbObj, hJ.eq, Matrix.trace_mul_comm, trace_kron_one_mul]

/-- For a Hermiticity-preserving map the cb trace norm is at least `tr(ρ · Tr_Y J)` for every density operator `ρ`
(so, for completely positive maps, at least the largest eigenvalue of `Tr_Y J = Φ*(1)`). -/
theorem cb_cp_ge {J : Choi X Y} (hJ : J.IsHermitian) {ρ : Matrix X X ℂ} (hρ : IsDensity ρ) :
    (ρ * ptr2 J).trace.re ≤ cbNorm J := by
  rw [← cbObj_kron hJ]
  exact cbObj_le_cbNorm J (cb_primal_point hρ)

/-- **cb trace norm of a completely positive map = operator norm of `Φ*(1) = Tr_Y J`**: if `c·1 ⪰ Tr_Y J` and some
density operator attains `tr(ρ · Tr_Y J) = c` (i.e. `c` is the largest eigenvalue of `Tr_Y J`), then the cb trace norm
is `c`. -/
theorem cb_cp_eq [Nonempty X] {J : Choi X Y} {c : ℝ} (hJ : J.PosSemidef)
    (hc : ((c : ℂ) • (1 : Matrix X X ℂ) - ptr2 J).PosSemidef) {ρ : Matrix X X ℂ} (hρ : IsDensity ρ)
    (hatt : (ρ * ptr2 J).trace.re = c) : cbNorm J = c :=
  le_antisymm (cb_cp_le hJ hc) (hatt ▸ cb_cp_ge hJ.isHermitian hρ)

/-- **The cb trace norm of a quantum channel is 1** (`J ⪰ 0`, `Tr_Y J = 1`). -/
theorem cb_channel_one [Nonempty X] {J : Choi X Y} (hJ : J.PosSemidef) (hTP : ptr2 J = 1) : cbNorm J = 1 := by
  obtain ⟨ρ, hρ⟩ := exists_density (X := X)
  refine cb_cp_eq hJ ?_ hρ ?_
  · rw [hTP]; simpa using Matrix.PosSemidef.zero
  · rw [hTP, Matrix.mul_one, hρ.2, Complex.one_re]

/-- **The diamond distance of two quantum channels is at most 2.** -/
theorem diamond_le_two [Nonempty X] {J1 J2 : Choi X Y} (h1 : J1.PosSemidef) (h2 : J2.PosSemidef)
    (hTP1 : ptr2 J1 = 1) (hTP2 : ptr2 J2 = 1) : cbNorm (J1 - J2) ≤ 2 := by
  have hc : (((2 : ℝ) : ℂ) • (1 : Matrix X X ℂ) - ptr2 (J1 + J2)).PosSemidef := by
    rw [ptr2_add, hTP1, hTP2]
    have : ((2 : ℝ) : ℂ) • (1 : Matrix X X ℂ) - (1 + 1) = 0 := by
      rw [← one_add_one_eq_two]; push_cast; rw [add_smul, one_smul]; abel
    rw [this]; exact Matrix.PosSemidef.zero
  have h := cbNorm_le_of_dual _ (cb_jordan_dual_cert h1 h2 hc)
  linarith

/-- **Lower Choi-matrix bound**: for every contraction `U` (`[[1, U],[Uᴴ, 1]] ⪰ 0`), `Re tr(Jᴴ U) / dX` is a lower bound
of the cb trace norm; with `U` the sign of a Hermitian `J` this is `‖J‖₁ / dX`. -/
theorem diamond_choi_lower [Nonempty X] (J U : Choi X Y)
    (hU : (fromBlocks (1 : Choi X Y) U Uᴴ 1).PosSemidef) :
    cbObj J U / Fintype.card X ≤ cbNorm J := by
  have hcard : (0 : ℝ) < Fintype.card X := by exact_mod_cast Fintype.card_pos
  set t : ℝ := (Fintype.card X : ℝ)⁻¹ with ht
  have htpos : 0 ≤ t := inv_nonneg.mpr hcard.le
  have hρ : IsDensity ((t : ℂ) • (1 : Matrix X X ℂ)) := by
    refine ⟨Matrix.PosSemidef.one.smul (by exact_mod_cast htpos), ?_⟩
    rw [Matrix.trace_smul, Matrix.trace_one, smul_eq_mul, ht]
    push_cast
    field_simp
  have hfeas : CbPrimalFeasible ((t : ℂ) • (1 : Matrix X X ℂ)) ((t : ℂ) • (1 : Matrix X X ℂ)) ((t : ℂ) • U) := by
    refine ⟨hρ, hρ, ?_⟩
    have h := hU.smul (a := (t : ℂ)) (by exact_mod_cast htpos)
    rw [Matrix.fromBlocks_smul] at h
    rw [Matrix.smul_kronecker, Matrix.one_kronecker_one, Matrix.conjTranspose_smul, Complex.star_def,
      Complex.conj_ofReal]
    exact h
  have h := cbObj_le_cbNorm J hfeas
  have e : cbObj J ((t : ℂ) • U) = cbObj J U / Fintype.card X := by
    have := cbObj_smul_smul 1 (t : ℂ) J U
    rw [one_smul, star_one, one_mul, Complex.re_ofReal_mul] at this
    rw [this, ht, cbObj]
    field_simp
  rwa [e] at h

/-- **Unitary invariance**: conjugating the Choi matrix by `A ⊗ B` with unitary `A` (on the input) and `B` (on the
output) — i.e. composing the map with a unitary channel before and one after — does not change the set of primal
values, hence not the cb trace norm.  (Applied to `J1 − J2`: the diamond distance is unchanged when both channels are
composed with the same unitaries.) -/
theorem cbNorm_unitary_le {A : Matrix X X ℂ} {B : Matrix Y Y ℂ} (hA : Aᴴ * A = 1) (hB : B * Bᴴ = 1)
    (hB' : Bᴴ * B = 1) (J : Choi X Y) :
    cbValues J ⊆ cbValues ((A ⊗ₖ B) * J * (A ⊗ₖ B)ᴴ) := by
  rintro v ⟨ρ0, ρ1, Z, hP, rfl⟩
  have hUU : (A ⊗ₖ B)ᴴ * (A ⊗ₖ B) = 1 := by
    rw [Matrix.conjTranspose_kronecker, ← Matrix.mul_kronecker_mul, hA, hB', Matrix.one_kronecker_one]
  have hk : ∀ ρ : Matrix X X ℂ, (A ⊗ₖ B) * (ρ ⊗ₖ (1 : Matrix Y Y ℂ)) * (A ⊗ₖ B)ᴴ
      = (A * ρ * Aᴴ) ⊗ₖ (1 : Matrix Y Y ℂ) := by
    intro ρ
    rw [Matrix.conjTranspose_kronecker, ← Matrix.mul_kronecker_mul, ← Matrix.mul_kronecker_mul, Matrix.mul_one, hB]
  have hd : ∀ ρ : Matrix X X ℂ, IsDensity ρ → IsDensity (A * ρ * Aᴴ) := by
    intro ρ hρ
    refine ⟨hρ.1.mul_mul_conjTranspose_same A, ?_⟩
    rw [Matrix.trace_mul_comm, ← Matrix.mul_assoc, hA, Matrix.one_mul, hρ.2]
  refine ⟨A * ρ0 * Aᴴ, A * ρ1 * Aᴴ, (A ⊗ₖ B) * Z * (A ⊗ₖ B)ᴴ, ⟨hd _ hP.1, hd _ hP.2.1, ?_⟩, ?_⟩
  · have h := psd_block_conj (A ⊗ₖ B) (A ⊗ₖ B) hP.2.2
    rwa [hk, hk] at h
  · simp only [cbObj]
    rw [Matrix.conjTranspose_mul, Matrix.conjTranspose_mul, Matrix.conjTranspose_conjTranspose]
    have : (A ⊗ₖ B) * (Jᴴ * (A ⊗ₖ B)ᴴ) * ((A ⊗ₖ B) * Z * (A ⊗ₖ B)ᴴ)
        = (A ⊗ₖ B) * (Jᴴ * ((A ⊗ₖ B)ᴴ * (A ⊗ₖ B)) * Z) * (A ⊗ₖ B)ᴴ := by
      simp only [Matrix.mul_assoc]
    rw [this, hUU, Matrix.mul_one, Matrix.trace_mul_comm, ← Matrix.mul_assoc, hUU, Matrix.one_mul]

/-- **Unitary invariance of the cb trace norm / diamond distance** (see `cbNorm_unitary_le`). -/
theorem diamond_unitary_invariant {A : Matrix X X ℂ} {B : Matrix Y Y ℂ} (hA : Aᴴ * A = 1) (hA' : A * Aᴴ = 1)
    (hB : B * Bᴴ = 1) (hB' : Bᴴ * B = 1) (J : Choi X Y) :
    cbNorm ((A ⊗ₖ B) * J * (A ⊗ₖ B)ᴴ) = cbNorm J := by
  have h1 := cbNorm_unitary_le hA hB hB' J
  have h2 := cbNorm_unitary_le (A := Aᴴ) (B := Bᴴ) (by simpa using hA') (by simpa using hB') (by simpa using hB)
    ((A ⊗ₖ B) * J * (A ⊗ₖ B)ᴴ)
  have hUU : (A ⊗ₖ B)ᴴ * (A ⊗ₖ B) = 1 := by
    rw [Matrix.conjTranspose_kronecker, ← Matrix.mul_kronecker_mul, hA, hB', Matrix.one_kronecker_one]
  have e : (Aᴴ ⊗ₖ Bᴴ) * ((A ⊗ₖ B) * J * (A ⊗ₖ B)ᴴ) * (Aᴴ ⊗ₖ Bᴴ)ᴴ = J := by
    rw [← Matrix.conjTranspose_kronecker, Matrix.conjTranspose_conjTranspose]
    calc (A ⊗ₖ B)ᴴ * ((A ⊗ₖ B) * J * (A ⊗ₖ B)ᴴ) * (A ⊗ₖ B)
        = ((A ⊗ₖ B)ᴴ * (A ⊗ₖ B)) * J * ((A ⊗ₖ B)ᴴ * (A ⊗ₖ B)) := by simp only [Matrix.mul_assoc]
      _ = J := by rw [hUU, Matrix.one_mul, Matrix.mul_one]
  rw [e] at h2
  rw [cbNorm, cbNorm, Set.Subset.antisymm h2 h1]

/-! ## Channel fidelity -/

/-- Weak duality for the channel-fidelity SDP: every primal-feasible `λ` is at most the dual objective of every
dual-feasible `(ρ, W0, W1)`. -/
theorem cf_weak_duality {J1 J2 Q W0 W1 : Choi X Y} {ρ : Matrix X X ℂ} {lam : ℝ}
    (hP : CfPrimalFeasible J1 J2 lam Q) (hD : CfDualFeasible ρ W0 W1) :
    lam ≤ cfDualObj J1 J2 W0 W1 :=
  cf_weak_duality_gen J1 J2 Q W0 W1 ρ lam hP.2.1 hP.2.2 hD.1.1 hD.1.2 hD.2

/-- Every dual-feasible point bounds the channel fidelity from above (`0 ≤` is needed only when the primal is infeasible). -/
theorem chanFid_le_of_dual {J1 J2 W0 W1 : Choi X Y} {ρ : Matrix X X ℂ} (hD : CfDualFeasible ρ W0 W1)
    (h0 : 0 ≤ cfDualObj J1 J2 W0 W1) : chanFid J1 J2 ≤ cfDualObj J1 J2 W0 W1 :=
  Real.sSup_le (fun _ ⟨_, hP⟩ => cf_weak_duality hP hD) h0

omit [Fintype X] [DecidableEq Y] in
/-- **Symmetry of the channel fidelity**: `(λ, Q)` is feasible for `(J1, J2)` iff `(λ, Qᴴ)` is feasible for `(J2, J1)`. -/
theorem cf_symm (J1 J2 : Choi X Y) : cfValues J1 J2 = cfValues J2 J1 := by
  have key : ∀ (K1 K2 : Choi X Y) (lam : ℝ), lam ∈ cfValues K1 K2 → lam ∈ cfValues K2 K1 := by
    rintro K1 K2 lam ⟨Q, h0, hB, hL⟩
    refine ⟨Qᴴ, h0, ?_, ?_⟩
    · rw [Matrix.conjTranspose_conjTranspose]; exact psd_block_swap hB
    · rw [ptr2_conjTranspose, Matrix.conjTranspose_conjTranspose, add_comm]; exact hL
  exact Set.Subset.antisymm (key J1 J2) (key J2 J1)

omit [Fintype X] [DecidableEq Y] in
/-- **The channel fidelity is symmetric.** -/
theorem chanFid_symm (J1 J2 : Choi X Y) : chanFid J1 J2 = chanFid J2 J1 := by
  rw [chanFid, chanFid, cf_symm]

/-- **The channel fidelity of a quantum channel with itself is 1** (`J ⪰ 0`, `Tr_Y J = 1`). -/
theorem chanFid_self [Nonempty X] {J : Choi X Y} (hJ : J.PosSemidef) (hTP : ptr2 J = 1) : chanFid J J = 1 := by
  have hfeas : CfPrimalFeasible J J 1 J := by
    refine ⟨zero_le_one, ?_, ?_⟩
    · rw [hJ.isHermitian.eq]; exact psd_block_same hJ
    · rw [hTP, Matrix.conjTranspose_one]
      have : ((1 / 2 : ℝ) : ℂ) • ((1 : Matrix X X ℂ) + 1) - ((1 : ℝ) : ℂ) • (1 : Matrix X X ℂ) = 0 := by
        rw [← two_smul ℂ (1 : Matrix X X ℂ), smul_smul]; push_cast; norm_num
      rw [this]; exact Matrix.PosSemidef.zero
  obtain ⟨ρ, hρ⟩ := exists_density (X := X)
  have hK : (ρ ⊗ₖ (1 : Matrix Y Y ℂ)).PosSemidef := hρ.1.kronecker Matrix.PosSemidef.one
  have hD : CfDualFeasible ρ (ρ ⊗ₖ (1 : Matrix Y Y ℂ)) (ρ ⊗ₖ (1 : Matrix Y Y ℂ)) :=
    ⟨hρ, psd_block_same_neg hK⟩
  have hval : cfDualObj J J (ρ ⊗ₖ (1 : Matrix Y Y ℂ)) (ρ ⊗ₖ (1 : Matrix Y Y ℂ)) = 1 := by
    rw [cfDualObj, Matrix.trace_mul_comm, trace_kron_one_mul, hTP, Matrix.mul_one, hρ.2]
    norm_num
  refine le_antisymm ?_ ?_
  · have := chanFid_le_of_dual (J1 := J) (J2 := J) hD (by rw [hval]; exact zero_le_one)
    rwa [hval] at this
  · refine le_csSup ⟨1, ?_⟩ ⟨J, hfeas⟩
    rintro lam ⟨Q, hP⟩
    have := cf_weak_duality hP hD
    rwa [hval] at this

/-- **The channel fidelity never exceeds the fidelity of the normalised Choi states**: every feasible `λ` is bounded by
`½ Re(tr((J1/dX) W0) + tr((J2/dX) W1))` for every `(W0, W1)` with `[[W0, −1],[−1, W1]] ⪰ 0` — the dual program of the
(root) fidelity `F(J1/dX, J2/dX)` of the two Choi states, whose optimum is that fidelity (cited: Watrous, TQI Thm 3.17
and its SDP dual). -/
theorem cf_le_choi_fidelity [Nonempty X] {J1 J2 Q W0 W1 : Choi X Y} {lam : ℝ}
    (hP : CfPrimalFeasible J1 J2 lam Q)
    (hW : (fromBlocks W0 (-(1 : Choi X Y)) (-(1 : Choi X Y)) W1).PosSemidef) :
    lam ≤ cfDualObj J1 J2 W0 W1 / Fintype.card X := by
  have hcard : (0 : ℝ) < Fintype.card X := by exact_mod_cast Fintype.card_pos
  set t : ℝ := (Fintype.card X : ℝ)⁻¹ with ht
  have htpos : 0 ≤ t := inv_nonneg.mpr hcard.le
  have hρ : IsDensity ((t : ℂ) • (1 : Matrix X X ℂ)) := by
    refine ⟨Matrix.PosSemidef.one.smul (by exact_mod_cast htpos), ?_⟩
    rw [Matrix.trace_smul, Matrix.trace_one, smul_eq_mul, ht]
    push_cast
    field_simp
  have hD : CfDualFeasible ((t : ℂ) • (1 : Matrix X X ℂ)) ((t : ℂ) • W0) ((t : ℂ) • W1) := by
    refine ⟨hρ, ?_⟩
    have h := hW.smul (a := (t : ℂ)) (by exact_mod_cast htpos)
    rw [Matrix.fromBlocks_smul] at h
    rw [Matrix.smul_kronecker, Matrix.one_kronecker_one]
    simpa using h
  have h := cf_weak_duality hP hD
  have e : cfDualObj J1 J2 ((t : ℂ) • W0) ((t : ℂ) • W1) = cfDualObj J1 J2 W0 W1 / Fintype.card X := by
    simp only [cfDualObj, Matrix.mul_smul, Matrix.trace_smul, smul_eq_mul, Complex.re_ofReal_mul, ht]
    field_simp
  rwa [e] at h

/-! ## Choi-matrix bounds in terms of the trace norm

`Toq.Metrics.traceNormV H` is the trace norm of C13 (`sup Re tr(W H)` over Hermitian contractions `W`), proved there to be
the sum of the moduli of the eigenvalues of a Hermitian `H` (`Toq.Metrics.traceNormV_eq_sum_abs_eigenvalues`). -/

open Toq.Metrics in
/-- **Upper bound from an operator dominating `±J`**: if `J` is Hermitian (the map preserves Hermiticity), `Y0 ⪰ J`,
`Y0 ⪰ −J` and `c·1 ⪰ Tr_Y Y0`, then the cb trace norm of `J` is at most `c` (the point `(Y0, Y0, c, c)` is dual feasible).
With `Y0 = |J|` this is `‖Φ‖_◇ ≤ ‖Tr_Y |J|‖_∞`. -/
theorem cbNorm_le_of_pm [Nonempty X] {J Y0 : Choi X Y} {c : ℝ} (hJ : J.IsHermitian) (hm : (Y0 - J).PosSemidef)
    (hp : (Y0 + J).PosSemidef) (hc : ((c : ℂ) • (1 : Matrix X X ℂ) - ptr2 Y0).PosSemidef) : cbNorm J ≤ c := by
  have hD : CbDualFeasible J Y0 Y0 c c := ⟨psd_block_of_pm hJ hm hp, hc, hc⟩
  have := cbNorm_le_of_dual J hD
  linarith

open Toq.Metrics in
/-- **Upper Choi-matrix bound**: the cb trace norm of a Hermiticity-preserving map is at most the trace norm of its
(unnormalised) Choi matrix, `‖Φ‖_◇ ≤ ‖J‖₁`.  (Dual-feasible point from the Jordan decomposition `J = P − Q`:
`(P + Q, P + Q, c, c)` with `c = tr(P + Q) = ‖J‖₁ ≥ λ_max(Tr_Y(P + Q))`.) -/
theorem diamond_choi_upper [Nonempty X] {J : Choi X Y} (hJ : J.IsHermitian) : cbNorm J ≤ traceNormV J := by
  obtain ⟨P, Q, hP, hQ, hJe, htr⟩ := exists_jordan_traceNormV hJ
  have hc := psd_trace_smul_one_sub (ptr2_posSemidef (hP.add hQ))
  rw [trace_ptr2] at hc
  have h := cbNorm_le_of_dual _ (cb_jordan_dual_cert hP hQ hc)
  rw [← hJe] at h
  rw [← htr]
  rw [Matrix.trace_add, Complex.add_re] at h
  linarith

open Toq.Metrics in
/-- **Lower Choi-matrix bound**: the cb trace norm of a Hermiticity-preserving map is at least the trace norm of its
normalised Choi matrix, `‖J‖₁ / dX ≤ ‖Φ‖_◇`. -/
theorem diamond_choi_lower_traceNorm [Nonempty X] {J : Choi X Y} (hJ : J.IsHermitian) :
    traceNormV J / Fintype.card X ≤ cbNorm J := by
  have hcard : (0 : ℝ) < Fintype.card X := by exact_mod_cast Fintype.card_pos
  rw [div_le_iff₀ hcard]
  refine csSup_le (tnSet_nonempty J) ?_
  rintro x ⟨W, hW, rfl⟩
  have h := diamond_choi_lower J W (psd_block_of_contraction hW)
  have e : cbObj J W = (W * J).trace.re := by rw [cbObj, hJ.eq, Matrix.trace_mul_comm]
  rwa [e, div_le_iff₀ hcard] at h

open Toq.Metrics in
/-- **The diamond distance of two Hermiticity-preserving maps lies between the trace norm of the normalised and of the
unnormalised Choi-matrix difference**: `‖J1 − J2‖₁ / dX ≤ ‖Φ1 − Φ2‖_◇ ≤ ‖J1 − J2‖₁`. -/
theorem diamond_choi_bounds [Nonempty X] {J1 J2 : Choi X Y} (h1 : J1.IsHermitian) (h2 : J2.IsHermitian) :
    traceNormV (J1 - J2) / Fintype.card X ≤ cbNorm (J1 - J2) ∧ cbNorm (J1 - J2) ≤ traceNormV (J1 - J2) :=
  ⟨diamond_choi_lower_traceNorm (h1.sub h2), diamond_choi_upper (h1.sub h2)⟩

open Toq.Metrics in
/-- **The cb trace norm dominates the trace norm of the output on every pure input state of `X ⊗ X`**: for every `A` with
`tr(A Aᴴ) = 1` (the state `vec A`, reduced state `A Aᴴ`), `‖(A ⊗ 1)ᴴ J (A ⊗ 1)‖₁ ≤ ‖Φ‖_◇`; the sandwiched Choi matrix is the
output of `Φ ⊗ id` on that state (up to the transpose convention of the Choi isomorphism).  Feasible point:
`ρ0 = ρ1 = A Aᴴ`, `Z = (A ⊗ 1) K (A ⊗ 1)ᴴ` for a Hermitian contraction `K`. -/
theorem cb_ge_sandwich_traceNorm {J : Choi X Y} (hJ : J.IsHermitian) (A : Matrix X X ℂ) (hA : (A * Aᴴ).trace = 1) :
    traceNormV ((A ⊗ₖ (1 : Matrix Y Y ℂ))ᴴ * J * (A ⊗ₖ (1 : Matrix Y Y ℂ))) ≤ cbNorm J := by
  set D := A ⊗ₖ (1 : Matrix Y Y ℂ) with hD
  refine csSup_le (tnSet_nonempty _) ?_
  rintro x ⟨K, hK, rfl⟩
  have hρ : IsDensity (A * Aᴴ) := ⟨Matrix.posSemidef_self_mul_conjTranspose A, hA⟩
  have hDD : D * Dᴴ = (A * Aᴴ) ⊗ₖ (1 : Matrix Y Y ℂ) := by
    rw [hD, Matrix.conjTranspose_kronecker, ← Matrix.mul_kronecker_mul, Matrix.conjTranspose_one, Matrix.mul_one]
  have hfeas : CbPrimalFeasible (A * Aᴴ) (A * Aᴴ) (D * K * Dᴴ) :=
    ⟨hρ, hρ, by rw [← hDD]; exact psd_block_sandwich hK D⟩
  have h := cbObj_le_cbNorm J hfeas
  have e : cbObj J (D * K * Dᴴ) = (K * (Dᴴ * J * D)).trace.re := by
    rw [cbObj, hJ.eq]
    congr 1
    calc (J * (D * K * Dᴴ)).trace = ((J * D) * (K * Dᴴ)).trace := by simp only [Matrix.mul_assoc]
      _ = ((K * Dᴴ) * (J * D)).trace := Matrix.trace_mul_comm _ _
      _ = _ := by simp only [Matrix.mul_assoc]
  rwa [e] at h

/-! ## Two unitary (isometry) channels

`choiK K` is the Choi matrix of `X ↦ K X Kᴴ` in toqito's convention (`J = vec(K) vec(K)ᴴ`, `vec(K)_{(a,y)} = K_{ya}`). -/

/-- The Choi matrix `choiK U` of an isometry channel is a channel Choi matrix, and its cb trace norm is 1. -/
theorem cb_isometry_channel_one [Nonempty X] {U : Matrix Y X ℂ} (hU : Uᴴ * U = 1) : cbNorm (choiK U) = 1 :=
  cb_channel_one (choiK_posSemidef U) (ptr2_choiK_of_isometry hU)

open Toq.Metrics in
/-- **Lower bound for two isometry channels**: for every density operator `ρ` on the input space,
`2 √(1 − |tr(ρ Uᴴ V)|²) ≤ ‖Φ_U − Φ_V‖_◇` (primal-feasible point from the pure state with reduced state `ρ`; the value is the
trace distance of two pure states, C13 `traceNormV_pure_pure`). -/
theorem diamond_two_unitaries_lower {U V : Matrix Y X ℂ} (hU : Uᴴ * U = 1) (hV : Vᴴ * V = 1) {ρ : Matrix X X ℂ}
    (hρ : IsDensity ρ) :
    2 * Real.sqrt (1 - ‖(ρ * (Uᴴ * V)).trace‖ ^ 2) ≤ cbNorm (choiK U - choiK V) := by
  obtain ⟨B, hρB⟩ := exists_mul_conjTranspose_of_posSemidef hρ.1
  have hBt : (B * Bᴴ).trace = 1 := by rw [← hρB]; exact hρ.2
  obtain ⟨hP, hQ, hov⟩ := overlap_choiK hU hV hBt
  set A : Matrix X X ℂ := (Bᵀ)ᴴ with hAdef
  have hAA : (A * Aᴴ).trace = 1 := by
    have : A * Aᴴ = (B * Bᴴ)ᵀ := by
      have hsw : (Bᵀ)ᴴ = (Bᴴ)ᵀ := by ext i j; rfl
      rw [hAdef, Matrix.conjTranspose_conjTranspose, Matrix.transpose_mul, hsw]
    rw [this, Matrix.trace_transpose, hBt]
  have hJ : (choiK U - choiK V).IsHermitian := (choiK_isHermitian U).sub (choiK_isHermitian V)
  have h := cb_ge_sandwich_traceNorm hJ A hAA
  have e : (A ⊗ₖ (1 : Matrix Y Y ℂ))ᴴ * (choiK U - choiK V) * (A ⊗ₖ (1 : Matrix Y Y ℂ))
      = choiK (U * B) - choiK (V * B) := by
    have hA1 : (A ⊗ₖ (1 : Matrix Y Y ℂ))ᴴ = Bᵀ ⊗ₖ (1 : Matrix Y Y ℂ) := by
      rw [Matrix.conjTranspose_kronecker, hAdef, Matrix.conjTranspose_conjTranspose, Matrix.conjTranspose_one]
    have hA2 : (A ⊗ₖ (1 : Matrix Y Y ℂ)) = (Bᵀ ⊗ₖ (1 : Matrix Y Y ℂ))ᴴ := by
      rw [← hA1, Matrix.conjTranspose_conjTranspose]
    rw [choiK_mul, choiK_mul, hA1, ← hA2, Matrix.mul_sub, Matrix.sub_mul]
  rw [e] at h
  have hpp := traceNormV_pure_pure hP hQ
  rw [hov, ← hρB] at hpp
  linarith

/-- **Upper bound for two isometry channels**: if the Hermitian part of `Uᴴ V` is at least `δ·1` with `0 ≤ δ ≤ 1`, then
`‖Φ_U − Φ_V‖_◇ ≤ 2 √(1 − δ²)` (explicit dual-feasible point `two_unitary_dual_cert`; for `δ = 1` the channels are equal). -/
theorem diamond_two_unitaries_upper [Nonempty X] {U V : Matrix Y X ℂ} (hU : Uᴴ * U = 1) (hV : Vᴴ * V = 1) {δ : ℝ}
    (h0 : 0 ≤ δ) (h1 : δ ≤ 1)
    (hH : (((1 / 2 : ℝ) : ℂ) • (Uᴴ * V + (Uᴴ * V)ᴴ) - (δ : ℂ) • (1 : Matrix X X ℂ)).PosSemidef) :
    cbNorm (choiK U - choiK V) ≤ 2 * Real.sqrt (1 - δ ^ 2) := by
  rcases h1.lt_or_eq with hlt | heq
  · obtain ⟨Y0, hm, hp, hc⟩ := two_unitary_dual_cert hU hV h0 hlt hH
    exact cbNorm_le_of_pm ((choiK_isHermitian U).sub (choiK_isHermitian V)) hm hp hc
  · subst heq
    have hUV : U = V := eq_of_herm_ge_one hU hV (by simpa using hH)
    rw [hUV, diamond_self_zero]
    norm_num

/-- the numerical range of `W` in density-operator form: all `tr(ρ W)`, `ρ` a density operator (a convex set; for a normal
`W` it is the convex hull of the eigenvalues, `numRange_eq_convexHull`) -/
def numRange (W : Matrix X X ℂ) : Set ℂ := {z | ∃ ρ : Matrix X X ℂ, IsDensity ρ ∧ (ρ * W).trace = z}

/-- **The two-unitary diamond-distance formula, numerical-range form**: for isometries `U`, `V` (in particular unitaries)
let `δ` be the distance from the origin to the numerical range of `Uᴴ V` (attained: some point of the range has modulus `δ`,
and every point has modulus at least `δ`).  Then `‖Φ_U − Φ_V‖_◇ = 2 √(1 − δ²)`. -/
theorem diamond_two_unitaries [Nonempty X] {U V : Matrix Y X ℂ} (hU : Uᴴ * U = 1) (hV : Vᴴ * V = 1) {δ : ℝ}
    (hatt : ∃ z ∈ numRange (Uᴴ * V), ‖z‖ = δ) (hmin : ∀ z ∈ numRange (Uᴴ * V), δ ≤ ‖z‖) :
    cbNorm (choiK U - choiK V) = 2 * Real.sqrt (1 - δ ^ 2) := by
  obtain ⟨c, ⟨ρ₀, hρ₀, hc⟩, hcδ⟩ := hatt
  have hlow := diamond_two_unitaries_lower hU hV hρ₀
  rw [hc, hcδ] at hlow
  refine le_antisymm ?_ hlow
  have hδ0 : 0 ≤ δ := hcδ ▸ norm_nonneg c
  have hδ1 : δ ≤ 1 := by
    obtain ⟨B, hρB⟩ := exists_mul_conjTranspose_of_posSemidef hρ₀.1
    have hBt : (B * Bᴴ).trace = 1 := by rw [← hρB]; exact hρ₀.2
    have := norm_trace_density_mul_le_one hU hV hBt
    rwa [← hρB, hc, hcδ] at this
  rcases hδ0.eq_or_lt with h0 | hpos
  · -- the origin lies in the numerical range: the trivial bound 2
    rw [← h0]
    have := diamond_le_two (choiK_posSemidef U) (choiK_posSemidef V) (ptr2_choiK_of_isometry hU)
      (ptr2_choiK_of_isometry hV)
    simpa using this
  · obtain ⟨ω, hω, hH⟩ := herm_part_ge_of_nearest hρ₀.1 hρ₀.2 hpos (by rw [hc]; exact hcδ)
      (fun ρ hρ ht => hmin _ ⟨ρ, ⟨hρ, ht⟩, rfl⟩)
    have hV' : (ω • V)ᴴ * (ω • V) = 1 := by
      rw [Matrix.conjTranspose_smul, Matrix.smul_mul, Matrix.mul_smul, smul_smul, mul_comm, hω, one_smul, hV]
    have hW' : Uᴴ * (ω • V) = ω • (Uᴴ * V) := by rw [Matrix.mul_smul]
    have := diamond_two_unitaries_upper hU hV' hδ0 hδ1 (by rw [hW']; exact hH)
    rwa [choiK_smul_phase ω hω] at this

omit [DecidableEq X] in
/-- the numerical range is convex -/
theorem numRange_convex (W : Matrix X X ℂ) : Convex ℝ (numRange W) := by
  rintro _ ⟨ρ, hρ, rfl⟩ _ ⟨σ, hσ, rfl⟩ a b ha hb hab
  refine ⟨(a : ℂ) • ρ + (b : ℂ) • σ, ⟨(hρ.1.smul (by exact_mod_cast ha)).add (hσ.1.smul (by exact_mod_cast hb)), ?_⟩, ?_⟩
  · rw [Matrix.trace_add, Matrix.trace_smul, Matrix.trace_smul, hρ.2, hσ.2]
    simp only [smul_eq_mul, mul_one]
    exact_mod_cast hab
  · rw [Matrix.add_mul, Matrix.smul_mul, Matrix.smul_mul, Matrix.trace_add, Matrix.trace_smul, Matrix.trace_smul]
    simp only [Complex.real_smul, smul_eq_mul]

open Toq.Metrics in
/-- **Numerical range of a unitarily diagonalised matrix = convex hull of its eigenvalues**: if `W = S diag(λ) Sᴴ` with `S`
unitary, then `{tr(ρ W) | ρ density}` is the convex hull of the `λ_i` (`tr(ρ W) = Σ_i (Sᴴ ρ S)_{ii} λ_i`). -/
theorem numRange_eq_convexHull {W S : Matrix X X ℂ} {lam : X → ℂ} (hS : Sᴴ * S = 1) (hS' : S * Sᴴ = 1)
    (hW : W = S * diagonal lam * Sᴴ) : numRange W = convexHull ℝ (Set.range lam) := by
  refine Set.Subset.antisymm ?_ (convexHull_min ?_ (numRange_convex W))
  · rintro _ ⟨ρ, hρ, rfl⟩
    have hT : (Sᴴ * ρ * S).PosSemidef := by
      have := hρ.1.mul_mul_conjTranspose_same Sᴴ
      rwa [Matrix.conjTranspose_conjTranspose] at this
    have hdiag : ∀ i, (Sᴴ * ρ * S) i i = (((Sᴴ * ρ * S) i i).re : ℂ) := fun i => by
      have h := hT.diag_nonneg (i := i)
      rw [Complex.nonneg_iff] at h
      exact Complex.ext rfl (by simpa using h.2.symm)
    refine mem_convexHull_of_exists_fintype (fun i => ((Sᴴ * ρ * S) i i).re) lam (fun i => ?_) ?_
      (fun i => Set.mem_range_self i) ?_
    · have h := hT.diag_nonneg (i := i)
      rw [Complex.nonneg_iff] at h
      exact h.1
    · have htr : (Sᴴ * ρ * S).trace = 1 := by
        rw [Matrix.trace_mul_comm, ← Matrix.mul_assoc, hS', Matrix.one_mul, hρ.2]
      have : ((∑ i, ((Sᴴ * ρ * S) i i).re : ℝ) : ℂ) = 1 := by
        rw [Complex.ofReal_sum, ← htr, Matrix.trace]
        exact Finset.sum_congr rfl fun i _ => (hdiag i).symm
      exact_mod_cast this
    · rw [hW, trace_mul_diagonalised]
      refine Finset.sum_congr rfl fun i _ => ?_
      rw [Complex.real_smul, ← hdiag i]
  · rintro _ ⟨i, rfl⟩
    refine ⟨conjDiag S (ind i), ⟨conjDiag_posSemidef S fun j => by unfold ind; split_ifs <;> norm_num, ?_⟩, ?_⟩
    · rw [conjDiag_trace hS, ← Complex.ofReal_sum]
      simp [ind]
    · rw [hW, trace_mul_diagonalised]
      have e : Sᴴ * conjDiag S (ind i) * S = diagonal fun j => ((ind i j : ℝ) : ℂ) := by
        unfold conjDiag
        calc Sᴴ * (S * diagonal (fun j => ((ind i j : ℝ) : ℂ)) * Sᴴ) * S
            = (Sᴴ * S) * diagonal (fun j => ((ind i j : ℝ) : ℂ)) * (Sᴴ * S) := by simp only [Matrix.mul_assoc]
          _ = _ := by rw [hS, Matrix.one_mul, Matrix.mul_one]
      rw [e]
      simp only [Matrix.diagonal_apply_eq, ind]
      rw [Finset.sum_eq_single i]
      · simp
      · intro j _ hj; simp [hj]
      · intro h; exact absurd (Finset.mem_univ i) h

/-- **The two-unitary diamond-distance formula, eigenvalue form**: if `Uᴴ V = S diag(λ) Sᴴ` with `S` unitary (the `λ_i` are
then the eigenvalues of `Uᴴ V`; every unitary matrix has such a diagonalisation), and `δ` is the distance from the origin to
the convex hull of the `λ_i`, then `‖Φ_U − Φ_V‖_◇ = 2 √(1 − δ²)`. -/
theorem diamond_two_unitaries_eigenvalues [Nonempty X] {U V : Matrix Y X ℂ} (hU : Uᴴ * U = 1) (hV : Vᴴ * V = 1)
    {S : Matrix X X ℂ} {lam : X → ℂ} (hS : Sᴴ * S = 1) (hS' : S * Sᴴ = 1) (hW : Uᴴ * V = S * diagonal lam * Sᴴ) :
    cbNorm (choiK U - choiK V)
      = 2 * Real.sqrt (1 - Metric.infDist (0 : ℂ) (convexHull ℝ (Set.range lam)) ^ 2) := by
  have hN := numRange_eq_convexHull hS hS' hW
  have hcomp : IsCompact (convexHull ℝ (Set.range lam)) := (Set.finite_range lam).isCompact_convexHull ℝ
  have hne : (convexHull ℝ (Set.range lam)).Nonempty :=
    ⟨lam (Classical.arbitrary X), subset_convexHull ℝ _ (Set.mem_range_self _)⟩
  obtain ⟨z, hz, hzd⟩ := hcomp.exists_infDist_eq_dist hne (0 : ℂ)
  refine diamond_two_unitaries hU hV ⟨z, hN ▸ hz, ?_⟩ fun w hw => ?_
  · rw [hzd, dist_zero_left]
  · have := Metric.infDist_le_dist_of_mem (x := (0 : ℂ)) (hN ▸ hw)
    rwa [dist_zero_left] at this

/-! ## Channel fidelity versus the fidelity of the Choi states

`Toq.Metrics.fidV ρ σ` is the (root) fidelity of C13: the optimum of Watrous' program `sup Re tr X`, `[[ρ, X],[Xᴴ, σ]] ⪰ 0`,
proved there to equal the closed form `tr √(√ρ σ √ρ)` (`Toq.Metrics.fidV_eq_docFid`). -/

open Toq.Metrics in
/-- **The channel fidelity never exceeds the fidelity of the normalised Choi states**, `F(Φ1, Φ2) ≤ F(J1/dX, J2/dX)`, for
completely positive maps: a feasible `(λ, Q)` of the channel-fidelity program gives the feasible point `X = Qᴴ/dX` of the
fidelity program of the Choi states, whose value `Re tr(Q)/dX = tr(Herm Tr_Y Q)/dX` is at least `λ`. -/
theorem chanFid_le_choi_fidelity [Nonempty X] {J1 J2 : Choi X Y} (h1 : J1.PosSemidef) (h2 : J2.PosSemidef) :
    chanFid J1 J2 ≤ fidV ((((Fintype.card X : ℝ)⁻¹ : ℝ) : ℂ) • J1) ((((Fintype.card X : ℝ)⁻¹ : ℝ) : ℂ) • J2) := by
  have hcard : (0 : ℝ) < Fintype.card X := by exact_mod_cast Fintype.card_pos
  set t : ℝ := (Fintype.card X : ℝ)⁻¹ with ht
  have htpos : 0 ≤ t := inv_nonneg.mpr hcard.le
  have htc : (0 : ℂ) ≤ (t : ℂ) := by exact_mod_cast htpos
  have hρ := h1.smul htc
  have hσ := h2.smul htc
  refine Real.sSup_le ?_ (le_csSup (fidSet_bddAbove _ _) (zero_mem_fidSet hρ hσ))
  rintro lam ⟨Q, -, hB, hL⟩
  have hX : FidFeasible ((t : ℂ) • J1) ((t : ℂ) • J2) ((t : ℂ) • Qᴴ) := by
    unfold FidFeasible
    have := hB.smul htc
    rw [Matrix.fromBlocks_smul] at this
    rwa [Matrix.conjTranspose_smul, Matrix.conjTranspose_conjTranspose, Complex.star_def, Complex.conj_ofReal]
  have hv := le_fidV_gen hX
  have htr := hL.trace_nonneg
  rw [Complex.nonneg_iff] at htr
  have h1' := htr.1
  rw [Matrix.trace_sub, Matrix.trace_smul, Matrix.trace_smul, Matrix.trace_add, Matrix.trace_conjTranspose,
    trace_ptr2, Matrix.trace_one, Complex.sub_re, smul_eq_mul, smul_eq_mul, Complex.re_ofReal_mul,
    Complex.re_ofReal_mul, Complex.add_re, Complex.star_def, Complex.conj_re] at h1'
  rw [Matrix.trace_smul, Matrix.trace_conjTranspose, smul_eq_mul, Complex.re_ofReal_mul, Complex.star_def,
    Complex.conj_re] at hv
  have hcr : ((Fintype.card X : ℂ)).re = (Fintype.card X : ℝ) := by simp
  rw [hcr] at h1'
  have : lam ≤ t * Q.trace.re := by
    have e : t * (Fintype.card X : ℝ) = 1 := by rw [ht]; exact inv_mul_cancel₀ hcard.ne'
    have h3 : lam * (Fintype.card X : ℝ) ≤ Q.trace.re := by linarith
    have h4 := mul_le_mul_of_nonneg_left h3 htpos
    have h5 : t * (lam * (Fintype.card X : ℝ)) = lam := by rw [mul_comm lam, ← mul_assoc, e, one_mul]
    linarith
  linarith

open Toq.Metrics in
/-- the same bound with the closed form of the fidelity: `F(Φ1, Φ2) ≤ tr √(√ρ1 ρ2 √ρ1)` for the Choi states `ρ_i = J_i/dX` -/
theorem chanFid_le_choi_fidelity_closed_form [Nonempty X] {J1 J2 : Choi X Y} (h1 : J1.PosSemidef)
    (h2 : J2.PosSemidef) :
    chanFid J1 J2 ≤ docFid ((((Fintype.card X : ℝ)⁻¹ : ℝ) : ℂ) • J1) ((((Fintype.card X : ℝ)⁻¹ : ℝ) : ℂ) • J2) := by
  have hcard : (0 : ℝ) < Fintype.card X := by exact_mod_cast Fintype.card_pos
  have htc : (0 : ℂ) ≤ (((Fintype.card X : ℝ)⁻¹ : ℝ) : ℂ) := by exact_mod_cast inv_nonneg.mpr hcard.le
  rw [← fidV_eq_docFid (h1.smul htc) (h2.smul htc)]
  exact chanFid_le_choi_fidelity h1 h2

/-! ## Diamond distance and completely bounded spectral norm as the code defines them -/

/-- `diamond_distance(J1, J2) = completely_bounded_trace_norm(J1 − J2)` -/
noncomputable def diamondDist (J1 J2 : Choi X Y) : ℝ := cbNorm (J1 - J2)

/-- `completely_bounded_spectral_norm(J) = completely_bounded_trace_norm(dual_channel(J))`: the cb spectral norm is DEFINED
(in toqito and here) as the cb trace norm of the adjoint map, whose Choi matrix on `Y ⊗ X` is `dualChoi J` -/
noncomputable def cbSpectral (J : Choi X Y) : ℝ := cbNorm (dualChoi J)

/-- Taking the adjoint twice gives the map back, so the cb trace norm is the cb spectral norm of the adjoint. -/
theorem cbSpectral_dual (J : Choi X Y) : cbSpectral (dualChoi J) = cbNorm J := by
  rw [cbSpectral, dualChoi_dualChoi]

/-- **cb spectral norm of a completely positive map = operator norm of `Φ(1) = Tr_X J`**: if `c·1 ⪰ Tr_X J` and some density
operator `ρ` on the output space attains `tr(ρ Tr_X J) = c`, then the cb spectral norm is `c`. -/
theorem cbSpectral_cp_eq [Nonempty Y] {J : Choi X Y} {c : ℝ} (hJ : J.PosSemidef)
    (hc : ((c : ℂ) • (1 : Matrix Y Y ℂ) - ptr1 J).PosSemidef) {ρ : Matrix Y Y ℂ} (hρ : IsDensity ρ)
    (hatt : (ρ * ptr1 J).trace.re = c) : cbSpectral J = c := by
  have hT := ptr2_dualChoi_of_herm hJ.isHermitian
  refine cb_cp_eq (dualChoi_posSemidef hJ) ?_ (ρ := ρᵀ) ⟨hρ.1.transpose, by rw [Matrix.trace_transpose, hρ.2]⟩ ?_
  · rw [hT]
    have := hc.transpose
    rwa [Matrix.transpose_sub, Matrix.transpose_smul, Matrix.transpose_one] at this
  · rw [hT, ← Matrix.transpose_mul, Matrix.trace_transpose, Matrix.trace_mul_comm]
    exact hatt

/-- **The cb spectral norm of a unital completely positive map is 1** (in particular of the adjoint of every channel). -/
theorem cbSpectral_unital_one [Nonempty Y] {J : Choi X Y} (hJ : J.PosSemidef) (hU : ptr1 J = 1) : cbSpectral J = 1 := by
  refine cb_channel_one (dualChoi_posSemidef hJ) ?_
  rw [ptr2_dualChoi_of_herm hJ.isHermitian, hU, Matrix.transpose_one]

/-- **Both completely bounded norms of a unitary channel are 1** (co-isometry `U Uᴴ = 1` for the spectral norm: the map is unital). -/
theorem cbSpectral_unitary_channel_one [Nonempty Y] {U : Matrix Y X ℂ} (hU : U * Uᴴ = 1) : cbSpectral (choiK U) = 1 :=
  cbSpectral_unital_one (choiK_posSemidef U) (by rw [ptr1_choiK, hU])

/-- **The cb trace norm of a completely positive map is at most `tr J`**, the number the CP shortcut of
`completely_bounded_trace_norm` returns as coded (`cpShortcutAsCoded_toC`); the two agree exactly when `Tr_Y J = Φ*(1)` has at
most one non-zero eigenvalue (known finding `c20-cb-cp-shortcut-trace-norm`: the shortcut applies the dual map to an identity of
the size of the Choi matrix instead of the size of the output space). -/
theorem cb_cp_le_trace [Nonempty X] {J : Choi X Y} (hJ : J.PosSemidef) : cbNorm J ≤ J.trace.re := by
  have hc := psd_trace_smul_one_sub (ptr2_posSemidef hJ)
  rw [trace_ptr2] at hc
  exact cb_cp_le hJ hc

/-- **The two-unitary diamond-distance formula, closed form for every pair of unitaries**: for unitary `U`, `V` on the same space
the matrix `Uᴴ V` has a unitary diagonalisation `S diag(λ) Sᴴ` (spectral theorem for unitary matrices,
`exists_unitary_diagonalisation`); the `λ_i` are its eigenvalues (its characteristic polynomial is `∏ (X − λ_i)`), and
`‖Φ_U − Φ_V‖_◇ = 2 √(1 − δ²)` with `δ` the distance from the origin to the convex hull of the `λ_i`. -/
theorem diamond_two_unitaries_closed_form [Nonempty X] {U V : Matrix X X ℂ} (hU : Uᴴ * U = 1) (hV : Vᴴ * V = 1) :
    ∃ (S : Matrix X X ℂ) (lam : X → ℂ), Sᴴ * S = 1 ∧ S * Sᴴ = 1 ∧ Uᴴ * V = S * diagonal lam * Sᴴ ∧
      (Uᴴ * V).charpoly = ∏ i, (Polynomial.X - Polynomial.C (lam i)) ∧
      cbNorm (choiK U - choiK V)
        = 2 * Real.sqrt (1 - Metric.infDist (0 : ℂ) (convexHull ℝ (Set.range lam)) ^ 2) := by
  have hU' : U * Uᴴ = 1 := mul_eq_one_comm.mp hU
  have hW : (Uᴴ * V)ᴴ * (Uᴴ * V) = 1 := by
    rw [Matrix.conjTranspose_mul, Matrix.conjTranspose_conjTranspose]
    calc Vᴴ * U * (Uᴴ * V) = Vᴴ * (U * Uᴴ) * V := by simp only [Matrix.mul_assoc]
      _ = 1 := by rw [hU', Matrix.mul_one, hV]
  obtain ⟨S, lam, hS, hS', hWd⟩ := exists_unitary_diagonalisation hW
  exact ⟨S, lam, hS, hS', hWd, charpoly_of_diagonalisation hS hWd, diamond_two_unitaries_eigenvalues hU hV hS hS' hWd⟩

/-! ## Closed forms without side conditions, composition with unitary channels on the Kraus level -/

/-- **cb trace norm of a completely positive map = largest eigenvalue of `Tr_Y J = Φ*(1)`** (its operator norm), with no side
condition: the certificate `c·1 ⪰ Tr_Y J` and the attaining density operator of `cb_cp_eq` come from the spectral theorem. -/
theorem cb_cp_eq_max_eigenvalue [Nonempty X] {J : Choi X Y} (hJ : J.PosSemidef) :
    cbNorm J = Finset.univ.sup' Finset.univ_nonempty (ptr2_posSemidef hJ).isHermitian.eigenvalues := by
  set hT := (ptr2_posSemidef hJ).isHermitian
  obtain ⟨i₀, -, hi₀⟩ := Finset.exists_mem_eq_sup' Finset.univ_nonempty hT.eigenvalues
  have hmax : ∀ i, hT.eigenvalues i ≤ hT.eigenvalues i₀ := fun i => hi₀ ▸ Finset.le_sup' hT.eigenvalues (Finset.mem_univ i)
  obtain ⟨hc, ρ, hρ, htr, hatt⟩ := max_eigenvalue_cert hT i₀ hmax
  rw [hi₀]
  exact cb_cp_eq hJ hc ⟨hρ, htr⟩ hatt

/-- **cb spectral norm of a completely positive map = largest eigenvalue of `Tr_X J = Φ(1)`**, with no side condition. -/
theorem cbSpectral_cp_eq_max_eigenvalue [Nonempty Y] {J : Choi X Y} (hJ : J.PosSemidef) :
    cbSpectral J = Finset.univ.sup' Finset.univ_nonempty (ptr1_posSemidef hJ).isHermitian.eigenvalues := by
  set hT := (ptr1_posSemidef hJ).isHermitian
  obtain ⟨i₀, -, hi₀⟩ := Finset.exists_mem_eq_sup' Finset.univ_nonempty hT.eigenvalues
  have hmax : ∀ i, hT.eigenvalues i ≤ hT.eigenvalues i₀ := fun i => hi₀ ▸ Finset.le_sup' hT.eigenvalues (Finset.mem_univ i)
  obtain ⟨hc, ρ, hρ, htr, hatt⟩ := max_eigenvalue_cert hT i₀ hmax
  rw [hi₀]
  exact cbSpectral_cp_eq hJ hc ⟨hρ, htr⟩ hatt

/-- **The diamond distance is unchanged when both channels are composed with the same unitaries**, on the Kraus level: for maps
`Φ1 = Σ_i K_i · K_iᴴ`, `Φ2 = Σ_j L_j · L_jᴴ` and unitaries `A` (applied first) and `B` (applied last), the maps with Kraus operators
`B K_i A`, `B L_j A` have the same diamond distance (their Choi matrices are those of `Φ1`, `Φ2` conjugated by `Aᵀ ⊗ B`, toqito's
`kraus_to_choi` convention). -/
theorem diamond_compose_unitaries {r s : Type*} [Fintype r] [Fintype s] (K : r → Matrix Y X ℂ) (L : s → Matrix Y X ℂ)
    {A : Matrix X X ℂ} {B : Matrix Y Y ℂ} (hA : Aᴴ * A = 1) (hA' : A * Aᴴ = 1) (hB : B * Bᴴ = 1) (hB' : Bᴴ * B = 1) :
    cbNorm ((∑ i, choiK (B * K i * A)) - ∑ j, choiK (B * L j * A))
      = cbNorm ((∑ i, choiK (K i)) - ∑ j, choiK (L j)) := by
  have hT : (Aᵀ)ᴴ * Aᵀ = 1 := by
    have : (Aᵀ)ᴴ = (Aᴴ)ᵀ := by ext i j; rfl
    rw [this, ← Matrix.transpose_mul, hA', Matrix.transpose_one]
  have hT' : Aᵀ * (Aᵀ)ᴴ = 1 := by
    have : (Aᵀ)ᴴ = (Aᴴ)ᵀ := by ext i j; rfl
    rw [this, ← Matrix.transpose_mul, hA, Matrix.transpose_one]
  have e : (∑ i, choiK (B * K i * A)) - ∑ j, choiK (B * L j * A)
      = (Aᵀ ⊗ₖ B) * ((∑ i, choiK (K i)) - ∑ j, choiK (L j)) * (Aᵀ ⊗ₖ B)ᴴ := by
    simp only [choiK_mul_mul]
    rw [← Finset.sum_mul, ← Finset.sum_mul, ← Finset.mul_sum, ← Finset.mul_sum, ← Matrix.sub_mul, ← Matrix.mul_sub]
  rw [e]
  exact diamond_unitary_invariant hT hT' hB hB' _

end Programs

/-! ## Soundness of the executable certificate checkers -/

section Checkers
open EMat
variable {dX dY : Nat}

/-- If the primal cb-norm checker accepts with value `lo`, then the candidate is a primal-feasible point of Watrous'
SDP (for the denotations of the exact matrices) whose value is exactly `lo`; hence `lo ≤ cbNorm`. -/
theorem checkCbPrimal_sound (J : EMat (dX * dY) (dX * dY)) (ρ0 ρ1 : EMat dX dX) (Z : EMat (dX * dY) (dX * dY))
    (Lb : EMat (dX * dY + dX * dY) (dX * dY + dX * dY)) (L0 L1 : EMat dX dX) (lo : Rat)
    (h : checkCbPrimal dX dY J ρ0 ρ1 Z Lb L0 L1 = some lo) :
    CbPrimalFeasible ρ0.toM ρ1.toM (toP Z) ∧ cbObj (toP J) (toP Z) = (lo : ℝ) ∧ (lo : ℝ) ≤ cbNorm (toP J) := by
  unfold checkCbPrimal at h
  split at h
  · next hc =>
    simp only [Bool.and_eq_true] at hc
    obtain ⟨⟨h0, h1⟩, hb⟩ := hc
    have hB := psdCert_blk_sound _ _ _ _ _ hb
    rw [toP_kronI, toP_kronI, toP_ct] at hB
    have hf : CbPrimalFeasible ρ0.toM ρ1.toM (toP Z) := ⟨densityOk_sound _ _ h0, densityOk_sound _ _ h1, hB⟩
    have hv : cbObj (toP J) (toP Z) = (lo : ℝ) := by
      rw [cbObj, ← cbValue_cast]
      exact congrArg _ (Option.some.inj h)
    exact ⟨hf, hv, hv ▸ cbObj_le_cbNorm _ hf⟩
  · exact absurd h (by simp)

/-- If the dual cb-norm checker accepts with value `hi`, then EVERY primal-feasible point of Watrous' SDP for (the
denotation of) `J` has value at most `hi`. -/
theorem checkCbDual_sound (J Y0 Y1 : EMat (dX * dY) (dX * dY)) (c0 c1 : Rat)
    (Lb : EMat (dX * dY + dX * dY) (dX * dY + dX * dY)) (L0 L1 : EMat dX dX) (hi : Rat)
    (h : checkCbDual dX dY J Y0 Y1 c0 c1 Lb L0 L1 = some hi) :
    ∀ (ρ0 ρ1 : Matrix (Fin dX) (Fin dX) ℂ) (Z : Choi (Fin dX) (Fin dY)),
      CbPrimalFeasible ρ0 ρ1 Z → cbObj (toP J) Z ≤ (hi : ℝ) := by
  unfold checkCbDual at h
  split at h
  · next hc =>
    simp only [Bool.and_eq_true, normBoundOk] at hc
    obtain ⟨⟨hb, h0⟩, h1⟩ := hc
    have hB := psdCert_blk_sound _ _ _ _ _ hb
    rw [toP_neg, toP_neg, toP_ct] at hB
    have hn0 := psdCert_sound _ _ h0
    have hn1 := psdCert_sound _ _ h1
    rw [toM_sub, toM_scalar, toM_ptrY] at hn0 hn1
    have hD : CbDualFeasible (toP J) (toP Y0) (toP Y1) ((c0 : Rat) : ℝ) ((c1 : Rat) : ℝ) := ⟨hB, hn0, hn1⟩
    intro ρ0 ρ1 Z hP
    have := cb_weak_duality (toP J) hP hD
    have hv : ((hi : Rat) : ℝ) = (((c0 : Rat) : ℝ) + ((c1 : Rat) : ℝ)) / 2 := by
      rw [← Option.some.inj h]; push_cast; ring
    rwa [hv]
  · exact absurd h (by simp)

/-- Accepted primal and dual certificates bracket the cb trace norm: `lo ≤ cbNorm J ≤ hi`. -/
theorem cb_bracket (J : EMat (dX * dY) (dX * dY)) (ρ0 ρ1 : EMat dX dX) (Z Y0 Y1 : EMat (dX * dY) (dX * dY))
    (c0 c1 : Rat) (Lb Lb' : EMat (dX * dY + dX * dY) (dX * dY + dX * dY)) (L0 L1 L0' L1' : EMat dX dX) (lo hi : Rat)
    (hlo : checkCbPrimal dX dY J ρ0 ρ1 Z Lb L0 L1 = some lo)
    (hhi : checkCbDual dX dY J Y0 Y1 c0 c1 Lb' L0' L1' = some hi) :
    (lo : ℝ) ≤ cbNorm (toP J) ∧ cbNorm (toP J) ≤ (hi : ℝ) := by
  obtain ⟨hf, hv, hle⟩ := checkCbPrimal_sound J ρ0 ρ1 Z Lb L0 L1 lo hlo
  refine ⟨hle, csSup_le ⟨_, _, _, _, hf, rfl⟩ ?_⟩
  rintro v ⟨r0, r1, Z', hP, rfl⟩
  exact checkCbDual_sound J Y0 Y1 c0 c1 Lb' L0' L1' hi hhi r0 r1 Z' hP

/-- If the primal channel-fidelity checker accepts with value `lo`, then `(lo, Q)` is a primal-feasible point of the
channel-fidelity SDP; hence `lo` is a lower bound of the optimum. -/
theorem checkCfPrimal_sound (J1 J2 Q : EMat (dX * dY) (dX * dY)) (lam : Rat)
    (Lb : EMat (dX * dY + dX * dY) (dX * dY + dX * dY)) (Lc : EMat dX dX) (lo : Rat)
    (h : checkCfPrimal dX dY J1 J2 Q lam Lb Lc = some lo) :
    lo = lam ∧ CfPrimalFeasible (toP J1) (toP J2) ((lo : Rat) : ℝ) (toP Q) := by
  unfold checkCfPrimal at h
  split at h
  · next hc =>
    simp only [Bool.and_eq_true, decide_eq_true_eq, cfLoewnerOk] at hc
    obtain ⟨⟨h0, hb⟩, hl⟩ := hc
    have hlo : lo = lam := (Option.some.inj h).symm
    subst hlo
    have hB := psdCert_blk_sound _ _ _ _ _ hb
    rw [toP_ct] at hB
    have hL := psdCert_sound _ _ hl
    rw [toM_sub, toM_hermPart, toM_scalar, toM_ptrY] at hL
    exact ⟨rfl, by exact_mod_cast h0, hB, hL⟩
  · exact absurd h (by simp)

/-- If the dual channel-fidelity checker accepts with value `hi`, then EVERY primal-feasible `(λ, Q)` of the
channel-fidelity SDP for (the denotations of) `J1, J2` has `λ ≤ hi`. -/
theorem checkCfDual_sound (J1 J2 : EMat (dX * dY) (dX * dY)) (ρ : EMat dX dX) (W0 W1 : EMat (dX * dY) (dX * dY))
    (Lρ : EMat dX dX) (Lb : EMat (dX * dY + dX * dY) (dX * dY + dX * dY)) (hi : Rat)
    (h : checkCfDual dX dY J1 J2 ρ W0 W1 Lρ Lb = some hi) :
    ∀ (lam : ℝ) (Q : Choi (Fin dX) (Fin dY)), CfPrimalFeasible (toP J1) (toP J2) lam Q → lam ≤ (hi : ℝ) := by
  unfold checkCfDual at h
  split at h
  · next hc =>
    simp only [Bool.and_eq_true] at hc
    obtain ⟨hd, hb⟩ := hc
    have hB := psdCert_blk_sound _ _ _ _ _ hb
    rw [toP_neg, toP_kronI] at hB
    have hD : CfDualFeasible ρ.toM (toP W0) (toP W1) := ⟨densityOk_sound _ _ hd, hB⟩
    intro lam Q hP
    have := cf_weak_duality hP hD
    rwa [cfDualObj, ← cfDualValue_cast, Option.some.inj h] at this
  · exact absurd h (by simp)

/-- Accepted primal and dual certificates bracket the channel fidelity: `lo ≤ chanFid J1 J2 ≤ hi`. -/
theorem cf_bracket (J1 J2 Q : EMat (dX * dY) (dX * dY)) (lam : Rat) (ρ : EMat dX dX)
    (W0 W1 : EMat (dX * dY) (dX * dY)) (Lb Lb' : EMat (dX * dY + dX * dY) (dX * dY + dX * dY))
    (Lc Lρ : EMat dX dX) (lo hi : Rat)
    (hlo : checkCfPrimal dX dY J1 J2 Q lam Lb Lc = some lo)
    (hhi : checkCfDual dX dY J1 J2 ρ W0 W1 Lρ Lb' = some hi) :
    (lo : ℝ) ≤ chanFid (toP J1) (toP J2) ∧ chanFid (toP J1) (toP J2) ≤ (hi : ℝ) := by
  obtain ⟨-, hf⟩ := checkCfPrimal_sound J1 J2 Q lam Lb Lc lo hlo
  have hb := checkCfDual_sound J1 J2 ρ W0 W1 Lρ Lb' hi hhi
  refine ⟨le_csSup ⟨(hi : ℝ), fun l ⟨Q', hP⟩ => hb l Q' hP⟩ ⟨toP Q, hf⟩, csSup_le ⟨_, toP Q, hf⟩ ?_⟩
  rintro l ⟨Q', hP⟩
  exact hb l Q' hP

end Checkers

/-! ## The code paths around the programs (mirror `Toq.Model.ChanMetricsPath`) -/

section Paths
open EMat Toq.ChannelProps
variable {d : Nat}

/-- A non-square argument is rejected (`ValueError`) before anything else. -/
theorem cbPath_notSquare {rows cols : Nat} (h : rows ≠ cols) (cp tp : Verdict) : cbPath rows cols cp tp = CbPath.notSquare := by
  unfold cbPath; rw [if_pos h]

/-- **Shortcut `return 1`**: when the mirrored `is_quantum_channel` answers yes (exact certificates: `J` Hermitian with a PSD
witness, `Tr_Y J = 1` exactly), the cb trace norm of the denoted map IS 1 — the value the code returns on that path. -/
theorem cbPath_channelOne_sound (hd : 0 < d) {k : Nat} (J : EMat (d * d) (d * d)) (L : Option (EMat (d * d) k))
    (v : Option (EMat (d * d) 1)) (h : cbPath (d * d) (d * d) (psdV J L v) (tpV J) = CbPath.channelOne) :
    cbNorm (toP J) = 1 := by
  have : Nonempty (Fin d) := ⟨⟨0, hd⟩⟩
  unfold cbPath at h
  rw [if_neg (by simp)] at h
  cases hcp : psdV J L v <;> rw [hcp] at h <;> simp only [reduceCtorEq] at h
  cases htp : tpV J <;> rw [htp] at h <;> simp only [reduceCtorEq] at h
  exact cb_channel_one (psdV_yes_sound J L v hcp) (tpV_yes_sound J htp)

/-- **CP shortcut, as coded**: on that path the denoted Choi matrix is positive semidefinite, the `1 × 1` matrix the code
computes is `tr J` (real, non-negative; its nuclear norm is what is returned), and this number is an UPPER bound of the cb
trace norm — not the cb trace norm `λ_max(Tr_Y J)` itself (`cb_cp_eq`; known finding). -/
theorem cbPath_cpShortcut_sound (hd : 0 < d) {k : Nat} (J : EMat (d * d) (d * d)) (L : Option (EMat (d * d) k))
    (v : Option (EMat (d * d) 1)) (h : cbPath (d * d) (d * d) (psdV J L v) (tpV J) = CbPath.cpShortcut) :
    (toP J).PosSemidef ∧ (cpShortcutAsCoded d J).toC = (((toP J).trace.re : ℝ) : ℂ) ∧ 0 ≤ (toP J).trace.re ∧
      cbNorm (toP J) ≤ (toP J).trace.re := by
  have : Nonempty (Fin d) := ⟨⟨0, hd⟩⟩
  unfold cbPath at h
  rw [if_neg (by simp)] at h
  cases hcp : psdV J L v <;> rw [hcp] at h <;> simp only [reduceCtorEq] at h
  have hP := psdV_yes_sound J L v hcp
  have htr := hP.trace_nonneg
  rw [Complex.nonneg_iff] at htr
  refine ⟨hP, ?_, htr.1, cb_cp_le_trace hP⟩
  rw [cpShortcutAsCoded_toC]
  apply Complex.ext
  · simp
  · simp [← htr.2]

/-- **SDP path**: the subsystem dimension the code infers from a `d² × d²` Choi matrix (`round(sqrt(d²))`) is `d`, for every
`d` — so the partial traces in the program are `Tr_Y` on `X ⊗ Y` with `dX = dY = d`. -/
theorem cbPath_sdp_dim (cp tp : Verdict) {dim : Nat} (h : cbPath (d * d) (d * d) cp tp = CbPath.sdp dim) : dim = d := by
  unfold cbPath at h
  rw [if_neg (by simp)] at h
  cases cp <;> simp only [reduceCtorEq] at h
  · cases tp <;> simp only [reduceCtorEq] at h
  · rw [roundSqrt_sq] at h
    exact (CbPath.sdp.inj h).symm

/-- The SDP path is taken exactly when the mirrored `is_completely_positive` answers no. -/
theorem cbPath_sdp_iff (cp tp : Verdict) : cbPath (d * d) (d * d) cp tp = CbPath.sdp d ↔ cp = Verdict.no := by
  unfold cbPath
  rw [if_neg (by simp)]
  cases cp <;> cases tp <;> simp [roundSqrt_sq]

/-- **`channel_fidelity` is defined for every local dimension**: for two `d² × d²` Choi matrices the guards pass and the inferred
local dimension is `d`, for every `d`. -/
theorem cfPath_sq (d : Nat) : cfPath (d * d) (d * d) (d * d) (d * d) = CfPath.sdp (d * d) d := by
  unfold cfPath
  simp [roundSqrt_sq]

/-- Arguments of different shapes, and non-square arguments, are rejected (`ValueError`). -/
theorem cfPath_guards (r1 c1 r2 c2 : Nat) :
    ((r1 ≠ r2 ∨ c1 ≠ c2) → cfPath r1 c1 r2 c2 = CfPath.shapeMismatch) ∧
      (r1 = r2 → c1 = c2 → r1 ≠ c1 → cfPath r1 c1 r2 c2 = CfPath.notSquare) := by
  unfold cfPath
  constructor
  · intro h; rw [if_pos h]
  · intro h1 h2 h3
    rw [if_neg (by simp [h1, h2]), if_pos h3]

/-- The executable mirror of `dual_channel` denotes the Choi matrix of the adjoint map, so
`completely_bounded_spectral_norm` as coded (cb trace norm of `dual_channel(J)`) is `cbSpectral` of the denoted map. -/
theorem cbSpectral_model {dX dY : Nat} (J : EMat (dX * dY) (dX * dY)) :
    cbNorm (toP (dualChoiE dX dY J)) = cbSpectral (toP J) := by
  rw [toP_dualChoiE, cbSpectral]

/-- The slack of the second constraint of `channel_fidelity` in the model is the matrix of `CfPrimalFeasible`. -/
theorem cfLoewnerSlack_toM {dX dY : Nat} (Q : EMat (dX * dY) (dX * dY)) (lam : Rat) :
    (cfLoewnerSlack dX dY Q lam).toM
      = ((1 / 2 : ℝ) : ℂ) • (ptr2 (toP Q) + (ptr2 (toP Q))ᴴ) - ((lam : ℝ) : ℂ) • (1 : Matrix (Fin dX) (Fin dX) ℂ) := by
  rw [cfLoewnerSlack, toM_sub, toM_hermPart, toM_scalar, toM_ptrY]

end Paths

/-! ## Channel fidelity of separability: the program `fidelity_of_separability` builds, at every level `k` and all local dimensions

`toqito/channel_metrics/fidelity_of_separability.py` takes `psi` on `B ⊗ A ⊗ R`, permutes it to `R ⊗ A ⊗ B`, declares a Hermitian
variable `choi` on `R ⊗ A'^{⊗k}` and maximises `Re tr(Π_sym(dA, 2) · Tr_{R,B}[(T_R(psi) ⊗ 1_{A'}) (choi_partial ⊗ 1_{AB})])` subject to
`Tr_{A'^k} choi = 1_R`, `choi ⪰ 0`, `(1 ⊗ Π_sym(dA, k)) choi (1 ⊗ Π_sym(dA, k)) = choi` and `T_{A'_1…A'_j}(choi) ⪰ 0` (`j = 1…k`); it returns
`2·optimum − 1`.  `Toq.ChanMetrics.Fos.Feasible ℓ Γ` is that constraint set for `k = ℓ + 1` (an operator on `R ⊗ A'^{⊗k}` is a matrix
indexed by `m × (Fin k → Fin d)`, `m` the index set of `R`, `d = dA`), `Toq.ChanMetrics.Fos.obj ℓ ψ Γ` the objective for the permuted
state `ψ = permBAR psi`; the executable mirror of the same program (`Toq.Model.ChanMetricsFos.exprs`, flattened indices, composed of the
mirrors of `permute_systems` / `symmetric_projection` and the specifications of the partial trace / transpose) is compared with the picos
problem the code builds, and with these formulas, at exact points on every run of the harness (stream `fos-program`). -/

section Fos
open Toq.ChanMetrics.Fos Toq.PPTDisc Toq.ChannelProps
variable {m : Type*} [Fintype m] [DecidableEq m] {β : Type*} [Fintype β] [DecidableEq β] {d : ℕ}

/-- **The operator inside the objective.**  `Tr_{R,B}[(T_R(ψ) ⊗ 1)(Γ₁ ⊗ 1)]`, computed as the code does (partial transpose on `R`,
Kronecker products with identities, matrix product, partial trace over the systems 0 and 2 of `[dR, dA, dB, dA]`), has the entries
`ω[(a,a'),(c,c')] = Σ_{r,b,r'} ψ[(r',a,b),(r,c,b)] · Γ₁[(r',a'),(r,c')]`: the state obtained by sending the `R` part of `ψ` through the map
with Choi operator `Γ₁` and forgetting `B`. -/
theorem fos_omega_apply (ψ : Matrix (m × Fin d × β) (m × Fin d × β) ℂ) (G : Matrix (m × Fin d) (m × Fin d) ℂ)
    (x y : Fin d × Fin d) :
    omega ψ G x y = ∑ r, ∑ b, ∑ r', ψ (r', x.1, b) (r, y.1, b) * G (r', x.2) (r, y.2) :=
  omega_apply ψ G x y

/-- **The explicit feasible point.**  For every unit vector `a`, every level `k = ℓ + 1 ≥ 1`, every dimension of `R` and of `A`, the Choi
operator `1_R ⊗ (a aᴴ)^{⊗k}` of the replacement channel `X ↦ tr(X)·(a aᴴ)^{⊗k}` satisfies all constraints of the program: the trace
constraint, positivity, support on the symmetric subspace, and positivity of all `k` partial transposes. -/
theorem fos_feasible_product (ℓ : ℕ) (a : Fin d → ℂ) (ha : a ⬝ᵥ star a = 1) :
    Feasible ℓ (replChoi m (ℓ + 1) a) :=
  feasible_product ℓ a ha

/-- **It attains the value 1.**  For the pure product state `(b ⊗ a ⊗ r)(b ⊗ a ⊗ r)ᴴ` given on `B ⊗ A ⊗ R` (unit vectors `b, a, r`, any
dimensions) the objective of that point is exactly 1, at every level. -/
theorem fos_obj_product (ℓ : ℕ) (vb : β → ℂ) (va : Fin d → ℂ) (vr : m → ℂ) (hb : vb ⬝ᵥ star vb = 1)
    (ha : va ⬝ᵥ star va = 1) (hr : vr ⬝ᵥ star vr = 1) :
    obj ℓ (permBAR (prodState vb va vr)) (replChoi m (ℓ + 1) va) = 1 :=
  obj_product ℓ vb va vr hb ha hr

/-- **No feasible point exceeds 1.**  For every density operator `ψ` on `R ⊗ A ⊗ B` (pure or not, product or not) and every `choi ⪰ 0`
with `Tr_{A'^k} choi = 1_R` the objective is at most 1: the operator inside the objective is then a density operator on `A ⊗ A'` and
`Π_sym` is a projector.  (The other two constraint families are not needed for this bound.) -/
theorem fos_obj_le_one (ℓ : ℕ) {ψ : Matrix (m × Fin d × β) (m × Fin d × β) ℂ} (hψ : ψ.PosSemidef) (htr : ψ.trace = 1)
    {Γ : Matrix (HIdx m d (ℓ + 1)) (HIdx m d (ℓ + 1)) ℂ} (hΓ : Γ.PosSemidef) (hm : margAll Γ = 1) :
    obj ℓ ψ Γ ≤ 1 :=
  obj_le_one ℓ hψ htr hΓ hm

/-- the objective of a point with `choi ⪰ 0` is never negative (for a positive semidefinite `ψ`) -/
theorem fos_obj_nonneg (ℓ : ℕ) {ψ : Matrix (m × Fin d × β) (m × Fin d × β) ℂ} (hψ : ψ.PosSemidef)
    {Γ : Matrix (HIdx m d (ℓ + 1)) (HIdx m d (ℓ + 1)) ℂ} (hΓ : Γ.PosSemidef) : 0 ≤ obj ℓ ψ Γ :=
  obj_nonneg ℓ hψ hΓ

/-- **The optimum for a pure product state is exactly 1** at every level `k ≥ 1` and for all local dimensions: 1 is a value of a
feasible point and an upper bound of all of them. -/
theorem fos_optimum_product (ℓ : ℕ) (vb : β → ℂ) (va : Fin d → ℂ) (vr : m → ℂ) (hb : vb ⬝ᵥ star vb = 1)
    (ha : va ⬝ᵥ star va = 1) (hr : vr ⬝ᵥ star vr = 1) :
    IsGreatest {v : ℝ | ∃ Γ : Matrix (HIdx m d (ℓ + 1)) (HIdx m d (ℓ + 1)) ℂ, Feasible ℓ Γ ∧
      obj ℓ (permBAR (prodState vb va vr)) Γ = v} 1 :=
  optimum_product ℓ vb va vr hb ha hr

/-- the optimum of the program at level `k = ℓ + 1` for the input `psi` on `B ⊗ A ⊗ R` -/
noncomputable def fosOpt (ℓ : ℕ) (psi : Matrix (β × Fin d × m) (β × Fin d × m) ℂ) : ℝ :=
  sSup {v : ℝ | ∃ Γ : Matrix (HIdx m d (ℓ + 1)) (HIdx m d (ℓ + 1)) ℂ, Feasible ℓ Γ ∧ obj ℓ (permBAR psi) Γ = v}

/-- **The channel fidelity of separability of every pure tripartite product state is 1**: the value `2·optimum − 1` the function returns
(`fosReturn` is the mirrored return line) is 1 at every level `k ≥ 1` and for all local dimensions. -/
theorem fos_product_eq_one (ℓ : ℕ) (vb : β → ℂ) (va : Fin d → ℂ) (vr : m → ℂ) (hb : vb ⬝ᵥ star vb = 1)
    (ha : va ⬝ᵥ star va = 1) (hr : vr ⬝ᵥ star vr = 1) :
    2 * fosOpt (m := m) ℓ (prodState vb va vr) - 1 = 1 := by
  unfold fosOpt
  rw [(fos_optimum_product ℓ vb va vr hb ha hr).csSup_eq]
  norm_num

/-- the mirrored return line `2·value − 1` maps the optimum 1 to 1 -/
theorem fos_return_one : fosReturn 1 = 1 := by decide +kernel

/-- **The levels are nested.**  Tracing out the last copy of `A'` maps a feasible point of level `k + 1` to a feasible point of level `k`
with the same objective; so the optimum cannot increase with `k`. -/
theorem fos_level_pred {ℓ : ℕ} {Γ : Matrix (HIdx m d (ℓ + 2)) (HIdx m d (ℓ + 2)) ℂ} (h : Feasible (ℓ + 1) Γ)
    (ψ : Matrix (m × Fin d × β) (m × Fin d × β) ℂ) :
    Feasible ℓ (margLast Γ) ∧ obj ℓ ψ (margLast Γ) = obj (ℓ + 1) ψ Γ :=
  feasible_pred h ψ

/-- the support constraint `(1 ⊗ Π_sym) choi (1 ⊗ Π_sym) = choi` says that the entries of `choi` do not change when the copies of `A'` are
permuted in the row index or in the column index (C12's `sym_iff_isBoseSym`); `Π_sym(dA, k)` is C18's specification of
`symmetric_projection(dA, k)`, and the `Π_sym(dA, 2)` of the objective is the same projector at `p = 2` -/
theorem fos_projectors (L : ℕ) (X : Matrix (HIdx m d L) (HIdx m d L) ℂ) :
    (((1 : Matrix m m ℂ) ⊗ₖ symPC d L) * X * ((1 : Matrix m m ℂ) ⊗ₖ symPC d L) = X ↔ IsBoseSym X) ∧
    symPC d L = (Toq.Combinat.Spec.symSpec d L).map (fun q : ℚ => (q : ℂ)) ∧
    sym2 d = (symPC d 2).submatrix pairFn pairFn :=
  ⟨sym_iff_isBoseSym X, symPC_eq_symSpec d L, sym2_eq_symPC d⟩

/-! ### the guards (mirror `Toq.Model.ChanMetricsFos.fosPath` on exact verdicts) -/

/-- **Accepted ⇔ density operator, three dimensions, pure.**  The cascade of guards reaches the program, with the dimensions read as
`dim_b, dim_a, dim_r = psi_dims`, exactly when `is_density` holds, `psi_dims` has three entries and `is_pure` holds. -/
theorem fosPath_program_iff (dens pure : Verdict) (dims : List ℕ) (dR dA dB : ℕ) :
    fosPath dens dims pure = .program dR dA dB ↔ dens = .yes ∧ dims = [dB, dA, dR] ∧ pure = .yes :=
  fosPath_program_iff' dens pure dims dR dA dB

/-- **Which input raises which error**: `ValueError("… not a density matrix.")` exactly when `is_density` fails (whatever the
dimensions); `AssertionError("… require tripartite state dims.")` exactly when it holds and `psi_dims` does not have three entries
(whatever the purity); `ValueError("… only works for pure states.")` exactly when both earlier guards pass and `is_pure` fails. -/
theorem fosPath_errors (dens pure : Verdict) (dims : List ℕ) :
    (fosPath dens dims pure = .notDensity ↔ dens = .no) ∧
    (fosPath dens dims pure = .notTripartite ↔ dens = .yes ∧ dims.length ≠ 3) ∧
    (fosPath dens dims pure = .notPure ↔ dens = .yes ∧ dims.length = 3 ∧ pure = .no) :=
  ⟨fosPath_notDensity_iff' dens pure dims, fosPath_notTripartite_iff' dens pure dims, fosPath_notPure_iff' dens pure dims⟩

/-- **What the exact verdicts mean.**  On an exact rational matrix `ρ` (certificates: a factor `L`, a vector `v`): density `yes` ⇒ the
denotation is positive semidefinite with trace 1; density `no` ⇒ it is not; and for a density operator, purity `yes` ⇒ it is `w wᴴ` for a
unit vector `w`; purity `no` ⇒ it is not of that form. -/
theorem fos_verdicts_sound {n k : ℕ} (ρ : EMat n n) (L : Option (EMat n k)) (v : Option (EMat n 1)) :
    (densityV ρ L v = .yes → ρ.toM.PosSemidef ∧ ρ.toM.trace = 1) ∧
    (densityV ρ L v = .no → ¬ (ρ.toM.PosSemidef ∧ ρ.toM.trace = 1)) ∧
    (densityV ρ L v = .yes → pureV ρ = .yes → ∃ w : Fin n → ℂ, w ⬝ᵥ star w = 1 ∧ ρ.toM = vecMulVec w (star w)) ∧
    (pureV ρ = .no → ¬ ∃ w : Fin n → ℂ, w ⬝ᵥ star w = 1 ∧ ρ.toM = vecMulVec w (star w)) := by
  refine ⟨densityV_yes_sound ρ L v, densityV_no_sound ρ L v, fun hd hp => ?_, pureV_no_sound ρ⟩
  obtain ⟨h1, h2⟩ := densityV_yes_sound ρ L v hd
  exact pure_of_density_idem h1.isHermitian (pureV_yes_sound ρ hp) h2

/-- **Exact pure states are accepted.**  For an exact unit column vector `w` (`wᴴw = 1` in `ℚ[i]`) the state `w wᴴ`, certified by `L = w`,
passes the density and the purity guard; with three dimensions the cascade builds the program. -/
theorem fos_accepts_pure {n : ℕ} (w : EMat n 1) (hw : (w.ct.mul w).trace = 1) (dB dA dR : ℕ) :
    fosPath (densityV (w.mul w.ct) (some w) none) [dB, dA, dR] (pureV (w.mul w.ct)) = .program dR dA dB := by
  obtain ⟨h1, h2⟩ := accepts_pure w hw
  rw [h1, h2]
  rfl

end Fos

/-! ## The checkers accept concrete instances (so the hypotheses of the soundness theorems are satisfiable)

* the transpose map on a qubit (`J = SWAP`, Hermiticity-preserving, not CP): cb trace norm `2 = dX`, attained by both certificates;
* the CP, non-TP map with `J = diag(2,1,0,1)` (index `x·2 + y`): `Tr_Y J = diag(3,1)`, cb trace norm `3 = λ_max` — not the trace `4`
  (what the CP shortcut of toqito returns) and not `λ_max(Tr_X J) = 2` (wrong subsystem);
* completely dephasing versus completely depolarizing qubit channel: channel fidelity `1/√2`, bracketed by `7/10` and `1141/1600`. -/

section Examples
open EMat

/-- real diagonal matrix -/
private def dg {n : Nat} (l : List Rat) : EMat n n := ofFn fun i j => if i = j then ⟨l.getD i.val 0, 0⟩ else 0
/-- real sparse matrix from `(row, column, value)` triples -/
private def spm {n m : Nat} (l : List (Nat × Nat × Rat)) : EMat n m :=
  ofFn fun i j => match l.find? fun e => e.1 == i.val && e.2.1 == j.val with
    | some e => ⟨e.2.2, 0⟩
    | none => 0

private def swapJ : EMat (2 * 2) (2 * 2) := spm [(0, 0, 1), (1, 2, 1), (2, 1, 1), (3, 3, 1)]

example : checkCbPrimal 2 2 swapJ (dg [1/2, 1/2]) (dg [1/2, 1/2]) (smul (1/2) swapJ) zero zero zero = some 2 := by
  decide +kernel

example : checkCbDual 2 2 swapJ one one 2 2 zero zero zero = some 2 := by decide +kernel

private def cpJ : EMat (2 * 2) (2 * 2) := dg [2, 1, 0, 1]

example : checkCbPrimal 2 2 cpJ (dg [1, 0]) (dg [1, 0]) (dg [1, 1, 0, 0]) zero zero zero = some 3 := by decide +kernel

example : checkCbDual 2 2 cpJ cpJ cpJ 3 3 zero zero zero = some 3 := by decide +kernel

/-- with `c = 2 < 3` the certificate is rejected -/
example : checkCbDual 2 2 cpJ cpJ cpJ 2 2 zero zero zero = none := by decide +kernel

private def dephJ : EMat (2 * 2) (2 * 2) := dg [1, 0, 0, 1]
private def depolJ : EMat (2 * 2) (2 * 2) := dg [1/2, 1/2, 1/2, 1/2]

example : checkCfPrimal 2 2 dephJ depolJ (dg [7/10, 0, 0, 7/10]) (7/10)
    (spm [(0, 0, 1), (4, 0, 7/10), (4, 4, 1/10), (3, 3, 1), (7, 3, 7/10), (7, 7, 1/10)]) zero = some (7/10) := by
  decide +kernel

example : checkCfDual 2 2 dephJ depolJ (dg [1, 0]) (dg [16/25, 100, 0, 0]) (dg [25/16, 1/100, 0, 0]) zero
    (spm [(0, 0, 4/5), (4, 0, -5/4), (1, 1, 10), (5, 1, -1/10)]) = some (1141/1600) := by
  decide +kernel

/-! the code paths on concrete instances: the completely dephasing channel takes `return 1`, the CP map `diag(2,1,0,1)` the CP
shortcut (coded value `tr J = 4`, cb trace norm 3), the transpose map (not CP: `v = e01 − e10` is a negative witness) the SDP with
subsystem dimension 2 -/

example : cbPath (2 * 2) (2 * 2) (Toq.ChannelProps.psdV dephJ (some dephJ) none) (Toq.ChannelProps.tpV dephJ)
    = CbPath.channelOne := by decide +kernel

example : cbPath (2 * 2) (2 * 2) (Toq.ChannelProps.psdV cpJ (some (dg [1, 1, 0, 1] : EMat (2 * 2) (2 * 2))) none)
    (Toq.ChannelProps.tpV cpJ) = CbPath.cpShortcut ∧ cpShortcutAsCoded 2 cpJ = ⟨4, 0⟩ := by decide +kernel

example : cbPath (2 * 2) (2 * 2)
    (Toq.ChannelProps.psdV swapJ (none : Option (EMat (2 * 2) 0)) (some (spm [(1, 0, 1), (2, 0, -1)])))
    (Toq.ChannelProps.tpV swapJ) = CbPath.sdp 2 := by decide +kernel

example : cfPath 25 25 25 25 = CfPath.sdp 25 5 ∧ cfPath 4 4 9 9 = CfPath.shapeMismatch ∧ cfPath 4 6 4 6 = CfPath.notSquare := by
  decide +kernel

/-- the hypotheses of the two-unitary formula are satisfiable: identity versus the phase gate `diag(1, i)` -/
example : ∃ (U V S : Matrix (Fin 2) (Fin 2) ℂ) (lam : Fin 2 → ℂ), Uᴴ * U = 1 ∧ Vᴴ * V = 1 ∧ Sᴴ * S = 1 ∧ S * Sᴴ = 1 ∧
    Uᴴ * V = S * diagonal lam * Sᴴ ∧ lam 0 ≠ lam 1 := by
  refine ⟨1, diagonal ![1, Complex.I], 1, ![1, Complex.I], by simp, ?_, by simp, by simp, by simp, ?_⟩
  · rw [Matrix.diagonal_conjTranspose, Matrix.diagonal_mul_diagonal, ← Matrix.diagonal_one]
    congr 1
    funext i
    fin_cases i <;> simp
  · simp only [Matrix.cons_val_zero, Matrix.cons_val_one]
    intro h
    have := congrArg Complex.re h
    simp at this

/-! hypotheses of the general theorems are satisfiable -/

example : (1 : Choi (Fin 2) (Fin 2)).IsHermitian := Matrix.isHermitian_one

/-- a reduced state for `cb_ge_sandwich_traceNorm` -/
example : ((diagonal ![1, 0] : Matrix (Fin 2) (Fin 2) ℂ) * (diagonal ![1, 0])ᴴ).trace = 1 := by
  rw [Matrix.diagonal_conjTranspose, Matrix.diagonal_mul_diagonal, Matrix.trace_diagonal]
  simp

/-- the identity channel: both completely bounded norms are 1 -/
example : cbNorm (choiK (1 : Matrix (Fin 2) (Fin 2) ℂ)) = 1 ∧ cbSpectral (choiK (1 : Matrix (Fin 2) (Fin 2) ℂ)) = 1 :=
  ⟨cb_isometry_channel_one (by simp), cbSpectral_unitary_channel_one (by simp)⟩

/-! channel fidelity of separability: hypotheses are satisfiable and the guards run on a concrete instance -/

/-- a unit vector with complex amplitudes for `fos_feasible_product` / `fos_obj_product`: `(3/5, 4i/5)` -/
example : (![3 / 5, 4 / 5 * Complex.I] : Fin 2 → ℂ) ⬝ᵥ star ![3 / 5, 4 / 5 * Complex.I] = 1 := by
  simp only [dotProduct, Fin.sum_univ_two, Pi.star_apply, Matrix.cons_val_zero, Matrix.cons_val_one, star_mul', star_div₀]
  simp only [Complex.star_def, Complex.conj_I, map_ofNat]
  ring_nf
  rw [Complex.I_sq]
  norm_num

/-- so the level-2 program for qubits has the feasible point of `fos_feasible_product` -/
example : Toq.ChanMetrics.Fos.Feasible 1 (Toq.ChanMetrics.Fos.replChoi (Fin 2) 2 (![1, 0] : Fin 2 → ℂ)) :=
  fos_feasible_product 1 _ (by simp [dotProduct, Fin.sum_univ_two])

private def w8 : EMat 8 1 := ofFn fun i _ => if i.val = 1 then ⟨3 / 5, 0⟩ else if i.val = 6 then ⟨0, 4 / 5⟩ else 0

/-- the exact pure state `w wᴴ`, `w = (3/5)|001⟩ + (4i/5)|110⟩`, passes the guards with `psi_dims = [2, 2, 2]` (it is not a product
state: the guards do not look at that); the same matrix scaled by 3/4 is rejected as not a density matrix, the maximally mixed state as not pure,
and two dimensions are rejected for a valid state -/
example : (w8.ct.mul w8).trace = 1 ∧
    Toq.ChanMetrics.Fos.fosPath (Toq.ChanMetrics.Fos.densityV (w8.mul w8.ct) (some w8) none) [2, 2, 2]
      (Toq.ChanMetrics.Fos.pureV (w8.mul w8.ct)) = .program 2 2 2 ∧
    Toq.ChanMetrics.Fos.fosPath (Toq.ChanMetrics.Fos.densityV (smul (3 / 4) (w8.mul w8.ct)) (none : Option (EMat 8 1)) none) [2, 2, 2]
      (Toq.ChanMetrics.Fos.pureV (smul (3 / 4) (w8.mul w8.ct))) = .notDensity ∧
    Toq.ChanMetrics.Fos.fosPath (Toq.ChanMetrics.Fos.densityV (dg [1/8, 1/8, 1/8, 1/8, 1/8, 1/8, 1/8, 1/8] : EMat 8 8) (some (zero : EMat 8 1)) none)
      [2, 2, 2] (Toq.ChanMetrics.Fos.pureV (dg [1/8, 1/8, 1/8, 1/8, 1/8, 1/8, 1/8, 1/8] : EMat 8 8)) = .notPure ∧
    Toq.ChanMetrics.Fos.fosPath (Toq.ChanMetrics.Fos.densityV (w8.mul w8.ct) (some w8) none) [2, 4]
      (Toq.ChanMetrics.Fos.pureV (w8.mul w8.ct)) = .notTripartite := by
  decide +kernel

end Examples

end Toq.C20
