import Toq.Model.Entangle
import Toq.Spec.Entangle
import Toq.Proofs.Entangle
import Toq.Proofs.Cert
import Toq.Proofs.EntangleSk
import Toq.Proofs.EntangleSkDps
import Mathlib.LinearAlgebra.Matrix.Charpoly.Basic
/-!
# C14 — entanglement / entropy quantities: closed forms and local-unitary invariance

Property theorems only (helpers in `Toq/Proofs/Entangle.lean`, vocabulary in `Toq/Spec/Entangle.lean`, executable
models in `Toq/Model/Entangle.lean`).

A bipartite vector `ψ ∈ C^{dA} ⊗ C^{dB}` has the amplitude matrix `A[a,b] = ψ[a·dB + b]`; its **Schmidt rank** is
`Matrix.rank A`, it is a **product vector** iff `A = x yᵀ`.  The planted states of the correspondence harness are
`ψ = (U ⊗ V) Σ_i s_i |i i⟩`, whose amplitude matrix is `U · planted s · Vᵀ`.
-/
namespace Toq.C14
open Toq.Entangle Matrix
open scoped ComplexOrder MatrixOrder Kronecker

/-! ## mirrors of the reshapes -/

/-- **`schmidt_rank` reads the amplitude matrix.**  `np.reshape(rho, dim)` with `dim = [dA, dB]` (the fixed code) has
    entry `[a, b] = ψ[a·dB + b]` for all sizes. -/
theorem reshapeDim_eq_ampMat {α : Type} (dA dB : Nat) (ψ : Nat → α) (a b : Nat) :
    reshapeDim dA dB ψ a b = ampMat dB ψ a b :=
  reshapeDim_apply dA dB ψ a b

/-- **`schmidt_decomposition` reads the transposed amplitude matrix.**  `rho.reshape(dim[::-1], order="F")` has shape
    `(dB, dA)` and entry `[b, a] = ψ[a·dB + b]`; its left / right singular vectors are therefore the `B` / `A` side
    factors, which is why the code returns `(s, vt_mat, u_mat)`. -/
theorem reshapeRevF_eq_ampMat_transpose {α : Type} (dA dB : Nat) (ψ : Nat → α) (b a : Nat) :
    reshapeRevF dA dB ψ b a = ampMat dB ψ a b :=
  reshapeRevF_apply dA dB ψ b a

/-- **The pre-fix reshape was wrong for unequal local dimensions** (`np.reshape(rho, dim[::-1])` in C order, entry
    `[r, c] = ψ[r·dA + c]`): the product vector `(1,1) ⊗ (1,2,3)` has a vanishing-minor amplitude matrix, but the
    reversed-dims reading has a non-zero 2×2 minor (rank 2).  For `dA = dB` the two readings coincide. -/
theorem reshapeRevC_counterexample :
    let ψ : Nat → Int := fun k => [1, 2, 3, 1, 2, 3].getD k 0
    minorsVanish 2 3 (ampMat 3 ψ) = true ∧ minorsVanish 3 2 (reshapeRevC 2 3 ψ) = false := by
  decide

/-- for equal local dimensions the pre-fix reshape is the amplitude matrix -/
theorem reshapeRevC_eq_ampMat_of_eq {α : Type} (d : Nat) (ψ : Nat → α) (a b : Nat) :
    reshapeRevC d d ψ a b = ampMat d ψ a b :=
  reshapeRevC_apply d d ψ a b

/-- **Operator Schmidt rank reads the realigned matrix.**  The mirror of `_operator_schmidt_rank` (flatten, swap
    subsystems 2 and 3 of `[dA, dB, dA, dB]`, reshape to `dA² × dB²`) has entry `[(a,a'), (b,b')] = ρ[(a,b), (a',b')]`,
    for all (also unequal) local dimensions. -/
theorem operatorAmp_eq_realign {α : Type} (dA dB : Nat) (ρ : Nat → Nat → α) (hA : 0 < dA) (hB : 0 < dB)
    (i j : Nat) (hi : i < dA * dA) (hj : j < dB * dB) :
    operatorAmp dA dB ρ i j = realignAmp dA dB ρ i j :=
  operatorAmp_apply dA dB ρ hA hB i j hi hj

/-- the realigned matrix at row `a·dA + a'`, column `b·dB + b'` is `ρ[a·dB + b, a'·dB + b']` -/
theorem realignAmp_entry {α : Type} (dA dB : Nat) (ρ : Nat → Nat → α) (a a' b b' : Nat) (ha' : a' < dA) (hb' : b' < dB) :
    realignAmp dA dB ρ (a * dA + a') (b * dB + b') = ρ (a * dB + b) (a' * dB + b') := by
  have hA : 0 < dA := Nat.lt_of_le_of_lt (Nat.zero_le _) ha'
  have hB : 0 < dB := Nat.lt_of_le_of_lt (Nat.zero_le _) hb'
  unfold realignAmp
  have h1 : (a * dA + a') / dA = a := by
    rw [Nat.add_comm, Nat.add_mul_div_right _ _ hA, Nat.div_eq_of_lt ha', Nat.zero_add]
  have h2 : (a * dA + a') % dA = a' := by
    rw [Nat.add_comm, Nat.add_mul_mod_self_right, Nat.mod_eq_of_lt ha']
  have h3 : (b * dB + b') / dB = b := by
    rw [Nat.add_comm, Nat.add_mul_div_right _ _ hB, Nat.div_eq_of_lt hb', Nat.zero_add]
  have h4 : (b * dB + b') % dB = b' := by
    rw [Nat.add_comm, Nat.add_mul_mod_self_right, Nat.mod_eq_of_lt hb']
  rw [h1, h2, h3, h4]

/-- the executable Schmidt rank of the mirror (`np.reshape(rho, dim)`) is the executable rank of the amplitude matrix -/
theorem schmidtRankVec_eq_spec (dA dB : Nat) (ψ : Nat → QI) : schmidtRankVec dA dB ψ = schmidtRankSpec dA dB ψ :=
  rankQ_congr dA dB _ _ (fun a b _ _ => reshapeDim_eq_ampMat dA dB ψ a b)

/-- the executable operator Schmidt rank of the mirror is the executable rank of the realigned matrix -/
theorem schmidtRankOp_eq_spec (dA dB : Nat) (ρ : Nat → Nat → QI) (hA : 0 < dA) (hB : 0 < dB) :
    schmidtRankOp dA dB ρ = schmidtRankOpSpec dA dB ρ :=
  rankQ_congr _ _ _ _ (fun i j hi hj => operatorAmp_eq_realign dA dB ρ hA hB i j hi hj)

example : operatorAmp 2 3 (fun i j => 100 * i + j) 1 5 = 100 * (0 * 3 + 1) + (1 * 3 + 2) := by decide

/-! ## local operations and the Schmidt rank -/

/-- **Amplitude matrix of a locally rotated vector.**  `(U ⊗ V) ψ` has amplitude matrix `U · A · Vᵀ`
    (any commutative semiring, all — also unequal and rectangular — sizes). -/
theorem amplitude_local_unitary {α : Type} [CommSemiring α] (dA dB dA' dB' : Nat) (U V : Nat → Nat → α) (ψ : Nat → α)
    (hB' : 0 < dB') :
    toM dA dB (ampMat dB (kronApply dB dA' dB' U V ψ))
      = toM dA dA' U * toM dA' dB' (ampMat dB' ψ) * (toM dB dB' V)ᵀ :=
  toM_ampMat_kronApply dA dB dA' dB' U V ψ hB'

/-- **Schmidt rank is invariant under local invertible maps** (in particular local unitaries). -/
theorem schmidtRank_local_invariant {K : Type} [Field K] {m n : Nat} (U : Matrix (Fin m) (Fin m) K)
    (V : Matrix (Fin n) (Fin n) K) (A : Matrix (Fin m) (Fin n) K) (hU : IsUnit U.det) (hV : IsUnit V.det) :
    (U * A * Vᵀ).rank = A.rank := by
  have hVt : IsUnit Vᵀ.det := by rwa [Matrix.det_transpose]
  rw [Matrix.rank_mul_eq_left_of_isUnit_det Vᵀ (U * A) hVt, Matrix.rank_mul_eq_right_of_isUnit_det U A hU]

/-- the invertibility hypotheses are satisfiable by a non-trivial matrix -/
example : IsUnit (!![0, 1; 1, 0] : Matrix (Fin 2) (Fin 2) ℚ).det := by simp [Matrix.det_fin_two]

/-- **Schmidt rank counts the non-zero Schmidt coefficients.**  The amplitude matrix of `Σ_i s_i |i i⟩` in
    `C^{dA} ⊗ C^{dB}` (rectangular diagonal, unequal dimensions allowed, complex `s_i` allowed) has rank
    `#{a < min(dA, dB) : s_a ≠ 0}`. -/
theorem schmidtRank_planted (dA dB : Nat) (s : Nat → ℂ) :
    (planted dA dB s).rank = Fintype.card {a : Fin dA // a.val < dB ∧ s a.val ≠ 0} := by
  classical
  rw [← Matrix.rank_self_mul_conjTranspose, planted_mul_ct, Matrix.rank_diagonal]
  apply Fintype.card_congr
  apply Equiv.subtypeEquivRight
  intro a
  by_cases hlt : a.val < dB
  · simp [hlt]
  · simp [hlt]

/-- **Closed form of the Schmidt rank of a planted state.**  For `ψ = (U ⊗ V) Σ_i s_i |i i⟩` with invertible (e.g. unitary)
    `U`, `V` the rank of the amplitude matrix `U · planted s · Vᵀ` is the number of non-zero `s_i`. -/
theorem schmidtRank_closed_form (dA dB : Nat) (s : Nat → ℂ) (U : Matrix (Fin dA) (Fin dA) ℂ) (V : Matrix (Fin dB) (Fin dB) ℂ)
    (hU : IsUnit U.det) (hV : IsUnit V.det) :
    (U * planted dA dB s * Vᵀ).rank = Fintype.card {a : Fin dA // a.val < dB ∧ s a.val ≠ 0} := by
  rw [schmidtRank_local_invariant U V _ hU hV, schmidtRank_planted]

/-- **Realignment is covariant under local operations**: the realigned matrix of `(U ⊗ V) ρ (U ⊗ V)ᴴ` is
    `(U ⊗ Ū) · R(ρ) · (V ⊗ V̄)ᵀ` (all dimensions, any commutative star ring). -/
theorem realign_local_unitary {R : Type} [CommRing R] [StarRing R] {m n : Type} [Fintype m] [Fintype n]
    (U : Matrix m m R) (V : Matrix n n R) (ρ : Matrix (m × n) (m × n) R) :
    realign ((U ⊗ₖ V) * ρ * (U ⊗ₖ V)ᴴ) = (U ⊗ₖ U.map star) * realign ρ * (V ⊗ₖ V.map star)ᵀ := by
  ext ⟨a, a'⟩ ⟨b, b'⟩
  simp only [realign, Matrix.mul_apply, Matrix.conjTranspose_apply, Matrix.transpose_apply, Matrix.kroneckerMap_apply,
    Matrix.map_apply, Fintype.sum_prod_type, Finset.sum_mul, star_mul']
  refine (sum4_perm (fun c d c' d' => U a c * V b d * ρ (c, d) (c', d') * (star (U a' c') * star (V b' d')))).trans ?_
  apply Finset.sum_congr rfl; intro d _
  apply Finset.sum_congr rfl; intro d' _
  apply Finset.sum_congr rfl; intro c _
  apply Finset.sum_congr rfl; intro c' _
  ring

/-- **Operator Schmidt rank is invariant under local invertible conjugations** (in particular local unitaries): the realigned matrices
    of `ρ` and `(U ⊗ V) ρ (U ⊗ V)ᴴ` have the same rank. -/
theorem operatorSchmidtRank_local_invariant {K : Type} [Field K] [StarRing K] {m n : Type} [Fintype m] [Fintype n] [DecidableEq m] [DecidableEq n]
    (U : Matrix m m K) (V : Matrix n n K) (ρ : Matrix (m × n) (m × n) K) (hU : IsUnit U.det) (hV : IsUnit V.det) :
    (realign ((U ⊗ₖ V) * ρ * (U ⊗ₖ V)ᴴ)).rank = (realign ρ).rank := by
  rw [realign_local_unitary]
  have h1 := isUnit_det_kron_conj U hU
  have h2 : IsUnit ((V ⊗ₖ V.map star)ᵀ).det := by rw [Matrix.det_transpose]; exact isUnit_det_kron_conj V hV
  rw [Matrix.rank_mul_eq_left_of_isUnit_det _ _ h2, Matrix.rank_mul_eq_right_of_isUnit_det _ _ h1]

/-! ## the product test -/

/-- the executable test `minorsVanish` decides exactly that all 2×2 minors of the `r × c` block vanish -/
theorem minorsVanish_iff {α : Type} [Mul α] [DecidableEq α] (r c : Nat) (A : Nat → Nat → α) :
    minorsVanish r c A = true ↔ MinorsVanish (toM r c A) := by
  unfold minorsVanish MinorsVanish toM
  simp only [allBelow_iff, decide_eq_true_eq]
  constructor
  · intro h a a' b b'
    exact h a.val a.isLt a'.val a'.isLt b.val b.isLt b'.val b'.isLt
  · intro h a ha a' ha' b hb b' hb'
    exact h ⟨a, ha⟩ ⟨a', ha'⟩ ⟨b, hb⟩ ⟨b', hb'⟩

/-- **Product vectors are exactly those with vanishing 2×2 minors** (any field, all sizes): `A = x yᵀ` for some `x`, `y`
    iff `A[a,b]·A[a',b'] = A[a,b']·A[a',b]` for all index pairs. -/
theorem isProduct_iff_minors {K : Type} [Field K] {m n : Type} (A : Matrix m n K) :
    IsProductAmp A ↔ MinorsVanish A := by
  constructor
  · rintro ⟨x, y, h⟩ a a' b b'
    rw [h, h, h, h]; ring
  · intro h
    by_cases h0 : ∀ a b, A a b = 0
    · exact ⟨fun _ => 0, fun _ => 0, fun a b => by rw [h0 a b]; simp⟩
    · simp only [not_forall] at h0
      obtain ⟨a0, b0, hne⟩ := h0
      refine ⟨fun a => A a b0 / A a0 b0, fun b => A a0 b, fun a b => ?_⟩
      have := h a a0 b b0
      show A a b = A a b0 / A a0 b0 * A a0 b
      rw [div_mul_eq_mul_div, eq_div_iff hne, this]

/-- the amplitude matrix of `x ⊗ y` is `x yᵀ` -/
theorem ampMat_kron {α : Type} [Mul α] (dB : Nat) (x y : Nat → α) (a b : Nat) (hb : b < dB) :
    ampMat dB (fun i => x (i / dB) * y (i % dB)) a b = x a * y b := by
  have hB : 0 < dB := Nat.lt_of_le_of_lt (Nat.zero_le _) hb
  unfold ampMat
  show x ((a * dB + b) / dB) * y ((a * dB + b) % dB) = _
  rw [Nat.add_comm, Nat.add_mul_div_right _ _ hB, Nat.div_eq_of_lt hb, Nat.zero_add,
    Nat.add_mul_mod_self_right, Nat.mod_eq_of_lt hb]

/-- a product vector has Schmidt rank at most one -/
theorem schmidtRank_product_le_one {K : Type} [Field K] {m n : Nat} (A : Matrix (Fin m) (Fin n) K) (h : IsProductAmp A) :
    A.rank ≤ 1 := by
  obtain ⟨x, y, hxy⟩ := h
  have : A = Matrix.vecMulVec x y := by
    ext a b; rw [hxy a b]; rfl
  rw [this]
  exact Matrix.rank_vecMulVec_le x y

/-! ## invariance under unitaries: purity and spectrum -/

/-- **Purity is unitarily invariant**: `tr((UρUᴴ)²) = tr(ρ²)` whenever `UᴴU = 1` (any commutative star ring). -/
theorem purity_unitary_invariant {R : Type} [CommRing R] [StarRing R] {n : Type} [Fintype n] [DecidableEq n]
    (U ρ : Matrix n n R) (hU : Uᴴ * U = 1) :
    ((U * ρ * Uᴴ) * (U * ρ * Uᴴ)).trace = (ρ * ρ).trace := by
  have h1 : (U * ρ * Uᴴ) * (U * ρ * Uᴴ) = U * (ρ * ρ) * Uᴴ := by
    calc (U * ρ * Uᴴ) * (U * ρ * Uᴴ) = U * ρ * (Uᴴ * U) * ρ * Uᴴ := by simp only [Matrix.mul_assoc]
      _ = U * (ρ * ρ) * Uᴴ := by rw [hU]; simp only [Matrix.mul_one, Matrix.mul_assoc]
  rw [h1, Matrix.trace_mul_cycle, hU, Matrix.one_mul]

/-- **The spectrum is unitarily invariant**: `UρUᴴ` and `ρ` have the same characteristic polynomial (hence the same
    eigenvalues with multiplicity, hence the same von Neumann entropy, purity and rank). -/
theorem charpoly_unitary_invariant {R : Type} [CommRing R] [StarRing R] {n : Type} [Fintype n] [DecidableEq n]
    (U ρ : Matrix n n R) (hU : Uᴴ * U = 1) :
    (U * ρ * Uᴴ).charpoly = ρ.charpoly := by
  rw [Matrix.mul_assoc, Matrix.charpoly_mul_comm, Matrix.mul_assoc, hU, Matrix.mul_one]

/-- **Spectrum of a planted mixed state.**  `ρ = U·diag(q)·Uᴴ` with unitary `U` has characteristic polynomial `Π_i (X − q_i)`: its
    eigenvalues are exactly the planted `q_i`, so its von Neumann entropy is `H(q)` and its purity `Σ q_i²`. -/
theorem charpoly_planted_spectrum {R : Type} [CommRing R] [StarRing R] {n : Type} [Fintype n] [DecidableEq n]
    (U : Matrix n n R) (q : n → R) (hU : Uᴴ * U = 1) :
    (U * Matrix.diagonal q * Uᴴ).charpoly = ∏ i, (Polynomial.X - Polynomial.C (q i)) := by
  rw [charpoly_unitary_invariant U _ hU, Matrix.charpoly_diagonal]

/-- the executable purity is `tr ρ²` -/
theorem purityM_eq_trace {R : Type} [CommSemiring R] (n : Nat) (ρ : Nat → Nat → R) :
    purityM n ρ = (toM n n ρ * toM n n ρ).trace := by
  unfold purityM
  rw [sumN_eq_fin, Matrix.trace]
  apply Finset.sum_congr rfl
  intro i _
  rw [sumN_eq_fin]
  rfl

/-! ## entropy -/

/-- **Entropy is additive on products.**  For probability vectors `p`, `q` (any lengths) the entropy `−Σ x log x` of the
    product distribution `(p_i q_j)` — the spectrum of `ρ ⊗ σ` — is `H(p) + H(q)`. -/
theorem entropy_additive {ι κ : Type} [Fintype ι] [Fintype κ] (p : ι → ℝ) (q : κ → ℝ)
    (hp : ∑ i, p i = 1) (hq : ∑ j, q j = 1) :
    shannon (fun x : ι × κ => p x.1 * q x.2) = shannon p + shannon q := by
  unfold shannon
  rw [Fintype.sum_prod_type]
  simp only [Real.negMulLog_mul, Finset.sum_add_distrib, ← Finset.mul_sum, ← Finset.sum_mul]
  rw [hq, hp]
  simp

/-- probability vectors exist: `(1/2, 1/2)` -/
example : ∑ i : Fin 2, (fun _ => (1 / 2 : ℝ)) i = 1 := by simp

/-! ## partial transpose and negativity -/

/-- the executable partial transpose `pTB` (used by the driver) exchanges the second-factor digits of row and column index -/
theorem pTB_entry {α : Type} (dB : Nat) (X : Nat → Nat → α) (a b a' b' : Nat) (hb : b < dB) (hb' : b' < dB) :
    pTB dB X (a * dB + b) (a' * dB + b') = X (a * dB + b') (a' * dB + b) := by
  have hB : 0 < dB := Nat.lt_of_le_of_lt (Nat.zero_le _) hb
  unfold pTB
  have h1 : (a * dB + b) / dB = a := by
    rw [Nat.add_comm, Nat.add_mul_div_right _ _ hB, Nat.div_eq_of_lt hb, Nat.zero_add]
  have h2 : (a * dB + b) % dB = b := by
    rw [Nat.add_comm, Nat.add_mul_mod_self_right, Nat.mod_eq_of_lt hb]
  have h3 : (a' * dB + b') / dB = a' := by
    rw [Nat.add_comm, Nat.add_mul_div_right _ _ hB, Nat.div_eq_of_lt hb', Nat.zero_add]
  have h4 : (a' * dB + b') % dB = b' := by
    rw [Nat.add_comm, Nat.add_mul_mod_self_right, Nat.mod_eq_of_lt hb']
  rw [h1, h2, h3, h4]



/-- **Partial transpose is covariant under local operations.**  For all (not necessarily unitary) `U`, `V` and every operator `ρ`
    on `C^m ⊗ C^n` (all dimensions, any commutative star ring):
    `((U ⊗ V) ρ (U ⊗ V)ᴴ)^{T_B} = (U ⊗ V̄) ρ^{T_B} (U ⊗ V̄)ᴴ`.  For unitary `U`, `V` the right-hand side is a unitary conjugation, so
    the singular values of `ρ^{T_B}` — hence trace norm, negativity and log-negativity — are invariant under local unitaries. -/
theorem pT_local_unitary {R : Type} [CommRing R] [StarRing R] {m n : Type} [Fintype m] [Fintype n]
    (U : Matrix m m R) (V : Matrix n n R) (ρ : Matrix (m × n) (m × n) R) :
    pT ((Matrix.kroneckerMap (· * ·) U V) * ρ * (Matrix.kroneckerMap (· * ·) U V)ᴴ)
      = (Matrix.kroneckerMap (· * ·) U (V.map star)) * pT ρ * (Matrix.kroneckerMap (· * ·) U (V.map star))ᴴ := by
  ext ⟨a, b⟩ ⟨a', b'⟩
  simp only [pT, Matrix.mul_apply, Matrix.conjTranspose_apply, Matrix.kroneckerMap_apply, Matrix.map_apply,
    Fintype.sum_prod_type, Finset.sum_mul, star_mul', star_star]
  -- LHS: Σ_{c'} Σ_{d'} Σ_c Σ_d F ;  RHS: Σ_{c'} Σ_d Σ_c Σ_{d'} F  (same summand after renaming)
  apply Finset.sum_congr rfl; intro c' _
  rw [Finset.sum_comm]
  conv_rhs => rw [Finset.sum_comm]
  apply Finset.sum_congr rfl; intro c _
  rw [Finset.sum_comm]
  apply Finset.sum_congr rfl; intro d _
  apply Finset.sum_congr rfl; intro d' _
  ring

/-- **Gram identity of a partially transposed pure state.**  For every bipartite vector with amplitude matrix `A` (rectangular,
    any dimensions): `(ρ^{T_B})ᴴ ρ^{T_B} = (A Aᴴ) ⊗ (Aᴴ A)`; so the singular values of `ρ^{T_B}` are the products `s_i s_j` of the
    Schmidt coefficients. -/
theorem pT_pure_gram_eq {m n : Type} [Fintype m] [Fintype n] (A : Matrix m n ℂ) :
    (pT (pureOfAmp A))ᴴ * pT (pureOfAmp A) = (A * Aᴴ) ⊗ₖ (Aᴴ * A) :=
  pT_pure_gram A

/-- **Trace norm of the partial transpose of any pure state.**  If `P₁`, `P₂` are positive semidefinite square roots of `A Aᴴ`
    and `Aᴴ A`, then `‖ρ^{T_B}‖₁ = tr P₁ · tr P₂` (= `(Σ_i s_i)²`, the square of the nuclear norm of `A`). -/
theorem traceNorm_pT_pure {m n : Type} [Fintype m] [Fintype n] [DecidableEq m] [DecidableEq n] (A : Matrix m n ℂ)
    (P₁ : Matrix m m ℂ) (P₂ : Matrix n n ℂ) (h₁ : P₁.PosSemidef) (h₂ : P₂.PosSemidef)
    (e₁ : P₁ * P₁ = A * Aᴴ) (e₂ : P₂ * P₂ = Aᴴ * A) :
    traceNorm (pT (pureOfAmp A)) = P₁.trace * P₂.trace := by
  unfold traceNorm
  have hsq : (P₁ ⊗ₖ P₂) * (P₁ ⊗ₖ P₂) = (pT (pureOfAmp A))ᴴ * pT (pureOfAmp A) := by
    rw [pT_pure_gram, ← Matrix.mul_kronecker_mul, e₁, e₂]
  rw [CFC.sqrt_unique hsq (h₁.kronecker h₂).nonneg, Matrix.trace_kronecker]

/-- **Negativity closed form, all local dimensions, all local unitaries.**  For `ψ = (U ⊗ V) Σ_i s_i |i i⟩` with `s_i ≥ 0` and unitary
    `U` (`dA × dA`), `V` (`dB × dB`), `dA ≠ dB` allowed: `‖(|ψ⟩⟨ψ|)^{T_B}‖₁ = (Σ_{i < min(dA,dB)} s_i)²`.  Hence negativity
    `= ((Σ s_i)² − 1)/2` and log-negativity `= log₂ (Σ s_i)²`, the values the harness compares `negativity` / `log_negativity` with. -/
theorem negativity_planted (dA dB : Nat) (s : Nat → ℝ) (hs : ∀ i, 0 ≤ s i)
    (U : Matrix (Fin dA) (Fin dA) ℂ) (V : Matrix (Fin dB) (Fin dB) ℂ) (hU : Uᴴ * U = 1) (hV : Vᴴ * V = 1) :
    traceNorm (pT (pureOfAmp (U * planted dA dB (fun i => (s i : ℂ)) * Vᵀ)))
      = (((∑ i ∈ Finset.range (min dA dB), s i) ^ 2 : ℝ) : ℂ) := by
  set D := planted dA dB (fun i => (s i : ℂ)) with hD
  obtain ⟨W, hW⟩ : ∃ W : Matrix (Fin dB) (Fin dB) ℂ, W = Vᵀᴴ := ⟨_, rfl⟩
  have hWW : Wᴴ * W = 1 := by
    rw [hW, Matrix.conjTranspose_conjTranspose]
    have : (Vᴴ * V)ᵀ = 1 := by rw [hV, Matrix.transpose_one]
    rw [Matrix.transpose_mul] at this
    rw [← this]
    rfl
  have hA : U * D * Vᵀ = U * D * Wᴴ := by rw [hW, Matrix.conjTranspose_conjTranspose]
  set d₁ : Fin dA → ℝ := fun a => if a.val < dB then s a.val else 0 with hd₁
  set d₂ : Fin dB → ℝ := fun b => if b.val < dA then s b.val else 0 with hd₂
  have hd₁n : ∀ i, 0 ≤ d₁ i := fun i => by simp only [hd₁]; split <;> simp [hs]
  have hd₂n : ∀ i, 0 ≤ d₂ i := fun i => by simp only [hd₂]; split <;> simp [hs]
  obtain ⟨p1, q1, t1⟩ := unitary_diag_sqrt U hU d₁ hd₁n
  obtain ⟨p2, q2, t2⟩ := unitary_diag_sqrt W hWW d₂ hd₂n
  have e1 : (U * D * Wᴴ) * (U * D * Wᴴ)ᴴ = U * Matrix.diagonal (fun i => ((d₁ i : ℂ) * (d₁ i : ℂ))) * Uᴴ := by
    rw [Matrix.conjTranspose_mul, Matrix.conjTranspose_mul, Matrix.conjTranspose_conjTranspose]
    calc U * D * Wᴴ * (W * (Dᴴ * Uᴴ)) = U * D * (Wᴴ * W) * Dᴴ * Uᴴ := by simp only [Matrix.mul_assoc]
      _ = U * (D * Dᴴ) * Uᴴ := by rw [hWW]; simp only [Matrix.mul_one, Matrix.mul_assoc]
      _ = _ := by
        rw [hD, planted_mul_ct]
        have hf : (fun a : Fin dA => if a.val < dB then ((s a.val : ℝ) : ℂ) * star ((s a.val : ℝ) : ℂ) else 0)
            = fun i => ((d₁ i : ℂ) * (d₁ i : ℂ)) := by
          funext a; by_cases h : a.val < dB <;> simp [hd₁, h]
        rw [hf]
  have e2 : (U * D * Wᴴ)ᴴ * (U * D * Wᴴ) = W * Matrix.diagonal (fun i => ((d₂ i : ℂ) * (d₂ i : ℂ))) * Wᴴ := by
    rw [Matrix.conjTranspose_mul, Matrix.conjTranspose_mul, Matrix.conjTranspose_conjTranspose]
    calc W * (Dᴴ * Uᴴ) * (U * D * Wᴴ) = W * Dᴴ * (Uᴴ * U) * D * Wᴴ := by simp only [Matrix.mul_assoc]
      _ = W * (Dᴴ * D) * Wᴴ := by rw [hU]; simp only [Matrix.mul_one, Matrix.mul_assoc]
      _ = _ := by
        rw [hD, planted_ct_mul]
        have hf : (fun b : Fin dB => if b.val < dA then star ((s b.val : ℝ) : ℂ) * ((s b.val : ℝ) : ℂ) else 0)
            = fun i => ((d₂ i : ℂ) * (d₂ i : ℂ)) := by
          funext b; by_cases h : b.val < dA <;> simp [hd₂, h]
        rw [hf]
  rw [hA, traceNorm_pT_pure _ _ _ p1 p2 (q1.trans e1.symm) (q2.trans e2.symm), t1, t2]
  have s1 := sum_fin_lt dA dB s
  have s2 := sum_fin_lt dB dA s
  rw [Nat.min_comm] at s2
  simp only [hd₁, hd₂]
  rw [s1, s2, sq]
  push_cast
  rfl

/-- the unitarity hypotheses are satisfiable by a non-trivial matrix (the swap of the two basis vectors) -/
example : (!![0, 1; 1, 0] : Matrix (Fin 2) (Fin 2) ℂ)ᴴ * !![0, 1; 1, 0] = 1 := by
  ext i j; fin_cases i <;> fin_cases j <;> simp [Matrix.mul_apply, Fin.sum_univ_two]

/-! ## entanglement of formation of pure states -/

/-- the reduced state of a pure state with amplitude matrix `A` is `A Aᴴ` -/
theorem reduced_state_eq {m n : Type} [Fintype n] (A : Matrix m n ℂ) (a a' : m) :
    ∑ b, pureOfAmp A (a, b) (a', b) = (A * Aᴴ) a a' := by
  simp [pureOfAmp, Matrix.mul_apply, Matrix.conjTranspose_apply]

/-- **Entanglement of formation of a planted state.**  The reduced state `A Aᴴ` of `ψ = (U ⊗ V) Σ_i s_i |i i⟩` (unitary `U`, `V`, unequal
    dimensions allowed) has characteristic polynomial `Π_a (X − s_a²)` (with `s_a = 0` for `a ≥ dB`): its eigenvalues are the squared Schmidt
    coefficients, so `entanglement_of_formation` (the entropy of the reduced state) is `H({s_i²})`. -/
theorem eof_spectrum_planted (dA dB : Nat) (s : Nat → ℝ)
    (U : Matrix (Fin dA) (Fin dA) ℂ) (V : Matrix (Fin dB) (Fin dB) ℂ) (hU : Uᴴ * U = 1) (hV : Vᴴ * V = 1) :
    ((U * planted dA dB (fun i => (s i : ℂ)) * Vᵀ) * (U * planted dA dB (fun i => (s i : ℂ)) * Vᵀ)ᴴ).charpoly
      = ∏ a : Fin dA, (Polynomial.X - Polynomial.C (if a.val < dB then ((s a.val : ℂ)) * star ((s a.val : ℂ)) else 0)) := by
  have hVV : Vᵀ * Vᵀᴴ = 1 := by
    have : (Vᴴ * V)ᵀ = 1 := by rw [hV, Matrix.transpose_one]
    rw [Matrix.transpose_mul] at this
    rw [← this]; rfl
  have : (U * planted dA dB (fun i => (s i : ℂ)) * Vᵀ) * (U * planted dA dB (fun i => (s i : ℂ)) * Vᵀ)ᴴ
      = U * (planted dA dB (fun i => (s i : ℂ)) * (planted dA dB (fun i => (s i : ℂ)))ᴴ) * Uᴴ := by
    rw [Matrix.conjTranspose_mul, Matrix.conjTranspose_mul]
    calc U * planted dA dB (fun i => (s i : ℂ)) * Vᵀ * (Vᵀᴴ * ((planted dA dB fun i => (s i : ℂ))ᴴ * Uᴴ))
        = U * planted dA dB (fun i => (s i : ℂ)) * (Vᵀ * Vᵀᴴ) * (planted dA dB fun i => (s i : ℂ))ᴴ * Uᴴ := by
          simp only [Matrix.mul_assoc]
      _ = _ := by rw [hVV]; simp only [Matrix.mul_one, Matrix.mul_assoc]
  rw [this, planted_mul_ct, charpoly_planted_spectrum U _ hU]

/-! ## verified rank certificates (exact oracle of the Schmidt rank used by the harness) -/

/-- **Rank certificate soundness.**  If the executable checker accepts `(B, C, L, R)` for the exact matrix `A` — i.e. `A = B·C` with inner
    size `r` and `L·A·R = 1_r`, both verified by exact arithmetic over `ℚ[i]` — then the rank of `A` (as a complex matrix) is `r`. -/
theorem rankCert_sound {n m r : Nat} (A : EMat n m) (B : EMat n r) (C : EMat r m) (L : EMat r n) (R : EMat m r)
    (h : rankCert A B C L R = true) : A.toM.rank = r := by
  unfold rankCert at h
  rw [Bool.and_eq_true] at h
  have h1 := EMat.beq_sound _ _ h.1
  have h2 := EMat.beq_sound _ _ h.2
  rw [EMat.toM_mul] at h1
  rw [EMat.toM_mul, EMat.toM_mul, EMat.toM_one] at h2
  apply le_antisymm
  · rw [h1]
    exact (Matrix.rank_mul_le_left _ _).trans (Matrix.rank_le_width _)
  · have : (1 : Matrix (Fin r) (Fin r) ℂ).rank = r := by rw [Matrix.rank_one, Fintype.card_fin]
    rw [← this, ← h2]
    exact (Matrix.rank_mul_le_left _ _).trans (Matrix.rank_mul_le_right _ _)

/-- a certificate that is accepted: the rank-one matrix `[[1,2,3],[2,4,6]]` -/
example : rankCert (EMat.ofFn (n := 2) (m := 3) fun i j => QI.ofRat ((i.val + 1) * (j.val + 1) : Nat))
    (EMat.ofFn (n := 2) (m := 1) fun i _ => QI.ofRat ((i.val + 1 : Nat))) (EMat.ofFn (n := 1) (m := 3) fun _ j => QI.ofRat ((j.val + 1 : Nat)))
    (EMat.ofFn (n := 1) (m := 2) fun _ j => if j.val = 0 then 1 else 0) (EMat.ofFn (n := 3) (m := 1) fun i _ => if i.val = 0 then 1 else 0) = true := by
  decide +kernel


/-! ## S(k) vector norm: the sum of the k largest squared Schmidt coefficients -/

/-- for `k ≥` the number of coefficients the value is the full sum (the `k >= min(dim)` shortcut of `sk_vector_norm`) -/
theorem skVecNormSq_full (p : List Rat) (k : Nat) (hk : p.length ≤ k) : skVecNormSq p k = sumQ p := by
  unfold skVecNormSq
  rw [List.take_of_length_le (by rw [List.length_mergeSort]; exact hk), sumQ_eq_sum, sumQ_eq_sum]
  exact (List.mergeSort_perm p _).sum_eq

/-- monotone in `k` (squared coefficients are non-negative) -/
theorem skVecNormSq_mono (p : List Rat) (hp : ∀ x ∈ p, 0 ≤ x) (k : Nat) : skVecNormSq p k ≤ skVecNormSq p (k + 1) := by
  unfold skVecNormSq
  rw [sumQ_eq_sum, sumQ_eq_sum]
  set l := p.mergeSort fun a b => decide (b ≤ a) with hl
  by_cases hk : k < l.length
  · rw [List.sum_take_succ l k hk]
    have : 0 ≤ l[k] := hp _ ((List.mergeSort_perm p _).mem_iff.mp (List.getElem_mem hk))
    linarith
  · rw [List.take_of_length_le (by omega), List.take_of_length_le (by omega)]

/-- **`skVecNormSq p k` is the maximum over sub-multisets of at most `k` entries**: every such sub-multiset has a sum `≤` the value … -/
theorem skVecNormSq_max (p : List Rat) (hp : ∀ x ∈ p, 0 ≤ x) (k : Nat) (t : List Rat) (ht : t.Subperm p) (hk : t.length ≤ k) :
    t.sum ≤ skVecNormSq p k := by
  unfold skVecNormSq
  rw [sumQ_eq_sum]
  set l := p.mergeSort fun a b => decide (b ≤ a) with hl
  have hperm : l.Perm p := List.mergeSort_perm p _
  have hsorted : l.Pairwise (fun a b => b ≤ a) := by
    have := List.pairwise_mergeSort (le := fun a b : Rat => decide (b ≤ a))
      (fun a b c hab hbc => by simp only [decide_eq_true_eq] at *; exact le_trans hbc hab)
      (fun a b => by simp only [Bool.or_eq_true, decide_eq_true_eq]; exact le_total b a) p
    simpa using this
  obtain ⟨t', ht'p, ht's⟩ := ht.trans hperm.symm.subperm
  rw [← ht'p.sum_eq]
  exact sublist_sum_le_take l hsorted (fun x hx => hp x (hperm.mem_iff.mp hx)) k t' ht's (by rw [ht'p.length_eq]; exact hk)

/-- … and the value is attained by one of them. -/
theorem skVecNormSq_attained (p : List Rat) (k : Nat) :
    ∃ t : List Rat, t.Subperm p ∧ t.length ≤ k ∧ t.sum = skVecNormSq p k := by
  refine ⟨(p.mergeSort fun a b => decide (b ≤ a)).take k, ?_, ?_, ?_⟩
  · exact (List.take_sublist k _).subperm.trans (List.mergeSort_perm p _).subperm
  · rw [List.length_take]; exact Nat.min_le_left _ _
  · unfold skVecNormSq; rw [sumQ_eq_sum]

example : ∀ x ∈ ([1/9, 4/9, 4/9] : List Rat), 0 ≤ x := by intro x hx; simp at hx; rcases hx with rfl | rfl <;> norm_num
example : negativityClosed [3/5, 4/5] = 12/25 := by decide +kernel

/-! ## two-qubit concurrence of pure states: `2 |det A|` -/

/-- two-qubit pure-state concurrence is `2|det A|`; it is invariant under local unitaries -/
theorem concurrence_pure_local_invariant (U V A : Matrix (Fin 2) (Fin 2) ℂ) (hU : Uᴴ * U = 1) (hV : Vᴴ * V = 1) :
    2 * ‖(U * A * Vᵀ).det‖ = 2 * ‖A.det‖ := by
  rw [Matrix.det_mul, Matrix.det_mul, Matrix.det_transpose, norm_mul, norm_mul, norm_det_of_unitary U hU,
    norm_det_of_unitary V hV, one_mul, mul_one]

theorem concurrence_planted (s : Nat → ℂ) : 2 * ‖(planted 2 2 s).det‖ = 2 * ‖s 0‖ * ‖s 1‖ := by
  rw [Matrix.det_fin_two]
  simp [planted, mul_assoc]

/-- the spin-flip overlap `ψᵀ (σ_y ⊗ σ_y) ψ` of a two-qubit vector is `−2 det A` -/
theorem spinFlip_eq_det (A : Matrix (Fin 2) (Fin 2) ℂ) :
    (∑ p : Fin 2 × Fin 2, ∑ q : Fin 2 × Fin 2,
      A p.1 p.2 * (Matrix.kroneckerMap (· * ·) !![0, -Complex.I; Complex.I, 0] !![0, -Complex.I; Complex.I, 0]) p q * A q.1 q.2)
      = -2 * A.det := by
  rw [Matrix.det_fin_two]
  simp [Fintype.sum_prod_type, Fin.sum_univ_two, Matrix.kroneckerMap_apply]
  ring_nf

/-! ## the exact rank oracle is Mathlib's rank (correctness of the elimination) -/

/-- **The exact rank routine is correct.**  For every size and every matrix over `ℚ[i]`, the executable rank `rankQ n m A`
    (Gaussian elimination, `Toq/Core/Rank.lean`) equals Mathlib's `Matrix.rank` of the complex `n × m` matrix that `A` denotes. -/
theorem rankQ_eq_rank (n m : Nat) (A : Nat → Nat → QI) :
    rankQ n m A = (toM n m fun i j => (A i j).toC).rank :=
  Toq.Rank.rankFn_eq_rank n m A

/-- **`schmidt_rank` (vector branch) returns the Schmidt rank.**  The mirror of the fixed code, `matrix_rank(np.reshape(rho, dim))`
    with the exact rank, equals the rank of the amplitude matrix `A[a,b] = ψ[a·dB + b]` over `ℂ`, for all local dimensions. -/
theorem schmidtRankVec_eq_rank (dA dB : Nat) (ψ : Nat → QI) :
    schmidtRankVec dA dB ψ = (toM dA dB (ampMat dB fun k => (ψ k).toC)).rank := by
  rw [schmidtRankVec_eq_spec]
  exact rankQ_eq_rank dA dB (ampMat dB ψ)

/-- **`schmidt_rank` (operator branch) returns the operator Schmidt rank.**  The mirror of `_operator_schmidt_rank` with the exact
    rank equals the rank over `ℂ` of the realigned matrix `R[(a,a'),(b,b')] = ρ[(a,b),(a',b')]`, for all (also unequal) local dimensions. -/
theorem schmidtRankOp_eq_rank (dA dB : Nat) (ρ : Nat → Nat → QI) (hA : 0 < dA) (hB : 0 < dB) :
    schmidtRankOp dA dB ρ = (toM (dA * dA) (dB * dB) (realignAmp dA dB fun i j => (ρ i j).toC)).rank := by
  rw [schmidtRankOp_eq_spec dA dB ρ hA hB]
  exact rankQ_eq_rank _ _ (realignAmp dA dB ρ)

/-- **The two exact oracles agree.**  Whenever the certificate checker accepts a certificate of rank `r` for `A`, the elimination
    returns `r` on `A` (both are the rank of `A.toM`). -/
theorem rankE_eq_of_rankCert {n m r : Nat} (A : EMat n m) (B : EMat n r) (C : EMat r m) (L : EMat r n) (R : EMat m r)
    (h : rankCert A B C L R = true) : Toq.Rank.rankE A = r := by
  rw [Toq.Rank.rankE_eq_rank]; exact rankCert_sound A B C L R h

/-- the routine on a concrete complex matrix: `[[1, i, 0], [i, -1, 0], [0, 0, 2]]` has rank 2 (the second row is `i` times the first) -/
example : rankQ 3 3 (fun i j => ([[⟨1, 0⟩, ⟨0, 1⟩, 0], [⟨0, 1⟩, ⟨-1, 0⟩, 0], [0, 0, ⟨2, 0⟩]] : List (List QI)).getD i [] |>.getD j 0) = 2 := by
  decide +kernel

/-! ## product operators, invariance of the negativity family, l1 coherence -/

/-- **Product operators are exactly those whose realigned matrix is a product amplitude.**  `X = A ⊗ B` for some `A`, `B` iff the realigned matrix
    `R[(a,a'),(b,b')] = X[(a,b),(a',b')]` is `x yᵀ`; with `isProduct_iff_minors` this is the vanishing of all 2×2 minors of `R`, which is what the executable
    `isProductOp` tests (all dimensions). -/
theorem isProductOp_iff_realign {m n : Type} (X : Matrix (m × n) (m × n) ℂ) :
    (∃ (A : Matrix m m ℂ) (B : Matrix n n ℂ), X = A ⊗ₖ B) ↔ IsProductAmp (realign X) := by
  constructor
  · rintro ⟨A, B, rfl⟩
    exact ⟨fun p => A p.1 p.2, fun q => B q.1 q.2, fun p q => by simp [realign, Matrix.kroneckerMap_apply]⟩
  · rintro ⟨x, y, h⟩
    refine ⟨fun a a' => x (a, a'), fun b b' => y (b, b'), ?_⟩
    ext ⟨a, b⟩ ⟨a', b'⟩
    exact h (a, a') (b, b')

/-- **The trace norm is invariant under unitary conjugation**: `‖U X Uᴴ‖₁ = ‖X‖₁` (the positive square root of `(UXUᴴ)ᴴ(UXUᴴ)` is `U √(XᴴX) Uᴴ`). -/
theorem traceNorm_unitary_conj {ι : Type} [Fintype ι] [DecidableEq ι] (U X : Matrix ι ι ℂ) (hU : Uᴴ * U = 1) :
    traceNorm (U * X * Uᴴ) = traceNorm X := by
  unfold traceNorm
  have hX : (Xᴴ * X).PosSemidef := Matrix.posSemidef_conjTranspose_mul_self X
  set P := CFC.sqrt (Xᴴ * X) with hP
  have hPP : P * P = Xᴴ * X := CFC.sqrt_mul_sqrt_self _ hX.nonneg
  have hPpsd : P.PosSemidef := (CFC.sqrt_nonneg _).posSemidef
  have e : (U * X * Uᴴ)ᴴ * (U * X * Uᴴ) = U * (Xᴴ * X) * Uᴴ := by
    rw [Matrix.conjTranspose_mul, Matrix.conjTranspose_mul, Matrix.conjTranspose_conjTranspose]
    calc U * (Xᴴ * Uᴴ) * (U * X * Uᴴ) = U * Xᴴ * (Uᴴ * U) * X * Uᴴ := by simp only [Matrix.mul_assoc]
      _ = U * (Xᴴ * X) * Uᴴ := by rw [hU]; simp only [Matrix.mul_one, Matrix.mul_assoc]
  have hsq : (U * P * Uᴴ) * (U * P * Uᴴ) = (U * X * Uᴴ)ᴴ * (U * X * Uᴴ) := by
    rw [e, ← hPP]
    calc U * P * Uᴴ * (U * P * Uᴴ) = U * P * (Uᴴ * U) * P * Uᴴ := by simp only [Matrix.mul_assoc]
      _ = U * (P * P) * Uᴴ := by rw [hU]; simp only [Matrix.mul_one, Matrix.mul_assoc]
  rw [CFC.sqrt_unique hsq (hPpsd.mul_mul_conjTranspose_same U).nonneg, Matrix.trace_mul_cycle, hU, Matrix.one_mul]

/-- **Negativity and log-negativity are invariant under local unitaries, for every operator and all local dimensions**: `‖((U ⊗ V) ρ (U ⊗ V)ᴴ)^{T_B}‖₁ = ‖ρ^{T_B}‖₁`
    (covariance `pT_local_unitary` turns the local unitary into the unitary `U ⊗ V̄` acting on `ρ^{T_B}`). -/
theorem negativity_local_invariant {m n : Type} [Fintype m] [Fintype n] [DecidableEq m] [DecidableEq n]
    (U : Matrix m m ℂ) (V : Matrix n n ℂ) (ρ : Matrix (m × n) (m × n) ℂ) (hU : Uᴴ * U = 1) (hV : Vᴴ * V = 1) :
    traceNorm (pT ((U ⊗ₖ V) * ρ * (U ⊗ₖ V)ᴴ)) = traceNorm (pT ρ) := by
  have hVc : (V.map star)ᴴ * V.map star = 1 := by
    have : (V.map star)ᴴ * V.map star = (Vᴴ * V).map star := by
      ext i j
      simp [Matrix.mul_apply, Matrix.map_apply, Matrix.conjTranspose_apply]
    rw [this, hV]
    ext i j; by_cases h : i = j <;> simp [Matrix.one_apply, h]
  have hW : (U ⊗ₖ V.map star)ᴴ * (U ⊗ₖ V.map star) = 1 := by
    rw [Matrix.conjTranspose_kronecker, ← Matrix.mul_kronecker_mul, hU, hVc, Matrix.one_kronecker_one]
  have := pT_local_unitary U V ρ
  rw [show (Matrix.kroneckerMap (· * ·) U V) = U ⊗ₖ V from rfl] at this
  rw [this]
  exact traceNorm_unitary_conj _ _ hW

/-- **`l1_norm_coherence` computes the sum of the moduli of the off-diagonal entries.**  The code returns `Σ_{ij} |ρ_ij| − tr ρ`; for a positive semidefinite `ρ` (real
    non-negative diagonal) this is `Σ_{i≠j} |ρ_ij|`. -/
theorem l1_coherence_mirror {n : Type} [Fintype n] [DecidableEq n] (ρ : Matrix n n ℂ) (hρ : ρ.PosSemidef) :
    (∑ i, ∑ j, ‖ρ i j‖) - (ρ.trace).re = ∑ i, ∑ j ∈ Finset.univ.erase i, ‖ρ i j‖ := by
  have hd : ∀ i, ‖ρ i i‖ = (ρ i i).re := by
    intro i
    have h := hρ.diag_nonneg (i := i)
    obtain ⟨h1, h2⟩ := Complex.nonneg_iff.mp h
    have : ρ i i = ((ρ i i).re : ℂ) := by apply Complex.ext <;> simp [← h2]
    rw [this, Complex.norm_real, Real.norm_of_nonneg h1]; simp
  have : ∀ i, ∑ j, ‖ρ i j‖ = (ρ i i).re + ∑ j ∈ Finset.univ.erase i, ‖ρ i j‖ := by
    intro i
    rw [← Finset.add_sum_erase _ _ (Finset.mem_univ i), hd]
  simp only [this, Finset.sum_add_distrib, Matrix.trace, Matrix.diag, Complex.re_sum]
  ring

/-- for a pure state the off-diagonal moduli sum to `(Σ_i |ψ_i|)² − Σ_i |ψ_i|²` (the closed form the harness compares with) -/
theorem l1_coherence_pure {n : Type} [Fintype n] [DecidableEq n] (ψ : n → ℂ) :
    ∑ i, ∑ j ∈ Finset.univ.erase i, ‖ketbra ψ i j‖ = (∑ i, ‖ψ i‖) ^ 2 - ∑ i, ‖ψ i‖ ^ 2 := by
  have h1 : ∀ i j, ‖ketbra ψ i j‖ = ‖ψ i‖ * ‖ψ j‖ := by
    intro i j; simp [ketbra, Matrix.vecMulVec_apply]
  have h2 : (∑ i, ‖ψ i‖) ^ 2 = ∑ i, (‖ψ i‖ ^ 2 + ∑ j ∈ Finset.univ.erase i, ‖ψ i‖ * ‖ψ j‖) := by
    rw [sq, Finset.sum_mul_sum]
    refine Finset.sum_congr rfl fun i _ => ?_
    rw [← Finset.add_sum_erase _ _ (Finset.mem_univ i), sq]
  simp only [h1]
  rw [h2, Finset.sum_add_distrib]
  ring

/-! ## the dimension argument -/

/-- `round(sqrt(d²)) = d` -/
theorem roundSqrt_sq (d : Nat) : roundSqrt (d * d) = d := by
  unfold roundSqrt
  simp [Nat.sqrt_eq]

/-- **`dim` given as a single integer.**  For a vector of length `dA·dB` the argument `dim = dA` is normalised to `[dA, dB]`. -/
theorem resolveDim_scalar (dA dB : Nat) (hA : 0 < dA) : resolveDim (dA * dB) (.scalar dA) = some (dA, dB) := by
  show (if dA = 0 then none else some (dA, dA * dB / dA)) = some (dA, dB)
  rw [if_neg (Nat.pos_iff_ne_zero.mp hA), Nat.mul_div_cancel_left dB hA]

/-- **`dim` omitted.**  For a vector of length `d²` the default is `[d, d]`. -/
theorem resolveDim_omitted (d : Nat) (hd : 0 < d) : resolveDim (d * d) .omitted = some (d, d) := by
  show (if roundSqrt (d * d) = 0 then none else some (roundSqrt (d * d), d * d / roundSqrt (d * d))) = some (d, d)
  rw [roundSqrt_sq, if_neg (Nat.pos_iff_ne_zero.mp hd), Nat.mul_div_cancel_left d hd]

/-- **Every accepted form of `dim` gives the same Schmidt rank**: the mirror of `schmidt_rank` with the raw argument (integer `dA`, the pair, or omitted for equal
    dimensions) returns the rank of the `dA × dB` amplitude matrix. -/
theorem schmidtRankArg_scalar (dA dB : Nat) (hA : 0 < dA) (ψ : Nat → QI) :
    schmidtRankArg (dA * dB) (.scalar dA) ψ = some (schmidtRankSpec dA dB ψ) := by
  unfold schmidtRankArg
  rw [resolveDim_scalar dA dB hA, Option.map_some, schmidtRankVec_eq_spec]

theorem schmidtRankArg_pair (N dA dB : Nat) (ψ : Nat → QI) :
    schmidtRankArg N (.pair dA dB) ψ = some (schmidtRankSpec dA dB ψ) := by
  show (some (dA, dB)).map (fun d => schmidtRankVec d.1 d.2 ψ) = _
  rw [Option.map_some, schmidtRankVec_eq_spec]

theorem schmidtRankArg_omitted (d : Nat) (hd : 0 < d) (ψ : Nat → QI) :
    schmidtRankArg (d * d) .omitted ψ = some (schmidtRankSpec d d ψ) := by
  unfold schmidtRankArg
  rw [resolveDim_omitted d hd, Option.map_some, schmidtRankVec_eq_spec]

/-- the same for the operator Schmidt rank (`_operator_schmidt_rank` resolves a 1-D `dim` in the same way and uses it for rows and columns) -/
theorem schmidtRankOpArg_scalar (dA dB : Nat) (hA : 0 < dA) (hB : 0 < dB) (ρ : Nat → Nat → QI) :
    schmidtRankOpArg (dA * dB) (.scalar dA) ρ = some (schmidtRankOpSpec dA dB ρ) := by
  unfold schmidtRankOpArg
  rw [resolveDim_scalar dA dB hA, Option.map_some, schmidtRankOp_eq_spec dA dB ρ hA hB]

theorem schmidtRankOpArg_omitted (d : Nat) (hd : 0 < d) (ρ : Nat → Nat → QI) :
    schmidtRankOpArg (d * d) .omitted ρ = some (schmidtRankOpSpec d d ρ) := by
  unfold schmidtRankOpArg
  rw [resolveDim_omitted d hd, Option.map_some, schmidtRankOp_eq_spec d d ρ hd hd]

example : resolveDim 12 (.scalar 3) = some (3, 4) := resolveDim_scalar 3 4 (by decide)
example : resolveDim 9 .omitted = some (3, 3) := resolveDim_omitted 3 (by decide)
/-- rounding, not truncation: `√12 ≈ 3.46 → 3`, `√13 ≈ 3.61 → 4` -/
example : roundSqrt 12 = 3 ∧ roundSqrt 13 = 4 := by
  have h12 : Nat.sqrt 12 = 3 := (Nat.eq_sqrt.mpr ⟨by norm_num, by norm_num⟩).symm
  have h13 : Nat.sqrt 13 = 3 := (Nat.eq_sqrt.mpr ⟨by norm_num, by norm_num⟩).symm
  simp [roundSqrt, h12, h13]

/-! ## S(k) operator norm: the bracket clause, certified on both sides

`sk_operator_norm(X, k)` returns `(lo, hi)`; the clause says that they bracket the values `⟨v|X|v⟩` attained by unit vectors `v` of Schmidt rank
at most `k` (`skValues k X`; for positive semidefinite `X` their supremum is the S(k) norm, see `sk_bilinear_le`).  Vectors are functions on
pairs `(a, b)`, operators matrices on pairs; `Toq.Sep.unflat` reads a flat matrix (index `a·dB + b`, toqito's convention) on pairs. -/

/-- **The class of vectors is the right one.**  `v` is a sum of `k` product terms with pairwise orthogonal second factors iff its amplitude matrix
    has rank `≤ k` (the Schmidt rank of the theorems above), for all local dimensions. -/
theorem schmidtLE_iff_rank_le {m n : Type} [Fintype m] [Fintype n] [DecidableEq m] [DecidableEq n] (k : ℕ) (v : m × n → ℂ) :
    SchmidtLE k v ↔ (ampOf v).rank ≤ k :=
  ⟨rank_le_of_schmidtLE v, schmidtLE_of_rank_le v⟩

/-- for `k = 1` these are exactly the product vectors -/
theorem schmidtLE_one_iff_product {m n : Type} [Fintype m] [Fintype n] [DecidableEq m] [DecidableEq n] (v : m × n → ℂ) :
    SchmidtLE 1 v ↔ ∃ x y, v = tprod x y :=
  schmidtLE_one_iff v

/-- **Product projectors stay positive under partial transposition**: `(|x⊗y⟩⟨x⊗y|)^{T_B} = |x⟩⟨x| ⊗ |ȳ⟩⟨ȳ| ⪰ 0`. -/
theorem pT_product_posSemidef {m n : Type} [Fintype m] [Fintype n] [DecidableEq m] [DecidableEq n] (x : m → ℂ) (y : n → ℂ) :
    (pT (ketbra (tprod x y))).PosSemidef :=
  pT_ketbra_tprod_posSemidef x y

/-- **Vectors of Schmidt rank `≤ k` satisfy the reduction-type inequality**: `k·(ρ_A ⊗ 1_B) − ρ ⪰ 0` for `ρ = |v⟩⟨v|`, `ρ_A = tr_B ρ`
    (operator Cauchy–Schwarz over the `k` Schmidt terms, then `‖y‖²·1 − |y⟩⟨y| ⪰ 0` in each term). -/
theorem reduction_schmidt_posSemidef {m n : Type} [Fintype m] [Fintype n] [DecidableEq m] [DecidableEq n] (k : ℕ) (v : m × n → ℂ)
    (hv : SchmidtLE k v) : (redK k (ketbra v)).PosSemidef :=
  redK_ketbra_posSemidef k v hv

/-- **Weak duality, PPT relaxation (k = 1).**  For every operator `X` on `ℂ^m ⊗ ℂ^n`, every `Y ⪰ 0` and real `λ` with `λ·1 − X − Y^{T_B} ⪰ 0`, every
    product vector satisfies `⟨v|X|v⟩ ≤ λ·⟨v|v⟩` (because `(|v⟩⟨v|)^{T_B} ⪰ 0` and `tr(Y^{T_B} M) = tr(Y M^{T_B})`). -/
theorem sk_weak_duality_ppt {m n : Type} [Fintype m] [Fintype n] [DecidableEq m] [DecidableEq n] (X Y : Matrix (m × n) (m × n) ℂ) (lam : ℝ)
    (hY : Y.PosSemidef) (hS : ((lam : ℂ) • (1 : Matrix (m × n) (m × n) ℂ) - X - pT Y).PosSemidef) (x : m → ℂ) (y : n → ℂ) :
    expect X (tprod x y) ≤ lam * vnorm2 (tprod x y) :=
  expect_le_of_ppt_dual X Y lam hY hS x y

/-- **Weak duality, reduction-map relaxation (any k).**  For `Y ⪰ 0` and real `λ` with `λ·1 − X − (k·(tr_B Y) ⊗ 1 − Y) ⪰ 0`, every vector of Schmidt rank
    `≤ k` satisfies `⟨v|X|v⟩ ≤ λ·⟨v|v⟩`. -/
theorem sk_weak_duality_reduction {m n : Type} [Fintype m] [Fintype n] [DecidableEq m] [DecidableEq n] (k : ℕ)
    (X Y : Matrix (m × n) (m × n) ℂ) (lam : ℝ) (hY : Y.PosSemidef)
    (hS : ((lam : ℂ) • (1 : Matrix (m × n) (m × n) ℂ) - X - redK k Y).PosSemidef) (v : m × n → ℂ) (hv : SchmidtLE k v) :
    expect X v ≤ lam * vnorm2 v :=
  expect_le_of_red_dual k X Y lam hY hS v hv

/-- **Upper certificate, k = 1.**  If the executable checker accepts `(Y, LY, λ, LS)` for the exact operator `X`, then every value `⟨v|X|v⟩` attained by a unit
    product vector is `≤` the returned bound. -/
theorem checkSkUpperPPT_sound {dA dB p q : Nat} (X Y : EMat (dA * dB) (dA * dB)) (LY : EMat (dA * dB) p) (lam : Rat)
    (LS : EMat (dA * dB) q) (hi : Rat) (h : checkSkUpperPPT X Y LY lam LS = some hi) :
    ∀ r ∈ skValues 1 (Toq.Sep.unflat X.toM), r ≤ (hi : ℝ) := by
  obtain ⟨rfl, hY, hS⟩ := checkSkUpperPPT_eq h
  have hYp := (Toq.Sep.unflat_posSemidef_iff _).mpr (psdCert_sound _ _ hY)
  have hSp := (Toq.Sep.unflat_posSemidef_iff _).mpr (psdCert_sound _ _ hS)
  rw [unflat_slackPPT] at hSp
  exact skValues_le_of_ppt_dual _ _ _ hYp hSp

/-- **Upper certificate, any k.**  If the executable checker accepts `(Y, LY, λ, LS)` for the exact operator `X` and the index `k`, then every value `⟨v|X|v⟩`
    attained by a unit vector of Schmidt rank `≤ k` is `≤` the returned bound. -/
theorem checkSkUpperRed_sound {dA dB p q : Nat} (k : Nat) (X Y : EMat (dA * dB) (dA * dB)) (LY : EMat (dA * dB) p) (lam : Rat)
    (LS : EMat (dA * dB) q) (hi : Rat) (h : checkSkUpperRed k X Y LY lam LS = some hi) :
    ∀ r ∈ skValues k (Toq.Sep.unflat X.toM), r ≤ (hi : ℝ) := by
  obtain ⟨rfl, hY, hS⟩ := checkSkUpperRed_eq h
  have hYp := (Toq.Sep.unflat_posSemidef_iff _).mpr (psdCert_sound _ _ hY)
  have hSp := (Toq.Sep.unflat_posSemidef_iff _).mpr (psdCert_sound _ _ hS)
  rw [unflat_slackRed] at hSp
  exact skValues_le_of_red_dual k _ _ _ hYp hSp

/-- **Lower certificate.**  If the executable checker accepts the factor matrices `(Xs, Ys)` (`k` columns each, the columns of `Ys` pairwise orthogonal), the
    returned number is a value `⟨v|X|v⟩` attained by a unit vector of Schmidt rank `≤ k` (the normalised `Σ_i x_i ⊗ y_i`). -/
theorem checkSkLower_sound {dA dB k : Nat} (X : EMat (dA * dB) (dA * dB)) (Xs : EMat dA k) (Ys : EMat dB k) (lo : Rat)
    (h : checkSkLower X Xs Ys = some lo) : (lo : ℝ) ∈ skValues k (Toq.Sep.unflat X.toM) := by
  obtain ⟨ho, hpos, rfl⟩ := checkSkLower_eq h
  have hv := skVector_schmidtLE Xs Ys ho
  have hn : ((Toq.Sep.normSqV (skVector Xs Ys) : Rat) : ℝ) = vnorm2 (flatV (Toq.Sep.colV (skVector Xs Ys))) := by
    rw [Toq.Sep.normSqV_cast, ← Toq.Sep.nsq_eq_re, ← vnorm2_eq_nsq, vnorm2_flat]
  have hq : ((Toq.Sep.quadForm X (skVector Xs Ys) : Rat) : ℝ)
      = expect (Toq.Sep.unflat X.toM) (flatV (Toq.Sep.colV (skVector Xs Ys))) := by
    rw [Toq.Sep.quadForm_cast, ← expect_flat]; rfl
  have hp : 0 < vnorm2 (flatV (Toq.Sep.colV (skVector Xs Ys))) := by
    rw [← hn]; exact_mod_cast hpos
  rw [Rat.cast_div, hn, hq]
  exact rayleigh_mem_skValues k _ _ hv hp

/-- **The certified bracket.**  A lower certificate and an upper certificate for the same operator and the same `k` always satisfy `lo ≤ hi`; the harness demands
    `lower bound of toqito ≤ hi + τ` and `upper bound of toqito ≥ lo − τ`. -/
theorem sk_lower_le_upper {dA dB p q k : Nat} (X Y : EMat (dA * dB) (dA * dB)) (LY : EMat (dA * dB) p) (lam : Rat) (LS : EMat (dA * dB) q)
    (Xs : EMat dA k) (Ys : EMat dB k) (lo hi : Rat) (hlo : checkSkLower X Xs Ys = some lo)
    (hhi : checkSkUpperRed k X Y LY lam LS = some hi) : lo ≤ hi := by
  have := checkSkUpperRed_sound k X Y LY lam LS hi hhi _ (checkSkLower_sound X Xs Ys lo hlo)
  exact_mod_cast this

/-- the same for the PPT certificate and one product term -/
theorem sk_lower_le_upper_ppt {dA dB p q : Nat} (X Y : EMat (dA * dB) (dA * dB)) (LY : EMat (dA * dB) p) (lam : Rat) (LS : EMat (dA * dB) q)
    (Xs : EMat dA 1) (Ys : EMat dB 1) (lo hi : Rat) (hlo : checkSkLower X Xs Ys = some lo)
    (hhi : checkSkUpperPPT X Y LY lam LS = some hi) : lo ≤ hi := by
  have := checkSkUpperPPT_sound X Y LY lam LS hi hhi _ (checkSkLower_sound X Xs Ys lo hlo)
  exact_mod_cast this

/-- **For positive semidefinite operators the one-vector values control the two-vector norm.**  `‖X‖_{S(k)} = sup |⟨w|X|v⟩|` over unit vectors of Schmidt rank
    `≤ k`; if `X ⪰ 0` and every value `⟨v|X|v⟩` of such vectors is `≤ c`, then `|⟨w|X|v⟩|² ≤ c²` for all such `v`, `w` (Cauchy–Schwarz for `X`). -/
theorem sk_bilinear_le {m n : Type} [Fintype m] [Fintype n] [DecidableEq m] [DecidableEq n] (k : ℕ) (X : Matrix (m × n) (m × n) ℂ)
    (hX : X.PosSemidef) (c : ℝ) (hc : ∀ r ∈ skValues k X, r ≤ c) (v w : m × n → ℂ) (hv : SchmidtLE k v) (hw : SchmidtLE k w)
    (nv : vnorm2 v = 1) (nw : vnorm2 w = 1) : Complex.normSq (star w ⬝ᵥ (X *ᵥ v)) ≤ c * c := by
  have h1 := hc _ ⟨v, hv, nv, rfl⟩
  have h2 := hc _ ⟨w, hw, nw, rfl⟩
  have p1 : 0 ≤ expect X v := (Complex.nonneg_iff.mp (hX.dotProduct_mulVec_nonneg v)).1
  have p2 : 0 ≤ expect X w := (Complex.nonneg_iff.mp (hX.dotProduct_mulVec_nonneg w)).1
  exact (normSq_bilinear_le X hX w v).trans (mul_le_mul h2 h1 p1 (p2.trans h2))

/-- `⟨v|(c·1 − X)|v⟩ = c·⟨v|v⟩ − ⟨v|X|v⟩` -/
theorem expect_shift {ι : Type} [Fintype ι] [DecidableEq ι] (X : Matrix ι ι ℂ) (c : ℝ) (v : ι → ℂ) :
    expect ((c : ℂ) • (1 : Matrix ι ι ℂ) - X) v = c * vnorm2 v - expect X v := by
  unfold expect
  rw [Matrix.sub_mulVec, dotProduct_sub, Matrix.smul_mulVec, Matrix.one_mulVec, dotProduct_smul, vnorm2_eq_nsq,
    Toq.Sep.star_dotProduct_self, smul_eq_mul, Complex.sub_re, ← Complex.ofReal_mul, Complex.ofReal_re]

/-- **`is_block_positive` reduces to the S(k) bracket.**  `X` is k-block positive (`⟨v|X|v⟩ ≥ 0` for every unit vector of Schmidt rank `≤ k`) iff every value attained
    by such vectors on `c·1 − X` is `≤ c`, for every real `c` (the code takes `c = ‖X‖` and compares the bounds of `sk_operator_norm(c·1 − X, k)` with `c`). -/
theorem blockPositive_iff_sk_le {m n : Type} [Fintype m] [Fintype n] [DecidableEq m] [DecidableEq n] (k : ℕ)
    (X : Matrix (m × n) (m × n) ℂ) (c : ℝ) :
    (∀ r ∈ skValues k X, 0 ≤ r) ↔ (∀ r ∈ skValues k ((c : ℂ) • (1 : Matrix (m × n) (m × n) ℂ) - X), r ≤ c) := by
  constructor
  · rintro h r ⟨v, hv, hn, rfl⟩
    have := h _ ⟨v, hv, hn, rfl⟩
    rw [expect_shift, hn]; linarith
  · rintro h r ⟨v, hv, hn, rfl⟩
    have := h _ ⟨v, hv, hn, rfl⟩
    rw [expect_shift, hn] at this; linarith

/-- certificates that are accepted: `X` = projector onto the Bell vector `(|00⟩ + |11⟩)/√2` on `2 × 2`, `Y = (1/2 − X)^{T_B}` (the antisymmetric projector),
    `λ = 1/2`; the product vector `|00⟩` attains `1/2`, so the bracket is tight: the S(1) norm of the Bell projector is `1/2` -/
example :
    let X : EMat (2 * 2) (2 * 2) := EMat.ofFn fun i j => if (i.val = 0 ∨ i.val = 3) ∧ (j.val = 0 ∨ j.val = 3) then ⟨1/2, 0⟩ else 0
    let Y : EMat (2 * 2) (2 * 2) := EMat.ofFn fun i j =>
      if (i.val = 1 ∨ i.val = 2) ∧ (j.val = 1 ∨ j.val = 2) then (if i.val = j.val then ⟨1/2, 0⟩ else ⟨-1/2, 0⟩) else 0
    let e0 : EMat 2 1 := EMat.ofFn fun i _ => if i.val = 0 then 1 else 0
    checkSkUpperPPT X Y (EMat.zero : EMat (2 * 2) 1) (1/2) (EMat.zero : EMat (2 * 2) 1) = some (1/2)
      ∧ checkSkLower X e0 e0 = some (1/2) := by
  decide +kernel

/-! ## second level of the symmetric-extension hierarchy (k = 1) -/

/-- **Upper certificate, k = 1, two-copy level.**  The PPT relaxation is exact only on `2×2` and `2×3`; from `2×4` and `3×3` on its optimum may sit at a PPT-entangled
    state.  If the executable checker accepts `(Y, LY, λ, t, LS)` for the exact operator `X` — `Y ⪰ 0` on `A B₁ B₂` and
    `Π (λ·1 − X ⊗ 1_{B₂} − Y^{T_{B₂}}) Π + t·(1 − Π) ⪰ 0` with `Π` the projector onto `ℂ^dA ⊗ Sym²(ℂ^dB)`, i.e. a dual feasible point of the Bose-symmetric two-copy
    extension program with one partial transpose that `sk_operator_norm` solves at `effort = 2` — then every value `⟨v|X|v⟩` attained by a unit product vector is `≤` the
    returned bound (for every rational `t`). -/
theorem checkSkUpperDps_sound {dA dB p q : Nat} (X : EMat (dA * dB) (dA * dB)) (Y : EMat ((dA * dB) * dB) ((dA * dB) * dB))
    (LY : EMat ((dA * dB) * dB) p) (lam t : Rat) (LS : EMat ((dA * dB) * dB) q) (hi : Rat)
    (h : checkSkUpperDps X Y LY lam t LS = some hi) :
    ∀ r ∈ skValues 1 (Toq.Sep.unflat X.toM), r ≤ (hi : ℝ) := by
  obtain ⟨rfl, hY, hS⟩ := checkSkUpperDps_eq h
  rintro r ⟨v, hv, hn, rfl⟩
  obtain ⟨x, y, rfl⟩ := (schmidtLE_one_iff v).mp hv
  have key := expect_le_of_checkSkUpperDps hY hS x y
  rw [hn, one_mul] at key
  have hy0 : 0 ≤ vnorm2 y := by rw [vnorm2_eq_nsq]; exact Toq.Sep.nsq_nonneg y
  have hy : 0 < vnorm2 y := by
    rcases hy0.eq_or_lt with h0 | h0
    · have h1 := vnorm2_tprod x y
      rw [hn, ← h0, mul_zero] at h1
      exact absurd h1 one_ne_zero
    · exact h0
  exact le_of_mul_le_mul_right key hy

/-- the certified bracket with the two-copy certificate on the upper side -/
theorem sk_lower_le_upper_dps {dA dB p q : Nat} (X : EMat (dA * dB) (dA * dB)) (Y : EMat ((dA * dB) * dB) ((dA * dB) * dB))
    (LY : EMat ((dA * dB) * dB) p) (lam t : Rat) (LS : EMat ((dA * dB) * dB) q)
    (Xs : EMat dA 1) (Ys : EMat dB 1) (lo hi : Rat) (hlo : checkSkLower X Xs Ys = some lo)
    (hhi : checkSkUpperDps X Y LY lam t LS = some hi) : lo ≤ hi := by
  have := checkSkUpperDps_sound X Y LY lam t LS hi hhi _ (checkSkLower_sound X Xs Ys lo hlo)
  exact_mod_cast this

/-- a two-copy certificate that is accepted: `X` = Bell projector on `2 × 2`, `Y = Y₁ ⊗ 1_{B₁}` with `Y₁` the (unnormalised) antisymmetric projector on `A B₂`,
    `λ = 1/2`, `t = 0`: the slack vanishes identically, the bound `1/2` is attained by `|00⟩` -/
example :
    let X : EMat (2 * 2) (2 * 2) := EMat.ofFn fun i j => if (i.val = 0 ∨ i.val = 3) ∧ (j.val = 0 ∨ j.val = 3) then ⟨1/2, 0⟩ else 0
    let Y : EMat ((2 * 2) * 2) ((2 * 2) * 2) := EMat.ofFn fun i j =>
      if i.val / 4 ≠ i.val % 2 ∧ j.val / 4 ≠ j.val % 2 ∧ (i.val / 2) % 2 = (j.val / 2) % 2 then
        (if i.val / 4 = j.val / 4 then ⟨1/2, 0⟩ else ⟨-1/2, 0⟩) else 0
    let e0 : EMat 2 1 := EMat.ofFn fun i _ => if i.val = 0 then 1 else 0
    checkSkUpperDps X Y (EMat.zero : EMat ((2 * 2) * 2) 1) (1/2) 0 (EMat.zero : EMat ((2 * 2) * 2) 1) = some (1/2)
      ∧ checkSkLower X e0 e0 = some (1/2) := by
  decide +kernel

end Toq.C14
