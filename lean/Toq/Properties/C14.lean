import Toq.Model.Entangle
import Toq.Spec.Entangle
import Toq.Proofs.Entangle
import Toq.Proofs.Cert
import Mathlib.LinearAlgebra.Matrix.Charpoly.Basic
/-!
# C14 — entanglement / entropy quantities: closed forms and local-unitary invariance

Property theorems only (helpers in `Toq/Proofs/Entangle.lean`, vocabulary in `Toq/Spec/Entangle.lean`, executable
models in `Toq/Model/Entangle.lean`).

A bipartite vector `ψ ∈ C^{dA} ⊗ C^{dB}` has the amplitude matrix `A[a,b] = ψ[a·dB + b]`; its **Schmidt rank** is
`Matrix.rank A`, it is a **product vector** iff `A = x yᵀ`.  The planted states of the correspondence harness are
`ψ = (U ⊗ V) Σ_i s_i |i i⟩`, whose amplitude matrix is `U · planted s · Vᵀ`.
-/
namespace Toq.C14
open Toq.Entangle Matrix
open scoped ComplexOrder MatrixOrder Kronecker

/-! ## mirrors of the reshapes -/

/-- **`schmidt_rank` reads the amplitude matrix.**  `np.reshape(rho, dim)` with `dim = [dA, dB]` (the fixed code) has
    entry `[a, b] = ψ[a·dB + b]` for all sizes. -/
theorem reshapeDim_eq_ampMat {α : Type} (dA dB : Nat) (ψ : Nat → α) (a b : Nat) :
    reshapeDim dA dB ψ a b = ampMat dB ψ a b :=
  reshapeDim_apply dA dB ψ a b

/-- **`schmidt_decomposition` reads the transposed amplitude matrix.**  `rho.reshape(dim[::-1], order="F")` has shape
    `(dB, dA)` and entry `[b, a] = ψ[a·dB + b]`; its left / right singular vectors are therefore the `B` / `A` side
    factors, which is why the code returns `(s, vt_mat, u_mat)`. -/
theorem reshapeRevF_eq_ampMat_transpose {α : Type} (dA dB : Nat) (ψ : Nat → α) (b a : Nat) :
    reshapeRevF dA dB ψ b a = ampMat dB ψ a b :=
  reshapeRevF_apply dA dB ψ b a

/-- **The pre-fix reshape was wrong for unequal local dimensions** (`np.reshape(rho, dim[::-1])` in C order, entry
    `[r, c] = ψ[r·dA + c]`): the product vector `(1,1) ⊗ (1,2,3)` has a vanishing-minor amplitude matrix, but the
    reversed-dims reading has a non-zero 2×2 minor (rank 2).  For `dA = dB` the two readings coincide. -/
theorem reshapeRevC_counterexample :
    let ψ : Nat → Int := fun k => [1, 2, 3, 1, 2, 3].getD k 0
    minorsVanish 2 3 (ampMat 3 ψ) = true ∧ minorsVanish 3 2 (reshapeRevC 2 3 ψ) = false := by
  decide

/-- for equal local dimensions the pre-fix reshape is the amplitude matrix -/
theorem reshapeRevC_eq_ampMat_of_eq {α : Type} (d : Nat) (ψ : Nat → α) (a b : Nat) :
    reshapeRevC d d ψ a b = ampMat d ψ a b :=
  reshapeRevC_apply d d ψ a b

/-- **Operator Schmidt rank reads the realigned matrix.**  The mirror of `_operator_schmidt_rank` (flatten, swap
    subsystems 2 and 3 of `[dA, dB, dA, dB]`, reshape to `dA² × dB²`) has entry `[(a,a'), (b,b')] = ρ[(a,b), (a',b')]`,
    for all (also unequal) local dimensions. -/
theorem operatorAmp_eq_realign {α : Type} (dA dB : Nat) (ρ : Nat → Nat → α) (hA : 0 < dA) (hB : 0 < dB)
    (i j : Nat) (hi : i < dA * dA) (hj : j < dB * dB) :
    operatorAmp dA dB ρ i j = realignAmp dA dB ρ i j :=
  operatorAmp_apply dA dB ρ hA hB i j hi hj

/-- the realigned matrix at row `a·dA + a'`, column `b·dB + b'` is `ρ[a·dB + b, a'·dB + b']` -/
theorem realignAmp_entry {α : Type} (dA dB : Nat) (ρ : Nat → Nat → α) (a a' b b' : Nat) (ha' : a' < dA) (hb' : b' < dB) :
    realignAmp dA dB ρ (a * dA + a') (b * dB + b') = ρ (a * dB + b) (a' * dB + b') := by
  have hA : 0 < dA := Nat.lt_of_le_of_lt (Nat.zero_le _) ha'
  have hB : 0 < dB := Nat.lt_of_le_of_lt (Nat.zero_le _) hb'
  unfold realignAmp
  have h1 : (a * dA + a') / dA = a := by
    rw [Nat.add_comm, Nat.add_mul_div_right _ _ hA, Nat.div_eq_of_lt ha', Nat.zero_add]
  have h2 : (a * dA + a') % dA = a' := by
    rw [Nat.add_comm, Nat.add_mul_mod_self_right, Nat.mod_eq_of_lt ha']
  have h3 : (b * dB + b') / dB = b := by
    rw [Nat.add_comm, Nat.add_mul_div_right _ _ hB, Nat.div_eq_of_lt hb', Nat.zero_add]
  have h4 : (b * dB + b') % dB = b' := by
    rw [Nat.add_comm, Nat.add_mul_mod_self_right, Nat.mod_eq_of_lt hb']
  rw [h1, h2, h3, h4]

/-- the executable Schmidt rank of the mirror (`np.reshape(rho, dim)`) is the executable rank of the amplitude matrix -/
theorem schmidtRankVec_eq_spec (dA dB : Nat) (ψ : Nat → QI) : schmidtRankVec dA dB ψ = schmidtRankSpec dA dB ψ :=
  rankQ_congr dA dB _ _ (fun a b _ _ => reshapeDim_eq_ampMat dA dB ψ a b)

/-- the executable operator Schmidt rank of the mirror is the executable rank of the realigned matrix -/
theorem schmidtRankOp_eq_spec (dA dB : Nat) (ρ : Nat → Nat → QI) (hA : 0 < dA) (hB : 0 < dB) :
    schmidtRankOp dA dB ρ = schmidtRankOpSpec dA dB ρ :=
  rankQ_congr _ _ _ _ (fun i j hi hj => operatorAmp_eq_realign dA dB ρ hA hB i j hi hj)

example : operatorAmp 2 3 (fun i j => 100 * i + j) 1 5 = 100 * (0 * 3 + 1) + (1 * 3 + 2) := by decide

/-! ## local operations and the Schmidt rank -/

/-- **Amplitude matrix of a locally rotated vector.**  `(U ⊗ V) ψ` has amplitude matrix `U · A · Vᵀ`
    (any commutative semiring, all — also unequal and rectangular — sizes). -/
theorem amplitude_local_unitary {α : Type} [CommSemiring α] (dA dB dA' dB' : Nat) (U V : Nat → Nat → α) (ψ : Nat → α)
    (hB' : 0 < dB') :
    toM dA dB (ampMat dB (kronApply dB dA' dB' U V ψ))
      = toM dA dA' U * toM dA' dB' (ampMat dB' ψ) * (toM dB dB' V)ᵀ :=
  toM_ampMat_kronApply dA dB dA' dB' U V ψ hB'

/-- **Schmidt rank is invariant under local invertible maps** (in particular local unitaries). -/
theorem schmidtRank_local_invariant {K : Type} [Field K] {m n : Nat} (U : Matrix (Fin m) (Fin m) K)
    (V : Matrix (Fin n) (Fin n) K) (A : Matrix (Fin m) (Fin n) K) (hU : IsUnit U.det) (hV : IsUnit V.det) :
    (U * A * Vᵀ).rank = A.rank := by
  have hVt : IsUnit Vᵀ.det := by rwa [Matrix.det_transpose]
  rw [Matrix.rank_mul_eq_left_of_isUnit_det Vᵀ (U * A) hVt, Matrix.rank_mul_eq_right_of_isUnit_det U A hU]

/-- the invertibility hypotheses are satisfiable by a non-trivial matrix -/
example : IsUnit (!![0, 1; 1, 0] : Matrix (Fin 2) (Fin 2) ℚ).det := by simp [Matrix.det_fin_two]

/-- **Schmidt rank counts the non-zero Schmidt coefficients.**  The amplitude matrix of `Σ_i s_i |i i⟩` in
    `C^{dA} ⊗ C^{dB}` (rectangular diagonal, unequal dimensions allowed, complex `s_i` allowed) has rank
    `#{a < min(dA, dB) : s_a ≠ 0}`. -/
theorem schmidtRank_planted (dA dB : Nat) (s : Nat → ℂ) :
    (planted dA dB s).rank = Fintype.card {a : Fin dA // a.val < dB ∧ s a.val ≠ 0} := by
  classical
  rw [← Matrix.rank_self_mul_conjTranspose, planted_mul_ct, Matrix.rank_diagonal]
  apply Fintype.card_congr
  apply Equiv.subtypeEquivRight
  intro a
  by_cases hlt : a.val < dB
  · simp [hlt]
  · simp [hlt]

/-- **Closed form of the Schmidt rank of a planted state.**  For `ψ = (U ⊗ V) Σ_i s_i |i i⟩` with invertible (e.g. unitary)
    `U`, `V` the rank of the amplitude matrix `U · planted s · Vᵀ` is the number of non-zero `s_i`. -/
theorem schmidtRank_closed_form (dA dB : Nat) (s : Nat → ℂ) (U : Matrix (Fin dA) (Fin dA) ℂ) (V : Matrix (Fin dB) (Fin dB) ℂ)
    (hU : IsUnit U.det) (hV : IsUnit V.det) :
    (U * planted dA dB s * Vᵀ).rank = Fintype.card {a : Fin dA // a.val < dB ∧ s a.val ≠ 0} := by
  rw [schmidtRank_local_invariant U V _ hU hV, schmidtRank_planted]

/-- **Realignment is covariant under local operations**: the realigned matrix of `(U ⊗ V) ρ (U ⊗ V)ᴴ` is
    `(U ⊗ Ū) · R(ρ) · (V ⊗ V̄)ᵀ` (all dimensions, any commutative star ring). -/
theorem realign_local_unitary {R : Type} [CommRing R] [StarRing R] {m n : Type} [Fintype m] [Fintype n]
    (U : Matrix m m R) (V : Matrix n n R) (ρ : Matrix (m × n) (m × n) R) :
    realign ((U ⊗ₖ V) * ρ * (U ⊗ₖ V)ᴴ) = (U ⊗ₖ U.map star) * realign ρ * (V ⊗ₖ V.map star)ᵀ := by
  ext ⟨a, a'⟩ ⟨b, b'⟩
  simp only [realign, Matrix.mul_apply, Matrix.conjTranspose_apply, Matrix.transpose_apply, Matrix.kroneckerMap_apply,
    Matrix.map_apply, Fintype.sum_prod_type, Finset.sum_mul, star_mul']
  refine (sum4_perm (fun c d c' d' => U a c * V b d * ρ (c, d) (c', d') * (star (U a' c') * star (V b' d')))).trans ?_
  apply Finset.sum_congr rfl; intro d _
  apply Finset.sum_congr rfl; intro d' _
  apply Finset.sum_congr rfl; intro c _
  apply Finset.sum_congr rfl; intro c' _
  ring

/-- **Operator Schmidt rank is invariant under local invertible conjugations** (in particular local unitaries): the realigned matrices
    of `ρ` and `(U ⊗ V) ρ (U ⊗ V)ᴴ` have the same rank. -/
theorem operatorSchmidtRank_local_invariant {K : Type} [Field K] [StarRing K] {m n : Type} [Fintype m] [Fintype n] [DecidableEq m] [DecidableEq n]
    (U : Matrix m m K) (V : Matrix n n K) (ρ : Matrix (m × n) (m × n) K) (hU : IsUnit U.det) (hV : IsUnit V.det) :
    (realign ((U ⊗ₖ V) * ρ * (U ⊗ₖ V)ᴴ)).rank = (realign ρ).rank := by
  rw [realign_local_unitary]
  have h1 := isUnit_det_kron_conj U hU
  have h2 : IsUnit ((V ⊗ₖ V.map star)ᵀ).det := by rw [Matrix.det_transpose]; exact isUnit_det_kron_conj V hV
  rw [Matrix.rank_mul_eq_left_of_isUnit_det _ _ h2, Matrix.rank_mul_eq_right_of_isUnit_det _ _ h1]

/-! ## the product test -/

/-- the executable test `minorsVanish` decides exactly that all 2×2 minors of the `r × c` block vanish -/
theorem minorsVanish_iff {α : Type} [Mul α] [DecidableEq α] (r c : Nat) (A : Nat → Nat → α) :
    minorsVanish r c A = true ↔ MinorsVanish (toM r c A) := by
  unfold minorsVanish MinorsVanish toM
  simp only [allBelow_iff, decide_eq_true_eq]
  constructor
  · intro h a a' b b'
    exact h a.val a.isLt a'.val a'.isLt b.val b.isLt b'.val b'.isLt
  · intro h a ha a' ha' b hb b' hb'
    exact h ⟨a, ha⟩ ⟨a', ha'⟩ ⟨b, hb⟩ ⟨b', hb'⟩

/-- **Product vectors are exactly those with vanishing 2×2 minors** (any field, all sizes): `A = x yᵀ` for some `x`, `y`
    iff `A[a,b]·A[a',b'] = A[a,b']·A[a',b]` for all index pairs. -/
theorem isProduct_iff_minors {K : Type} [Field K] {m n : Type} (A : Matrix m n K) :
    IsProductAmp A ↔ MinorsVanish A := by
  constructor
  · rintro ⟨x, y, h⟩ a a' b b'
    rw [h, h, h, h]; ring
  · intro h
    by_cases h0 : ∀ a b, A a b = 0
    · exact ⟨fun _ => 0, fun _ => 0, fun a b => by rw [h0 a b]; simp⟩
    · simp only [not_forall] at h0
      obtain ⟨a0, b0, hne⟩ := h0
      refine ⟨fun a => A a b0 / A a0 b0, fun b => A a0 b, fun a b => ?_⟩
      have := h a a0 b b0
      show A a b = A a b0 / A a0 b0 * A a0 b
      rw [div_mul_eq_mul_div, eq_div_iff hne, this]

/-- the amplitude matrix of `x ⊗ y` is `x yᵀ` -/
theorem ampMat_kron {α : Type} [Mul α] (dB : Nat) (x y : Nat → α) (a b : Nat) (hb : b < dB) :
    ampMat dB (fun i => x (i / dB) * y (i % dB)) a b = x a * y b := by
  have hB : 0 < dB := Nat.lt_of_le_of_lt (Nat.zero_le _) hb
  unfold ampMat
  show x ((a * dB + b) / dB) * y ((a * dB + b) % dB) = _
  rw [Nat.add_comm, Nat.add_mul_div_right _ _ hB, Nat.div_eq_of_lt hb, Nat.zero_add,
    Nat.add_mul_mod_self_right, Nat.mod_eq_of_lt hb]

/-- a product vector has Schmidt rank at most one -/
theorem schmidtRank_product_le_one {K : Type} [Field K] {m n : Nat} (A : Matrix (Fin m) (Fin n) K) (h : IsProductAmp A) :
    A.rank ≤ 1 := by
  obtain ⟨x, y, hxy⟩ := h
  have : A = Matrix.vecMulVec x y := by
    ext a b; rw [hxy a b]; rfl
  rw [this]
  exact Matrix.rank_vecMulVec_le x y

/-! ## invariance under unitaries: purity and spectrum -/

/-- **Purity is unitarily invariant**: `tr((UρUᴴ)²) = tr(ρ²)` whenever `UᴴU = 1` (any commutative star ring). -/
theorem purity_unitary_invariant {R : Type} [CommRing R] [StarRing R] {n : Type} [Fintype n] [DecidableEq n]
    (U ρ : Matrix n n R) (hU : Uᴴ * U = 1) :
    ((U * ρ * Uᴴ) * (U * ρ * Uᴴ)).trace = (ρ * ρ).trace := by
  have h1 : (U * ρ * Uᴴ) * (U * ρ * Uᴴ) = U * (ρ * ρ) * Uᴴ := by
    calc (U * ρ * Uᴴ) * (U * ρ * Uᴴ) = U * ρ * (Uᴴ * U) * ρ * Uᴴ := by simp only [Matrix.mul_assoc]
      _ = U * (ρ * ρ) * Uᴴ := by rw [hU]; simp only [Matrix.mul_one, Matrix.mul_assoc]
  rw [h1, Matrix.trace_mul_cycle, hU, Matrix.one_mul]

/-- **The spectrum is unitarily invariant**: `UρUᴴ` and `ρ` have the same characteristic polynomial (hence the same
    eigenvalues with multiplicity, hence the same von Neumann entropy, purity and rank). -/
theorem charpoly_unitary_invariant {R : Type} [CommRing R] [StarRing R] {n : Type} [Fintype n] [DecidableEq n]
    (U ρ : Matrix n n R) (hU : Uᴴ * U = 1) :
    (U * ρ * Uᴴ).charpoly = ρ.charpoly := by
  rw [Matrix.mul_assoc, Matrix.charpoly_mul_comm, Matrix.mul_assoc, hU, Matrix.mul_one]

/-- **Spectrum of a planted mixed state.**  `ρ = U·diag(q)·Uᴴ` with unitary `U` has characteristic polynomial `Π_i (X − q_i)`: its
    eigenvalues are exactly the planted `q_i`, so its von Neumann entropy is `H(q)` and its purity `Σ q_i²`. -/
theorem charpoly_planted_spectrum {R : Type} [CommRing R] [StarRing R] {n : Type} [Fintype n] [DecidableEq n]
    (U : Matrix n n R) (q : n → R) (hU : Uᴴ * U = 1) :
    (U * Matrix.diagonal q * Uᴴ).charpoly = ∏ i, (Polynomial.X - Polynomial.C (q i)) := by
  rw [charpoly_unitary_invariant U _ hU, Matrix.charpoly_diagonal]

/-- the executable purity is `tr ρ²` -/
theorem purityM_eq_trace {R : Type} [CommSemiring R] (n : Nat) (ρ : Nat → Nat → R) :
    purityM n ρ = (toM n n ρ * toM n n ρ).trace := by
  unfold purityM
  rw [sumN_eq_fin, Matrix.trace]
  apply Finset.sum_congr rfl
  intro i _
  rw [sumN_eq_fin]
  rfl

/-! ## entropy -/

/-- **Entropy is additive on products.**  For probability vectors `p`, `q` (any lengths) the entropy `−Σ x log x` of the
    product distribution `(p_i q_j)` — the spectrum of `ρ ⊗ σ` — is `H(p) + H(q)`. -/
theorem entropy_additive {ι κ : Type} [Fintype ι] [Fintype κ] (p : ι → ℝ) (q : κ → ℝ)
    (hp : ∑ i, p i = 1) (hq : ∑ j, q j = 1) :
    shannon (fun x : ι × κ => p x.1 * q x.2) = shannon p + shannon q := by
  unfold shannon
  rw [Fintype.sum_prod_type]
  simp only [Real.negMulLog_mul, Finset.sum_add_distrib, ← Finset.mul_sum, ← Finset.sum_mul]
  rw [hq, hp]
  simp

/-- probability vectors exist: `(1/2, 1/2)` -/
example : ∑ i : Fin 2, (fun _ => (1 / 2 : ℝ)) i = 1 := by simp

/-! ## partial transpose and negativity -/

/-- the executable partial transpose `pTB` (used by the driver) exchanges the second-factor digits of row and column index -/
theorem pTB_entry {α : Type} (dB : Nat) (X : Nat → Nat → α) (a b a' b' : Nat) (hb : b < dB) (hb' : b' < dB) :
    pTB dB X (a * dB + b) (a' * dB + b') = X (a * dB + b') (a' * dB + b) := by
  have hB : 0 < dB := Nat.lt_of_le_of_lt (Nat.zero_le _) hb
  unfold pTB
  have h1 : (a * dB + b) / dB = a := by
    rw [Nat.add_comm, Nat.add_mul_div_right _ _ hB, Nat.div_eq_of_lt hb, Nat.zero_add]
  have h2 : (a * dB + b) % dB = b := by
    rw [Nat.add_comm, Nat.add_mul_mod_self_right, Nat.mod_eq_of_lt hb]
  have h3 : (a' * dB + b') / dB = a' := by
    rw [Nat.add_comm, Nat.add_mul_div_right _ _ hB, Nat.div_eq_of_lt hb', Nat.zero_add]
  have h4 : (a' * dB + b') % dB = b' := by
    rw [Nat.add_comm, Nat.add_mul_mod_self_right, Nat.mod_eq_of_lt hb']
  rw [h1, h2, h3, h4]



/-- **Partial transpose is covariant under local operations.**  For all (not necessarily unitary) `U`, `V` and every operator `ρ`
    on `C^m ⊗ C^n` (all dimensions, any commutative star ring):
    `((U ⊗ V) ρ (U ⊗ V)ᴴ)^{T_B} = (U ⊗ V̄) ρ^{T_B} (U ⊗ V̄)ᴴ`.  For unitary `U`, `V` the right-hand side is a unitary conjugation, so
    the singular values of `ρ^{T_B}` — hence trace norm, negativity and log-negativity — are invariant under local unitaries. -/
theorem pT_local_unitary {R : Type} [CommRing R] [StarRing R] {m n : Type} [Fintype m] [Fintype n]
    (U : Matrix m m R) (V : Matrix n n R) (ρ : Matrix (m × n) (m × n) R) :
    pT ((Matrix.kroneckerMap (· * ·) U V) * ρ * (Matrix.kroneckerMap (· * ·) U V)ᴴ)
      = (Matrix.kroneckerMap (· * ·) U (V.map star)) * pT ρ * (Matrix.kroneckerMap (· * ·) U (V.map star))ᴴ := by
  ext ⟨a, b⟩ ⟨a', b'⟩
  simp only [pT, Matrix.mul_apply, Matrix.conjTranspose_apply, Matrix.kroneckerMap_apply, Matrix.map_apply,
    Fintype.sum_prod_type, Finset.sum_mul, star_mul', star_star]
  -- LHS: Σ_{c'} Σ_{d'} Σ_c Σ_d F ;  RHS: Σ_{c'} Σ_d Σ_c Σ_{d'} F  (same summand after renaming)
  apply Finset.sum_congr rfl; intro c' _
  rw [Finset.sum_comm]
  conv_rhs => rw [Finset.sum_comm]
  apply Finset.sum_congr rfl; intro c _
  rw [Finset.sum_comm]
  apply Finset.sum_congr rfl; intro d _
  apply Finset.sum_congr rfl; intro d' _
  ring

/-- **Gram identity of a partially transposed pure state.**  For every bipartite vector with amplitude matrix `A` (rectangular,
    any dimensions): `(ρ^{T_B})ᴴ ρ^{T_B} = (A Aᴴ) ⊗ (Aᴴ A)`; so the singular values of `ρ^{T_B}` are the products `s_i s_j` of the
    Schmidt coefficients. -/
theorem pT_pure_gram_eq {m n : Type} [Fintype m] [Fintype n] (A : Matrix m n ℂ) :
    (pT (pureOfAmp A))ᴴ * pT (pureOfAmp A) = (A * Aᴴ) ⊗ₖ (Aᴴ * A) :=
  pT_pure_gram A

/-- **Trace norm of the partial transpose of any pure state.**  If `P₁`, `P₂` are positive semidefinite square roots of `A Aᴴ`
    and `Aᴴ A`, then `‖ρ^{T_B}‖₁ = tr P₁ · tr P₂` (= `(Σ_i s_i)²`, the square of the nuclear norm of `A`). -/
theorem traceNorm_pT_pure {m n : Type} [Fintype m] [Fintype n] [DecidableEq m] [DecidableEq n] (A : Matrix m n ℂ)
    (P₁ : Matrix m m ℂ) (P₂ : Matrix n n ℂ) (h₁ : P₁.PosSemidef) (h₂ : P₂.PosSemidef)
    (e₁ : P₁ * P₁ = A * Aᴴ) (e₂ : P₂ * P₂ = Aᴴ * A) :
    traceNorm (pT (pureOfAmp A)) = P₁.trace * P₂.trace := by
  unfold traceNorm
  have hsq : (P₁ ⊗ₖ P₂) * (P₁ ⊗ₖ P₂) = (pT (pureOfAmp A))ᴴ * pT (pureOfAmp A) := by
    rw [pT_pure_gram, ← Matrix.mul_kronecker_mul, e₁, e₂]
  rw [CFC.sqrt_unique hsq (h₁.kronecker h₂).nonneg, Matrix.trace_kronecker]

/-- **Negativity closed form, all local dimensions, all local unitaries.**  For `ψ = (U ⊗ V) Σ_i s_i |i i⟩` with `s_i ≥ 0` and unitary
    `U` (`dA × dA`), `V` (`dB × dB`), `dA ≠ dB` allowed: `‖(|ψ⟩⟨ψ|)^{T_B}‖₁ = (Σ_{i < min(dA,dB)} s_i)²`.  Hence negativity
    `= ((Σ s_i)² − 1)/2` and log-negativity `= log₂ (Σ s_i)²`, the values the harness compares `negativity` / `log_negativity` with. -/
theorem negativity_planted (dA dB : Nat) (s : Nat → ℝ) (hs : ∀ i, 0 ≤ s i)
    (U : Matrix (Fin dA) (Fin dA) ℂ) (V : Matrix (Fin dB) (Fin dB) ℂ) (hU : Uᴴ * U = 1) (hV : Vᴴ * V = 1) :
    traceNorm (pT (pureOfAmp (U * planted dA dB (fun i => (s i : ℂ)) * Vᵀ)))
      = (((∑ i ∈ Finset.range (min dA dB), s i) ^ 2 : ℝ) : ℂ) := by
  set D := planted dA dB (fun i => (s i : ℂ)) with hD
  obtain ⟨W, hW⟩ : ∃ W : Matrix (Fin dB) (Fin dB) ℂ, W = Vᵀᴴ := ⟨_, rfl⟩
  have hWW : Wᴴ * W = 1 := by
    rw [hW, Matrix.conjTranspose_conjTranspose]
    have : (Vᴴ * V)ᵀ = 1 := by rw [hV, Matrix.transpose_one]
    rw [Matrix.transpose_mul] at this
    rw [← this]
    rfl
  have hA : U * D * Vᵀ = U * D * Wᴴ := by rw [hW, Matrix.conjTranspose_conjTranspose]
  set d₁ : Fin dA → ℝ := fun a => if a.val < dB then s a.val else 0 with hd₁
  set d₂ : Fin dB → ℝ := fun b => if b.val < dA then s b.val else 0 with hd₂
  have hd₁n : ∀ i, 0 ≤ d₁ i := fun i => by simp only [hd₁]; split <;> simp [hs]
  have hd₂n : ∀ i, 0 ≤ d₂ i := fun i => by simp only [hd₂]; split <;> simp [hs]
  obtain ⟨p1, q1, t1⟩ := unitary_diag_sqrt U hU d₁ hd₁n
  obtain ⟨p2, q2, t2⟩ := unitary_diag_sqrt W hWW d₂ hd₂n
  have e1 : (U * D * Wᴴ) * (U * D * Wᴴ)ᴴ = U * Matrix.diagonal (fun i => ((d₁ i : ℂ) * (d₁ i : ℂ))) * Uᴴ := by
    rw [Matrix.conjTranspose_mul, Matrix.conjTranspose_mul, Matrix.conjTranspose_conjTranspose]
    calc U * D * Wᴴ * (W * (Dᴴ * Uᴴ)) = U * D * (Wᴴ * W) * Dᴴ * Uᴴ := by simp only [Matrix.mul_assoc]
      _ = U * (D * Dᴴ) * Uᴴ := by rw [hWW]; simp only [Matrix.mul_one, Matrix.mul_assoc]
      _ = _ := by
        rw [hD, planted_mul_ct]
        have hf : (fun a : Fin dA => if a.val < dB then ((s a.val : ℝ) : ℂ) * star ((s a.val : ℝ) : ℂ) else 0)
            = fun i => ((d₁ i : ℂ) * (d₁ i : ℂ)) := by
          funext a; by_cases h : a.val < dB <;> simp [hd₁, h]
        rw [hf]
  have e2 : (U * D * Wᴴ)ᴴ * (U * D * Wᴴ) = W * Matrix.diagonal (fun i => ((d₂ i : ℂ) * (d₂ i : ℂ))) * Wᴴ := by
    rw [Matrix.conjTranspose_mul, Matrix.conjTranspose_mul, Matrix.conjTranspose_conjTranspose]
    calc W * (Dᴴ * Uᴴ) * (U * D * Wᴴ) = W * Dᴴ * (Uᴴ * U) * D * Wᴴ := by simp only [Matrix.mul_assoc]
      _ = W * (Dᴴ * D) * Wᴴ := by rw [hU]; simp only [Matrix.mul_one, Matrix.mul_assoc]
      _ = _ := by
        rw [hD, planted_ct_mul]
        have hf : (fun b : Fin dB => if b.val < dA then star ((s b.val : ℝ) : ℂ) * ((s b.val : ℝ) : ℂ) else 0)
            = fun i => ((d₂ i : ℂ) * (d₂ i : ℂ)) := by
          funext b; by_cases h : b.val < dA <;> simp [hd₂, h]
        rw [hf]
  rw [hA, traceNorm_pT_pure _ _ _ p1 p2 (q1.trans e1.symm) (q2.trans e2.symm), t1, t2]
  have s1 := sum_fin_lt dA dB s
  have s2 := sum_fin_lt dB dA s
  rw [Nat.min_comm] at s2
  simp only [hd₁, hd₂]
  rw [s1, s2, sq]
  push_cast
  rfl

/-- the unitarity hypotheses are satisfiable by a non-trivial matrix (the swap of the two basis vectors) -/
example : (!![0, 1; 1, 0] : Matrix (Fin 2) (Fin 2) ℂ)ᴴ * !![0, 1; 1, 0] = 1 := by
  ext i j; fin_cases i <;> fin_cases j <;> simp [Matrix.mul_apply, Fin.sum_univ_two]

/-! ## entanglement of formation of pure states -/

/-- the reduced state of a pure state with amplitude matrix `A` is `A Aᴴ` -/
theorem reduced_state_eq {m n : Type} [Fintype n] (A : Matrix m n ℂ) (a a' : m) :
    ∑ b, pureOfAmp A (a, b) (a', b) = (A * Aᴴ) a a' := by
  simp [pureOfAmp, Matrix.mul_apply, Matrix.conjTranspose_apply]

/-- **Entanglement of formation of a planted state.**  The reduced state `A Aᴴ` of `ψ = (U ⊗ V) Σ_i s_i |i i⟩` (unitary `U`, `V`, unequal
    dimensions allowed) has characteristic polynomial `Π_a (X − s_a²)` (with `s_a = 0` for `a ≥ dB`): its eigenvalues are the squared Schmidt
    coefficients, so `entanglement_of_formation` (the entropy of the reduced state) is `H({s_i²})`. -/
theorem eof_spectrum_planted (dA dB : Nat) (s : Nat → ℝ)
    (U : Matrix (Fin dA) (Fin dA) ℂ) (V : Matrix (Fin dB) (Fin dB) ℂ) (hU : Uᴴ * U = 1) (hV : Vᴴ * V = 1) :
    ((U * planted dA dB (fun i => (s i : ℂ)) * Vᵀ) * (U * planted dA dB (fun i => (s i : ℂ)) * Vᵀ)ᴴ).charpoly
      = ∏ a : Fin dA, (Polynomial.X - Polynomial.C (if a.val < dB then ((s a.val : ℂ)) * star ((s a.val : ℂ)) else 0)) := by
  have hVV : Vᵀ * Vᵀᴴ = 1 := by
    have : (Vᴴ * V)ᵀ = 1 := by rw [hV, Matrix.transpose_one]
    rw [Matrix.transpose_mul] at this
    rw [← this]; rfl
  have : (U * planted dA dB (fun i => (s i : ℂ)) * Vᵀ) * (U * planted dA dB (fun i => (s i : ℂ)) * Vᵀ)ᴴ
      = U * (planted dA dB (fun i => (s i : ℂ)) * (planted dA dB (fun i => (s i : ℂ)))ᴴ) * Uᴴ := by
    rw [Matrix.conjTranspose_mul, Matrix.conjTranspose_mul]
    calc U * planted dA dB (fun i => (s i : ℂ)) * Vᵀ * (Vᵀᴴ * ((planted dA dB fun i => (s i : ℂ))ᴴ * Uᴴ))
        = U * planted dA dB (fun i => (s i : ℂ)) * (Vᵀ * Vᵀᴴ) * (planted dA dB fun i => (s i : ℂ))ᴴ * Uᴴ := by
          simp only [Matrix.mul_assoc]
      _ = _ := by rw [hVV]; simp only [Matrix.mul_one, Matrix.mul_assoc]
  rw [this, planted_mul_ct, charpoly_planted_spectrum U _ hU]

/-! ## verified rank certificates (exact oracle of the Schmidt rank used by the harness) -/

/-- **Rank certificate soundness.**  If the executable checker accepts `(B, C, L, R)` for the exact matrix `A` — i.e. `A = B·C` with inner
    size `r` and `L·A·R = 1_r`, both verified by exact arithmetic over `ℚ[i]` — then the rank of `A` (as a complex matrix) is `r`. -/
theorem rankCert_sound {n m r : Nat} (A : EMat n m) (B : EMat n r) (C : EMat r m) (L : EMat r n) (R : EMat m r)
    (h : rankCert A B C L R = true) : A.toM.rank = r := by
  unfold rankCert at h
  rw [Bool.and_eq_true] at h
  have h1 := EMat.beq_sound _ _ h.1
  have h2 := EMat.beq_sound _ _ h.2
  rw [EMat.toM_mul] at h1
  rw [EMat.toM_mul, EMat.toM_mul, EMat.toM_one] at h2
  apply le_antisymm
  · rw [h1]
    exact (Matrix.rank_mul_le_left _ _).trans (Matrix.rank_le_width _)
  · have : (1 : Matrix (Fin r) (Fin r) ℂ).rank = r := by rw [Matrix.rank_one, Fintype.card_fin]
    rw [← this, ← h2]
    exact (Matrix.rank_mul_le_left _ _).trans (Matrix.rank_mul_le_right _ _)

/-- a certificate that is accepted: the rank-one matrix `[[1,2,3],[2,4,6]]` -/
example : rankCert (EMat.ofFn (n := 2) (m := 3) fun i j => QI.ofRat ((i.val + 1) * (j.val + 1) : Nat))
    (EMat.ofFn (n := 2) (m := 1) fun i _ => QI.ofRat ((i.val + 1 : Nat))) (EMat.ofFn (n := 1) (m := 3) fun _ j => QI.ofRat ((j.val + 1 : Nat)))
    (EMat.ofFn (n := 1) (m := 2) fun _ j => if j.val = 0 then 1 else 0) (EMat.ofFn (n := 3) (m := 1) fun i _ => if i.val = 0 then 1 else 0) = true := by
  decide +kernel


/-! ## S(k) vector norm: the sum of the k largest squared Schmidt coefficients -/

/-- for `k ≥` the number of coefficients the value is the full sum (the `k >= min(dim)` shortcut of `sk_vector_norm`) -/
theorem skVecNormSq_full (p : List Rat) (k : Nat) (hk : p.length ≤ k) : skVecNormSq p k = sumQ p := by
  unfold skVecNormSq
  rw [List.take_of_length_le (by rw [List.length_mergeSort]; exact hk), sumQ_eq_sum, sumQ_eq_sum]
  exact (List.mergeSort_perm p _).sum_eq

/-- monotone in `k` (squared coefficients are non-negative) -/
theorem skVecNormSq_mono (p : List Rat) (hp : ∀ x ∈ p, 0 ≤ x) (k : Nat) : skVecNormSq p k ≤ skVecNormSq p (k + 1) := by
  unfold skVecNormSq
  rw [sumQ_eq_sum, sumQ_eq_sum]
  set l := p.mergeSort fun a b => decide (b ≤ a) with hl
  by_cases hk : k < l.length
  · rw [List.sum_take_succ l k hk]
    have : 0 ≤ l[k] := hp _ ((List.mergeSort_perm p _).mem_iff.mp (List.getElem_mem hk))
    linarith
  · rw [List.take_of_length_le (by omega), List.take_of_length_le (by omega)]

/-- **`skVecNormSq p k` is the maximum over sub-multisets of at most `k` entries**: every such sub-multiset has a sum `≤` the value … -/
theorem skVecNormSq_max (p : List Rat) (hp : ∀ x ∈ p, 0 ≤ x) (k : Nat) (t : List Rat) (ht : t.Subperm p) (hk : t.length ≤ k) :
    t.sum ≤ skVecNormSq p k := by
  unfold skVecNormSq
  rw [sumQ_eq_sum]
  set l := p.mergeSort fun a b => decide (b ≤ a) with hl
  have hperm : l.Perm p := List.mergeSort_perm p _
  have hsorted : l.Pairwise (fun a b => b ≤ a) := by
    have := List.pairwise_mergeSort (le := fun a b : Rat => decide (b ≤ a))
      (fun a b c hab hbc => by simp only [decide_eq_true_eq] at *; exact le_trans hbc hab)
      (fun a b => by simp only [Bool.or_eq_true, decide_eq_true_eq]; exact le_total b a) p
    simpa using this
  obtain ⟨t', ht'p, ht's⟩ := ht.trans hperm.symm.subperm
  rw [← ht'p.sum_eq]
  exact sublist_sum_le_take l hsorted (fun x hx => hp x (hperm.mem_iff.mp hx)) k t' ht's (by rw [ht'p.length_eq]; exact hk)

/-- … and the value is attained by one of them. -/
theorem skVecNormSq_attained (p : List Rat) (k : Nat) :
    ∃ t : List Rat, t.Subperm p ∧ t.length ≤ k ∧ t.sum = skVecNormSq p k := by
  refine ⟨(p.mergeSort fun a b => decide (b ≤ a)).take k, ?_, ?_, ?_⟩
  · exact (List.take_sublist k _).subperm.trans (List.mergeSort_perm p _).subperm
  · rw [List.length_take]; exact Nat.min_le_left _ _
  · unfold skVecNormSq; rw [sumQ_eq_sum]

example : ∀ x ∈ ([1/9, 4/9, 4/9] : List Rat), 0 ≤ x := by intro x hx; simp at hx; rcases hx with rfl | rfl <;> norm_num
example : negativityClosed [3/5, 4/5] = 12/25 := by decide +kernel

/-! ## two-qubit concurrence of pure states: `2 |det A|` -/

/-- two-qubit pure-state concurrence is `2|det A|`; it is invariant under local unitaries -/
theorem concurrence_pure_local_invariant (U V A : Matrix (Fin 2) (Fin 2) ℂ) (hU : Uᴴ * U = 1) (hV : Vᴴ * V = 1) :
    2 * ‖(U * A * Vᵀ).det‖ = 2 * ‖A.det‖ := by
  rw [Matrix.det_mul, Matrix.det_mul, Matrix.det_transpose, norm_mul, norm_mul, norm_det_of_unitary U hU,
    norm_det_of_unitary V hV, one_mul, mul_one]

theorem concurrence_planted (s : Nat → ℂ) : 2 * ‖(planted 2 2 s).det‖ = 2 * ‖s 0‖ * ‖s 1‖ := by
  rw [Matrix.det_fin_two]
  simp [planted, mul_assoc]

/-- the spin-flip overlap `ψᵀ (σ_y ⊗ σ_y) ψ` of a two-qubit vector is `−2 det A` -/
theorem spinFlip_eq_det (A : Matrix (Fin 2) (Fin 2) ℂ) :
    (∑ p : Fin 2 × Fin 2, ∑ q : Fin 2 × Fin 2,
      A p.1 p.2 * (Matrix.kroneckerMap (· * ·) !![0, -Complex.I; Complex.I, 0] !![0, -Complex.I; Complex.I, 0]) p q * A q.1 q.2)
      = -2 * A.det := by
  rw [Matrix.det_fin_two]
  simp [Fintype.sum_prod_type, Fin.sum_univ_two, Matrix.kroneckerMap_apply]
  ring_nf

/-! ## the exact rank oracle is Mathlib's rank (correctness of the elimination) -/

/-- **The exact rank routine is correct.**  For every size and every matrix over `ℚ[i]`, the executable rank `rankQ n m A`
    (Gaussian elimination, `Toq/Core/Rank.lean`) equals Mathlib's `Matrix.rank` of the complex `n × m` matrix that `A` denotes. -/
theorem rankQ_eq_rank (n m : Nat) (A : Nat → Nat → QI) :
    rankQ n m A = (toM n m fun i j => (A i j).toC).rank :=
  Toq.Rank.rankFn_eq_rank n m A

/-- **`schmidt_rank` (vector branch) returns the Schmidt rank.**  The mirror of the fixed code, `matrix_rank(np.reshape(rho, dim))`
    with the exact rank, equals the rank of the amplitude matrix `A[a,b] = ψ[a·dB + b]` over `ℂ`, for all local dimensions. -/
theorem schmidtRankVec_eq_rank (dA dB : Nat) (ψ : Nat → QI) :
    schmidtRankVec dA dB ψ = (toM dA dB (ampMat dB fun k => (ψ k).toC)).rank := by
  rw [schmidtRankVec_eq_spec]
  exact rankQ_eq_rank dA dB (ampMat dB ψ)

/-- **`schmidt_rank` (operator branch) returns the operator Schmidt rank.**  The mirror of `_operator_schmidt_rank` with the exact
    rank equals the rank over `ℂ` of the realigned matrix `R[(a,a'),(b,b')] = ρ[(a,b),(a',b')]`, for all (also unequal) local dimensions. -/
theorem schmidtRankOp_eq_rank (dA dB : Nat) (ρ : Nat → Nat → QI) (hA : 0 < dA) (hB : 0 < dB) :
    schmidtRankOp dA dB ρ = (toM (dA * dA) (dB * dB) (realignAmp dA dB fun i j => (ρ i j).toC)).rank := by
  rw [schmidtRankOp_eq_spec dA dB ρ hA hB]
  exact rankQ_eq_rank _ _ (realignAmp dA dB ρ)

/-- **The two exact oracles agree.**  Whenever the certificate checker accepts a certificate of rank `r` for `A`, the elimination
    returns `r` on `A` (both are the rank of `A.toM`). -/
theorem rankE_eq_of_rankCert {n m r : Nat} (A : EMat n m) (B : EMat n r) (C : EMat r m) (L : EMat r n) (R : EMat m r)
    (h : rankCert A B C L R = true) : Toq.Rank.rankE A = r := by
  rw [Toq.Rank.rankE_eq_rank]; exact rankCert_sound A B C L R h

/-- the routine on a concrete complex matrix: `[[1, i, 0], [i, -1, 0], [0, 0, 2]]` has rank 2 (the second row is `i` times the first) -/
example : rankQ 3 3 (fun i j => ([[⟨1, 0⟩, ⟨0, 1⟩, 0], [⟨0, 1⟩, ⟨-1, 0⟩, 0], [0, 0, ⟨2, 0⟩]] : List (List QI)).getD i [] |>.getD j 0) = 2 := by
  decide +kernel

end Toq.C14
