import Toq.Model.ChannelOps
import Toq.Spec.ChannelOps
import Toq.Proofs.ChannelOps
import Toq.Spec.ChannelOpsExtra
import Toq.Proofs.ChannelOpsExtra
/-!
# C05 — dual and complementary maps satisfy their defining identities

Property theorems only (helper lemmas live in `Toq/Proofs/ChannelOps.lean`).  Mirror models:
`dualKraus`, `dualChoi` (`dual_channel.py`), `complementary` (`complementary_channel.py`) in
`Toq/Model/ChannelOps.lean`, applied through the `apply_channel` models of C04.  The Hilbert–Schmidt inner
product is `⟨Y, Z⟩ = tr(Yᴴ Z)` (`Toq.ChannelSpec.hsInner`).  Scalars: an arbitrary commutative star-semiring
(a commutative star-ring for the statement about characteristic polynomials).
-/
namespace Toq.C05
open Toq.ChannelOps Toq.ChannelSpec Toq.ChannelOps.Mat

variable {α : Type} [CommSemiring α] [StarRing α]

/-! ## `dual_channel` on Kraus lists -/

/-- **The dual list denotes the family of adjoints.**  In every list form (flat, column, row, pairs, and
    whatever else the cascade accepts) conjugate-transposing every operator commutes with the cascade of
    `apply_channel`: the dual of a list read as `(A_k, B_k)` is read as `(A_kᴴ, B_kᴴ)`. -/
theorem dual_cascade (phi : KrausArg α) :
    (dualKraus phi).split = phi.split.map (fun ab => (ab.1.map Mat.ct, ab.2.map Mat.ct)) :=
  split_dualKraus phi

/-- **Adjoint identity (Kraus forms).**  For every list form, every family `(A_k, B_k)` of any rank and any
    input/output (row and column) dimensions, and all operators `X`, `Y`:
    `⟨Y, Φ(X)⟩ = ⟨Φ*(Y), X⟩`, where `Φ(X)` and `Φ*(Y)` are what `apply_channel` returns on the list and on
    the list returned by `dual_channel`. -/
theorem dual_adjoint_kraus (X Y : Mat α) (phi : KrausArg α) (as bs : List (Mat α))
    (hsplit : phi.split = some (as, bs)) (ha : Shaped as Y.r X.r) (hb : Shaped bs Y.c X.c)
    (hl : as.length = bs.length) :
    ∃ M D, applyKraus X phi = some M ∧ applyKraus Y (dualKraus phi) = some D ∧
      hsInner Y.r Y.c Y.e M.e = hsInner X.r X.c D.e X.e := by
  refine ⟨_, _, applyKraus_of_split X phi as bs hsplit,
    applyKraus_of_split Y (dualKraus phi) (as.map Mat.ct) (bs.map Mat.ct) ?_, ?_⟩
  · rw [split_dualKraus, hsplit]; rfl
  · exact dual_adjoint_lists X Y as bs ha hb hl

/-- The dual list acts as the Hilbert–Schmidt adjoint map `Y ↦ Σ_k A_kᴴ · Y · B_k` (Mathlib vocabulary). -/
theorem dual_kraus_acts_as_adjoint (Y : Mat α) (phi : KrausArg α) (as bs : List (Mat α)) (di0 di1 : Nat)
    (hsplit : phi.split = some (as, bs)) (ha : Shaped as Y.r di0) (hb : Shaped bs Y.c di1)
    (hl : as.length = bs.length) :
    ∃ D, applyKraus Y (dualKraus phi) = some D ∧
      toM di0 di1 D.e = ∑ k : Fin as.length,
        (toM Y.r di0 (fam as k)).conjTranspose * toM Y.r Y.c Y.e * toM Y.c di1 (fam bs k) := by
  refine ⟨_, applyKraus_of_split Y (dualKraus phi) (as.map Mat.ct) (bs.map Mat.ct) ?_, ?_⟩
  · rw [split_dualKraus, hsplit]; rfl
  · exact toM_applyKrausLists_dual Y as bs di0 di1 ha hb hl

/-! ## `dual_channel` on Choi matrices -/

/-- **Adjoint identity (Choi form).**  For *any* matrix `J` of shape `(di0·do0) × (di1·do1)` (Hermitian or
    not), `dual_channel(J, [[di0, do0], [di1, do1]])` (entrywise conjugate, then `swap` with those row/column
    dimensions) is a matrix `D` of shape `(do0·di0) × (do1·di1)` with
    `⟨Y, Φ_J(X)⟩ = ⟨Φ_D(Y), X⟩` for all `X` (`di0 × di1`) and `Y` (`do0 × do1`), where `Φ_J`, `Φ_D` are the
    Choi-form evaluations of `apply_channel`. -/
theorem dual_adjoint_choi (J X Y : Mat α) (do0 do1 : Nat)
    (hxr : 0 < X.r) (hxc : 0 < X.c) (hyr : Y.r = do0) (hyc : Y.c = do1) (h0 : 0 < do0) (h1 : 0 < do1)
    (hJr : J.r = X.r * do0) (hJc : J.c = X.c * do1) :
    ∃ D, dualChoi J (.mat X.r do0 X.c do1) = .ok D ∧ D.r = do0 * X.r ∧ D.c = do1 * X.c ∧
      hsInner do0 do1 Y.e (applyChoi X J).e = hsInner X.r X.c (applyChoi Y D).e X.e := by
  obtain ⟨D, hD, hDr, hDc, hDe⟩ := dualChoi_e J X.r do0 X.c do1 hJr hJc
  refine ⟨D, hD, hDr, hDc, ?_⟩
  have e1 : hsInner do0 do1 Y.e (applyChoi X J).e
      = hsInner do0 do1 Y.e (applyChoiSpec J.e X.r X.c do0 do1 X.e) := by
    unfold hsInner
    apply sumN_congr; intro a ha
    apply sumN_congr; intro b hb
    rw [applyChoi_e X J do0 do1 hxr hxc hJr hJc a b ha hb]
  have e2 : hsInner X.r X.c (applyChoi Y D).e X.e
      = hsInner X.r X.c (applyChoiSpec D.e do0 do1 X.r X.c Y.e) X.e := by
    unfold hsInner
    apply sumN_congr; intro i hi
    apply sumN_congr; intro j hj
    rw [applyChoi_e Y D X.r X.c (by omega) (by omega) (by rw [hDr, hyr]) (by rw [hDc, hyc]) i j hi hj, hyr, hyc]
  rw [e1, e2]
  exact dual_adjoint_choiSpec J.e D.e X.e Y.e X.r X.c do0 do1 hDe

/-- **The Choi-form dual is the Choi matrix of the adjoint map.**  If `J` has the entries of
    `J(Φ)`, `Φ = Σ_k A_k · B_kᴴ`, then `dual_channel(J, dims)` has the entries of `J(Φ*)`,
    `Φ* = Σ_k A_kᴴ · (B_kᴴ)ᴴ`. -/
theorem dual_choi_is_choi_of_adjoint (r : Nat) (A B : Nat → Nat → Nat → α) (J : Mat α) (di0 do0 di1 do1 : Nat)
    (hJr : J.r = di0 * do0) (hJc : J.c = di1 * do1)
    (hJ : ∀ i a j b, i < di0 → a < do0 → j < di1 → b < do1 →
      J.e (i * do0 + a) (j * do1 + b) = applySpec r A B di0 di1 (unit i j) a b) :
    ∃ D, dualChoi J (.mat di0 do0 di1 do1) = .ok D ∧
      ∀ a i b j, a < do0 → i < di0 → b < do1 → j < di1 →
        D.e (a * di0 + i) (b * di1 + j) = applySpec r (adj A) (adj B) do0 do1 (unit a b) i j := by
  obtain ⟨D, hD, _, _, hDe⟩ := dualChoi_e J di0 do0 di1 do1 hJr hJc
  refine ⟨D, hD, ?_⟩
  intro a i b j ha hi hb hj
  rw [hDe a i b j ha hi hb hj, hJ i a j b hi ha hj hb, applySpec_unit r A B di0 di1 i j a b hi hj,
    applySpec_unit r (adj A) (adj B) do0 do1 a b i j ha hb, conj_eq_star, star_sumN]
  apply sumN_congr; intro k _
  simp only [adj, conj_eq_star, star_mul']

/-- The other accepted forms of `dims` mean the same 2×2 array: `[m, n]` is `[[m, n], [m, n]]`, an integer
    `d` is `[[d, d], [d, d]]`, and omitted `dims` are guessed as the square roots of the shape. -/
theorem dual_choi_dims_forms (J : Mat α) (m n d : Nat) :
    dualChoi J (.vec m n) = dualChoi J (.mat m n m n) ∧
    dualChoi J (.int d) = dualChoi J (.mat d d d d) ∧
    dualChoi J .none = dualChoi J (.mat (Nat.sqrt J.r) (Nat.sqrt J.r) (Nat.sqrt J.c) (Nat.sqrt J.c)) := by
  refine ⟨rfl, rfl, rfl⟩

/-! ## double dual -/

/-- **The dual of the dual is the original list** (hence acts as `Φ`), in every list form. -/
theorem dual_dual_acts_as_self (phi : KrausArg α) : dualKraus (dualKraus phi) = phi :=
  dualKraus_dualKraus phi

/-- **Double dual, Choi form**: applying `dual_channel` twice (the second time with input and output
    dimensions exchanged) returns the original entries. -/
theorem dual_dual_choi (J : Mat α) (di0 do0 di1 do1 : Nat) (hJr : J.r = di0 * do0) (hJc : J.c = di1 * do1) :
    ∃ D DD, dualChoi J (.mat di0 do0 di1 do1) = .ok D ∧ dualChoi D (.mat do0 di0 do1 di1) = .ok DD ∧
      DD.r = J.r ∧ DD.c = J.c ∧
      ∀ i a j b, i < di0 → a < do0 → j < di1 → b < do1 →
        DD.e (i * do0 + a) (j * do1 + b) = J.e (i * do0 + a) (j * do1 + b) := by
  obtain ⟨D, hD, hDr, hDc, hDe⟩ := dualChoi_e J di0 do0 di1 do1 hJr hJc
  obtain ⟨DD, hDD, hDDr, hDDc, hDDe⟩ := dualChoi_e D do0 di0 do1 di1 hDr hDc
  refine ⟨D, DD, hD, hDD, by rw [hDDr, hJr], by rw [hDDc, hJc], ?_⟩
  intro i a j b hi ha hj hb
  rw [hDDe i a j b hi ha hj hb, hDe a i b j ha hi hb hj, conj_eq_star, conj_eq_star, star_star]

/-! ## unital ⇔ dual trace-preserving -/

/-- **`Φ` is unital exactly when `Φ*` preserves the trace.**  For `Φ = Σ_k A_k · B_kᴴ` on square spaces
    (`A_k`, `B_k` of shape `d_out × d_in`): `Φ(1) = 1` iff `tr Φ*(Y) = tr Y` for all `Y`, where `Φ(1)` and
    `Φ*(Y)` are computed by the `apply_channel` model on the list and on the dual list. -/
theorem unital_iff_dual_tp (as bs : List (Mat α)) (d_in d_out : Nat)
    (ha : Shaped as d_out d_in) (hb : Shaped bs d_out d_in) (hl : as.length = bs.length) :
    (∀ a b, a < d_out → b < d_out →
        (applyKrausLists (identity d_in) as bs).e a b = (identity (α := α) d_out).e a b)
      ↔ ∀ Y : Nat → Nat → α,
        tr d_in (applyKrausLists ⟨d_out, d_out, Y⟩ (as.map Mat.ct) (bs.map Mat.ct)).e = tr d_out Y :=
  unital_iff_dual_tp_lists as bs d_in d_out ha hb hl

/-- **`Φ` preserves the trace exactly when `Φ*` is unital** (the mirror image of the previous theorem,
    obtained from it through the double dual). -/
theorem tp_iff_dual_unital (as bs : List (Mat α)) (d_in d_out : Nat)
    (ha : Shaped as d_out d_in) (hb : Shaped bs d_out d_in) (hl : as.length = bs.length) :
    (∀ X : Nat → Nat → α, tr d_out (applyKrausLists ⟨d_in, d_in, X⟩ as bs).e = tr d_in X)
      ↔ ∀ a b, a < d_in → b < d_in →
        (applyKrausLists (identity d_out) (as.map Mat.ct) (bs.map Mat.ct)).e a b = (identity (α := α) d_in).e a b := by
  have := unital_iff_dual_tp_lists (as.map Mat.ct) (bs.map Mat.ct) d_out d_in
    (shaped_map_ct as _ _ ha) (shaped_map_ct bs _ _ hb) (by simpa using hl)
  rw [map_ct_ct, map_ct_ct] at this
  exact this.symm

/-! ## trace preservation / unitality criteria on Kraus operators and on the Choi matrix -/

/-- **`Φ` preserves the trace ⇔ `Σ_k B_kᴴ A_k = 1`.**  For `Φ(X) = Σ_k A_k X B_kᴴ` (operators of shape
    `d_out × d_in`, any number of them; for a completely positive list `B = A` this is the completeness
    relation `Σ K_kᴴ K_k = 1` that `complementary_channel` tests): `tr Φ(X) = tr X` for *all* `X`, with `Φ(X)` the
    output of the `apply_channel` model, iff the `(j, i)` entry `Σ_k Σ_a conj(B_k[a,j])·A_k[a,i]` is `δ_ji`. -/
theorem tp_iff_kraus_complete (as bs : List (Mat α)) (d_in d_out : Nat)
    (ha : Shaped as d_out d_in) (hb : Shaped bs d_out d_in) (hl : as.length = bs.length) :
    (∀ X : Nat → Nat → α, tr d_out (applyKrausLists ⟨d_in, d_in, X⟩ as bs).e = tr d_in X)
      ↔ ∀ j i, j < d_in → i < d_in → sumBdA as.length (fam as) (fam bs) d_out j i = idMat j i := by
  have e : ∀ X : Nat → Nat → α, (applyKrausLists ⟨d_in, d_in, X⟩ as bs).e
      = applySpec as.length (fam as) (fam bs) d_in d_in X := by
    intro X; funext a b
    exact applyKrausLists_e ⟨d_in, d_in, X⟩ as bs d_out d_out ha hb hl a b
  simp only [e]
  exact applySpec_tp_iff as.length (fam as) (fam bs) d_in d_out

omit [StarRing α] in
/-- **Choi form: `Φ_J` preserves the trace ⇔ `Tr_out J = 1`.**  For *any* matrix `J` of shape
    `(d_in·d_out) × (d_in·d_out)`: `tr Φ_J(X) = tr X` for all `X`, with `Φ_J(X)` the output of the Choi branch of
    `apply_channel`, iff the partial trace of `J` over the output factor, `Σ_a J[(i,a),(j,a)]`, is `δ_ij`. -/
theorem tp_iff_choi_ptrace (J : Mat α) (d_in d_out : Nat) (hdi : 0 < d_in)
    (hJr : J.r = d_in * d_out) (hJc : J.c = d_in * d_out) :
    (∀ X : Nat → Nat → α, tr d_out (applyChoi ⟨d_in, d_in, X⟩ J).e = tr d_in X)
      ↔ ∀ i j, i < d_in → j < d_in → ptraceOut J.e d_out i j = idMat i j := by
  have e : ∀ X : Nat → Nat → α, tr d_out (applyChoi ⟨d_in, d_in, X⟩ J).e
      = tr d_out (applyChoiSpec J.e d_in d_in d_out d_out X) := by
    intro X
    unfold tr
    apply sumN_congr; intro a ha
    exact applyChoi_e ⟨d_in, d_in, X⟩ J d_out d_out hdi hdi hJr hJc a a ha ha
  simp only [e]
  exact choiSpec_tp_iff J.e d_in d_out

omit [StarRing α] in
/-- **Choi form: `Φ_J` is unital ⇔ `Tr_in J = 1`.**  `Φ_J(1) = 1` iff the partial trace of `J` over the input
    factor, `Σ_i J[(i,a),(i,b)]`, is `δ_ab`. -/
theorem unital_iff_choi_ptrace (J : Mat α) (d_in d_out : Nat) (hdi : 0 < d_in)
    (hJr : J.r = d_in * d_out) (hJc : J.c = d_in * d_out) :
    (∀ a b, a < d_out → b < d_out → (applyChoi (identity d_in) J).e a b = idMat a b)
      ↔ ∀ a b, a < d_out → b < d_out → ptraceIn J.e d_in d_out a b = idMat a b := by
  have e : ∀ a b, a < d_out → b < d_out → (applyChoi (identity d_in) J).e a b = ptraceIn J.e d_in d_out a b := by
    intro a b ha hb
    rw [applyChoi_e (identity d_in) J d_out d_out hdi hdi hJr hJc a b ha hb]
    exact applyChoiSpec_id J.e d_in d_out a b
  constructor
  · intro h a b ha hb; rw [← e a b ha hb]; exact h a b ha hb
  · intro h a b ha hb; rw [e a b ha hb]; exact h a b ha hb

omit [StarRing α] in
/-- **The two partial traces of the Choi matrix are `partial_trace`.**  `Tr_out J` / `Tr_in J` of the two
    criteria above are what the mirror model of `toqito.channels.partial_trace` (property C02) returns for
    `partial_trace(J, [1], [d_in, d_out])` / `partial_trace(J, [0], [d_in, d_out])`. -/
theorem choi_ptrace_is_partial_trace (J : Nat → Nat → α) (d_in d_out : Nat) (hdi : 0 < d_in) (hdo : 0 < d_out) :
    (∀ i j, i < d_in → j < d_in →
      Toq.PartialOps.partialTrace J 2 (fnOfList [d_in, d_out]) [1] i j = ptraceOut J d_out i j) ∧
    (∀ a b, a < d_out → b < d_out →
      Toq.PartialOps.partialTrace J 2 (fnOfList [d_in, d_out]) [0] a b = ptraceIn J d_in d_out a b) :=
  ⟨fun i j hi hj => ptraceOut_eq_partialTrace J d_in d_out hdi hdo i j hi hj,
   fun a b ha hb => ptraceIn_eq_partialTrace J d_in d_out hdi hdo a b ha hb⟩

/-- **The dual keeps the reading of the list**: a list that the cascade of `apply_channel` reads as a
    completely positive map (one operator list used on both sides) is returned by `dual_channel` as a list that
    is read as completely positive again, and a list of left/right pairs stays a list of pairs. -/
theorem dual_keeps_cp_reading (phi : KrausArg α) : (dualKraus phi).isCP = phi.isCP :=
  isCP_dualKraus phi

/-! ## `complementary_channel` -/

/-- **Guard and result.**  On a non-empty list of `d × d` operators with `Σ_k K_kᴴ K_k = s·1` exactly (the
    driver passes `scale·K` and `s = scale²`) the model passes all guards and returns the `d` operators
    `Kᶜ_row` of shape `r × d` with `Kᶜ_row[i, :] = K_i[row, :]`. -/
theorem compl_guard_and_result [DecidableEq α] (ops : List (Mat α)) (d : Nat) (s : α)
    (hs : Shaped ops d d) (hne : ops ≠ [])
    (hcomplete : ∀ i j, i < d → j < d → (sumKdK ops d).e i j = if i = j then s else 0) :
    complementary ops s = .ok (complList ops d) ∧ (complList ops d).length = d ∧
      Shaped (complList ops d) ops.length d ∧
      ∀ row i c, row < d → fam (complList ops d) row i c = fam ops i row c :=
  ⟨complementary_ok ops d s hs hne hcomplete, complList_length ops d, complList_shaped ops d,
    fun row i c h => fam_complList ops d row i c h⟩

/-- The guard computes `Σ_k K_kᴴ K_k`. -/
theorem compl_guard_sum (ops : List (Mat α)) (d : Nat) (hs : Shaped ops d d) (a b : Nat) :
    (sumKdK ops d).e a b
      = sumN ops.length (fun k => sumN d (fun row => HasConj.conj (fam ops k row a) * fam ops k row b)) :=
  sumKdK_e ops d hs a b

/-- **Entries of the complementary map.**  Applying the returned operators to `ρ` gives the `r × r` matrix
    with entry `(i, j)` equal to `tr(K_i ρ K_jᴴ)`: the environment marginal of the Stinespring dilation
    `ρ ↦ Σ_ij K_i ρ K_jᴴ ⊗ |i⟩⟨j|`. -/
theorem compl_entry (rho : Mat α) (ops : List (Mat α)) (d : Nat) (hr : rho.r = d) (hc : rho.c = d) (i j : Nat) :
    (applyKrausLists rho (complList ops d) (complList ops d)).e i j
      = tr d (applySpec 1 (fun _ => fam ops i) (fun _ => fam ops j) d d rho.e) :=
  compl_entry_lists rho ops d hr hc i j

/-- **The complementary map preserves the trace** whenever `Σ_k K_kᴴ K_k = 1`. -/
theorem compl_trace_preserving (rho : Mat α) (ops : List (Mat α)) (d : Nat) (hr : rho.r = d) (hc : rho.c = d)
    (hs : Shaped ops d d)
    (hcomplete : ∀ a b, a < d → b < d → (sumKdK ops d).e a b = if a = b then 1 else 0) :
    tr ops.length (applyKrausLists rho (complList ops d) (complList ops d)).e = tr d rho.e :=
  compl_tp_lists rho ops d hr hc hs hcomplete

/-- **The complementary family is complete again.**  For `d` operators of shape `d × d` (the case in which
    `complementary_channel` accepts its own output) `Σ_row (Kᶜ_row)ᴴ Kᶜ_row = Σ_i K_iᴴ K_i`, entry by entry of what the
    guard computes. -/
theorem compl_complete (ops : List (Mat α)) (d : Nat) (hs : Shaped ops d d) (hl : ops.length = d) (a b : Nat) :
    (sumKdK (complList ops d) d).e a b = (sumKdK ops d).e a b :=
  sumKdK_complList ops d hs hl a b

/-- **The complement of the complement is the original family.**  For `d` complete operators of shape `d × d`
    the model accepts the family, accepts the returned family as well, and the second result has the entries
    of the first input: `(Kᶜ)ᶜ_i[row, c] = K_i[row, c]`.  (For `r ≠ d` operators the code rejects its own
    output as non-square; on the level of families the row-stacking is an involution for every shape:
    `complStack (complStack K) = K`.) -/
theorem compl_compl [DecidableEq α] (ops : List (Mat α)) (d : Nat) (s : α)
    (hs : Shaped ops d d) (hne : ops ≠ []) (hl : ops.length = d)
    (hcomplete : ∀ i j, i < d → j < d → (sumKdK ops d).e i j = if i = j then s else 0) :
    complementary ops s = .ok (complList ops d) ∧
    complementary (complList ops d) s = .ok (complList (complList ops d) d) ∧
    (∀ i row c, i < d → row < d → fam (complList (complList ops d) d) i row c = fam ops i row c) ∧
    complStack (complStack (fam ops)) = fam ops := by
  have hs' : Shaped (complList ops d) d d := by
    have := complList_shaped ops d
    rwa [hl] at this
  have hne' : complList ops d ≠ [] := by
    intro h0
    have := complList_length ops d
    rw [h0] at this
    have : ops.length = 0 := by rw [hl]; exact this.symm
    exact hne (List.length_eq_zero_iff.mp this)
  refine ⟨complementary_ok ops d s hs hne hcomplete, ?_, ?_, rfl⟩
  · apply complementary_ok (complList ops d) d s hs' hne'
    intro i j hi hj
    rw [sumKdK_complList ops d hs hl i j]
    exact hcomplete i j hi hj
  · intro i row c hi hrow
    exact fam_complList_complList ops d i row c hi hrow

end Toq.C05

namespace Toq.C05
open Toq.ChannelOps Toq.ChannelSpec

/-! ## pure inputs: same non-zero spectrum -/

variable {α : Type} [CommRing α] [StarRing α]

/-- **Factorisation on pure inputs.**  With `M` the `d × r` matrix whose columns are `K_i ψ`:
    `Φ(ψψᴴ) = M Mᴴ` and `Φᶜ(ψψᴴ) = (Mᴴ M)ᵀ` (entries `tr(K_i ψψᴴ K_jᴴ)`). -/
theorem compl_pure_factorisation {ι m : Type} [Fintype ι] [Fintype m] (K : ι → Matrix m m α) (ψ : m → α) :
    (∑ i, K i * Matrix.vecMulVec ψ (star ψ) * (K i).conjTranspose
        = colsKpsi K ψ * (colsKpsi K ψ).conjTranspose) ∧
    ((Matrix.of fun i j => Matrix.trace (K i * Matrix.vecMulVec ψ (star ψ) * (K j).conjTranspose))
        = ((colsKpsi K ψ).conjTranspose * colsKpsi K ψ).transpose) :=
  ⟨phi_pure_eq K ψ, compl_pure_eq K ψ⟩

/-- **Same non-zero spectrum on pure inputs.**  The characteristic polynomials of `Φ(ψψᴴ)` (`d × d`) and
    `Φᶜ(ψψᴴ)` (`r × r`) differ only by a power of `X`: `X^r · χ_{Φ(ψψᴴ)} = X^d · χ_{Φᶜ(ψψᴴ)}`, so the two
    outputs have the same non-zero eigenvalues with the same multiplicities (no completeness assumption is
    needed for this). -/
theorem compl_spectrum_pure {ι m : Type} [Fintype ι] [Fintype m] [DecidableEq ι] [DecidableEq m]
    (K : ι → Matrix m m α) (ψ : m → α) :
    Polynomial.X ^ Fintype.card ι *
        (∑ i, K i * Matrix.vecMulVec ψ (star ψ) * (K i).conjTranspose).charpoly
      = Polynomial.X ^ Fintype.card m *
        (Matrix.of fun i j => Matrix.trace (K i * Matrix.vecMulVec ψ (star ψ) * (K j).conjTranspose)).charpoly :=
  compl_spectrum_matrix K ψ

/-- **Same non-zero spectrum on pure inputs, for the model outputs.**  For a list of `d × d` operators and
    `ρ = ψψᴴ`, the matrix returned by `apply_channel` on the list (`d × d`) and the matrix returned on the
    complementary list (`r × r`) satisfy `X^r · χ_{Φ(ρ)} = X^d · χ_{Φᶜ(ρ)}`. -/
theorem compl_spectrum_pure_model (ops : List (Mat α)) (d : Nat) (hs : Shaped ops d d) (psi : Nat → α) (rho : Mat α)
    (hr : rho.r = d) (hc : rho.c = d) (hrho : ∀ a b, rho.e a b = psi a * star (psi b)) :
    Polynomial.X ^ ops.length * (toM d d (applyKrausLists rho ops ops).e).charpoly
      = Polynomial.X ^ d *
        (toM ops.length ops.length (applyKrausLists rho (complList ops d) (complList ops d)).e).charpoly :=
  compl_spectrum_model ops d hs psi rho hr hc hrho

/-! ## complete positivity of the dual (Choi form) -/

/-- **`Φ` is completely positive iff `Φ*` is (Choi form).**  For a square matrix `J` of shape
    `(d_in·d_out) × (d_in·d_out)` over an ordered commutative star-ring (ℂ, ℝ, ℚ[i] …): the matrix returned by
    `dual_channel(J, [[d_in, d_out], [d_in, d_out]])` is positive semidefinite (Mathlib's `Matrix.PosSemidef`)
    exactly when `J` is — by Choi's theorem (cited, not formalised here) positive semidefiniteness of the Choi
    matrix is complete positivity of the map.  (For Kraus lists the corresponding statement is
    `dual_keeps_cp_reading`.) -/
theorem dual_choi_psd_iff {R : Type} [CommRing R] [PartialOrder R] [StarRing R] (J : Mat R) (d_in d_out : Nat)
    (hJr : J.r = d_in * d_out) (hJc : J.c = d_in * d_out) :
    ∃ D, dualChoi J (.mat d_in d_out d_in d_out) = .ok D ∧ D.r = d_out * d_in ∧ D.c = d_out * d_in ∧
      ((toM (d_out * d_in) (d_out * d_in) D.e).PosSemidef ↔ (toM (d_in * d_out) (d_in * d_out) J.e).PosSemidef) := by
  obtain ⟨D, hD, hDr, hDc, hDe⟩ := dualChoi_e J d_in d_out d_in d_out hJr hJc
  refine ⟨D, hD, hDr, hDc, ?_, psd_dual_entries J.e D.e d_in d_out hDe⟩
  intro hPD
  -- back through the double dual: the entries of the dual of `D` are those of `J`
  let JJ : Nat → Nat → R := fun p q => HasConj.conj (D.e ((p % d_out) * d_in + p / d_out) ((q % d_out) * d_in + q / d_out))
  have hJJ : ∀ i a j b, i < d_in → a < d_out → j < d_in → b < d_out →
      JJ (i * d_out + a) (j * d_out + b) = HasConj.conj (D.e (a * d_in + i) (b * d_in + j)) := by
    intro i a j b _ ha _ hb
    obtain ⟨h1, h2⟩ := divmod_be i d_out a ha
    obtain ⟨h3, h4⟩ := divmod_be j d_out b hb
    simp only [JJ, h1, h2, h3, h4]
  have hpsd := psd_dual_entries D.e JJ d_out d_in hJJ hPD
  have heq : toM (d_in * d_out) (d_in * d_out) JJ = toM (d_in * d_out) (d_in * d_out) J.e := by
    rw [toM_eq_iff]
    intro p q hp hq
    obtain ⟨h1, h2, h3⟩ := index_split p d_in d_out hp
    obtain ⟨h4, h5, h6⟩ := index_split q d_in d_out hq
    have e1 := hJJ (p / d_out) (p % d_out) (q / d_out) (q % d_out) h1 h2 h4 h5
    rw [h3, h6] at e1
    rw [e1, hDe (p % d_out) (p / d_out) (q % d_out) (q / d_out) h2 h1 h5 h4, h3, h6, conj_eq_star, conj_eq_star,
      star_star]
  rwa [heq] at hpsd

/-! ## non-vacuity -/

/-- the hypotheses are satisfiable and the models compute: a non-CP map `M_{2} → M_{2}` given by one pair
    over the Gaussian integers, its dual, and the adjoint identity on a concrete pair `X`, `Y` -/
example :
    let A : Mat GI := ⟨2, 2, fun a b => ⟨a + 1, b⟩⟩
    let B : Mat GI := ⟨2, 2, fun a b => ⟨b, 2 * a + 1⟩⟩
    let X : Mat GI := ⟨2, 2, fun a b => ⟨a, b + 1⟩⟩
    let Y : Mat GI := ⟨2, 2, fun a b => ⟨2 * b, a⟩⟩
    (KrausArg.pairs [A] [B]).split.isSome = true ∧
    ((applyKraus X (KrausArg.pairs [A] [B])).bind fun M =>
      (applyKraus Y (dualKraus (KrausArg.pairs [A] [B]))).map fun D =>
        decide (hsInner 2 2 Y.e M.e = hsInner 2 2 D.e X.e)) = some true := by
  decide

end Toq.C05
