import Toq.Model.ChannelOps
import Toq.Spec.ChannelOps
import Toq.Proofs.ChannelOps
import Toq.Model.ChannelOpsExtra
import Toq.Proofs.ChannelOpsExtra
/-!
# C04 — one linear map, many representations: all of them act identically

Property theorems only (helper lemmas live in `Toq/Proofs/ChannelOps.lean`).  The mirror models in
`Toq/Model/ChannelOps.lean` follow `apply_channel.py`, `kraus_to_choi.py`, `partial_channel.py`,
`natural_representation.py` and `helper/channel_dim.py` line by line; the specification
(`Toq/Spec/ChannelOps.lean`) is `Φ(X) = Σ_k A_k X B_kᴴ` and `J(Φ) = Σ_ij E_ij ⊗ Φ(E_ij)`.

Everything is stated for an arbitrary commutative star-semiring of scalars (ℂ, ℝ with trivial star, the
Gaussian integers the driver runs on, …), arbitrary numbers of Kraus operators and arbitrary (also
unequal, also rectangular) input and output dimensions.  A list of matrices `l` is read as the family
`fam l k = (l[k]).e`; `Shaped l r c` says that every listed matrix has shape `r × c`.
-/
namespace Toq.C04
open Toq.ChannelOps Toq.ChannelSpec Toq.ChannelOps.Mat

variable {α : Type} [CommSemiring α] [StarRing α]

/-! ## `apply_channel` on Kraus lists -/

/-- **Kraus form = Σ A X Bᴴ.**  Whatever list the `isinstance` cascade of `apply_channel` extracts
    (`phi.split = some (as, bs)`: left operators `as`, right operators `bs`), the concatenate / kron /
    matmul evaluation of the code returns the matrix with entries `Σ_k Σ_i Σ_j A_k[a,i] X[i,j] conj(B_k[b,j])`,
    of shape `do0 × do1`, for every number of operators and all (also rectangular) shapes. -/
theorem applyKraus_eq_spec (X : Mat α) (phi : KrausArg α) (as bs : List (Mat α)) (do0 do1 : Nat)
    (hsplit : phi.split = some (as, bs)) (ha : Shaped as do0 X.r) (hb : Shaped bs do1 X.c)
    (hl : as.length = bs.length) (hne : as ≠ []) :
    ∃ M, applyKraus X phi = some M ∧ M.r = do0 ∧ M.c = do1 ∧
      ∀ a b, M.e a b = applySpec as.length (fam as) (fam bs) X.r X.c X.e a b := by
  refine ⟨_, applyKraus_of_split X phi as bs hsplit, ?_, ?_, ?_⟩
  · exact (applyKrausLists_shape X as bs do0 do1 ha hb hl hne).1
  · exact (applyKrausLists_shape X as bs do0 do1 ha hb hl hne).2
  · exact applyKrausLists_e X as bs do0 do1 ha hb hl

omit [CommSemiring α] [StarRing α] in
/-- The flat list `[K_1, …, K_r]` denotes the completely positive map with `A = B = K`. -/
theorem cascade_flat (ks : List (Mat α)) (h : ks ≠ []) : (KrausArg.flat ks).split = some (ks, ks) :=
  split_flat ks h

omit [CommSemiring α] [StarRing α] in
/-- The column form `[[K_1], …, [K_r]]` denotes the same completely positive map. -/
theorem cascade_column (ks : List (Mat α)) (h : ks ≠ []) : (KrausArg.column ks).split = some (ks, ks) :=
  split_column ks h

omit [CommSemiring α] [StarRing α] in
/-- The row form `[[K_1, …, K_r]]` denotes the same completely positive map when `r = 1` or `r > 2`
    (`[[K_1, K_2]]` is, as documented in the code, one left/right pair). -/
theorem cascade_row (ks : List (Mat α)) (h : ks.length = 1 ∨ 2 < ks.length) :
    (KrausArg.row ks).split = some (ks, ks) :=
  split_row ks h

omit [CommSemiring α] [StarRing α] in
/-- The paired form `[[A_1, B_1], …, [A_r, B_r]]` denotes `X ↦ Σ_k A_k X B_kᴴ`. -/
theorem cascade_pairs (as bs : List (Mat α)) (hl : as.length = bs.length) (h : as ≠ []) :
    (KrausArg.pairs as bs).split = some (as, bs) :=
  split_pairs as bs hl h

/-- The same statement in Mathlib's matrix vocabulary: the returned array, read as a
    `Matrix (Fin do0) (Fin do1) α`, is `Σ_k A_k * X * (B_k)ᴴ`. -/
theorem applyKraus_eq_matrix (X : Mat α) (phi : KrausArg α) (as bs : List (Mat α)) (do0 do1 : Nat)
    (hsplit : phi.split = some (as, bs)) (ha : Shaped as do0 X.r) (hb : Shaped bs do1 X.c)
    (hl : as.length = bs.length) :
    ∃ M, applyKraus X phi = some M ∧
      toM do0 do1 M.e = ∑ k : Fin as.length,
        toM do0 X.r (fam as k) * toM X.r X.c X.e * (toM do1 X.c (fam bs k)).conjTranspose :=
  ⟨_, applyKraus_of_split X phi as bs hsplit, toM_applyKrausLists X as bs do0 do1 ha hb hl⟩

/-! ## `kraus_to_choi` -/

/-- **Kraus → Choi (pairs).**  `kraus_to_choi([[A_1,B_1],…])` (through `channel_dim`, the unnormalised
    maximally entangled operator and `partial_channel` on its second half) is the `(di0·do0) × (di1·do1)`
    matrix whose entry at row `(i, a)`, column `(j, b)` is `Φ(E_ij)[a, b]`: it is `Σ_ij E_ij ⊗ Φ(E_ij)`,
    for unequal and rectangular input/output dimensions. -/
theorem krausToChoi_eq_spec (as bs : List (Mat α)) (di0 di1 do0 do1 : Nat)
    (ha : Shaped as do0 di0) (hb : Shaped bs do1 di1) (hl : as.length = bs.length) (h : as ≠ []) :
    ∃ J, krausToChoi (KrausArg.pairs as bs) = some J ∧ J.r = di0 * do0 ∧ J.c = di1 * do1 ∧
      ∀ i a j b, i < di0 → a < do0 → j < di1 → b < do1 →
        J.e (i * do0 + a) (j * do1 + b) = applySpec as.length (fam as) (fam bs) di0 di1 (unit i j) a b :=
  krausToChoi_core _ as bs di0 di1 do0 do1 _ ha hb hl h
    (channelDimKraus_pairs as bs di0 di1 do0 do1 ha hb hl h)
    (fun rho => by
      have := partialChannelKraus_pairs rho as bs hl h 2 2 (fnOfList [di0, di0]) (fnOfList [di1, di1])
      rwa [prodBefore_two, prodAfter_two, prodBefore_two, prodAfter_two] at this)

/-- The entries of `kraus_to_choi` are those of the specification `choiSpec` at every position. -/
theorem krausToChoi_eq_choiSpec (as bs : List (Mat α)) (di0 di1 do0 do1 : Nat)
    (ha : Shaped as do0 di0) (hb : Shaped bs do1 di1) (hl : as.length = bs.length) (h : as ≠ []) :
    ∃ J, krausToChoi (KrausArg.pairs as bs) = some J ∧
      ∀ p q, p < di0 * do0 → q < di1 * do1 →
        J.e p q = choiSpec as.length (fam as) (fam bs) di0 di1 do0 do1 p q := by
  obtain ⟨J, hJ, _, _, he⟩ := krausToChoi_eq_spec as bs di0 di1 do0 do1 ha hb hl h
  refine ⟨J, hJ, ?_⟩
  intro p q hp hq
  have hdo0 : 0 < do0 := by
    rcases Nat.eq_zero_or_pos do0 with h0 | h0
    · subst h0; simp at hp
    · exact h0
  have hdo1 : 0 < do1 := by
    rcases Nat.eq_zero_or_pos do1 with h0 | h0
    · subst h0; simp at hq
    · exact h0
  have := he (p / do0) (p % do0) (q / do1) (q % do1)
    ((Nat.div_lt_iff_lt_mul hdo0).mpr hp) (Nat.mod_lt _ hdo0)
    ((Nat.div_lt_iff_lt_mul hdo1).mpr hq) (Nat.mod_lt _ hdo1)
  rw [Nat.div_add_mod' p do0, Nat.div_add_mod' q do1] at this
  exact this

/-- **Kraus → Choi (completely positive forms).**  For the flat, column and row forms the result is the
    Choi matrix of `X ↦ Σ_k K_k X K_kᴴ`. -/
theorem krausToChoi_cp_eq_spec (ks : List (Mat α)) (d_in d_out : Nat) (hs : Shaped ks d_out d_in) (h : ks ≠ [])
    (phi : KrausArg α)
    (hform : phi = .flat ks ∨ phi = KrausArg.column ks ∨ (phi = KrausArg.row ks ∧ (ks.length = 1 ∨ 2 < ks.length))) :
    ∃ J, krausToChoi phi = some J ∧ J.r = d_in * d_out ∧ J.c = d_in * d_out ∧
      ∀ i a j b, i < d_in → a < d_out → j < d_in → b < d_out →
        J.e (i * d_out + a) (j * d_out + b) = applySpec ks.length (fam ks) (fam ks) d_in d_in (unit i j) a b := by
  rcases hform with rfl | rfl | ⟨rfl, hr⟩
  · exact krausToChoi_core _ ks ks d_in d_in d_out d_out _ hs hs rfl h (channelDimKraus_cp ks d_in d_out hs h)
      (fun rho => by
        have := partialChannelKraus_flat rho ks h 2 2 (fnOfList [d_in, d_in]) (fnOfList [d_in, d_in])
        rwa [prodBefore_two, prodAfter_two] at this)
  · exact krausToChoi_core _ ks ks d_in d_in d_out d_out _ hs hs rfl h (channelDimKraus_column ks d_in d_out hs h)
      (fun rho => by
        have := partialChannelKraus_column rho ks h 2 2 (fnOfList [d_in, d_in]) (fnOfList [d_in, d_in])
        rwa [prodBefore_two, prodAfter_two] at this)
  · exact krausToChoi_core _ ks ks d_in d_in d_out d_out _ hs hs rfl h (channelDimKraus_row ks d_in d_out hs hr)
      (fun rho => by
        have := partialChannelKraus_row rho ks hr 2 2 (fnOfList [d_in, d_in]) (fnOfList [d_in, d_in])
        rwa [prodBefore_two, prodAfter_two] at this)

/-! ## `apply_channel` on a Choi matrix -/

omit [StarRing α] in
/-- **Choi evaluation.**  For *any* matrix `J` of shape `(X.r·p0) × (X.c·p1)` the vec / kron / row-swap /
    reshape evaluation of `apply_channel` returns `Σ_ij X[i,j] · J[(i,·),(j,·)]`, the sum of the blocks of
    `J` weighted by the entries of `X` (rectangular `X`, unequal input and output dimensions). -/
theorem applyChoi_eq_sum (X J : Mat α) (p0 p1 : Nat) (hxr : 0 < X.r) (hxc : 0 < X.c)
    (hJr : J.r = X.r * p0) (hJc : J.c = X.c * p1) (a b : Nat) (ha : a < p0) (hb : b < p1) :
    (applyChoi X J).e a b = applyChoiSpec J.e X.r X.c p0 p1 X.e a b :=
  applyChoi_e X J p0 p1 hxr hxc hJr hJc a b ha hb

/-- **Choi form acts as the map.**  If the entries of `J` are those of `J(Φ) = Σ_ij E_ij ⊗ Φ(E_ij)` for
    `Φ = Σ_k A_k · B_kᴴ`, then `apply_channel(X, J) = Φ(X)`. -/
theorem applyChoi_eq_spec_of_choi (r : Nat) (A B : Nat → Nat → Nat → α) (X J : Mat α) (do0 do1 : Nat)
    (hxr : 0 < X.r) (hxc : 0 < X.c) (hJr : J.r = X.r * do0) (hJc : J.c = X.c * do1)
    (hJ : ∀ i a j b, i < X.r → a < do0 → j < X.c → b < do1 →
      J.e (i * do0 + a) (j * do1 + b) = applySpec r A B X.r X.c (unit i j) a b)
    (a b : Nat) (ha : a < do0) (hb : b < do1) :
    (applyChoi X J).e a b = applySpec r A B X.r X.c X.e a b := by
  rw [applyChoi_e X J do0 do1 hxr hxc hJr hJc a b ha hb]
  exact applyChoiSpec_of_choi r A B X.r X.c do0 do1 J.e X.e hJ a b ha hb

/-- **Representation independence.**  For every family `(A_k, B_k)` (any rank, any shapes) and every
    input `X`: applying the paired Kraus list and applying the Choi matrix computed by `kraus_to_choi`
    from that list give the same matrix. -/
theorem apply_repr_independent (X : Mat α) (as bs : List (Mat α)) (do0 do1 : Nat)
    (hxr : 0 < X.r) (hxc : 0 < X.c)
    (ha : Shaped as do0 X.r) (hb : Shaped bs do1 X.c) (hl : as.length = bs.length) (h : as ≠ []) :
    ∃ M J, applyKraus X (KrausArg.pairs as bs) = some M ∧ krausToChoi (KrausArg.pairs as bs) = some J ∧
      ∀ a b, a < do0 → b < do1 → (applyChoi X J).e a b = M.e a b := by
  obtain ⟨M, hM, _, _, hMe⟩ := applyKraus_eq_spec X _ as bs do0 do1 (split_pairs as bs hl h) ha hb hl h
  obtain ⟨J, hJ, hJr, hJc, hJe⟩ := krausToChoi_eq_spec as bs X.r X.c do0 do1 ha hb hl h
  refine ⟨M, J, hM, hJ, ?_⟩
  intro a b ha' hb'
  rw [hMe a b]
  exact applyChoi_eq_spec_of_choi as.length (fam as) (fam bs) X J do0 do1 hxr hxc hJr hJc hJe a b ha' hb'

/-- **What `choi_to_kraus` must deliver.**  Let `J` be any matrix of shape `(di0·do0) × (di1·do1)`
    (Hermitian positive semidefinite, Hermitian indefinite or not Hermitian at all) and `(A_k, B_k)` any
    family with `Σ_k vec(A_k) vec(B_k)ᴴ = J`, `vec` being the column-major vectorisation the code un-does
    with `unvec(·, shape=(d_out, d_in))`.  Then the paired Kraus list acts on every `X` exactly as the Choi
    matrix does. -/
theorem kraus_of_choi_reproduces (X J : Mat α) (as bs : List (Mat α)) (do0 do1 : Nat)
    (hxr : 0 < X.r) (hxc : 0 < X.c) (hJr : J.r = X.r * do0) (hJc : J.c = X.c * do1)
    (ha : Shaped as do0 X.r) (hb : Shaped bs do1 X.c) (hl : as.length = bs.length) (h : as ≠ [])
    (hvec : ∀ p q, p < J.r → q < J.c →
      sumN as.length (fun k => (⟨do0, X.r, fam as k⟩ : Mat α).vecF p
        * HasConj.conj ((⟨do1, X.c, fam bs k⟩ : Mat α).vecF q)) = J.e p q) :
    ∃ M, applyKraus X (KrausArg.pairs as bs) = some M ∧
      ∀ a b, a < do0 → b < do1 → M.e a b = (applyChoi X J).e a b := by
  obtain ⟨M, hM, _, _, hMe⟩ := applyKraus_eq_spec X _ as bs do0 do1 (split_pairs as bs hl h) ha hb hl h
  refine ⟨M, hM, ?_⟩
  intro a b ha' hb'
  rw [hMe a b]
  symm
  apply applyChoi_eq_spec_of_choi as.length (fam as) (fam bs) X J do0 do1 hxr hxc hJr hJc _ a b ha' hb'
  intro i a' j b' hi ha'' hj hb''
  rw [applySpec_unit _ _ _ _ _ i j a' b' hi hj]
  have hp : i * do0 + a' < J.r := by rw [hJr]; exact lt_mul_of_digits i X.r a' do0 hi ha''
  have hq : j * do1 + b' < J.c := by rw [hJc]; exact lt_mul_of_digits j X.c b' do1 hj hb''
  rw [← hvec _ _ hp hq]
  obtain ⟨h1, h2⟩ := divmod_be i do0 a' ha''
  obtain ⟨h3, h4⟩ := divmod_be j do1 b' hb''
  simp only [Mat.vecF, h1, h2, h3, h4]

/-! ## `partial_channel` -/

/-- **Partial application = id ⊗ Φ ⊗ id (Kraus pairs).**  With `pre`/`post` the products of the
    dimensions before/after the target subsystem `sys` (1-indexed, any number `n` of subsystems, separate row
    and column dimension vectors `rd`, `cd`), entry `((p,a,q),(p',b,q'))` of `partial_channel(ρ, [[A,B]…], sys, dim)`
    is `Σ_k Σ_i Σ_j A_k[a,i] · ρ[(p,i,q),(p',j,q')] · conj(B_k[b,j])`: the map acts on the target factor only
    and the surrounding labels are carried along. -/
theorem partialChannel_eq_id_tensor (rho : Mat α) (as bs : List (Mat α)) (sys n : Nat) (rd cd : Nat → Nat)
    (do0 do1 : Nat) (ha : Shaped as do0 (rd (sys - 1))) (hb : Shaped bs do1 (cd (sys - 1)))
    (hl : as.length = bs.length) (h : as ≠ [])
    (hr : rho.r = prodBefore rd sys * rd (sys - 1) * prodAfter rd n sys)
    (hc : rho.c = prodBefore cd sys * cd (sys - 1) * prodAfter cd n sys) :
    ∃ M, partialChannelKraus rho (KrausArg.pairs as bs) sys n rd cd = some M ∧
      ∀ p a q p' b q', p < prodBefore rd sys → a < do0 → q < prodAfter rd n sys →
        p' < prodBefore cd sys → b < do1 → q' < prodAfter cd n sys →
        M.e ((p * do0 + a) * prodAfter rd n sys + q) ((p' * do1 + b) * prodAfter cd n sys + q')
          = sumN as.length fun k => sumN (rd (sys - 1)) fun i => sumN (cd (sys - 1)) fun j =>
              fam as k a i
                * rho.e ((p * rd (sys - 1) + i) * prodAfter rd n sys + q) ((p' * cd (sys - 1) + j) * prodAfter cd n sys + q')
                * HasConj.conj (fam bs k b j) := by
  refine ⟨_, partialChannelKraus_pairs rho as bs hl h sys n rd cd, ?_⟩
  intro p a q p' b q' hp ha' hq hp' hb' hq'
  exact partialKrausLists_e rho as bs _ _ _ _ _ _ do0 do1 ha hb hl hr hc p a q p' b q' hp ha' hq hp' hb' hq'

/-- The dimension bookkeeping of `partial_channel`: the size of the whole space is
    `prod(dim[:sys-1]) · dim[sys-1] · prod(dim[sys:])`, so the shape hypotheses above are exactly
    `ρ.shape = (prod rd, prod cd)`. -/
theorem partialChannel_dims_split (d : Nat → Nat) (n sys : Nat) (h1 : 1 ≤ sys) (h2 : sys ≤ n) :
    prodN d n = prodBefore d sys * d (sys - 1) * prodAfter d n sys :=
  prodN_split d n sys h1 h2

/-- **Completely positive forms.**  For the flat, column and row forms `partial_channel` applies
    `id ⊗ (Σ_k K_k · K_kᴴ) ⊗ id` (same dimension vector for rows and columns). -/
theorem partialChannel_cp_eq_id_tensor (rho : Mat α) (ks : List (Mat α)) (sys n : Nat) (rd cd : Nat → Nat)
    (d_out : Nat) (hs : Shaped ks d_out (rd (sys - 1))) (h : ks ≠ [])
    (phi : KrausArg α)
    (hform : phi = .flat ks ∨ phi = KrausArg.column ks ∨ (phi = KrausArg.row ks ∧ (ks.length = 1 ∨ 2 < ks.length)))
    (hr : rho.r = prodBefore rd sys * rd (sys - 1) * prodAfter rd n sys)
    (hc : rho.c = prodBefore rd sys * rd (sys - 1) * prodAfter rd n sys) :
    ∃ M, partialChannelKraus rho phi sys n rd cd = some M ∧
      ∀ p a q p' b q', p < prodBefore rd sys → a < d_out → q < prodAfter rd n sys →
        p' < prodBefore rd sys → b < d_out → q' < prodAfter rd n sys →
        M.e ((p * d_out + a) * prodAfter rd n sys + q) ((p' * d_out + b) * prodAfter rd n sys + q')
          = sumN ks.length fun k => sumN (rd (sys - 1)) fun i => sumN (rd (sys - 1)) fun j =>
              fam ks k a i
                * rho.e ((p * rd (sys - 1) + i) * prodAfter rd n sys + q) ((p' * rd (sys - 1) + j) * prodAfter rd n sys + q')
                * HasConj.conj (fam ks k b j) := by
  have key : partialChannelKraus rho phi sys n rd cd
      = some (applyKrausLists rho (ks.map (embed (prodBefore rd sys) (prodAfter rd n sys)))
          (ks.map (embed (prodBefore rd sys) (prodAfter rd n sys)))) := by
    rcases hform with rfl | rfl | ⟨rfl, hrow⟩
    · exact partialChannelKraus_flat rho ks h sys n rd cd
    · exact partialChannelKraus_column rho ks h sys n rd cd
    · exact partialChannelKraus_row rho ks hrow sys n rd cd
  refine ⟨_, key, ?_⟩
  intro p a q p' b q' hp ha' hq hp' hb' hq'
  exact partialKrausLists_e rho ks ks _ _ _ _ _ _ d_out d_out hs hs rfl hr hc p a q p' b q' hp ha' hq hp' hb' hq'

/-- **Product operators.**  On `ρ = P ⊗ X ⊗ Q` (entries `P[p,p'] · X[i,j] · Q[q,q']`) the result is
    `P ⊗ Φ(X) ⊗ Q`; in particular for two subsystems (`pre = 1` or `post = 1`) it is `Φ(X) ⊗ Q`
    or `P ⊗ Φ(X)`. -/
theorem partialChannel_product (rho : Mat α) (as bs : List (Mat α)) (sys n : Nat) (rd cd : Nat → Nat)
    (do0 do1 : Nat) (ha : Shaped as do0 (rd (sys - 1))) (hb : Shaped bs do1 (cd (sys - 1)))
    (hl : as.length = bs.length) (h : as ≠ [])
    (hr : rho.r = prodBefore rd sys * rd (sys - 1) * prodAfter rd n sys)
    (hc : rho.c = prodBefore cd sys * cd (sys - 1) * prodAfter cd n sys)
    (P X Q : Nat → Nat → α)
    (hprod : ∀ p i q p' j q', p < prodBefore rd sys → i < rd (sys - 1) → q < prodAfter rd n sys →
      p' < prodBefore cd sys → j < cd (sys - 1) → q' < prodAfter cd n sys →
      rho.e ((p * rd (sys - 1) + i) * prodAfter rd n sys + q) ((p' * cd (sys - 1) + j) * prodAfter cd n sys + q')
        = P p p' * X i j * Q q q') :
    ∃ M, partialChannelKraus rho (KrausArg.pairs as bs) sys n rd cd = some M ∧
      ∀ p a q p' b q', p < prodBefore rd sys → a < do0 → q < prodAfter rd n sys →
        p' < prodBefore cd sys → b < do1 → q' < prodAfter cd n sys →
        M.e ((p * do0 + a) * prodAfter rd n sys + q) ((p' * do1 + b) * prodAfter cd n sys + q')
          = P p p' * applySpec as.length (fam as) (fam bs) (rd (sys - 1)) (cd (sys - 1)) X a b * Q q q' := by
  obtain ⟨M, hM, hMe⟩ := partialChannel_eq_id_tensor rho as bs sys n rd cd do0 do1 ha hb hl h hr hc
  refine ⟨M, hM, ?_⟩
  intro p a q p' b q' hp ha' hq hp' hb' hq'
  rw [hMe p a q p' b q' hp ha' hq hp' hb' hq']
  unfold applySpec
  rw [sumN_mul_left, sumN_mul_right]
  apply sumN_congr; intro k _
  rw [sumN_mul_left, sumN_mul_right]
  apply sumN_congr; intro i hi
  rw [sumN_mul_left, sumN_mul_right]
  apply sumN_congr; intro j hj
  rw [hprod p i q p' j q' hp hi hq hp' hj hq']
  ring

/-- **Partial application with a Choi matrix.**  For *any* matrix `J` of shape `(d0·o0) × (d1·o1)` the
    Choi branch of `partial_channel` (6-factor `dim` array, Kronecker product with the two maximally entangled
    operators, `permute_systems` by `[0,2,4,1,3,5]`, then `apply_channel`) returns
    `Σ_ij ρ[(p,i,q),(p',j,q')] · J[(i,a),(j,b)]`, i.e. `id ⊗ Φ_J ⊗ id`. -/
theorem partialChannel_choi_eq_id_tensor (rho J : Mat α) (sys n : Nat) (rd cd : Nat → Nat) (o0 o1 : Nat)
    (hd0 : 0 < rd (sys - 1)) (hd1 : 0 < cd (sys - 1))
    (hJr : J.r = rd (sys - 1) * o0) (hJc : J.c = cd (sys - 1) * o1)
    (hr : rho.r = prodBefore rd sys * rd (sys - 1) * prodAfter rd n sys)
    (hc : rho.c = prodBefore cd sys * cd (sys - 1) * prodAfter cd n sys)
    (p a q p' b q' : Nat)
    (hp : p < prodBefore rd sys) (ha : a < o0) (hq : q < prodAfter rd n sys)
    (hp' : p' < prodBefore cd sys) (hb : b < o1) (hq' : q' < prodAfter cd n sys) :
    (partialChannelChoi rho J sys n rd cd).e ((p * o0 + a) * prodAfter rd n sys + q) ((p' * o1 + b) * prodAfter cd n sys + q')
      = sumN (rd (sys - 1)) fun i => sumN (cd (sys - 1)) fun j =>
          rho.e ((p * rd (sys - 1) + i) * prodAfter rd n sys + q) ((p' * cd (sys - 1) + j) * prodAfter cd n sys + q')
            * J.e (i * o0 + a) (j * o1 + b) :=
  partialChannelChoi_e rho J sys n rd cd o0 o1 hd0 hd1 hJr hJc hr hc p a q p' b q' hp ha hq hp' hb hq'

/-- **Kraus and Choi branches of `partial_channel` agree.**  If `J` has the entries of the Choi matrix of
    `Φ = Σ_k A_k · B_kᴴ`, both branches return the same matrix. -/
theorem partialChannel_repr_independent (rho J : Mat α) (as bs : List (Mat α)) (sys n : Nat) (rd cd : Nat → Nat)
    (do0 do1 : Nat) (hd0 : 0 < rd (sys - 1)) (hd1 : 0 < cd (sys - 1))
    (ha : Shaped as do0 (rd (sys - 1))) (hb : Shaped bs do1 (cd (sys - 1)))
    (hl : as.length = bs.length) (h : as ≠ [])
    (hJr : J.r = rd (sys - 1) * do0) (hJc : J.c = cd (sys - 1) * do1)
    (hJ : ∀ i a j b, i < rd (sys - 1) → a < do0 → j < cd (sys - 1) → b < do1 →
      J.e (i * do0 + a) (j * do1 + b) = applySpec as.length (fam as) (fam bs) (rd (sys - 1)) (cd (sys - 1)) (unit i j) a b)
    (hr : rho.r = prodBefore rd sys * rd (sys - 1) * prodAfter rd n sys)
    (hc : rho.c = prodBefore cd sys * cd (sys - 1) * prodAfter cd n sys) :
    ∃ M, partialChannelKraus rho (KrausArg.pairs as bs) sys n rd cd = some M ∧
      ∀ p a q p' b q', p < prodBefore rd sys → a < do0 → q < prodAfter rd n sys →
        p' < prodBefore cd sys → b < do1 → q' < prodAfter cd n sys →
        (partialChannelChoi rho J sys n rd cd).e ((p * do0 + a) * prodAfter rd n sys + q) ((p' * do1 + b) * prodAfter cd n sys + q')
          = M.e ((p * do0 + a) * prodAfter rd n sys + q) ((p' * do1 + b) * prodAfter cd n sys + q') := by
  obtain ⟨M, hM, hMe⟩ := partialChannel_eq_id_tensor rho as bs sys n rd cd do0 do1 ha hb hl h hr hc
  refine ⟨M, hM, ?_⟩
  intro p a q p' b q' hp ha' hq hp' hb' hq'
  rw [hMe p a q p' b q' hp ha' hq hp' hb' hq',
    partialChannelChoi_e rho J sys n rd cd do0 do1 hd0 hd1 hJr hJc hr hc p a q p' b q' hp ha' hq hp' hb' hq']
  -- Σ_i Σ_j ρ · (Σ_k A conj B)  =  Σ_k Σ_i Σ_j A ρ conj B
  have e : ∀ i, i < rd (sys - 1) → sumN (cd (sys - 1)) (fun j =>
        rho.e ((p * rd (sys - 1) + i) * prodAfter rd n sys + q) ((p' * cd (sys - 1) + j) * prodAfter cd n sys + q')
          * J.e (i * do0 + a) (j * do1 + b))
      = sumN (cd (sys - 1)) (fun j => sumN as.length (fun k => fam as k a i
          * rho.e ((p * rd (sys - 1) + i) * prodAfter rd n sys + q) ((p' * cd (sys - 1) + j) * prodAfter cd n sys + q')
          * HasConj.conj (fam bs k b j))) := by
    intro i hi
    apply sumN_congr; intro j hj
    rw [hJ i a j b hi ha' hj hb', applySpec_unit _ _ _ _ _ i j a b hi hj, sumN_mul_left]
    apply sumN_congr; intro k _; ring
  rw [sumN_congr _ _ _ e]
  have c1 : ∀ i, i < rd (sys - 1) → sumN (cd (sys - 1)) (fun j => sumN as.length (fun k => fam as k a i
          * rho.e ((p * rd (sys - 1) + i) * prodAfter rd n sys + q) ((p' * cd (sys - 1) + j) * prodAfter cd n sys + q')
          * HasConj.conj (fam bs k b j)))
      = sumN as.length (fun k => sumN (cd (sys - 1)) (fun j => fam as k a i
          * rho.e ((p * rd (sys - 1) + i) * prodAfter rd n sys + q) ((p' * cd (sys - 1) + j) * prodAfter cd n sys + q')
          * HasConj.conj (fam bs k b j))) := fun i _ => sumN_comm _ _ _
  rw [sumN_congr _ _ _ c1, sumN_comm]

/-! ## `natural_representation` -/

/-- **Natural representation.**  `natural_representation([K_1,…,K_r]) = Σ_k K_k ⊗ conj(K_k)` satisfies
    `K · vec_r(X) = vec_r(Φ(X))` with the row-major vectorisation `vec_r(X)[i·n + j] = X[i,j]`, for
    `Φ(X) = Σ_k K_k X K_kᴴ`, rectangular `K_k` allowed. -/
theorem naturalRep_vec (ks : List (Mat α)) (d_out d_in : Nat) (hs : Shaped ks d_out d_in) (h : ks ≠ [])
    (X : Nat → Nat → α) :
    ∃ N, naturalRep ks = some N ∧ N.r = d_out * d_out ∧ N.c = d_in * d_in ∧
      ∀ a b, a < d_out → b < d_out →
        sumN (d_in * d_in) (fun q => N.e (a * d_out + b) q * vecR d_in X q)
          = vecR d_out (applySpec ks.length (fam ks) (fam ks) d_in d_in X) (a * d_out + b) := by
  obtain ⟨N, hN, hr, hc, he⟩ := naturalRep_e ks d_out d_in hs h
  refine ⟨N, hN, hr, hc, ?_⟩
  intro a b ha hb
  rw [naturalRep_vec_e N.e ks.length (fam ks) d_out d_in X he a b ha hb]
  obtain ⟨h1, h2⟩ := divmod_be a d_out b hb
  simp only [vecR, h1, h2]

/-! ## `channel_dim` -/

omit [CommSemiring α] [StarRing α] in
/-- **Dimension inference (pairs).**  For a well-formed paired list `channel_dim` returns the row/column
    dimensions of the input and output spaces read off the first pair, and the number of pairs. -/
theorem channelDim_pairs (as bs : List (Mat α)) (di0 di1 do0 do1 : Nat)
    (ha : Shaped as do0 di0) (hb : Shaped bs do1 di1) (hl : as.length = bs.length) (h : as ≠ []) :
    channelDimKraus (KrausArg.pairs as bs) true .none = .ok ⟨di0, di1, do0, do1, some as.length⟩ :=
  channelDimKraus_pairs as bs di0 di1 do0 do1 ha hb hl h

omit [CommSemiring α] [StarRing α] in
/-- **Dimension inference (one list).**  For a flat list the input and output spaces are square. -/
theorem channelDim_flat (ks : List (Mat α)) (d_in d_out : Nat) (hs : Shaped ks d_out d_in) (h : ks ≠ []) :
    channelDimKraus (KrausArg.flat ks) true .none = .ok ⟨d_in, d_in, d_out, d_out, some ks.length⟩ :=
  channelDimKraus_cp ks d_in d_out hs h

/-! ## `choi_to_kraus`: the assembly of the Kraus operators from the LAPACK factors

`choiToKraus` (`Toq/Model/ChannelOpsExtra.lean`) mirrors everything `choi_to_kraus` does around its call of
`np.linalg.eigh` / `np.linalg.svd`; the factors are inputs.  `Reproduces J as bs do0 di0 do1 di1` is the
defining relation `Σ_k vec(A_k) vec(B_k)ᴴ = J` (column-major `vec`), the hypothesis of
`kraus_of_choi_reproduces`. -/

/-- **Defining relation ⇔ Choi matrix.**  For a family `(A_k, B_k)` and a matrix `J` of shape
    `(di0·do0) × (di1·do1)`: `Σ_k vec(A_k) vec(B_k)ᴴ = J` holds exactly when `J` has the entries of
    `Σ_ij E_ij ⊗ Φ(E_ij)` for `Φ = Σ_k A_k · B_kᴴ` (all dimensions, rectangular included, `J` Hermitian or not). -/
theorem reproduces_iff_choi (J : Mat α) (as bs : List (Mat α)) (di0 di1 do0 do1 : Nat)
    (hJr : J.r = di0 * do0) (hJc : J.c = di1 * do1) :
    Reproduces J as bs do0 di0 do1 di1 ↔
      ∀ i a j b, i < di0 → a < do0 → j < di1 → b < do1 →
        J.e (i * do0 + a) (j * do1 + b) = applySpec as.length (fam as) (fam bs) di0 di1 (unit i j) a b := by
  constructor
  · intro h i a j b hi ha hj hb
    rw [applySpec_unit _ _ _ _ _ i j a b hi hj]
    exact (reproduces_entry J as bs di0 di1 do0 do1 hJr hJc h i a j b hi ha hj hb).symm
  · intro h p q hp hq
    obtain ⟨h1, h2, h3⟩ := index_split p di0 do0 (hJr ▸ hp)
    obtain ⟨h4, h5, h6⟩ := index_split q di1 do1 (hJc ▸ hq)
    have := h (p / do0) (p % do0) (q / do1) (q % do1) h1 h2 h4 h5
    rw [h3, h6, applySpec_unit _ _ _ _ _ _ _ _ _ h1 h4] at this
    rw [this]
    simp only [Mat.vecF]

/-- **`choi_to_kraus`, general (SVD) branch.**  `J` not Hermitian, `dim` decoded by `channel_dim` to
    `d`; let `(U, S, Vh)` be *any* factors with as many singular values as columns of `U` and rows of `Vh`
    whose kept terms (`abs(s) > tol`) reproduce `J`, `Σ_{i kept} s_i·U[p,i]·Vh[i,q] = J[p,q]`, and let `sqrt`
    be any function with `sqrt(s)·conj(sqrt(s)) = s` on the kept values.  Then the model returns the list of
    pairs `[[A_i, B_i]]` with `A_i = sqrt(s_i)·unvec(U[:,i])` (`d_out[0] × d_in[0]`, column-major),
    `B_i = sqrt(s_i)·unvec(conj(Vh[i,:]))` (`d_out[1] × d_in[1]`), and they satisfy the defining relation
    `Σ_i vec(A_i) vec(B_i)ᴴ = J` — for all dimensions, rectangular included. -/
theorem choiToKraus_general_branch [DecidableEq α] (ops : RealOps α) (J : Mat α) (tol atol : α) (dim : DimArg)
    (eig : Eigh α) (svd : Svd α) (d : ChanDim)
    (hd : channelDimChoi J.r J.c true dim = .ok d) (hnh : isHermitianExact J = false)
    (hU : svd.S.length = svd.U.c) (hV : svd.S.length = svd.Vh.r)
    (hsqrt : ∀ i, i < svd.S.length → c2kKeep ops tol (svd.S.getD i 0) = true →
      ops.sqrt (svd.S.getD i 0) * star (ops.sqrt (svd.S.getD i 0)) = svd.S.getD i 0)
    (hdec : ∀ p q, p < J.r → q < J.c →
      sumN svd.S.length (fun i => if c2kKeep ops tol (svd.S.getD i 0) then
        svd.S.getD i 0 * svd.U.e p i * svd.Vh.e i q else 0) = J.e p q) :
    ∃ as bs, choiToKraus ops J tol atol dim eig svd = .ok (KrausArg.pairs as bs) ∧
      Shaped as d.out0 d.in0 ∧ Shaped bs d.out1 d.in1 ∧ as.length = bs.length ∧
      Reproduces J as bs d.out0 d.in0 d.out1 d.in1 := by
  obtain ⟨s1, s2, s3⟩ := c2kSvd_shapes ops tol svd d.out0 d.in0 d.out1 d.in1 hU hV
  refine ⟨_, _, ?_, s1, s2, s3, c2kSvd_reproduces ops tol svd J d.out0 d.in0 d.out1 d.in1 hU hV hsqrt hdec⟩
  simp only [choiToKraus, hd, hnh]
  rfl

/-- **`choi_to_kraus`, Hermitian indefinite branch.**  `J` Hermitian on a square operator space
    (`d_in[0] = d_in[1]`, `d_out[0] = d_out[1]`), not positive semidefinite by the eigenvalue test; `(λ, V)`
    any factors whose kept terms reproduce `J`, `Σ_{i kept} λ_i·V[p,i]·conj(V[q,i]) = J[p,q]`, and `sqrt`,
    `abs`, `sign` any functions with `sqrt(|λ|)·conj(sqrt(|λ|))·conj(sign λ) = λ` on the kept values.  Then
    the model returns the pairs `[[A_i, sign(λ_i)·A_i]]`, `A_i = sqrt(|λ_i|)·unvec(V[:,i])`, and they satisfy the
    defining relation. -/
theorem choiToKraus_hermitian_branch [DecidableEq α] (ops : RealOps α) (J : Mat α) (tol atol : α) (dim : DimArg)
    (eig : Eigh α) (svd : Svd α) (d : ChanDim)
    (hd : channelDimChoi J.r J.c true dim = .ok d) (hh : isHermitianExact J = true)
    (hpsd : isPsdFrom ops true atol eig.evals = false) (hin : d.in1 = d.in0) (hout : d.out1 = d.out0)
    (hV : eig.evals.length = eig.V.c)
    (hsqrt : ∀ i, i < eig.evals.length → c2kKeep ops tol (eig.evals.getD i 0) = true →
      ops.sqrt (ops.abs (eig.evals.getD i 0)) * star (ops.sqrt (ops.abs (eig.evals.getD i 0)))
        * star (ops.sign (eig.evals.getD i 0)) = eig.evals.getD i 0)
    (hdec : ∀ p q, p < J.r → q < J.c →
      sumN eig.evals.length (fun i => if c2kKeep ops tol (eig.evals.getD i 0) then
        eig.evals.getD i 0 * eig.V.e p i * star (eig.V.e q i) else 0) = J.e p q) :
    ∃ as bs, choiToKraus ops J tol atol dim eig svd = .ok (KrausArg.pairs as bs) ∧
      Shaped as d.out0 d.in0 ∧ Shaped bs d.out1 d.in1 ∧ as.length = bs.length ∧
      Reproduces J as bs d.out0 d.in0 d.out1 d.in1 := by
  obtain ⟨s1, s2, s3⟩ := c2kHerm_shapes ops tol eig d.out0 d.in0 hV
  rw [hin, hout]
  refine ⟨_, _, ?_, s1, s2, s3, c2kHerm_reproduces ops tol eig J d.out0 d.in0 hV hsqrt hdec⟩
  simp only [choiToKraus, hd, hh, hpsd]
  rfl

/-- **`choi_to_kraus`, positive semidefinite branch.**  `J` Hermitian and positive semidefinite by the
    eigenvalue test; factors as before with `sqrt(|λ|)·conj(sqrt(|λ|)) = λ` on the kept eigenvalues.  Then the
    model returns the *flat* list `[A_i]`, `A_i = sqrt(|λ_i|)·unvec(V[:,i])`, and `Σ_i vec(A_i) vec(A_i)ᴴ = J`. -/
theorem choiToKraus_psd_branch [DecidableEq α] (ops : RealOps α) (J : Mat α) (tol atol : α) (dim : DimArg)
    (eig : Eigh α) (svd : Svd α) (d : ChanDim)
    (hd : channelDimChoi J.r J.c true dim = .ok d) (hh : isHermitianExact J = true)
    (hpsd : isPsdFrom ops true atol eig.evals = true)
    (hV : eig.evals.length = eig.V.c)
    (hsqrt : ∀ i, i < eig.evals.length → c2kKeep ops tol (eig.evals.getD i 0) = true →
      ops.sqrt (ops.abs (eig.evals.getD i 0)) * star (ops.sqrt (ops.abs (eig.evals.getD i 0)))
        = eig.evals.getD i 0)
    (hdec : ∀ p q, p < J.r → q < J.c →
      sumN eig.evals.length (fun i => if c2kKeep ops tol (eig.evals.getD i 0) then
        eig.evals.getD i 0 * eig.V.e p i * star (eig.V.e q i) else 0) = J.e p q) :
    ∃ as, choiToKraus ops J tol atol dim eig svd = .ok (KrausArg.flat as) ∧
      Shaped as d.out0 d.in0 ∧ Reproduces J as as d.out0 d.in0 d.out0 d.in0 := by
  obtain ⟨s1, _, _⟩ := c2kHerm_shapes ops tol eig d.out0 d.in0 hV
  refine ⟨_, ?_, s1, c2kPsd_reproduces ops tol eig J d.out0 d.in0 hV hsqrt hdec⟩
  simp only [choiToKraus, hd, hh, hpsd]
  rfl

/-- **Round trip `kraus_to_choi ∘ choi_to_kraus = id` (pairs).**  For any family with
    `Σ_k vec(A_k) vec(B_k)ᴴ = J` (in particular the one returned by any branch of `choi_to_kraus`),
    `kraus_to_choi` of the paired list is a matrix of the shape of `J` with the entries of `J`. -/
theorem krausToChoi_of_reproduces (J : Mat α) (as bs : List (Mat α)) (di0 di1 do0 do1 : Nat)
    (hJr : J.r = di0 * do0) (hJc : J.c = di1 * do1)
    (ha : Shaped as do0 di0) (hb : Shaped bs do1 di1) (hl : as.length = bs.length) (h : as ≠ [])
    (hvec : Reproduces J as bs do0 di0 do1 di1) :
    ∃ J', krausToChoi (KrausArg.pairs as bs) = some J' ∧ J'.r = J.r ∧ J'.c = J.c ∧
      ∀ p q, p < J.r → q < J.c → J'.e p q = J.e p q := by
  obtain ⟨J', hJ', hr, hc, he⟩ := krausToChoi_eq_spec as bs di0 di1 do0 do1 ha hb hl h
  refine ⟨J', hJ', by rw [hr, hJr], by rw [hc, hJc], ?_⟩
  intro p q hp hq
  obtain ⟨h1, h2, h3⟩ := index_split p di0 do0 (hJr ▸ hp)
  obtain ⟨h4, h5, h6⟩ := index_split q di1 do1 (hJc ▸ hq)
  have e1 := he (p / do0) (p % do0) (q / do1) (q % do1) h1 h2 h4 h5
  have e2 := (reproduces_iff_choi J as bs di0 di1 do0 do1 hJr hJc).mp hvec (p / do0) (p % do0) (q / do1) (q % do1) h1 h2 h4 h5
  rw [h3, h6] at e1 e2
  rw [e1, e2]

/-- **Round trip (flat list).**  The same for the flat list returned in the positive semidefinite case. -/
theorem krausToChoi_of_reproduces_flat (J : Mat α) (ks : List (Mat α)) (d_in d_out : Nat)
    (hJr : J.r = d_in * d_out) (hJc : J.c = d_in * d_out)
    (hs : Shaped ks d_out d_in) (h : ks ≠ []) (hvec : Reproduces J ks ks d_out d_in d_out d_in) :
    ∃ J', krausToChoi (KrausArg.flat ks) = some J' ∧ J'.r = J.r ∧ J'.c = J.c ∧
      ∀ p q, p < J.r → q < J.c → J'.e p q = J.e p q := by
  obtain ⟨J', hJ', hr, hc, he⟩ := krausToChoi_cp_eq_spec ks d_in d_out hs h (.flat ks) (Or.inl rfl)
  refine ⟨J', hJ', by rw [hr, hJr], by rw [hc, hJc], ?_⟩
  intro p q hp hq
  obtain ⟨h1, h2, h3⟩ := index_split p d_in d_out (hJr ▸ hp)
  obtain ⟨h4, h5, h6⟩ := index_split q d_in d_out (hJc ▸ hq)
  have e1 := he (p / d_out) (p % d_out) (q / d_out) (q % d_out) h1 h2 h4 h5
  have e2 := (reproduces_iff_choi J ks ks d_in d_in d_out d_out hJr hJc).mp hvec
    (p / d_out) (p % d_out) (q / d_out) (q % d_out) h1 h2 h4 h5
  rw [h3, h6] at e1 e2
  rw [e1, e2]

/-! ## `kraus_to_choi(kraus_ops, sys=1)` -/

/-- **Kraus → Choi with `sys = 1`.**  The map is applied to the *first* half of the unnormalised maximally
    entangled operator: the result is the `(do0·di0) × (do1·di1)` matrix `Σ_ij Φ(E_ij) ⊗ E_ij`, whose entry at
    row `(a, i)`, column `(b, j)` is `Φ(E_ij)[a, b]` (the other ordering convention of the Choi matrix). -/
theorem krausToChoi_sys1_eq_spec (as bs : List (Mat α)) (di0 di1 do0 do1 : Nat)
    (ha : Shaped as do0 di0) (hb : Shaped bs do1 di1) (hl : as.length = bs.length) (h : as ≠ []) :
    ∃ J, krausToChoi (KrausArg.pairs as bs) 1 = some J ∧ J.r = do0 * di0 ∧ J.c = do1 * di1 ∧
      ∀ a i b j, a < do0 → i < di0 → b < do1 → j < di1 →
        J.e (a * di0 + i) (b * di1 + j) = applySpec as.length (fam as) (fam bs) di0 di1 (unit i j) a b :=
  krausToChoi_core_sys1 _ as bs di0 di1 do0 do1 _ ha hb hl h
    (channelDimKraus_pairs as bs di0 di1 do0 do1 ha hb hl h)
    (fun rho => by
      have := partialChannelKraus_pairs rho as bs hl h 1 2 (fnOfList [di0, di0]) (fnOfList [di1, di1])
      rwa [prodBefore_one, prodAfter_one_two, prodBefore_one, prodAfter_one_two] at this)

/-- **`sys = 1`, completely positive forms** (flat, column, row). -/
theorem krausToChoi_sys1_cp_eq_spec (ks : List (Mat α)) (d_in d_out : Nat) (hs : Shaped ks d_out d_in) (h : ks ≠ [])
    (phi : KrausArg α)
    (hform : phi = .flat ks ∨ phi = KrausArg.column ks ∨ (phi = KrausArg.row ks ∧ (ks.length = 1 ∨ 2 < ks.length))) :
    ∃ J, krausToChoi phi 1 = some J ∧ J.r = d_out * d_in ∧ J.c = d_out * d_in ∧
      ∀ a i b j, a < d_out → i < d_in → b < d_out → j < d_in →
        J.e (a * d_in + i) (b * d_in + j) = applySpec ks.length (fam ks) (fam ks) d_in d_in (unit i j) a b := by
  rcases hform with rfl | rfl | ⟨rfl, hr⟩
  · exact krausToChoi_core_sys1 _ ks ks d_in d_in d_out d_out _ hs hs rfl h (channelDimKraus_cp ks d_in d_out hs h)
      (fun rho => by
        have := partialChannelKraus_flat rho ks h 1 2 (fnOfList [d_in, d_in]) (fnOfList [d_in, d_in])
        rwa [prodBefore_one, prodAfter_one_two] at this)
  · exact krausToChoi_core_sys1 _ ks ks d_in d_in d_out d_out _ hs hs rfl h (channelDimKraus_column ks d_in d_out hs h)
      (fun rho => by
        have := partialChannelKraus_column rho ks h 1 2 (fnOfList [d_in, d_in]) (fnOfList [d_in, d_in])
        rwa [prodBefore_one, prodAfter_one_two] at this)
  · exact krausToChoi_core_sys1 _ ks ks d_in d_in d_out d_out _ hs hs rfl h (channelDimKraus_row ks d_in d_out hs hr)
      (fun rho => by
        have := partialChannelKraus_row rho ks hr 1 2 (fnOfList [d_in, d_in]) (fnOfList [d_in, d_in])
        rwa [prodBefore_one, prodAfter_one_two] at this)

/-! ## `partial_channel`: the embedded Choi matrix and the forms of `dim` -/

/-- **The Choi matrix of `id ⊗ Φ ⊗ id`.**  The matrix that the Choi branch of `partial_channel` hands to
    `apply_channel` (Kronecker product of `J` with the two maximally entangled operators, permuted by
    `[0,2,4,1,3,5]`) has, at input labels `(p,i,q)`/`(p',j,q')` and output labels `(p2,a,q2)`/`(p2',b,q2')`, the
    entry `δ_{p p2} δ_{p' p2'} · J[(i,a),(j,b)] · δ_{q q2} δ_{q' q2'}`: it is the Choi matrix of `id ⊗ Φ_J ⊗ id`. -/
theorem partialChannel_choi_embedding (J : Mat α) (sys n : Nat) (rd cd : Nat → Nat) (o0 o1 : Nat)
    (hd0 : 0 < rd (sys - 1)) (hd1 : 0 < cd (sys - 1))
    (hJr : J.r = rd (sys - 1) * o0) (hJc : J.c = cd (sys - 1) * o1)
    (p i q p2 a q2 p' j q' p2' b q2' : Nat)
    (hp : p < prodBefore rd sys) (hi : i < rd (sys - 1)) (hq : q < prodAfter rd n sys)
    (hp2 : p2 < prodBefore rd sys) (ha : a < o0) (hq2 : q2 < prodAfter rd n sys)
    (hp' : p' < prodBefore cd sys) (hj : j < cd (sys - 1)) (hq' : q' < prodAfter cd n sys)
    (hp2' : p2' < prodBefore cd sys) (hb : b < o1) (hq2' : q2' < prodAfter cd n sys) :
    (embedChoi J sys n rd cd).e
        (((((p * rd (sys - 1) + i) * prodAfter rd n sys + q) * prodBefore rd sys + p2) * o0 + a) * prodAfter rd n sys + q2)
        (((((p' * cd (sys - 1) + j) * prodAfter cd n sys + q') * prodBefore cd sys + p2') * o1 + b) * prodAfter cd n sys + q2')
      = unit p p' p2 p2' * J.e (i * o0 + a) (j * o1 + b) * unit q q' q2 q2' :=
  embedChoi_e J sys n rd cd o0 o1 hd0 hd1 hJr hJc p i q p2 a q2 p' j q' p2' b q2' hp hi hq hp2 ha hq2 hp' hj hq' hp2' hb hq2'

omit [CommSemiring α] [StarRing α] in
/-- **Forms of `dim` in `partial_channel`.**  A 1-d `dim` is used for rows and columns alike; a 2-row `dim`
    gives row and column dimensions separately; `dim=None` means two subsystems with row dimensions `√rows` and
    column dimensions `√cols`, i.e. the 2-row form `[[√rows, √rows], [√cols, √cols]]` (also for a non-square operator). -/
theorem partialChannel_dim_forms (rho : Mat α) (d rd cd : List Nat) :
    partialDimNorm rho (.one d) = some (d, d) ∧ partialDimNorm rho (.two rd cd) = some (rd, cd) ∧
    (Nat.sqrt rho.r * Nat.sqrt rho.r = rho.r → Nat.sqrt rho.c * Nat.sqrt rho.c = rho.c →
      partialDimNorm rho .none
        = partialDimNorm rho (.two [Nat.sqrt rho.r, Nat.sqrt rho.r] [Nat.sqrt rho.c, Nat.sqrt rho.c])) := by
  refine ⟨rfl, rfl, ?_⟩
  intro h1 h2
  simp [partialDimNorm, h1, h2, defaultDim]

/-- **Dimension inference (Choi matrix; shared by `choi_to_kraus` and `dual_channel`).**  With
    `dim = [[r, x], [c, y]]` whose products match the shape, `channel_dim` returns `d_in = (r, c)`,
    `d_out = (x, y)` (and no environment dimension when `compute_env_dim=False`); `[m, n]` means `[[m, n], [m, n]]`, an
    integer `d` means `[[d, d], [d, d]]`, `None` means the square roots of the shape; a `dim` whose products do not match
    the shape is rejected. -/
theorem channelDim_choi (rows cols r x c y m n d : Nat) :
    (r * x = rows → c * y = cols → channelDimChoi rows cols true (.mat r x c y) = .ok ⟨r, c, x, y, none⟩) ∧
    channelDimChoi rows cols true (.vec m n) = channelDimChoi rows cols true (.mat m n m n) ∧
    channelDimChoi rows cols true (.int d) = channelDimChoi rows cols true (.mat d d d d) ∧
    channelDimChoi rows cols true .none
      = channelDimChoi rows cols true (.mat (Nat.sqrt rows) (Nat.sqrt rows) (Nat.sqrt cols) (Nat.sqrt cols)) ∧
    ((r * x ≠ rows ∨ c * y ≠ cols) → channelDimChoi rows cols true (.mat r x c y) = .error DimErr.choiDim) := by
  refine ⟨?_, rfl, rfl, rfl, ?_⟩
  · intro h1 h2; subst h1; subst h2; exact channelDimChoi_mat r x c y
  · intro h
    rcases h with h | h <;> simp [channelDimChoi, expandDim, h]

/-! ## the scalars of the compiled model -/

/-- **The driver's Gaussian integers are an instance of the theorems' hypotheses.**  `GI` with the core-class
    instances of `Toq/Core/Scalar.lean` (the ones the compiled driver computes with) is a commutative
    star-ring (`giCommRing`, `giStarRing`), and its `+`, `*`, `0`, `1` and conjugation are *definitionally* the
    ones these ring instances provide — so every theorem of this file speaks about the very functions the
    correspondence check runs. -/
theorem driver_scalars_are_a_star_ring :
    (inferInstanceAs (Add GI)) = giCommRing.toAdd ∧ (inferInstanceAs (Mul GI)) = giCommRing.toMul ∧
    (inferInstanceAs (Zero GI)) = giCommRing.toZero ∧ (inferInstanceAs (One GI)) = giCommRing.toOne ∧
    (instHasConjGI : HasConj GI) = starHasConj :=
  gi_instances_agree

/-! ## non-vacuity -/

/-- the hypotheses are satisfiable and the model computes: the transpose map on 2×2 matrices given by the
    four pairs `(E_ij, E_ji)`; its Choi matrix is the swap operator and both representations transpose `X` -/
example :
    let E : Nat → Nat → Mat Int := fun i j => ⟨2, 2, fun a b => if a = i ∧ b = j then 1 else 0⟩
    let as := [E 0 0, E 0 1, E 1 0, E 1 1]
    let bs := [E 0 0, E 1 0, E 0 1, E 1 1]
    let X : Mat Int := ⟨2, 2, fun a b => 2 * a + b + 1⟩
    ((applyKraus X (KrausArg.pairs as bs)).map (fun M => listOfFn 4 (fun p => M.e (p / 2) (p % 2)))) = some [1, 3, 2, 4] ∧
    ((krausToChoi (KrausArg.pairs as bs)).map (fun J => listOfFn 16 (fun p => J.e (p / 4) (p % 4))))
      = some [1, 0, 0, 0, 0, 0, 1, 0, 0, 1, 0, 0, 0, 0, 0, 1] ∧
    ((krausToChoi (KrausArg.pairs as bs)).map (fun J => listOfFn 4 (fun p => (applyChoi X J).e (p / 2) (p % 2))))
      = some [1, 3, 2, 4] := by
  decide

/-- the assembly model computes and its hypotheses are satisfiable: `J = diag(4, 0, 0, -9)` (Hermitian, indefinite)
    with the exact factors `λ = (-9, 0, 0, 4)`, `V` the corresponding permutation matrix, `sqrt` the integer square
    root table `{9 ↦ 3, 4 ↦ 2}`: the model returns the two pairs `(3·E_11, -3·E_11)`, `(2·E_00, 2·E_00)` and
    `kraus_to_choi` of them is `J` again -/
example :
    let ops : RealOps Int := ⟨fun x => if x = 9 then 3 else if x = 4 then 2 else 0, fun x => (Int.natAbs x : Int), Int.sign, Int.neg,
      fun x y => decide (x > y), fun x y => decide (x ≥ y)⟩
    let J : Mat Int := ⟨4, 4, fun i j => if i = j then (if i = 0 then 4 else if i = 3 then -9 else 0) else 0⟩
    let V : Mat Int := ⟨4, 4, fun p i => if (p = 3 ∧ i = 0) ∨ (p = 1 ∧ i = 1) ∨ (p = 2 ∧ i = 2) ∨ (p = 0 ∧ i = 3) then 1 else 0⟩
    let out := choiToKraus ops J 0 0 (.mat 2 2 2 2) ⟨[-9, 0, 0, 4], V⟩ ⟨⟨0, 0, fun _ _ => 0⟩, [], ⟨0, 0, fun _ _ => 0⟩⟩
    (match out with
      | .ok phi => (phi.split.map fun ab => (ab.1.map fun m => listOfFn 4 (fun p => m.e (p / 2) (p % 2)),
                                              ab.2.map fun m => listOfFn 4 (fun p => m.e (p / 2) (p % 2))))
      | .error _ => none) = some ([[0, 0, 0, 3], [2, 0, 0, 0]], [[0, 0, 0, -3], [2, 0, 0, 0]]) ∧
    (match out with
      | .ok phi => (krausToChoi phi).map (fun K => listOfFn 16 (fun p => K.e (p / 4) (p % 4)))
      | .error _ => none) = some [4, 0, 0, 0, 0, 0, 0, 0, 0, 0, 0, 0, 0, 0, 0, -9] := by
  decide

end Toq.C04
