import Toq.Model.ChannelOps
import Toq.Spec.ChannelOps
import Toq.Proofs.ChannelOps
/-!
# C04 — one linear map, many representations: all of them act identically

Property theorems only (helper lemmas live in `Toq/Proofs/ChannelOps.lean`).  The mirror models in
`Toq/Model/ChannelOps.lean` follow `apply_channel.py`, `kraus_to_choi.py`, `partial_channel.py`,
`natural_representation.py` and `helper/channel_dim.py` line by line; the specification
(`Toq/Spec/ChannelOps.lean`) is `Φ(X) = Σ_k A_k X B_kᴴ` and `J(Φ) = Σ_ij E_ij ⊗ Φ(E_ij)`.

Everything is stated for an arbitrary commutative star-semiring of scalars (ℂ, ℝ with trivial star, the
Gaussian integers the driver runs on, …), arbitrary numbers of Kraus operators and arbitrary (also
unequal, also rectangular) input and output dimensions.  A list of matrices `l` is read as the family
`fam l k = (l[k]).e`; `Shaped l r c` says that every listed matrix has shape `r × c`.
-/
namespace Toq.C04
open Toq.ChannelOps Toq.ChannelSpec Toq.ChannelOps.Mat

variable {α : Type} [CommSemiring α] [StarRing α]

/-! ## `apply_channel` on Kraus lists -/

/-- **Kraus form = Σ A X Bᴴ.**  Whatever list the `isinstance` cascade of `apply_channel` extracts
    (`phi.split = some (as, bs)`: left operators `as`, right operators `bs`), the concatenate / kron /
    matmul evaluation of the code returns the matrix with entries `Σ_k Σ_i Σ_j A_k[a,i] X[i,j] conj(B_k[b,j])`,
    of shape `do0 × do1`, for every number of operators and all (also rectangular) shapes. -/
theorem applyKraus_eq_spec (X : Mat α) (phi : KrausArg α) (as bs : List (Mat α)) (do0 do1 : Nat)
    (hsplit : phi.split = some (as, bs)) (ha : Shaped as do0 X.r) (hb : Shaped bs do1 X.c)
    (hl : as.length = bs.length) (hne : as ≠ []) :
    ∃ M, applyKraus X phi = some M ∧ M.r = do0 ∧ M.c = do1 ∧
      ∀ a b, M.e a b = applySpec as.length (fam as) (fam bs) X.r X.c X.e a b := by
  refine ⟨_, applyKraus_of_split X phi as bs hsplit, ?_, ?_, ?_⟩
  · exact (applyKrausLists_shape X as bs do0 do1 ha hb hl hne).1
  · exact (applyKrausLists_shape X as bs do0 do1 ha hb hl hne).2
  · exact applyKrausLists_e X as bs do0 do1 ha hb hl

omit [CommSemiring α] [StarRing α] in
/-- The flat list `[K_1, …, K_r]` denotes the completely positive map with `A = B = K`. -/
theorem cascade_flat (ks : List (Mat α)) (h : ks ≠ []) : (KrausArg.flat ks).split = some (ks, ks) :=
  split_flat ks h

omit [CommSemiring α] [StarRing α] in
/-- The column form `[[K_1], …, [K_r]]` denotes the same completely positive map. -/
theorem cascade_column (ks : List (Mat α)) (h : ks ≠ []) : (KrausArg.column ks).split = some (ks, ks) :=
  split_column ks h

omit [CommSemiring α] [StarRing α] in
/-- The row form `[[K_1, …, K_r]]` denotes the same completely positive map when `r = 1` or `r > 2`
    (`[[K_1, K_2]]` is, as documented in the code, one left/right pair). -/
theorem cascade_row (ks : List (Mat α)) (h : ks.length = 1 ∨ 2 < ks.length) :
    (KrausArg.row ks).split = some (ks, ks) :=
  split_row ks h

omit [CommSemiring α] [StarRing α] in
/-- The paired form `[[A_1, B_1], …, [A_r, B_r]]` denotes `X ↦ Σ_k A_k X B_kᴴ`. -/
theorem cascade_pairs (as bs : List (Mat α)) (hl : as.length = bs.length) (h : as ≠ []) :
    (KrausArg.pairs as bs).split = some (as, bs) :=
  split_pairs as bs hl h

/-- The same statement in Mathlib's matrix vocabulary: the returned array, read as a
    `Matrix (Fin do0) (Fin do1) α`, is `Σ_k A_k * X * (B_k)ᴴ`. -/
theorem applyKraus_eq_matrix (X : Mat α) (phi : KrausArg α) (as bs : List (Mat α)) (do0 do1 : Nat)
    (hsplit : phi.split = some (as, bs)) (ha : Shaped as do0 X.r) (hb : Shaped bs do1 X.c)
    (hl : as.length = bs.length) :
    ∃ M, applyKraus X phi = some M ∧
      toM do0 do1 M.e = ∑ k : Fin as.length,
        toM do0 X.r (fam as k) * toM X.r X.c X.e * (toM do1 X.c (fam bs k)).conjTranspose :=
  ⟨_, applyKraus_of_split X phi as bs hsplit, toM_applyKrausLists X as bs do0 do1 ha hb hl⟩

/-! ## `kraus_to_choi` -/

/-- **Kraus → Choi (pairs).**  `kraus_to_choi([[A_1,B_1],…])` (through `channel_dim`, the unnormalised
    maximally entangled operator and `partial_channel` on its second half) is the `(di0·do0) × (di1·do1)`
    matrix whose entry at row `(i, a)`, column `(j, b)` is `Φ(E_ij)[a, b]`: it is `Σ_ij E_ij ⊗ Φ(E_ij)`,
    for unequal and rectangular input/output dimensions. -/
theorem krausToChoi_eq_spec (as bs : List (Mat α)) (di0 di1 do0 do1 : Nat)
    (ha : Shaped as do0 di0) (hb : Shaped bs do1 di1) (hl : as.length = bs.length) (h : as ≠ []) :
    ∃ J, krausToChoi (KrausArg.pairs as bs) = some J ∧ J.r = di0 * do0 ∧ J.c = di1 * do1 ∧
      ∀ i a j b, i < di0 → a < do0 → j < di1 → b < do1 →
        J.e (i * do0 + a) (j * do1 + b) = applySpec as.length (fam as) (fam bs) di0 di1 (unit i j) a b :=
  krausToChoi_core _ as bs di0 di1 do0 do1 _ ha hb hl h
    (channelDimKraus_pairs as bs di0 di1 do0 do1 ha hb hl h)
    (fun rho => by
      have := partialChannelKraus_pairs rho as bs hl h 2 2 (fnOfList [di0, di0]) (fnOfList [di1, di1])
      rwa [prodBefore_two, prodAfter_two, prodBefore_two, prodAfter_two] at this)

/-- The entries of `kraus_to_choi` are those of the specification `choiSpec` at every position. -/
theorem krausToChoi_eq_choiSpec (as bs : List (Mat α)) (di0 di1 do0 do1 : Nat)
    (ha : Shaped as do0 di0) (hb : Shaped bs do1 di1) (hl : as.length = bs.length) (h : as ≠ []) :
    ∃ J, krausToChoi (KrausArg.pairs as bs) = some J ∧
      ∀ p q, p < di0 * do0 → q < di1 * do1 →
        J.e p q = choiSpec as.length (fam as) (fam bs) di0 di1 do0 do1 p q := by
  obtain ⟨J, hJ, _, _, he⟩ := krausToChoi_eq_spec as bs di0 di1 do0 do1 ha hb hl h
  refine ⟨J, hJ, ?_⟩
  intro p q hp hq
  have hdo0 : 0 < do0 := by
    rcases Nat.eq_zero_or_pos do0 with h0 | h0
    · subst h0; simp at hp
    · exact h0
  have hdo1 : 0 < do1 := by
    rcases Nat.eq_zero_or_pos do1 with h0 | h0
    · subst h0; simp at hq
    · exact h0
  have := he (p / do0) (p % do0) (q / do1) (q % do1)
    ((Nat.div_lt_iff_lt_mul hdo0).mpr hp) (Nat.mod_lt _ hdo0)
    ((Nat.div_lt_iff_lt_mul hdo1).mpr hq) (Nat.mod_lt _ hdo1)
  rw [Nat.div_add_mod' p do0, Nat.div_add_mod' q do1] at this
  exact this

/-- **Kraus → Choi (completely positive forms).**  For the flat, column and row forms the result is the
    Choi matrix of `X ↦ Σ_k K_k X K_kᴴ`. -/
theorem krausToChoi_cp_eq_spec (ks : List (Mat α)) (d_in d_out : Nat) (hs : Shaped ks d_out d_in) (h : ks ≠ [])
    (phi : KrausArg α)
    (hform : phi = .flat ks ∨ phi = KrausArg.column ks ∨ (phi = KrausArg.row ks ∧ (ks.length = 1 ∨ 2 < ks.length))) :
    ∃ J, krausToChoi phi = some J ∧ J.r = d_in * d_out ∧ J.c = d_in * d_out ∧
      ∀ i a j b, i < d_in → a < d_out → j < d_in → b < d_out →
        J.e (i * d_out + a) (j * d_out + b) = applySpec ks.length (fam ks) (fam ks) d_in d_in (unit i j) a b := by
  rcases hform with rfl | rfl | ⟨rfl, hr⟩
  · exact krausToChoi_core _ ks ks d_in d_in d_out d_out _ hs hs rfl h (channelDimKraus_cp ks d_in d_out hs h)
      (fun rho => by
        have := partialChannelKraus_flat rho ks h 2 2 (fnOfList [d_in, d_in]) (fnOfList [d_in, d_in])
        rwa [prodBefore_two, prodAfter_two] at this)
  · exact krausToChoi_core _ ks ks d_in d_in d_out d_out _ hs hs rfl h (channelDimKraus_column ks d_in d_out hs h)
      (fun rho => by
        have := partialChannelKraus_column rho ks h 2 2 (fnOfList [d_in, d_in]) (fnOfList [d_in, d_in])
        rwa [prodBefore_two, prodAfter_two] at this)
  · exact krausToChoi_core _ ks ks d_in d_in d_out d_out _ hs hs rfl h (channelDimKraus_row ks d_in d_out hs hr)
      (fun rho => by
        have := partialChannelKraus_row rho ks hr 2 2 (fnOfList [d_in, d_in]) (fnOfList [d_in, d_in])
        rwa [prodBefore_two, prodAfter_two] at this)

/-! ## `apply_channel` on a Choi matrix -/

omit [StarRing α] in
/-- **Choi evaluation.**  For *any* matrix `J` of shape `(X.r·p0) × (X.c·p1)` the vec / kron / row-swap /
    reshape evaluation of `apply_channel` returns `Σ_ij X[i,j] · J[(i,·),(j,·)]`, the sum of the blocks of
    `J` weighted by the entries of `X` (rectangular `X`, unequal input and output dimensions). -/
theorem applyChoi_eq_sum (X J : Mat α) (p0 p1 : Nat) (hxr : 0 < X.r) (hxc : 0 < X.c)
    (hJr : J.r = X.r * p0) (hJc : J.c = X.c * p1) (a b : Nat) (ha : a < p0) (hb : b < p1) :
    (applyChoi X J).e a b = applyChoiSpec J.e X.r X.c p0 p1 X.e a b :=
  applyChoi_e X J p0 p1 hxr hxc hJr hJc a b ha hb

/-- **Choi form acts as the map.**  If the entries of `J` are those of `J(Φ) = Σ_ij E_ij ⊗ Φ(E_ij)` for
    `Φ = Σ_k A_k · B_kᴴ`, then `apply_channel(X, J) = Φ(X)`. -/
theorem applyChoi_eq_spec_of_choi (r : Nat) (A B : Nat → Nat → Nat → α) (X J : Mat α) (do0 do1 : Nat)
    (hxr : 0 < X.r) (hxc : 0 < X.c) (hJr : J.r = X.r * do0) (hJc : J.c = X.c * do1)
    (hJ : ∀ i a j b, i < X.r → a < do0 → j < X.c → b < do1 →
      J.e (i * do0 + a) (j * do1 + b) = applySpec r A B X.r X.c (unit i j) a b)
    (a b : Nat) (ha : a < do0) (hb : b < do1) :
    (applyChoi X J).e a b = applySpec r A B X.r X.c X.e a b := by
  rw [applyChoi_e X J do0 do1 hxr hxc hJr hJc a b ha hb]
  exact applyChoiSpec_of_choi r A B X.r X.c do0 do1 J.e X.e hJ a b ha hb

/-- **Representation independence.**  For every family `(A_k, B_k)` (any rank, any shapes) and every
    input `X`: applying the paired Kraus list and applying the Choi matrix computed by `kraus_to_choi`
    from that list give the same matrix. -/
theorem apply_repr_independent (X : Mat α) (as bs : List (Mat α)) (do0 do1 : Nat)
    (hxr : 0 < X.r) (hxc : 0 < X.c)
    (ha : Shaped as do0 X.r) (hb : Shaped bs do1 X.c) (hl : as.length = bs.length) (h : as ≠ []) :
    ∃ M J, applyKraus X (KrausArg.pairs as bs) = some M ∧ krausToChoi (KrausArg.pairs as bs) = some J ∧
      ∀ a b, a < do0 → b < do1 → (applyChoi X J).e a b = M.e a b := by
  obtain ⟨M, hM, _, _, hMe⟩ := applyKraus_eq_spec X _ as bs do0 do1 (split_pairs as bs hl h) ha hb hl h
  obtain ⟨J, hJ, hJr, hJc, hJe⟩ := krausToChoi_eq_spec as bs X.r X.c do0 do1 ha hb hl h
  refine ⟨M, J, hM, hJ, ?_⟩
  intro a b ha' hb'
  rw [hMe a b]
  exact applyChoi_eq_spec_of_choi as.length (fam as) (fam bs) X J do0 do1 hxr hxc hJr hJc hJe a b ha' hb'

/-- **What `choi_to_kraus` must deliver.**  Let `J` be any matrix of shape `(di0·do0) × (di1·do1)`
    (Hermitian positive semidefinite, Hermitian indefinite or not Hermitian at all) and `(A_k, B_k)` any
    family with `Σ_k vec(A_k) vec(B_k)ᴴ = J`, `vec` being the column-major vectorisation the code un-does
    with `unvec(·, shape=(d_out, d_in))`.  Then the paired Kraus list acts on every `X` exactly as the Choi
    matrix does. -/
theorem kraus_of_choi_reproduces (X J : Mat α) (as bs : List (Mat α)) (do0 do1 : Nat)
    (hxr : 0 < X.r) (hxc : 0 < X.c) (hJr : J.r = X.r * do0) (hJc : J.c = X.c * do1)
    (ha : Shaped as do0 X.r) (hb : Shaped bs do1 X.c) (hl : as.length = bs.length) (h : as ≠ [])
    (hvec : ∀ p q, p < J.r → q < J.c →
      sumN as.length (fun k => (⟨do0, X.r, fam as k⟩ : Mat α).vecF p
        * HasConj.conj ((⟨do1, X.c, fam bs k⟩ : Mat α).vecF q)) = J.e p q) :
    ∃ M, applyKraus X (KrausArg.pairs as bs) = some M ∧
      ∀ a b, a < do0 → b < do1 → M.e a b = (applyChoi X J).e a b := by
  obtain ⟨M, hM, _, _, hMe⟩ := applyKraus_eq_spec X _ as bs do0 do1 (split_pairs as bs hl h) ha hb hl h
  refine ⟨M, hM, ?_⟩
  intro a b ha' hb'
  rw [hMe a b]
  symm
  apply applyChoi_eq_spec_of_choi as.length (fam as) (fam bs) X J do0 do1 hxr hxc hJr hJc _ a b ha' hb'
  intro i a' j b' hi ha'' hj hb''
  rw [applySpec_unit _ _ _ _ _ i j a' b' hi hj]
  have hp : i * do0 + a' < J.r := by rw [hJr]; exact lt_mul_of_digits i X.r a' do0 hi ha''
  have hq : j * do1 + b' < J.c := by rw [hJc]; exact lt_mul_of_digits j X.c b' do1 hj hb''
  rw [← hvec _ _ hp hq]
  obtain ⟨h1, h2⟩ := divmod_be i do0 a' ha''
  obtain ⟨h3, h4⟩ := divmod_be j do1 b' hb''
  simp only [Mat.vecF, h1, h2, h3, h4]

/-! ## `partial_channel` -/

/-- **Partial application = id ⊗ Φ ⊗ id (Kraus pairs).**  With `pre`/`post` the products of the
    dimensions before/after the target subsystem `sys` (1-indexed, any number `n` of subsystems, separate row
    and column dimension vectors `rd`, `cd`), entry `((p,a,q),(p',b,q'))` of `partial_channel(ρ, [[A,B]…], sys, dim)`
    is `Σ_k Σ_i Σ_j A_k[a,i] · ρ[(p,i,q),(p',j,q')] · conj(B_k[b,j])`: the map acts on the target factor only
    and the surrounding labels are carried along. -/
theorem partialChannel_eq_id_tensor (rho : Mat α) (as bs : List (Mat α)) (sys n : Nat) (rd cd : Nat → Nat)
    (do0 do1 : Nat) (ha : Shaped as do0 (rd (sys - 1))) (hb : Shaped bs do1 (cd (sys - 1)))
    (hl : as.length = bs.length) (h : as ≠ [])
    (hr : rho.r = prodBefore rd sys * rd (sys - 1) * prodAfter rd n sys)
    (hc : rho.c = prodBefore cd sys * cd (sys - 1) * prodAfter cd n sys) :
    ∃ M, partialChannelKraus rho (KrausArg.pairs as bs) sys n rd cd = some M ∧
      ∀ p a q p' b q', p < prodBefore rd sys → a < do0 → q < prodAfter rd n sys →
        p' < prodBefore cd sys → b < do1 → q' < prodAfter cd n sys →
        M.e ((p * do0 + a) * prodAfter rd n sys + q) ((p' * do1 + b) * prodAfter cd n sys + q')
          = sumN as.length fun k => sumN (rd (sys - 1)) fun i => sumN (cd (sys - 1)) fun j =>
              fam as k a i
                * rho.e ((p * rd (sys - 1) + i) * prodAfter rd n sys + q) ((p' * cd (sys - 1) + j) * prodAfter cd n sys + q')
                * HasConj.conj (fam bs k b j) := by
  refine ⟨_, partialChannelKraus_pairs rho as bs hl h sys n rd cd, ?_⟩
  intro p a q p' b q' hp ha' hq hp' hb' hq'
  exact partialKrausLists_e rho as bs _ _ _ _ _ _ do0 do1 ha hb hl hr hc p a q p' b q' hp ha' hq hp' hb' hq'

/-- The dimension bookkeeping of `partial_channel`: the size of the whole space is
    `prod(dim[:sys-1]) · dim[sys-1] · prod(dim[sys:])`, so the shape hypotheses above are exactly
    `ρ.shape = (prod rd, prod cd)`. -/
theorem partialChannel_dims_split (d : Nat → Nat) (n sys : Nat) (h1 : 1 ≤ sys) (h2 : sys ≤ n) :
    prodN d n = prodBefore d sys * d (sys - 1) * prodAfter d n sys :=
  prodN_split d n sys h1 h2

/-- **Completely positive forms.**  For the flat, column and row forms `partial_channel` applies
    `id ⊗ (Σ_k K_k · K_kᴴ) ⊗ id` (same dimension vector for rows and columns). -/
theorem partialChannel_cp_eq_id_tensor (rho : Mat α) (ks : List (Mat α)) (sys n : Nat) (rd cd : Nat → Nat)
    (d_out : Nat) (hs : Shaped ks d_out (rd (sys - 1))) (h : ks ≠ [])
    (phi : KrausArg α)
    (hform : phi = .flat ks ∨ phi = KrausArg.column ks ∨ (phi = KrausArg.row ks ∧ (ks.length = 1 ∨ 2 < ks.length)))
    (hr : rho.r = prodBefore rd sys * rd (sys - 1) * prodAfter rd n sys)
    (hc : rho.c = prodBefore rd sys * rd (sys - 1) * prodAfter rd n sys) :
    ∃ M, partialChannelKraus rho phi sys n rd cd = some M ∧
      ∀ p a q p' b q', p < prodBefore rd sys → a < d_out → q < prodAfter rd n sys →
        p' < prodBefore rd sys → b < d_out → q' < prodAfter rd n sys →
        M.e ((p * d_out + a) * prodAfter rd n sys + q) ((p' * d_out + b) * prodAfter rd n sys + q')
          = sumN ks.length fun k => sumN (rd (sys - 1)) fun i => sumN (rd (sys - 1)) fun j =>
              fam ks k a i
                * rho.e ((p * rd (sys - 1) + i) * prodAfter rd n sys + q) ((p' * rd (sys - 1) + j) * prodAfter rd n sys + q')
                * HasConj.conj (fam ks k b j) := by
  have key : partialChannelKraus rho phi sys n rd cd
      = some (applyKrausLists rho (ks.map (embed (prodBefore rd sys) (prodAfter rd n sys)))
          (ks.map (embed (prodBefore rd sys) (prodAfter rd n sys)))) := by
    rcases hform with rfl | rfl | ⟨rfl, hrow⟩
    · exact partialChannelKraus_flat rho ks h sys n rd cd
    · exact partialChannelKraus_column rho ks h sys n rd cd
    · exact partialChannelKraus_row rho ks hrow sys n rd cd
  refine ⟨_, key, ?_⟩
  intro p a q p' b q' hp ha' hq hp' hb' hq'
  exact partialKrausLists_e rho ks ks _ _ _ _ _ _ d_out d_out hs hs rfl hr hc p a q p' b q' hp ha' hq hp' hb' hq'

/-- **Product operators.**  On `ρ = P ⊗ X ⊗ Q` (entries `P[p,p'] · X[i,j] · Q[q,q']`) the result is
    `P ⊗ Φ(X) ⊗ Q`; in particular for two subsystems (`pre = 1` or `post = 1`) it is `Φ(X) ⊗ Q`
    or `P ⊗ Φ(X)`. -/
theorem partialChannel_product (rho : Mat α) (as bs : List (Mat α)) (sys n : Nat) (rd cd : Nat → Nat)
    (do0 do1 : Nat) (ha : Shaped as do0 (rd (sys - 1))) (hb : Shaped bs do1 (cd (sys - 1)))
    (hl : as.length = bs.length) (h : as ≠ [])
    (hr : rho.r = prodBefore rd sys * rd (sys - 1) * prodAfter rd n sys)
    (hc : rho.c = prodBefore cd sys * cd (sys - 1) * prodAfter cd n sys)
    (P X Q : Nat → Nat → α)
    (hprod : ∀ p i q p' j q', p < prodBefore rd sys → i < rd (sys - 1) → q < prodAfter rd n sys →
      p' < prodBefore cd sys → j < cd (sys - 1) → q' < prodAfter cd n sys →
      rho.e ((p * rd (sys - 1) + i) * prodAfter rd n sys + q) ((p' * cd (sys - 1) + j) * prodAfter cd n sys + q')
        = P p p' * X i j * Q q q') :
    ∃ M, partialChannelKraus rho (KrausArg.pairs as bs) sys n rd cd = some M ∧
      ∀ p a q p' b q', p < prodBefore rd sys → a < do0 → q < prodAfter rd n sys →
        p' < prodBefore cd sys → b < do1 → q' < prodAfter cd n sys →
        M.e ((p * do0 + a) * prodAfter rd n sys + q) ((p' * do1 + b) * prodAfter cd n sys + q')
          = P p p' * applySpec as.length (fam as) (fam bs) (rd (sys - 1)) (cd (sys - 1)) X a b * Q q q' := by
  obtain ⟨M, hM, hMe⟩ := partialChannel_eq_id_tensor rho as bs sys n rd cd do0 do1 ha hb hl h hr hc
  refine ⟨M, hM, ?_⟩
  intro p a q p' b q' hp ha' hq hp' hb' hq'
  rw [hMe p a q p' b q' hp ha' hq hp' hb' hq']
  unfold applySpec
  rw [sumN_mul_left, sumN_mul_right]
  apply sumN_congr; intro k _
  rw [sumN_mul_left, sumN_mul_right]
  apply sumN_congr; intro i hi
  rw [sumN_mul_left, sumN_mul_right]
  apply sumN_congr; intro j hj
  rw [hprod p i q p' j q' hp hi hq hp' hj hq']
  ring

/-- **Partial application with a Choi matrix.**  For *any* matrix `J` of shape `(d0·o0) × (d1·o1)` the
    Choi branch of `partial_channel` (6-factor `dim` array, Kronecker product with the two maximally entangled
    operators, `permute_systems` by `[0,2,4,1,3,5]`, then `apply_channel`) returns
    `Σ_ij ρ[(p,i,q),(p',j,q')] · J[(i,a),(j,b)]`, i.e. `id ⊗ Φ_J ⊗ id`. -/
theorem partialChannel_choi_eq_id_tensor (rho J : Mat α) (sys n : Nat) (rd cd : Nat → Nat) (o0 o1 : Nat)
    (hd0 : 0 < rd (sys - 1)) (hd1 : 0 < cd (sys - 1))
    (hJr : J.r = rd (sys - 1) * o0) (hJc : J.c = cd (sys - 1) * o1)
    (hr : rho.r = prodBefore rd sys * rd (sys - 1) * prodAfter rd n sys)
    (hc : rho.c = prodBefore cd sys * cd (sys - 1) * prodAfter cd n sys)
    (p a q p' b q' : Nat)
    (hp : p < prodBefore rd sys) (ha : a < o0) (hq : q < prodAfter rd n sys)
    (hp' : p' < prodBefore cd sys) (hb : b < o1) (hq' : q' < prodAfter cd n sys) :
    (partialChannelChoi rho J sys n rd cd).e ((p * o0 + a) * prodAfter rd n sys + q) ((p' * o1 + b) * prodAfter cd n sys + q')
      = sumN (rd (sys - 1)) fun i => sumN (cd (sys - 1)) fun j =>
          rho.e ((p * rd (sys - 1) + i) * prodAfter rd n sys + q) ((p' * cd (sys - 1) + j) * prodAfter cd n sys + q')
            * J.e (i * o0 + a) (j * o1 + b) :=
  partialChannelChoi_e rho J sys n rd cd o0 o1 hd0 hd1 hJr hJc hr hc p a q p' b q' hp ha hq hp' hb hq'

/-- **Kraus and Choi branches of `partial_channel` agree.**  If `J` has the entries of the Choi matrix of
    `Φ = Σ_k A_k · B_kᴴ`, both branches return the same matrix. -/
theorem partialChannel_repr_independent (rho J : Mat α) (as bs : List (Mat α)) (sys n : Nat) (rd cd : Nat → Nat)
    (do0 do1 : Nat) (hd0 : 0 < rd (sys - 1)) (hd1 : 0 < cd (sys - 1))
    (ha : Shaped as do0 (rd (sys - 1))) (hb : Shaped bs do1 (cd (sys - 1)))
    (hl : as.length = bs.length) (h : as ≠ [])
    (hJr : J.r = rd (sys - 1) * do0) (hJc : J.c = cd (sys - 1) * do1)
    (hJ : ∀ i a j b, i < rd (sys - 1) → a < do0 → j < cd (sys - 1) → b < do1 →
      J.e (i * do0 + a) (j * do1 + b) = applySpec as.length (fam as) (fam bs) (rd (sys - 1)) (cd (sys - 1)) (unit i j) a b)
    (hr : rho.r = prodBefore rd sys * rd (sys - 1) * prodAfter rd n sys)
    (hc : rho.c = prodBefore cd sys * cd (sys - 1) * prodAfter cd n sys) :
    ∃ M, partialChannelKraus rho (KrausArg.pairs as bs) sys n rd cd = some M ∧
      ∀ p a q p' b q', p < prodBefore rd sys → a < do0 → q < prodAfter rd n sys →
        p' < prodBefore cd sys → b < do1 → q' < prodAfter cd n sys →
        (partialChannelChoi rho J sys n rd cd).e ((p * do0 + a) * prodAfter rd n sys + q) ((p' * do1 + b) * prodAfter cd n sys + q')
          = M.e ((p * do0 + a) * prodAfter rd n sys + q) ((p' * do1 + b) * prodAfter cd n sys + q') := by
  obtain ⟨M, hM, hMe⟩ := partialChannel_eq_id_tensor rho as bs sys n rd cd do0 do1 ha hb hl h hr hc
  refine ⟨M, hM, ?_⟩
  intro p a q p' b q' hp ha' hq hp' hb' hq'
  rw [hMe p a q p' b q' hp ha' hq hp' hb' hq',
    partialChannelChoi_e rho J sys n rd cd do0 do1 hd0 hd1 hJr hJc hr hc p a q p' b q' hp ha' hq hp' hb' hq']
  -- Σ_i Σ_j ρ · (Σ_k A conj B)  =  Σ_k Σ_i Σ_j A ρ conj B
  have e : ∀ i, i < rd (sys - 1) → sumN (cd (sys - 1)) (fun j =>
        rho.e ((p * rd (sys - 1) + i) * prodAfter rd n sys + q) ((p' * cd (sys - 1) + j) * prodAfter cd n sys + q')
          * J.e (i * do0 + a) (j * do1 + b))
      = sumN (cd (sys - 1)) (fun j => sumN as.length (fun k => fam as k a i
          * rho.e ((p * rd (sys - 1) + i) * prodAfter rd n sys + q) ((p' * cd (sys - 1) + j) * prodAfter cd n sys + q')
          * HasConj.conj (fam bs k b j))) := by
    intro i hi
    apply sumN_congr; intro j hj
    rw [hJ i a j b hi ha' hj hb', applySpec_unit _ _ _ _ _ i j a b hi hj, sumN_mul_left]
    apply sumN_congr; intro k _; ring
  rw [sumN_congr _ _ _ e]
  have c1 : ∀ i, i < rd (sys - 1) → sumN (cd (sys - 1)) (fun j => sumN as.length (fun k => fam as k a i
          * rho.e ((p * rd (sys - 1) + i) * prodAfter rd n sys + q) ((p' * cd (sys - 1) + j) * prodAfter cd n sys + q')
          * HasConj.conj (fam bs k b j)))
      = sumN as.length (fun k => sumN (cd (sys - 1)) (fun j => fam as k a i
          * rho.e ((p * rd (sys - 1) + i) * prodAfter rd n sys + q) ((p' * cd (sys - 1) + j) * prodAfter cd n sys + q')
          * HasConj.conj (fam bs k b j))) := fun i _ => sumN_comm _ _ _
  rw [sumN_congr _ _ _ c1, sumN_comm]

/-! ## `natural_representation` -/

/-- **Natural representation.**  `natural_representation([K_1,…,K_r]) = Σ_k K_k ⊗ conj(K_k)` satisfies
    `K · vec_r(X) = vec_r(Φ(X))` with the row-major vectorisation `vec_r(X)[i·n + j] = X[i,j]`, for
    `Φ(X) = Σ_k K_k X K_kᴴ`, rectangular `K_k` allowed. -/
theorem naturalRep_vec (ks : List (Mat α)) (d_out d_in : Nat) (hs : Shaped ks d_out d_in) (h : ks ≠ [])
    (X : Nat → Nat → α) :
    ∃ N, naturalRep ks = some N ∧ N.r = d_out * d_out ∧ N.c = d_in * d_in ∧
      ∀ a b, a < d_out → b < d_out →
        sumN (d_in * d_in) (fun q => N.e (a * d_out + b) q * vecR d_in X q)
          = vecR d_out (applySpec ks.length (fam ks) (fam ks) d_in d_in X) (a * d_out + b) := by
  obtain ⟨N, hN, hr, hc, he⟩ := naturalRep_e ks d_out d_in hs h
  refine ⟨N, hN, hr, hc, ?_⟩
  intro a b ha hb
  rw [naturalRep_vec_e N.e ks.length (fam ks) d_out d_in X he a b ha hb]
  obtain ⟨h1, h2⟩ := divmod_be a d_out b hb
  simp only [vecR, h1, h2]

/-! ## `channel_dim` -/

omit [CommSemiring α] [StarRing α] in
/-- **Dimension inference (pairs).**  For a well-formed paired list `channel_dim` returns the row/column
    dimensions of the input and output spaces read off the first pair, and the number of pairs. -/
theorem channelDim_pairs (as bs : List (Mat α)) (di0 di1 do0 do1 : Nat)
    (ha : Shaped as do0 di0) (hb : Shaped bs do1 di1) (hl : as.length = bs.length) (h : as ≠ []) :
    channelDimKraus (KrausArg.pairs as bs) true .none = .ok ⟨di0, di1, do0, do1, some as.length⟩ :=
  channelDimKraus_pairs as bs di0 di1 do0 do1 ha hb hl h

omit [CommSemiring α] [StarRing α] in
/-- **Dimension inference (one list).**  For a flat list the input and output spaces are square. -/
theorem channelDim_flat (ks : List (Mat α)) (d_in d_out : Nat) (hs : Shaped ks d_out d_in) (h : ks ≠ []) :
    channelDimKraus (KrausArg.flat ks) true .none = .ok ⟨d_in, d_in, d_out, d_out, some ks.length⟩ :=
  channelDimKraus_cp ks d_in d_out hs h

/-! ## the scalars of the compiled model -/

/-- **The driver's Gaussian integers are an instance of the theorems' hypotheses.**  `GI` with the core-class
    instances of `Toq/Core/Scalar.lean` (the ones the compiled driver computes with) is a commutative
    star-ring (`giCommRing`, `giStarRing`), and its `+`, `*`, `0`, `1` and conjugation are *definitionally* the
    ones these ring instances provide — so every theorem of this file speaks about the very functions the
    correspondence check runs. -/
theorem driver_scalars_are_a_star_ring :
    (inferInstanceAs (Add GI)) = giCommRing.toAdd ∧ (inferInstanceAs (Mul GI)) = giCommRing.toMul ∧
    (inferInstanceAs (Zero GI)) = giCommRing.toZero ∧ (inferInstanceAs (One GI)) = giCommRing.toOne ∧
    (instHasConjGI : HasConj GI) = starHasConj :=
  gi_instances_agree

/-! ## non-vacuity -/

/-- the hypotheses are satisfiable and the model computes: the transpose map on 2×2 matrices given by the
    four pairs `(E_ij, E_ji)`; its Choi matrix is the swap operator and both representations transpose `X` -/
example :
    let E : Nat → Nat → Mat Int := fun i j => ⟨2, 2, fun a b => if a = i ∧ b = j then 1 else 0⟩
    let as := [E 0 0, E 0 1, E 1 0, E 1 1]
    let bs := [E 0 0, E 1 0, E 0 1, E 1 1]
    let X : Mat Int := ⟨2, 2, fun a b => 2 * a + b + 1⟩
    ((applyKraus X (KrausArg.pairs as bs)).map (fun M => listOfFn 4 (fun p => M.e (p / 2) (p % 2)))) = some [1, 3, 2, 4] ∧
    ((krausToChoi (KrausArg.pairs as bs)).map (fun J => listOfFn 16 (fun p => J.e (p / 4) (p % 4))))
      = some [1, 0, 0, 0, 0, 0, 1, 0, 0, 1, 0, 0, 0, 0, 0, 1] ∧
    ((krausToChoi (KrausArg.pairs as bs)).map (fun J => listOfFn 4 (fun p => (applyChoi X J).e (p / 2) (p % 2))))
      = some [1, 3, 2, 4] := by
  decide

end Toq.C04
