import Toq.Proofs.Discrim
import Toq.Proofs.Metrics
/-!
# C10 — quantum state discrimination: weak duality and soundness of the certificate checkers

The optimisation problems are stated over `Matrix (Fin d) (Fin d) ℂ` with Mathlib's
`Matrix.PosSemidef`.  The executable checkers (`Toq.Model.Discrim`) work over exact Gaussian
rationals; `EMat.toM` is the denotation of an exact matrix, `Rat.cast` that of an exact number.

* minimum-error discrimination of `{(p_i, ρ_i)}`: maximise `successProb ρ p M = Σ_i p_i Re tr(ρ_i M_i)`
  over POVMs `M`; dual: minimise `Re tr Y` subject to `Y − p_i ρ_i ⪰ 0`;
* unambiguous discrimination in Gram form: maximise `Σ_i p_i q_i` subject to `q ≥ 0`,
  `G − diag q ⪰ 0`; dual: minimise `Re tr(G Z)` subject to `Z ⪰ 0`, `Re Z_ii ≥ p_i`.

First part: weak duality and soundness of the four certificate checkers.  Second part (after the checker
examples): the closed forms and laws the property states, for all dimensions and numbers of states –
value `≥` every prior and `≤ 1`, `= 1` for mutually orthogonal states, invariance under a common unitary and
under relabelling (as equality of the sets of attainable values `minErrValues`), the pretty good measurement is a
POVM below every dual bound, the Helstrom formula for two states (with the trace norm of C13), and for the
Gram-form unambiguous program: value `0` for linearly dependent states, `≤ Σ p_i`, and `1 − |⟨ψ|φ⟩|` for two
equiprobable pure states.  Not proved (cited; checked numerically by the harness): unambiguous `≤` minimum-error
value (needs Eldar's reduction of the Gram program to a POVM), Barnum–Knill `P_opt² ≤ P_pgm`.
-/

open Matrix
open scoped ComplexOrder MatrixOrder

namespace Toq.C10
open Toq.Discrim

variable {d k : Nat}

/-! ## The mathematical problems -/

/-- `M` is a `k`-outcome measurement on `ℂ^d` -/
def IsPOVM (M : Fin k → Matrix (Fin d) (Fin d) ℂ) : Prop := (∀ i, (M i).PosSemidef) ∧ ∑ i, M i = 1

/-- `Σ_i p_i · Re tr(ρ_i M_i)`: probability of identifying the state correctly with measurement `M` -/
noncomputable def successProb (ρ : Fin k → Matrix (Fin d) (Fin d) ℂ) (p : Fin k → ℝ)
    (M : Fin k → Matrix (Fin d) (Fin d) ℂ) : ℝ :=
  ∑ i, p i * (ρ i * M i).trace.re

/-- `Y` is feasible for the dual of minimum-error discrimination -/
def MinErrDualFeasible (ρ : Fin k → Matrix (Fin d) (Fin d) ℂ) (p : Fin k → ℝ)
    (Y : Matrix (Fin d) (Fin d) ℂ) : Prop :=
  ∀ i, (Y - (p i : ℂ) • ρ i).PosSemidef

/-- `q` is feasible for unambiguous discrimination with Gram matrix `G` -/
def UnambFeasible (G : Matrix (Fin k) (Fin k) ℂ) (q : Fin k → ℝ) : Prop :=
  (∀ i, 0 ≤ q i) ∧ (G - Matrix.diagonal fun i => (q i : ℂ)).PosSemidef

/-- `Z` is feasible for the dual of unambiguous discrimination with priors `p` -/
def UnambDualFeasible (p : Fin k → ℝ) (Z : Matrix (Fin k) (Fin k) ℂ) : Prop :=
  Z.PosSemidef ∧ ∀ i, p i ≤ (Z i i).re

/-! ## Denotation of checker inputs -/

/-- the states of an exact ensemble as complex matrices -/
def ensStates (ens : Ensemble d) : Fin ens.size → Matrix (Fin d) (Fin d) ℂ := fun i => (ens.state i).toM
/-- the prior probabilities of an exact ensemble as reals -/
def ensProbs (ens : Ensemble d) : Fin ens.size → ℝ := fun i => ((ens.prob i : Rat) : ℝ)
/-- first `k` matrices of a list as complex matrices -/
def mats (k : Nat) (M : List (EMat d d)) : Fin k → Matrix (Fin d) (Fin d) ℂ := fun i => (matAt M i).toM
/-- first `k` rationals of a list as reals -/
def rats (k : Nat) (p : List Rat) : Fin k → ℝ := fun i => ((ratAt p i : Rat) : ℝ)

/-! ## Minimum-error discrimination -/

/-- Weak duality: every measurement succeeds with probability at most `Re tr Y` for dual-feasible `Y`.
(No assumption on `ρ`, `p` or Hermiticity of `Y` is needed beyond the constraints themselves.) -/
theorem minErr_weak_duality (ρ : Fin k → Matrix (Fin d) (Fin d) ℂ) (p : Fin k → ℝ)
    (M : Fin k → Matrix (Fin d) (Fin d) ℂ) (Y : Matrix (Fin d) (Fin d) ℂ)
    (hM : IsPOVM M) (hY : MinErrDualFeasible ρ p Y) :
    successProb ρ p M ≤ Y.trace.re :=
  minErr_weak_duality_gen ρ p M Y hM.1 hM.2 hY

/-- If the primal checker accepts with value `lo`, the candidate is a POVM (with one element per state)
whose success probability is exactly `lo`; hence `lo` is a lower bound of the optimum. -/
theorem checkMinErrPrimal_sound (ens : Ensemble d) (M LM : List (EMat d d)) (lo : Rat)
    (h : checkMinErrPrimal ens M LM = some lo) :
    ens.probs.length = ens.size ∧ M.length = ens.size ∧
      IsPOVM (mats ens.size M) ∧
      successProb (ensStates ens) (ensProbs ens) (mats ens.size M) = (lo : ℝ) := by
  unfold checkMinErrPrimal at h
  split at h
  · next hl =>
    obtain ⟨h1, h2, -⟩ := (lens3Ok_iff _ _ _ _).mp hl
    obtain ⟨hp, hs, hv⟩ := checkMinErrPrimalFn_sound _ _ _ _ _ _ h
    exact ⟨h1, h2, ⟨hp, hs⟩, hv⟩
  · exact absurd h (by simp)

/-- If the dual checker accepts with value `hi`, every measurement on the ensemble succeeds with
probability at most `hi`. -/
theorem checkMinErrDual_sound (ens : Ensemble d) (Y : EMat d d) (LY : List (EMat d d)) (hi : Rat)
    (h : checkMinErrDual ens Y LY = some hi) :
    ∀ M' : Fin ens.size → Matrix (Fin d) (Fin d) ℂ, IsPOVM M' →
      successProb (ensStates ens) (ensProbs ens) M' ≤ (hi : ℝ) := by
  unfold checkMinErrDual at h
  split at h
  · next hl =>
    obtain ⟨hf, hv⟩ := checkMinErrDualFn_sound _ _ _ _ _ _ h
    intro M' hM'
    rw [← hv]
    exact minErr_weak_duality (ensStates ens) (ensProbs ens) M' Y.toM hM' hf
  · exact absurd h (by simp)

/-- Accepted primal and dual certificates bracket the optimum. -/
theorem minErr_lo_le_hi (ens : Ensemble d) (M LM : List (EMat d d)) (Y : EMat d d)
    (LY : List (EMat d d)) (lo hi : Rat)
    (hlo : checkMinErrPrimal ens M LM = some lo) (hhi : checkMinErrDual ens Y LY = some hi) :
    (lo : ℝ) ≤ (hi : ℝ) := by
  obtain ⟨-, -, hM, hv⟩ := checkMinErrPrimal_sound ens M LM lo hlo
  rw [← hv]
  exact checkMinErrDual_sound ens Y LY hi hhi _ hM

/-! ## Unambiguous discrimination (Gram form) -/

/-- Weak duality: `Σ_i p_i q_i ≤ Re tr(G Z)` for primal-feasible `q` and dual-feasible `Z`.
(`G` is arbitrary; `G − diag q ⪰ 0` already forces it to be Hermitian.) -/
theorem unamb_weak_duality (G Z : Matrix (Fin k) (Fin k) ℂ) (p q : Fin k → ℝ)
    (hq : UnambFeasible G q) (hZ : UnambDualFeasible p Z) :
    ∑ i, p i * q i ≤ (G * Z).trace.re :=
  unamb_weak_duality_gen G Z p q hq.1 hq.2 hZ.1 hZ.2

/-- If the primal checker accepts with value `lo`, then `q` is feasible and has objective value `lo`. -/
theorem checkUnambPrimal_sound (G : EMat k k) (p q : List Rat) (L : EMat k k) (lo : Rat)
    (h : checkUnambPrimal G p q L = some lo) :
    p.length = k ∧ q.length = k ∧ UnambFeasible G.toM (rats k q) ∧
      ∑ i, rats k p i * rats k q i = (lo : ℝ) := by
  unfold checkUnambPrimal at h
  split at h
  · next hl =>
    obtain ⟨h1, h2, -⟩ := (lens3Ok_iff _ _ _ _).mp hl
    obtain ⟨hq, hG, hv⟩ := checkUnambPrimalFn_sound _ _ _ _ _ h
    exact ⟨h1, h2, ⟨hq, hG⟩, hv⟩
  · exact absurd h (by simp)

/-- If the dual checker accepts with value `hi`, every feasible `q` has `Σ_i p_i q_i ≤ hi`. -/
theorem checkUnambDual_sound (G : EMat k k) (p : List Rat) (Z LZ : EMat k k) (hi : Rat)
    (h : checkUnambDual G p Z LZ = some hi) :
    ∀ q : Fin k → ℝ, UnambFeasible G.toM q → ∑ i, rats k p i * q i ≤ (hi : ℝ) := by
  unfold checkUnambDual at h
  split at h
  · next hl =>
    obtain ⟨hZ, hp, hv⟩ := checkUnambDualFn_sound _ _ _ _ _ h
    intro q hq
    rw [← hv]
    exact unamb_weak_duality G.toM Z.toM (rats k p) q hq ⟨hZ, hp⟩
  · exact absurd h (by simp)

/-- Accepted primal and dual certificates bracket the optimum. -/
theorem unamb_lo_le_hi (G : EMat k k) (p q : List Rat) (L Z LZ : EMat k k) (lo hi : Rat)
    (hlo : checkUnambPrimal G p q L = some lo) (hhi : checkUnambDual G p Z LZ = some hi) :
    (lo : ℝ) ≤ (hi : ℝ) := by
  obtain ⟨-, -, hq, hv⟩ := checkUnambPrimal_sound G p q L lo hlo
  rw [← hv]
  exact checkUnambDual_sound G p Z LZ hi hhi _ hq

/-! ## The checkers accept concrete instances

`|0⟩⟨0|` and `|+⟩⟨+|` with equal priors (optimum `(1 + 1/√2)/2 ≈ 0.8536`): an explicit rational POVM
with value `17/20` and a dual point with value `87/100`; and a complex Gram matrix with overlap
`3i/5` (optimum `2/5`, attained by both certificates). -/

section Examples

private def c2 (a b c d : QI) : EMat 2 2 := EMat.ofRows #[#[a, b], #[c, d]] 2 2
private def r2 (a b c d : Rat) : EMat 2 2 := c2 ⟨a, 0⟩ ⟨b, 0⟩ ⟨c, 0⟩ ⟨d, 0⟩

private def exEns : Ensemble 2 := ⟨[r2 1 0 0 0, r2 (1/2) (1/2) (1/2) (1/2)], [1/2, 1/2]⟩

example : checkMinErrPrimal exEns
    [r2 (17/20) (-7/20) (-7/20) (3/20), r2 (3/20) (7/20) (7/20) (17/20)]
    [r2 (23/25) 0 (-35/92) 0, r2 0 (35/92) 0 (23/25)] = some (17/20) := by decide +kernel

example : checkMinErrDual exEns (r2 (14/25) (1/8) (1/8) (31/100))
    [r2 (6/25) 0 (25/48) 0, r2 0 (-25/48) 0 (6/25)] = some (87/100) := by decide +kernel

private def exG : EMat 2 2 := c2 ⟨1, 0⟩ ⟨0, 3/5⟩ ⟨0, -3/5⟩ ⟨1, 0⟩

example : checkUnambPrimal exG [1/2, 1/2] [2/5, 2/5] (c2 ⟨3/4, 0⟩ ⟨0, 0⟩ ⟨0, -3/4⟩ ⟨0, 0⟩)
    = some (2/5) := by decide +kernel

example : checkUnambDual exG [1/2, 1/2] (c2 ⟨1/2, 0⟩ ⟨0, -1/2⟩ ⟨0, 1/2⟩ ⟨1/2, 0⟩)
    (c2 ⟨7/10, 0⟩ ⟨0, 0⟩ ⟨0, 7/10⟩ ⟨0, 0⟩) = some (2/5) := by decide +kernel

end Examples

/-! ## Elementary bounds on the minimum-error value -/

/-- the set of success probabilities attained by measurements on the ensemble `(ρ, p)`; the
minimum-error discrimination value is its supremum -/
def minErrValues (ρ : Fin k → Matrix (Fin d) (Fin d) ℂ) (p : Fin k → ℝ) : Set ℝ :=
  {v | ∃ M : Fin k → Matrix (Fin d) (Fin d) ℂ, IsPOVM M ∧ successProb ρ p M = v}

/-- the set of objective values of feasible points of the unambiguous (Gram-form) program -/
def unambValues (G : Matrix (Fin k) (Fin k) ℂ) (p : Fin k → ℝ) : Set ℝ :=
  {v | ∃ q : Fin k → ℝ, UnambFeasible G q ∧ ∑ i, p i * q i = v}

/-- The success probability of every measurement is non-negative (states PSD, priors `≥ 0`). -/
theorem minErr_nonneg (ρ : Fin k → Matrix (Fin d) (Fin d) ℂ) (p : Fin k → ℝ)
    (M : Fin k → Matrix (Fin d) (Fin d) ℂ) (hρ : ∀ i, (ρ i).PosSemidef) (hp : ∀ i, 0 ≤ p i)
    (hM : IsPOVM M) : 0 ≤ successProb ρ p M :=
  me_nonneg ρ p M hρ hp hM.1

/-- **At least the largest prior.**  For a unit-trace state `ρ_j` the measurement "always answer `j`"
(`M_j = 1`, the others `0`) is a POVM with success probability exactly `p_j`; hence the optimum is at least
every prior, in particular the largest one. -/
theorem minErr_ge_prior (ρ : Fin k → Matrix (Fin d) (Fin d) ℂ) (p : Fin k → ℝ) (j : Fin k)
    (hj : (ρ j).trace = 1) :
    ∃ M : Fin k → Matrix (Fin d) (Fin d) ℂ, IsPOVM M ∧ successProb ρ p M = p j := by
  refine ⟨meConstPovm j, ⟨meConstPovm_psd j, meConstPovm_sum j⟩, ?_⟩
  unfold successProb
  rw [meConstPovm_value, hj]
  simp

/-- Consequently every dual-feasible `Y` – in particular every upper bound `hi` accepted by the dual checker –
has `Re tr Y ≥ p_j` for every unit-trace state `ρ_j`. -/
theorem minErr_dual_ge_prior (ρ : Fin k → Matrix (Fin d) (Fin d) ℂ) (p : Fin k → ℝ) (j : Fin k)
    (hj : (ρ j).trace = 1) (Y : Matrix (Fin d) (Fin d) ℂ) (hY : MinErrDualFeasible ρ p Y) :
    p j ≤ Y.trace.re := by
  obtain ⟨M, hM, hv⟩ := minErr_ge_prior ρ p j hj
  rw [← hv]
  exact minErr_weak_duality ρ p M Y hM hY

/-- For PSD states and non-negative priors the average state `Y = Σ_j p_j ρ_j` is dual feasible. -/
theorem minErr_sum_dual_feasible (ρ : Fin k → Matrix (Fin d) (Fin d) ℂ) (p : Fin k → ℝ)
    (hρ : ∀ i, (ρ i).PosSemidef) (hp : ∀ i, 0 ≤ p i) :
    MinErrDualFeasible ρ p (∑ j, (p j : ℂ) • ρ j) :=
  me_sum_dual_feasible ρ p hρ hp

/-- **At most one.**  For density operators (PSD, unit trace) and a probability vector `p`, every measurement
succeeds with probability at most `1` (dual certificate `Y = Σ_j p_j ρ_j`, `tr Y = 1`). -/
theorem minErr_le_one (ρ : Fin k → Matrix (Fin d) (Fin d) ℂ) (p : Fin k → ℝ)
    (M : Fin k → Matrix (Fin d) (Fin d) ℂ) (hρ : ∀ i, (ρ i).PosSemidef)
    (htr : ∀ i, (ρ i).trace = 1) (hp : ∀ i, 0 ≤ p i) (hsum : ∑ i, p i = 1) (hM : IsPOVM M) :
    successProb ρ p M ≤ 1 := by
  have := me_le_sum_trace ρ p M hρ hp hM.1 hM.2
  simpa [successProb, htr, hsum] using this

/-! ## Mutually orthogonal states are perfectly distinguishable -/

/-- **Perfect discrimination with orthogonal projectors.**  Given Hermitian idempotents `Π_i` with
`Π_i Π_j = 0` (`i ≠ j`) and `ρ_i Π_i = ρ_i`, the measurement `M_i = Π_i` (`i ≠ j₀`),
`M_{j₀} = Π_{j₀} + (1 − Σ_l Π_l)` is a POVM with `ρ_i M_i = ρ_i`, so its success probability is
`Σ_i p_i Re tr ρ_i` (`= 1` for normalised states and priors). -/
theorem minErr_orthogonal_projectors (ρ Pr : Fin k → Matrix (Fin d) (Fin d) ℂ) (p : Fin k → ℝ)
    (j0 : Fin k) (hH : ∀ i, (Pr i).IsHermitian) (hI : ∀ i, Pr i * Pr i = Pr i)
    (hO : ∀ i j, i ≠ j → Pr i * Pr j = 0) (hρ : ∀ i, ρ i * Pr i = ρ i) :
    ∃ M : Fin k → Matrix (Fin d) (Fin d) ℂ, IsPOVM M ∧ (∀ i, ρ i * M i = ρ i) ∧
      successProb ρ p M = ∑ i, p i * (ρ i).trace.re := by
  refine ⟨meProjPovm Pr j0, ⟨meProjPovm_psd Pr j0 hH hI hO, meProjPovm_sum Pr j0⟩,
    meProjPovm_mul ρ Pr j0 hO hρ, ?_⟩
  unfold successProb
  exact Finset.sum_congr rfl fun i _ => by rw [meProjPovm_mul ρ Pr j0 hO hρ i]

/-- **Mutually orthogonal states: value 1.**  For `k ≥ 1` Hermitian states with `ρ_i ρ_j = 0` for `i ≠ j`
(the projectors are the support projectors `ρ_i ρ_i⁺`, obtained from the functional calculus) some POVM
has `ρ_i M_i = ρ_i` for every `i` and success probability `Σ_i p_i Re tr ρ_i`. -/
theorem minErr_orthogonal_attained (ρ : Fin k → Matrix (Fin d) (Fin d) ℂ) (p : Fin k → ℝ)
    (j0 : Fin k) (hH : ∀ i, (ρ i).IsHermitian) (hO : ∀ i j, i ≠ j → ρ i * ρ j = 0) :
    ∃ M : Fin k → Matrix (Fin d) (Fin d) ℂ, IsPOVM M ∧ (∀ i, ρ i * M i = ρ i) ∧
      successProb ρ p M = ∑ i, p i * (ρ i).trace.re :=
  minErr_orthogonal_projectors ρ (fun i => meSupp (ρ i)) p j0
    (fun i => meSupp_isHermitian (hH i)) (fun i => meSupp_idem (hH i))
    (fun i j hij => meSupp_mul_meSupp (hH i) (hO i j hij)) (fun i => mul_meSupp (hH i))

/-- **Mutually orthogonal density operators with a probability vector: the optimum is exactly 1** (it is
attained, and no measurement exceeds it). -/
theorem minErr_orthogonal_eq_one (ρ : Fin k → Matrix (Fin d) (Fin d) ℂ) (p : Fin k → ℝ)
    (hρ : ∀ i, (ρ i).PosSemidef) (htr : ∀ i, (ρ i).trace = 1) (hp : ∀ i, 0 ≤ p i)
    (hsum : ∑ i, p i = 1) (hO : ∀ i j, i ≠ j → ρ i * ρ j = 0) :
    IsGreatest (minErrValues ρ p) 1 := by
  constructor
  · have hk : 0 < k := by
      rcases Nat.eq_zero_or_pos k with h | h
      · subst h; simp at hsum
      · exact h
    obtain ⟨M, hM, -, hv⟩ := minErr_orthogonal_attained ρ p ⟨0, hk⟩ (fun i => (hρ i).isHermitian) hO
    refine ⟨M, hM, ?_⟩
    rw [hv]
    simp [htr, hsum]
  · rintro v ⟨M, hM, rfl⟩
    exact minErr_le_one ρ p M hρ htr hp hsum hM

/-! ## Invariance under a common unitary and under relabelling -/

/-- the ensemble or the measurement rotated by a common `U` -/
def rot (U : Matrix (Fin d) (Fin d) ℂ) (A : Fin k → Matrix (Fin d) (Fin d) ℂ) :
    Fin k → Matrix (Fin d) (Fin d) ℂ := fun i => U * A i * Uᴴ

/-- Conjugating the states and the measurement by the same unitary `U` maps POVMs to POVMs and preserves
the success probability. -/
theorem minErr_unitary_invariant (U : Matrix (Fin d) (Fin d) ℂ)
    (hU : U ∈ Matrix.unitaryGroup (Fin d) ℂ) (ρ : Fin k → Matrix (Fin d) (Fin d) ℂ) (p : Fin k → ℝ)
    (M : Fin k → Matrix (Fin d) (Fin d) ℂ) (hM : IsPOVM M) :
    IsPOVM (rot U M) ∧ successProb (rot U ρ) p (rot U M) = successProb ρ p M := by
  have h1 : Uᴴ * U = 1 := by
    simpa [Matrix.star_eq_conjTranspose] using Matrix.mem_unitaryGroup_iff'.mp hU
  have h2 : U * Uᴴ = 1 := by
    simpa [Matrix.star_eq_conjTranspose] using Matrix.mem_unitaryGroup_iff.mp hU
  refine ⟨⟨fun i => me_conj_psd U (M i) (hM.1 i), ?_⟩, ?_⟩
  · unfold rot
    rw [me_conj_sum, hM.2, Matrix.mul_one, h2]
  · unfold successProb rot
    exact Finset.sum_congr rfl fun i _ => by rw [me_conj_trace_mul U (ρ i) (M i) h1]

/-- **Unitary invariance of the value.**  The set of success probabilities attained by POVMs is the same for
the rotated ensemble `U ρ_i Uᴴ` and for the original one (`M ↦ U M Uᴴ` is a bijection of the feasible
set); in particular the optima agree. -/
theorem minErr_values_unitary_invariant (U : Matrix (Fin d) (Fin d) ℂ)
    (hU : U ∈ Matrix.unitaryGroup (Fin d) ℂ) (ρ : Fin k → Matrix (Fin d) (Fin d) ℂ) (p : Fin k → ℝ) :
    minErrValues (rot U ρ) p = minErrValues ρ p := by
  have h1 : Uᴴ * U = 1 := by
    simpa [Matrix.star_eq_conjTranspose] using Matrix.mem_unitaryGroup_iff'.mp hU
  have hU' : Uᴴ ∈ Matrix.unitaryGroup (Fin d) ℂ := by
    have := Unitary.star_mem hU
    simpa [Matrix.star_eq_conjTranspose] using this
  have hback : rot Uᴴ (rot U ρ) = ρ := by
    funext i
    exact me_conj_conj U (ρ i) h1
  ext v
  constructor
  · rintro ⟨M, hM, hv⟩
    obtain ⟨hM', hv'⟩ := minErr_unitary_invariant Uᴴ hU' (rot U ρ) p M hM
    rw [hback] at hv'
    exact ⟨rot Uᴴ M, hM', hv'.trans hv⟩
  · rintro ⟨M, hM, hv⟩
    obtain ⟨hM', hv'⟩ := minErr_unitary_invariant U hU ρ p M hM
    exact ⟨rot U M, hM', hv'.trans hv⟩

/-- Relabelling states, priors and measurement operators by the same permutation `σ` maps POVMs to POVMs
and preserves the success probability. -/
theorem minErr_relabel_invariant (σ : Equiv.Perm (Fin k)) (ρ : Fin k → Matrix (Fin d) (Fin d) ℂ)
    (p : Fin k → ℝ) (M : Fin k → Matrix (Fin d) (Fin d) ℂ) (hM : IsPOVM M) :
    IsPOVM (M ∘ σ) ∧ successProb (ρ ∘ σ) (p ∘ σ) (M ∘ σ) = successProb ρ p M := by
  refine ⟨⟨fun i => hM.1 (σ i), ?_⟩, ?_⟩
  · rw [← hM.2]
    exact Equiv.sum_comp σ M
  · unfold successProb
    exact Equiv.sum_comp σ fun i => p i * (ρ i * M i).trace.re

/-- **Relabelling invariance of the value.**  The set of attained success probabilities of the relabelled
ensemble `(ρ ∘ σ, p ∘ σ)` equals that of `(ρ, p)`; in particular the optima agree. -/
theorem minErr_values_relabel_invariant (σ : Equiv.Perm (Fin k))
    (ρ : Fin k → Matrix (Fin d) (Fin d) ℂ) (p : Fin k → ℝ) :
    minErrValues (ρ ∘ σ) (p ∘ σ) = minErrValues ρ p := by
  ext v
  constructor
  · rintro ⟨M, hM, hv⟩
    obtain ⟨hM', hv'⟩ := minErr_relabel_invariant σ⁻¹ (ρ ∘ σ) (p ∘ σ) M hM
    have e1 : (ρ ∘ σ) ∘ ⇑σ⁻¹ = ρ := by funext i; simp
    have e2 : (p ∘ σ) ∘ ⇑σ⁻¹ = p := by funext i; simp
    rw [e1, e2] at hv'
    exact ⟨M ∘ ⇑σ⁻¹, hM', hv'.trans hv⟩
  · rintro ⟨M, hM, hv⟩
    obtain ⟨hM', hv'⟩ := minErr_relabel_invariant σ ρ p M hM
    exact ⟨M ∘ σ, hM', hv'.trans hv⟩

/-! ## Pretty good measurement -/

/-- **The pretty good measurement is a POVM, so its success probability is below every dual bound.**  For PSD
states, priors `≥ 0` and a Hermitian `S` with `S (Σ_i p_i ρ_i) S = 1` (`S = (Σ_i p_i ρ_i)^{-1/2}`), the
operators `S (p_i ρ_i) S` form a POVM; its success probability is therefore a member of `minErrValues` and is
at most `Re tr Y` for every dual-feasible `Y` (in particular at most every accepted `hi`). -/
theorem pgm_le_dual (ρ : Fin k → Matrix (Fin d) (Fin d) ℂ) (p : Fin k → ℝ)
    (S : Matrix (Fin d) (Fin d) ℂ) (hρ : ∀ i, (ρ i).PosSemidef) (hp : ∀ i, 0 ≤ p i) (hS : Sᴴ = S)
    (hSPS : S * (∑ i, (p i : ℂ) • ρ i) * S = 1) :
    IsPOVM (fun i => S * ((p i : ℂ) • ρ i) * S) ∧
      ∀ Y, MinErrDualFeasible ρ p Y →
        successProb ρ p (fun i => S * ((p i : ℂ) • ρ i) * S) ≤ Y.trace.re := by
  have hP : IsPOVM (fun i => S * ((p i : ℂ) • ρ i) * S) :=
    ⟨fun i => me_pgm_psd ρ p S hρ hp hS i, by rw [me_pgm_sum, hSPS]⟩
  exact ⟨hP, fun Y hY => minErr_weak_duality ρ p _ Y hP hY⟩

/-! ## Two states: the Helstrom bound -/

/-- **Helstrom, upper half.**  For two states and any decomposition `p₀ρ₀ − p₁ρ₁ = P − Q` with `P, Q ⪰ 0`
the operator `Y = p₁ρ₁ + P` (`= p₀ρ₀ + Q`) is dual feasible; hence every measurement succeeds with
probability at most `p₁ Re tr ρ₁ + Re tr P`. -/
theorem helstrom_upper (ρ : Fin 2 → Matrix (Fin d) (Fin d) ℂ) (p : Fin 2 → ℝ)
    (P Q : Matrix (Fin d) (Fin d) ℂ) (hP : P.PosSemidef) (hQ : Q.PosSemidef)
    (hPQ : (p 0 : ℂ) • ρ 0 - (p 1 : ℂ) • ρ 1 = P - Q)
    (M : Fin 2 → Matrix (Fin d) (Fin d) ℂ) (hM : IsPOVM M) :
    successProb ρ p M ≤ p 1 * (ρ 1).trace.re + P.trace.re := by
  have hY : MinErrDualFeasible ρ p ((p 1 : ℂ) • ρ 1 + P) := by
    refine Fin.forall_fin_two.mpr ⟨?_, ?_⟩
    · have e : (p 1 : ℂ) • ρ 1 + P - (p 0 : ℂ) • ρ 0 = Q := by
        have : (p 0 : ℂ) • ρ 0 = (p 1 : ℂ) • ρ 1 + (P - Q) := by rw [← hPQ]; abel
        rw [this]; abel
      rw [e]; exact hQ
    · have e : (p 1 : ℂ) • ρ 1 + P - (p 1 : ℂ) • ρ 1 = P := by abel
      rw [e]; exact hP
  have := minErr_weak_duality ρ p M _ hM hY
  rwa [Matrix.trace_add, Complex.add_re, Matrix.trace_smul, smul_eq_mul, Complex.re_ofReal_mul] at this

/-- **Helstrom, lower half.**  For every test `0 ⪯ E ⪯ 1` the pair `(E, 1 − E)` is a POVM with success
probability `p₁ Re tr ρ₁ + Re tr((p₀ρ₀ − p₁ρ₁) E)`.  (With `E` the projector on the positive part `P` of
`p₀ρ₀ − p₁ρ₁` this is the bound of `helstrom_upper`.) -/
theorem helstrom_lower (ρ : Fin 2 → Matrix (Fin d) (Fin d) ℂ) (p : Fin 2 → ℝ)
    (E : Matrix (Fin d) (Fin d) ℂ) (hE : E.PosSemidef) (hE' : (1 - E).PosSemidef) :
    IsPOVM ![E, 1 - E] ∧
      successProb ρ p ![E, 1 - E]
        = p 1 * (ρ 1).trace.re + (((p 0 : ℂ) • ρ 0 - (p 1 : ℂ) • ρ 1) * E).trace.re := by
  refine ⟨⟨fun i => ?_, ?_⟩, ?_⟩
  · fin_cases i
    · exact hE
    · exact hE'
  · rw [Fin.sum_univ_two]; simp
  · unfold successProb
    rw [Fin.sum_univ_two]
    exact me_two_value (ρ 0) (ρ 1) E (p 0) (p 1)

/-- **Helstrom formula.**  For two Hermitian states the attainable success probabilities are exactly the
numbers `½(p₀ tr ρ₀ + p₁ tr ρ₁) + ½ Re tr(W (p₀ρ₀ − p₁ρ₁))` with `W` a contraction (`−1 ⪯ W ⪯ 1`; the
measurement is `((1+W)/2, (1−W)/2)`), so their least upper bound – the minimum-error value – is
`½(p₀ tr ρ₀ + p₁ tr ρ₁) + ½ ‖p₀ρ₀ − p₁ρ₁‖₁`, with the trace norm in the max form of C13
(`Toq.C13.traceNorm = Toq.Metrics.traceNormV`); for normalised states and priors: `½ + ½ ‖p₀ρ₀ − p₁ρ₁‖₁`. -/
theorem helstrom_isLUB (ρ : Fin 2 → Matrix (Fin d) (Fin d) ℂ) (p : Fin 2 → ℝ)
    (hρ : ∀ i, (ρ i).IsHermitian) :
    IsLUB (minErrValues ρ p)
      ((p 0 * (ρ 0).trace.re + p 1 * (ρ 1).trace.re) / 2
        + Toq.Metrics.traceNormV ((p 0 : ℂ) • ρ 0 - (p 1 : ℂ) • ρ 1) / 2) := by
  have hH : ((p 0 : ℂ) • ρ 0 - (p 1 : ℂ) • ρ 1).IsHermitian := by
    refine Matrix.IsHermitian.sub ?_ ?_
    · exact IsSelfAdjoint.smul (by simp [IsSelfAdjoint]) (hρ 0)
    · exact IsSelfAdjoint.smul (by simp [IsSelfAdjoint]) (hρ 1)
  constructor
  · rintro v ⟨M, hM, rfl⟩
    have hs : M 0 + M 1 = 1 := by rw [← hM.2, Fin.sum_univ_two]
    obtain ⟨e0, e1⟩ := me_two_povm_eq (M 0) (M 1) hs
    have hW : Toq.Metrics.IsContraction (M 0 - M 1) := me_two_contraction _ _ (hM.1 0) (hM.1 1) hs
    have hv : successProb ρ p M = (p 0 * (ρ 0).trace.re + p 1 * (ρ 1).trace.re) / 2
        + ((M 0 - M 1) * ((p 0 : ℂ) • ρ 0 - (p 1 : ℂ) • ρ 1)).trace.re / 2 := by
      have := me_two_value_contraction (ρ 0) (ρ 1) (M 0 - M 1) (p 0) (p 1)
      rw [← e0, ← e1] at this
      unfold successProb
      rw [Fin.sum_univ_two]
      exact this
    rw [hv]
    have := Toq.Metrics.le_traceNormV_gen hH hW
    linarith
  · intro b hb
    have h1 : ∀ x ∈ Toq.Metrics.tnSet ((p 0 : ℂ) • ρ 0 - (p 1 : ℂ) • ρ 1),
        x ≤ 2 * (b - (p 0 * (ρ 0).trace.re + p 1 * (ρ 1).trace.re) / 2) := by
      rintro x ⟨W, hW, rfl⟩
      have hmem : (p 0 * (ρ 0).trace.re + p 1 * (ρ 1).trace.re) / 2
          + (W * ((p 0 : ℂ) • ρ 0 - (p 1 : ℂ) • ρ 1)).trace.re / 2 ∈ minErrValues ρ p := by
        refine ⟨![(1 / 2 : ℂ) • (1 + W), (1 / 2 : ℂ) • (1 - W)], ⟨fun i => ?_, ?_⟩, ?_⟩
        · fin_cases i
          · exact me_half_psd hW.2
          · exact me_half_psd hW.1
        · rw [Fin.sum_univ_two]; exact me_half_sum W
        · unfold successProb
          rw [Fin.sum_univ_two]
          exact me_two_value_contraction (ρ 0) (ρ 1) W (p 0) (p 1)
      have := hb hmem
      linarith
    have := csSup_le (Toq.Metrics.tnSet_nonempty _) h1
    unfold Toq.Metrics.traceNormV
    linarith

/-- **Helstrom formula, normalised.**  For two unit-trace Hermitian states and priors `p₀ + p₁ = 1` the
minimum-error value (least upper bound of the attainable success probabilities) is `½ + ½ ‖p₀ρ₀ − p₁ρ₁‖₁`. -/
theorem helstrom_isLUB_normalised (ρ : Fin 2 → Matrix (Fin d) (Fin d) ℂ) (p : Fin 2 → ℝ)
    (hρ : ∀ i, (ρ i).IsHermitian) (htr : ∀ i, (ρ i).trace = 1) (hp : p 0 + p 1 = 1) :
    IsLUB (minErrValues ρ p)
      (1 / 2 + Toq.Metrics.traceNormV ((p 0 : ℂ) • ρ 0 - (p 1 : ℂ) • ρ 1) / 2) := by
  have := helstrom_isLUB ρ p hρ
  rwa [htr, htr, Complex.one_re, mul_one, mul_one, hp] at this

/-! ## Unambiguous discrimination (Gram form): dependent states, trivial bounds, two states -/

/-- `q = 0` is feasible for a PSD Gram matrix: the unambiguous value is `≥ 0`. -/
theorem unamb_zero_feasible (G : Matrix (Fin k) (Fin k) ℂ) (hG : G.PosSemidef) :
    UnambFeasible G (fun _ => 0) :=
  ⟨fun _ => le_refl _, by simpa using hG⟩

/-- For priors `≥ 0` the dual point `Z = diag p` shows `Σ_i p_i q_i ≤ Σ_i p_i Re G_ii` for every feasible `q`
(`= Σ_i p_i ≤ 1` for unit vectors). -/
theorem unamb_le_sum_prior (G : Matrix (Fin k) (Fin k) ℂ) (p q : Fin k → ℝ) (hp : ∀ i, 0 ≤ p i)
    (hq : UnambFeasible G q) : ∑ i, p i * q i ≤ ∑ i, p i * (G i i).re := by
  rw [← ua_trace_mul_diagonal]
  exact unamb_weak_duality G _ p q hq ⟨ua_diagonal_psd p hp, fun i => by simp⟩

/-- **Linearly dependent states cannot be identified unambiguously.**  If the Gram matrix has a kernel vector
`c` (`G c = 0`, i.e. `Σ_i c_i |ψ_i⟩ = 0`) with `c_j ≠ 0` – state `j` lies in the span of the others – then every
feasible `q` has `q_j = 0`. -/
theorem unamb_zero_of_dependent (G : Matrix (Fin k) (Fin k) ℂ) (q : Fin k → ℝ) (c : Fin k → ℂ)
    (hq : UnambFeasible G q) (hc : G *ᵥ c = 0) (j : Fin k) (hj : c j ≠ 0) : q j = 0 :=
  ua_zero_of_kernel G q c hq.1 hq.2 hc j hj

/-- The same for the Gram matrix `VᴴV` of the columns of `V`: a linear relation `V c = 0` with `c_j ≠ 0`
forces `q_j = 0`. -/
theorem unamb_zero_of_dependent_vectors (V : Matrix (Fin d) (Fin k) ℂ) (q : Fin k → ℝ)
    (c : Fin k → ℂ) (hq : UnambFeasible (Vᴴ * V) q) (hc : V *ᵥ c = 0) (j : Fin k) (hj : c j ≠ 0) :
    q j = 0 := by
  refine unamb_zero_of_dependent (Vᴴ * V) q c hq ?_ j hj
  rw [← Matrix.mulVec_mulVec, hc, Matrix.mulVec_zero]

/-- If every state is dependent on the others (for every `j` some kernel vector has `c_j ≠ 0`), the
unambiguous value vanishes: every feasible point has objective `0`. -/
theorem unamb_value_zero_of_all_dependent (G : Matrix (Fin k) (Fin k) ℂ) (p q : Fin k → ℝ)
    (hq : UnambFeasible G q) (hdep : ∀ j, ∃ c : Fin k → ℂ, G *ᵥ c = 0 ∧ c j ≠ 0) :
    ∑ i, p i * q i = 0 := by
  refine Finset.sum_eq_zero fun j _ => ?_
  obtain ⟨c, hc, hj⟩ := hdep j
  rw [unamb_zero_of_dependent G q c hq hc j hj, mul_zero]

/-- Gram matrix of two unit vectors with overlap `s = ⟨ψ|φ⟩` -/
def gram2 (s : ℂ) : Matrix (Fin 2) (Fin 2) ℂ := !![1, s; (starRingEnd ℂ) s, 1]

/-- **Two equiprobable pure states: value `1 − |⟨ψ|φ⟩|`.**  For the Gram matrix of two unit vectors with
overlap `s` (`|s| ≤ 1`) and priors `(½, ½)`: `q = (1 − |s|, 1 − |s|)` is feasible with objective `1 − |s|`, and the
dual point `Z = ½ [[1, −u], [−ū, 1]]`, `u = s/|s|`, shows that no feasible point does better. -/
theorem unamb_two_states (s : ℂ) (hs : ‖s‖ ≤ 1) :
    IsGreatest (unambValues (gram2 s) fun _ => 1 / 2) (1 - ‖s‖) := by
  constructor
  · refine ⟨fun _ => 1 - ‖s‖, ⟨fun _ => by linarith, ?_⟩, ?_⟩
    · have h := ua_psd_two ‖s‖ s (le_refl _)
      have e : gram2 s - Matrix.diagonal (fun _ : Fin 2 => (((1 - ‖s‖ : ℝ)) : ℂ))
          = !![(‖s‖ : ℂ), s; (starRingEnd ℂ) s, (‖s‖ : ℂ)] := by
        ext i j
        fin_cases i <;> fin_cases j <;> simp [gram2]
      rw [e]; exact h
    · rw [Fin.sum_univ_two]; ring
  · rintro v ⟨q, hq, rfl⟩
    have hb : ‖-(s / (‖s‖ : ℂ)) / 2‖ ≤ 1 / 2 := by
      have h2 : ‖(2 : ℂ)‖ = 2 := by simp
      rw [norm_div, norm_neg, h2]
      have := ua_norm_phase_le s
      linarith
    have hZ := ua_psd_two (1 / 2) (-(s / (‖s‖ : ℂ)) / 2) hb
    have hd : UnambDualFeasible (fun _ : Fin 2 => (1 / 2 : ℝ))
        !![((1 / 2 : ℝ) : ℂ), -(s / (‖s‖ : ℂ)) / 2;
          (starRingEnd ℂ) (-(s / (‖s‖ : ℂ)) / 2), ((1 / 2 : ℝ) : ℂ)] := by
      refine ⟨hZ, fun i => ?_⟩
      fin_cases i <;> simp
    have h := unamb_weak_duality (gram2 s) _ _ q hq hd
    refine h.trans (le_of_eq ?_)
    have h1 := ua_mul_conj_phase s
    have h2 : (starRingEnd ℂ) s * (s / (‖s‖ : ℂ)) = (‖s‖ : ℂ) := by
      have := congrArg (starRingEnd ℂ) h1
      simpa [mul_comm] using this
    have ht : ∀ u : ℂ, (gram2 s * !![((1 / 2 : ℝ) : ℂ), -u / 2;
        (starRingEnd ℂ) (-u / 2), ((1 / 2 : ℝ) : ℂ)]).trace
        = 1 - (s * (starRingEnd ℂ) u + (starRingEnd ℂ) s * u) / 2 := by
      intro u
      simp [gram2, Matrix.trace_fin_two, Complex.conj_ofNat]
      ring
    rw [ht, h1, h2]
    simp

/-- The same for two unit vectors given as the columns of `V` (Gram matrix `VᴴV`, overlap
`s = (VᴴV)₀₁ = ⟨ψ|φ⟩`; `|s| ≤ 1` is Cauchy–Schwarz): the unambiguous value for equal priors is `1 − |⟨ψ|φ⟩|`. -/
theorem unamb_two_unit_vectors (V : Matrix (Fin d) (Fin 2) ℂ) (h0 : (Vᴴ * V) 0 0 = 1)
    (h1 : (Vᴴ * V) 1 1 = 1) :
    IsGreatest (unambValues (Vᴴ * V) fun _ => 1 / 2) (1 - ‖(Vᴴ * V) 0 1‖) := by
  have hG : (Vᴴ * V).PosSemidef := Matrix.posSemidef_conjTranspose_mul_self V
  have e : Vᴴ * V = gram2 ((Vᴴ * V) 0 1) := ua_gram2_eq _ hG.isHermitian h0 h1
  have hs := ua_offdiag_le_one _ hG h0 h1
  have := unamb_two_states ((Vᴴ * V) 0 1) hs
  rwa [← e] at this

/-! ## The hypotheses are satisfiable -/

section Examples2

/-- hypotheses of `minErr_orthogonal_eq_one` / `helstrom_upper`: `|0⟩⟨0|`, `|1⟩⟨1|` with priors `(1/4, 3/4)`;
`p₀ρ₀ − p₁ρ₁ = P − Q` with `P = diag(1/4, 0)`, `Q = diag(0, 3/4)` -/
example : let ρ : Fin 2 → Matrix (Fin 2) (Fin 2) ℂ := fun i => Matrix.diagonal fun j => if j = i then 1 else 0
    let p : Fin 2 → ℝ := ![1 / 4, 3 / 4]
    (∀ i, (ρ i).PosSemidef) ∧ (∀ i, (ρ i).trace = 1) ∧ (∀ i, 0 ≤ p i) ∧ ∑ i, p i = 1 ∧
      (∀ i j, i ≠ j → ρ i * ρ j = 0) ∧
      (p 0 : ℂ) • ρ 0 - (p 1 : ℂ) • ρ 1
        = Matrix.diagonal ![(1 / 4 : ℂ), 0] - Matrix.diagonal ![(0 : ℂ), 3 / 4] := by
  intro ρ p
  refine ⟨fun i => Matrix.PosSemidef.diagonal fun j => ?_, fun i => ?_, fun i => ?_, ?_, ?_, ?_⟩
  · show (0 : ℂ) ≤ if j = i then 1 else 0
    split_ifs
    · exact zero_le_one
    · exact le_refl _
  · fin_cases i <;> simp [ρ, Matrix.trace]
  · fin_cases i <;> norm_num [p]
  · simp [p, Fin.sum_univ_two]; norm_num
  · intro i j hij
    fin_cases i <;> fin_cases j <;> simp_all [ρ, Matrix.diagonal_mul_diagonal]
  · ext a b
    fin_cases a <;> fin_cases b <;> simp [ρ, p]

/-- hypotheses of `unamb_value_zero_of_all_dependent`: `ψ₀ = ψ₁` (Gram matrix all ones, kernel vector `(1, −1)`) -/
example : let G : Matrix (Fin 2) (Fin 2) ℂ := !![1, 1; 1, 1]
    UnambFeasible G (fun _ => 0) ∧ ∀ j, ∃ c : Fin 2 → ℂ, G *ᵥ c = 0 ∧ c j ≠ 0 := by
  intro G
  constructor
  · refine unamb_zero_feasible G ?_
    have := ua_psd_two 1 1 (by simp)
    simpa [G] using this
  · intro j
    refine ⟨![1, -1], ?_, ?_⟩
    · ext i; fin_cases i <;> simp [G, Matrix.mulVec, dotProduct, Fin.sum_univ_two]
    · fin_cases j <;> simp

/-- hypothesis of `unamb_two_states`: overlap `3i/5` (value `2/5`, cf. the checker example above) -/
example : ‖(⟨0, 3 / 5⟩ : ℂ)‖ ≤ 1 := by
  have : (⟨0, 3 / 5⟩ : ℂ) = ((3 / 5 : ℝ) : ℂ) * Complex.I := by
    apply Complex.ext <;> simp
  rw [this, norm_mul, Complex.norm_I, Complex.norm_real]
  norm_num

end Examples2

end Toq.C10
